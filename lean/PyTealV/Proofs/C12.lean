/-
  C12 — `assembleConstants=True` changes how constants load, not their values.
  Theorems about the model `PyTealV.Models.Constants.createConstantBlocks`, for ALL op lists.
-/
import PyTealV.Proofs.C12Lemmas
import PyTealV.Avm.Syntax
namespace PyTealV.Proofs.C12
open PyTealV PyTealV.Util PyTealV.Models.Constants

/-! ### Structure of the second loop -/

theorem rewriteAll_length (p : Plan) : ∀ (ops : List Comp) (ss : List Site), ss.length = ops.length →
    (rewriteAll p ops ss).length = ops.length
  | [], _, _ => by simp [rewriteAll]
  | _ :: cs, [], h => by simp at h
  | _ :: cs, _ :: ss, h => by
    simp only [rewriteAll, List.length_cons] at h ⊢
    rw [rewriteAll_length p cs ss (by omega)]

theorem classifyAll_length (sha : Bytes → Bytes) : ∀ (ops : List Comp) (ss : List Site),
    classifyAll sha ops = .ok ss → ss.length = ops.length
  | [], ss, h => by simp [classifyAll] at h; subst h; rfl
  | c :: cs, ss, h => by
    unfold classifyAll at h
    split at h
    · cases h
    · split at h
      · cases h
      · rename_i ss' h'
        cases h
        simp [classifyAll_length sha cs ss' h']

/-- position by position: the site is what `classify` says, the output is `rewriteOne` of it -/
theorem body_get (sha : Bytes → Bytes) (p : Plan) : ∀ (ops : List Comp) (ss : List Site),
    classifyAll sha ops = .ok ss → ∀ (i : Nat) (c : Comp), ops[i]? = some c →
    ∃ s, ss[i]? = some s ∧ classify sha c = .ok s ∧ (rewriteAll p ops ss)[i]? = some (rewriteOne p c s)
  | [], _, _, i, c, hc => by simp at hc
  | c0 :: cs, ss, h, i, c, hc => by
    unfold classifyAll at h
    split at h
    · cases h
    · rename_i s0 hs0
      split at h
      · cases h
      · rename_i ss' h'
        cases h
        cases i with
        | zero =>
          simp at hc; subst hc
          exact ⟨s0, by simp, hs0, by simp [rewriteAll]⟩
        | succ j =>
          simp at hc
          obtain ⟨s, h1, h2, h3⟩ := body_get sha p cs ss' h' j c hc
          exact ⟨s, by simpa using h1, h2, by simpa [rewriteAll] using h3⟩

theorem mem_intVals : ∀ {ss : List Site} {i : Nat} {v : IVal}, ss[i]? = some (.int v) → v ∈ intVals ss
  | [], i, v, h => by simp at h
  | s :: r, 0, v, h => by simp at h; subst h; simp [intVals]
  | s :: r, i + 1, v, h => by
    simp at h
    have := mem_intVals h
    cases s <;> simp [intVals, this]

theorem mem_byteVals : ∀ {ss : List Site} {i : Nat} {v : BVal}, ss[i]? = some (.byt v) → v ∈ byteVals ss
  | [], i, v, h => by simp at h
  | s :: r, 0, v, h => by simp at h; subst h; simp [byteVals]
  | s :: r, i + 1, v, h => by
    simp at h
    have := mem_byteVals h
    cases s <;> simp [byteVals, this]

/-! ### Which Python `str` values a byte constant can take -/

theorem map_ok {ε α β : Type} {f : α → β} {x : Except ε α} {v : β} (h : x.map f = .ok v) :
    ∃ y, x = .ok y ∧ v = f y := by
  cases x with
  | error e => simp [Except.map] at h
  | ok y => simp [Except.map] at h; exact ⟨y, rfl, h.symm⟩

theorem extractBytes_wf {args : List Arg} {v : BVal} (h : extractBytes args = .ok v) : BVal.wf v := by
  unfold extractBytes at h
  split at h
  · rename_i s
    simp only at h
    split at h
    · cases h; rename_i ht; exact Or.inl ht
    split at h
    · obtain ⟨y, _, rfl⟩ := map_ok h; trivial
    split at h
    · split at h
      · cases h
      · obtain ⟨y, _, rfl⟩ := map_ok h; trivial
    split at h
    · obtain ⟨y, _, rfl⟩ := map_ok h; trivial
    split at h
    · obtain ⟨y, _, rfl⟩ := map_ok h; trivial
    · cases h
  · cases h

theorem extractAddr_wf {sha : Bytes → Bytes} {args : List Arg} {v : BVal} (h : extractAddr sha args = .ok v) :
    BVal.wf v := by
  unfold extractAddr at h
  split at h
  · rename_i s
    split at h
    · cases h; rename_i ht; exact Or.inl ht
    · unfold decodeAddress at h
      simp only at h
      split at h
      · cases h; rename_i he
        right
        simpa [codes] using he
      split at h
      · cases h
      split at h
      · cases h
      split at h
      · cases h
      · split at h
        · cases h; trivial
        · cases h
  · cases h

theorem extractMethod_wf {sha : Bytes → Bytes} {args : List Arg} {v : BVal} (h : extractMethod sha args = .ok v) :
    BVal.wf v := by
  unfold extractMethod at h
  split at h
  · simp only at h
    split at h
    · cases h
    · split at h
      · cases h; trivial
      · cases h
  · cases h

theorem classify_byt_wf {sha : Bytes → Bytes} {c : Comp} {v : BVal} (h : classify sha c = .ok (.byt v)) :
    BVal.wf v := by
  unfold classify at h
  split at h
  · cases h
  · split at h
    · obtain ⟨y, _, e⟩ := map_ok h; cases e
    split at h
    · obtain ⟨y, hy, e⟩ := map_ok h; cases e; exact extractBytes_wf hy
    split at h
    · obtain ⟨y, hy, e⟩ := map_ok h; cases e; exact extractAddr_wf hy
    split at h
    · obtain ⟨y, hy, e⟩ := map_ok h; cases e; exact extractMethod_wf hy
    · cases h

theorem classify_raw_or_op {sha : Bytes → Bytes} {c : Comp} {s : Site} (h : classify sha c = .ok s) (hs : s ≠ .none) :
    ∃ name args, c = .op name args := by
  cases c with
  | raw t => simp [classify] at h; exact absurd h.symm hs
  | op n a => exact ⟨n, a, rfl⟩

theorem refOf_intRef (k : Nat) (args : List Arg) : refOf (intRef k args) = some (false, k) := by
  unfold intRef
  split
  · subst_vars; simp [refOf]
  split
  · subst_vars; simp [refOf]
  split
  · subst_vars; simp [refOf]
  split
  · subst_vars; simp [refOf]
  · have : ¬ ((k : Int) < 0) := by omega
    simp [refOf, this]

theorem refOf_byteRef (k : Nat) (args : List Arg) : refOf (byteRef k args) = some (true, k) := by
  unfold byteRef
  split
  · subst_vars; simp [refOf]
  split
  · subst_vars; simp [refOf]
  split
  · subst_vars; simp [refOf]
  split
  · subst_vars; simp [refOf]
  · have : ¬ ((k : Int) < 0) := by omega
    simp [refOf, this]

/-! ### Facts about the plan -/

/-- a byte value that occurs at some site and whose frequency is not 1 is among the entries with frequency > 1,
    at the very index `sortedBytes.index` returns (they are a prefix of the descending stable sort) -/
theorem byte_index_filter (ss : List Site) (v : BVal) (hm : v ∈ byteVals ss)
    (h1 : getCount (mkPlan ss).byteFreqs v ≠ 1) :
    idxOf v (keys ((sortDesc (freqs (byteVals ss))).filter (fun p => p.2 > 1))) = idxOf v (mkPlan ss).sortedBytes ∧
    v ∈ keys ((sortDesc (freqs (byteVals ss))).filter (fun p => p.2 > 1)) := by
  have hcnt : getCount (freqs (byteVals ss)) v = (byteVals ss).count v := getCount_freqs _ _
  have hpos : 0 < (byteVals ss).count v := List.count_pos_iff.mpr hm
  have hbf : (mkPlan ss).byteFreqs = freqs (byteVals ss) := rfl
  rw [hbf] at h1
  have hgt : 1 < getCount (freqs (byteVals ss)) v := by omega
  obtain ⟨c, hc⟩ := mem_keys_of_getCount_pos (d := freqs (byteVals ss)) (k := v) (by omega)
  have hkeys : v ∈ keys (sortDesc (freqs (byteVals ss))) :=
    List.mem_map.mpr ⟨(v, c), (mem_sortDesc _ _).mpr hc, rfl⟩
  have hall : ∀ c', (v, c') ∈ sortDesc (freqs (byteVals ss)) → 1 < c' := by
    intro c' h'
    have := getCount_of_mem (nodup_freqs (byteVals ss)) ((mem_sortDesc _ _).mp h')
    omega
  exact idxOf_filter_desc v _ (desc_sortDesc _) hall hkeys

theorem byteBlock_eq (ss : List Site) :
    (mkPlan ss).byteBlock = (keys ((sortDesc (freqs (byteVals ss))).filter (fun p => p.2 > 1))).take maxBlockSize := rfl

/-- … and when that index is below `MAX_BLOCK_SIZE` it sits in the (truncated) `byteBlock` at that index -/
theorem byte_index_in_block (ss : List Site) (v : BVal) (hm : v ∈ byteVals ss)
    (h1 : getCount (mkPlan ss).byteFreqs v ≠ 1) (h2 : idxOf v (mkPlan ss).sortedBytes < maxBlockSize) :
    (mkPlan ss).byteBlock[idxOf v (mkPlan ss).sortedBytes]? = some v ∧
    idxOf v (mkPlan ss).sortedBytes < (mkPlan ss).byteBlock.length := by
  obtain ⟨e1, e2⟩ := byte_index_filter ss v hm h1
  rw [← e1] at h2
  rw [byteBlock_eq, ← e1]
  refine ⟨?_, ?_⟩
  · rw [List.getElem?_take_of_lt h2]; exact idxOf_get e2
  · have := idxOf_lt e2
    rw [List.length_take]; omega

theorem intBlockFrom_sublist : ∀ (l : List (IVal × Nat)) (i : Nat), (intBlockFrom i l).Sublist (keys l)
  | [], _ => by simp [intBlockFrom, keys]
  | (v, c) :: r, i => by
    unfold intBlockFrom
    split
    · exact (intBlockFrom_sublist r (i + 1)).cons_cons v
    · exact (intBlockFrom_sublist r (i + 1)).cons v

theorem mem_intBlockFrom : ∀ (l : List (IVal × Nat)) (i : Nat) (v : IVal), v ∈ intBlockFrom i l →
    ∃ c, 1 < c ∧ (v, c) ∈ l
  | [], _, _, h => by simp [intBlockFrom] at h
  | (v', c') :: r, i, v, h => by
    unfold intBlockFrom at h
    split at h
    · rename_i hc
      rcases List.mem_cons.mp h with e | e
      · subst e; exact ⟨c', hc.1, by simp⟩
      · obtain ⟨c, h1, h2⟩ := mem_intBlockFrom r (i + 1) v e
        exact ⟨c, h1, by simp [h2]⟩
    · obtain ⟨c, h1, h2⟩ := mem_intBlockFrom r (i + 1) v h
      exact ⟨c, h1, by simp [h2]⟩

/-- a constant-load site whose output refers to entry `k` of the int (`isB = false`) or byte block -/
def usesAt (sha : Bytes → Bytes) (isB : Bool) (k : Nat) (cd : Comp × Comp) : Bool :=
  (match classify sha cd.1 with | .ok .none => false | .ok _ => true | .error _ => false) &&
  decide (refOf cd.2 = some (isB, k))

theorem count_int_sites (sha : Bytes → Bytes) (p : Plan) (v : IVal) (hv : v ∈ p.intBlock) :
    ∀ (ops : List Comp) (ss : List Site), classifyAll sha ops = .ok ss →
    (intVals ss).count v ≤ ((ops.zip (rewriteAll p ops ss)).countP (usesAt sha false (idxOf v p.intBlock)))
  | [], ss, h => by simp [classifyAll] at h; subst h; simp [intVals]
  | c0 :: cs, ss, h => by
    unfold classifyAll at h
    split at h
    · cases h
    · rename_i s0 hs0
      split at h
      · cases h
      · rename_i ss' h'
        cases h
        have ih := count_int_sites sha p v hv cs ss' h'
        simp only [rewriteAll, List.zip_cons_cons, List.countP_cons]
        by_cases e : s0 = .int v
        · subst e
          obtain ⟨name, args, rfl⟩ := classify_raw_or_op hs0 (by simp)
          have : usesAt sha false (idxOf v p.intBlock) (Comp.op name args, rewriteOne p (Comp.op name args) (Site.int v)) = true := by
            simp [usesAt, hs0, rewriteOne, hv, refOf_intRef]
          simp only [intVals, List.count_cons_self, this, if_true]
          omega
        · have : (intVals (s0 :: ss')).count v = (intVals ss').count v := by
            cases s0 with
            | none => simp [intVals]
            | byt b => simp [intVals]
            | int v' =>
              have : v' ≠ v := fun e' => e (by rw [e'])
              simp [intVals, this]
          rw [this]; omega

theorem count_byte_sites (sha : Bytes → Bytes) (p : Plan) (v : BVal)
    (hv : ¬ (getCount p.byteFreqs v = 1 ∨ idxOf v p.sortedBytes ≥ maxBlockSize)) :
    ∀ (ops : List Comp) (ss : List Site), classifyAll sha ops = .ok ss →
    (byteVals ss).count v ≤ ((ops.zip (rewriteAll p ops ss)).countP (usesAt sha true (idxOf v p.sortedBytes)))
  | [], ss, h => by simp [classifyAll] at h; subst h; simp [byteVals]
  | c0 :: cs, ss, h => by
    unfold classifyAll at h
    split at h
    · cases h
    · rename_i s0 hs0
      split at h
      · cases h
      · rename_i ss' h'
        cases h
        have ih := count_byte_sites sha p v hv cs ss' h'
        simp only [rewriteAll, List.zip_cons_cons, List.countP_cons]
        by_cases e : s0 = .byt v
        · subst e
          obtain ⟨name, args, rfl⟩ := classify_raw_or_op hs0 (by simp)
          have : usesAt sha true (idxOf v p.sortedBytes) (Comp.op name args, rewriteOne p (Comp.op name args) (Site.byt v)) = true := by
            simp [usesAt, hs0, rewriteOne, hv, refOf_byteRef]
          simp only [byteVals, List.count_cons_self, this, if_true]
          omega
        · have : (byteVals (s0 :: ss')).count v = (byteVals ss').count v := by
            cases s0 with
            | none => simp [byteVals]
            | int b => simp [byteVals]
            | byt v' =>
              have : v' ≠ v := fun e' => e (by rw [e'])
              simp [byteVals, this]
          rw [this]; omega

/-! ### Property theorems -/

/-- **constants_sound.**  For every op list on which `createConstantBlocks` returns: at every
    position whose original component loads a constant `v` (int / byte / addr / method, number,
    bytes or template name), the component emitted at that position — `intc_k`, `intc k`,
    `pushint`, `bytec_k`, `bytec k` or `pushbytes`, decoded against the arguments of the emitted
    blocks — loads exactly `v`. -/
theorem constants_sound (sha : Bytes → Bytes) (ops : List Comp) (r : Result)
    (h : createConstantBlocks sha ops = .ok r) (i : Nat) (c : Comp) (v : Site)
    (hc : ops[i]? = some c) (hv : valueOf sha c = .ok v) (hne : v ≠ .none) :
    ∃ d, r.body[i]? = some d ∧ valueAt r.intBlock r.byteBlock d = some v := by
  unfold createConstantBlocks at h
  split at h
  · cases h
  · rename_i ss hss
    cases h
    obtain ⟨s, hs, hcs, hb⟩ := body_get sha (mkPlan ss) ops ss hss i c hc
    have : s = v := by
      unfold valueOf at hv; rw [hcs] at hv; cases hv; rfl
    subst this
    refine ⟨_, hb, ?_⟩
    obtain ⟨name, args, rfl⟩ := classify_raw_or_op hcs hne
    cases s with
    | none => exact absurd rfl hne
    | int iv =>
      simp only [rewriteOne, build]
      split
      · rename_i hin
        rw [valueAt_intRef, List.getElem?_map, idxOf_get hin]
        cases iv <;> rfl
      · cases iv <;> simp [valueAt, IVal.arg, argIVal]
    | byt bv =>
      have hwf := classify_byt_wf hcs
      simp only [rewriteOne, build]
      split
      · simp [valueAt, argBVal_encode bv hwf]
      · rename_i h1
        obtain ⟨e, _⟩ := byte_index_in_block ss bv (mem_byteVals hs) (fun e => h1 (Or.inl e))
          (Nat.lt_of_not_le (fun e => h1 (Or.inr e)))
        rw [valueAt_byteRef, List.getElem?_map, e]
        simp [argBVal_encode bv hwf]

/-- **index_in_block.**  Every block reference emitted at a constant site (`intc_k`, `intc k`,
    `bytec_k`, `bytec k`) points inside the block that was emitted. -/
theorem index_in_block (sha : Bytes → Bytes) (ops : List Comp) (r : Result)
    (h : createConstantBlocks sha ops = .ok r) (i : Nat) (c d : Comp) (v : Site)
    (hc : ops[i]? = some c) (hv : valueOf sha c = .ok v) (hne : v ≠ .none)
    (hd : r.body[i]? = some d) (isB : Bool) (k : Nat) (hk : refOf d = some (isB, k)) :
    k < (if isB then r.byteBlock.length else r.intBlock.length) := by
  unfold createConstantBlocks at h
  split at h
  · cases h
  · rename_i ss hss
    cases h
    obtain ⟨s, hs, hcs, hb⟩ := body_get sha (mkPlan ss) ops ss hss i c hc
    have : s = v := by
      unfold valueOf at hv; rw [hcs] at hv; cases hv; rfl
    subst this
    have hd' : d = rewriteOne (mkPlan ss) c s := by
      simp only [build] at hd; rw [hb] at hd; cases hd; rfl
    subst hd'
    obtain ⟨name, args, rfl⟩ := classify_raw_or_op hcs hne
    cases s with
    | none => exact absurd rfl hne
    | int iv =>
      simp only [rewriteOne] at hk
      split at hk
      · rename_i hin
        rw [refOf_intRef] at hk; cases hk
        simpa [build] using idxOf_lt hin
      · simp [refOf] at hk
    | byt bv =>
      simp only [rewriteOne] at hk
      split at hk
      · simp [refOf] at hk
      · rename_i h1
        rw [refOf_byteRef] at hk; cases hk
        simpa [build] using (byte_index_in_block ss bv (mem_byteVals hs) (fun e => h1 (Or.inl e))
          (Nat.lt_of_not_le (fun e => h1 (Or.inr e)))).2

theorem rewriteOne_none (p : Plan) (c : Comp) : rewriteOne p c .none = c := by
  cases c <;> rfl

/-- **nonconstant_ops_preserved.**  The output is the (at most two) block declarations followed by
    exactly one component per input component, in the same order; every component that is not a
    constant load (`int`/`byte`/`addr`/`method`) is passed through unchanged. -/
theorem nonconstant_ops_preserved (sha : Bytes → Bytes) (ops : List Comp) (r : Result)
    (h : createConstantBlocks sha ops = .ok r) :
    r.body.length = ops.length ∧
    (∀ (i : Nat) (c : Comp), ops[i]? = some c → valueOf sha c = .ok .none → r.body[i]? = some c) ∧
    (∃ blocks : List Comp, r.assembled = blocks ++ r.body ∧ blocks.length ≤ 2 ∧
      ∀ b ∈ blocks, b = .op "intcblock" r.intBlock ∨ b = .op "bytecblock" r.byteBlock) := by
  unfold createConstantBlocks at h
  split at h
  · cases h
  · rename_i ss hss
    cases h
    refine ⟨?_, ?_, ?_⟩
    · exact rewriteAll_length _ ops ss (classifyAll_length sha ops ss hss)
    · intro i c hc hv
      obtain ⟨s, _, hcs, hb⟩ := body_get sha (mkPlan ss) ops ss hss i c hc
      unfold valueOf at hv; rw [hcs] at hv; cases hv
      simpa [build, rewriteOne_none] using hb
    · refine ⟨_, rfl, ?_, ?_⟩
      · simp only [List.length_append]; split <;> split <;> simp
      · intro b hb
        simp only [List.mem_append] at hb
        rcases hb with hb | hb
        · split at hb
          · simp at hb
          · simp at hb; exact Or.inl hb
        · split at hb
          · simp at hb
          · simp at hb; exact Or.inr hb

/-- the rewritten constant sites keep the original arguments as a trailing `// …` comment -/
theorem site_comment (sha : Bytes → Bytes) (ops : List Comp) (r : Result)
    (h : createConstantBlocks sha ops = .ok r) (i : Nat) (name : String) (args : List Arg) (v : Site)
    (hc : ops[i]? = some (.op name args)) (hv : valueOf sha (.op name args) = .ok v) (hne : v ≠ .none) :
    ∃ name' pre, r.body[i]? = some (.op name' (pre ++ commentArgs args)) ∧ pre.length ≤ 1 := by
  unfold createConstantBlocks at h
  split at h
  · cases h
  · rename_i ss hss
    cases h
    obtain ⟨s, hs, hcs, hb⟩ := body_get sha (mkPlan ss) ops ss hss i _ hc
    have : s = v := by
      unfold valueOf at hv; rw [hcs] at hv; cases hv; rfl
    subst this
    simp only [build]
    rw [hb]
    cases s with
    | none => exact absurd rfl hne
    | int iv =>
      simp only [rewriteOne]
      split
      · unfold intRef
        split; · exact ⟨_, [], rfl, by simp⟩
        split; · exact ⟨_, [], rfl, by simp⟩
        split; · exact ⟨_, [], rfl, by simp⟩
        split; · exact ⟨_, [], rfl, by simp⟩
        exact ⟨_, [_], rfl, by simp⟩
      · exact ⟨_, [_], rfl, by simp⟩
    | byt bv =>
      simp only [rewriteOne]
      split
      · exact ⟨_, [_], rfl, by simp⟩
      · unfold byteRef
        split; · exact ⟨_, [], rfl, by simp⟩
        split; · exact ⟨_, [], rfl, by simp⟩
        split; · exact ⟨_, [], rfl, by simp⟩
        split; · exact ⟨_, [], rfl, by simp⟩
        exact ⟨_, [_], rfl, by simp⟩

/-- **blocks_only_if_used.**  A block is declared only when it is non-empty, and every entry of a
    declared block is referenced (by index) from at least two constant-load sites of the output. -/
theorem blocks_only_if_used (sha : Bytes → Bytes) (ops : List Comp) (r : Result)
    (h : createConstantBlocks sha ops = .ok r) :
    (Comp.op "intcblock" r.intBlock ∈ (r.assembled.take (r.assembled.length - r.body.length)) → r.intBlock ≠ []) ∧
    (Comp.op "bytecblock" r.byteBlock ∈ (r.assembled.take (r.assembled.length - r.body.length)) → r.byteBlock ≠ []) ∧
    (∀ k, k < r.intBlock.length → 2 ≤ (ops.zip r.body).countP (usesAt sha false k)) ∧
    (∀ k, k < r.byteBlock.length → 2 ≤ (ops.zip r.body).countP (usesAt sha true k)) := by
  have hpre : r.assembled.take (r.assembled.length - r.body.length) =
      (if r.intBlock.isEmpty then [] else [Comp.op "intcblock" r.intBlock]) ++
      (if r.byteBlock.isEmpty then [] else [Comp.op "bytecblock" r.byteBlock]) := by
    unfold Result.assembled
    simp only [List.length_append, Nat.add_sub_cancel]
    exact List.take_left' (by simp)
  rw [hpre]
  refine ⟨?_, ?_, ?_, ?_⟩
  · intro hm e
    simp [e] at hm
  · intro hm e
    simp [e] at hm
  · intro k hk
    unfold createConstantBlocks at h
    split at h
    · cases h
    · rename_i ss hss
      cases h
      simp only [build, List.length_map] at hk ⊢
      have hPib : (mkPlan ss).intBlock = (intBlockFrom 0 (sortDesc (freqs (intVals ss)))).take maxBlockSize := rfl
      obtain ⟨v, hvk⟩ : ∃ v, (mkPlan ss).intBlock[k]? = some v := ⟨(mkPlan ss).intBlock[k], by simp [hk]⟩
      have hmem : v ∈ (mkPlan ss).intBlock := List.mem_of_getElem? hvk
      obtain ⟨c, hc1, hc2⟩ := mem_intBlockFrom _ _ _ (List.mem_of_mem_take (hPib ▸ hmem))
      have hcnt := getCount_of_mem (nodup_freqs (intVals ss)) ((mem_sortDesc _ _).mp hc2)
      rw [getCount_freqs] at hcnt
      have hnd : (mkPlan ss).intBlock.Nodup :=
        (hPib ▸ (List.take_sublist _ _).trans (intBlockFrom_sublist _ 0)).nodup
          (nodup_keys_sortDesc _ (nodup_freqs _))
      have hidx := idxOf_of_get hnd hvk
      have := count_int_sites sha (mkPlan ss) v hmem ops ss hss
      rw [hidx] at this
      omega
  · intro k hk
    unfold createConstantBlocks at h
    split at h
    · cases h
    · rename_i ss hss
      cases h
      simp only [build, List.length_map] at hk ⊢
      have hPbb := byteBlock_eq ss
      obtain ⟨v, hvk⟩ : ∃ v, (mkPlan ss).byteBlock[k]? = some v := ⟨(mkPlan ss).byteBlock[k], by simp [hk]⟩
      have hk256 : k < maxBlockSize := by
        rw [hPbb, List.length_take] at hk; omega
      have hvk' : (keys ((sortDesc (freqs (byteVals ss))).filter (fun p => p.2 > 1)))[k]? = some v := by
        rw [hPbb, List.getElem?_take_of_lt hk256] at hvk; exact hvk
      have hmem := List.mem_of_getElem? hvk'
      obtain ⟨⟨v', c⟩, hf, hveq⟩ := List.mem_map.mp hmem
      simp only at hveq; subst hveq
      have hf' := List.mem_filter.mp hf
      have hc1 : 1 < c := by simpa using hf'.2
      have hcnt := getCount_of_mem (nodup_freqs (byteVals ss)) ((mem_sortDesc _ _).mp hf'.1)
      have hne1 : getCount (mkPlan ss).byteFreqs v' ≠ 1 := by
        show getCount (freqs (byteVals ss)) v' ≠ 1
        omega
      rw [getCount_freqs] at hcnt
      have hmv : v' ∈ byteVals ss := List.count_pos_iff.mp (by omega)
      have hnd : (keys ((sortDesc (freqs (byteVals ss))).filter (fun p => p.2 > 1))).Nodup :=
        ((List.filter_sublist).map _).nodup (nodup_keys_sortDesc _ (nodup_freqs _))
      obtain ⟨e1, _⟩ := byte_index_filter ss v' hmv hne1
      have hidx : idxOf v' (mkPlan ss).sortedBytes = k := by
        rw [← e1]; exact idxOf_of_get hnd hvk'
      have := count_byte_sites sha (mkPlan ss) v' (by rw [hidx]; omega) ops ss hss
      rw [hidx] at this
      omega

/-- **index_fits.**  `intc`/`bytec` take a one-byte immediate.  For every op list on which
    `createConstantBlocks` returns: the emitted `intcblock` and `bytecblock` have at most 256 entries
    (`MAX_BLOCK_SIZE`), and every block reference emitted at a constant site (`intc_k`, `intc k`,
    `bytec_k`, `bytec k`) has an index `k ≤ 255`.  (Before repair 2a27358 of
    `pyteal/compiler/constants.py` this was false: see `index_fits_regression`.) -/
theorem index_fits (sha : Bytes → Bytes) (ops : List Comp) (r : Result)
    (h : createConstantBlocks sha ops = .ok r) :
    r.intBlock.length ≤ 256 ∧ r.byteBlock.length ≤ 256 ∧
    ∀ (i : Nat) (c d : Comp) (v : Site), ops[i]? = some c → valueOf sha c = .ok v → v ≠ .none →
      r.body[i]? = some d → ∀ (isB : Bool) (k : Nat), refOf d = some (isB, k) → k ≤ 255 := by
  have hlen : r.intBlock.length ≤ 256 ∧ r.byteBlock.length ≤ 256 := by
    unfold createConstantBlocks at h
    split at h
    · cases h
    · cases h
      simp only [build, mkPlan, List.length_map, List.length_take, maxBlockSize]
      omega
  refine ⟨hlen.1, hlen.2, ?_⟩
  intro i c d v hc hv hne hd isB k hk
  have := index_in_block sha ops r h i c d v hc hv hne hd isB k hk
  cases isB <;> simp at this <;> omega

/-- no constant site is left without a load: what is emitted there is a block reference or a
    `pushint`/`pushbytes` (the constants that did not get one of the 256 block entries are pushed; that the
    value loaded is the right one in either case is `constants_sound`) -/
theorem site_is_ref_or_push (sha : Bytes → Bytes) (ops : List Comp) (r : Result)
    (h : createConstantBlocks sha ops = .ok r) (i : Nat) (c : Comp) (v : Site)
    (hc : ops[i]? = some c) (hv : valueOf sha c = .ok v) (hne : v ≠ .none) :
    ∃ name args, r.body[i]? = some (.op name args) ∧
      ((∃ isB k, refOf (.op name args) = some (isB, k)) ∨ name = "pushint" ∨ name = "pushbytes") := by
  unfold createConstantBlocks at h
  split at h
  · cases h
  · rename_i ss hss
    cases h
    obtain ⟨s, hs, hcs, hb⟩ := body_get sha (mkPlan ss) ops ss hss i c hc
    have : s = v := by
      unfold valueOf at hv; rw [hcs] at hv; cases hv; rfl
    subst this
    obtain ⟨name, args, rfl⟩ := classify_raw_or_op hcs hne
    simp only [build]
    rw [hb]
    cases s with
    | none => exact absurd rfl hne
    | int iv =>
      simp only [rewriteOne]
      split
      · have hr := refOf_intRef (idxOf iv (mkPlan ss).intBlock) args
        cases hir : intRef (idxOf iv (mkPlan ss).intBlock) args with
        | raw t => rw [hir] at hr; simp [refOf] at hr
        | op n a => exact ⟨n, a, rfl, Or.inl ⟨_, _, hir ▸ hr⟩⟩
      · exact ⟨_, _, rfl, Or.inr (Or.inl rfl)⟩
    | byt bv =>
      simp only [rewriteOne]
      split
      · exact ⟨_, _, rfl, Or.inr (Or.inr rfl)⟩
      · have hr := refOf_byteRef (idxOf bv (mkPlan ss).sortedBytes) args
        cases hir : byteRef (idxOf bv (mkPlan ss).sortedBytes) args with
        | raw t => rw [hir] at hr; simp [refOf] at hr
        | op n a => exact ⟨n, a, rfl, Or.inl ⟨_, _, hir ▸ hr⟩⟩

theorem intBlockFrom_all : ∀ (vs : List IVal) (i : Nat), (∀ v ∈ vs, v.inBlockAnyway = true) →
    intBlockFrom i (vs.map (fun v => (v, 2))) = vs
  | [], _, _ => rfl
  | v :: r, i, h => by
    have hv := h v (by simp)
    simp [intBlockFrom, hv, intBlockFrom_all r (i + 1) (fun w hw => h w (by simp [hw]))]

def mkInt (n : Int) : Comp := .op "int" [.num n]

theorem classifyAll_ints (sha : Bytes → Bytes) : ∀ m : List Int,
    classifyAll sha (m.map mkInt) = .ok (m.map (fun n => Site.int (.num n)))
  | [] => rfl
  | n :: r => by
    simp [classifyAll, classifyAll_ints sha r, classify, mkInt, extractInt, Except.map]

theorem intVals_ints : ∀ m : List Int, intVals (m.map (fun n => Site.int (.num n))) = m.map IVal.num
  | [] => rfl
  | n :: r => by simp [intVals, intVals_ints r]

theorem rewriteAll_map (p : Plan) (f : Int → Comp) (g : Int → Site) : ∀ m : List Int,
    rewriteAll p (m.map f) (m.map g) = m.map (fun n => rewriteOne p (f n) (g n))
  | [] => rfl
  | n :: r => by simp [rewriteAll, rewriteAll_map p f g r]

/-- in a list without duplicates the element at position `j` is among the first `k` exactly when `j < k` -/
theorem mem_take_iff_lt {α : Type} [DecidableEq α] {l : List α} {j k : Nat} {v : α} (hn : l.Nodup)
    (hj : l[j]? = some v) : v ∈ l.take k ↔ j < k := by
  constructor
  · intro hm
    obtain ⟨i, hi⟩ := List.getElem?_of_mem hm
    have hik : i < k := by
      have := (List.getElem?_eq_some_iff.mp hi).1
      rw [List.length_take] at this; omega
    rw [List.getElem?_take_of_lt hik] at hi
    have h1 := idxOf_of_get hn hi
    have h2 := idxOf_of_get hn hj
    omega
  · intro hlt
    exact List.mem_of_getElem? (by rw [List.getElem?_take_of_lt hlt]; exact hj)

/-- distinct integers ≥ 128, each loaded twice: the block holds the first 256 of them; the `j`-th one is
    loaded through index `j` when `j < 256` and by `pushint` otherwise -/
theorem doubled_ints (sha : Bytes → Bytes) (l : List Int) (hn : l.Nodup) (hbig : ∀ n ∈ l, 128 ≤ n) :
    ∃ r, createConstantBlocks sha ((l ++ l).map mkInt) = .ok r ∧
      r.intBlock = (l.take 256).map Arg.num ∧ r.byteBlock = [] ∧
      ∀ (j : Nat) (n : Int), l[j]? = some n →
        r.body[j]? = some (if j < 256 then intRef j [.num n] else .op "pushint" [.num n, .str "//", .num n]) := by
  have hvs : (l.map IVal.num).Nodup :=
    List.Pairwise.map IVal.num (fun a b (h : a ≠ b) => fun e => h (by cases e; rfl)) hn
  have hib : (mkPlan ((l ++ l).map (fun n => Site.int (.num n)))).intBlock = (l.map IVal.num).take 256 := by
    simp only [mkPlan]
    rw [intVals_ints, List.map_append]
    rw [freqs_doubled _ hvs, sortDesc_const 2 _ (by simp), intBlockFrom_all]
    · rfl
    intro v hv
    obtain ⟨n, hn', rfl⟩ := List.mem_map.mp hv
    simpa [IVal.inBlockAnyway] using hbig n hn'
  have hbb : (mkPlan ((l ++ l).map (fun n => Site.int (.num n)))).byteBlock = [] := by
    have : byteVals ((l ++ l).map (fun n => Site.int (.num n))) = [] := by
      generalize l ++ l = m
      induction m with
      | nil => rfl
      | cons x r ih => simpa [byteVals] using ih
    simp only [mkPlan, this]
    rfl
  refine ⟨_, by simp only [createConstantBlocks, classifyAll_ints]; rfl, ?_, ?_, ?_⟩
  · simp only [build, hib, List.map_take, List.map_map]
    congr 1
  · simp only [build, hbb]; rfl
  intro j n hj
  simp only [build, rewriteAll_map]
  rw [List.getElem?_map, List.getElem?_append_left (by
    have := (List.getElem?_eq_some_iff.mp hj).1; exact this), hj]
  simp only [Option.map_some, mkInt, rewriteOne, hib]
  have hjv : (l.map IVal.num)[j]? = some (IVal.num n) := by rw [List.getElem?_map, hj]; rfl
  have hiff := mem_take_iff_lt (k := 256) hvs hjv
  by_cases hlt : j < 256
  · have hmem := hiff.mpr hlt
    have hidx : idxOf (IVal.num n) ((l.map IVal.num).take 256) = j :=
      idxOf_of_get ((List.take_sublist _ _).nodup hvs) (by rw [List.getElem?_take_of_lt hlt]; exact hjv)
    simp [hmem, hidx, hlt]
  · have hmem : IVal.num n ∉ (l.map IVal.num).take 256 := fun hm => hlt (hiff.mp hm)
    simp [hmem, hlt, IVal.arg, commentArgs]

/-- 257 distinct integers ≥ 128 (1000 … 1256) -/
def cexInts : List Int := (List.range 257).map (fun (i : Nat) => 1000 + (i : Int))

/-- the regression input (the failing input of the retired finding `C12-index-over-255`): each of them
    loaded once, then each of them loaded again (514 `int` ops) -/
def cexOps : List Comp := (cexInts ++ cexInts).map mkInt

def noSha : Bytes → Bytes := fun _ => []

theorem range_ints_nodup (N : Nat) : ((List.range N).map (fun (i : Nat) => 1000 + (i : Int))).Nodup :=
  List.Pairwise.map _ (fun a b (h : a ≠ b) => by omega) List.nodup_range

/-- **index_fits_regression.**  The input on which the code before repair 2a27358 emitted
    `intc 256 // 1256` (257 distinct integers ≥ 128, each loaded twice): the model (like the repaired
    code) now declares an `intcblock` of exactly 256 entries, loads the 256th value through the last
    entry (`intc 255 // 1255`) and the 257th value, which no longer fits, by `pushint 1256 // 1256`.
    (The harness replays this input on the real code on every run.) -/
theorem index_fits_regression :
    ∃ (r : Result), createConstantBlocks noSha cexOps = .ok r ∧
      r.intBlock.length = 256 ∧ r.byteBlock = [] ∧
      cexOps[255]? = some (mkInt 1255) ∧ r.body[255]? = some (.op "intc" [.num 255, .str "//", .num 1255]) ∧
      cexOps[256]? = some (mkInt 1256) ∧ r.body[256]? = some (.op "pushint" [.num 1256, .str "//", .num 1256]) ∧
      valueAt r.intBlock r.byteBlock (.op "pushint" [.num 1256, .str "//", .num 1256]) = some (.int (.num 1256)) ∧
      ∀ (i : Nat) (c d : Comp) (v : Site), cexOps[i]? = some c → valueOf noSha c = .ok v → v ≠ .none →
        r.body[i]? = some d → ∀ (isB : Bool) (k : Nat), refOf d = some (isB, k) → k ≤ 255 := by
  obtain ⟨r, hr, hib, hbb, hb⟩ := doubled_ints noSha cexInts (range_ints_nodup 257)
    (by intro n hn; simp [cexInts] at hn; omega)
  have h255 : cexInts[255]? = some 1255 := by simp [cexInts]
  have h256 : cexInts[256]? = some 1256 := by simp [cexInts]
  refine ⟨r, hr, ?_, hbb, ?_, ?_, ?_, ?_, by simp [valueAt, argIVal], (index_fits noSha cexOps r hr).2.2⟩
  · simp [hib, cexInts]
  · simp only [cexOps, List.getElem?_map]
    rw [List.getElem?_append_left (by simp [cexInts]), h255]; rfl
  · rw [hb 255 1255 h255]; simp [intRef, commentArgs]
  · simp only [cexOps, List.getElem?_map]
    rw [List.getElem?_append_left (by simp [cexInts]), h256]; rfl
  · rw [hb 256 1256 h256]; simp

/-- however many distinct repeated constants there are, the block stops at 256 entries and the rest
    is loaded by `pushint` (the index was unbounded before the repair) -/
theorem index_bounded_any (N : Nat) :
    ∃ (r : Result), createConstantBlocks noSha
        ((((List.range N).map (fun (i : Nat) => 1000 + (i : Int))) ++
          ((List.range N).map (fun (i : Nat) => 1000 + (i : Int)))).map mkInt) = .ok r ∧
      r.intBlock.length = min N 256 ∧
      ∀ j, 256 ≤ j → j < N →
        r.body[j]? = some (.op "pushint" [.num (1000 + (j : Int)), .str "//", .num (1000 + (j : Int))]) := by
  obtain ⟨r, hr, hib, _, hb⟩ := doubled_ints noSha _ (range_ints_nodup N)
    (by intro n hn; simp at hn; omega)
  refine ⟨r, hr, by simp [hib]; omega, ?_⟩
  intro j h1 h2
  have hj : ((List.range N).map (fun (i : Nat) => 1000 + (i : Int)))[j]? = some (1000 + (j : Int)) := by
    simp [h2]
  rw [hb j _ hj]
  have : ¬ j < 256 := by omega
  simp [this]


/-! ### Link to the independent TEAL grammar, non-vacuity -/

/-- **encode_grammar.**  The spelling `createConstantBlocks` gives a byte value in `bytecblock` /
    `pushbytes` (`"0x" + b.hex()`), read by the independent TEAL grammar `Avm.parseBytesLit`, is `b`. -/
theorem encode_grammar (b : Bytes) : Avm.parseBytesLit [(BVal.bytes b).encode] = some (b, []) := by
  unfold Avm.parseBytesLit
  simp [BVal.encode, unhex, hex, unhex_hex]

/-- a small mixed input: `"a"`, `0x61` and `base64(YQ==)` are one byte constant used three times;
    `1` and `pay` are one int constant used twice; `5` and `TMPL_X` are used once -/
def demoOps : List Comp :=
  [.op "byte" [.str "\"a\""], .op "int" [.num 1], .raw "l0:", .op "byte" [.str "0x61"], .op "int" [.str "pay"],
   .op "pop" [], .op "int" [.num 5], .op "byte" [.str "base64(YQ==)"], .op "int" [.str "TMPL_X"]]

def demoResult : Result :=
  { intBlock := [.num 1], byteBlock := [.str "0x61"],
    body := [.op "bytec_0" [.str "//", .str "\"a\""], .op "intc_0" [.str "//", .num 1], .raw "l0:",
             .op "bytec_0" [.str "//", .str "0x61"], .op "intc_0" [.str "//", .str "pay"], .op "pop" [],
             .op "pushint" [.num 5, .str "//", .num 5], .op "bytec_0" [.str "//", .str "base64(YQ==)"],
             .op "pushint" [.str "TMPL_X", .str "//", .str "TMPL_X"]] }

def okIs (x : Except Exc Result) (r : Result) : Bool :=
  match x with
  | .ok r' => decide (r' = r)
  | .error _ => false

theorem okIs_spec {x : Except Exc Result} {r : Result} (h : okIs x r = true) : x = .ok r := by
  cases x with
  | error e => simp [okIs] at h
  | ok r' => simp [okIs] at h; rw [h]

theorem demo_runs : createConstantBlocks noSha demoOps = .ok demoResult :=
  okIs_spec (by decide +kernel)

/-- non-vacuity: the hypotheses of `constants_sound` / `index_in_block` / `nonconstant_ops_preserved`
    are met by `demoOps` (a byte constant in three spellings, an enum, a template, a label) -/
example : ∃ d, demoResult.body[7]? = some d ∧
    valueAt demoResult.intBlock demoResult.byteBlock d = some (.byt (.bytes [97])) :=
  constants_sound noSha demoOps demoResult demo_runs 7 (.op "byte" [.str "base64(YQ==)"]) _ rfl
    (by rfl) (by simp)

end PyTealV.Proofs.C12
