/-
  C02Gen (part 11): the footprint theorem of `Proofs/C02GenPres.lean` under the by-reference
  discipline (frame-pointer convention with by-reference parameters, stage 3 + 4).

  With run-time addressed slots a tree can write any slot — unless the address is a valid reference.
  `presV_all`: let `T` be a set of routines closed under "calls" and `S` a set of parameter slots
  that are not parameters of any routine of `T`.  Every evaluation of a tree typed under the
  discipline whose calls go to routines of `T`, started in a world where the reference cells of the
  active routines `A` are valid, leaves the cells `S` unchanged (and the reference cells valid):
  direct stores never go to a parameter slot, `vstores` only writes through a valid reference, that
  is, never into a parameter slot, and the routines of `T` bind their own parameters only.
-/
import PyTealV.Proofs.C02GenPres
import PyTealV.Proofs.C02GenValid
namespace PyTealV.Proofs.C02Gen
open PyTealV PyTealV.Avm PyTealV.Src PyTealV.Comp PyTealV.Models.Fragment PyTealV.Models.FragmentR
open PyTealV.Proofs.C02Spill (getSlot_setSlot)

/-- started with valid reference cells of `A`: the cells `S` are kept and the reference cells stay valid -/
def KR (p : Prog) (S A : List Nat) (w w' : World) : Prop := VSet p A w → Keep S w w' ∧ VSet p A w'

theorem KR.refl {p : Prog} {S : List Nat} (A : List Nat) (w : World) : KR p S A w w := fun h => ⟨.refl _ _, h⟩
theorem KR.trans {p : Prog} {S A : List Nat} {a b c : World} (h1 : KR p S A a b) (h2 : KR p S A b c) : KR p S A a c :=
  fun h => ⟨(h1 h).1.trans (h2 (h1 h).2).1, (h2 (h1 h).2).2⟩

theorem KR.of_same {p : Prog} {S A : List Nat} {w w' : World} (h : w'.scratch = w.scratch) : KR p S A w w' :=
  fun hV => ⟨fun s _ => by rw [h], hV.congr (fun s _ => by rw [h])⟩

/-- what the theorem assumes about the program and the sets `S`, `T` -/
structure PresVCtx (p : Prog) (dyn : Bool) (S T : List Nat) : Prop where
  sub : ∀ s, s ∈ S → s ∈ allParamSlots p
  body : ∀ g, g ∈ T → ∀ sd, findSub p g = some sd →
    wtR (subK true p sd dyn true) false true (if sd.hasRet then 1 else 0) sd.body = true ∧
    (∀ g', g' ∈ okCallsOf p sd → g' ∈ T) ∧ (∀ kv, kv ∈ sd.params → kv.2 ∉ S) ∧ (sd.params.map (·.2)).Nodup ∧
    (∀ v, v ∈ valSlots sd → v ∉ allRefSlots p)

theorem PresVCtx.val {p : Prog} {dyn : Bool} {S T : List Nat} (hC : PresVCtx p dyn S T) :
    ValCtx p true dyn (· ∈ T) := by
  refine ⟨fun g hT sd hsd => ?_⟩
  obtain ⟨h1, h2, _, h4, h5⟩ := hC.body g hT sd hsd
  exact ⟨h1, ⟨_, rfl, h2⟩, h4, h5⟩

/-- a strict typing context of the frame-pointer convention whose calls stay inside `T` -/
structure KVT (p : Prog) (T : List Nat) (A : List Nat) (K : RK) : Prop where
  kv : KV p (· ∈ T) A K
  ign : K.ign = allValSlots p

theorem mem_allParamSlots_split {p : Prog} {s : Nat} (h : s ∈ allParamSlots p) :
    s ∈ allValSlots p ∨ s ∈ allRefSlots p := by
  obtain ⟨sd, hsd, hs⟩ := List.mem_flatMap.mp h
  obtain ⟨kv, hkv, rfl⟩ := List.mem_map.mp hs
  cases hk : kv.1 with
  | val =>
    refine .inl (List.mem_flatMap.mpr ⟨sd, hsd, ?_⟩)
    unfold valSlots
    exact List.mem_map.mpr ⟨kv, List.mem_filter.mpr ⟨hkv, by rw [hk]; rfl⟩, rfl⟩
  | ref =>
    refine .inr (List.mem_flatMap.mpr ⟨sd, hsd, ?_⟩)
    unfold refSlots
    exact List.mem_map.mpr ⟨kv, List.mem_filter.mpr ⟨hkv, by rw [hk]; rfl⟩, rfl⟩

section
variable {cx : Ctx} {p : Prog} {dyn : Bool} {S T : List Nat}

/-- a change of the world that leaves all parameter slots alone -/
theorem KR.of_notin (hC : PresVCtx p dyn S T) {A : List Nat} {w w' : World}
    (h : ∀ s, (s ∈ allValSlots p ∨ s ∈ allRefSlots p) → getSlot w'.scratch s = getSlot w.scratch s) : KR p S A w w' :=
  fun hV => ⟨fun s hs => h s (mem_allParamSlots_split (hC.sub s hs)), hV.congr (fun s hs => h s (.inr hs))⟩

theorem keepv_set (hC : PresVCtx p dyn S T) {A : List Nat} {K : RK} (hK : KVT p T A K) {w : World} {v : Nat} {x : Val}
    (hvi : v ∉ K.ign) (hvr : v ∉ K.refAll) : KR p S A w { w with scratch := setSlot w.scratch v x } := by
  refine KR.of_notin hC (fun s hs => ?_)
  simp only [getSlot_setSlot]
  rw [if_neg]
  intro he
  subst he
  rw [hK.ign] at hvi
  rw [hK.kv.refAll] at hvr
  rcases hs with hs | hs
  · exact hvi hs
  · exact hvr hs

/-- the six evaluators, by induction on the fuel -/
structure PresVAll (cx : Ctx) (p : Prog) (dyn : Bool) (S T : List Nat) (fuel : Nat) : Prop where
  ev : ∀ cur e w r w' K bc rc n A, KVT p T A K → wtR K bc rc n e = true →
    eval ⟨cx, p, cur⟩ fuel e w = (r, w') → KR p S A w w'
  args : ∀ cur es w acc r w' K A, KVT p T A K → wtRArgs K es = true →
    evalArgs ⟨cx, p, cur⟩ fuel es w acc = (r, w') → KR p S A w w'
  seq : ∀ cur es w r w' K bc rc n A, KVT p T A K → wtRSeq K bc rc n es = true →
    evalSeq ⟨cx, p, cur⟩ fuel es w = (r, w') → KR p S A w w'
  cond : ∀ cur arms w r w' K bc rc n A, KVT p T A K → wtRArms K bc rc n arms = true →
    evalCond ⟨cx, p, cur⟩ fuel arms w = (r, w') → KR p S A w w'
  forL : ∀ cur c st d w r w' K rc A, KVT p T A K → wtR K false false 1 c = true → wtR K false rc 0 st = true →
    wtR K true rc 0 d = true → evalForLoop ⟨cx, p, cur⟩ fuel c st d w = (r, w') → KR p S A w w'
  op : ∀ cur o es w r w' K A, KVT p T A K → wtRArgs K es = true → Models.Optimizer.framedOps.contains o = true →
    evalOp ⟨cx, p, cur⟩ fuel o es w = (r, w') → KR p S A w w'

theorem presVAll_zero : PresVAll cx p dyn S T 0 where
  ev := by intro cur e w r w' K bc rc n A _ _ h; simp only [eval] at h; cases h; exact .refl _ _
  args := by intro cur es w acc r w' K A _ _ h; simp only [evalArgs] at h; cases h; exact .refl _ _
  seq := by intro cur es w r w' K bc rc n A _ _ h; simp only [evalSeq] at h; cases h; exact .refl _ _
  cond := by intro cur arms w r w' K bc rc n A _ _ h; simp only [evalCond] at h; cases h; exact .refl _ _
  forL := by intro cur c st d w r w' K rc A _ _ _ _ h; simp only [evalForLoop] at h; cases h; exact .refl _ _
  op := by intro cur o es w r w' K A _ _ _ h; simp only [evalOp] at h; cases h; exact .refl _ _

end

section Step
variable {cx : Ctx} {p : Prog} {dyn : Bool} {S T : List Nat} {fuel : Nat}

/-- an opcode of the strict fragment: framed, or `vloads` / `vstores` through a valid reference -/
theorem keepv_prim (hC : PresVCtx p dyn S T) {A : List Nat} {K : RK} {op : String} {k q : Nat}
    {imms : List String} {args : List Expr} {env : Env} {w w1 w2 : World} {st st' : List Val}
    (hK : KVT p T A K) (hsig : primSigK K op = some (k, q)) (hds : dynShapeOk K op args = true)
    (hev : evalArgs env fuel args w [] = (.vals st, w1)) (hlen : st.length = k)
    (k1 : KR p S A w w1) (hB : execPrim env.cx op imms w1 st = .ok (st', w2)) : KR p S A w w2 := by
  intro hV
  obtain ⟨kk, hV1⟩ := k1 hV
  refine ⟨?_, valid_prim hK.kv hsig hds hev hlen (fun _ => hV1) hB hV⟩
  cases (primSigK_cases hsig).2 with
  | framed hf => exact kk.trans (fun s _ => by rw [framed_scratch hf env.cx imms hB])
  | slot _ hstr _ => have := hK.kv.strict; rw [this] at hstr; cases hstr
  | dyn _ _ hop =>
    obtain ⟨v, rest, rfl, hvr⟩ := dynShape_load hK.kv.strict hop hds
    have hlast := evalArgs_load_last hev
    obtain ⟨f, sd, hfA, hsd, hvs⟩ := hK.kv.ref v hvr
    obtain ⟨s, h1, h2⟩ := hV f hfA sd hsd v hvs
    have hsig' := (primSigK_cases hsig).1
    rcases hop with rfl | rfl
    · have hk : k = 1 := by
        have : primSig "vloads" = some (1, 1) := by decide
        rw [this] at hsig'; cases hsig'; rfl
      subst hk
      match st, hlen with
      | [x], _ =>
        simp only [List.getLast?_singleton, Option.some.injEq] at hlast
        rw [hlast, h1, exec_vloads_u] at hB
        cases hB
        exact kk
    · have hk : k = 2 := by
        have : primSig "vstores" = some (2, 0) := by decide
        rw [this] at hsig'; cases hsig'; rfl
      subst hk
      match st, hlen with
      | [b, x], _ =>
        simp only [List.getLast?_cons_cons, List.getLast?_singleton, Option.some.injEq] at hlast
        rw [hlast, h1, exec_vstores_u] at hB
        cases hB
        refine kk.trans (fun x hx => ?_)
        simp only [getSlot_setSlot]
        rw [if_neg]
        intro he
        subst he
        exact h2.2 (hC.sub _ hx)

theorem keep_bindW_nc {sd : SubDef} (hpar : ∀ kv, kv ∈ sd.params → kv.2 ∉ S) (st : List Val)
    (w1 : World) : Keep S w1 (bindW sd st w1) := by
  intro s hs
  rw [bindW_scratch]
  refine getSlot_foldl_notin _ _ _ ?_
  intro hmem
  obtain ⟨pr, hpr, hpr1⟩ := List.mem_map.mp hmem
  have := (List.of_mem_zip hpr).1
  obtain ⟨kv, hkv, hkv2⟩ := List.mem_map.mp this
  exact hpar kv hkv (by rw [hkv2, hpr1]; exact hs)

theorem keepv_call (hC : PresVCtx p dyn S T) (ih : PresVAll cx p dyn S T fuel) {cur : Option Nat} {f : Nat}
    {args : List Expr} {w w' : World} {r : Res} {K : RK} {bc rc : Bool} {n : Nat} {A : List Nat} (hK : KVT p T A K)
    (hw : wtR K bc rc n (.call f args) = true)
    (h : eval ⟨cx, p, cur⟩ (fuel + 1) (.call f args) w = (r, w')) : KR p S A w w' := by
  intro hVw
  refine ⟨?_, valid_call hC.val (valid_all (cx := cx) hC.val fuel) hK.kv hw h hVw⟩
  have hw0 := hw
  simp only [wtR, Bool.and_eq_true] at hw
  obtain ⟨⟨⟨_, hallow⟩, hwa⟩, _⟩ := hw
  obtain ⟨l, hl, hlT⟩ := hK.kv.calls
  rw [hl] at hallow
  simp only [List.contains_eq_mem, decide_eq_true_eq] at hallow
  have hfT : f ∈ T := hlT f hallow
  cases hsd : findSub p f with
  | none => simp only [eval, hsd] at h; cases h; exact .refl _ _
  | some sd =>
    obtain ⟨hwtb, hcallsb, hparb, hpnd, hvals⟩ := hC.body f hfT sd hsd
    simp only [eval, hsd] at h
    rcases hev : evalArgs ⟨cx, p, cur⟩ fuel args w [] with ⟨r1, w1⟩
    rw [hev] at h
    have k1 := (ih.args cur args w [] r1 w1 K _ hK hwa hev hVw).1
    cases r1 with
    | vals st =>
      simp only [] at h
      by_cases hlen : st.reverse.length ≠ sd.params.length
      · rw [if_pos hlen] at h
        cases h
        exact k1
      · rw [if_neg hlen] at h
        have hlen' : st.length = sd.params.length := by simpa using hlen
        rcases hbody : eval ⟨cx, p, some f⟩ fuel sd.body (bindW sd st w1) with ⟨r3, w3⟩
        have hKb : KVT p T (f :: A) (subK true p sd dyn true) :=
          ⟨⟨rfl, rfl, rfl, rfl, rfl, ⟨_, rfl, hcallsb⟩, fun v hv => ⟨f, sd, List.mem_cons_self .., hsd, hv⟩⟩, rfl⟩
        have hentry := valid_entry (valid_all (cx := cx) hC.val fuel) hK.kv hw0 hsd hpnd hvals hev hlen' hVw
        have k2 : Keep S w1 w3 :=
          (keep_bindW_nc hparb st w1).trans (ih.ev (some f) sd.body _ r3 w3 _ false true _ (f :: A) hKb hwtb hbody hentry).1
        have A' : Keep S w w3 := k1.trans k2
        have B : ∀ locals, Keep S w (restoreW locals w1 w3) := fun locals => k1.trans (keep_restoreW k2)
        have hbody' := hbody
        simp only [bindW] at hbody'
        rw [hbody'] at h
        simp only [] at h
        repeat' split at h
        all_goals (cases h; first | exact A' | exact B _)
    | _ =>
      simp only [] at h
      cases h
      exact k1

theorem presVAll_succ (hC : PresVCtx p dyn S T) (ih : PresVAll cx p dyn S T fuel) : PresVAll cx p dyn S T (fuel + 1) where
  ev := by
    intro cur e w r w' K bc rc n A hK hw h
    -- a sub-evaluation followed by a result that keeps its world, or passes it on unchanged
    have one : ∀ (e1 : Expr) {bc1 rc1 n1}, wtR K bc1 rc1 n1 e1 = true → ∀ r1 w1,
        eval ⟨cx, p, cur⟩ fuel e1 w = (r1, w1) → KR p S A w w1 :=
      fun e1 _ _ _ hw1 r1 w1 he => ih.ev cur e1 w r1 w1 K _ _ _ _ hK hw1 he
    cases e with
    | int _ => simp only [eval] at h; cases h; exact .refl _ _
    | bytes _ => simp only [eval] at h; cases h; exact .refl _ _
    | index _ => simp only [eval] at h; cases h; exact .refl _ _
    | load _ => simp only [eval] at h; cases h; exact .refl _ _
    | brk => simp only [eval] at h; cases h; exact .refl _ _
    | cont => simp only [eval] at h; cases h; exact .refl _ _
    | err => simp only [eval] at h; cases h; exact .refl _ _
    | prim op imms args =>
      simp only [wtR, Bool.and_eq_true] at hw
      obtain ⟨hw, hds⟩ := hw
      cases hsig : primSigK K op with
      | none => rw [hsig] at hw; exact absurd hw.1 (by simp)
      | some kp =>
        obtain ⟨k0, q⟩ := kp
        have hw' := hw
        rw [hsig] at hw'
        simp only [Bool.and_eq_true, beq_iff_eq] at hw'
        simp only [eval] at h
        rcases hev : evalArgs ⟨cx, p, cur⟩ fuel args w [] with ⟨r1, w1⟩
        rw [hev] at h
        have k1 := ih.args cur args w [] r1 w1 K _ hK hw.2 hev
        cases r1 with
        | vals st =>
          simp only [] at h
          cases hB : execPrim cx op imms w1 st with
          | error f => rw [hB] at h; cases h; exact k1
          | ok x =>
            obtain ⟨st', w2⟩ := x; rw [hB] at h; cases h
            have hl := (arity_all cx p fuel).args cur args w [] st w1 K hK.kv.callees hw.2 hev
            simp only [List.length_nil, Nat.zero_add] at hl
            exact keepv_prim hC hK hsig hds hev (hl.trans hw'.1.1) k1 hB
        | _ => simp only [] at h; cases h; exact k1
    | store v e =>
      simp only [wtR, Bool.and_eq_true, Bool.not_eq_true', List.contains_eq_mem, decide_eq_false_iff_not] at hw
      obtain ⟨hw, hvr⟩ := hw
      simp only [eval] at h
      split at h
      · cases h
        exact (one e hw.2 _ _ (by assumption)).trans (keepv_set hC hK hw.1.2 hvr)
      · cases h; exact one e hw.2 _ _ (by assumption)
      · exact one e hw.2 _ _ h
    | multi op imms args outs =>
      simp only [wtR, Bool.and_eq_true] at hw
      obtain ⟨hw, houts⟩ := hw
      cases hsig : primSigK { K with dyn := false } op with
      | none => rw [hsig] at hw; exact absurd hw.1.1.2 (by simp)
      | some kp =>
        simp only [List.all_eq_true, Bool.and_eq_true, Bool.not_eq_true', List.contains_eq_mem,
          decide_eq_false_iff_not] at hw houts
        simp only [eval] at h
        rcases hev : evalArgs ⟨cx, p, cur⟩ fuel args w [] with ⟨r1, w1⟩
        rw [hev] at h
        have k1 := ih.args cur args w [] r1 w1 K _ hK hw.2 hev
        cases r1 with
        | vals st =>
          simp only [] at h
          cases hB : execPrim cx op imms w1 st with
          | error f => rw [hB] at h; cases h; exact k1
          | ok x =>
            obtain ⟨st', w2⟩ := x
            rw [hB] at h
            simp only [] at h
            have k2 : KR p S A w1 w2 := by
              cases (primSigK_cases hsig).2 with
              | framed hf => exact KR.of_same (framed_scratch hf cx imms hB)
              | slot _ hstr _ => have := hK.kv.strict; rw [this] at hstr; cases hstr
              | dyn _ hd _ => cases hd
            split at h
            · cases h
              refine k1.trans (k2.trans (KR.of_notin hC (fun s hs => ?_)))
              refine getSlot_foldl_notin _ _ _ ?_
              intro hmem
              obtain ⟨pr, hpr, hpr1⟩ := List.mem_map.mp hmem
              have := (List.of_mem_zip hpr).1
              have hout := houts pr.1 (List.mem_reverse.mp this)
              have hout2 := (hw.1.2 pr.1 (List.mem_reverse.mp this)).2
              rw [hK.kv.refAll] at hout
              rw [hK.ign] at hout2
              rcases hs with hs | hs
              · exact hout2 (hpr1 ▸ hs)
              · exact hout (hpr1 ▸ hs)
            · cases h; exact k1.trans k2
        | _ => simp only [] at h; cases h; exact k1
    | seq es =>
      simp only [wtR] at hw
      simp only [eval] at h
      exact ih.seq cur es w r w' K bc rc n _ hK hw h
    | ite c t e =>
      simp only [eval] at h
      cases e with
      | none =>
        simp only [wtR, Bool.and_eq_true] at hw
        split at h
        · have k1 := one c hw.1.2 _ _ (by assumption)
          split at h
          · exact k1.trans (ih.ev cur t _ r w' K _ _ _ _ hK hw.2 h)
          · cases h; exact k1
        · cases h; exact one c hw.1.2 _ _ (by assumption)
        · exact one c hw.1.2 _ _ h
      | some e =>
        simp only [wtR, Bool.and_eq_true] at hw
        split at h
        · have k1 := one c hw.1.1 _ _ (by assumption)
          split at h
          · exact k1.trans (ih.ev cur t _ r w' K _ _ _ _ hK hw.1.2 h)
          · exact k1.trans (ih.ev cur e _ r w' K _ _ _ _ hK hw.2 h)
        · cases h; exact one c hw.1.1 _ _ (by assumption)
        · exact one c hw.1.1 _ _ h
    | cond arms =>
      simp only [wtR] at hw
      simp only [eval] at h
      exact ih.cond cur arms w r w' K bc rc n _ hK hw h
    | while_ c b =>
      have hw0 := hw
      simp only [wtR, Bool.and_eq_true] at hw
      simp only [eval] at h
      have again : ∀ w2 r w', eval ⟨cx, p, cur⟩ fuel (.while_ c b) w2 = (r, w') → KR p S A w2 w' :=
        fun w2 r w' hh => ih.ev cur _ w2 r w' K bc rc n _ hK hw0 hh
      split at h
      · have k1 := one c hw.1.2 _ _ (by assumption)
        split at h
        · cases h; exact k1
        · split at h
          · exact k1.trans ((ih.ev cur b _ _ _ K _ _ _ _ hK hw.2 (by assumption)).trans (again _ _ _ h))
          · exact k1.trans ((ih.ev cur b _ _ _ K _ _ _ _ hK hw.2 (by assumption)).trans (again _ _ _ h))
          · cases h; exact k1.trans (ih.ev cur b _ _ _ K _ _ _ _ hK hw.2 (by assumption))
          · exact k1.trans (ih.ev cur b _ _ _ K _ _ _ _ hK hw.2 h)
      · cases h; exact one c hw.1.2 _ _ (by assumption)
      · cases h; exact one c hw.1.2 _ _ (by assumption)
      · exact (one c hw.1.2 _ _ (by assumption)).trans (again _ _ _ h)
      · exact one c hw.1.2 _ _ h
    | for_ i c st b =>
      simp only [wtR, Bool.and_eq_true] at hw
      simp only [eval] at h
      have loop : ∀ w2 r w', evalForLoop ⟨cx, p, cur⟩ fuel c st b w2 = (r, w') → KR p S A w2 w' :=
        fun w2 r w' hh => ih.forL cur c st b w2 r w' K rc _ hK hw.1.1.2 hw.1.2 hw.2 hh
      split at h
      · exact (one i hw.1.1.1.2 _ _ (by assumption)).trans (loop _ _ _ h)
      · cases h; exact one i hw.1.1.1.2 _ _ (by assumption)
      · have k1 := one i hw.1.1.1.2 _ _ (by assumption)
        split at h
        · exact k1.trans ((ih.ev cur st _ _ _ K _ _ _ _ hK hw.1.2 (by assumption)).trans (loop _ _ _ h))
        · cases h; exact k1.trans (ih.ev cur st _ _ _ K _ _ _ _ hK hw.1.2 (by assumption))
        · exact k1.trans (ih.ev cur st _ _ _ K _ _ _ _ hK hw.1.2 h)
      · exact one i hw.1.1.1.2 _ _ h
    | assert_ c =>
      simp only [wtR, Bool.and_eq_true] at hw
      simp only [eval] at h
      split at h
      · split at h <;> (cases h; exact one c hw.2 _ _ (by assumption))
      · cases h; exact one c hw.2 _ _ (by assumption)
      · exact one c hw.2 _ _ h
    | ret e =>
      cases e with
      | none => simp only [eval] at h; cases h; exact .refl _ _
      | some e =>
        simp only [wtR, Bool.and_eq_true] at hw
        simp only [eval] at h
        split at h
        · cases h; exact one e hw.2 _ _ (by assumption)
        · cases h; exact one e hw.2 _ _ (by assumption)
        · exact one e hw.2 _ _ h
    | exit e =>
      simp only [wtR] at hw
      simp only [eval] at h
      split at h
      · cases h; exact one e hw _ _ (by assumption)
      · cases h; exact one e hw _ _ (by assumption)
      · exact one e hw _ _ h
    | call f args => exact keepv_call hC ih hK hw h
    | wideRatio ns ds =>
      simp only [wtR, Bool.and_eq_true] at hw
      have hwa : wtRArgs K (ns ++ ds) = true := by rw [wtRArgs_append, hw.1.1.2, hw.1.2]; rfl
      rw [eval_wideRatio] at h
      split at h
      · cases h; exact ih.args cur (ns ++ ds) w [] _ _ K _ hK hwa (by assumption)
      · exact ih.args cur (ns ++ ds) w [] r w' K _ hK hwa h
    | substring a b c =>
      simp only [wtR, Bool.and_eq_true] at hw
      simp only [eval] at h
      exact ih.op cur _ _ w r w' K _ hK (by simp only [wtRArgs, hw.1.1.2, hw.1.2, hw.2, Bool.and_self]) (by decide) h
    | extract a b c =>
      simp only [wtR, Bool.and_eq_true] at hw
      simp only [eval] at h
      exact ih.op cur _ _ w r w' K _ hK (by simp only [wtRArgs, hw.1.1.2, hw.1.2, hw.2, Bool.and_self]) (by decide) h
    | suffix a b =>
      simp only [wtR, Bool.and_eq_true] at hw
      simp only [eval] at h
      exact ih.op cur _ _ w r w' K _ hK (by simp only [wtRArgs, hw.1.2, hw.2, Bool.and_self]) (by decide) h
    | note e =>
      cases e with
      | none => simp only [eval] at h; cases h; exact .refl _ _
      | some e =>
        simp only [wtR] at hw
        simp only [eval] at h
        exact ih.ev cur e w r w' K bc rc n _ hK hw h
    | nonce b e =>
      simp only [wtR] at hw
      simp only [eval] at h
      exact ih.ev cur e w r w' K bc rc n _ hK hw h
  args := by
    intro cur es w acc r w' K A hK hw h
    cases es with
    | nil => simp only [evalArgs] at h; cases h; exact .refl _ _
    | cons e es =>
      simp only [wtRArgs, Bool.and_eq_true] at hw
      simp only [evalArgs] at h
      split at h
      · exact (ih.ev cur e w _ _ K _ _ _ _ hK hw.1 (by assumption)).trans (ih.args cur es _ _ r w' K _ hK hw.2 h)
      · exact ih.ev cur e w _ _ K _ _ _ _ hK hw.1 h
  seq := by
    intro cur es w r w' K bc rc n A hK hw h
    match es with
    | [] => simp only [evalSeq] at h; cases h; exact .refl _ _
    | [e] =>
      simp only [wtRSeq] at hw
      simp only [evalSeq] at h
      exact ih.ev cur e w r w' K bc rc n _ hK hw h
    | e :: e2 :: es =>
      simp only [wtRSeq, Bool.and_eq_true] at hw
      simp only [evalSeq] at h
      split at h
      · exact (ih.ev cur e w _ _ K _ _ _ _ hK hw.1 (by assumption)).trans (ih.seq cur _ _ r w' K bc rc n _ hK hw.2 h)
      · exact ih.ev cur e w _ _ K _ _ _ _ hK hw.1 h
  cond := by
    intro cur arms w r w' K bc rc n A hK hw h
    match arms with
    | [] => simp only [evalCond] at h; cases h; exact .refl _ _
    | (c, b) :: rest =>
      simp only [wtRArms, Bool.and_eq_true] at hw
      simp only [evalCond] at h
      split at h
      · have k1 := ih.ev cur c w _ _ K _ _ _ _ hK hw.1.1 (by assumption)
        split at h
        · exact k1.trans (ih.ev cur b _ r w' K _ _ _ _ hK hw.1.2 h)
        · exact k1.trans (ih.cond cur rest _ r w' K bc rc n _ hK hw.2 h)
      · cases h; exact ih.ev cur c w _ _ K _ _ _ _ hK hw.1.1 (by assumption)
      · exact ih.ev cur c w _ _ K _ _ _ _ hK hw.1.1 h
  forL := by
    intro cur c st d w r w' K rc A hK hwc hws hwd h
    simp only [evalForLoop] at h
    have after : ∀ w2 r w', (match eval ⟨cx, p, cur⟩ fuel st w2 with
          | (.vals _, w3) => evalForLoop ⟨cx, p, cur⟩ fuel c st d w3
          | (.brk, w3) => (.vals [], w3)
          | (.cont, w3) => (.fail (.unmodelled "continue inside For step"), w3)
          | r => r) = (r, w') → KR p S A w2 w' := by
      intro w2 r w' hh
      split at hh
      · exact (ih.ev cur st w2 _ _ K _ _ _ _ hK hws (by assumption)).trans (ih.forL cur c st d _ r w' K rc _ hK hwc hws hwd hh)
      · cases hh; exact ih.ev cur st w2 _ _ K _ _ _ _ hK hws (by assumption)
      · cases hh; exact ih.ev cur st w2 _ _ K _ _ _ _ hK hws (by assumption)
      · exact ih.ev cur st w2 _ _ K _ _ _ _ hK hws hh
    split at h
    · have k1 := ih.ev cur c w _ _ K _ _ _ _ hK hwc (by assumption)
      split at h
      · cases h; exact k1
      · split at h
        · exact k1.trans ((ih.ev cur d _ _ _ K _ _ _ _ hK hwd (by assumption)).trans (after _ _ _ h))
        · exact k1.trans ((ih.ev cur d _ _ _ K _ _ _ _ hK hwd (by assumption)).trans (after _ _ _ h))
        · cases h; exact k1.trans (ih.ev cur d _ _ _ K _ _ _ _ hK hwd (by assumption))
        · exact k1.trans (ih.ev cur d _ _ _ K _ _ _ _ hK hwd h)
    · cases h; exact ih.ev cur c w _ _ K _ _ _ _ hK hwc (by assumption)
    · cases h; exact ih.ev cur c w _ _ K _ _ _ _ hK hwc (by assumption)
    · cases h; exact ih.ev cur c w _ _ K _ _ _ _ hK hwc (by assumption)
    · exact ih.ev cur c w _ _ K _ _ _ _ hK hwc h
  op := by
    intro cur o es w r w' K A hK hw ho h
    simp only [evalOp] at h
    rcases hev : evalArgs ⟨cx, p, cur⟩ fuel es w [] with ⟨r1, w1⟩
    rw [hev] at h
    have k1 := ih.args cur es w [] r1 w1 K _ hK hw hev
    cases r1 with
    | vals st =>
      simp only [] at h
      cases hB : execPrim cx o [] w1 st with
      | error f => rw [hB] at h; cases h; exact k1
      | ok x =>
        obtain ⟨st', w2⟩ := x
        rw [hB] at h
        cases h
        exact k1.trans (KR.of_same (framed_scratch ho cx [] hB))
    | _ => simp only [] at h; cases h; exact k1

/-- **Footprint theorem under the by-reference discipline.** -/
theorem presV_all (hC : PresVCtx p dyn S T) : ∀ fuel, PresVAll cx p dyn S T fuel
  | 0 => presVAll_zero
  | f + 1 => presVAll_succ hC (presV_all hC f)

end Step

end PyTealV.Proofs.C02Gen
