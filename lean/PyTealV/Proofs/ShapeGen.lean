/-
  Closing lemma of the code-generation correctness proof: the graph produced by `gen` satisfies
  `Shape`.  The graph only grows: `emit` appends, `write` only fills ids reserved before, so a
  monotone-state argument suffices (`Ext P g g'`: `g'` extends `g` and agrees with it outside
  the still-pending ids `P`).
-/
import PyTealV.Proofs.ShapeMach
namespace PyTealV.Proofs.Shape
open PyTealV PyTealV.Avm PyTealV.Src PyTealV.Comp PyTealV.Models.Fragment

/-! ### Running the generator monad -/

theorem bind_ok {α β : Type} {x : GenM α} {f : α → GenM β} {g : Graph} {r : β × Graph}
    (h : (x >>= f) g = .ok r) : ∃ a g', x g = .ok (a, g') ∧ f a g' = .ok r := by
  simp only [bind, StateT.bind, Except.bind] at h
  split at h
  · cases h
  · rename_i v hv
    exact ⟨v.1, v.2, hv, h⟩

theorem emit_ok {b : Block} {g : Graph} {r : Nat × Graph} (h : emit b g = .ok r) :
    r = (g.size, g.push b) := by
  simp only [emit, bind, StateT.bind, get, getThe, MonadStateOf.get, StateT.get, set, StateT.set, pure,
    Except.pure, Except.bind, StateT.pure] at h
  cases h
  rfl

theorem opBlock_ok {ops : List Instr} {k : Nat} {g : Graph} {r : Nat × Graph} (h : opBlock ops k g = .ok r) :
    r = (g.size, g.push { ops := ops, succ := .next k }) := emit_ok h

theorem reserve_ok {g : Graph} {r : Nat × Graph} (h : reserve g = .ok r) : r = (g.size, g.push {}) := emit_ok h

theorem write_ok {i : Nat} {b : Block} {g : Graph} {r : Unit × Graph} (h : write i b g = .ok r) :
    r = ((), g.setIfInBounds i b) := by
  simp only [write, modify, modifyGet, MonadStateOf.modifyGet, StateT.modifyGet, pure, Except.pure] at h
  cases h
  rfl

theorem pure_ok {α : Type} {a : α} {g : Graph} {r : α × Graph} (h : (pure a : GenM α) g = .ok r) : r = (a, g) := by
  simp only [pure, StateT.pure, Except.pure] at h
  cases h
  rfl

theorem throw_ok {α : Type} {e : String} {g : Graph} {r : α × Graph} (h : (throw e : GenM α) g = .ok r) : False := by
  simp only [throw, throwThe, MonadExceptOf.throw] at h
  cases h

/-! ### Graph extension -/

/-- `g'` extends `g` and agrees with it on every index outside `P` -/
def Ext (P : Nat → Prop) (g g' : Graph) : Prop :=
  g.size ≤ g'.size ∧ ∀ i, i < g.size → ¬ P i → g'[i]? = g[i]?

def noP : Nat → Prop := fun _ => False

theorem Ext.refl (P : Nat → Prop) (g : Graph) : Ext P g g := ⟨Nat.le_refl _, fun _ _ _ => rfl⟩

theorem Ext.trans {P Q : Nat → Prop} {a b c : Graph} (h1 : Ext P a b) (h2 : Ext Q b c) :
    Ext (fun i => P i ∨ Q i) a c :=
  ⟨Nat.le_trans h1.1 h2.1, fun i hi hn => by
    rw [h2.2 i (Nat.lt_of_lt_of_le hi h1.1) (fun h => hn (.inr h)), h1.2 i hi (fun h => hn (.inl h))]⟩

theorem Ext.mono {P Q : Nat → Prop} {a b : Graph} (h : Ext P a b) (hpq : ∀ i, i < a.size → P i → Q i) : Ext Q a b :=
  ⟨h.1, fun i hi hn => h.2 i hi (fun hp => hn (hpq i hi hp))⟩

theorem Ext.push (g : Graph) (b : Block) : Ext noP g (g.push b) :=
  ⟨by simp, fun i hi _ => by simp [Array.getElem?_push, Nat.ne_of_lt hi]⟩

theorem Ext.set (g : Graph) (j : Nat) (b : Block) : Ext (fun i => i = j) g (g.setIfInBounds j b) :=
  ⟨by simp, fun i hi hn => by
    rw [Array.getElem?_setIfInBounds]
    have : j ≠ i := fun h => hn h.symm
    simp [this]⟩

theorem Ext.get {P : Nat → Prop} {a b : Graph} (h : Ext P a b) {i : Nat} (hi : i < a.size) (hn : ¬ P i) :
    b[i]? = a[i]? := h.2 i hi hn

/-- generic specification of a generator step from `g0` to `g1` establishing `A` of every final graph -/
def Spec (A : Graph → Prop) (g0 g1 : Graph) : Prop :=
  Ext noP g0 g1 ∧ ∀ G P, (∀ i, P i → i < g0.size) → Ext P g1 G → A G

theorem Spec.mono {A B : Graph → Prop} {g0 g1 : Graph} (h : Spec A g0 g1) (hab : ∀ G, A G → B G) : Spec B g0 g1 :=
  ⟨h.1, fun G P hP hG => hab G (h.2 G P hP hG)⟩

theorem Spec.seq {A B : Graph → Prop} {g0 g1 g2 : Graph} (h1 : Spec A g0 g1) (h2 : Spec B g1 g2) :
    Spec (fun G => A G ∧ B G) g0 g2 := by
  refine ⟨(h1.1.trans h2.1).mono (fun i _ h => h.elim id id), fun G P hP hG => ⟨?_, ?_⟩⟩
  · exact h1.2 G P hP ((h2.1.trans hG).mono (fun i hi h => h.elim (fun f => f.elim) id))
  · exact h2.2 G P (fun i hi => Nat.lt_of_lt_of_le (hP i hi) h1.1.1) hG

theorem Spec.emit (g : Graph) (b : Block) : Spec (fun G => G[g.size]? = some b) g (g.push b) := by
  refine ⟨Ext.push g b, fun G P hP hG => ?_⟩
  show G[g.size]? = some b
  rw [hG.get (by simp) (fun h => Nat.lt_irrefl _ (hP _ h))]
  simp

theorem Spec.refl (g : Graph) : Spec (fun _ => True) g g := ⟨.refl _ _, fun _ _ _ _ => trivial⟩

theorem Spec.emit_then {A B : Graph → Prop} {g0 g1 : Graph} {b : Block}
    (h2 : Spec B (g0.push b) g1) (hab : ∀ G, G[g0.size]? = some b → B G → A G) : Spec A g0 g1 :=
  ((Spec.emit g0 b).seq h2).mono (fun G h => hab G h.1 h.2)

theorem Spec.emit_only {A : Graph → Prop} {g0 : Graph} {b : Block}
    (hab : ∀ G, G[g0.size]? = some b → A G) : Spec A g0 (g0.push b) :=
  (Spec.emit g0 b).mono hab

theorem Ext.tm {P Q R : Nat → Prop} {a b c : Graph} (h1 : Ext P a b) (h2 : Ext Q b c)
    (h : ∀ i, i < a.size → P i ∨ Q i → R i) : Ext R a c := (h1.trans h2).mono h

theorem set_get {g : Graph} {j : Nat} {b : Block} (hj : j < g.size) : (g.setIfInBounds j b)[j]? = some b := by
  simp [hj]

variable {cfg : GenCfg}

theorem while_spec {c d : Expr} {k : Nat} {L : Option Loop} {g0 gd gf : Graph} {cs ds : Nat}
    (hc : Spec (fun G => Shape G cfg c cs (g0.size + 1) (some ⟨g0.size, g0.size + 2⟩))
      (((g0.push { ops := [], succ := .next k }).push {}).push {}) gd)
    (hd : Spec (fun G => Shape G cfg d ds (g0.size + 2) (some ⟨g0.size, g0.size + 2⟩))
      (gd.setIfInBounds (g0.size + 2) { ops := [], succ := .next cs }) gf) :
    Spec (fun G => Shape G cfg (.while_ c d) (g0.size + 2) k L) g0
      (gf.setIfInBounds (g0.size + 1) { ops := [], succ := .cond ds g0.size }) := by
  have s1 := hc.1.1
  have s2 := hd.1.1
  simp only [Array.size_push, Array.size_setIfInBounds] at s1 s2
  have ea : Ext noP g0 (((g0.push { ops := [], succ := .next k }).push {}).push {}) :=
    ((Ext.push _ _).tm (Ext.push _ _) (fun i _ h => h.elim id id)).tm (Ext.push _ _) (fun i _ h => h.elim id id)
  refine ⟨?_, fun G P hP hG => ?_⟩
  · refine (ea.tm hc.1 (fun i _ h => h.elim id id)).tm
      (((Ext.set gd (g0.size + 2) _).tm hd.1 (fun i _ h => h.elim id (fun f => f.elim))).tm
        (Ext.set gf (g0.size + 1) _) (fun i _ h => h)) ?_
    intro i hi h
    rcases h with h | h | h
    · exact h
    · omega
    · omega
  · have hgf : Ext (fun i => P i ∨ i = g0.size + 1) gf G :=
      (Ext.set gf (g0.size + 1) _).tm hG (fun i _ h => h.symm)
    have hgd : Ext (fun i => P i ∨ i = g0.size + 1 ∨ i = g0.size + 2) gd G :=
      ((Ext.set gd (g0.size + 2) _).tm hd.1 (fun i _ h => h.elim id (fun f => f.elim))).tm hgf
        (fun i _ h => by rcases h with h | h | h <;> simp [h])
    have hga : Ext (fun i => P i ∨ i = g0.size + 1 ∨ i = g0.size + 2) (g0.push { ops := [], succ := .next k }) G :=
      (((Ext.push _ _).tm (Ext.push _ _) (fun i _ h => h.elim id id)).tm hc.1 (fun i _ h => h.elim id id)).tm hgd
        (fun i _ h => h.elim (fun f => f.elim) id)
    have hnP : ∀ j, g0.size ≤ j → ¬ P j := fun j hj h => by have := hP j h; omega
    refine .while_ (endB := g0.size) (br := g0.size + 1) (cs := cs) (ds := ds) ?_ ?_ ?_ ?_ ?_
    · show G[g0.size]? = _
      rw [hga.get (by simp) (by intro h; rcases h with h | h | h; exact hnP _ (Nat.le_refl _) h; omega; omega)]
      simp
    · show G[g0.size + 2]? = _
      rw [hgf.get (by omega) (by intro h; rcases h with h | h; exact hnP _ (by omega) h; omega),
        hd.1.get (by simp; omega) (fun f => f.elim), set_get (by omega)]
    · exact hc.2 G _ (by intro i h; simp only [Array.size_push]; rcases h with h | h | h; have := hP i h; omega; omega; omega) hgd
    · exact hd.2 G _ (by intro i h; simp only [Array.size_setIfInBounds]; rcases h with h | h; have := hP i h; omega; omega) hgf
    · show G[g0.size + 1]? = _
      rw [hG.get (by simp; omega) (hnP _ (by omega)), set_get (by omega)]


theorem for_spec {i c st d : Expr} {k : Nat} {L : Option Loop} {g0 gd ge gg g1 : Graph} {cs ss ds s : Nat}
    (hc : Spec (fun G => Shape G cfg c cs (g0.size + 1) (some ⟨g0.size, g0.size + 2⟩))
      (((g0.push { ops := [], succ := .next k }).push {}).push {}) gd)
    (hs : Spec (fun G => Shape G cfg st ss cs (some ⟨g0.size, g0.size + 2⟩)) gd ge)
    (hd : Spec (fun G => Shape G cfg d ds (g0.size + 2) (some ⟨g0.size, g0.size + 2⟩))
      (ge.setIfInBounds (g0.size + 2) { ops := [], succ := .next ss }) gg)
    (hi : Spec (fun G => Shape G cfg i s cs (some ⟨g0.size, g0.size + 2⟩))
      (gg.setIfInBounds (g0.size + 1) { ops := [], succ := .cond ds g0.size }) g1) :
    Spec (fun G => Shape G cfg (.for_ i c st d) s k L) g0 g1 := by
  have s1 := hc.1.1
  have s2 := hs.1.1
  have s3 := hd.1.1
  have s4 := hi.1.1
  simp only [Array.size_push, Array.size_setIfInBounds] at s1 s2 s3 s4
  have ea : Ext noP g0 (((g0.push { ops := [], succ := .next k }).push {}).push {}) :=
    ((Ext.push _ _).tm (Ext.push _ _) (fun i _ h => h.elim id id)).tm (Ext.push _ _) (fun i _ h => h.elim id id)
  refine ⟨?_, fun G P hP hG => ?_⟩
  · refine ((ea.tm hc.1 (fun i _ h => h.elim id id)).tm hs.1 (fun i _ h => h.elim id id)).tm
      ((((Ext.set ge (g0.size + 2) _).tm hd.1 (fun i _ h => h.elim id (fun f => f.elim))).tm
        (Ext.set gg (g0.size + 1) _) (fun i _ h => h)).tm hi.1 (fun i _ h => h.elim id (fun f => f.elim))) ?_
    intro i hi h
    rcases h with h | h | h
    · exact h
    · omega
    · omega
  · have hgh : Ext P (gg.setIfInBounds (g0.size + 1) { ops := [], succ := .cond ds g0.size }) G :=
      hi.1.tm hG (fun i _ h => h.elim (fun f => f.elim) id)
    have hgg : Ext (fun i => P i ∨ i = g0.size + 1) gg G :=
      (Ext.set gg (g0.size + 1) _).tm hgh (fun i _ h => h.symm)
    have hgf : Ext (fun i => P i ∨ i = g0.size + 1)
        (ge.setIfInBounds (g0.size + 2) { ops := [], succ := .next ss }) G :=
      hd.1.tm hgg (fun i _ h => h.elim (fun f => f.elim) id)
    have hge : Ext (fun i => P i ∨ i = g0.size + 1 ∨ i = g0.size + 2) ge G :=
      (Ext.set ge (g0.size + 2) _).tm hgf (fun i _ h => by rcases h with h | h | h <;> simp [h])
    have hgd : Ext (fun i => P i ∨ i = g0.size + 1 ∨ i = g0.size + 2) gd G :=
      hs.1.tm hge (fun i _ h => h.elim (fun f => f.elim) id)
    have hga : Ext (fun i => P i ∨ i = g0.size + 1 ∨ i = g0.size + 2) (g0.push { ops := [], succ := .next k }) G :=
      (((Ext.push _ _).tm (Ext.push _ _) (fun i _ h => h.elim id id)).tm hc.1 (fun i _ h => h.elim id id)).tm hgd
        (fun i _ h => h.elim (fun f => f.elim) id)
    have hnP : ∀ j, g0.size ≤ j → ¬ P j := fun j hj h => by have := hP j h; omega
    refine .for_ (endB := g0.size) (br := g0.size + 1) (shdr := g0.size + 2) (cs := cs) (ss := ss) (ds := ds)
      ?_ ?_ ?_ ?_ ?_ ?_ ?_
    · show G[g0.size]? = _
      rw [hga.get (by simp) (by intro h; rcases h with h | h | h; exact hnP _ (Nat.le_refl _) h; omega; omega)]
      simp
    · exact hc.2 G _ (by intro i h; simp only [Array.size_push]; rcases h with h | h | h; have := hP i h; omega; omega; omega) hgd
    · exact hs.2 G _ (by intro i h; rcases h with h | h | h; have := hP i h; omega; omega; omega) hge
    · show G[g0.size + 2]? = _
      rw [hgf.get (by simp; omega) (by intro h; rcases h with h | h; exact hnP _ (by omega) h; omega),
        set_get (by omega)]
    · exact hd.2 G _ (by intro i h; simp only [Array.size_setIfInBounds]; rcases h with h | h; have := hP i h; omega; omega) hgg
    · show G[g0.size + 1]? = _
      rw [hgh.get (by simp; omega) (hnP _ (by omega)), set_get (by omega)]
    · exact hi.2 G _ (by intro i h; simp only [Array.size_setIfInBounds]; have := hP i h; omega) hG

mutual
  theorem gen_spec : ∀ (e : Expr) (k : Nat) (L : Option Loop) (g0 : Graph) (s : Nat) (g1 : Graph),
      cfg.inSub = false → gen cfg e k L g0 = .ok (s, g1) → Spec (fun G => Shape G cfg e s k L) g0 g1
    | .int n, k, L, g0, s, g1, hsub, h => by
      simp only [gen] at h
      cases opBlock_ok h
      exact Spec.emit_only (fun G hb => .int hb)
    | .bytes b, k, L, g0, s, g1, hsub, h => by
      simp only [gen] at h
      cases opBlock_ok h
      exact Spec.emit_only (fun G hb => .bytes hb)
    | .load v, k, L, g0, s, g1, hsub, h => by
      simp only [gen] at h
      cases opBlock_ok h
      exact Spec.emit_only (fun G hb => .load hb)
    | .index v, k, L, g0, s, g1, hsub, h => by
      simp only [gen] at h
      cases opBlock_ok h
      exact Spec.emit_only (fun G hb => .index hb)
    | .err, k, L, g0, s, g1, hsub, h => by
      simp only [gen] at h
      cases opBlock_ok h
      exact Spec.emit_only (fun G hb => .err hb)
    | .note none, k, L, g0, s, g1, hsub, h => by
      simp only [gen] at h
      cases opBlock_ok h
      exact Spec.emit_only (fun G hb => .noteNone hb)
    | .note (some e), k, L, g0, s, g1, hsub, h => by
      simp only [gen] at h
      exact (gen_spec e _ _ _ _ _ hsub h).mono (fun G he => .noteSome he)
    | .store v e, k, L, g0, s, g1, hsub, h => by
      simp only [gen] at h
      obtain ⟨ob, g2, h1, h2⟩ := bind_ok h
      cases opBlock_ok h1
      exact Spec.emit_then (gen_spec e _ _ _ _ _ hsub h2) (fun G hb he => .store hb he)
    | .prim op imms args, k, L, g0, s, g1, hsub, h => by
      simp only [gen] at h
      obtain ⟨ob, g2, h1, h2⟩ := bind_ok h
      cases opBlock_ok h1
      exact Spec.emit_then (genArgs_spec args _ _ _ _ _ hsub h2) (fun G hb ha => .prim hb ha)
    | .seq es, k, L, g0, s, g1, hsub, h => by
      simp only [gen] at h
      exact (genSeq_spec es _ _ _ _ _ hsub h).mono (fun G hs => .seq hs)
    | .multi op imms args outs, k, L, g0, s, g1, hsub, h => by
      simp only [gen] at h
      obtain ⟨sb, g2, h1, h⟩ := bind_ok h
      cases opBlock_ok h1
      obtain ⟨ob, g3, h2, h3⟩ := bind_ok h
      cases opBlock_ok h2
      exact Spec.emit_then (Spec.emit_then (genArgs_spec args _ _ _ _ _ hsub h3) (fun G hb ha => And.intro hb ha))
        (fun G hsb h => .multi hsb h.1 h.2)
    | .ite c t (some e), k, L, g0, s, g1, hsub, h => by
      simp only [gen] at h
      obtain ⟨endB, g2, h1, h⟩ := bind_ok h
      cases opBlock_ok h1
      obtain ⟨ts, g3, h2, h⟩ := bind_ok h
      obtain ⟨es, g4, h3, h⟩ := bind_ok h
      obtain ⟨br, g5, h4, h5⟩ := bind_ok h
      cases emit_ok h4
      exact Spec.emit_then (((gen_spec t _ _ _ _ _ hsub h2).seq (gen_spec e _ _ _ _ _ hsub h3)).seq
        (Spec.emit_then (gen_spec c _ _ _ _ _ hsub h5) (fun G hb hc => And.intro hb hc)))
        (fun G hend h => .iteSome hend h.1.1 h.1.2 h.2.1 h.2.2)
    | .ite c t none, k, L, g0, s, g1, hsub, h => by
      simp only [gen] at h
      obtain ⟨endB, g2, h1, h⟩ := bind_ok h
      cases opBlock_ok h1
      obtain ⟨ts, g3, h2, h⟩ := bind_ok h
      obtain ⟨es, g4, h3, h⟩ := bind_ok h
      cases pure_ok h3
      obtain ⟨br, g5, h4, h5⟩ := bind_ok h
      cases emit_ok h4
      exact Spec.emit_then ((gen_spec t _ _ _ _ _ hsub h2).seq
        (Spec.emit_then (gen_spec c _ _ _ _ _ hsub h5) (fun G hb hc => And.intro hb hc)))
        (fun G hend h => .iteNone hend h.1 h.2.1 h.2.2)
    | .cond arms, k, L, g0, s, g1, hsub, h => by
      simp only [gen] at h
      obtain ⟨endB, g2, h1, h⟩ := bind_ok h
      cases opBlock_ok h1
      obtain ⟨errB, g3, h2, h3⟩ := bind_ok h
      cases emit_ok h2
      exact Spec.emit_then (Spec.emit_then (genCond_spec arms _ _ _ _ _ _ hsub h3) (fun G hb ha => And.intro hb ha))
        (fun G hend h => .cond hend h.1 h.2)
    | .while_ c d, k, L, g0, s, g1, hsub, h => by
      simp only [gen] at h
      obtain ⟨endB, g2, h1, h⟩ := bind_ok h
      cases opBlock_ok h1
      obtain ⟨br, g3, h2, h⟩ := bind_ok h
      cases reserve_ok h2
      obtain ⟨hdr, g4, h3, h⟩ := bind_ok h
      cases reserve_ok h3
      obtain ⟨cs, gd, h4, h⟩ := bind_ok h
      obtain ⟨u1, ge, h5, h⟩ := bind_ok h
      cases write_ok h5
      obtain ⟨ds, gf, h6, h⟩ := bind_ok h
      obtain ⟨u2, gg, h7, h⟩ := bind_ok h
      cases write_ok h7
      cases pure_ok h
      simp only [Array.size_push] at h4 h6 ⊢
      exact while_spec (gen_spec c _ _ _ _ _ hsub h4) (gen_spec d _ _ _ _ _ hsub h6)
    | .for_ i c st d, k, L, g0, s, g1, hsub, h => by
      simp only [gen] at h
      obtain ⟨endB, g2, h1, h⟩ := bind_ok h
      cases opBlock_ok h1
      obtain ⟨br, g3, h2, h⟩ := bind_ok h
      cases reserve_ok h2
      obtain ⟨shdr, g4, h3, h⟩ := bind_ok h
      cases reserve_ok h3
      obtain ⟨cs, gd, h4, h⟩ := bind_ok h
      obtain ⟨ss, ge, h5, h⟩ := bind_ok h
      obtain ⟨u1, gf, h6, h⟩ := bind_ok h
      cases write_ok h6
      obtain ⟨ds, gg, h7, h⟩ := bind_ok h
      obtain ⟨u2, gh, h8, h⟩ := bind_ok h
      cases write_ok h8
      simp only [Array.size_push] at h4 h5 h7 h ⊢
      exact for_spec (gen_spec c _ _ _ _ _ hsub h4) (gen_spec st _ _ _ _ _ hsub h5)
        (gen_spec d _ _ _ _ _ hsub h7) (gen_spec i _ _ _ _ _ hsub h)
    | .brk, k, L, g0, s, g1, hsub, h => by
      cases L with
      | none => simp only [gen] at h; exact (throw_ok h).elim
      | some l =>
        simp only [gen] at h
        cases emit_ok h
        exact Spec.emit_only (fun G hb => .brk hb)
    | .cont, k, L, g0, s, g1, hsub, h => by
      cases L with
      | none => simp only [gen] at h; exact (throw_ok h).elim
      | some l =>
        simp only [gen] at h
        cases emit_ok h
        exact Spec.emit_only (fun G hb => .cont hb)
    | .assert_ c, k, L, g0, s, g1, hsub, h => by
      simp only [gen] at h
      split at h
      · rename_i hv
        obtain ⟨ob, g2, h1, h2⟩ := bind_ok h
        cases opBlock_ok h1
        exact Spec.emit_then (gen_spec c _ _ _ _ _ hsub h2) (fun G hb hc => .assert3 hv hb hc)
      · rename_i hv
        obtain ⟨endB, g2, h1, h⟩ := bind_ok h
        cases opBlock_ok h1
        obtain ⟨errB, g3, h2, h⟩ := bind_ok h
        cases emit_ok h2
        obtain ⟨br, g4, h3, h4⟩ := bind_ok h
        cases emit_ok h3
        exact Spec.emit_then (Spec.emit_then (Spec.emit_then (gen_spec c _ _ _ _ _ hsub h4)
          (fun G hb hc => And.intro hb hc)) (fun G hb h => And.intro hb h))
          (fun G hend h => .assert2 hv hend h.1 h.2.1 h.2.2)
    | .ret none, k, L, g0, s, g1, hsub, h => by
      simp only [gen, hsub] at h
      exact (throw_ok h).elim
    | .ret (some e), k, L, g0, s, g1, hsub, h => by
      simp only [gen] at h
      obtain ⟨ob, g2, h1, h2⟩ := bind_ok h
      cases opBlock_ok h1
      exact Spec.emit_then (gen_spec e _ _ _ _ _ hsub h2) (fun G hb he => .ret hb he)
    | .exit e, k, L, g0, s, g1, hsub, h => by
      simp only [gen] at h
      obtain ⟨ob, g2, h1, h2⟩ := bind_ok h
      cases opBlock_ok h1
      exact Spec.emit_then (gen_spec e _ _ _ _ _ hsub h2) (fun G hb he => .exit hb he)
    | .call f args, k, L, g0, s, g1, hsub, h => by
      simp only [gen] at h
      exact (throw_ok h).elim
    | .wideRatio ns ds, k, L, g0, s, g1, hsub, h => by
      simp only [gen] at h
      exact (throw_ok h).elim
    | .nonce b e, k, L, g0, s, g1, hsub, h => by
      simp only [gen] at h
      obtain ⟨es, g2, h1, h2⟩ := bind_ok h
      cases opBlock_ok h2
      exact ((gen_spec e _ _ _ _ _ hsub h1).seq (Spec.emit _ _)).mono (fun G h => .nonce h.1 h.2)
    | .substring str a b, k, L, g0, s, g1, hsub, h => by
      simp only [gen] at h
      cases hl : lowerSubstring cfg.version a b with
      | error e => rw [hl] at h; exact (throw_ok h).elim
      | ok low =>
        rw [hl] at h
        cases low with
        | one i =>
          simp only [] at h
          obtain ⟨ob, g2, h1, h2⟩ := bind_ok h
          cases opBlock_ok h1
          exact Spec.emit_then (gen_spec str _ _ _ _ _ hsub h2)
            (fun G hb hs => .substring hl hb (.cons .nil hs))
        | consts i x y =>
          simp only [] at h
          obtain ⟨ob, g2, h1, h⟩ := bind_ok h
          cases opBlock_ok h1
          obtain ⟨b2, g3, h2, h⟩ := bind_ok h
          cases opBlock_ok h2
          obtain ⟨b1, g4, h3, h4⟩ := bind_ok h
          cases opBlock_ok h3
          exact Spec.emit_then (Spec.emit_then (Spec.emit_then (gen_spec str _ _ _ _ _ hsub h4)
            (fun G hb hs => And.intro hb hs)) (fun G hb h => And.intro hb h))
            (fun G hb h => .substring hl hb (.cons (.cons (.cons .nil (.int h.1)) (.int h.2.1)) h.2.2))
        | asGiven i =>
          simp only [] at h
          obtain ⟨ob, g2, h1, h⟩ := bind_ok h
          cases opBlock_ok h1
          obtain ⟨bs, g3, h2, h⟩ := bind_ok h
          obtain ⟨as, g4, h3, h4⟩ := bind_ok h
          exact Spec.emit_then (((gen_spec b _ _ _ _ _ hsub h2).seq (gen_spec a _ _ _ _ _ hsub h3)).seq
            (gen_spec str _ _ _ _ _ hsub h4))
            (fun G hb h => .substring hl hb (.cons (.cons (.cons .nil h.1.1) h.1.2) h.2))
    | .extract str a l, k, L, g0, s, g1, hsub, h => by
      simp only [gen] at h
      cases hl : lowerExtract a l with
      | one i =>
        rw [hl] at h
        simp only [] at h
        obtain ⟨ob, g2, h1, h2⟩ := bind_ok h
        cases opBlock_ok h1
        refine Spec.emit_then (gen_spec str _ _ _ _ _ hsub h2) (fun G hb hs => ?_)
        refine .extract (ob := g0.size) ?_ ?_
        · rw [hl]; exact hb
        · rw [hl]; exact .cons .nil hs
      | consts i x y =>
        rw [hl] at h
        simp only [] at h
        obtain ⟨ob, g2, h1, h⟩ := bind_ok h
        cases opBlock_ok h1
        obtain ⟨b2, g3, h2, h⟩ := bind_ok h
        cases opBlock_ok h2
        obtain ⟨b1, g4, h3, h4⟩ := bind_ok h
        cases opBlock_ok h3
        refine Spec.emit_then (Spec.emit_then (Spec.emit_then (gen_spec str _ _ _ _ _ hsub h4)
          (fun G hb hs => And.intro hb hs)) (fun G hb h => And.intro hb h)) (fun G hb h => ?_)
        refine .extract (ob := g0.size) ?_ ?_
        · rw [hl]; exact hb
        · rw [hl]; exact .cons (.cons (.cons .nil (.int h.1)) (.int h.2.1)) h.2.2
      | asGiven i =>
        rw [hl] at h
        simp only [] at h
        obtain ⟨ob, g2, h1, h⟩ := bind_ok h
        cases opBlock_ok h1
        obtain ⟨ls, g3, h2, h⟩ := bind_ok h
        obtain ⟨as, g4, h3, h4⟩ := bind_ok h
        refine Spec.emit_then (((gen_spec l _ _ _ _ _ hsub h2).seq (gen_spec a _ _ _ _ _ hsub h3)).seq
          (gen_spec str _ _ _ _ _ hsub h4)) (fun G hb h => ?_)
        refine .extract (ob := g0.size) ?_ ?_
        · rw [hl]; exact hb
        · rw [hl]; exact .cons (.cons (.cons .nil h.1.1) h.1.2) h.2
    | .suffix str a, k, L, g0, s, g1, hsub, h => by
      simp only [gen] at h
      split at h
      · rename_i st
        split at h
        · rename_i hst
          split at h
          · rename_i hv
            obtain ⟨ob, g2, h1, h2⟩ := bind_ok h
            cases opBlock_ok h1
            exact Spec.emit_then (gen_spec str _ _ _ _ _ hsub h2)
              (fun G hb hs => .suffixImm hst hv hb (.cons .nil hs))
          · exact (throw_ok h).elim
        · obtain ⟨ob, g2, h1, h⟩ := bind_ok h
          cases opBlock_ok h1
          obtain ⟨as, g3, h2, h3⟩ := bind_ok h
          cases opBlock_ok h2
          exact Spec.emit_then (Spec.emit_then (gen_spec str _ _ _ _ _ hsub h3) (fun G hb hs => And.intro hb hs))
            (fun G hb h => .suffixGen hb (.cons (.cons .nil (.int h.1)) h.2))
      · obtain ⟨ob, g2, h1, h⟩ := bind_ok h
        cases opBlock_ok h1
        obtain ⟨as, g3, h2, h3⟩ := bind_ok h
        exact Spec.emit_then ((gen_spec a _ _ _ _ _ hsub h2).seq (gen_spec str _ _ _ _ _ hsub h3))
          (fun G hb h => .suffixGen hb (.cons (.cons .nil h.1) h.2))
  theorem genArgs_spec : ∀ (es : List Expr) (k : Nat) (L : Option Loop) (g0 : Graph) (s : Nat) (g1 : Graph),
      cfg.inSub = false → genArgs cfg es k L g0 = .ok (s, g1) → Spec (fun G => ShapeArgs G cfg es s k L) g0 g1
    | [], k, L, g0, s, g1, hsub, h => by
      simp only [genArgs] at h
      cases pure_ok h
      exact (Spec.refl _).mono (fun G _ => .nil)
    | e :: es, k, L, g0, s, g1, hsub, h => by
      simp only [genArgs] at h
      obtain ⟨k', g2, h1, h2⟩ := bind_ok h
      exact ((genArgs_spec es _ _ _ _ _ hsub h1).seq (gen_spec e _ _ _ _ _ hsub h2)).mono (fun G h => .cons h.1 h.2)
  theorem genSeq_spec : ∀ (es : List Expr) (k : Nat) (L : Option Loop) (g0 : Graph) (s : Nat) (g1 : Graph),
      cfg.inSub = false → genSeq cfg es k L g0 = .ok (s, g1) → Spec (fun G => ShapeSeq G cfg es s k L) g0 g1
    | [], k, L, g0, s, g1, hsub, h => by
      simp only [genSeq] at h
      cases opBlock_ok h
      exact Spec.emit_only (fun G hb => .nil hb)
    | e :: es, k, L, g0, s, g1, hsub, h => by
      simp only [genSeq] at h
      obtain ⟨k', g2, h1, h2⟩ := bind_ok h
      exact ((genSeq_spec es _ _ _ _ _ hsub h1).seq (gen_spec e _ _ _ _ _ hsub h2)).mono (fun G h => .cons h.1 h.2)
  theorem genCond_spec : ∀ (arms : List (Expr × Expr)) (endB errB : Nat) (L : Option Loop) (g0 : Graph) (s : Nat)
      (g1 : Graph),
      cfg.inSub = false → genCond cfg arms endB errB L g0 = .ok (s, g1) → Spec (fun G => ShapeCond G cfg arms s endB errB L) g0 g1
    | [], endB, errB, L, g0, s, g1, hsub, h => by
      simp only [genCond] at h
      cases pure_ok h
      exact (Spec.refl _).mono (fun G _ => .nil)
    | (c, b) :: rest, endB, errB, L, g0, s, g1, hsub, h => by
      simp only [genCond] at h
      obtain ⟨nxt, g2, h1, h⟩ := bind_ok h
      obtain ⟨bs, g3, h2, h⟩ := bind_ok h
      obtain ⟨br, g4, h3, h4⟩ := bind_ok h
      cases emit_ok h3
      exact (((genCond_spec rest _ _ _ _ _ _ hsub h1).seq (gen_spec b _ _ _ _ _ hsub h2)).seq
        (Spec.emit_then (gen_spec c _ _ _ _ _ hsub h4) (fun G hb hc => And.intro hb hc))).mono
        (fun G h => .cons h.1.1 h.1.2 h.2.1 h.2.2)
end

end PyTealV.Proofs.Shape
