/-
  Property C17 – "reading a routine-local scratch variable before writing it is rejected".

  Model: `PyTealV.Models.ValidateSlots` (`validateSlots?` mirrors `TealBlock.validateSlots`,
  `initCheck` is an independent must-be-initialised dataflow analysis).

  Paths.  `Path G start p b`: `p` is the list of blocks walked through *before* arriving at the
  entry of block `b`; an edge can only be taken out of a block that is not terminal
  (`isTerminal`: a return/retsub/err op anywhere in the block, or no outgoing edge), exactly as
  execution would (a block that is left through an edge contains no terminal op, so all its ops
  are executed).

  Two notions of an offending load at op index `j` of block `b`:
    * `BadLoad`      – the ops of `b` split as `pre ++ load s e :: post`, `j = |pre|`, slot `s` is not
                       pre-initialised and is stored neither on the path nor in `pre`;
    * `ExecBadLoad`  – additionally no return/retsub/err op in `pre`, i.e. the load is really executed.
  `validateSlots` is exact for `BadLoad` and therefore sound and complete for `ExecBadLoad` as far
  as acceptance of a routine is concerned (`validate_sound`, `validate_complete`), but the converse
  "every reported load can be executed" is FALSE of the unchanged code, because the scan of a block
  does not stop at a return op: see `validate_reports_exec_partial` / `_counterexample`.
-/
import PyTealV.Proofs.C17Lemmas
import PyTealV.Proofs.C17Dataflow
namespace PyTealV.Proofs.C17
open PyTealV.Models.ValidateSlots

/-! ## paths -/

inductive Path (G : Graph) (a : Nat) : List Nat → Nat → Prop
  | nil : Path G a [] a
  | snoc {p : List Nat} {b b' : Nat} : Path G a p b → (G.block b).isTerminal = false →
      b' ∈ (G.block b).outgoing → Path G a (p ++ [b]) b'

/-- all ops executed on the way (the blocks of `p` are left through an edge, so none of them
    contains a terminal op) -/
def pathOps (G : Graph) (p : List Nat) : List SOp := p.flatMap (fun b => (G.block b).ops)

/-- op `j` of block `b` is a load of slot `s` (created from expression `e`) and there is a path from
    `start` to it on which `s`, not pre-initialised, has not been stored -/
def BadLoad (G : Graph) (init : List Nat) (start b j s e : Nat) : Prop :=
  ∃ p pre post, Path G start p b ∧ (G.block b).ops = pre ++ SOp.load s e :: post ∧ j = pre.length ∧
    s ∉ init ∧ SOp.store s ∉ pathOps G p ∧ SOp.store s ∉ pre

/-- … and no return/retsub/err op precedes the load inside its own block: the load is executed -/
def ExecBadLoad (G : Graph) (init : List Nat) (start b j s e : Nat) : Prop :=
  ∃ p pre post, Path G start p b ∧ (G.block b).ops = pre ++ SOp.load s e :: post ∧ j = pre.length ∧
    s ∉ init ∧ SOp.store s ∉ pathOps G p ∧ SOp.store s ∉ pre ∧ SOp.ret ∉ pre

theorem ExecBadLoad.bad {G init start b j s e} (h : ExecBadLoad G init start b j s e) :
    BadLoad G init start b j s e := by
  obtain ⟨p, pre, post, h1, h2, h3, h4, h5, h6, _⟩ := h
  exact ⟨p, pre, post, h1, h2, h3, h4, h5, h6⟩

theorem pathOps_snoc (G : Graph) (p : List Nat) (b : Nat) :
    pathOps G (p ++ [b]) = pathOps G p ++ (G.block b).ops := by
  simp [pathOps]

theorem reach_of_path {G : Graph} {a : Nat} (S : List Nat) {p : List Nat} {b : Nat}
    (h : Path G a p b) : Reach G (a, S) (b, stores S (pathOps G p)) := by
  induction h with
  | nil => exact .refl _
  | snoc _ ht hb ih =>
    refine .tail ih ⟨ht, hb, ?_⟩
    simp [pathOps_snoc, stores_append]

theorem path_of_reach {G : Graph} {a : Nat} {S : List Nat} {k : Key} (h : Reach G (a, S) k) :
    ∃ p, Path G a p k.1 ∧ k.2 = stores S (pathOps G p) := by
  induction h with
  | refl => exact ⟨[], .nil, rfl⟩
  | tail _ hs ih =>
    obtain ⟨p, hp, hS⟩ := ih
    obtain ⟨ht, hb, hc⟩ := hs
    exact ⟨_, .snoc hp ht hb, by rw [hc, hS, pathOps_snoc, stores_append]⟩

/-- the errors of the scan of a configuration are the bad loads of its block along that path -/
theorem mem_localErrs_path {G : Graph} {init : List Nat} {b : Nat} {p : List Nat} {er : Err} :
    er ∈ localErrs G (b, stores (canon init) (pathOps G p)) ↔
      er.blk = b ∧ ∃ pre s post, (G.block b).ops = pre ++ SOp.load s er.expr :: post ∧
        er.idx = pre.length ∧ s ∉ init ∧ SOp.store s ∉ pathOps G p ∧ SOp.store s ∉ pre := by
  unfold localErrs
  rw [mem_loadErrs]
  simp only [mem_stores, mem_canon, Nat.zero_add, not_or]
  constructor
  · rintro ⟨pre, s, post, h1, h2, h3, ⟨h4, h5⟩, h6⟩
    exact ⟨h2, pre, s, post, h1, h3, h4, h5, h6⟩
  · rintro ⟨h2, pre, s, post, h1, h3, h4, h5, h6⟩
    exact ⟨pre, s, post, h1, h2, h3, ⟨h4, h5⟩, h6⟩

/-! ## termination: the depth bound passed by `validateSlots?` always suffices -/

theorem validateSlots_total (G : Graph) (init : List Nat) (start : Nat) :
    ∃ errs, validateSlots? G init start = some errs := by
  have hB := bounded G init start
  have hrem : remaining (blockBound G start) (slotBound G init) [] < fuelBound G init start := by
    have := remaining_le (blockBound G start) (slotBound G init) []
    unfold fuelBound; omega
  obtain ⟨r, hr⟩ := visit_some hB (fuelBound G init start) start (canon init) []
    (start_lt_blockBound G start) (canon_sublist (init_lt_slotBound G init)) hrem
  exact ⟨r.1, by simp [validateSlots?, hr]⟩

/-- the same function without the `Option` -/
def validateSlots (G : Graph) (init : List Nat) (start : Nat) : List Err :=
  (validateSlots? G init start).get (by
    obtain ⟨e, h⟩ := validateSlots_total G init start; simp [h])

theorem validateSlots?_eq (G : Graph) (init : List Nat) (start : Nat) :
    validateSlots? G init start = some (validateSlots G init start) := by
  simp [validateSlots]

/-! ## exactness of the reported errors -/

/-- Every reported error sits on a load op with a path on which its slot was never stored, and
    every such load is reported – up to the de-duplication of errors whose load ops were created
    from the same expression object (`error not in errors`). -/
theorem validate_exact (G : Graph) (init : List Nat) (start : Nat) :
    (∀ er ∈ validateSlots G init start, ∃ s, BadLoad G init start er.blk er.idx s er.expr) ∧
    (∀ b j s e, BadLoad G init start b j s e → ∃ er ∈ validateSlots G init start, er.expr = e) := by
  have hv := validateSlots?_eq G init start
  generalize validateSlots G init start = errs at hv ⊢
  unfold validateSlots? at hv
  cases hr : visit G (fuelBound G init start) start (canon init) [] with
  | none => simp [hr] at hv
  | some r =>
    simp [hr] at hv
    obtain ⟨hsound, hcompl⟩ := visit_root G _ _ _ _ hr
    rw [hv] at hsound hcompl
    constructor
    · intro er her
      obtain ⟨k, hk, hek⟩ := hsound er her
      obtain ⟨p, hp, hS⟩ := path_of_reach hk
      have : k = (k.1, stores (canon init) (pathOps G p)) := by rw [← hS]
      rw [this, mem_localErrs_path] at hek
      obtain ⟨hb, pre, s, post, h1, h2, h3, h4, h5⟩ := hek
      exact ⟨s, p, pre, post, hb ▸ hp, hb ▸ h1, h2, h3, h4, h5⟩
    · rintro b j s e ⟨p, pre, post, hp, h1, h2, h3, h4, h5⟩
      have hk := reach_of_path (canon init) hp
      have : (⟨b, j, e⟩ : Err) ∈ localErrs G (b, stores (canon init) (pathOps G p)) :=
        mem_localErrs_path.mpr ⟨rfl, pre, s, post, h1, h2, h3, h4, h5⟩
      obtain ⟨e', he', hx⟩ := hcompl _ hk _ this
      exact ⟨e', he', hx⟩

/-- each reported error names a load op that really lies on a path along which its slot was never
    stored (block-granular paths; see `validate_reports_exec_partial` for executed loads) -/
theorem validate_reports_bad_load (G : Graph) (init : List Nat) (start : Nat) :
    ∀ er ∈ validateSlots G init start, ∃ s, BadLoad G init start er.blk er.idx s er.expr :=
  (validate_exact G init start).1

/-- **soundness**: an accepted routine has no path to a load of a not pre-initialised slot along
    which that slot was never stored -/
theorem validate_sound (G : Graph) (init : List Nat) (start : Nat)
    (h : validateSlots G init start = []) : ¬ ∃ b j s e, BadLoad G init start b j s e := by
  rintro ⟨b, j, s, e, hbad⟩
  obtain ⟨er, her, _⟩ := (validate_exact G init start).2 b j s e hbad
  rw [h] at her; cases her

/-- … in particular no *executed* load reads a slot before its first write -/
theorem validate_sound_exec (G : Graph) (init : List Nat) (start : Nat)
    (h : validateSlots G init start = []) : ¬ ∃ b j s e, ExecBadLoad G init start b j s e := by
  rintro ⟨b, j, s, e, hbad⟩
  exact validate_sound G init start h ⟨b, j, s, e, hbad.bad⟩

/-- **completeness**: a read-before-write path makes the validation fail -/
theorem validate_complete (G : Graph) (init : List Nat) (start : Nat)
    (h : ∃ b j s e, BadLoad G init start b j s e) : validateSlots G init start ≠ [] := by
  obtain ⟨b, j, s, e, hbad⟩ := h
  obtain ⟨er, her, _⟩ := (validate_exact G init start).2 b j s e hbad
  intro h0; rw [h0] at her; cases her

theorem validate_complete_exec (G : Graph) (init : List Nat) (start : Nat)
    (h : ∃ b j s e, ExecBadLoad G init start b j s e) : validateSlots G init start ≠ [] := by
  obtain ⟨b, j, s, e, hbad⟩ := h
  exact validate_complete G init start ⟨b, j, s, e, hbad.bad⟩

/-- no two load ops of the graph were created from the same expression object -/
def ExprsDistinct (G : Graph) : Prop :=
  ∀ b1 b2 pre1 pre2 post1 post2 s1 s2 e,
    (G.block b1).ops = pre1 ++ SOp.load s1 e :: post1 →
    (G.block b2).ops = pre2 ++ SOp.load s2 e :: post2 → b1 = b2 ∧ pre1.length = pre2.length

/-- with distinct expressions (the case of compiled programs, where every load op is created from
    its own `ScratchLoad`) the offending load itself is reported, not just an equal error -/
theorem validate_complete_identifies (G : Graph) (init : List Nat) (start : Nat) (hd : ExprsDistinct G)
    (b j s e : Nat) (h : BadLoad G init start b j s e) :
    ∃ er ∈ validateSlots G init start, er.blk = b ∧ er.idx = j := by
  obtain ⟨er, her, hx⟩ := (validate_exact G init start).2 b j s e h
  obtain ⟨s', _, pre', post', _, h1', h2', _⟩ := (validate_exact G init start).1 er her
  obtain ⟨_, pre, post, _, h1, h2, _⟩ := h
  rw [hx] at h1'
  obtain ⟨hb, hl⟩ := hd _ _ _ _ _ _ _ _ _ h1' h1
  exact ⟨er, her, hb, by omega⟩

/-! ## executed loads: the full statement is false of the unchanged code

  Full statement (FALSE):
    theorem validate_reports_exec (G init start) :
      ∀ er ∈ validateSlots G init start, ∃ s, ExecBadLoad G init start er.blk er.idx s er.expr
  `validateSlots` keeps scanning the ops that follow a return/retsub/err op inside the same block
  (only the *edges* of such a block are ignored), so a load that can never be executed is
  reported.  True restriction: graphs in which no load follows a terminal op inside a block. -/

def NoDeadLoad (G : Graph) : Prop :=
  ∀ b pre post, (G.block b).ops = pre ++ SOp.ret :: post → ∀ s e, SOp.load s e ∉ post

theorem validate_reports_exec_partial (G : Graph) (init : List Nat) (start : Nat) (hnd : NoDeadLoad G) :
    ∀ er ∈ validateSlots G init start, ∃ s, ExecBadLoad G init start er.blk er.idx s er.expr := by
  intro er her
  obtain ⟨s, p, pre, post, h1, h2, h3, h4, h5, h6⟩ := (validate_exact G init start).1 er her
  refine ⟨s, p, pre, post, h1, h2, h3, h4, h5, h6, ?_⟩
  intro hret
  obtain ⟨p1, p2, rfl⟩ := List.append_of_mem hret
  have := hnd er.blk p1 (p2 ++ SOp.load s er.expr :: post) (by simp [h2]) s er.expr
  simp at this

/-- the one-block routine `return; load 0`: the load is reported although it cannot be executed -/
def deadLoadGraph : Graph := #[⟨[.ret, .load 0 0], .none⟩]

theorem validate_reports_exec_counterexample :
    validateSlots? deadLoadGraph [] 0 = some [⟨0, 1, 0⟩] ∧
    ¬ ∃ s, ExecBadLoad deadLoadGraph [] 0 0 1 s 0 := by
  refine ⟨by decide, ?_⟩
  rintro ⟨s, p, pre, post, _, h2, h3, _, _, _, h7⟩
  have hops : (deadLoadGraph.block 0).ops = [.ret, .load 0 0] := by decide
  rw [hops] at h2
  cases pre with
  | nil => simp at h3
  | cons o pre =>
    simp at h2
    exact h7 (by rw [← h2.1]; simp)

/-! ## the dataflow oracle `initCheck` agrees with the path formulation -/

theorem mem_storedSlots {s : Nat} {ops : List SOp} : s ∈ storedSlots ops ↔ SOp.store s ∈ ops := by
  unfold storedSlots
  rw [List.mem_filterMap]
  constructor
  · rintro ⟨o, ho, h⟩
    cases o <;> simp at h
    subst h; exact ho
  · intro h; exact ⟨_, h, rfl⟩

theorem init_sub_universe (G : Graph) (init : List Nat) : ∀ s ∈ init, s ∈ slotUniverse G init := by
  intro s hs; simp [slotUniverse, hs]

theorem store_in_universe (G : Graph) (init : List Nat) (b s : Nat) (h : SOp.store s ∈ (G.block b).ops) :
    s ∈ slotUniverse G init := by
  rcases block_cases G b with hb | hb
  · simp only [slotUniverse, List.mem_append, List.mem_flatMap]
    exact Or.inr ⟨_, hb, mem_storedSlots.mpr h⟩
  · rw [hb] at h; simp at h

theorem not_in_universe {G : Graph} {init : List Nat} {s : Nat} (h : s ∉ slotUniverse G init) :
    s ∉ init ∧ ∀ p, SOp.store s ∉ pathOps G p := by
  refine ⟨fun hi => h (init_sub_universe G init s hi), ?_⟩
  intro p hp
  simp only [pathOps, List.mem_flatMap] at hp
  obtain ⟨b, _, hb⟩ := hp
  exact h (store_in_universe G init b s hb)

theorem mem_edgesOf {G : Graph} {n b b' : Nat} :
    (b, b') ∈ edgesOf G n ↔ b < n ∧ (G.block b).isTerminal = false ∧ b' ∈ (G.block b).outgoing := by
  simp only [edgesOf, List.mem_flatMap, List.mem_range]
  constructor
  · rintro ⟨a, ha, h⟩
    split at h
    · simp at h
    · rename_i ht
      simp only [List.mem_map, Prod.mk.injEq] at h
      obtain ⟨c, hc, rfl, rfl⟩ := h
      exact ⟨ha, by simpa using ht, hc⟩
  · rintro ⟨h1, h2, h3⟩
    refine ⟨b, h1, ?_⟩
    simp [h2, h3]

theorem path_lt {G : Graph} {start : Nat} {p : List Nat} {b : Nat} (h : Path G start p b) :
    b < blockBound G start := by
  cases h with
  | nil => exact start_lt_blockBound G start
  | snoc _ _ hb => exact (bounded G [] start).succ _ _ hb

/-- invariant of the iteration: every fact `IN[b] = some L` is justified by paths -/
structure DFInv (G : Graph) (init : List Nat) (start : Nat) (df : DF) : Prop where
  len : df.length = blockBound G start
  atStart : ∃ L0, df.getD start none = some L0 ∧ ∀ s ∈ L0, s ∈ init
  prec : ∀ b L, df.getD b none = some L → (∃ p, Path G start p b) ∧
    ∀ s, s ∉ L → ∃ p, Path G start p b ∧ s ∉ init ∧ SOp.store s ∉ pathOps G p

theorem dfinv_init (G : Graph) (init : List Nat) (start : Nat) :
    DFInv G init start (initDF (slotUniverse G init) init (blockBound G start) start) := by
  have hs : start < (List.replicate (blockBound G start) (none : Option (List Nat))).length := by
    simpa using start_lt_blockBound G start
  unfold initDF
  refine ⟨by simp, ⟨_, getD_set_eq _ _ _ hs, ?_⟩, ?_⟩
  · intro s hs; simpa using (List.mem_filter.mp hs).2
  · intro b L hL
    by_cases hb : start = b
    · subst hb
      rw [getD_set_eq _ _ _ hs] at hL
      cases hL
      refine ⟨⟨[], .nil⟩, fun s hs' => ⟨[], .nil, ?_, by simp [pathOps]⟩⟩
      intro hi
      exact hs' (List.mem_filter.mpr ⟨init_sub_universe G init s hi, by simpa using hi⟩)
    · rw [getD_set_ne _ _ _ _ hb] at hL
      simp [List.getD, List.getElem?_replicate] at hL
      split at hL <;> simp at hL

theorem dfinv_relax {G : Graph} {init : List Nat} {start : Nat} {df : DF} (h : DFInv G init start df)
    (e : Nat × Nat) (he : (G.block e.1).isTerminal = false ∧ e.2 ∈ (G.block e.1).outgoing) :
    DFInv G init start (relax G (slotUniverse G init) df e) := by
  obtain ⟨b, b'⟩ := e
  unfold relax
  simp only
  cases hL : df.getD b none with
  | none => exact h
  | some L =>
    simp only
    by_cases hlen : b' < df.length
    · obtain ⟨⟨pb, hpb⟩, hprecL⟩ := h.prec b L hL
      have hpb' : Path G start (pb ++ [b]) b' := .snoc hpb he.1 he.2
      -- a slot missing from the exit fact of `b` is missing on some path to `b'`
      have hout : ∀ s, s ∉ outFact (slotUniverse G init) L (G.block b).ops →
          ∃ p, Path G start p b' ∧ s ∉ init ∧ SOp.store s ∉ pathOps G p := by
        intro s hs
        by_cases hU : s ∈ slotUniverse G init
        · have : ¬ (s ∈ L ∨ s ∈ storedSlots (G.block b).ops) := by
            intro hc; apply hs
            exact List.mem_filter.mpr ⟨hU, by simpa using hc⟩
          rw [not_or] at this
          obtain ⟨p, hp, hi, hst⟩ := hprecL s this.1
          refine ⟨p ++ [b], .snoc hp he.1 he.2, hi, ?_⟩
          rw [pathOps_snoc, List.mem_append, not_or]
          exact ⟨hst, fun hc => this.2 (mem_storedSlots.mpr hc)⟩
        · obtain ⟨hi, hst⟩ := not_in_universe hU
          exact ⟨_, hpb', hi, hst _⟩
      refine ⟨by simpa using h.len, ?_, ?_⟩
      · obtain ⟨L0, hL0, hsub⟩ := h.atStart
        by_cases hb : b' = start
        · subst hb
          rw [getD_set_eq _ _ _ hlen, hL0]
          exact ⟨_, rfl, fun s hs => hsub s (List.mem_filter.mp hs).1⟩
        · rw [getD_set_ne _ _ _ _ hb]; exact ⟨L0, hL0, hsub⟩
      · intro c Lc hc
        by_cases hb : b' = c
        · subst hb
          rw [getD_set_eq _ _ _ hlen] at hc
          cases hold : df.getD b' none with
          | none =>
            rw [hold] at hc; simp only [meet, Option.some.injEq] at hc; subst hc
            exact ⟨⟨_, hpb'⟩, hout⟩
          | some L0 =>
            rw [hold] at hc; simp only [meet, Option.some.injEq] at hc; subst hc
            obtain ⟨hp0, hprec0⟩ := h.prec b' L0 hold
            refine ⟨hp0, fun s hs => ?_⟩
            by_cases h0 : s ∈ L0
            · apply hout s
              intro hc; apply hs
              exact List.mem_filter.mpr ⟨h0, by simpa using hc⟩
            · exact hprec0 s h0
        · rw [getD_set_ne _ _ _ _ hb] at hc; exact h.prec c Lc hc
    · rw [set_of_ge _ _ _ (by omega)]; exact h

theorem dfinv_pass {G : Graph} {init : List Nat} {start : Nat} (df : DF) (h : DFInv G init start df) :
    DFInv G init start (pass G (slotUniverse G init) (edgesOf G (blockBound G start)) df) := by
  unfold pass
  have : ∀ e ∈ edgesOf G (blockBound G start),
      (G.block e.1).isTerminal = false ∧ e.2 ∈ (G.block e.1).outgoing :=
    fun e he => (mem_edgesOf.mp he).2
  generalize edgesOf G (blockBound G start) = E at this
  induction E generalizing df with
  | nil => exact h
  | cons e es ih =>
    simp only [List.foldl_cons]
    exact ih _ (dfinv_relax h e (this e (by simp))) (fun e' he' => this e' (List.mem_cons_of_mem _ he'))

/-- a fixpoint under-approximates the slots stored on every single path -/
theorem fix_sound {G : Graph} {init : List Nat} {start : Nat} {df : DF} (hJ : DFInv G init start df)
    (hfix : pass G (slotUniverse G init) (edgesOf G (blockBound G start)) df = df)
    {p : List Nat} {b : Nat} (hp : Path G start p b) :
    ∃ L, df.getD b none = some L ∧ ∀ s ∈ L, s ∈ init ∨ SOp.store s ∈ pathOps G p := by
  induction hp with
  | nil =>
    obtain ⟨L0, h1, h2⟩ := hJ.atStart
    exact ⟨L0, h1, fun s hs => Or.inl (h2 s hs)⟩
  | @snoc p b b' hp ht hb ih =>
    obtain ⟨L, hL, hLs⟩ := ih
    have hE : (b, b') ∈ edgesOf G (blockBound G start) := mem_edgesOf.mpr ⟨path_lt hp, ht, hb⟩
    have hr := pass_fix _ _ _ _ hfix _ hE
    unfold relax at hr
    simp only [hL] at hr
    have hlen : b' < df.length := by rw [hJ.len]; exact path_lt (.snoc hp ht hb)
    have hg := congrArg (fun d => List.getD d b' none) hr
    simp only [getD_set_eq _ _ _ hlen] at hg
    cases hold : df.getD b' none with
    | none => rw [hold] at hg; simp [meet] at hg
    | some L0 =>
      rw [hold] at hg
      simp only [meet, Option.some.injEq] at hg
      refine ⟨L0, rfl, fun s hs => ?_⟩
      have := (List.filter_eq_self.mp hg) s hs
      have hs' : s ∈ outFact (slotUniverse G init) L (G.block b).ops := by simpa using this
      have := (List.mem_filter.mp hs').2
      simp only [Bool.or_eq_true, List.contains_eq_mem, decide_eq_true_eq] at this
      rw [pathOps_snoc, List.mem_append]
      rcases this with h | h
      · rcases hLs s h with h | h
        · exact Or.inl h
        · exact Or.inr (Or.inl h)
      · exact Or.inr (Or.inr (mem_storedSlots.mp h))

theorem solve_total (G : Graph) (init : List Nat) (start : Nat) : ∃ df, solve G init start = some df :=
  iterate_some _ _ _ _ _ (mu_initDF _ _ _ _)

theorem solve_spec {G : Graph} {init : List Nat} {start : Nat} {df : DF} (h : solve G init start = some df) :
    DFInv G init start df ∧
      pass G (slotUniverse G init) (edgesOf G (blockBound G start)) df = df :=
  iterate_spec G _ _ (DFInv G init start) (fun d hd => dfinv_pass d hd) _ _ _ (dfinv_init G init start) h

/-- the iteration of the dataflow analysis always reaches its fixpoint within the fuel it is given -/
theorem initCheck_total (G : Graph) (init : List Nat) (start : Nat) :
    ∃ bad, initCheck G init start = some bad := by
  obtain ⟨df, h⟩ := solve_total G init start
  unfold initCheck; rw [h]; exact ⟨_, rfl⟩

/-- **the oracle is the path formulation**: `initCheck` flags exactly the positions of bad loads -/
theorem initCheck_agrees (G : Graph) (init : List Nat) (start : Nat) (bad : List (Nat × Nat))
    (h : initCheck G init start = some bad) (b j : Nat) :
    (b, j) ∈ bad ↔ ∃ s e, BadLoad G init start b j s e := by
  unfold initCheck at h
  cases hs : solve G init start with
  | none => simp [hs] at h
  | some df =>
    simp only [hs, Option.map_some, Option.some.injEq] at h
    subst h
    obtain ⟨hJ, hfix⟩ := solve_spec hs
    simp only [List.mem_flatMap, List.mem_range]
    constructor
    · rintro ⟨c, hc, hm⟩
      split at hm
      · cases hm
      · rename_i L hL
        obtain ⟨rfl, pre, s, e, post, h1, h2, h3, h4⟩ := mem_badLoads.mp hm
        obtain ⟨p, hp, hi, hst⟩ := (hJ.prec b L hL).2 s h3
        exact ⟨s, e, p, pre, post, hp, h1, by omega, hi, hst, h4⟩
    · rintro ⟨s, e, p, pre, post, hp, h1, h2, hi, hst, h4⟩
      obtain ⟨L, hL, hLs⟩ := fix_sound hJ hfix hp
      refine ⟨b, by rw [hJ.len]; exact path_lt hp, ?_⟩
      split
      · rename_i hn
        have : df.getD b none = none := hn
        rw [hL] at this; cases this
      · rename_i L' hL'
        have : df.getD b none = some L' := hL'
        rw [hL] at this; cases this
        refine mem_badLoads.mpr ⟨rfl, pre, s, e, post, h1, by omega, ?_, h4⟩
        intro hc
        rcases hLs s hc with h | h
        · exact hi h
        · exact hst h

/-- `validateSlots` (the real algorithm) and `initCheck` (the oracle) agree: same verdict, every
    reported error is an oracle position, and with distinct expressions the same set of positions -/
theorem validate_agrees_initCheck (G : Graph) (init : List Nat) (start : Nat) (bad : List (Nat × Nat))
    (h : initCheck G init start = some bad) :
    (validateSlots G init start = [] ↔ bad = []) ∧
    (∀ er ∈ validateSlots G init start, (er.blk, er.idx) ∈ bad) ∧
    (ExprsDistinct G → ∀ b j, (b, j) ∈ bad → ∃ er ∈ validateSlots G init start, er.blk = b ∧ er.idx = j) := by
  have hA := initCheck_agrees G init start bad h
  have hE := validate_exact G init start
  refine ⟨⟨?_, ?_⟩, ?_, ?_⟩
  · intro hv
    apply List.eq_nil_iff_forall_not_mem.mpr
    rintro ⟨b, j⟩ hm
    obtain ⟨s, e, hb⟩ := (hA b j).mp hm
    exact validate_sound G init start hv ⟨b, j, s, e, hb⟩
  · intro hb
    apply List.eq_nil_iff_forall_not_mem.mpr
    intro er her
    obtain ⟨s, hbad⟩ := hE.1 er her
    have := (hA _ _).mpr ⟨s, _, hbad⟩
    rw [hb] at this; cases this
  · intro er her
    obtain ⟨s, hbad⟩ := hE.1 er her
    exact (hA _ _).mpr ⟨s, _, hbad⟩
  · intro hd b j hm
    obtain ⟨s, e, hb⟩ := (hA b j).mp hm
    exact validate_complete_identifies G init start hd b j s e hb

/-! ## non-vacuity -/

/-- a loop whose body stores slot 1 under a condition, slot 0 stored before the loop;
    after the loop slot 0 is loaded: accepted, and the statement of `validate_sound` applies -/
def okGraph : Graph := #[
  ⟨[.store 0, .other], .next 1⟩,          -- 0: v0 := …
  ⟨[.load 0 1], .cond 2 4⟩,                -- 1: loop head: while v0 …
  ⟨[.other], .cond 3 1⟩,                   -- 2: body: if … then
  ⟨[.store 1, .load 1 2], .next 1⟩,        -- 3:   v1 := …; use v1
  ⟨[.load 0 3, .ret], .none⟩]              -- 4: exit: use v0; return

example : validateSlots? okGraph [] 0 = some [] := by decide

/-- the same with the load of slot 1 moved behind the loop: the zero-iteration path is bad -/
def badGraph : Graph := #[
  ⟨[.store 0, .other], .next 1⟩,
  ⟨[.load 0 1], .cond 2 4⟩,
  ⟨[.other], .cond 3 1⟩,
  ⟨[.store 1], .next 1⟩,
  ⟨[.load 1 2, .ret], .none⟩]

example : validateSlots? badGraph [] 0 = some [⟨4, 0, 2⟩] := by decide

example : ExecBadLoad badGraph [] 0 4 0 1 2 := by
  refine ⟨[0, 1], [], [.ret], ?_, by decide, rfl, by simp, by decide, by simp, by simp⟩
  exact .snoc (p := [0]) (.snoc (p := []) .nil (by decide) (by decide)) (by decide) (by decide)

/-- a pre-initialised (shared) slot is never reported -/
example : validateSlots? badGraph [1] 0 = some [] := by decide

example : initCheck okGraph [] 0 = some [] := by decide
example : initCheck badGraph [] 0 = some [(4, 0)] := by decide
example : initCheck deadLoadGraph [] 0 = some [(0, 1)] := by decide

end PyTealV.Proofs.C17
