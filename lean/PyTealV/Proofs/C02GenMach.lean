/-
  C02Gen (part 1): lemmas about the multi-routine graph machine `Comp.gstepP / grunP`.

  * `ReachP / HaltsP`: reachability and termination between machine states;
  * `gstepP_stack_le`: every step keeps the operand stack within the 1000-entry limit;
  * `SameW`: two worlds that differ only in the *representation* of the scratch space
    (`setSlot` moves the written slot to the front of an association list, so the order in which
    independent slots were written is visible in the data structure; the source semantics binds
    parameters first-to-last, the generated prologue stores them last-to-first);
  * `ReachS / HaltS / FailS`: the same notions "up to `SameW`, unless the operand stack overflows",
    phrased on a machine state whose world component is the *source* world;
  * `MCtx`: a routine of the program with its call stack; `ReachO / HaltO / Fails`: the notions of
    `Proofs/ShapeMach.lean`, now inside a routine of the multi-routine machine;
  * running the straight-line ops of a block, block exits, `callsub`, `retsub`.
-/
import PyTealV.Comp.GenProg
import PyTealV.Comp.ProgGraph
import PyTealV.Models.FragmentR
import PyTealV.Proofs.ShapeMach
import PyTealV.Proofs.Sim
import PyTealV.Proofs.SimR
import PyTealV.Proofs.C02Spill
namespace PyTealV.Proofs.C02Gen
open PyTealV PyTealV.Avm PyTealV.Src PyTealV.Comp PyTealV.Check
open PyTealV.Proofs.Shape (ovf Blk)
open PyTealV.Proofs.C02Spill (getSlot_setSlot)

/-! ### reachability on the multi-routine machine -/

section Mach
variable (cx : Ctx) (Pg : PProg)

/-- `n` steps of the machine without halting -/
def stepsP : Nat → GSt → Option GSt
  | 0, a => some a
  | n+1, a => match gstepP cx Pg a with
    | .next a' => stepsP n a'
    | .halt _ => none

def ReachP (a b : GSt) : Prop := ∃ n, stepsP cx Pg n a = some b
def HaltsP (a : GSt) (o : Outcome) : Prop := ∃ n, grunP cx Pg n a = o

variable {cx Pg}

theorem stepsP_add {b : GSt} : ∀ (n1 n2 : Nat) (a : GSt), stepsP cx Pg n1 a = some b →
    stepsP cx Pg (n1 + n2) a = stepsP cx Pg n2 b := by
  intro n1
  induction n1 with
  | zero => intro n2 a h; simp only [stepsP, Option.some.injEq] at h; subst h; rw [Nat.zero_add]
  | succ n ih =>
    intro n2 a h
    rw [Nat.add_right_comm]
    simp only [stepsP] at h ⊢
    split at h
    · rename_i a' ha
      exact ih n2 a' h
    · cases h

theorem stepsP_run : ∀ (n k : Nat) (a b : GSt), stepsP cx Pg n a = some b →
    grunP cx Pg (n + k) a = grunP cx Pg k b := by
  intro n
  induction n with
  | zero => intro k a b h; simp only [stepsP, Option.some.injEq] at h; subst h; rw [Nat.zero_add]
  | succ n ih =>
    intro k a b h
    rw [Nat.add_right_comm, grunP_succ]
    simp only [stepsP] at h
    split at h
    · rename_i a' ha
      rw [ha]
      exact ih k a' b h
    · cases h

theorem ReachP.refl (a : GSt) : ReachP cx Pg a a := ⟨0, rfl⟩

theorem ReachP.trans {a b c : GSt} (h1 : ReachP cx Pg a b) (h2 : ReachP cx Pg b c) : ReachP cx Pg a c := by
  obtain ⟨n1, h1⟩ := h1
  obtain ⟨n2, h2⟩ := h2
  exact ⟨n1 + n2, by rw [stepsP_add n1 n2 a h1, h2]⟩

theorem ReachP.step {a b : GSt} (h : gstepP cx Pg a = .next b) : ReachP cx Pg a b :=
  ⟨1, by simp only [stepsP, h]⟩

theorem ReachP.halts {a b : GSt} {o} (h1 : ReachP cx Pg a b) (h2 : HaltsP cx Pg b o) : HaltsP cx Pg a o := by
  obtain ⟨n1, h1⟩ := h1
  obtain ⟨n2, h2⟩ := h2
  exact ⟨n1 + n2, by rw [stepsP_run n1 n2 a b h1, h2]⟩

theorem HaltsP.step {a : GSt} {o} (h : gstepP cx Pg a = .halt o) : HaltsP cx Pg a o :=
  ⟨1, by rw [grunP_succ, h]⟩

/-! ### the operand stack never exceeds the limit -/

theorem pushV_ok_le {m m' : MS} {v : Val} (h : pushV m v = .ok m') : m'.stack.length ≤ maxStack := by
  unfold pushV at h
  split at h
  · cases h; simp only [List.length_cons]; omega
  · cases h

theorem execSimple_stack_le {x : Instr} {m m' : MS} (h : execSimple cx x m = some (.ok m'))
    (hm : m.stack.length ≤ maxStack) : m'.stack.length ≤ maxStack := by
  cases x <;> simp only [execSimple, Option.some.injEq, reduceCtorEq] at h
  case label => cases h; exact hm
  case pragma => cases h; exact hm
  case intcblock => cases h; exact hm
  case bytecblock => cases h; exact hm
  case intc => split at h; exact pushV_ok_le h; cases h
  case bytec => split at h; exact pushV_ok_le h; cases h
  case pushInt => exact pushV_ok_le h
  case pushBytes => exact pushV_ok_le h
  case ret => split at h; split at h <;> cases h; cases h
  case load => split at h; exact pushV_ok_le h; cases h
  case store =>
    split at h
    · rename_i v r hst
      split at h
      · cases h
        rw [hst] at hm
        simp only [List.length_cons] at hm ⊢
        omega
      · cases h
    · cases h
  case prim =>
    split at h
    · split at h
      · cases h; assumption
      · cases h
    · cases h

theorem gstepP_stack_le {a b : GSt} (h : gstepP cx Pg a = .next b) (hm : a.ms.stack.length ≤ maxStack) :
    b.ms.stack.length ≤ maxStack := by
  unfold gstepP at h
  split at h
  · cases h
  · split at h
    · cases h
    · split at h
      · -- an op
        rename_i x hx
        simp only at h
        split at h
        · cases h; exact execSimple_stack_le (by assumption) hm
        · cases h
        · split at h
          · -- callsub
            split at h
            · cases h; exact hm
            · cases h
          · -- retsub
            split at h
            · cases h
            · split at h
              · cases h; exact hm
              · split at h
                · cases h
                · split at h
                  · cases h
                  · rename_i f cs a r hpr hlt hlt2
                    cases h
                    simp only [List.length_reverse, List.length_append, List.length_take, List.length_drop]
                    omega
          · -- proto
            split at h
            · cases h
            · split at h
              · cases h
              · split at h
                · cases h
                · cases h; exact hm
          · -- frame_dig
            split at h
            · cases h
            · split at h
              · cases h
              · split at h
                · cases h
                · split at h
                  · cases h
                  · split at h
                    · split at h
                      · cases h; exact pushV_ok_le (by assumption)
                      · cases h
                    · cases h
          · -- frame_bury
            split at h
            · cases h
            · split at h
              · cases h
              · rename_i v r hst
                split at h
                · cases h
                · split at h
                  · cases h
                  · split at h
                    · cases h
                    · cases h
                      rw [hst] at hm
                      simp only [List.length_set, List.length_cons] at hm ⊢
                      omega
          · cases h
      · -- block exit
        split at h
        · split at h <;> cases h
        · cases h; exact hm
        · split at h
          · rename_i r hst; cases h; rw [hst] at hm; simp only [List.length_cons] at hm ⊢; omega
          · rename_i r hst; cases h; rw [hst] at hm; simp only [List.length_cons] at hm ⊢; omega
          · cases h
          · cases h

theorem ReachP.stack_le {a b : GSt} (h : ReachP cx Pg a b) (hm : a.ms.stack.length ≤ maxStack) :
    b.ms.stack.length ≤ maxStack := by
  obtain ⟨n, h⟩ := h
  induction n generalizing a with
  | zero => simp only [stepsP, Option.some.injEq] at h; subst h; exact hm
  | succ n ih =>
    simp only [stepsP] at h
    split at h
    · rename_i a' ha
      exact ih (gstepP_stack_le ha hm) h
    · cases h

end Mach

/-! ### worlds that differ in the representation of the scratch space only -/

def SameW (a b : World) : Prop :=
  (∀ s, getSlot a.scratch s = getSlot b.scratch s) ∧ b = { a with scratch := b.scratch }

theorem SameW.refl (a : World) : SameW a a := ⟨fun _ => rfl, rfl⟩

theorem SameW.symm {a b : World} (h : SameW a b) : SameW b a := by
  refine ⟨fun s => (h.1 s).symm, ?_⟩
  rw [h.2]

theorem SameW.trans {a b c : World} (h1 : SameW a b) (h2 : SameW b c) : SameW a c := by
  refine ⟨fun s => (h1.1 s).trans (h2.1 s), ?_⟩
  rw [h2.2, h1.2]

theorem SameW.get {a b : World} (h : SameW a b) (s : Nat) : getSlot a.scratch s = getSlot b.scratch s := h.1 s

theorem SameW.set {a b : World} (h : SameW a b) (s : Nat) (v : Val) :
    SameW { a with scratch := setSlot a.scratch s v } { b with scratch := setSlot b.scratch s v } := by
  refine ⟨fun x => ?_, ?_⟩
  · simp only [getSlot_setSlot, h.1 x]
  · rw [h.2]

theorem SameW.foldl {a b : World} (h : SameW a b) (l : List (Nat × Val)) :
    SameW { a with scratch := l.foldl (fun sc (p : Nat × Val) => setSlot sc p.1 p.2) a.scratch }
      { b with scratch := l.foldl (fun sc (p : Nat × Val) => setSlot sc p.1 p.2) b.scratch } := by
  induction l generalizing a b with
  | nil => exact h
  | cons p l ih => exact ih (h.set p.1 p.2)

theorem stores_simple (vs : List Nat) : ∀ x ∈ vs.map Instr.store, isSimple x = true := by
  intro x hx
  obtain ⟨v, _, rfl⟩ := List.mem_map.mp hx
  rfl

/-- a world with another scratch space of the same content -/
theorem SameW.mkScratch {a : World} {sc : List (Nat × Val)} (h : ∀ s, getSlot a.scratch s = getSlot sc s) :
    SameW a { a with scratch := sc } := ⟨h, rfl⟩

def _root_.PyTealV.Comp.GSt.setW (a : GSt) (w : World) : GSt := { a with ms := { a.ms with world := w } }

/-- outcomes equal up to the representation of the scratch space -/
def OutEq : Outcome → Outcome → Prop
  | .done v w, .done v' w' => v = v' ∧ SameW w w'
  | .fail f, .fail f' => f = f'
  | .outOfFuel, .outOfFuel => True
  | _, _ => False

section Up
variable (cx : Ctx) (Pg : PProg)

/-- from `a` (whose world component is the source world) the machine reaches `b`, for every
    machine world equivalent to the source world — unless the operand stack overflows -/
def ReachS (a b : GSt) : Prop :=
  ∀ wm, SameW a.ms.world wm → a.ms.stack.length ≤ maxStack →
    HaltsP cx Pg (a.setW wm) ovf ∨ ∃ wm', SameW b.ms.world wm' ∧ ReachP cx Pg (a.setW wm) (b.setW wm')

def HaltS (a : GSt) (o : Outcome) : Prop :=
  ∀ wm, SameW a.ms.world wm → a.ms.stack.length ≤ maxStack →
    HaltsP cx Pg (a.setW wm) ovf ∨ ∃ o', OutEq o o' ∧ HaltsP cx Pg (a.setW wm) o'

def FailS (a : GSt) : Prop :=
  ∀ wm, SameW a.ms.world wm → a.ms.stack.length ≤ maxStack → ∃ f, HaltsP cx Pg (a.setW wm) (.fail f)

variable {cx Pg}

theorem ReachS.refl (a : GSt) : ReachS cx Pg a a := fun wm hw _ => .inr ⟨wm, hw, .refl _⟩

theorem ReachS.trans {a b c : GSt} (h1 : ReachS cx Pg a b) (h2 : ReachS cx Pg b c) : ReachS cx Pg a c := by
  intro wm hw hm
  rcases h1 wm hw hm with h | ⟨wm', hw', hr⟩
  · exact .inl h
  · have hb : b.ms.stack.length ≤ maxStack := hr.stack_le (a := a.setW wm) (b := b.setW wm') hm
    rcases h2 wm' hw' hb with h | ⟨wm'', hw'', hr2⟩
    · exact .inl (hr.halts h)
    · exact .inr ⟨wm'', hw'', hr.trans hr2⟩

theorem ReachS.haltS {a b : GSt} {o} (h1 : ReachS cx Pg a b) (h2 : HaltS cx Pg b o) : HaltS cx Pg a o := by
  intro wm hw hm
  rcases h1 wm hw hm with h | ⟨wm', hw', hr⟩
  · exact .inl h
  · have hb : b.ms.stack.length ≤ maxStack := hr.stack_le (a := a.setW wm) (b := b.setW wm') hm
    rcases h2 wm' hw' hb with h | ⟨o', ho, h⟩
    · exact .inl (hr.halts h)
    · exact .inr ⟨o', ho, hr.halts h⟩

theorem ReachS.failS {a b : GSt} (h1 : ReachS cx Pg a b) (h2 : FailS cx Pg b) : FailS cx Pg a := by
  intro wm hw hm
  rcases h1 wm hw hm with h | ⟨wm', hw', hr⟩
  · exact ⟨_, h⟩
  · have hb : b.ms.stack.length ≤ maxStack := hr.stack_le (a := a.setW wm) (b := b.setW wm') hm
    obtain ⟨f, h⟩ := h2 wm' hw' hb
    exact ⟨f, hr.halts h⟩

theorem HaltS.failS {a : GSt} {f} (h : HaltS cx Pg a (.fail f)) : FailS cx Pg a := by
  intro wm hw hm
  rcases h wm hw hm with h | ⟨o', ho, h⟩
  · exact ⟨_, h⟩
  · cases o' with
    | fail f' => exact ⟨f', h⟩
    | done v w => exact ho.elim
    | outOfFuel => exact ho.elim

end Up

/-! ### a routine of the program with its call stack -/

structure MCtx where
  Pg : PProg
  r : RId
  cs : List GFrame
  G : Graph
  hG : Pg.graphOf r = some G

def MCtx.st (X : MCtx) (p : GPt) (m : MS) : GSt := ⟨X.r, p, X.cs, m⟩

section InRoutine
variable (cx : Ctx) (X : MCtx)

def ReachO (p : GPt) (m : MS) (p' : GPt) (m' : MS) : Prop := ReachS cx X.Pg (X.st p m) (X.st p' m')
def HaltO (p : GPt) (m : MS) (o : Outcome) : Prop := HaltS cx X.Pg (X.st p m) o
def Fails (p : GPt) (m : MS) : Prop := FailS cx X.Pg (X.st p m)

variable {cx X}

theorem ReachO.refl (p : GPt) (m : MS) : ReachO cx X p m p m := ReachS.refl _
theorem ReachO.trans {p m p' m' p'' m''} (h1 : ReachO cx X p m p' m') (h2 : ReachO cx X p' m' p'' m'') :
    ReachO cx X p m p'' m'' := ReachS.trans h1 h2
theorem ReachO.haltO {p m p' m' o} (h1 : ReachO cx X p m p' m') (h2 : HaltO cx X p' m' o) :
    HaltO cx X p m o := ReachS.haltS h1 h2
theorem ReachO.fails {p m p' m'} (h1 : ReachO cx X p m p' m') (h2 : Fails cx X p' m') : Fails cx X p m :=
  ReachS.failS h1 h2
theorem HaltO.fails {p m f} (h : HaltO cx X p m (.fail f)) : Fails cx X p m := HaltS.failS h

/-! #### single steps inside a routine -/

theorem step_op {b i : Nat} {blk : Block} {x : Instr} {m m' : MS} (hb : X.G[b]? = some blk)
    (hx : blk.ops[i]? = some x) (hs : execSimple cx x m = some (.ok m')) :
    gstepP cx X.Pg (X.st ⟨b, i⟩ m) = .next (X.st ⟨b, i + 1⟩ m') := by
  simp only [gstepP, MCtx.st, X.hG, hb, hx, hs]

theorem step_op_halt {b i : Nat} {blk : Block} {x : Instr} {m : MS} {o} (hb : X.G[b]? = some blk)
    (hx : blk.ops[i]? = some x) (hs : execSimple cx x m = some (.halt o)) :
    gstepP cx X.Pg (X.st ⟨b, i⟩ m) = .halt o := by
  simp only [gstepP, MCtx.st, X.hG, hb, hx, hs]

/-- leaving a block through its `next` successor -/
theorem step_exit {b i k : Nat} {blk : Block} {m : MS} (hb : X.G[b]? = some blk) (hi : i = blk.ops.length)
    (hk : blk.succ = .next k) :
    gstepP cx X.Pg (X.st ⟨b, i⟩ m) = .next (X.st ⟨k, 0⟩ m) := by
  subst hi
  simp only [gstepP, MCtx.st, X.hG, hb, List.getElem?_eq_none (Nat.le_refl _), hk]

/-- running a segment of straight-line ops of a block -/
theorem run_opsP {b : Nat} {blk : Block} (hb : X.G[b]? = some blk) :
    ∀ (ops pre post : List Instr) (m : MS), blk.ops = pre ++ ops ++ post → (∀ x ∈ ops, isSimple x = true) →
      match execOps cx ops m with
      | .ok m' => ReachP cx X.Pg (X.st ⟨b, pre.length⟩ m) (X.st ⟨b, pre.length + ops.length⟩ m')
      | .halt o => HaltsP cx X.Pg (X.st ⟨b, pre.length⟩ m) o := by
  intro ops
  induction ops with
  | nil =>
    intro pre post m _ _
    simp only [execOps, List.length_nil, Nat.add_zero]
    exact .refl _
  | cons x rest ih =>
    intro pre post m hd hsim
    have hx : blk.ops[pre.length]? = some x := by simp [hd]
    have hd' : blk.ops = (pre ++ [x]) ++ rest ++ post := by simp [hd]
    have ih' := fun m' => ih (pre ++ [x]) post m' hd' (fun y hy => hsim y (List.mem_cons_of_mem _ hy))
    simp only [List.length_append, List.length_cons, List.length_nil, Nat.zero_add] at ih'
    obtain ⟨sr, hs⟩ := isSimple_exec cx x m (hsim x (List.mem_cons_self ..))
    simp only [execOps, hs]
    cases sr with
    | ok m' =>
      simp only []
      have st : ReachP cx X.Pg (X.st ⟨b, pre.length⟩ m) (X.st ⟨b, pre.length + 1⟩ m') := .step (step_op hb hx hs)
      have := ih' m'
      split at this
      · rename_i m'' he
        simp only [List.length_cons]
        rw [show pre.length + (rest.length + 1) = pre.length + 1 + rest.length by omega]
        exact st.trans this
      · rename_i o he
        exact st.halts this
    | halt o =>
      simp only []
      exact .step (step_op_halt hb hx hs)

/-- the same for a segment whose run is known to succeed (no side condition on the ops) -/
theorem run_opsP_ok {b : Nat} {blk : Block} (hb : X.G[b]? = some blk) :
    ∀ (ops pre post : List Instr) (m m' : MS), blk.ops = pre ++ ops ++ post → execOps cx ops m = .ok m' →
      ReachP cx X.Pg (X.st ⟨b, pre.length⟩ m) (X.st ⟨b, pre.length + ops.length⟩ m') := by
  intro ops
  induction ops with
  | nil =>
    intro pre post m m' _ h
    simp only [execOps, SR.ok.injEq] at h
    subst h
    exact .refl _
  | cons x rest ih =>
    intro pre post m m' hd h
    have hx : blk.ops[pre.length]? = some x := by simp [hd]
    have hd' : blk.ops = (pre ++ [x]) ++ rest ++ post := by simp [hd]
    simp only [execOps] at h
    cases hs : execSimple cx x m with
    | none => rw [hs] at h; cases h
    | some sr =>
      cases sr with
      | halt o => rw [hs] at h; cases h
      | ok m1 =>
        rw [hs] at h
        have := ih (pre ++ [x]) post m1 m' hd' h
        simp only [List.length_append, List.length_cons, List.length_nil, Nat.zero_add] at this
        rw [List.length_cons, show pre.length + (rest.length + 1) = pre.length + 1 + rest.length by omega]
        exact (ReachP.step (step_op hb hx hs)).trans this

/-- … and for a segment that halts with anything but the "control instruction" pseudo failure -/
theorem run_opsP_halt {b : Nat} {blk : Block} (hb : X.G[b]? = some blk) {o : Outcome}
    (ho : o ≠ .fail (.illegal "control instruction inside a block")) :
    ∀ (ops pre post : List Instr) (m : MS), blk.ops = pre ++ ops ++ post → execOps cx ops m = .halt o →
      HaltsP cx X.Pg (X.st ⟨b, pre.length⟩ m) o := by
  intro ops
  induction ops with
  | nil => intro pre post m _ h; simp only [execOps] at h; cases h
  | cons x rest ih =>
    intro pre post m hd h
    have hx : blk.ops[pre.length]? = some x := by simp [hd]
    have hd' : blk.ops = (pre ++ [x]) ++ rest ++ post := by simp [hd]
    simp only [execOps] at h
    cases hs : execSimple cx x m with
    | none => rw [hs] at h; cases h; exact absurd rfl ho
    | some sr =>
      cases sr with
      | halt o' => rw [hs] at h; cases h; exact .step (step_op_halt hb hx hs)
      | ok m1 =>
        rw [hs] at h
        have := ih (pre ++ [x]) post m1 hd' h
        simp only [List.length_append, List.length_cons, List.length_nil, Nat.zero_add] at this
        exact (ReachP.step (step_op hb hx hs)).halts this

theorem blockP_next {b k : Nat} {ops : List Instr} {m m' : MS} (hb : Blk X.G b ops (.next k))
    (hsim : ∀ x ∈ ops, isSimple x = true) (h : execOps cx ops m = .ok m') :
    ReachP cx X.Pg (X.st ⟨b, 0⟩ m) (X.st ⟨k, 0⟩ m') := by
  have := run_opsP (cx := cx) (X := X) hb ops [] [] m (by simp) hsim
  simp only [h, List.length_nil, Nat.zero_add] at this
  refine this.trans (.step ?_)
  unfold Blk at hb
  simp only [gstepP, MCtx.st, X.hG, hb, List.getElem?_eq_none (Nat.le_refl _)]

theorem blockP_halt {b : Nat} {ops : List Instr} {succ : Succ} {m : MS} {o : Outcome} (hb : Blk X.G b ops succ)
    (hsim : ∀ x ∈ ops, isSimple x = true) (h : execOps cx ops m = .halt o) :
    HaltsP cx X.Pg (X.st ⟨b, 0⟩ m) o := by
  have := run_opsP (cx := cx) (X := X) hb ops [] [] m (by simp) hsim
  simp only [h, List.length_nil] at this
  exact this

/-- leaf lemma: a block of straight-line ops that, for every equivalent machine world, runs
    through (or overflows) -/
theorem ReachO.of_block {b k : Nat} {ops : List Instr} {m m' : MS} (hb : Blk X.G b ops (.next k))
    (hsim : ∀ x ∈ ops, isSimple x = true)
    (h : ∀ wm, SameW m.world wm → m.stack.length ≤ maxStack →
      execOps cx ops { m with world := wm } = .halt ovf ∨
      ∃ wm', SameW m'.world wm' ∧ execOps cx ops { m with world := wm } = .ok { m' with world := wm' }) :
    ReachO cx X ⟨b, 0⟩ m ⟨k, 0⟩ m' := by
  intro wm hw hm
  rcases h wm hw hm with h | ⟨wm', hw', h⟩
  · exact .inl (blockP_halt hb hsim h)
  · exact .inr ⟨wm', hw', blockP_next hb hsim h⟩

theorem Fails.of_block {b : Nat} {ops : List Instr} {succ : Succ} {m : MS} (hb : Blk X.G b ops succ)
    (hsim : ∀ x ∈ ops, isSimple x = true)
    (h : ∀ wm, SameW m.world wm → ∃ f, execOps cx ops { m with world := wm } = .halt (.fail f)) :
    Fails cx X ⟨b, 0⟩ m := by
  intro wm hw _
  obtain ⟨f, h⟩ := h wm hw
  exact ⟨f, blockP_halt hb hsim h⟩

theorem HaltO.of_block {b : Nat} {ops : List Instr} {succ : Succ} {m : MS} {o : Outcome} (hb : Blk X.G b ops succ)
    (hsim : ∀ x ∈ ops, isSimple x = true)
    (h : ∀ wm, SameW m.world wm → ∃ o', OutEq o o' ∧ execOps cx ops { m with world := wm } = .halt o') :
    HaltO cx X ⟨b, 0⟩ m o := by
  intro wm hw _
  obtain ⟨o', ho, h⟩ := h wm hw
  exact .inr ⟨o', ho, blockP_halt hb hsim h⟩

/-- an empty conditional block pops the condition and branches -/
theorem blockO_cond {b t f : Nat} {n : Nat} {r : List Val} {ic : List Nat} {bcs : List Bytes} {w : World}
    (hb : Blk X.G b [] (.cond t f)) :
    ReachO cx X ⟨b, 0⟩ ⟨.u n :: r, ic, bcs, w⟩ ⟨if n = 0 then f else t, 0⟩ ⟨r, ic, bcs, w⟩ := by
  intro wm hw _
  refine .inr ⟨wm, hw, .step ?_⟩
  unfold Blk at hb
  cases n with
  | zero => simp only [gstepP, MCtx.st, GSt.setW, X.hG, hb, List.getElem?_nil, if_true]
  | succ n => simp only [gstepP, MCtx.st, GSt.setW, X.hG, hb, List.getElem?_nil, Nat.succ_ne_zero, if_false]

theorem blockO_cond_bytes {b t f : Nat} {x : Bytes} {r : List Val} {ic : List Nat} {bcs : List Bytes} {w : World}
    (hb : Blk X.G b [] (.cond t f)) :
    Fails cx X ⟨b, 0⟩ ⟨.b x :: r, ic, bcs, w⟩ := by
  intro wm _ _
  refine ⟨.typeErr "branch on bytes", .step ?_⟩
  unfold Blk at hb
  simp only [gstepP, MCtx.st, GSt.setW, X.hG, hb, List.getElem?_nil]

/-- `retsub` (scratch-slot convention: the frame has no `proto`) pops the frame and continues at
    the return point; the operand stack is untouched -/
theorem retsub_reach {b k : Nat} {fr : GFrame} {cs' : List GFrame} {m : MS}
    (hb : Blk X.G b [.retsub] (.next k)) (hcs : X.cs = fr :: cs') (hpr : fr.proto = none) :
    ReachS cx X.Pg (X.st ⟨b, 0⟩ m) ⟨fr.ret, fr.pt, cs', m⟩ := by
  intro wm hw _
  refine .inr ⟨wm, hw, .step ?_⟩
  unfold Blk at hb
  simp only [gstepP, MCtx.st, GSt.setW, X.hG, hb, hcs, hpr, List.getElem?_cons_zero, execSimple]

/-- `callsub` pushes a frame and enters the callee -/
theorem callsub_step {b i : Nat} {blk : Block} {l : String} {Gf : Graph} {sf : Nat} {m : MS}
    (hb : X.G[b]? = some blk) (hx : blk.ops[i]? = some (.callsub l))
    (hl : X.Pg.subs.lookup l = some (Gf, sf)) :
    gstepP cx X.Pg (X.st ⟨b, i⟩ m) =
      .next ⟨some l, ⟨sf, 0⟩, { ret := X.r, pt := ⟨b, i + 1⟩, height := m.stack.length } :: X.cs, m⟩ := by
  simp only [gstepP, MCtx.st, X.hG, hb, hx, execSimple, hl]

end InRoutine

end PyTealV.Proofs.C02Gen
