/-
  C02Gen (part 1): lemmas about the multi-routine graph machine `Comp.gstepP / grunP`.

  * `ReachP / HaltsP`: reachability and termination between machine states;
  * `gstepP_stack_le`: every step keeps the operand stack within the 1000-entry limit;
  * `SameW`: two worlds that differ only in the *representation* of the scratch space
    (`setSlot` moves the written slot to the front of an association list, so the order in which
    independent slots were written is visible in the data structure; the source semantics binds
    parameters first-to-last, the generated prologue stores them last-to-first);
  * `ReachS / HaltS / FailS`: the same notions "up to `SameW`, unless the operand stack overflows",
    phrased on a machine state whose world component is the *source* world;
  * `MCtx`: a routine of the program with its call stack; `ReachO / HaltO / Fails`: the notions of
    `Proofs/ShapeMach.lean`, now inside a routine of the multi-routine machine;
  * running the straight-line ops of a block, block exits, `callsub`, `retsub`.
-/
import PyTealV.Comp.GenProg
import PyTealV.Comp.ProgGraph
import PyTealV.Models.FragmentR
import PyTealV.Proofs.ShapeMach
import PyTealV.Proofs.Sim
import PyTealV.Proofs.SimR
import PyTealV.Proofs.C02Spill
namespace PyTealV.Proofs.C02Gen
open PyTealV PyTealV.Avm PyTealV.Src PyTealV.Comp PyTealV.Check
open PyTealV.Proofs.Shape (ovf Blk)
open PyTealV.Proofs.C02Spill (getSlot_setSlot)

/-! ### reachability on the multi-routine machine -/

section Mach
variable (cx : Ctx) (Pg : PProg)

/-- `n` steps of the machine without halting -/
def stepsP : Nat → GSt → Option GSt
  | 0, a => some a
  | n+1, a => match gstepP cx Pg a with
    | .next a' => stepsP n a'
    | .halt _ => none

def ReachP (a b : GSt) : Prop := ∃ n, stepsP cx Pg n a = some b
def HaltsP (a : GSt) (o : Outcome) : Prop := ∃ n, grunP cx Pg n a = o

variable {cx Pg}

theorem stepsP_add {b : GSt} : ∀ (n1 n2 : Nat) (a : GSt), stepsP cx Pg n1 a = some b →
    stepsP cx Pg (n1 + n2) a = stepsP cx Pg n2 b := by
  intro n1
  induction n1 with
  | zero => intro n2 a h; simp only [stepsP, Option.some.injEq] at h; subst h; rw [Nat.zero_add]
  | succ n ih =>
    intro n2 a h
    rw [Nat.add_right_comm]
    simp only [stepsP] at h ⊢
    split at h
    · rename_i a' ha
      exact ih n2 a' h
    · cases h

theorem stepsP_run : ∀ (n k : Nat) (a b : GSt), stepsP cx Pg n a = some b →
    grunP cx Pg (n + k) a = grunP cx Pg k b := by
  intro n
  induction n with
  | zero => intro k a b h; simp only [stepsP, Option.some.injEq] at h; subst h; rw [Nat.zero_add]
  | succ n ih =>
    intro k a b h
    rw [Nat.add_right_comm, grunP_succ]
    simp only [stepsP] at h
    split at h
    · rename_i a' ha
      rw [ha]
      exact ih k a' b h
    · cases h

theorem ReachP.refl (a : GSt) : ReachP cx Pg a a := ⟨0, rfl⟩

theorem ReachP.trans {a b c : GSt} (h1 : ReachP cx Pg a b) (h2 : ReachP cx Pg b c) : ReachP cx Pg a c := by
  obtain ⟨n1, h1⟩ := h1
  obtain ⟨n2, h2⟩ := h2
  exact ⟨n1 + n2, by rw [stepsP_add n1 n2 a h1, h2]⟩

theorem ReachP.step {a b : GSt} (h : gstepP cx Pg a = .next b) : ReachP cx Pg a b :=
  ⟨1, by simp only [stepsP, h]⟩

theorem ReachP.halts {a b : GSt} {o} (h1 : ReachP cx Pg a b) (h2 : HaltsP cx Pg b o) : HaltsP cx Pg a o := by
  obtain ⟨n1, h1⟩ := h1
  obtain ⟨n2, h2⟩ := h2
  exact ⟨n1 + n2, by rw [stepsP_run n1 n2 a b h1, h2]⟩

theorem HaltsP.step {a : GSt} {o} (h : gstepP cx Pg a = .halt o) : HaltsP cx Pg a o :=
  ⟨1, by rw [grunP_succ, h]⟩

/-! ### the operand stack never exceeds the limit -/

theorem pushV_ok_le {m m' : MS} {v : Val} (h : pushV m v = .ok m') : m'.stack.length ≤ maxStack := by
  unfold pushV at h
  split at h
  · cases h; simp only [List.length_cons]; omega
  · cases h

theorem execSimple_stack_le {x : Instr} {m m' : MS} (h : execSimple cx x m = some (.ok m'))
    (hm : m.stack.length ≤ maxStack) : m'.stack.length ≤ maxStack := by
  cases x <;> simp only [execSimple, Option.some.injEq, reduceCtorEq] at h
  case label => cases h; exact hm
  case pragma => cases h; exact hm
  case intcblock => cases h; exact hm
  case bytecblock => cases h; exact hm
  case intc => split at h; exact pushV_ok_le h; cases h
  case bytec => split at h; exact pushV_ok_le h; cases h
  case pushInt => exact pushV_ok_le h
  case pushBytes => exact pushV_ok_le h
  case ret => split at h; split at h <;> cases h; cases h
  case load => split at h; exact pushV_ok_le h; cases h
  case store =>
    split at h
    · rename_i v r hst
      split at h
      · cases h
        rw [hst] at hm
        simp only [List.length_cons] at hm ⊢
        omega
      · cases h
    · cases h
  case prim =>
    split at h
    · split at h
      · cases h; assumption
      · cases h
    · cases h

theorem gstepP_stack_le {a b : GSt} (h : gstepP cx Pg a = .next b) (hm : a.ms.stack.length ≤ maxStack) :
    b.ms.stack.length ≤ maxStack := by
  unfold gstepP at h
  split at h
  · cases h
  · split at h
    · cases h
    · split at h
      · -- an op
        rename_i x hx
        simp only at h
        split at h
        · cases h; exact execSimple_stack_le (by assumption) hm
        · cases h
        · split at h
          · -- callsub
            split at h
            · cases h; exact hm
            · cases h
          · -- retsub
            split at h
            · cases h
            · split at h
              · cases h; exact hm
              · split at h
                · cases h
                · split at h
                  · cases h
                  · rename_i f cs a r hpr hlt hlt2
                    cases h
                    simp only [List.length_reverse, List.length_append, List.length_take, List.length_drop]
                    omega
          · -- proto
            split at h
            · cases h
            · split at h
              · cases h
              · split at h
                · cases h
                · cases h; exact hm
          · -- frame_dig
            split at h
            · cases h
            · split at h
              · cases h
              · split at h
                · cases h
                · split at h
                  · cases h
                  · split at h
                    · split at h
                      · cases h; exact pushV_ok_le (by assumption)
                      · cases h
                    · cases h
          · -- frame_bury
            split at h
            · cases h
            · split at h
              · cases h
              · rename_i v r hst
                split at h
                · cases h
                · split at h
                  · cases h
                  · split at h
                    · cases h
                    · cases h
                      rw [hst] at hm
                      simp only [List.length_set, List.length_cons] at hm ⊢
                      omega
          · cases h
      · -- block exit
        split at h
        · split at h <;> cases h
        · cases h; exact hm
        · split at h
          · rename_i r hst; cases h; rw [hst] at hm; simp only [List.length_cons] at hm ⊢; omega
          · rename_i r hst; cases h; rw [hst] at hm; simp only [List.length_cons] at hm ⊢; omega
          · cases h
          · cases h

theorem ReachP.stack_le {a b : GSt} (h : ReachP cx Pg a b) (hm : a.ms.stack.length ≤ maxStack) :
    b.ms.stack.length ≤ maxStack := by
  obtain ⟨n, h⟩ := h
  induction n generalizing a with
  | zero => simp only [stepsP, Option.some.injEq] at h; subst h; exact hm
  | succ n ih =>
    simp only [stepsP] at h
    split at h
    · rename_i a' ha
      exact ih (gstepP_stack_le ha hm) h
    · cases h

end Mach

/-! ### worlds that differ in the representation of the scratch space only

  `SameW I a b`: `b` is `a` with another scratch space that has the same content in every slot
  outside `I`.  `I = []` for the scratch-slot convention; under the frame-pointer convention `I` is
  the set of by-value parameter slots (the source semantics keeps parameters in scratch cells, the
  generated code keeps them in the stack frame and never touches those slots). -/

def SameW (I : List Nat) (a b : World) : Prop :=
  (∀ s, s ∉ I → getSlot a.scratch s = getSlot b.scratch s) ∧ b = { a with scratch := b.scratch }

theorem SameW.refl (I : List Nat) (a : World) : SameW I a a := ⟨fun _ _ => rfl, rfl⟩

theorem SameW.symm {I : List Nat} {a b : World} (h : SameW I a b) : SameW I b a := by
  refine ⟨fun s hs => (h.1 s hs).symm, ?_⟩
  rw [h.2]

theorem SameW.trans {I : List Nat} {a b c : World} (h1 : SameW I a b) (h2 : SameW I b c) : SameW I a c := by
  refine ⟨fun s hs => (h1.1 s hs).trans (h2.1 s hs), ?_⟩
  rw [h2.2, h1.2]

theorem SameW.set {I : List Nat} {a b : World} (h : SameW I a b) (s : Nat) (v : Val) :
    SameW I { a with scratch := setSlot a.scratch s v } { b with scratch := setSlot b.scratch s v } := by
  refine ⟨fun x hx => ?_, ?_⟩
  · simp only [getSlot_setSlot, h.1 x hx]
  · rw [h.2]

theorem SameW.foldl {I : List Nat} {a b : World} (h : SameW I a b) (l : List (Nat × Val)) :
    SameW I { a with scratch := l.foldl (fun sc (p : Nat × Val) => setSlot sc p.1 p.2) a.scratch }
      { b with scratch := l.foldl (fun sc (p : Nat × Val) => setSlot sc p.1 p.2) b.scratch } := by
  induction l generalizing a b with
  | nil => exact h
  | cons p l ih => exact ih (h.set p.1 p.2)

theorem stores_simple (vs : List Nat) : ∀ x ∈ vs.map Instr.store, isSimple x = true := by
  intro x hx
  obtain ⟨v, _, rfl⟩ := List.mem_map.mp hx
  rfl

def _root_.PyTealV.Comp.GSt.setW (a : GSt) (w : World) : GSt := { a with ms := { a.ms with world := w } }

/-- outcomes equal up to `SameW` -/
def OutEq (I : List Nat) : Outcome → Outcome → Prop
  | .done v w, .done v' w' => v = v' ∧ SameW I w w'
  | .fail f, .fail f' => f = f'
  | .outOfFuel, .outOfFuel => True
  | _, _ => False

/-- no constraint on the source world -/
def noInv : World → Prop := fun _ => True

/-- the failures with which the machine may deviate from the source semantics: always the
    operand-stack limit; for programs with run-time addressed slots (`vloads` / `vstores`, stage 3)
    also the range check of `loads` / `stores` (`devDyn`) -/
def ovfF : Fail := .logic "stack overflow"
def rangeL : Fail := .logic "loads slot out of range"
def rangeS : Fail := .logic "stores slot out of range"

def devOvf : Fail → Prop := fun f => f = ovfF
def devDyn : Fail → Prop := fun f => f = ovfF ∨ f = rangeL ∨ f = rangeS

section Up
variable (D : Fail → Prop) (I : List Nat) (cx : Ctx) (Pg : PProg)

/-- from `a` (whose world component is the source world, which satisfies `Ia`) the machine reaches
    `b` (whose source world then satisfies `Ib`), for every machine world equivalent to the source
    world — unless the operand stack overflows -/
def ReachS (Ia Ib : World → Prop) (a b : GSt) : Prop :=
  ∀ wm, SameW I a.ms.world wm → Ia a.ms.world → a.ms.stack.length ≤ maxStack →
    (∃ f, D f ∧ HaltsP cx Pg (a.setW wm) (.fail f)) ∨
    ∃ wm', SameW I b.ms.world wm' ∧ Ib b.ms.world ∧ ReachP cx Pg (a.setW wm) (b.setW wm')

def HaltS (Ia : World → Prop) (a : GSt) (o : Outcome) : Prop :=
  ∀ wm, SameW I a.ms.world wm → Ia a.ms.world → a.ms.stack.length ≤ maxStack →
    (∃ f, D f ∧ HaltsP cx Pg (a.setW wm) (.fail f)) ∨ ∃ o', OutEq I o o' ∧ HaltsP cx Pg (a.setW wm) o'

def FailS (Ia : World → Prop) (a : GSt) : Prop :=
  ∀ wm, SameW I a.ms.world wm → Ia a.ms.world → a.ms.stack.length ≤ maxStack →
    ∃ f, HaltsP cx Pg (a.setW wm) (.fail f)

variable {D I cx Pg}

theorem ReachS.refl {Ia : World → Prop} (a : GSt) : ReachS D I cx Pg Ia Ia a a :=
  fun wm hw hi _ => .inr ⟨wm, hw, hi, .refl _⟩

theorem ReachS.trans {Ia Ib Ic : World → Prop} {a b c : GSt} (h1 : ReachS D I cx Pg Ia Ib a b)
    (h2 : ReachS D I cx Pg Ib Ic b c) : ReachS D I cx Pg Ia Ic a c := by
  intro wm hw hi hm
  rcases h1 wm hw hi hm with h | ⟨wm', hw', hi', hr⟩
  · exact .inl h
  · have hb : b.ms.stack.length ≤ maxStack := hr.stack_le (a := a.setW wm) (b := b.setW wm') hm
    rcases h2 wm' hw' hi' hb with ⟨o, hd, h⟩ | ⟨wm'', hw'', hi'', hr2⟩
    · exact .inl ⟨o, hd, hr.halts h⟩
    · exact .inr ⟨wm'', hw'', hi'', hr.trans hr2⟩

theorem ReachS.haltS {Ia Ib : World → Prop} {a b : GSt} {o} (h1 : ReachS D I cx Pg Ia Ib a b)
    (h2 : HaltS D I cx Pg Ib b o) : HaltS D I cx Pg Ia a o := by
  intro wm hw hi hm
  rcases h1 wm hw hi hm with h | ⟨wm', hw', hi', hr⟩
  · exact .inl h
  · have hb : b.ms.stack.length ≤ maxStack := hr.stack_le (a := a.setW wm) (b := b.setW wm') hm
    rcases h2 wm' hw' hi' hb with ⟨o, hd, h⟩ | ⟨o', ho, h⟩
    · exact .inl ⟨o, hd, hr.halts h⟩
    · exact .inr ⟨o', ho, hr.halts h⟩

theorem ReachS.failS {Ia Ib : World → Prop} {a b : GSt} (h1 : ReachS D I cx Pg Ia Ib a b)
    (h2 : FailS I cx Pg Ib b) : FailS I cx Pg Ia a := by
  intro wm hw hi hm
  rcases h1 wm hw hi hm with ⟨o, hd, h⟩ | ⟨wm', hw', hi', hr⟩
  · exact ⟨o, h⟩
  · have hb : b.ms.stack.length ≤ maxStack := hr.stack_le (a := a.setW wm) (b := b.setW wm') hm
    obtain ⟨f, h⟩ := h2 wm' hw' hi' hb
    exact ⟨f, hr.halts h⟩

theorem HaltS.failS {Ia : World → Prop} {a : GSt} {f} (h : HaltS D I cx Pg Ia a (.fail f)) : FailS I cx Pg Ia a := by
  intro wm hw hi hm
  rcases h wm hw hi hm with ⟨o, _, h⟩ | ⟨o', ho, h⟩
  · exact ⟨o, h⟩
  · cases o' with
    | fail f' => exact ⟨f', h⟩
    | done v w => exact ho.elim
    | outOfFuel => exact ho.elim

/-- weaken the premise / strengthen the conclusion on the source worlds -/
theorem ReachS.mono {Ia Ia' Ib Ib' : World → Prop} {a b : GSt} (h : ReachS D I cx Pg Ia Ib a b)
    (h1 : Ia' a.ms.world → Ia a.ms.world) (h2 : Ia' a.ms.world → Ib b.ms.world → Ib' b.ms.world) :
    ReachS D I cx Pg Ia' Ib' a b := by
  intro wm hw hi hm
  rcases h wm hw (h1 hi) hm with h | ⟨wm', hw', hi', hr⟩
  · exact .inl h
  · exact .inr ⟨wm', hw', h2 hi hi', hr⟩

theorem HaltS.mono {Ia Ia' : World → Prop} {a : GSt} {o} (h : HaltS D I cx Pg Ia a o)
    (h1 : Ia' a.ms.world → Ia a.ms.world) : HaltS D I cx Pg Ia' a o :=
  fun wm hw hi hm => h wm hw (h1 hi) hm

theorem FailS.mono {Ia Ia' : World → Prop} {a : GSt} (h : FailS I cx Pg Ia a)
    (h1 : Ia' a.ms.world → Ia a.ms.world) : FailS I cx Pg Ia' a :=
  fun wm hw hi hm => h wm hw (h1 hi) hm

end Up

/-! ### a routine of the program with its call stack

  `ign`: the slots `SameW` ignores; `inv`: what is known about the source world while this
  activation runs (frame-pointer convention: the parameter cells of the source semantics hold the
  values of the stack frame); `base`: the part of the operand stack that belongs to the callers
  and, under the frame-pointer convention, the arguments of this activation — every stack of
  `ReachO / HaltO / Fails` is implicitly on top of it. -/

structure MCtx where
  Pg : PProg
  r : RId
  cs : List GFrame
  G : Graph
  hG : Pg.graphOf r = some G
  ign : List Nat := []
  inv : World → Prop := noInv
  /-- the slots `inv` looks at (frame-pointer convention: the ignored ones; by-reference discipline:
      the by-reference parameter slots) -/
  prot : List Nat := ign
  /-- ghost: the routines with an activation on the call stack (this one included) -/
  act : List Nat := []
  base : List Val := []
  dev : Fail → Prop := devOvf
  devOvf : dev ovfF := by rfl

def MCtx.st (X : MCtx) (p : GPt) (m : MS) : GSt := ⟨X.r, p, X.cs, m⟩

/-- the invariant on the source world only looks at the slots `prot` -/
def MCtx.InvOK (X : MCtx) : Prop :=
  ∀ w w' : World, (∀ s, s ∈ X.prot → getSlot w'.scratch s = getSlot w.scratch s) → X.inv w → X.inv w'

theorem MCtx.InvOK.same {X : MCtx} (h : X.InvOK) {w w' : World} (hs : w'.scratch = w.scratch) (hi : X.inv w) :
    X.inv w' := h w w' (fun s _ => by rw [hs]) hi

theorem MCtx.InvOK.set {X : MCtx} (h : X.InvOK) {w : World} {v : Nat} {x : Val} (hv : v ∉ X.prot) (hi : X.inv w) :
    X.inv { w with scratch := setSlot w.scratch v x } := by
  refine h w _ (fun s hs => ?_) hi
  simp only [getSlot_setSlot]
  rw [if_neg]
  intro h'; subst h'; exact hv hs

/-- the machine state with the routine's base under the stack -/
def MCtx.onBase (X : MCtx) (m : MS) : MS := { m with stack := m.stack ++ X.base }

section InRoutine
variable (cx : Ctx) (X : MCtx)

def ReachO (p : GPt) (m : MS) (p' : GPt) (m' : MS) : Prop :=
  ReachS X.dev X.ign cx X.Pg X.inv X.inv (X.st p (X.onBase m)) (X.st p' (X.onBase m'))
def HaltO (p : GPt) (m : MS) (o : Outcome) : Prop := HaltS X.dev X.ign cx X.Pg X.inv (X.st p (X.onBase m)) o
def Fails (p : GPt) (m : MS) : Prop := FailS X.ign cx X.Pg X.inv (X.st p (X.onBase m))

variable {cx X}

theorem ReachO.refl (p : GPt) (m : MS) : ReachO cx X p m p m := ReachS.refl _
theorem ReachO.trans {p m p' m' p'' m''} (h1 : ReachO cx X p m p' m') (h2 : ReachO cx X p' m' p'' m'') :
    ReachO cx X p m p'' m'' := ReachS.trans h1 h2
theorem ReachO.haltO {p m p' m' o} (h1 : ReachO cx X p m p' m') (h2 : HaltO cx X p' m' o) :
    HaltO cx X p m o := ReachS.haltS h1 h2
theorem ReachO.fails {p m p' m'} (h1 : ReachO cx X p m p' m') (h2 : Fails cx X p' m') : Fails cx X p m :=
  ReachS.failS h1 h2
theorem HaltO.fails {p m f} (h : HaltO cx X p m (.fail f)) : Fails cx X p m := HaltS.failS h

/-! #### single steps inside a routine -/

theorem step_op {b i : Nat} {blk : Block} {x : Instr} {m m' : MS} (hb : X.G[b]? = some blk)
    (hx : blk.ops[i]? = some x) (hs : execSimple cx x m = some (.ok m')) :
    gstepP cx X.Pg (X.st ⟨b, i⟩ m) = .next (X.st ⟨b, i + 1⟩ m') := by
  simp only [gstepP, MCtx.st, X.hG, hb, hx, hs]

theorem step_op_halt {b i : Nat} {blk : Block} {x : Instr} {m : MS} {o} (hb : X.G[b]? = some blk)
    (hx : blk.ops[i]? = some x) (hs : execSimple cx x m = some (.halt o)) :
    gstepP cx X.Pg (X.st ⟨b, i⟩ m) = .halt o := by
  simp only [gstepP, MCtx.st, X.hG, hb, hx, hs]

/-- leaving a block through its `next` successor -/
theorem step_exit {b i k : Nat} {blk : Block} {m : MS} (hb : X.G[b]? = some blk) (hi : i = blk.ops.length)
    (hk : blk.succ = .next k) :
    gstepP cx X.Pg (X.st ⟨b, i⟩ m) = .next (X.st ⟨k, 0⟩ m) := by
  subst hi
  simp only [gstepP, MCtx.st, X.hG, hb, List.getElem?_eq_none (Nat.le_refl _), hk]

/-- running a segment of straight-line ops of a block -/
theorem run_opsP {b : Nat} {blk : Block} (hb : X.G[b]? = some blk) :
    ∀ (ops pre post : List Instr) (m : MS), blk.ops = pre ++ ops ++ post → (∀ x ∈ ops, isSimple x = true) →
      match execOps cx ops m with
      | .ok m' => ReachP cx X.Pg (X.st ⟨b, pre.length⟩ m) (X.st ⟨b, pre.length + ops.length⟩ m')
      | .halt o => HaltsP cx X.Pg (X.st ⟨b, pre.length⟩ m) o := by
  intro ops
  induction ops with
  | nil =>
    intro pre post m _ _
    simp only [execOps, List.length_nil, Nat.add_zero]
    exact .refl _
  | cons x rest ih =>
    intro pre post m hd hsim
    have hx : blk.ops[pre.length]? = some x := by simp [hd]
    have hd' : blk.ops = (pre ++ [x]) ++ rest ++ post := by simp [hd]
    have ih' := fun m' => ih (pre ++ [x]) post m' hd' (fun y hy => hsim y (List.mem_cons_of_mem _ hy))
    simp only [List.length_append, List.length_cons, List.length_nil, Nat.zero_add] at ih'
    obtain ⟨sr, hs⟩ := isSimple_exec cx x m (hsim x (List.mem_cons_self ..))
    simp only [execOps, hs]
    cases sr with
    | ok m' =>
      simp only []
      have st : ReachP cx X.Pg (X.st ⟨b, pre.length⟩ m) (X.st ⟨b, pre.length + 1⟩ m') := .step (step_op hb hx hs)
      have := ih' m'
      split at this
      · rename_i m'' he
        simp only [List.length_cons]
        rw [show pre.length + (rest.length + 1) = pre.length + 1 + rest.length by omega]
        exact st.trans this
      · rename_i o he
        exact st.halts this
    | halt o =>
      simp only []
      exact .step (step_op_halt hb hx hs)

/-- the same for a segment whose run is known to succeed (no side condition on the ops) -/
theorem run_opsP_ok {b : Nat} {blk : Block} (hb : X.G[b]? = some blk) :
    ∀ (ops pre post : List Instr) (m m' : MS), blk.ops = pre ++ ops ++ post → execOps cx ops m = .ok m' →
      ReachP cx X.Pg (X.st ⟨b, pre.length⟩ m) (X.st ⟨b, pre.length + ops.length⟩ m') := by
  intro ops
  induction ops with
  | nil =>
    intro pre post m m' _ h
    simp only [execOps, SR.ok.injEq] at h
    subst h
    exact .refl _
  | cons x rest ih =>
    intro pre post m m' hd h
    have hx : blk.ops[pre.length]? = some x := by simp [hd]
    have hd' : blk.ops = (pre ++ [x]) ++ rest ++ post := by simp [hd]
    simp only [execOps] at h
    cases hs : execSimple cx x m with
    | none => rw [hs] at h; cases h
    | some sr =>
      cases sr with
      | halt o => rw [hs] at h; cases h
      | ok m1 =>
        rw [hs] at h
        have := ih (pre ++ [x]) post m1 m' hd' h
        simp only [List.length_append, List.length_cons, List.length_nil, Nat.zero_add] at this
        rw [List.length_cons, show pre.length + (rest.length + 1) = pre.length + 1 + rest.length by omega]
        exact (ReachP.step (step_op hb hx hs)).trans this

/-- … and for a segment that halts with anything but the "control instruction" pseudo failure -/
theorem run_opsP_halt {b : Nat} {blk : Block} (hb : X.G[b]? = some blk) {o : Outcome}
    (ho : o ≠ .fail (.illegal "control instruction inside a block")) :
    ∀ (ops pre post : List Instr) (m : MS), blk.ops = pre ++ ops ++ post → execOps cx ops m = .halt o →
      HaltsP cx X.Pg (X.st ⟨b, pre.length⟩ m) o := by
  intro ops
  induction ops with
  | nil => intro pre post m _ h; simp only [execOps] at h; cases h
  | cons x rest ih =>
    intro pre post m hd h
    have hx : blk.ops[pre.length]? = some x := by simp [hd]
    have hd' : blk.ops = (pre ++ [x]) ++ rest ++ post := by simp [hd]
    simp only [execOps] at h
    cases hs : execSimple cx x m with
    | none => rw [hs] at h; cases h; exact absurd rfl ho
    | some sr =>
      cases sr with
      | halt o' => rw [hs] at h; cases h; exact .step (step_op_halt hb hx hs)
      | ok m1 =>
        rw [hs] at h
        have := ih (pre ++ [x]) post m1 hd' h
        simp only [List.length_append, List.length_cons, List.length_nil, Nat.zero_add] at this
        exact (ReachP.step (step_op hb hx hs)).halts this

theorem blockP_next {b k : Nat} {ops : List Instr} {m m' : MS} (hb : Blk X.G b ops (.next k))
    (hsim : ∀ x ∈ ops, isSimple x = true) (h : execOps cx ops m = .ok m') :
    ReachP cx X.Pg (X.st ⟨b, 0⟩ m) (X.st ⟨k, 0⟩ m') := by
  have := run_opsP (cx := cx) (X := X) hb ops [] [] m (by simp) hsim
  simp only [h, List.length_nil, Nat.zero_add] at this
  refine this.trans (.step ?_)
  unfold Blk at hb
  simp only [gstepP, MCtx.st, X.hG, hb, List.getElem?_eq_none (Nat.le_refl _)]

theorem blockP_halt {b : Nat} {ops : List Instr} {succ : Succ} {m : MS} {o : Outcome} (hb : Blk X.G b ops succ)
    (hsim : ∀ x ∈ ops, isSimple x = true) (h : execOps cx ops m = .halt o) :
    HaltsP cx X.Pg (X.st ⟨b, 0⟩ m) o := by
  have := run_opsP (cx := cx) (X := X) hb ops [] [] m (by simp) hsim
  simp only [h, List.length_nil] at this
  exact this

/-- leaf lemma: a block of straight-line ops that, for every equivalent machine world, runs
    through (or overflows); the stack is the one of the lemma on top of the routine's base -/
theorem ReachO.of_block {b k : Nat} {ops : List Instr} {m m' : MS} (hb : Blk X.G b ops (.next k))
    (hsim : ∀ x ∈ ops, isSimple x = true)
    (h : ∀ wm, SameW X.ign m.world wm → X.inv m.world → (m.stack ++ X.base).length ≤ maxStack →
      execOps cx ops { X.onBase m with world := wm } = .halt ovf ∨
      ∃ wm', SameW X.ign m'.world wm' ∧ X.inv m'.world ∧
        execOps cx ops { X.onBase m with world := wm } = .ok { X.onBase m' with world := wm' }) :
    ReachO cx X ⟨b, 0⟩ m ⟨k, 0⟩ m' := by
  intro wm hw hi hm
  rcases h wm hw hi hm with h | ⟨wm', hw', hi', h⟩
  · exact .inl ⟨ovfF, X.devOvf, blockP_halt hb hsim h⟩
  · exact .inr ⟨wm', hw', hi', blockP_next hb hsim h⟩

/-- the same with an arbitrary permitted deviation -/
theorem ReachO.of_block_dev {b k : Nat} {ops : List Instr} {m m' : MS} (hb : Blk X.G b ops (.next k))
    (hsim : ∀ x ∈ ops, isSimple x = true)
    (h : ∀ wm, SameW X.ign m.world wm → X.inv m.world → (m.stack ++ X.base).length ≤ maxStack →
      (∃ f, X.dev f ∧ execOps cx ops { X.onBase m with world := wm } = .halt (.fail f)) ∨
      ∃ wm', SameW X.ign m'.world wm' ∧ X.inv m'.world ∧
        execOps cx ops { X.onBase m with world := wm } = .ok { X.onBase m' with world := wm' }) :
    ReachO cx X ⟨b, 0⟩ m ⟨k, 0⟩ m' := by
  intro wm hw hi hm
  rcases h wm hw hi hm with ⟨f, hd, h⟩ | ⟨wm', hw', hi', h⟩
  · exact .inl ⟨f, hd, blockP_halt hb hsim h⟩
  · exact .inr ⟨wm', hw', hi', blockP_next hb hsim h⟩

theorem Fails.of_block {b : Nat} {ops : List Instr} {succ : Succ} {m : MS} (hb : Blk X.G b ops succ)
    (hsim : ∀ x ∈ ops, isSimple x = true)
    (h : ∀ wm, SameW X.ign m.world wm → ∃ f, execOps cx ops { X.onBase m with world := wm } = .halt (.fail f)) :
    Fails cx X ⟨b, 0⟩ m := by
  intro wm hw _ _
  obtain ⟨f, h⟩ := h wm hw
  exact ⟨f, blockP_halt hb hsim h⟩

theorem HaltO.of_block {b : Nat} {ops : List Instr} {succ : Succ} {m : MS} {o : Outcome} (hb : Blk X.G b ops succ)
    (hsim : ∀ x ∈ ops, isSimple x = true)
    (h : ∀ wm, SameW X.ign m.world wm →
      ∃ o', OutEq X.ign o o' ∧ execOps cx ops { X.onBase m with world := wm } = .halt o') :
    HaltO cx X ⟨b, 0⟩ m o := by
  intro wm hw _ _
  obtain ⟨o', ho, h⟩ := h wm hw
  exact .inr ⟨o', ho, blockP_halt hb hsim h⟩

/-- an empty conditional block pops the condition and branches -/
theorem blockO_cond {b t f : Nat} {n : Nat} {r : List Val} {ic : List Nat} {bcs : List Bytes} {w : World}
    (hb : Blk X.G b [] (.cond t f)) :
    ReachO cx X ⟨b, 0⟩ ⟨.u n :: r, ic, bcs, w⟩ ⟨if n = 0 then f else t, 0⟩ ⟨r, ic, bcs, w⟩ := by
  intro wm hw hi _
  refine .inr ⟨wm, hw, hi, .step ?_⟩
  unfold Blk at hb
  cases n with
  | zero => simp only [gstepP, MCtx.st, MCtx.onBase, GSt.setW, X.hG, hb, List.getElem?_nil, if_true, List.cons_append]
  | succ n =>
    simp only [gstepP, MCtx.st, MCtx.onBase, GSt.setW, X.hG, hb, List.getElem?_nil, Nat.succ_ne_zero, if_false,
      List.cons_append]

theorem blockO_cond_bytes {b t f : Nat} {x : Bytes} {r : List Val} {ic : List Nat} {bcs : List Bytes} {w : World}
    (hb : Blk X.G b [] (.cond t f)) :
    Fails cx X ⟨b, 0⟩ ⟨.b x :: r, ic, bcs, w⟩ := by
  intro wm _ _ _
  refine ⟨.typeErr "branch on bytes", .step ?_⟩
  unfold Blk at hb
  simp only [gstepP, MCtx.st, MCtx.onBase, GSt.setW, X.hG, hb, List.getElem?_nil, List.cons_append]

/-- `retsub` when the frame has no `proto` (scratch-slot convention) pops the frame and continues
    at the return point; the operand stack is untouched -/
theorem retsub_step {b k : Nat} {fr : GFrame} {cs' : List GFrame} {m : MS}
    (hb : Blk X.G b [.retsub] (.next k)) (hcs : X.cs = fr :: cs') (hpr : fr.proto = none) :
    gstepP cx X.Pg (X.st ⟨b, 0⟩ m) = .next ⟨fr.ret, fr.pt, cs', m⟩ := by
  unfold Blk at hb
  simp only [gstepP, MCtx.st, X.hG, hb, hcs, hpr, List.getElem?_cons_zero, execSimple]

theorem kept_eq {α} (top B : List α) (a r : Nat) (ha : a ≤ B.length) :
    (((top ++ B).reverse.take (B.length - a)) ++ (((top ++ B).reverse.drop B.length).take r)).reverse
      = (top.reverse.take r).reverse ++ B.drop a := by
  rw [List.reverse_append (as := top)]
  have h1 : (B.reverse ++ top.reverse).take (B.length - a) = B.reverse.take (B.length - a) := by
    rw [List.take_append_of_le_length (by simp)]
  have h2 : (B.reverse ++ top.reverse).drop B.length = top.reverse := by
    have : B.length = B.reverse.length := by simp
    rw [this, List.drop_left]
  rw [h1, h2, List.reverse_append]
  congr 1
  rw [List.take_reverse, List.reverse_reverse]
  congr 1
  omega

/-- `retsub` when the frame was prepared by `proto a r` (frame-pointer convention): the arguments
    and everything above the frame base except the `r` entries directly above it are removed -/
theorem retsub_step_proto {b k a r : Nat} {fr : GFrame} {cs' : List GFrame} {top : List Val} {ic bcs} {w : World}
    (hb : Blk X.G b [.retsub] (.next k)) (hcs : X.cs = fr :: cs') (hpr : fr.proto = some (a, r))
    (hh : fr.height = X.base.length) (ha : a ≤ X.base.length) (hr : r ≤ top.length) :
    gstepP cx X.Pg (X.st ⟨b, 0⟩ ⟨top ++ X.base, ic, bcs, w⟩) =
      .next ⟨fr.ret, fr.pt, cs', ⟨(top.reverse.take r).reverse ++ X.base.drop a, ic, bcs, w⟩⟩ := by
  unfold Blk at hb
  have h1 : ¬ (top ++ X.base).length < X.base.length + r := by simp; omega
  have h2 : ¬ X.base.length < a := by omega
  simp only [gstepP, MCtx.st, X.hG, hb, hcs, hpr, List.getElem?_cons_zero, execSimple, hh, h1, h2, if_false,
    kept_eq top X.base a r ha]

/-- `proto a r` marks the innermost frame -/
theorem proto_step {b a r : Nat} {blk : Block} {fr : GFrame} {cs' : List GFrame} {m : MS}
    (hb : X.G[b]? = some blk) (hx : blk.ops[0]? = some (.proto a r)) (hcs : X.cs = fr :: cs')
    (hpr : fr.proto = none) (hlen : a ≤ m.stack.length) :
    gstepP cx X.Pg (X.st ⟨b, 0⟩ m) = .next ⟨X.r, ⟨b, 1⟩, { fr with proto := some (a, r) } :: cs', m⟩ := by
  have h1 : ¬ m.stack.length < a := by omega
  simp only [gstepP, MCtx.st, X.hG, hb, hx, hcs, hpr, execSimple, Option.isSome_none, Bool.false_eq_true,
    if_false, h1]

/-- `callsub` pushes a frame and enters the callee -/
theorem callsub_step {b i : Nat} {blk : Block} {l : String} {Gf : Graph} {sf : Nat} {m : MS}
    (hb : X.G[b]? = some blk) (hx : blk.ops[i]? = some (.callsub l))
    (hl : X.Pg.subs.lookup l = some (Gf, sf)) :
    gstepP cx X.Pg (X.st ⟨b, i⟩ m) =
      .next ⟨some l, ⟨sf, 0⟩, { ret := X.r, pt := ⟨b, i + 1⟩, height := m.stack.length } :: X.cs, m⟩ := by
  simp only [gstepP, MCtx.st, X.hG, hb, hx, execSimple, hl]

end InRoutine

end PyTealV.Proofs.C02Gen
