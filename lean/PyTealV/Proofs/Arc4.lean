/-
  Theorems about the ARC-4 specification `PyTealV.Arc4`.
-/
import PyTealV.Arc4
namespace PyTealV.Arc4

/-! ### bytes and bits -/

@[simp] theorem beBytes_length (w v : Nat) : (beBytes w v).length = w := by
  induction w generalizing v with
  | zero => rfl
  | succ w ih => simp [beBytes, ih]

@[simp] theorem u16_length (n : Nat) : (u16 n).length = 2 := by simp [u16]

theorem packBits_length (fuel : Nat) (bits : List Bool) (h : bits.length ≤ fuel) :
    (packBits fuel bits).length = ceil8 bits.length := by
  induction fuel generalizing bits with
  | zero =>
    have : bits = [] := List.eq_nil_of_length_eq_zero (by omega)
    subst this; simp [packBits, ceil8]
  | succ fuel ih =>
    unfold packBits
    cases bits with
    | nil => simp [ceil8]
    | cons b bs =>
      simp only [List.isEmpty_cons, Bool.false_eq_true, ↓reduceIte, List.length_cons]
      rw [ih _ (by simp at h ⊢; omega)]
      simp only [List.length_drop, List.length_cons, ceil8]
      omega

@[simp] theorem pack_length (bits : List Bool) : (pack bits).length = ceil8 bits.length :=
  packBits_length _ _ (Nat.le_refl _)

/-! ### tuple layout -/

def partKind : Part → Kind
  | .bit _ => .bit
  | .stat bs => .stat bs.length
  | .dyn _ => .dyn

def segKind : Seg → GKind
  | .bits run => .bits run.length
  | .stat bs => .stat bs.length
  | .dyn _ => .dyn

theorem group_kinds (ps : List Part) : (group ps).map segKind = groupKinds (ps.map partKind) := by
  induction ps with
  | nil => rfl
  | cons p ps ih =>
    cases p with
    | bit b =>
      simp only [group, List.map_cons, partKind, groupKinds, ← ih]
      cases hg : group ps with
      | nil => simp [segKind]
      | cons s ss => cases s <;> simp [segKind]
    | stat bs => simp [group, partKind, groupKinds, segKind, ih]
    | dyn bs => simp [group, partKind, groupKinds, segKind, ih]

theorem segHeadLen_kinds (ss : List Seg) : segHeadLen ss = gkindsLen (ss.map segKind) := by
  induction ss with
  | nil => rfl
  | cons s ss ih => cases s <;> simp [segHeadLen, gkindsLen, segKind, ih]

theorem heads_length (off : Nat) (ss : List Seg) (h : Bytes) :
    heads off ss = some h → h.length = segHeadLen ss := by
  induction ss generalizing off h with
  | nil => intro e; simp [heads] at e; subst e; rfl
  | cons s ss ih =>
    cases s with
    | bits run =>
      simp only [heads, Option.map_eq_some_iff, segHeadLen]
      rintro ⟨h', e, rfl⟩; simp [ih _ _ e]
    | stat bs =>
      simp only [heads, Option.map_eq_some_iff, segHeadLen]
      rintro ⟨h', e, rfl⟩; simp [ih _ _ e]
    | dyn bs =>
      simp only [heads, segHeadLen]
      split
      · simp only [Option.map_eq_some_iff]
        rintro ⟨h', e, rfl⟩; simp [ih _ _ e]
      · intro e; cases e

/-- total length of the tail bodies -/
def partsTailLen : List Part → Nat
  | [] => 0
  | .dyn bs :: ps => bs.length + partsTailLen ps
  | _ :: ps => partsTailLen ps

theorem tails_group_length (ps : List Part) : (tails (group ps)).length = partsTailLen ps := by
  induction ps with
  | nil => rfl
  | cons p ps ih =>
    cases p with
    | bit b =>
      simp only [group, partsTailLen, ← ih]
      cases hg : group ps with
      | nil => simp [tails]
      | cons s ss => cases s <;> simp [tails]
    | stat bs => simp [group, tails, partsTailLen, ih]
    | dyn bs => simp [group, tails, partsTailLen, ih]

/-- length of an assembled tuple: head block plus tail bodies -/
theorem assemble_length (ps : List Part) (bs : Bytes) (h : assemble ps = some bs) :
    bs.length = kindsHeadLen (ps.map partKind) + partsTailLen ps := by
  simp only [assemble, Option.map_eq_some_iff] at h
  obtain ⟨hd, e, rfl⟩ := h
  rw [List.length_append, heads_length _ _ _ e, tails_group_length, segHeadLen_kinds, group_kinds]
  rfl

theorem partsTailLen_of_no_dyn (ps : List Part) (h : ∀ p ∈ ps, partKind p ≠ .dyn) :
    partsTailLen ps = 0 := by
  induction ps with
  | nil => rfl
  | cons p ps ih =>
    cases p with
    | dyn bs => exact absurd rfl (h _ (List.mem_cons_self))
    | bit b => simpa [partsTailLen] using ih (fun q hq => h q (List.mem_cons_of_mem _ hq))
    | stat bs => simpa [partsTailLen] using ih (fun q hq => h q (List.mem_cons_of_mem _ hq))

/-! ### typed layer -/

theorem optMap_eq_some_cons {α β} (f : α → Option β) (a : α) (as : List α) (r : List β) :
    optMap f (a :: as) = some r ↔ ∃ b bs, f a = some b ∧ optMap f as = some bs ∧ r = b :: bs := by
  simp only [optMap]
  split
  · next b bs hb hbs => simp [hb, hbs, eq_comm]
  · next hne =>
    constructor
    · intro e; cases e
    · rintro ⟨b, bs, hb, hbs, _⟩; exact absurd hbs (hne b bs hb)

theorem optMap_map {α β γ} (f : α → Option β) (g : β → γ) (c : γ) (as : List α) (r : List β)
    (h : optMap f as = some r) (hg : ∀ a b, a ∈ as → f a = some b → g b = c) :
    r.map g = List.replicate as.length c := by
  induction as generalizing r with
  | nil => simp [optMap] at h; subst h; rfl
  | cons a as ih =>
    obtain ⟨b, bs, hb, hbs, rfl⟩ := (optMap_eq_some_cons f a as r).1 h
    simp only [List.map_cons, List.length_cons, List.replicate_succ]
    rw [hg a b List.mem_cons_self hb, ih bs hbs (fun a' b' ha' => hg a' b' (List.mem_cons_of_mem _ ha'))]

theorem optMap_length {α β} (f : α → Option β) (as : List α) (r : List β)
    (h : optMap f as = some r) : r.length = as.length := by
  induction as generalizing r with
  | nil => simp [optMap] at h; subst h; rfl
  | cons a as ih =>
    obtain ⟨b, bs, hb, hbs, rfl⟩ := (optMap_eq_some_cons f a as r).1 h
    simp [ih bs hbs]

theorem toPart_kind (t : Ty) (v : V) (bs : Bytes) (h : encode t v = some bs)
    (hl : isDynamic t = false → bs.length = staticLen t) : partKind (toPart t v bs) = kind t := by
  cases t with
  | bool => cases v <;> simp [encode] at h; simp [toPart, partKind, kind, mkKind]
  | _ =>
    all_goals
      simp only [toPart, kind, mkKind]
      split
      · simp [partKind]
      · rename_i hd
        simp only [Bool.not_eq_true] at hd
        simp [partKind, hl hd]

theorem encByte_length (vs : List V) (bs : Bytes) (h : optMap encByte vs = some bs) :
    bs.length = vs.length := optMap_length _ _ _ h

theorem kinds_no_dyn (ts : List Ty) (h : anyDynamic ts = false) : ∀ k ∈ kinds ts, k ≠ .dyn := by
  induction ts with
  | nil => simp [kinds]
  | cons t ts ih =>
    simp only [anyDynamic, Bool.or_eq_false_iff] at h
    intro k hk
    simp only [kinds, List.mem_cons] at hk
    rcases hk with rfl | hk
    · cases t <;> simp_all [mkKind]
    · exact ih h.2 k hk

theorem no_dyn_of_map {ps : List Part} {ks : List Kind} (h : ps.map partKind = ks)
    (hk : ∀ k ∈ ks, k ≠ .dyn) : ∀ p ∈ ps, partKind p ≠ .dyn := by
  intro p hp; exact hk _ (h ▸ List.mem_map_of_mem hp)

mutual
  /-- **encode_len_static**: the encoding of a static type has exactly `staticLen` bytes. -/
  theorem encode_len_static (t : Ty) (v : V) (bs : Bytes) (h : encode t v = some bs)
      (hs : isDynamic t = false) : bs.length = staticLen t := by
    match t, v with
    | .bool, .bool b => simp [encode] at h; subst h; rfl
    | .byte, .uint n =>
      simp only [encode] at h; split at h
      · cases h; rfl
      · cases h
    | .uint bits, .uint n =>
      simp only [encode] at h; split at h
      · cases h; simp [staticLen]
      · cases h
    | .address, .seq vs =>
      simp only [encode] at h; split at h
      · rename_i h32; rw [encByte_length _ _ h, h32]; rfl
      · cases h
    | .string, _ => simp [isDynamic] at hs
    | .darray _, _ => simp [isDynamic] at hs
    | .sarray e n, .seq vs =>
      simp only [isDynamic] at hs
      simp only [encode] at h; split at h
      · rename_i hn
        obtain ⟨ps, hps, hasm⟩ := Option.bind_eq_some_iff.1 h
        have hk : ps.map partKind = List.replicate vs.length (kind e) :=
          optMap_map _ partKind (kind e) vs ps hps (by
            intro a b _ hab
            obtain ⟨bs', he, rfl⟩ := Option.map_eq_some_iff.1 hab
            exact toPart_kind e a bs' he (fun _ => encode_len_static e a bs' he hs))
        have hnd : ∀ p ∈ ps, partKind p ≠ .dyn := no_dyn_of_map hk (by
          intro k hk'
          rw [List.eq_of_mem_replicate hk']
          cases e <;> simp_all [kind, mkKind])
        rw [assemble_length ps bs hasm, partsTailLen_of_no_dyn ps hnd, hk, hn.1]
        simp [staticLen, kind]
      · cases h
    | .tuple ts, .seq vs =>
      simp only [isDynamic] at hs
      simp only [encode] at h; split at h
      · obtain ⟨ps, hps, hasm⟩ := Option.bind_eq_some_iff.1 h
        have hk := encodeFields_kinds ts vs ps hps
        rw [assemble_length ps bs hasm, partsTailLen_of_no_dyn ps (no_dyn_of_map hk (kinds_no_dyn ts hs)), hk]
        simp [staticLen]
      · cases h
    | .bool, .uint _ | .bool, .seq _ | .byte, .bool _ | .byte, .seq _ | .uint _, .bool _
    | .uint _, .seq _ | .address, .bool _ | .address, .uint _ | .sarray _ _, .bool _
    | .sarray _ _, .uint _ | .tuple _, .bool _ | .tuple _, .uint _ => simp [encode] at h
  /-- the parts of a tuple have the kinds its field types prescribe -/
  theorem encodeFields_kinds (ts : List Ty) (vs : List V) (ps : List Part)
      (h : encodeFields ts vs = some ps) : ps.map partKind = kinds ts := by
    match ts, vs with
    | [], [] => simp [encodeFields] at h; subst h; rfl
    | t :: ts, v :: vs =>
      simp only [encodeFields] at h
      split at h
      · rename_i bs ps' hb hps
        cases h
        simp only [List.map_cons, kinds]
        rw [encodeFields_kinds ts vs ps' hps]
        congr 1
        exact toPart_kind t v bs hb (fun hd => encode_len_static t v bs hb hd)
      · cases h
    | [], _ :: _ => simp [encodeFields] at h
    | _ :: _, [] => simp [encodeFields] at h
end

/-! ### alias elimination does not change any encoding -/

mutual
  theorem isDynamic_norm (t : Ty) : isDynamic t.norm = isDynamic t := by
    match t with
    | .bool | .byte | .uint _ | .address | .string => simp [Ty.norm, isDynamic]
    | .sarray e n => simp [Ty.norm, isDynamic, isDynamic_norm e]
    | .darray e => simp [Ty.norm, isDynamic]
    | .tuple ts => simp [Ty.norm, isDynamic, anyDynamic_norm ts]
  theorem anyDynamic_norm (ts : List Ty) : anyDynamic (normList ts) = anyDynamic ts := by
    match ts with
    | [] => rfl
    | t :: ts => simp [normList, anyDynamic, isDynamic_norm t, anyDynamic_norm ts]
end

theorem normList_length (ts : List Ty) : (normList ts).length = ts.length := by
  induction ts with
  | nil => rfl
  | cons t ts ih => simp [normList, ih]

theorem toPart_norm (t : Ty) (v : V) (bs : Bytes) : toPart t.norm v bs = toPart t v bs := by
  cases t <;> cases v <;>
    simp only [toPart, Ty.norm, isDynamic, isDynamic_norm, anyDynamic_norm] <;> rfl

theorem toPart_norm_fn (t : Ty) (v : V) : toPart t.norm v = toPart t v := funext (toPart_norm t v)

theorem optMap_map_fun {α β γ} (f : α → Option β) (g : β → γ) (as : List α) :
    optMap (fun a => (f a).map g) as = (optMap f as).map (List.map g) := by
  induction as with
  | nil => rfl
  | cons a as ih =>
    simp only [optMap, ih]
    cases f a <;> cases optMap f as <;> rfl

theorem optMap_congr {α β} (f g : α → Option β) (as : List α) (h : ∀ a ∈ as, f a = g a) :
    optMap f as = optMap g as := by
  induction as with
  | nil => rfl
  | cons a as ih =>
    simp only [optMap, h a List.mem_cons_self, ih (fun x hx => h x (List.mem_cons_of_mem _ hx))]

theorem group_stat (bs : Bytes) :
    group (bs.map (fun b => Part.stat [b])) = bs.map (fun b => Seg.stat [b]) := by
  induction bs with
  | nil => rfl
  | cons b bs ih => simp [group, ih]

theorem heads_stat (off : Nat) (bs : Bytes) : heads off (bs.map (fun b => Seg.stat [b])) = some bs := by
  induction bs with
  | nil => rfl
  | cons b bs ih => simp [heads, ih]

theorem tails_stat (bs : Bytes) : tails (bs.map (fun b => Seg.stat [b])) = [] := by
  induction bs with
  | nil => rfl
  | cons b bs ih => simp [tails, ih]

/-- a tuple of single bytes is the byte string itself -/
theorem assemble_bytes (bs : Bytes) : assemble (bs.map (fun b => Part.stat [b])) = some bs := by
  simp [assemble, group_stat, heads_stat, tails_stat]

theorem encode_uint8_part (v : V) :
    (encode (.uint 8) v).map (toPart (.uint 8) v) = (encByte v).map (fun b => Part.stat [b]) := by
  cases v with
  | uint n =>
    simp only [encode, encByte, uintOk]
    by_cases h : n < 256
    · simp [h, toPart, isDynamic, beBytes, Nat.mod_eq_of_lt h]
    · simp [h]
  | bool b => simp [encode, encByte]
  | seq vs => simp [encode, encByte]

theorem encode_byte_uint8 (v : V) : encode (.uint 8) v = encode .byte v := by
  cases v with
  | uint n =>
    simp only [encode, uintOk]
    by_cases h : n < 256
    · simp [h, beBytes, Nat.mod_eq_of_lt h]
    · simp [h]
  | bool b => simp [encode]
  | seq vs => simp [encode]

theorem encode_bytes_elems (vs : List V) :
    (optMap (fun v => (encode (.uint 8) v).map (toPart (.uint 8) v)) vs).bind assemble =
      optMap encByte vs := by
  rw [optMap_congr _ _ vs (fun v _ => encode_uint8_part v), optMap_map_fun]
  cases optMap encByte vs with
  | none => rfl
  | some bs => simp [assemble_bytes]

mutual
  /-- **encode_norm**: `byte`/`uint8`, `address`/`uint8[32]`, `string`/`uint8[]` are the same
      type as far as encoding goes, at any depth. -/
  theorem encode_norm (t : Ty) (v : V) : encode t.norm v = encode t v := by
    match t with
    | .bool => rfl
    | .uint _ => rfl
    | .byte => exact encode_byte_uint8 v
    | .address =>
      cases v with
      | seq vs =>
        simp only [Ty.norm, encode, encode_bytes_elems]
        by_cases h : vs.length = 32 <;> simp [h, lim16]
      | bool b => simp [Ty.norm, encode]
      | uint n => simp [Ty.norm, encode]
    | .string =>
      cases v with
      | seq vs => simp only [Ty.norm, encode, encode_bytes_elems]
      | bool b => simp [Ty.norm, encode]
      | uint n => simp [Ty.norm, encode]
    | .sarray e n =>
      cases v with
      | seq vs =>
        simp only [Ty.norm, encode]
        rw [optMap_congr _ (fun v => (encode e v).map (toPart e v)) vs
          (fun v _ => by rw [encode_norm e v, toPart_norm_fn])]
      | bool b => simp [Ty.norm, encode]
      | uint n => simp [Ty.norm, encode]
    | .darray e =>
      cases v with
      | seq vs =>
        simp only [Ty.norm, encode]
        rw [optMap_congr _ (fun v => (encode e v).map (toPart e v)) vs
          (fun v _ => by rw [encode_norm e v, toPart_norm_fn])]
      | bool b => simp [Ty.norm, encode]
      | uint n => simp [Ty.norm, encode]
    | .tuple ts =>
      cases v with
      | seq vs => simp only [Ty.norm, encode, normList_length, encodeFields_norm ts vs]
      | bool b => simp [Ty.norm, encode]
      | uint n => simp [Ty.norm, encode]
  theorem encodeFields_norm (ts : List Ty) (vs : List V) :
      encodeFields (normList ts) vs = encodeFields ts vs := by
    match ts, vs with
    | [], [] => rfl
    | [], _ :: _ => simp [normList, encodeFields]
    | _ :: _, [] => simp [normList, encodeFields]
    | t :: ts, v :: vs =>
      simp only [normList, encodeFields, encode_norm t v, encodeFields_norm ts vs, toPart_norm]
end

end PyTealV.Arc4
