/-
  C02Gen (part 6): the `call` case and the induction over the fuel for whole programs, for both
  calling conventions (`PCtx.fp`).

  * `PCtx`, `ProgOK`, `RoutOK`: a source program, the multi-routine graph program generated from
    it, and what is known about every routine graph (prologue block, `ShapeR` of the wrapped
    body, arity typing) and about every activation (scratch convention: the frame has no `proto`;
    frame-pointer convention: the frame has `proto n r`, the arguments are the top of the
    activation's stack base, and the source semantics' parameter cells hold them — `pInv`; the
    by-reference arguments are copied into their scratch slots by the prologue — `refCopies_run`;
    by-reference discipline: the reference cells of the active routines are valid — `PCtx.vinv`);
  * `callee_run`: from the `callsub` instruction, through the callee's prologue and body, back to
    the instruction after the `callsub` (uses the induction hypothesis at the callee — the fuel of
    `Src.eval` decreases at every call, so recursion needs no extra argument);
  * `CallFrame`: what the ops around the `callsub` (nothing, or the spill / restore code of a
    re-entrant call) have to do; `CallInv`: the caller's invariant on the source world survives the
    call; `case_call` is proved relative to a `FrameProvider` and `CallInv`;
  * `sound_all`: every routine of the program matches `Src.eval`.
-/
import PyTealV.Proofs.C02GenSem
import PyTealV.Proofs.C02GenWide
import PyTealV.Proofs.C02GenSrc
namespace PyTealV.Proofs.C02Gen
open PyTealV PyTealV.Avm PyTealV.Src PyTealV.Comp PyTealV.Models.Fragment PyTealV.Models.FragmentR
open PyTealV.Check (isSimple)
open PyTealV.Proofs.Shape (ovf Blk isUnm retOut)

structure PCtx where
  cx : Ctx
  p : Prog
  Pg : PProg
  version : Nat
  fp : Bool := false
  dyn : Bool := false
  strict : Bool := false

def PCtx.ign (P : PCtx) : List Nat := ignOf P.fp P.p P.strict

/-- the permitted deviations: the stack limit, and with run-time addressed slots outside the
    by-reference discipline (`P.strict`) the range check -/
def PCtx.dev (P : PCtx) : Fail → Prop := if P.dyn && !P.strict then devDyn else devOvf

/-- the slots the invariants on the source world look at -/
def PCtx.prot (P : PCtx) : List Nat := if P.strict then P.ign ++ allRefSlots P.p else P.ign

/-- by-reference discipline: the reference cells of the active routines `A` are valid -/
def PCtx.vinv (P : PCtx) (A : List Nat) : World → Prop := if P.strict then VSet P.p A else noInv

/-- the `frame_dig; store` pairs that copy the by-reference arguments from the frame into their
    scratch slots (frame-pointer convention), last parameter first -/
def refCopies (sd : SubDef) : List Instr :=
  (((List.range sd.params.length).zip sd.params).reverse.filterMap
    (fun (x : Nat × ParamKind × Var) => if x.2.1 == ParamKind.ref then
      some [Instr.frameDig ((x.1 : Int) - (sd.params.length : Int)), Instr.store x.2.2] else none)).flatten

theorem PCtx.dev_ovf (P : PCtx) : P.dev ovfF := by
  unfold PCtx.dev
  split
  · exact .inl rfl
  · rfl

def mainCfg (P : PCtx) : RCfg :=
  { version := P.version, inSub := false, callees := calleesOf P.p, markIndex := false }

def subCfg (P : PCtx) (sd : SubDef) : RCfg :=
  { version := P.version, inSub := true, framePointers := P.fp,
    frameParams := if P.fp then fpParams sd else [], callees := calleesOf P.p,
    reenters := sd.reenters, localSlots := spillSlotsC P.fp sd, markIndex := false }

/-- `compileSubroutine`: a body without return is wrapped -/
def wrapBody (sd : SubDef) : Expr :=
  if hasReturn sd.body then sd.body
  else if sd.hasRet then .ret (some sd.body) else .seq [sd.body, .ret none]

/-- the prologue: scratch-slot convention — store the arguments, last one first;
    frame-pointer convention — `proto`, then the by-reference arguments are copied to their slots -/
def prologue (fp : Bool) (sd : SubDef) : List Instr :=
  if fp then .proto sd.params.length (if sd.hasRet then 1 else 0) :: refCopies sd
  else (sd.params.reverse.map (·.2)).map Instr.store

/-- what is known about the graph of subroutine `f` -/
structure SubOK (P : PCtx) (f : Nat) (sd : SubDef) : Prop where
  look : ∃ G sf bs, P.Pg.subs.lookup (subLabel f) = some (G, sf) ∧ Blk G sf (prologue P.fp sd) (.next bs) ∧
    ShapeR G (subCfg P sd) (wrapBody sd) bs 0 none
  wt : wtR (subK P.fp P.p sd P.dyn P.strict) false true (if sd.hasRet then 1 else 0) sd.body = true
  pnodup : (sd.params.map (·.2)).Nodup
  p256 : P.fp = false → ∀ kv ∈ sd.params, kv.2 < 256
  pval : P.fp = true → P.strict = false → ∀ kv ∈ sd.params, kv.1 = ParamKind.val
  pign : P.fp = true → ∀ kv ∈ sd.params, kv.1 = ParamKind.val → kv.2 ∈ P.ign
  pref : P.fp = true → ∀ kv ∈ sd.params, kv.1 = ParamKind.ref → kv.2 < 256 ∧ kv.2 ∉ P.ign
  plocal : P.fp = true → ∀ kv ∈ sd.params, kv.2 ∈ sd.locals
  snodup : (spillSlotsC P.fp sd).Nodup
  s256 : ∀ s ∈ spillSlotsC P.fp sd, s < 256
  sset : ∀ x, x ∉ P.ign → (x ∈ sd.locals ↔ x ∈ spillSlotsC P.fp sd)
  snign : ∀ x ∈ spillSlotsC P.fp sd, x ∉ P.ign

/-- routine `f` has a graph in the program (a certificate holds the reachable routines only) -/
def Present (P : PCtx) (f : Nat) : Prop := (P.Pg.subs.lookup (subLabel f)).isSome = true

/-- every declared routine *that has a graph* has the properties `SubOK` -/
def ProgOK (P : PCtx) : Prop := ∀ f sd, findSub P.p f = some sd → Present P f → SubOK P f sd

/-- frame-pointer convention: the parameter cells of the source semantics hold the arguments
    `st` (last argument first, as on the stack) of this activation -/
def pInv (sd : SubDef) (st : List Val) : World → Prop :=
  fun w => ∀ pr ∈ (sd.params.map (·.2)).zip st.reverse, getSlot w.scratch pr.1 = pr.2

/-- a routine activation of the program: its machine context, generator configuration, typing
    context and the `cur` field of the source environment -/
inductive RoutOK (P : PCtx) : MCtx → RCfg → RK → Option Nat → Prop
  | main {X : MCtx} : X.Pg = P.Pg → X.r = none → X.ign = P.ign → X.inv = P.vinv X.act → X.base = [] → X.dev = P.dev →
      X.prot = P.prot →
      RoutOK P X (mainCfg P) (mainK P.fp P.p P.dyn P.strict) none
  | sub {X : MCtx} {f : Nat} {sd : SubDef} {fr : GFrame} {cs' : List GFrame} : X.Pg = P.Pg → P.fp = false →
      findSub P.p f = some sd → X.r = some (subLabel f) → X.cs = fr :: cs' → fr.proto = none →
      X.ign = P.ign → X.inv = P.vinv X.act → X.dev = P.dev → X.prot = P.prot → f ∈ X.act →
      RoutOK P X (subCfg P sd) (subK P.fp P.p sd P.dyn P.strict) (some f)
  | subFp {X : MCtx} {f : Nat} {sd : SubDef} {fr : GFrame} {cs' : List GFrame} {st σc : List Val} :
      X.Pg = P.Pg → P.fp = true →
      findSub P.p f = some sd → X.r = some (subLabel f) → X.cs = fr :: cs' →
      fr.proto = some (sd.params.length, if sd.hasRet then 1 else 0) →
      X.base = st ++ σc → st.length = sd.params.length → fr.height = X.base.length →
      X.ign = P.ign → X.inv = (fun w => pInv sd st w ∧ P.vinv X.act w) → X.dev = P.dev → X.prot = P.prot → f ∈ X.act →
      RoutOK P X (subCfg P sd) (subK P.fp P.p sd P.dyn P.strict) (some f)

theorem RoutOK.pg {P : PCtx} {X cfg K cur} (h : RoutOK P X cfg K cur) : X.Pg = P.Pg := by
  cases h <;> assumption

theorem RoutOK.ign {P : PCtx} {X cfg K cur} (h : RoutOK P X cfg K cur) : X.ign = P.ign := by
  cases h <;> assumption

theorem RoutOK.callees {P : PCtx} {X cfg K cur} (h : RoutOK P X cfg K cur) : cfg.callees = calleesOf P.p := by
  cases h <;> rfl

/-! projections of the typing contexts -/
theorem mainK_callees {fp p dyn strict} : (mainK fp p dyn strict).callees = calleesOf p := by
  unfold mainK; split <;> rfl
theorem subK_callees {fp p sd dyn strict} : (subK fp p sd dyn strict).callees = calleesOf p := by
  unfold subK; (repeat' split) <;> rfl
theorem mainK_dyn {fp p dyn strict} : (mainK fp p dyn strict).dyn = dyn := by
  unfold mainK; split <;> rfl
theorem subK_dyn {fp p sd dyn strict} : (subK fp p sd dyn strict).dyn = dyn := by
  unfold subK; (repeat' split) <;> rfl
theorem subK_rv {fp p sd dyn strict} : (subK fp p sd dyn strict).rv = sd.hasRet := by
  unfold subK; (repeat' split) <;> rfl
theorem mainK_rv {fp p dyn strict} : (mainK fp p dyn strict).rv = true := by
  unfold mainK; split <;> rfl
theorem mainK_strictB {fp p dyn strict} : (mainK fp p dyn strict).strict = strict := by
  cases strict <;> rfl
theorem subK_strictB {fp p sd dyn strict} : (subK fp p sd dyn strict).strict = strict := by
  cases strict <;> cases fp <;> rfl
theorem mainK_ign {fp p dyn strict} : (mainK fp p dyn strict).ign = ignOf fp p strict := by
  cases strict <;> rfl
theorem subK_ign {fp p sd dyn strict} : (subK fp p sd dyn strict).ign = ignOf fp p strict := by
  cases strict <;> cases fp <;> rfl
theorem mainK_own {fp p dyn strict} : (mainK fp p dyn strict).own = [] := by
  unfold mainK; split <;> rfl
theorem subK_own_false {p sd dyn strict} : (subK false p sd dyn strict).own = [] := by
  cases strict <;> rfl

/-- under the by-reference discipline: the tables of the strict typing contexts -/
theorem mainK_refAll {fp p dyn} : (mainK fp p dyn true).refAll = allRefSlots p := rfl
theorem subK_refAll {fp p sd dyn} : (subK fp p sd dyn true).refAll = allRefSlots p := by cases fp <;> rfl
theorem mainK_parAll {fp p dyn} : (mainK fp p dyn true).parAll = allParamSlots p := rfl
theorem subK_parAll {fp p sd dyn} : (subK fp p sd dyn true).parAll = allParamSlots p := by cases fp <;> rfl
theorem mainK_kinds {fp p dyn} : (mainK fp p dyn true).kinds = kindsOf p := rfl
theorem subK_kinds {fp p sd dyn} : (subK fp p sd dyn true).kinds = kindsOf p := by cases fp <;> rfl
theorem mainK_ref {fp p dyn} : (mainK fp p dyn true).ref = [] := rfl
theorem subK_ref {fp p sd dyn} : (subK fp p sd dyn true).ref = refSlots sd := by cases fp <;> rfl

theorem allValSlots_params {p : Prog} {v : Nat} (h : v ∈ allValSlots p) : v ∈ allParamSlots p := by
  obtain ⟨sd, hsd, hv⟩ := List.mem_flatMap.mp h
  refine List.mem_flatMap.mpr ⟨sd, hsd, ?_⟩
  unfold valSlots at hv
  obtain ⟨kv, hkv, rfl⟩ := List.mem_map.mp hv
  exact List.mem_map.mpr ⟨kv, (List.mem_filter.mp hkv).1, rfl⟩

/-- the ignored slots are parameter slots -/
theorem ign_params {P : PCtx} {v : Nat} (h : v ∈ P.ign) : v ∈ allParamSlots P.p := by
  unfold PCtx.ign ignOf at h
  split at h
  · split at h
    · exact allValSlots_params h
    · exact h
  · cases h

theorem RoutOK.kcallees {P : PCtx} {X cfg K cur} (h : RoutOK P X cfg K cur) : K.callees = calleesOf P.p := by
  cases h with
  | main => exact mainK_callees
  | sub => exact subK_callees
  | subFp => exact subK_callees

theorem RoutOK.kign {P : PCtx} {X cfg K cur} (h : RoutOK P X cfg K cur) : K.ign = X.ign := by
  cases h with
  | main _ _ hi => rw [hi]; exact mainK_ign
  | sub _ hfp _ _ _ _ hi => rw [hi]; exact subK_ign
  | subFp _ hfp _ _ _ _ _ _ _ hi => rw [hi]; exact subK_ign

theorem RoutOK.dev {P : PCtx} {X cfg K cur} (h : RoutOK P X cfg K cur) : X.dev = P.dev := by
  cases h <;> assumption

theorem RoutOK.prot {P : PCtx} {X cfg K cur} (h : RoutOK P X cfg K cur) : X.prot = P.prot := by
  cases h <;> assumption

theorem RoutOK.kdyn {P : PCtx} {X cfg K cur} (h : RoutOK P X cfg K cur) : K.dyn = P.dyn := by
  cases h with
  | main => exact mainK_dyn
  | sub => exact subK_dyn
  | subFp => exact subK_dyn

theorem RoutOK.kstrict {P : PCtx} {X cfg K cur} (h : RoutOK P X cfg K cur) : K.strict = P.strict := by
  cases h with
  | main => exact mainK_strictB
  | sub => exact subK_strictB
  | subFp => exact subK_strictB

/-- under the by-reference discipline the invariant of an activation contains the validity of the
    reference cells of the active routines -/
theorem RoutOK.inv_vset {P : PCtx} {X cfg K cur} (h : RoutOK P X cfg K cur) (hs : P.strict = true) {w : World}
    (hw : X.inv w) : VSet P.p X.act w := by
  cases h with
  | main _ _ _ hinv => rw [hinv, PCtx.vinv, hs] at hw; exact hw
  | sub _ _ _ _ _ _ _ hinv => rw [hinv, PCtx.vinv, hs] at hw; exact hw
  | subFp _ _ _ _ _ _ _ _ _ _ hinv =>
    rw [hinv] at hw
    have := hw.2
    rw [PCtx.vinv, hs] at this
    exact this

/-- the reference cells a routine may dereference are those of its own activation -/
theorem RoutOK.kref {P : PCtx} {X cfg K cur} (h : RoutOK P X cfg K cur) (hs : P.strict = true) :
    ∀ v, v ∈ K.ref → ∃ f sd, f ∈ X.act ∧ findSub P.p f = some sd ∧ v ∈ refSlots sd := by
  intro v hv
  cases h with
  | main => rw [hs, mainK_ref] at hv; cases hv
  | @sub f sd _ _ _ _ hsd _ _ _ _ _ _ _ hact => rw [hs, subK_ref] at hv; exact ⟨f, sd, hact, hsd, hv⟩
  | @subFp f sd _ _ _ _ _ _ hsd _ _ _ _ _ _ _ _ _ _ hact => rw [hs, subK_ref] at hv; exact ⟨f, sd, hact, hsd, hv⟩

theorem RoutOK.krefAll {P : PCtx} {X cfg K cur} (h : RoutOK P X cfg K cur) (hs : P.strict = true) :
    K.refAll = allRefSlots P.p := by
  cases h with
  | main => rw [hs]; exact mainK_refAll
  | sub => rw [hs]; exact subK_refAll
  | subFp => rw [hs]; exact subK_refAll

/-- with run-time addressed slots: the range failures are permitted deviations, or the by-reference
    discipline holds -/
theorem RoutOK.fdyn {P : PCtx} {X cfg K cur} (h : RoutOK P X cfg K cur) :
    K.dyn = true → (K.ign = [] ∨ K.strict = true) → (X.dev rangeL ∧ X.dev rangeS ∧ X.prot = [] ∧ X.ign = []) ∨
      (K.strict = true ∧ ∀ w, X.inv w → ∀ v, v ∈ K.ref →
        ∃ s, getSlot w.scratch v = .u s ∧ s < 256 ∧ s ∉ X.prot ∧ s ∉ X.ign) := by
  intro hd hI
  cases hs : P.strict with
  | false =>
    refine .inl ?_
    have hI' : K.ign = [] := by
      rcases hI with hI | hI
      · exact hI
      · rw [h.kstrict, hs] at hI; cases hI
    rw [h.dev, h.prot, PCtx.dev, PCtx.prot, hs, ← h.kdyn, hd, ← h.ign, ← h.kign, hI']
    exact ⟨.inr (.inl rfl), .inr (.inr rfl), rfl, rfl⟩
  | true =>
    refine .inr ⟨by rw [h.kstrict, hs], fun w hw v hv => ?_⟩
    obtain ⟨f, sd, hact, hsd, hvs⟩ := h.kref hs v hv
    obtain ⟨s, h1, h2, h3⟩ := h.inv_vset hs hw f hact sd hsd v hvs
    refine ⟨s, h1, h2, ?_, ?_⟩
    · rw [h.prot, PCtx.prot, hs]
      simp only [if_true, List.mem_append, not_or]
      exact ⟨fun hh => h3 (ign_params hh), fun hh => h3 (allRefSlots_params hh)⟩
    · rw [h.ign]
      exact fun hh => h3 (ign_params hh)

theorem RoutOK.fprot {P : PCtx} {X cfg K cur} (h : RoutOK P X cfg K cur) : K.strict = false → X.prot = X.ign := by
  intro hk
  rw [h.kstrict] at hk
  rw [h.prot, h.ign, PCtx.prot, hk]
  rfl

theorem RoutOK.fprotS {P : PCtx} {X cfg K cur} (h : RoutOK P X cfg K cur) :
    ∀ v, v ∉ K.ign → K.refAll.contains v = false → v ∉ X.prot := by
  intro v hv hr
  rw [h.kign, h.ign] at hv
  cases hs : P.strict with
  | false => rw [h.prot, PCtx.prot, hs]; exact hv
  | true =>
    rw [h.prot, PCtx.prot, hs]
    rw [h.krefAll hs] at hr
    simp only [if_true, List.mem_append, not_or]
    exact ⟨hv, by simpa using hr⟩

/-- the current routine of an activation has a graph -/
theorem RoutOK.present {P : PCtx} {X cfg K f} (h : RoutOK P X cfg K (some f)) : Present P f := by
  have hG := X.hG
  have hr : X.r = some (subLabel f) := by cases h <;> assumption
  rw [hr, h.pg] at hG
  simp only [PProg.graphOf, Option.map_eq_some_iff] at hG
  obtain ⟨a, ha, _⟩ := hG
  simp only [Present, ha, Option.isSome_some]

/-! ### frame-pointer convention: reading a parameter -/

theorem beq_val {k : ParamKind} (h : (k == ParamKind.val) = true) : k = ParamKind.val := by
  cases k with
  | val => rfl
  | ref => exact absurd h (by decide)

theorem beq_ref {k : ParamKind} (h : (k == ParamKind.ref) = true) : k = ParamKind.ref := by
  cases k with
  | ref => rfl
  | val => exact absurd h (by decide)

/-- `frame_dig (i - n)` at position `j` of a block pushes argument `i` of the activation -/
theorem frameDig_step_at {cx : Ctx} {X : MCtx} {fr : GFrame} {cs' : List GFrame} {n r i : Nat} {st σc : List Val} {val : Val}
    (hcs : X.cs = fr :: cs') (hpr : fr.proto = some (n, r)) (hbase : X.base = st ++ σc) (hst : st.length = n)
    (hh : fr.height = X.base.length) (hi : i < n) (hval : st.reverse[i]? = some val)
    (b j : Nat) (blk : Block) (m : MS) (hb : X.G[b]? = some blk) (hx : blk.ops[j]? = some (.frameDig ((i : Int) - (n : Int)))) :
    gstepP cx X.Pg (X.st ⟨b, j⟩ (X.onBase m)) =
      (match pushV (X.onBase m) val with
       | .ok m' => .next (X.st ⟨b, j + 1⟩ m')
       | .halt o => .halt o) := by
  have hbelow : belowArgsG fr ((i : Int) - (n : Int)) = false := by
    simp only [belowArgsG, hpr, decide_eq_false_iff_not, not_and]
    intro _
    omega
  have hidx : (fr.height : Int) + ((i : Int) - (n : Int)) = ((σc.length + i : Nat) : Int) := by
    rw [hh, hbase]; simp only [List.length_append, hst]; omega
  have hlt : ¬ (σc.length + i ≥ (m.stack ++ X.base).length) := by
    rw [hbase]; simp only [List.length_append, hst]; omega
  have hget : (m.stack ++ X.base)[fromBottom (m.stack ++ X.base) (σc.length + i)]? = some val := by
    rw [List.getElem?_reverse (by rw [hst]; exact hi)] at hval
    simp only [fromBottom, hbase, List.length_append, hst]
    rw [List.getElem?_append_right (by omega), List.getElem?_append_left (by omega)]
    rw [← hval, hst]
    congr 1
    omega
  have hneg : ¬ (((σc.length + i : Nat) : Int) < 0) := by omega
  simp only [gstepP, MCtx.st, MCtx.onBase, X.hG, hb, hx, execSimple, hcs, hbelow,
    Bool.false_eq_true, if_false, hidx, Int.toNat_natCast, hneg]
  rw [if_neg hlt, hget]
  rfl

theorem frameDig_step {cx : Ctx} {X : MCtx} {fr : GFrame} {cs' : List GFrame} {n r i : Nat} {st σc : List Val} {val : Val}
    (hcs : X.cs = fr :: cs') (hpr : fr.proto = some (n, r)) (hbase : X.base = st ++ σc) (hst : st.length = n)
    (hh : fr.height = X.base.length) (hi : i < n) (hval : st.reverse[i]? = some val)
    (b : Nat) (blk : Block) (m : MS) (hb : X.G[b]? = some blk) (hops : blk.ops = [.frameDig ((i : Int) - (n : Int))]) :
    gstepP cx X.Pg (X.st ⟨b, 0⟩ (X.onBase m)) =
      (match pushV (X.onBase m) val with
       | .ok m' => .next (X.st ⟨b, 1⟩ m')
       | .halt o => .halt o) :=
  frameDig_step_at hcs hpr hbase hst hh hi hval b 0 blk m hb (by rw [hops]; rfl)

/-- the entries of `fpParams`: parameter `i` is read with `frame_dig (i - n)` -/
theorem getElem?_lt {α} {l : List α} {i : Nat} {x : α} (h : l[i]? = some x) : i < l.length := by
  rcases Nat.lt_or_ge i l.length with h' | h'
  · exact h'
  · rw [List.getElem?_eq_none h'] at h; cases h

theorem mem_fpParams {sd : SubDef} {pr : Var × Int} (h : pr ∈ fpParams sd) :
    ∃ i k, i < sd.params.length ∧ sd.params[i]? = some (k, pr.1) ∧ pr.2 = (i : Int) - (sd.params.length : Int) := by
  unfold fpParams at h
  obtain ⟨⟨i, k, v⟩, hmem, hsome⟩ := List.mem_filterMap.mp h
  obtain ⟨j, hj⟩ := List.mem_iff_getElem?.mp hmem
  rw [List.getElem?_zip_eq_some] at hj
  obtain ⟨h1, h2⟩ := hj
  have hlt : j < sd.params.length := getElem?_lt h2
  have hji : j = i := by
    obtain ⟨_, hh⟩ := List.getElem?_eq_some_iff.mp h1
    simpa using hh
  subst hji
  simp only [] at hsome
  split at hsome
  · simp only [Option.some.injEq] at hsome
    subst hsome
    exact ⟨j, k, hlt, h2, rfl⟩
  · cases hsome

theorem fpParams_of_param {sd : SubDef} {i : Nat} {v : Var} (h : sd.params[i]? = some (ParamKind.val, v)) :
    (v, (i : Int) - (sd.params.length : Int)) ∈ fpParams sd := by
  unfold fpParams
  have hlt : i < sd.params.length := getElem?_lt h
  refine List.mem_filterMap.mpr ⟨(i, ParamKind.val, v), ?_, by simp only []; rw [if_pos (by decide)]⟩
  refine List.mem_iff_getElem?.mpr ⟨i, ?_⟩
  rw [List.getElem?_zip_eq_some]
  refine ⟨?_, h⟩
  rw [List.getElem?_eq_some_iff]
  exact ⟨by simpa using hlt, by simp⟩

/-! ### frame-pointer convention: the by-reference arguments are copied into their slots -/

/-- the by-reference parameters with their positions, last one first -/
def refPairs (sd : SubDef) : List (Nat × Var) :=
  ((List.range sd.params.length).zip sd.params).reverse.filterMap
    (fun (x : Nat × ParamKind × Var) => if x.2.1 == ParamKind.ref then some (x.1, x.2.2) else none)

theorem refCopies_eq (sd : SubDef) : refCopies sd =
    (refPairs sd).flatMap (fun x => [Instr.frameDig ((x.1 : Int) - (sd.params.length : Int)), Instr.store x.2]) := by
  unfold refCopies refPairs
  generalize ((List.range sd.params.length).zip sd.params).reverse = l
  induction l with
  | nil => rfl
  | cons x l ih =>
    by_cases h : (x.2.1 == ParamKind.ref) = true
    · simp only [List.filterMap_cons, h, if_true, List.flatten_cons, List.flatMap_cons, ih]
    · simp only [List.filterMap_cons, h, Bool.false_eq_true, if_false, ih]

theorem mem_refPairs {sd : SubDef} {x : Nat × Var} (h : x ∈ refPairs sd) :
    x.1 < sd.params.length ∧ sd.params[x.1]? = some (ParamKind.ref, x.2) := by
  unfold refPairs at h
  obtain ⟨⟨i, k, v⟩, hmem, hsome⟩ := List.mem_filterMap.mp h
  obtain ⟨j, hj⟩ := List.mem_iff_getElem?.mp (List.mem_reverse.mp hmem)
  rw [List.getElem?_zip_eq_some] at hj
  obtain ⟨h1, h2⟩ := hj
  have hlt : j < sd.params.length := getElem?_lt h2
  have hji : j = i := by
    obtain ⟨_, hh⟩ := List.getElem?_eq_some_iff.mp h1
    simpa using hh
  subst hji
  simp only [] at hsome
  split at hsome
  · rename_i hk
    simp only [Option.some.injEq] at hsome
    subst hsome
    exact ⟨hlt, by rw [h2, beq_ref hk]⟩
  · cases hsome

theorem refPairs_of_param {sd : SubDef} {i : Nat} {v : Var} (h : sd.params[i]? = some (ParamKind.ref, v)) :
    (i, v) ∈ refPairs sd := by
  unfold refPairs
  have hlt : i < sd.params.length := getElem?_lt h
  refine List.mem_filterMap.mpr ⟨(i, ParamKind.ref, v), List.mem_reverse.mpr ?_, by simp only []; rw [if_pos (by decide)]⟩
  refine List.mem_iff_getElem?.mpr ⟨i, ?_⟩
  rw [List.getElem?_zip_eq_some]
  refine ⟨?_, h⟩
  rw [List.getElem?_eq_some_iff]
  exact ⟨by simpa using hlt, by simp⟩

theorem sublist_filterMap_map {α β γ} (f : α → Option β) (g : β → γ) (h : α → γ)
    (hfg : ∀ x y, f x = some y → g y = h x) : ∀ l : List α, ((l.filterMap f).map g).Sublist (l.map h)
  | [] => .slnil
  | x :: l => by
    simp only [List.filterMap_cons, List.map_cons]
    cases hx : f x with
    | none => exact .cons _ (sublist_filterMap_map f g h hfg l)
    | some y =>
      simp only [List.map_cons]
      rw [hfg x y hx]
      exact .cons_cons _ (sublist_filterMap_map f g h hfg l)

theorem refPairs_nodup {sd : SubDef} (hnd : (sd.params.map (·.2)).Nodup) : ((refPairs sd).map (·.2)).Nodup := by
  have hsub := sublist_filterMap_map
    (fun (x : Nat × ParamKind × Var) => if x.2.1 == ParamKind.ref then some (x.1, x.2.2) else none)
    (fun (y : Nat × Var) => y.2) (fun x => x.2.2)
    (fun x y hxy => by
      split at hxy
      · cases hxy; rfl
      · cases hxy)
    ((List.range sd.params.length).zip sd.params).reverse
  refine List.Nodup.sublist hsub ?_
  rw [List.map_reverse]
  refine nodup_reverse_of ?_
  have : ((List.range sd.params.length).zip sd.params).map (fun x => x.2.2) = sd.params.map (·.2) := by
    rw [show (fun (x : Nat × ParamKind × Var) => x.2.2) = (fun (y : ParamKind × Var) => y.2) ∘ Prod.snd from rfl,
      ← List.map_map, List.map_snd_zip (by simp)]
  rw [this]
  exact hnd

/-- the copies, run on the machine: every pair `frame_dig; store` moves one argument into its
    slot (unless the operand stack is full) -/
theorem refCopies_run {cx : Ctx} {X : MCtx} {fr : GFrame} {cs' : List GFrame} {n r : Nat} {st σc : List Val}
    (hcs : X.cs = fr :: cs') (hpr : fr.proto = some (n, r)) (hbase : X.base = st ++ σc) (hst : st.length = n)
    (hh : fr.height = X.base.length) {b : Nat} {blk : Block} (hb : X.G[b]? = some blk) {ic : List Nat}
    {bcs : List Bytes} :
    ∀ (L : List (Nat × Var)) (pre : List Instr) (wm : World),
      blk.ops = pre ++ L.flatMap (fun x => [Instr.frameDig ((x.1 : Int) - (n : Int)), Instr.store x.2]) →
      (∀ x ∈ L, x.1 < n ∧ x.2 < 256) →
      HaltsP cx X.Pg (X.st ⟨b, pre.length⟩ (X.onBase ⟨[], ic, bcs, wm⟩)) (.fail ovfF) ∨
      ReachP cx X.Pg (X.st ⟨b, pre.length⟩ (X.onBase ⟨[], ic, bcs, wm⟩))
        (X.st ⟨b, blk.ops.length⟩ (X.onBase ⟨[], ic, bcs,
          { wm with scratch := bindAll (L.map (fun x => (x.2, (st.reverse[x.1]?).getD (.u 0)))) wm.scratch }⟩))
  | [], pre, wm, hops, _ => by
    simp only [List.flatMap_nil, List.append_nil] at hops
    rw [hops]
    exact .inr (.refl _)
  | (i, v) :: L, pre, wm, hops, hL => by
    obtain ⟨hi, hv⟩ := hL (i, v) (List.mem_cons_self ..)
    simp only [List.flatMap_cons, List.cons_append, List.nil_append] at hops
    have hx1 : blk.ops[pre.length]? = some (.frameDig ((i : Int) - (n : Int))) := by simp [hops]
    have hx2 : blk.ops[pre.length + 1]? = some (.store v) := by
      rw [hops, List.getElem?_append_right (by omega)]
      simp
    have hlt : i < st.reverse.length := by rw [List.length_reverse, hst]; exact hi
    have hval : st.reverse[i]? = some st.reverse[i] := List.getElem?_eq_getElem hlt
    have s1 := frameDig_step_at (cx := cx) hcs hpr hbase hst hh hi hval b pre.length blk ⟨[], ic, bcs, wm⟩ hb hx1
    by_cases hfull : (X.onBase ⟨[], ic, bcs, wm⟩).stack.length < maxStack
    · simp only [pushV, hfull, if_true] at s1
      have s2 : gstepP cx X.Pg (X.st ⟨b, pre.length + 1⟩ ⟨st.reverse[i] :: (X.onBase ⟨[], ic, bcs, wm⟩).stack, ic, bcs, wm⟩) =
          .next (X.st ⟨b, pre.length + 1 + 1⟩ (X.onBase ⟨[], ic, bcs, { wm with scratch := setSlot wm.scratch v st.reverse[i] }⟩)) := by
        refine step_op hb hx2 ?_
        simp only [execSimple, hv, if_true, MCtx.onBase, List.nil_append]
      have hops' : blk.ops = (pre ++ [Instr.frameDig ((i : Int) - (n : Int)), Instr.store v]) ++
          L.flatMap (fun x => [Instr.frameDig ((x.1 : Int) - (n : Int)), Instr.store x.2]) := by
        rw [hops]; simp
      have ih := refCopies_run hcs hpr hbase hst hh hb (cx := cx) (ic := ic) (bcs := bcs) L _
        { wm with scratch := setSlot wm.scratch v st.reverse[i] } hops'
        (fun x hx => hL x (List.mem_cons_of_mem _ hx))
      have hlen2 : (pre ++ [Instr.frameDig ((i : Int) - (n : Int)), Instr.store v]).length = pre.length + 1 + 1 := by simp
      rw [hlen2] at ih
      have two : ReachP cx X.Pg (X.st ⟨b, pre.length⟩ (X.onBase ⟨[], ic, bcs, wm⟩))
          (X.st ⟨b, pre.length + 1 + 1⟩ (X.onBase ⟨[], ic, bcs, { wm with scratch := setSlot wm.scratch v st.reverse[i] }⟩)) :=
        (ReachP.step s1).trans (.step s2)
      rcases ih with ih | ih
      · exact .inl (two.halts ih)
      · refine .inr (two.trans ?_)
        simp only [List.map_cons, hval, Option.getD_some]
        exact ih
    · simp only [pushV, hfull, if_false] at s1
      exact .inl (.step s1)

/-- the own by-value parameters of a routine under the frame-pointer convention -/
theorem subK_own_true {P : PCtx} {sd : SubDef} {f : Nat} (hS : SubOK P f sd) (hfp : P.fp = true) {v : Nat}
    (hown : v ∈ (subK P.fp P.p sd P.dyn P.strict).own) : ∃ kv, kv ∈ sd.params ∧ kv.1 = ParamKind.val ∧ kv.2 = v := by
  rw [hfp] at hown
  cases hs : P.strict with
  | true =>
    rw [hs] at hown
    have hown' : v ∈ valSlots sd := hown
    unfold valSlots at hown'
    obtain ⟨kv, hkv, hkv2⟩ := List.mem_map.mp hown'
    obtain ⟨hmem, hk⟩ := List.mem_filter.mp hkv
    exact ⟨kv, hmem, beq_val hk, hkv2⟩
  | false =>
    rw [hs] at hown
    have hown' : v ∈ sd.params.map (·.2) := hown
    obtain ⟨kv, hkv, hkv2⟩ := List.mem_map.mp hown'
    exact ⟨kv, hkv, hS.pval hfp hs kv hkv, hkv2⟩

theorem RoutOK.facts {P : PCtx} (hP : ProgOK P) {X cfg K cur} (h : RoutOK P X cfg K cur) :
    RFacts P.cx X cfg K := by
  have hvinv : ∀ A, X.prot = P.prot → ∀ w w' : World,
      (∀ s, s ∈ X.prot → getSlot w'.scratch s = getSlot w.scratch s) → P.vinv A w → P.vinv A w' := by
    intro A hprot w w' hsame hw
    unfold PCtx.vinv at hw ⊢
    cases hs : P.strict with
    | false => simp only [Bool.false_eq_true, if_false]; trivial
    | true =>
      simp only [hs, if_true] at hw ⊢
      refine hw.congr (fun s hsm => hsame s ?_)
      rw [hprot, PCtx.prot, hs]
      simp only [if_true, List.mem_append]
      exact .inr hsm
  refine ⟨h.kign, ?_, ?_, ?_, h.fdyn, h.fprot, h.fprotS, ?_, ?_⟩
  · -- the invariant only looks at the slots `prot`
    cases h with
    | main _ _ _ hinv _ _ hprot => intro w w' hsame hw; rw [hinv] at hw ⊢; exact hvinv _ hprot w w' hsame hw
    | sub _ _ _ _ _ _ _ hinv _ hprot => intro w w' hsame hw; rw [hinv] at hw ⊢; exact hvinv _ hprot w w' hsame hw
    | @subFp f sd fr cs' st σc hpg hfp hsd hr hcs hpr hbase hlen hh hign hinv hdev hprot hact =>
      have hS := hP f sd hsd (RoutOK.present (.subFp hpg hfp hsd hr hcs hpr hbase hlen hh hign hinv hdev hprot hact))
      intro w w' hsame hw
      rw [hinv] at hw ⊢
      refine ⟨?_, hvinv _ hprot w w' hsame hw.2⟩
      intro pr hpr
      have hmem : pr.1 ∈ sd.params.map (·.2) := (List.of_mem_zip hpr).1
      obtain ⟨kv, hkv, hkv2⟩ := List.mem_map.mp hmem
      have : pr.1 ∈ X.prot := by
        rw [hprot, PCtx.prot, ← hkv2]
        cases hk : kv.1 with
        | val =>
          have := hS.pign hfp kv hkv hk
          split
          · exact List.mem_append.mpr (.inl this)
          · exact this
        | ref =>
          cases hs : P.strict with
          | false => rw [hS.pval hfp hs kv hkv] at hk; cases hk
          | true =>
            simp only [if_true]
            refine List.mem_append.mpr (.inr (mem_allRefSlots hsd ?_))
            unfold refSlots
            exact List.mem_map.mpr ⟨kv, List.mem_filter.mpr ⟨hkv, by rw [hk]; rfl⟩, rfl⟩
      rw [hsame pr.1 this]
      exact hw.1 pr hpr
  · cases h <;> rfl
  · cases h with
    | main _ hr => exact .main rfl hr
    | sub _ _ _ hr hcs hpr => exact .sub rfl hr hcs hpr
    | subFp _ hfp _ hr hcs hpr hbase hlen hh =>
      refine .subFp rfl hr hcs hpr hh ?_ ?_
      · rw [hbase, List.length_append]; omega
      · rw [subK_rv]
  · -- reads of own parameters
    cases h with
    | main => intro v pr hf; cases hf
    | sub _ hfp => intro v pr hf; simp only [subCfg, hfp, Bool.false_eq_true, if_false, List.find?_nil] at hf; cases hf
    | @subFp f sd fr cs' st σc hpg hfp hsd hr hcs hpr hbase hlen hh hign hinv hdev hprot hact =>
      intro v pr hf
      simp only [subCfg, hfp, if_true] at hf
      have hmem := List.mem_of_find?_eq_some hf
      have hv : pr.1 = v := by simpa using List.find?_some hf
      obtain ⟨i, k, hi, hpi, hidx⟩ := mem_fpParams hmem
      have hval : ∃ val, st.reverse[i]? = some val := by
        have : i < st.reverse.length := by rw [List.length_reverse, hlen]; exact hi
        exact ⟨st.reverse[i], List.getElem?_eq_getElem this⟩
      obtain ⟨val, hval⟩ := hval
      refine ⟨val, ?_, ?_⟩
      · intro w hw
        rw [hinv] at hw
        have hz : (v, val) ∈ (sd.params.map (·.2)).zip st.reverse := by
          refine List.mem_iff_getElem?.mpr ⟨i, ?_⟩
          rw [List.getElem?_zip_eq_some]
          refine ⟨?_, hval⟩
          rw [List.getElem?_map, hpi, ← hv]
          rfl
        exact hw.1 (v, val) hz
      · intro b blk m hb hops
        rw [hidx] at hops
        exact frameDig_step hcs hpr hbase hlen hh hi hval b blk m hb hops
  · -- an ignored slot the routine may read is one of its frame parameters
    cases h with
    | main => intro v _ hown; rw [mainK_own] at hown; cases hown
    | sub _ hfp => intro v _ hown; rw [hfp, subK_own_false] at hown; cases hown
    | @subFp f sd fr cs' st σc hpg hfp hsd hr hcs hpr hbase hlen hh hign hinv hdev hprot hact =>
      have hS := hP f sd hsd (RoutOK.present (.subFp hpg hfp hsd hr hcs hpr hbase hlen hh hign hinv hdev hprot hact))
      intro v _ hown
      obtain ⟨kv, hkv, hk, hkv2⟩ := subK_own_true hS hfp hown
      obtain ⟨i, hi⟩ := List.mem_iff_getElem?.mp hkv
      have hi' : sd.params[i]? = some (ParamKind.val, v) := by
        rw [hi, ← hk, ← hkv2]
      have hm := fpParams_of_param hi'
      simp only [subCfg, hfp, if_true]
      intro hnone
      have := List.find?_eq_none.mp hnone _ hm
      simp at this

/-- every call block of a routine of the program calls a routine that has a graph -/
def CallPresent (P : PCtx) : Prop :=
  ∀ X cfg K cur, RoutOK P X cfg K cur → ∀ f ce cb k, cfg.callees.find? (·.id == f) = some ce →
    Blk X.G cb (callOps cfg f ce) (.next k) → Present P f

def All (P : PCtx) (fuel : Nat) : Prop :=
  ∀ X cfg K cur, RoutOK P X cfg K cur → AllX X cfg K ⟨P.cx, P.p, cur⟩ fuel

/-! ### the callee, from `callsub` to the instruction after it -/

/-- the world in which the body runs: parameters bound first-to-last (`Src.eval`) -/
def bindW (sd : SubDef) (st : List Val) (w1 : World) : World :=
  let sc := (sd.params.zip st.reverse).foldl (fun sc (p : (ParamKind × Var) × Val) => setSlot sc p.1.2 p.2) w1.scratch
  { w1 with scratch := sc }

theorem bindW_scratch (sd : SubDef) (st : List Val) (w1 : World) :
    (bindW sd st w1).scratch = bindAll ((sd.params.map (·.2)).zip st.reverse) w1.scratch := by
  simp only [bindW]
  rw [bindAll, List.zip_map_left, List.foldl_map]
  rfl

section Callee
variable (cx : Ctx) (X : MCtx) (cb i : Nat) (st σ' : List Val) (ic : List Nat) (bcs : List Bytes) (w1 : World)
  (hasRet : Bool) (Ia : World → Prop)

/-- what the machine does from the `callsub` (stack `st ++ σ'`: arguments, then everything below
    them) for each result of the callee's body, when the source world at the call satisfies `Ia`;
    nothing is claimed about the caller's invariant on the source world at the return point
    (`case_call` re-establishes it after the restore) -/
def CalleeGoal : Res → World → Prop
  | .ret none, w3 => hasRet = false ∧
      ReachS X.dev X.ign cx X.Pg Ia noInv (X.st ⟨cb, i⟩ ⟨st ++ σ', ic, bcs, w1⟩) (X.st ⟨cb, i + 1⟩ ⟨σ', ic, bcs, w3⟩)
  | .ret (some v), w3 => hasRet = true ∧
      ReachS X.dev X.ign cx X.Pg Ia noInv (X.st ⟨cb, i⟩ ⟨st ++ σ', ic, bcs, w1⟩) (X.st ⟨cb, i + 1⟩ ⟨v :: σ', ic, bcs, w3⟩)
  | .vals [], w3 => hasRet = false ∧
      ReachS X.dev X.ign cx X.Pg Ia noInv (X.st ⟨cb, i⟩ ⟨st ++ σ', ic, bcs, w1⟩) (X.st ⟨cb, i + 1⟩ ⟨σ', ic, bcs, w3⟩)
  | .vals [v], w3 => hasRet = true ∧
      ReachS X.dev X.ign cx X.Pg Ia noInv (X.st ⟨cb, i⟩ ⟨st ++ σ', ic, bcs, w1⟩) (X.st ⟨cb, i + 1⟩ ⟨v :: σ', ic, bcs, w3⟩)
  | .vals _, _ => False
  | .brk, _ => False
  | .cont, _ => False
  | .exit v, w3 => HaltS X.dev X.ign cx X.Pg Ia (X.st ⟨cb, i⟩ ⟨st ++ σ', ic, bcs, w1⟩) (retOut v w3)
  | .fail f, _ => isUnm f ∨ FailS X.ign cx X.Pg Ia (X.st ⟨cb, i⟩ ⟨st ++ σ', ic, bcs, w1⟩)

end Callee

/-- what the body of the callee (entered at `bs` on its base) does, in terms of the caller's
    return point -/
def BodyRes (cx : Ctx) (X Xf : MCtx) (cb i bs : Nat) (σ' : List Val) (ic : List Nat) (bcs : List Bytes)
    (w2 : World) (hasRet : Bool) : Res → World → Prop
  | .ret ov, w3 => ov.isSome = hasRet ∧
      ReachS X.dev X.ign cx X.Pg Xf.inv noInv (Xf.st ⟨bs, 0⟩ (Xf.onBase ⟨[], ic, bcs, w2⟩))
        (X.st ⟨cb, i + 1⟩ ⟨ov.toList ++ σ', ic, bcs, w3⟩)
  | .vals vs, w3 => vs.length = (if hasRet then 1 else 0) ∧
      ReachS X.dev X.ign cx X.Pg Xf.inv noInv (Xf.st ⟨bs, 0⟩ (Xf.onBase ⟨[], ic, bcs, w2⟩))
        (X.st ⟨cb, i + 1⟩ ⟨vs ++ σ', ic, bcs, w3⟩)
  | .brk, _ => False
  | .cont, _ => False
  | .exit v, w3 => HaltS X.dev X.ign cx X.Pg Xf.inv (Xf.st ⟨bs, 0⟩ (Xf.onBase ⟨[], ic, bcs, w2⟩)) (retOut v w3)
  | .fail f, _ => isUnm f ∨ FailS X.ign cx X.Pg Xf.inv (Xf.st ⟨bs, 0⟩ (Xf.onBase ⟨[], ic, bcs, w2⟩))

theorem BodyRes.callee {cx : Ctx} {X Xf : MCtx} {cb i bs : Nat} {st σ' : List Val} {ic bcs} {w1 w2 : World}
    {hasRet : Bool} {r3 : Res} {w3 : World} {Ia : World → Prop}
    (pre : ReachS X.dev X.ign cx X.Pg Ia Xf.inv (X.st ⟨cb, i⟩ ⟨st ++ σ', ic, bcs, w1⟩)
      (Xf.st ⟨bs, 0⟩ (Xf.onBase ⟨[], ic, bcs, w2⟩)))
    (h : BodyRes cx X Xf cb i bs σ' ic bcs w2 hasRet r3 w3) :
    CalleeGoal cx X cb i st σ' ic bcs w1 hasRet Ia r3 w3 := by
  cases r3 with
  | ret ov =>
    obtain ⟨hov, hr⟩ := h
    cases ov with
    | none => exact ⟨by simpa using hov.symm, pre.trans hr⟩
    | some v => exact ⟨by simpa using hov.symm, pre.trans hr⟩
  | vals vs =>
    obtain ⟨hl, hr⟩ := h
    cases hasRet with
    | false =>
      simp only [Bool.false_eq_true, if_false] at hl
      have : vs = [] := List.length_eq_zero_iff.mp hl
      subst this
      exact ⟨rfl, pre.trans hr⟩
    | true =>
      simp only [if_true] at hl
      match vs, hl with
      | [v], _ => exact ⟨rfl, pre.trans hr⟩
  | brk => exact h
  | cont => exact h
  | exit v => exact pre.haltS h
  | fail f => exact h.imp id pre.failS

/-- the body of the callee (wrapped as `compileSubroutine` wraps it), from its entry block on its
    base to the caller's return point -/
theorem body_run {P : PCtx} {fuel : Nat} (ihAll : All P fuel) {X Xf : MCtx} {f : Nat} {sd : SubDef}
    (hS : SubOK P f sd) (hP : ProgOK P)
    (hRK : RoutOK P Xf (subCfg P sd) (subK P.fp P.p sd P.dyn P.strict) (some f))
    {fr : GFrame} {cb i bs : Nat} {σ' : List Val} {ic bcs}
    (hr0 : Xf.r = some (subLabel f)) (hcs : Xf.cs = fr :: X.cs) (hfr : fr.ret = X.r ∧ fr.pt = ⟨cb, i + 1⟩)
    (hpg : Xf.Pg = X.Pg) (hign : Xf.ign = X.ign) (hdev : Xf.dev = X.dev)
    (hsh : ShapeR Xf.G (subCfg P sd) (wrapBody sd) bs 0 none)
    (hret : ∀ ov : Option Val, ov.isSome = sd.hasRet → retStack Xf fr ov [] = ov.toList ++ σ')
    {w2 : World} {r3 : Res} {w3 : World} (hev : eval ⟨P.cx, P.p, some f⟩ fuel sd.body w2 = (r3, w3)) :
    BodyRes P.cx X Xf cb i bs σ' ic bcs w2 sd.hasRet r3 w3 := by
  have ihf := ihAll Xf _ _ _ hRK
  have hF := hRK.facts hP
  have hrv : (subK P.fp P.p sd P.dyn P.strict).rv = sd.hasRet := subK_rv
  -- a `Goal` of the body at the top of the routine, read from the caller's side
  have conv : ∀ {kk n}, Goal P.cx Xf bs kk none false true sd.hasRet n [] ic bcs w2 r3 w3 →
      (∀ vs, r3 = .vals vs → vs.length = (if sd.hasRet then 1 else 0) ∧
        ReachS X.dev X.ign P.cx X.Pg Xf.inv noInv (Xf.st ⟨bs, 0⟩ (Xf.onBase ⟨[], ic, bcs, w2⟩))
          (X.st ⟨cb, i + 1⟩ ⟨vs ++ σ', ic, bcs, w3⟩)) →
      BodyRes P.cx X Xf cb i bs σ' ic bcs w2 sd.hasRet r3 w3 := by
    intro kk n g hvals
    cases r3 with
    | ret ov =>
      obtain ⟨_, hov, hg⟩ := g
      unfold RetGoal at hg
      simp only [hr0, hcs] at hg
      refine ⟨hov, ?_⟩
      rw [hret ov hov, hfr.1, hfr.2, hpg, hign, hdev] at hg
      exact hg
    | vals vs => exact hvals vs rfl
    | brk => obtain ⟨_, l', hl', _⟩ := g; cases hl'
    | cont => obtain ⟨_, l', hl', _⟩ := g; cases hl'
    | exit v =>
      have : HaltS Xf.dev Xf.ign P.cx Xf.Pg Xf.inv (Xf.st ⟨bs, 0⟩ (Xf.onBase ⟨[], ic, bcs, w2⟩)) (retOut v w3) := g
      rw [hpg, hign, hdev] at this
      exact this
    | fail f' =>
      refine g.imp id (fun h => ?_)
      have : FailS Xf.ign P.cx Xf.Pg Xf.inv (Xf.st ⟨bs, 0⟩ (Xf.onBase ⟨[], ic, bcs, w2⟩)) := h
      rw [hpg, hign] at this
      exact this
  -- `retsub` block after a normal completion of the body with values `vs`
  have viaRetsub : ∀ {ob k : Nat} {ov : Option Val}, Blk Xf.G ob [.retsub] (.next k) → ov.isSome = sd.hasRet →
      ReachO P.cx Xf ⟨bs, 0⟩ ⟨[], ic, bcs, w2⟩ ⟨ob, 0⟩ ⟨ov.toList ++ [], ic, bcs, w3⟩ →
      ReachS X.dev X.ign P.cx X.Pg Xf.inv noInv (Xf.st ⟨bs, 0⟩ (Xf.onBase ⟨[], ic, bcs, w2⟩))
        (X.st ⟨cb, i + 1⟩ ⟨ov.toList ++ σ', ic, bcs, w3⟩) := by
    intro ob k ov hb hov hr
    have h2 := retsub_reach (env := ⟨P.cx, P.p, some f⟩) (σ := []) (ic := ic) (bcs := bcs) (w := w3) (ov := ov)
      hF.kind hb hr0 hcs (by rw [hrv]; exact hov)
    have h3 := ReachS.trans hr h2
    rw [hret ov hov, hfr.1, hfr.2, hpg, hign, hdev] at h3
    exact h3
  have hwt := hS.wt
  unfold wrapBody at hsh
  split at hsh
  · -- the body has a return on every path: compiled as it is
    rename_i hret'
    have g := ihf.ev _ _ _ _ _ _ _ [] ic bcs _ _ _ hsh hwt hev
    rw [hrv] at g
    exact conv g (fun vs hvs => by subst hvs; exact (hasReturn_no_vals hret' hev).elim)
  · split at hsh
    · -- `Return(body)`
      rename_i hret' hhr
      rw [if_pos hhr] at hwt
      cases hsh with
      | ret hb he =>
        have hb' : Blk Xf.G _ [.retsub] (.next 0) := hb
        have g := ihf.ev _ _ _ _ _ _ _ [] ic bcs _ _ _ he hwt hev
        rw [hrv] at g
        refine conv g (fun vs hvs => ?_)
        subst hvs
        obtain ⟨hl1, hr⟩ := g
        refine ⟨by simpa [hhr] using hl1, ?_⟩
        match vs, hl1 with
        | [v], _ => exact viaRetsub (ov := some v) hb' (by simp [hhr]) hr
    · -- `Seq(body, Return())`
      rename_i hret' hhr
      rw [if_neg hhr] at hwt
      cases hsh with
      | seq hss =>
        cases hss with
        | cons hrest he =>
          cases hrest with
          | cons hnil hretn =>
            cases hretn with
            | retNone _ hb =>
              have g := ihf.ev _ _ _ _ _ _ _ [] ic bcs _ _ _ he hwt hev
              rw [hrv] at g
              refine conv g (fun vs hvs => ?_)
              subst hvs
              obtain ⟨hl1, hr⟩ := g
              refine ⟨by simpa [hhr] using hl1, ?_⟩
              have hnil' : vs = [] := List.length_eq_zero_iff.mp hl1
              subst hnil'
              exact viaRetsub (ov := none) hb (by simp [hhr]) hr

/-- the prologue of the scratch-slot convention binds the parameters (up to `SameW`: it stores them
    in the opposite order) -/
theorem prologue_reach {cx : Ctx} {Xf : MCtx} {sd : SubDef} {sf bs : Nat} {st : List Val} {ic bcs} {w1 : World}
    (hinv : Xf.inv = noInv)
    (hpro : Blk Xf.G sf ((sd.params.reverse.map (·.2)).map Instr.store) (.next bs))
    (hlen : st.length = sd.params.length)
    (hnd : (sd.params.map (·.2)).Nodup) (h256 : ∀ kv ∈ sd.params, kv.2 < 256) :
    ReachO cx Xf ⟨sf, 0⟩ ⟨st, ic, bcs, w1⟩ ⟨bs, 0⟩ ⟨[], ic, bcs, bindW sd st w1⟩ := by
  refine ReachO.of_block hpro (stores_simple _) (fun wm hw _ _ => .inr
    ⟨{ wm with scratch := bindAll ((sd.params.reverse.map (·.2)).zip st) wm.scratch }, ?_, ?_, ?_⟩)
  rotate_left
  · rw [hinv]; trivial
  · exact stores_exec (env := ⟨cx, default, none⟩) (σ := Xf.base) (ic := ic) (bcs := bcs) (sd.params.reverse.map (·.2)) st wm
      (by simp [hlen]) (by
        intro v hv
        obtain ⟨kv, hkv, rfl⟩ := List.mem_map.mp hv
        exact h256 kv (List.mem_reverse.mp hkv))
  · -- the two binding orders give the same content
    have hrev : (sd.params.reverse.map (·.2)).zip st = ((sd.params.map (·.2)).zip st.reverse).reverse := by
      rw [zip_reverse_eq _ _ (by simp [hlen]), List.reverse_reverse, List.map_reverse]
    have hkeys : (((sd.params.map (·.2)).zip st.reverse).map (·.1)).Nodup := by
      rw [List.map_fst_zip (by simp [hlen])]
      exact hnd
    have hnd' : ((((sd.params.map (·.2)).zip st.reverse).reverse).map (·.1)).Nodup := by
      rw [List.map_reverse]; exact nodup_reverse_of hkeys
    refine ⟨fun x hx => ?_, ?_⟩
    · show getSlot (bindW sd st w1).scratch x = _
      rw [bindW_scratch, hrev, getSlot_bindAll _ _ x hkeys, getSlot_bindAll _ _ x hnd', lookup_reverse _ x hkeys,
        hw.1 x hx]
    · simp only [bindW]
      rw [hw.2]

theorem pInv_bindW {sd : SubDef} {st : List Val} {w1 : World} (hlen : st.length = sd.params.length)
    (hnd : (sd.params.map (·.2)).Nodup) : pInv sd st (bindW sd st w1) := by
  intro pr hpr
  have hkeys : (((sd.params.map (·.2)).zip st.reverse).map (·.1)).Nodup := by
    rw [List.map_fst_zip (by simp [hlen])]
    exact hnd
  rw [bindW_scratch, getSlot_bindAll _ _ _ hkeys, lookup_eq_some_of_mem _ pr.1 pr.2 hkeys hpr]

/-- what the callee's activation knows about the source world (its `MCtx.inv`) -/
def calleeInv (P : PCtx) (X : MCtx) (f : Nat) (sd : SubDef) (st : List Val) : World → Prop :=
  if P.fp then (fun w => pInv sd st w ∧ P.vinv (f :: X.act) w) else P.vinv (f :: X.act)

theorem callee_run {P : PCtx} {fuel : Nat} (hP : ProgOK P) (ihAll : All P fuel) {X : MCtx} {cfg K cur}
    (hR : RoutOK P X cfg K cur)
    {f : Nat} {sd : SubDef} (hsd : findSub P.p f = some sd) (hpres : Present P f)
    {cb i : Nat} {blk : Block} (hbk : X.G[cb]? = some blk) (hx : blk.ops[i]? = some (.callsub (subLabel f)))
    {st σ' : List Val} {ic bcs} {w1 : World} (hlen : st.length = sd.params.length)
    {r3 : Res} {w3 : World} (hev : eval ⟨P.cx, P.p, some f⟩ fuel sd.body (bindW sd st w1) = (r3, w3)) :
    CalleeGoal P.cx X cb i st σ' ic bcs w1 sd.hasRet
      (fun w => X.inv w ∧ calleeInv P X f sd st (bindW sd st w1)) r3 w3 := by
  have hXP := hR.pg
  have hS := hP f sd hsd hpres
  obtain ⟨G, sf, bs, hl, hpro, hsh⟩ := hS.look
  rw [← hXP] at hl
  have hGf : X.Pg.graphOf (some (subLabel f)) = some G := by simp [PProg.graphOf, hl]
  cases hfp : P.fp with
  | false =>
    -- scratch-slot convention
    let fr : GFrame := { ret := X.r, pt := ⟨cb, i + 1⟩, height := (st ++ σ').length }
    let Xf : MCtx := { Pg := X.Pg, r := some (subLabel f), cs := fr :: X.cs, G := G, hG := hGf,
                       ign := X.ign, inv := P.vinv (f :: X.act), prot := X.prot, act := f :: X.act,
                       base := σ', dev := X.dev, devOvf := X.devOvf }
    -- the same activation without its invariant: the prologue needs none
    let Xf0 : MCtx := { Pg := X.Pg, r := some (subLabel f), cs := fr :: X.cs, G := G, hG := hGf,
                        ign := X.ign, inv := noInv, base := σ', dev := X.dev, devOvf := X.devOvf }
    have hcall : ReachS X.dev X.ign P.cx X.Pg (fun w => X.inv w ∧ calleeInv P X f sd st (bindW sd st w1)) noInv
        (X.st ⟨cb, i⟩ ⟨st ++ σ', ic, bcs, w1⟩) (Xf0.st ⟨sf, 0⟩ (Xf0.onBase ⟨st, ic, bcs, w1⟩)) :=
      fun wm hw _ _ => .inr ⟨wm, hw, trivial, .step (callsub_step hbk hx hl)⟩
    simp only [prologue, hfp, Bool.false_eq_true, if_false] at hpro
    have hpro0 : ReachS X.dev X.ign P.cx X.Pg noInv noInv (Xf0.st ⟨sf, 0⟩ (Xf0.onBase ⟨st, ic, bcs, w1⟩))
        (Xf0.st ⟨bs, 0⟩ (Xf0.onBase ⟨[], ic, bcs, bindW sd st w1⟩)) :=
      prologue_reach (Xf := Xf0) rfl hpro hlen hS.pnodup (hS.p256 hfp)
    have hpre : ReachS X.dev X.ign P.cx X.Pg (fun w => X.inv w ∧ calleeInv P X f sd st (bindW sd st w1)) Xf.inv
        (X.st ⟨cb, i⟩ ⟨st ++ σ', ic, bcs, w1⟩) (Xf.st ⟨bs, 0⟩ (Xf.onBase ⟨[], ic, bcs, bindW sd st w1⟩)) := by
      refine (hcall.trans hpro0).mono id (fun hi _ => ?_)
      have := hi.2
      unfold calleeInv at this
      rw [hfp] at this
      exact this
    have hRK : RoutOK P Xf (subCfg P sd) (subK P.fp P.p sd P.dyn P.strict) (some f) :=
      .sub hXP hfp hsd rfl rfl rfl hR.ign rfl hR.dev hR.prot (List.mem_cons_self ..)
    refine BodyRes.callee hpre (body_run ihAll hS hP hRK (fr := fr) rfl rfl ⟨rfl, rfl⟩ rfl rfl rfl hsh ?_ hev)
    intro ov _
    simp only [retStack, List.append_nil]
    rfl
  | true =>
    -- frame-pointer convention
    let fr0 : GFrame := { ret := X.r, pt := ⟨cb, i + 1⟩, height := (st ++ σ').length }
    let fr : GFrame := { fr0 with proto := some (sd.params.length, if sd.hasRet then 1 else 0) }
    let X0 : MCtx := { Pg := X.Pg, r := some (subLabel f), cs := fr0 :: X.cs, G := G, hG := hGf }
    let Xf : MCtx := { Pg := X.Pg, r := some (subLabel f), cs := fr :: X.cs, G := G, hG := hGf,
                       ign := X.ign, inv := fun w => pInv sd st w ∧ P.vinv (f :: X.act) w, prot := X.prot,
                       act := f :: X.act, base := st ++ σ', dev := X.dev, devOvf := X.devOvf }
    simp only [prologue, hfp, if_true] at hpro
    unfold Blk at hpro
    have hpre : ReachS X.dev X.ign P.cx X.Pg (fun w => X.inv w ∧ calleeInv P X f sd st (bindW sd st w1)) Xf.inv
        (X.st ⟨cb, i⟩ ⟨st ++ σ', ic, bcs, w1⟩) (Xf.st ⟨bs, 0⟩ (Xf.onBase ⟨[], ic, bcs, bindW sd st w1⟩)) := by
      intro wm hw hI _
      have hE := hI.2
      unfold calleeInv at hE
      rw [hfp] at hE
      simp only [if_true] at hE
      have s1 : gstepP P.cx X.Pg (X.st ⟨cb, i⟩ ⟨st ++ σ', ic, bcs, wm⟩) = _ := callsub_step hbk hx hl
      have s2 := proto_step (cx := P.cx) (X := X0) (b := sf) (a := sd.params.length)
        (r := if sd.hasRet then 1 else 0) (m := ⟨st ++ σ', ic, bcs, wm⟩) hpro rfl rfl rfl
        (by simp [hlen])
      have two : ReachP P.cx X.Pg (X.st ⟨cb, i⟩ ⟨st ++ σ', ic, bcs, wm⟩) (Xf.st ⟨sf, 1⟩ (Xf.onBase ⟨[], ic, bcs, wm⟩)) :=
        (ReachP.step s1).trans (ReachP.step s2)
      have hL : ∀ x ∈ refPairs sd, x.1 < sd.params.length ∧ x.2 < 256 := by
        intro x hx
        obtain ⟨h1, h2⟩ := mem_refPairs hx
        exact ⟨h1, (hS.pref hfp _ (List.mem_of_getElem? h2) rfl).1⟩
      have hops : ({ ops := Instr.proto sd.params.length (if sd.hasRet then 1 else 0) :: refCopies sd,
                     succ := Succ.next bs } : Block).ops =
          [Instr.proto sd.params.length (if sd.hasRet then 1 else 0)] ++ (refPairs sd).flatMap
            (fun x => [Instr.frameDig ((x.1 : Int) - (sd.params.length : Int)), Instr.store x.2]) := by
        rw [← refCopies_eq]; rfl
      rcases refCopies_run (X := Xf) (cx := P.cx) (ic := ic) (bcs := bcs) rfl rfl rfl hlen rfl hpro
        (refPairs sd) _ wm hops hL with hov | hreach
      · exact .inl ⟨ovfF, X.devOvf, two.halts hov⟩
      · have s3 := step_exit (cx := P.cx) (X := Xf) (b := sf) (k := bs)
          (m := Xf.onBase ⟨[], ic, bcs, { wm with scratch := bindAll ((refPairs sd).map
            (fun x => (x.2, (st.reverse[x.1]?).getD (.u 0)))) wm.scratch }⟩) hpro rfl rfl
        refine .inr ⟨_, ⟨fun x hx => ?_, ?_⟩, hE, two.trans (hreach.trans (.step s3))⟩
        · -- a slot outside the ignored ones: a by-reference parameter (copied), or untouched
          show getSlot (bindW sd st w1).scratch x = getSlot (bindAll _ wm.scratch) x
          have hkeys : (((sd.params.map (·.2)).zip st.reverse).map (·.1)).Nodup := by
            rw [List.map_fst_zip (by simp [hlen])]
            exact hS.pnodup
          have hkeys' : (((refPairs sd).map (fun x => (x.2, (st.reverse[x.1]?).getD (.u 0)))).map (·.1)).Nodup := by
            rw [List.map_map]
            exact refPairs_nodup hS.pnodup
          rw [bindW_scratch, getSlot_bindAll _ _ _ hkeys, getSlot_bindAll _ _ _ hkeys']
          by_cases hxp : x ∈ sd.params.map (·.2)
          · obtain ⟨j, hj⟩ := List.mem_iff_getElem?.mp hxp
            rw [List.getElem?_map] at hj
            cases hpj : sd.params[j]? with
            | none => rw [hpj] at hj; cases hj
            | some kv =>
              rw [hpj] at hj
              simp only [Option.map_some, Option.some.injEq] at hj
              have hjlt : j < sd.params.length := getElem?_lt hpj
              have hjv : j < st.reverse.length := by rw [List.length_reverse, hlen]; exact hjlt
              have hval : st.reverse[j]? = some st.reverse[j] := List.getElem?_eq_getElem hjv
              cases hk : kv.1 with
              | val =>
                exfalso
                rw [hR.ign] at hx
                exact hx (hj ▸ hS.pign hfp kv (List.mem_of_getElem? hpj) hk)
              | ref =>
                have hm1 : (x, st.reverse[j]) ∈ (sd.params.map (·.2)).zip st.reverse := by
                  refine List.mem_iff_getElem?.mpr ⟨j, ?_⟩
                  rw [List.getElem?_zip_eq_some]
                  refine ⟨?_, hval⟩
                  rw [List.getElem?_map, hpj, ← hj]
                  rfl
                have hpj' : sd.params[j]? = some (ParamKind.ref, x) := by rw [hpj, ← hk, ← hj]
                have hm2 : (x, st.reverse[j]) ∈ (refPairs sd).map (fun x => (x.2, (st.reverse[x.1]?).getD (.u 0))) :=
                  List.mem_map.mpr ⟨(j, x), refPairs_of_param hpj', by simp only [hval, Option.getD_some]⟩
                rw [lookup_eq_some_of_mem _ x _ hkeys hm1, lookup_eq_some_of_mem _ x _ hkeys' hm2]
          · have hn1 : ((sd.params.map (·.2)).zip st.reverse).lookup x = none := by
              rw [List.lookup_eq_none_iff]
              intro pr hpr
              simp only [bne_iff_ne, ne_eq]
              intro hpv
              exact hxp (hpv ▸ (List.of_mem_zip hpr).1)
            have hn2 : ((refPairs sd).map (fun x => (x.2, (st.reverse[x.1]?).getD (.u 0)))).lookup x = none := by
              rw [List.lookup_eq_none_iff]
              intro pr hpr
              simp only [bne_iff_ne, ne_eq]
              intro hpv
              obtain ⟨y, hy, rfl⟩ := List.mem_map.mp hpr
              obtain ⟨_, h2⟩ := mem_refPairs hy
              exact hxp (hpv ▸ List.mem_map.mpr ⟨_, List.mem_of_getElem? h2, rfl⟩)
            rw [hn1, hn2]
            exact hw.1 x hx
        · have h2 : wm = { w1 with scratch := wm.scratch } := hw.2
          generalize wm.scratch = sc at h2
          subst h2
          rfl
    have hRK : RoutOK P Xf (subCfg P sd) (subK P.fp P.p sd P.dyn P.strict) (some f) :=
      .subFp hXP hfp hsd rfl rfl rfl rfl hlen rfl hR.ign rfl hR.dev hR.prot (List.mem_cons_self ..)
    refine BodyRes.callee hpre (body_run ihAll hS hP hRK (fr := fr) rfl rfl ⟨rfl, rfl⟩ rfl rfl rfl hsh ?_ hev)
    intro ov hov
    simp only [retStack, List.append_nil]
    have hdrop : (st ++ σ').drop sd.params.length = σ' := by rw [← hlen]; exact List.drop_left
    show ((ov.toList).reverse.take (if sd.hasRet then 1 else 0)).reverse ++ (st ++ σ').drop sd.params.length = _
    rw [hdrop]
    cases ov with
    | none => simp only [Option.isSome_none] at hov; simp [← hov]
    | some v => simp only [Option.isSome_some] at hov; simp [← hov]

/-! ### the ops around the `callsub` -/

/-- the caller's variables that `Src.eval` saves around a call of `f` -/
def srcLocals (p : Prog) (cur : Option Nat) (f : Nat) : List Var :=
  match cur with
  | some c => (match findSub p c with
    | some cd => if cd.reenters.contains f then cd.locals else []
    | none => [])
  | none => []

/-- `restore` of `Src.eval`: the saved values (read in `w1`) written back into `w3` -/
def restoreW (locals : List Var) (w1 w3 : World) : World :=
  let saved := locals.map (fun v => (v, getSlot w1.scratch v))
  { w3 with scratch := saved.foldl (fun sc (p : Var × Val) => setSlot sc p.1 p.2) w3.scratch }

/-- What the ops of a call block have to do around the `callsub` at position `i`: bring the
    arguments `st` to the top of some stack `rest` (the spilled locals go underneath), and after
    the callee has replaced them by its results `rets`, re-establish the caller's stack `σ`
    (everything below the arguments, the routine's base included) and locals. -/
def CallFrame (cx : Ctx) (X : MCtx) (cb k f nret : Nat) (locals : List Var) (st σ : List Val) (ic : List Nat)
    (bcs : List Bytes) (w1 : World) : Prop :=
  ∃ blk i rest, X.G[cb]? = some blk ∧ blk.ops[i]? = some (.callsub (subLabel f)) ∧
    ReachS X.dev X.ign cx X.Pg X.inv X.inv (X.st ⟨cb, 0⟩ ⟨st ++ σ, ic, bcs, w1⟩) (X.st ⟨cb, i⟩ ⟨st ++ rest, ic, bcs, w1⟩) ∧
    ∀ rets w3, rets.length = nret →
      ReachS X.dev X.ign cx X.Pg noInv noInv (X.st ⟨cb, i + 1⟩ ⟨rets ++ rest, ic, bcs, w3⟩)
        (X.st ⟨k, 0⟩ ⟨rets ++ σ, ic, bcs, restoreW locals w1 w3⟩)

def FrameProvider (P : PCtx) : Prop :=
  ∀ X cfg K cur, RoutOK P X cfg K cur → ∀ f ce cb k st σ ic bcs w1,
    cfg.callees.find? (·.id == f) = some ce → Blk X.G cb (callOps cfg f ce) (.next k) → st.length = ce.nArgs →
    CallFrame P.cx X cb k f (if ce.hasRet then 1 else 0) (srcLocals P.p cur f) st σ ic bcs w1

/-- the call is allowed by the typing context -/
def callAllowed (K : RK) (f : Nat) : Bool :=
  match K.okCalls with
  | some l => l.contains f
  | none => true

/-- the caller's invariant on the source world survives an allowed call (scratch-slot convention:
    there is no invariant; frame-pointer convention: the parameter cells of the caller are restored
    by the source semantics after a re-entrant call and untouched by any other call —
    `Proofs/C02GenPres.lean`) -/
def CallInv (P : PCtx) : Prop :=
  ∀ X cfg K cur, RoutOK P X cfg K cur → ∀ f sd st w1 fuel r3 w3, findSub P.p f = some sd →
    callAllowed K f = true → st.length = sd.params.length →
    eval ⟨P.cx, P.p, some f⟩ fuel sd.body (bindW sd st w1) = (r3, w3) →
    X.inv w1 → calleeInv P X f sd st (bindW sd st w1) → X.inv (restoreW (srcLocals P.p cur f) w1 w3)

/-- the callee's invariant holds when its body starts (frame-pointer convention: the parameter
    cells hold the arguments; by-reference discipline: the arguments passed for by-reference
    parameters are valid references, given the caller's invariant before the arguments are
    evaluated) -/
def CallEntry (P : PCtx) : Prop :=
  ∀ X cfg K cur, RoutOK P X cfg K cur → ∀ f sd args bc rc n st w w1 fuel, findSub P.p f = some sd → Present P f →
    wtR K bc rc n (.call f args) = true → st.length = sd.params.length →
    evalArgs ⟨P.cx, P.p, cur⟩ fuel args w [] = (.vals st, w1) → X.inv w →
    calleeInv P X f sd st (bindW sd st w1)

theorem case_call {P : PCtx} {fuel : Nat} (hP : ProgOK P) (hC : CallPresent P) (hF : FrameProvider P)
    (hI : CallInv P) (hEnt : CallEntry P) (ihAll : All P fuel)
    {X : MCtx} {cfg : RCfg} {K : RK} {cur : Option Nat} (hR : RoutOK P X cfg K cur)
    (ih : AllX X cfg K ⟨P.cx, P.p, cur⟩ fuel)
    {f args ce s cb k L bc rc n σ ic bcs w r w'}
    (hf : cfg.callees.find? (·.id == f) = some ce) (hb : Blk X.G cb (callOps cfg f ce) (.next k))
    (ha : ShapeRArgs X.G cfg args s cb L) (hw : wtR K bc rc n (.call f args) = true)
    (h : eval ⟨P.cx, P.p, cur⟩ (fuel + 1) (.call f args) w = (r, w')) :
    Goal P.cx X s k L bc rc K.rv n σ ic bcs w r w' := by
  have hf' := hf
  have hw0 := hw
  rw [hR.callees, callees_find] at hf'
  cases hsd : findSub P.p f with
  | none => rw [hsd] at hf'; cases hf'
  | some sd =>
    rw [hsd] at hf'
    simp only [Option.map_some, Option.some.injEq] at hf'
    simp only [wtR, hR.kcallees] at hw
    rw [← hR.callees, hf] at hw
    simp only [Bool.and_eq_true, beq_iff_eq] at hw
    obtain ⟨⟨⟨⟨hnargs, hn⟩, hallow⟩, hwa⟩, _⟩ := hw
    have hce1 : ce.nArgs = sd.params.length := by rw [← hf']; rfl
    have hce2 : ce.hasRet = sd.hasRet := by rw [← hf']; rfl
    simp only [eval, hsd] at h
    rcases hev : evalArgs ⟨P.cx, P.p, cur⟩ fuel args w [] with ⟨r1, w1⟩
    rw [hev] at h
    have g1 := ih.args _ _ _ _ [] σ ic bcs _ _ _ ha hwa hev
    simp only [List.nil_append, List.length_nil, Nat.zero_add] at g1
    cases r1 with
    | vals st =>
      obtain ⟨hlen, hr⟩ := g1
      have hlen' : st.length = sd.params.length := by omega
      obtain ⟨blk, i, rest, hbk, hx, hBefore, hAfter⟩ :=
        hF X cfg K cur hR f ce cb k st (σ ++ X.base) ic bcs w1 hf hb (by omega)
      simp only [List.length_reverse, hlen', ne_eq, not_true_eq_false, if_false] at h
      rcases hbody : eval ⟨P.cx, P.p, some f⟩ fuel sd.body (bindW sd st w1) with ⟨r3, w3⟩
      have hpresent := hC X cfg K cur hR f ce cb k hf hb
      have cg := callee_run (σ' := rest) (ic := ic) (bcs := bcs) hP ihAll hR hsd
        hpresent hbk hx hlen' hbody
      have hinv := hI X cfg K cur hR f sd st w1 fuel r3 w3 hsd hallow hlen' hbody
      have hE : X.inv w → calleeInv P X f sd st (bindW sd st w1) := fun hi =>
        hEnt X cfg K cur hR f sd args bc rc n st w w1 fuel hsd hpresent hw0 hlen' hev hi
      have hbody' := hbody
      simp only [bindW] at hbody'
      rw [hbody'] at h
      simp only [] at h
      have hr' : ReachS X.dev X.ign P.cx X.Pg X.inv X.inv (X.st ⟨s, 0⟩ (X.onBase ⟨σ, ic, bcs, w⟩))
          (X.st ⟨cb, 0⟩ ⟨st ++ (σ ++ X.base), ic, bcs, w1⟩) := by
        have := hr
        simp only [ReachO, MCtx.onBase, List.append_assoc] at this
        exact this
      have hpre : ReachS X.dev X.ign P.cx X.Pg X.inv (fun w' => X.inv w' ∧ calleeInv P X f sd st (bindW sd st w1))
          (X.st ⟨s, 0⟩ (X.onBase ⟨σ, ic, bcs, w⟩)) (X.st ⟨cb, i⟩ ⟨st ++ rest, ic, bcs, w1⟩) :=
        (ReachS.trans hr' hBefore).mono id (fun hi hi' => ⟨hi', hE hi⟩)
      have hnret : ∀ rets : List Val, rets.length = (if sd.hasRet then 1 else 0) →
          rets.length = (if ce.hasRet then 1 else 0) := by intro rets hh; rw [hce2]; exact hh
      -- the normal return: through the callee, then the restore, re-establishing the invariant
      have finish : ∀ rets : List Val, rets.length = (if sd.hasRet then 1 else 0) →
          ReachS X.dev X.ign P.cx X.Pg (fun w' => X.inv w' ∧ calleeInv P X f sd st (bindW sd st w1)) noInv
            (X.st ⟨cb, i⟩ ⟨st ++ rest, ic, bcs, w1⟩) (X.st ⟨cb, i + 1⟩ ⟨rets ++ rest, ic, bcs, w3⟩) →
          ReachO P.cx X ⟨s, 0⟩ ⟨σ, ic, bcs, w⟩ ⟨k, 0⟩
            ⟨rets ++ σ, ic, bcs, restoreW (srcLocals P.p cur f) w1 w3⟩ := by
        intro rets hrl hR3
        have h2 := (ReachS.trans hR3 (hAfter rets w3 (hnret rets hrl))).mono
          (Ia' := fun w' => X.inv w' ∧ calleeInv P X f sd st (bindW sd st w1)) (Ib' := X.inv) id
          (fun hi _ => hinv hi.1 hi.2)
        have h3 := ReachS.trans hpre h2
        simp only [ReachO, MCtx.onBase, List.append_assoc]
        exact h3
      cases r3 with
      | ret ov =>
        cases ov with
        | none =>
          obtain ⟨hhr, hR3⟩ := cg
          simp only [hhr, Bool.false_eq_true, if_false] at h
          cases h
          exact ⟨by rw [hn, hce2, hhr]; rfl, finish [] (by simp [hhr]) hR3⟩
        | some v =>
          obtain ⟨hhr, hR3⟩ := cg
          simp only [hhr, if_true] at h
          cases h
          exact ⟨by rw [hn, hce2, hhr]; rfl, finish [v] (by simp [hhr]) hR3⟩
      | vals vs =>
        match vs, cg with
        | [], cg =>
          obtain ⟨hhr, hR3⟩ := cg
          simp only [hhr, Bool.false_eq_true, if_false] at h
          cases h
          exact ⟨by rw [hn, hce2, hhr]; rfl, finish [] (by simp [hhr]) hR3⟩
        | [v], cg =>
          obtain ⟨hhr, hR3⟩ := cg
          simp only [hhr, if_true] at h
          cases h
          exact ⟨by rw [hn, hce2, hhr]; rfl, finish [v] (by simp [hhr]) hR3⟩
        | _ :: _ :: _, cg => exact cg.elim
      | brk => exact cg.elim
      | cont => exact cg.elim
      | exit v =>
        cases h
        exact ReachS.haltS hpre cg
      | fail f' =>
        cases h
        exact cg.imp id (ReachS.failS hpre)
    | _ =>
      simp only [] at h
      cases h
      exact g1.same (by intro vs hh; cases hh) (by simp) (by simp)

/-- **Semantic half for whole programs.**  Every routine graph of the program matches `Src.eval`
    (all five mutually recursive evaluators, all routines, all call stacks). -/
theorem sound_all {P : PCtx} (hP : ProgOK P) (hC : CallPresent P) (hF : FrameProvider P) (hI : CallInv P)
    (hEnt : CallEntry P) :
    ∀ fuel, All P fuel := by
  intro fuel
  induction fuel using Nat.strongRecOn with
  | _ fuel ih =>
    match fuel, ih with
    | 0, _ => intro X cfg K cur _; exact all_zero
    | f + 1, ih =>
      intro X cfg K cur hR
      have ihs : ∀ f', f' ≤ f → AllX X cfg K ⟨P.cx, P.p, cur⟩ f' :=
        fun f' h => ih f' (Nat.lt_succ_of_le h) X cfg K cur hR
      have ihf := ihs f (Nat.le_refl _)
      have ihAll : All P f := ih f (Nat.lt_succ_self f)
      exact {
        ev := fun e s k L bc rc n σ ic bcs w r w' hs hw h =>
          step_ev (hR.facts hP) ihs
            (fun f' args ce s cb k L bc rc n σ ic bcs w r w' hf hb ha hw h =>
              case_call hP hC hF hI hEnt ihAll hR ihf hf hb ha hw h)
            (fun ns ds s dstart cb k L bc rc n σ ic bcs w r w' hb hd hn hw h =>
              case_wide ihs hb hd hn hw h) hs hw h
        args := fun es s k L acc σ ic bcs w r w' ha hw h => step_args ihf ha hw h
        seq := fun es s k L bc rc n σ ic bcs w r w' hs hw h => step_seq ihf hs hw h
        cond := fun arms s endB errB L bc rc n σ ic bcs w r w' hs herr hw h => step_cond ihf hs herr hw h
        forL := fun c st d cs br ss shdr ds endB k L bc rc σ ic bcs w r w' hc hst hshdr hd hbr hend hwc hws hwd h =>
          step_for ihf hc hst hshdr hd hbr hend hwc hws hwd h }

end PyTealV.Proofs.C02Gen
