/-
  C02Gen (part 6): the `call` case and the induction over the fuel for whole programs.

  * `PCtx`, `ProgOK`, `RoutOK`: a source program, the multi-routine graph program generated from
    it, and what is known about every routine graph (prologue block, `ShapeR` of the wrapped
    body, arity typing);
  * `callee_run`: from the `callsub` instruction, through the callee's prologue and body, back to
    the instruction after the `callsub` (uses the induction hypothesis at the callee — the fuel of
    `Src.eval` decreases at every call, so recursion needs no extra argument);
  * `CallFrame`: what the ops around the `callsub` (nothing, or the spill / restore code of a
    re-entrant call) have to do; `case_call` is proved relative to a `FrameProvider`;
  * `sound_all`: every routine of the program matches `Src.eval`.
-/
import PyTealV.Proofs.C02GenSem
import PyTealV.Proofs.C02GenSrc
namespace PyTealV.Proofs.C02Gen
open PyTealV PyTealV.Avm PyTealV.Src PyTealV.Comp PyTealV.Models.Fragment PyTealV.Models.FragmentR
open PyTealV.Check (isSimple)
open PyTealV.Proofs.Shape (ovf Blk isUnm retOut)

structure PCtx where
  cx : Ctx
  p : Prog
  Pg : PProg
  version : Nat

def PCtx.K (P : PCtx) (rv : Bool) : RK := { callees := calleesOf P.p, rv := rv }

def mainCfg (P : PCtx) : RCfg :=
  { version := P.version, inSub := false, callees := calleesOf P.p, markIndex := false }

def subCfg (P : PCtx) (sd : SubDef) : RCfg :=
  { version := P.version, inSub := true, framePointers := false, frameParams := [], callees := calleesOf P.p,
    reenters := sd.reenters, localSlots := spillSlots sd, markIndex := false }

/-- `compileSubroutine`: a body without return is wrapped -/
def wrapBody (sd : SubDef) : Expr :=
  if hasReturn sd.body then sd.body
  else if sd.hasRet then .ret (some sd.body) else .seq [sd.body, .ret none]

/-- the prologue of the scratch-slot convention: store the arguments, last one first -/
def prologue (sd : SubDef) : List Instr := (sd.params.reverse.map (·.2)).map Instr.store

/-- what is known about the graph of subroutine `f` -/
structure SubOK (P : PCtx) (f : Nat) (sd : SubDef) : Prop where
  look : ∃ G sf bs, P.Pg.subs.lookup (subLabel f) = some (G, sf) ∧ Blk G sf (prologue sd) (.next bs) ∧
    ShapeR G (subCfg P sd) (wrapBody sd) bs 0 none
  wt : wtR (P.K sd.hasRet) false true (if sd.hasRet then 1 else 0) sd.body = true
  pnodup : (sd.params.map (·.2)).Nodup
  p256 : ∀ kv ∈ sd.params, kv.2 < 256
  snodup : (spillSlots sd).Nodup
  s256 : ∀ s ∈ spillSlots sd, s < 256
  sset : ∀ x, x ∈ sd.locals ↔ x ∈ spillSlots sd

/-- routine `f` has a graph in the program (a certificate holds the reachable routines only) -/
def Present (P : PCtx) (f : Nat) : Prop := (P.Pg.subs.lookup (subLabel f)).isSome = true

/-- every declared routine *that has a graph* has the properties `SubOK` -/
def ProgOK (P : PCtx) : Prop := ∀ f sd, findSub P.p f = some sd → Present P f → SubOK P f sd

/-- a routine of the program: its machine context, generator configuration, typing context and
    the `cur` field of the source environment -/
inductive RoutOK (P : PCtx) : MCtx → RCfg → RK → Option Nat → Prop
  | main {X : MCtx} : X.Pg = P.Pg → X.r = none → RoutOK P X (mainCfg P) (P.K true) none
  | sub {X : MCtx} {f : Nat} {sd : SubDef} {fr : GFrame} {cs' : List GFrame} : X.Pg = P.Pg →
      findSub P.p f = some sd → X.r = some (subLabel f) → X.cs = fr :: cs' → fr.proto = none →
      RoutOK P X (subCfg P sd) (P.K sd.hasRet) (some f)

theorem RoutOK.kind {P : PCtx} {X cfg K cur} (h : RoutOK P X cfg K cur) : RKind X cfg := by
  cases h with
  | main _ hr => exact .main rfl hr
  | sub _ _ hr hcs hpr => exact .sub rfl hr hcs hpr

theorem RoutOK.pg {P : PCtx} {X cfg K cur} (h : RoutOK P X cfg K cur) : X.Pg = P.Pg := by
  cases h <;> assumption

theorem RoutOK.mark {P : PCtx} {X cfg K cur} (h : RoutOK P X cfg K cur) : cfg.markIndex = false := by
  cases h <;> rfl

theorem RoutOK.fp {P : PCtx} {X cfg K cur} (h : RoutOK P X cfg K cur) : cfg.frameParams = [] := by
  cases h <;> rfl

theorem RoutOK.callees {P : PCtx} {X cfg K cur} (h : RoutOK P X cfg K cur) : cfg.callees = calleesOf P.p := by
  cases h <;> rfl

theorem RoutOK.kcallees {P : PCtx} {X cfg K cur} (h : RoutOK P X cfg K cur) : K.callees = calleesOf P.p := by
  cases h <;> rfl

/-- every call block of a routine of the program calls a routine that has a graph -/
def CallPresent (P : PCtx) : Prop :=
  ∀ X cfg K cur, RoutOK P X cfg K cur → ∀ f ce cb k, cfg.callees.find? (·.id == f) = some ce →
    Blk X.G cb (callOps cfg f ce) (.next k) → Present P f

def All (P : PCtx) (fuel : Nat) : Prop :=
  ∀ X cfg K cur, RoutOK P X cfg K cur → AllX X cfg K ⟨P.cx, P.p, cur⟩ fuel

/-! ### the callee, from `callsub` to the instruction after it -/

/-- the world in which the body runs: parameters bound first-to-last (`Src.eval`) -/
def bindW (sd : SubDef) (st : List Val) (w1 : World) : World :=
  let sc := (sd.params.zip st.reverse).foldl (fun sc (p : (ParamKind × Var) × Val) => setSlot sc p.1.2 p.2) w1.scratch
  { w1 with scratch := sc }

section Callee
variable (cx : Ctx) (X : MCtx) (cb i : Nat) (st σ' : List Val) (ic : List Nat) (bcs : List Bytes) (w1 : World)
  (hasRet : Bool)

/-- what the machine does from the `callsub` for each result of the callee's body -/
def CalleeGoal : Res → World → Prop
  | .ret none, w3 => hasRet = false ∧
      ReachS cx X.Pg (X.st ⟨cb, i⟩ ⟨st ++ σ', ic, bcs, w1⟩) (X.st ⟨cb, i + 1⟩ ⟨σ', ic, bcs, w3⟩)
  | .ret (some v), w3 => hasRet = true ∧
      ReachS cx X.Pg (X.st ⟨cb, i⟩ ⟨st ++ σ', ic, bcs, w1⟩) (X.st ⟨cb, i + 1⟩ ⟨v :: σ', ic, bcs, w3⟩)
  | .vals [], w3 => hasRet = false ∧
      ReachS cx X.Pg (X.st ⟨cb, i⟩ ⟨st ++ σ', ic, bcs, w1⟩) (X.st ⟨cb, i + 1⟩ ⟨σ', ic, bcs, w3⟩)
  | .vals [v], w3 => hasRet = true ∧
      ReachS cx X.Pg (X.st ⟨cb, i⟩ ⟨st ++ σ', ic, bcs, w1⟩) (X.st ⟨cb, i + 1⟩ ⟨v :: σ', ic, bcs, w3⟩)
  | .vals _, _ => False
  | .brk, _ => False
  | .cont, _ => False
  | .exit v, w3 => HaltS cx X.Pg (X.st ⟨cb, i⟩ ⟨st ++ σ', ic, bcs, w1⟩) (retOut v w3)
  | .fail f, _ => isUnm f ∨ FailS cx X.Pg (X.st ⟨cb, i⟩ ⟨st ++ σ', ic, bcs, w1⟩)

end Callee

/-- the prologue binds the parameters (up to `SameW`: it stores them in the opposite order) -/
theorem prologue_reach {cx : Ctx} {Xf : MCtx} {sd : SubDef} {sf bs : Nat} {st σ' : List Val} {ic bcs} {w1 : World}
    (hpro : Blk Xf.G sf (prologue sd) (.next bs)) (hlen : st.length = sd.params.length)
    (hnd : (sd.params.map (·.2)).Nodup) (h256 : ∀ kv ∈ sd.params, kv.2 < 256) :
    ReachO cx Xf ⟨sf, 0⟩ ⟨st ++ σ', ic, bcs, w1⟩ ⟨bs, 0⟩ ⟨σ', ic, bcs, bindW sd st w1⟩ := by
  refine ReachO.of_block hpro (stores_simple _) (fun wm hw _ => .inr
    ⟨{ wm with scratch := bindAll ((sd.params.reverse.map (·.2)).zip st) wm.scratch }, ?_, ?_⟩)
  rotate_left
  · exact stores_exec (env := ⟨cx, default, none⟩) (σ := σ') (ic := ic) (bcs := bcs) (sd.params.reverse.map (·.2)) st wm
      (by simp [hlen]) (by
        intro v hv
        obtain ⟨kv, hkv, rfl⟩ := List.mem_map.mp hv
        exact h256 kv (List.mem_reverse.mp hkv))
  · -- the two binding orders give the same content
    have hsrc : (sd.params.zip st.reverse).foldl
        (fun sc (p : (ParamKind × Var) × Val) => setSlot sc p.1.2 p.2) w1.scratch
        = bindAll ((sd.params.map (·.2)).zip st.reverse) w1.scratch := by
      rw [bindAll, List.zip_map_left, List.foldl_map]
      rfl
    have hrev : (sd.params.reverse.map (·.2)).zip st = ((sd.params.map (·.2)).zip st.reverse).reverse := by
      rw [zip_reverse_eq _ _ (by simp [hlen]), List.reverse_reverse, List.map_reverse]
    have hkeys : (((sd.params.map (·.2)).zip st.reverse).map (·.1)).Nodup := by
      rw [List.map_fst_zip (by simp [hlen])]
      exact hnd
    refine ⟨fun x => ?_, ?_⟩
    · show getSlot (bindW sd st w1).scratch x = _
      simp only [bindW, hsrc]
      rw [hrev]
      exact getSlot_bindAll_reverse _ _ _ hkeys hw.1 x
    · simp only [bindW]
      rw [hw.2]

/-- what the body of the callee (entered at `bs` with the stack `σ'` left by the prologue) does,
    in terms of the caller's return point -/
def BodyRes (cx : Ctx) (X Xf : MCtx) (cb i bs : Nat) (σ' : List Val) (ic : List Nat) (bcs : List Bytes)
    (w2 : World) (hasRet : Bool) : Res → World → Prop
  | .ret ov, w3 => ov.isSome = hasRet ∧
      ReachS cx X.Pg (Xf.st ⟨bs, 0⟩ ⟨σ', ic, bcs, w2⟩) (X.st ⟨cb, i + 1⟩ ⟨ov.toList ++ σ', ic, bcs, w3⟩)
  | .vals vs, w3 => vs.length = (if hasRet then 1 else 0) ∧
      ReachS cx X.Pg (Xf.st ⟨bs, 0⟩ ⟨σ', ic, bcs, w2⟩) (X.st ⟨cb, i + 1⟩ ⟨vs ++ σ', ic, bcs, w3⟩)
  | .brk, _ => False
  | .cont, _ => False
  | .exit v, w3 => HaltS cx X.Pg (Xf.st ⟨bs, 0⟩ ⟨σ', ic, bcs, w2⟩) (retOut v w3)
  | .fail f, _ => isUnm f ∨ FailS cx X.Pg (Xf.st ⟨bs, 0⟩ ⟨σ', ic, bcs, w2⟩)

theorem BodyRes.callee {cx : Ctx} {X Xf : MCtx} {cb i bs : Nat} {st σ' : List Val} {ic bcs} {w1 w2 : World}
    {hasRet : Bool} {r3 : Res} {w3 : World}
    (pre : ReachS cx X.Pg (X.st ⟨cb, i⟩ ⟨st ++ σ', ic, bcs, w1⟩) (Xf.st ⟨bs, 0⟩ ⟨σ', ic, bcs, w2⟩))
    (h : BodyRes cx X Xf cb i bs σ' ic bcs w2 hasRet r3 w3) :
    CalleeGoal cx X cb i st σ' ic bcs w1 hasRet r3 w3 := by
  cases r3 with
  | ret ov =>
    obtain ⟨hov, hr⟩ := h
    cases ov with
    | none => exact ⟨by simpa using hov.symm, pre.trans hr⟩
    | some v => exact ⟨by simpa using hov.symm, pre.trans hr⟩
  | vals vs =>
    obtain ⟨hl, hr⟩ := h
    cases hasRet with
    | false =>
      simp only [Bool.false_eq_true, if_false] at hl
      have : vs = [] := List.length_eq_zero_iff.mp hl
      subst this
      exact ⟨rfl, pre.trans hr⟩
    | true =>
      simp only [if_true] at hl
      match vs, hl with
      | [v], _ => exact ⟨rfl, pre.trans hr⟩
  | brk => exact h
  | cont => exact h
  | exit v => exact pre.haltS h
  | fail f => exact h.imp id pre.failS

/-- a `Goal` of the callee's body at the top of the routine, read from the caller's side -/
theorem bodyRes_of_goal {cx : Ctx} {X Xf : MCtx} {cb i bs kk : Nat} {σ' : List Val} {ic bcs} {w2 : World}
    {hasRet : Bool} {n : Nat} {r3 : Res} {w3 : World} {fr : GFrame}
    (hXf : Xf.Pg = X.Pg) (hr : ∃ l, Xf.r = some l) (hcs : Xf.cs = fr :: X.cs)
    (hfr : fr.ret = X.r ∧ fr.pt = ⟨cb, i + 1⟩)
    (g : Goal cx Xf bs kk none false true hasRet n σ' ic bcs w2 r3 w3)
    (hvals : ∀ vs, r3 = .vals vs → vs.length = (if hasRet then 1 else 0) ∧
      ReachS cx X.Pg (Xf.st ⟨bs, 0⟩ ⟨σ', ic, bcs, w2⟩) (X.st ⟨cb, i + 1⟩ ⟨vs ++ σ', ic, bcs, w3⟩)) :
    BodyRes cx X Xf cb i bs σ' ic bcs w2 hasRet r3 w3 := by
  obtain ⟨l, hl⟩ := hr
  cases r3 with
  | ret ov =>
    obtain ⟨_, hov, hg⟩ := g
    unfold RetGoal at hg
    simp only [hl, hcs] at hg
    refine ⟨hov, ?_⟩
    have := hg.2
    rw [hfr.1, hfr.2, hXf] at this
    exact this
  | vals vs => exact hvals vs rfl
  | brk => obtain ⟨_, l', hl', _⟩ := g; cases hl'
  | cont => obtain ⟨_, l', hl', _⟩ := g; cases hl'
  | exit v =>
    have : HaltS cx Xf.Pg (Xf.st ⟨bs, 0⟩ ⟨σ', ic, bcs, w2⟩) (retOut v w3) := g
    rw [hXf] at this
    exact this
  | fail f =>
    refine g.imp id (fun h => ?_)
    have : FailS cx Xf.Pg (Xf.st ⟨bs, 0⟩ ⟨σ', ic, bcs, w2⟩) := h
    rw [hXf] at this
    exact this

theorem callee_run {P : PCtx} {fuel : Nat} (hP : ProgOK P) (ihAll : All P fuel) {X : MCtx} (hXP : X.Pg = P.Pg)
    {f : Nat} {sd : SubDef} (hsd : findSub P.p f = some sd) (hpres : Present P f)
    {cb i : Nat} {blk : Block} (hbk : X.G[cb]? = some blk) (hx : blk.ops[i]? = some (.callsub (subLabel f)))
    {st σ' : List Val} {ic bcs} {w1 : World} (hlen : st.length = sd.params.length)
    {r3 : Res} {w3 : World} (hev : eval ⟨P.cx, P.p, some f⟩ fuel sd.body (bindW sd st w1) = (r3, w3)) :
    CalleeGoal P.cx X cb i st σ' ic bcs w1 sd.hasRet r3 w3 := by
  have hS := hP f sd hsd hpres
  obtain ⟨G, sf, bs, hl, hpro, hsh⟩ := hS.look
  rw [← hXP] at hl
  let fr : GFrame := { ret := X.r, pt := ⟨cb, i + 1⟩, height := (st ++ σ').length }
  let Xf : MCtx := ⟨X.Pg, some (subLabel f), fr :: X.cs, G, by simp [PProg.graphOf, hl]⟩
  have hcall : ReachS P.cx X.Pg (X.st ⟨cb, i⟩ ⟨st ++ σ', ic, bcs, w1⟩) (Xf.st ⟨sf, 0⟩ ⟨st ++ σ', ic, bcs, w1⟩) :=
    fun wm hw _ => .inr ⟨wm, hw, .step (callsub_step hbk hx hl)⟩
  have hpre : ReachS P.cx X.Pg (X.st ⟨cb, i⟩ ⟨st ++ σ', ic, bcs, w1⟩)
      (Xf.st ⟨bs, 0⟩ ⟨σ', ic, bcs, bindW sd st w1⟩) :=
    hcall.trans (prologue_reach (Xf := Xf) hpro hlen hS.pnodup hS.p256)
  have hRK : RoutOK P Xf (subCfg P sd) (P.K sd.hasRet) (some f) := .sub hXP hsd rfl rfl rfl
  have ihf := ihAll Xf _ _ _ hRK
  refine BodyRes.callee hpre ?_
  have hwt := hS.wt
  unfold wrapBody at hsh
  split at hsh
  · -- the body has a return on every path: compiled as it is
    rename_i hret
    have g := ihf.ev _ _ _ _ _ _ _ σ' ic bcs _ _ _ hsh hwt hev
    exact bodyRes_of_goal (fr := fr) rfl ⟨_, rfl⟩ rfl ⟨rfl, rfl⟩ g
      (fun vs hvs => by subst hvs; exact (hasReturn_no_vals hret hev).elim)
  · split at hsh
    · -- `Return(body)`
      rename_i hret hhr
      rw [if_pos hhr] at hwt
      cases hsh with
      | ret hb he =>
        have hb' : Blk Xf.G _ [.retsub] (.next 0) := hb
        have g := ihf.ev _ _ _ _ _ _ _ σ' ic bcs _ _ _ he hwt hev
        refine bodyRes_of_goal (fr := fr) rfl ⟨_, rfl⟩ rfl ⟨rfl, rfl⟩ g (fun vs hvs => ?_)
        subst hvs
        obtain ⟨hl1, hr⟩ := g
        refine ⟨by simpa [hhr] using hl1, ?_⟩
        exact ReachS.trans hr (retsub_reach (X := Xf) hb' rfl rfl)
    · -- `Seq(body, Return())`
      rename_i hret hhr
      rw [if_neg hhr] at hwt
      cases hsh with
      | seq hss =>
        cases hss with
        | cons hrest he =>
          cases hrest with
          | cons hnil hretn =>
            cases hretn with
            | retNone _ hb =>
              have g := ihf.ev _ _ _ _ _ _ _ σ' ic bcs _ _ _ he hwt hev
              refine bodyRes_of_goal (fr := fr) rfl ⟨_, rfl⟩ rfl ⟨rfl, rfl⟩ g (fun vs hvs => ?_)
              subst hvs
              obtain ⟨hl1, hr⟩ := g
              refine ⟨by simpa [hhr] using hl1, ?_⟩
              exact ReachS.trans hr (retsub_reach (X := Xf) hb rfl rfl)

/-! ### the ops around the `callsub` -/

/-- the caller's variables that `Src.eval` saves around a call of `f` -/
def srcLocals (p : Prog) (cur : Option Nat) (f : Nat) : List Var :=
  match cur with
  | some c => (match findSub p c with
    | some cd => if cd.reenters.contains f then cd.locals else []
    | none => [])
  | none => []

/-- `restore` of `Src.eval`: the saved values (read in `w1`) written back into `w3` -/
def restoreW (locals : List Var) (w1 w3 : World) : World :=
  let saved := locals.map (fun v => (v, getSlot w1.scratch v))
  { w3 with scratch := saved.foldl (fun sc (p : Var × Val) => setSlot sc p.1 p.2) w3.scratch }

/-- What the ops of a call block have to do around the `callsub` at position `i`: bring the
    arguments `st` to the top of some stack `rest` (the spilled locals go underneath), and after
    the callee has replaced them by its results `rets`, re-establish the caller's stack `σ` and
    locals. -/
def CallFrame (cx : Ctx) (X : MCtx) (cb k f nret : Nat) (locals : List Var) (st σ : List Val) (ic : List Nat)
    (bcs : List Bytes) (w1 : World) : Prop :=
  ∃ blk i rest, X.G[cb]? = some blk ∧ blk.ops[i]? = some (.callsub (subLabel f)) ∧
    ReachS cx X.Pg (X.st ⟨cb, 0⟩ ⟨st ++ σ, ic, bcs, w1⟩) (X.st ⟨cb, i⟩ ⟨st ++ rest, ic, bcs, w1⟩) ∧
    ∀ rets w3, rets.length = nret →
      ReachS cx X.Pg (X.st ⟨cb, i + 1⟩ ⟨rets ++ rest, ic, bcs, w3⟩)
        (X.st ⟨k, 0⟩ ⟨rets ++ σ, ic, bcs, restoreW locals w1 w3⟩)

def FrameProvider (P : PCtx) : Prop :=
  ∀ X cfg K cur, RoutOK P X cfg K cur → ∀ f ce cb k st σ ic bcs w1,
    cfg.callees.find? (·.id == f) = some ce → Blk X.G cb (callOps cfg f ce) (.next k) → st.length = ce.nArgs →
    CallFrame P.cx X cb k f (if ce.hasRet then 1 else 0) (srcLocals P.p cur f) st σ ic bcs w1

theorem case_call {P : PCtx} {fuel : Nat} (hP : ProgOK P) (hC : CallPresent P) (hF : FrameProvider P) (ihAll : All P fuel)
    {X : MCtx} {cfg : RCfg} {K : RK} {cur : Option Nat} (hR : RoutOK P X cfg K cur)
    (ih : AllX X cfg K ⟨P.cx, P.p, cur⟩ fuel)
    {f args ce s cb k L bc rc n σ ic bcs w r w'}
    (hf : cfg.callees.find? (·.id == f) = some ce) (hb : Blk X.G cb (callOps cfg f ce) (.next k))
    (ha : ShapeRArgs X.G cfg args s cb L) (hw : wtR K bc rc n (.call f args) = true)
    (h : eval ⟨P.cx, P.p, cur⟩ (fuel + 1) (.call f args) w = (r, w')) :
    Goal P.cx X s k L bc rc K.rv n σ ic bcs w r w' := by
  have hf' := hf
  rw [hR.callees, callees_find] at hf'
  cases hsd : findSub P.p f with
  | none => rw [hsd] at hf'; cases hf'
  | some sd =>
    rw [hsd] at hf'
    simp only [Option.map_some, Option.some.injEq] at hf'
    simp only [wtR, hR.kcallees] at hw
    rw [← hR.callees, hf] at hw
    simp only [Bool.and_eq_true, beq_iff_eq] at hw
    obtain ⟨⟨hnargs, hn⟩, hwa⟩ := hw
    have hce1 : ce.nArgs = sd.params.length := by rw [← hf']; rfl
    have hce2 : ce.hasRet = sd.hasRet := by rw [← hf']; rfl
    simp only [eval, hsd] at h
    rcases hev : evalArgs ⟨P.cx, P.p, cur⟩ fuel args w [] with ⟨r1, w1⟩
    rw [hev] at h
    have g1 := ih.args _ _ _ _ [] σ ic bcs _ _ _ ha hwa hev
    simp only [List.nil_append, List.length_nil, Nat.zero_add] at g1
    cases r1 with
    | vals st =>
      obtain ⟨hlen, hr⟩ := g1
      have hlen' : st.length = sd.params.length := by omega
      obtain ⟨blk, i, rest, hbk, hx, hBefore, hAfter⟩ :=
        hF X cfg K cur hR f ce cb k st σ ic bcs w1 hf hb (by omega)
      simp only [List.length_reverse, hlen', ne_eq, not_true_eq_false, if_false] at h
      rcases hbody : eval ⟨P.cx, P.p, some f⟩ fuel sd.body (bindW sd st w1) with ⟨r3, w3⟩
      have cg := callee_run (σ' := rest) (ic := ic) (bcs := bcs) hP ihAll hR.pg hsd
        (hC X cfg K cur hR f ce cb k hf hb) hbk hx hlen' hbody
      have hbody' := hbody
      simp only [bindW] at hbody'
      rw [hbody'] at h
      simp only [] at h
      have hpre : ReachS P.cx X.Pg (X.st ⟨s, 0⟩ ⟨σ, ic, bcs, w⟩) (X.st ⟨cb, i⟩ ⟨st ++ rest, ic, bcs, w1⟩) :=
        ReachS.trans hr hBefore
      have hnret : ∀ rets : List Val, rets.length = (if sd.hasRet then 1 else 0) →
          rets.length = (if ce.hasRet then 1 else 0) := by intro rets hh; rw [hce2]; exact hh
      cases r3 with
      | ret ov =>
        cases ov with
        | none =>
          obtain ⟨hhr, hR3⟩ := cg
          simp only [hhr, Bool.false_eq_true, if_false] at h
          cases h
          refine ⟨by rw [hn, hce2, hhr]; rfl, ?_⟩
          exact ReachS.trans hpre (ReachS.trans hR3 (hAfter [] w3 (hnret [] (by simp [hhr]))))
        | some v =>
          obtain ⟨hhr, hR3⟩ := cg
          simp only [hhr, if_true] at h
          cases h
          refine ⟨by rw [hn, hce2, hhr]; rfl, ?_⟩
          exact ReachS.trans hpre (ReachS.trans hR3 (hAfter [v] w3 (hnret [v] (by simp [hhr]))))
      | vals vs =>
        match vs, cg with
        | [], cg =>
          obtain ⟨hhr, hR3⟩ := cg
          simp only [hhr, Bool.false_eq_true, if_false] at h
          cases h
          refine ⟨by rw [hn, hce2, hhr]; rfl, ?_⟩
          exact ReachS.trans hpre (ReachS.trans hR3 (hAfter [] w3 (hnret [] (by simp [hhr]))))
        | [v], cg =>
          obtain ⟨hhr, hR3⟩ := cg
          simp only [hhr, if_true] at h
          cases h
          refine ⟨by rw [hn, hce2, hhr]; rfl, ?_⟩
          exact ReachS.trans hpre (ReachS.trans hR3 (hAfter [v] w3 (hnret [v] (by simp [hhr]))))
        | _ :: _ :: _, cg => exact cg.elim
      | brk => exact cg.elim
      | cont => exact cg.elim
      | exit v =>
        cases h
        exact ReachS.haltS hpre cg
      | fail f' =>
        cases h
        exact cg.imp id (ReachS.failS hpre)
    | _ =>
      simp only [] at h
      cases h
      exact g1.same (by intro vs hh; cases hh) (by simp) (by simp)

/-- **Semantic half for whole programs.**  Every routine graph of the program matches `Src.eval`
    (all five mutually recursive evaluators, all routines, all call stacks). -/
theorem sound_all {P : PCtx} (hP : ProgOK P) (hC : CallPresent P) (hF : FrameProvider P) : ∀ fuel, All P fuel := by
  intro fuel
  induction fuel using Nat.strongRecOn with
  | _ fuel ih =>
    match fuel, ih with
    | 0, _ => intro X cfg K cur _; exact all_zero
    | f + 1, ih =>
      intro X cfg K cur hR
      have ihs : ∀ f', f' ≤ f → AllX X cfg K ⟨P.cx, P.p, cur⟩ f' :=
        fun f' h => ih f' (Nat.lt_succ_of_le h) X cfg K cur hR
      have ihf := ihs f (Nat.le_refl _)
      have ihAll : All P f := ih f (Nat.lt_succ_self f)
      exact {
        ev := fun e s k L bc rc n σ ic bcs w r w' hs hw h =>
          step_ev hR.kind hR.mark hR.fp ihs
            (fun f' args ce s cb k L bc rc n σ ic bcs w r w' hf hb ha hw h =>
              case_call hP hC hF ihAll hR ihf hf hb ha hw h) hs hw h
        args := fun es s k L acc σ ic bcs w r w' ha hw h => step_args ihf ha hw h
        seq := fun es s k L bc rc n σ ic bcs w r w' hs hw h => step_seq ihf hs hw h
        cond := fun arms s endB errB L bc rc n σ ic bcs w r w' hs herr hw h => step_cond ihf hs herr hw h
        forL := fun c st d cs br ss shdr ds endB k L bc rc σ ic bcs w r w' hc hst hshdr hd hbr hend hwc hws hwd h =>
          step_for ihf hc hst hshdr hd hbr hend hwc hws hwd h }

end PyTealV.Proofs.C02Gen
