/-
  Soundness of the translation validator `Check.closed` (Check/Sim.lean):
  if the certificate check accepts a relation `V` between the program points of a routine graph
  `G` (entry block `s`) and the pcs of a flat TEAL program `P` (the main routine: started at pc 0
  with an empty call stack), then `G` and `P` have the same terminating outcomes on every context
  and every initial machine state, and neither terminates unless the other does
  (`sim_sound_forward`, `sim_sound_backward`).
-/
import PyTealV.Check.Sim
namespace PyTealV.Check
open PyTealV PyTealV.Avm PyTealV.Comp

deriving instance ReflBEq, LawfulBEq for GPos
deriving instance ReflBEq, LawfulBEq for Instr

/-! ### fuel -/

theorem runFrom_succ (cx : Ctx) (P : Program) (n : Nat) (st : St) :
    runFrom cx P (n + 1) st = (match step cx P st with | .next s' => runFrom cx P n s' | .halt o => o) := rfl

theorem runFrom_mono (cx : Ctx) (P : Program) : ∀ (n n' : Nat) (st : St),
    runFrom cx P n st ≠ .outOfFuel → n ≤ n' → runFrom cx P n' st = runFrom cx P n st := by
  intro n
  induction n with
  | zero => intro n' st h _; exact absurd rfl h
  | succ n ih =>
    intro n' st h hle
    cases n' with
    | zero => omega
    | succ n' =>
      rw [runFrom_succ] at h ⊢
      rw [runFrom_succ]
      split
      · rename_i s' hs
        rw [hs] at h
        exact ih n' s' h (by omega)
      · rfl

/-- outcome of the graph run (falling out of the graph = end of program) -/
def GO (cx : Ctx) (G : Graph) (n : Nat) (p : GPt) (m : MS) : Outcome := (grunAt cx G n p m).toOutcome

theorem grunAt_succ (cx : Ctx) (G : Graph) (n : Nat) (p : GPt) (m : MS) :
    grunAt cx G (n + 1) p m =
      (match gstep cx G p m with
       | .next p' m' => grunAt cx G n p' m'
       | .halt o => .halt o
       | .fell m' => .fell m') := rfl

theorem GO_zero (cx : Ctx) (G : Graph) (p : GPt) (m : MS) : GO cx G 0 p m = .outOfFuel := rfl

theorem GO_succ (cx : Ctx) (G : Graph) (n : Nat) (p : GPt) (m : MS) :
    GO cx G (n + 1) p m =
      (match gstep cx G p m with
       | .next p' m' => GO cx G n p' m'
       | .halt o => o
       | .fell m' => finish m') := by
  unfold GO
  rw [grunAt_succ]
  split <;> rfl

theorem GO_mono (cx : Ctx) (G : Graph) : ∀ (n n' : Nat) (p : GPt) (m : MS),
    GO cx G n p m ≠ .outOfFuel → n ≤ n' → GO cx G n' p m = GO cx G n p m := by
  intro n
  induction n with
  | zero => intro n' p m h _; exact absurd rfl h
  | succ n ih =>
    intro n' p m h hle
    cases n' with
    | zero => omega
    | succ n' =>
      rw [GO_succ] at h ⊢
      rw [GO_succ]
      split
      · rename_i p' m' hs
        rw [hs] at h
        exact ih n' p' m' h (by omega)
      · rfl
      · rfl

/-- if `f` needs `k` silent steps to become `g`, a terminating run of `f` has at least `k` fuel -/
theorem fuel_split (f g : Nat → Outcome) (k N : Nat)
    (hm : ∀ n n', f n ≠ .outOfFuel → n ≤ n' → f n' = f n)
    (hs : ∀ n, f (n + k) = g n) (hg0 : g 0 = .outOfFuel) (hN : f N ≠ .outOfFuel) :
    ∃ n0, n0 + k = N ∧ g n0 = f N := by
  by_cases hle : N ≤ k
  · have h1 := hm N k hN hle
    have h2 := hs 0
    rw [Nat.zero_add] at h2
    rw [h2, hg0] at h1
    exact absurd h1.symm hN
  · refine ⟨N - k, by omega, ?_⟩
    rw [← hs (N - k)]
    congr 1
    omega

/-! ### silent steps -/

theorem pskip_sil (cx : Ctx) (P : Program) : ∀ (f pc pc' : Nat), pskip P f pc = some pc' →
    ∃ k, ∀ (c : List Frame) (m : MS) (n : Nat),
      runFrom cx P (n + k) ⟨pc, c, m⟩ = runFrom cx P n ⟨pc', c, m⟩ := by
  intro f
  induction f with
  | zero => intro pc pc' h; simp [pskip] at h
  | succ f ih =>
    intro pc pc' h
    unfold pskip at h
    split at h
    · -- end of program
      split at h
      · cases h; exact ⟨0, fun _ _ _ => rfl⟩
      · cases h
    · rename_i ln hln
      split at h
      · -- label
        rename_i l hi
        obtain ⟨k, hk⟩ := ih _ _ h
        refine ⟨k + 1, fun c m n => ?_⟩
        have hst : step cx P ⟨pc, c, m⟩ = .next ⟨pc + 1, c, m⟩ := by
          simp [step, hln, hi, execSimple]
        rw [← Nat.add_assoc, runFrom_succ, hst]
        exact hk c m n
      · -- pragma
        rename_i a b hi
        obtain ⟨k, hk⟩ := ih _ _ h
        refine ⟨k + 1, fun c m n => ?_⟩
        have hst : step cx P ⟨pc, c, m⟩ = .next ⟨pc + 1, c, m⟩ := by
          simp [step, hln, hi, execSimple]
        rw [← Nat.add_assoc, runFrom_succ, hst]
        exact hk c m n
      · -- b l
        rename_i l hi
        split at h
        · rename_i t ht
          obtain ⟨k, hk⟩ := ih _ _ h
          refine ⟨k + 1, fun c m n => ?_⟩
          have hst : step cx P ⟨pc, c, m⟩ = .next ⟨t, c, m⟩ := by
            simp [step, hln, hi, execSimple, jump, ht]
          rw [← Nat.add_assoc, runFrom_succ, hst]
          exact hk c m n
        · cases h
      · cases h; exact ⟨0, fun _ _ _ => rfl⟩

/-- the graph point `p` is the one denoted by the normalised position `gp` -/
def GAt (G : Graph) : GPos → GPt → Prop
  | .op b i, p => p = ⟨b, i⟩
  | .br b, p => p.b = b ∧ ∃ blk, G[b]? = some blk ∧ blk.ops[p.i]? = none
  | .fell b, p => p.b = b ∧ ∃ blk, G[b]? = some blk ∧ blk.ops[p.i]? = none ∧ blk.succ = .none

theorem gskip_sil (cx : Ctx) (G : Graph) : ∀ (f b i : Nat) (gp : GPos), gskip G f b i = some gp →
    ∃ p k, GAt G gp p ∧ ∀ (m : MS) (n : Nat), grunAt cx G (n + k) ⟨b, i⟩ m = grunAt cx G n p m := by
  intro f
  induction f with
  | zero => intro b i gp h; simp [gskip] at h
  | succ f ih =>
    intro b i gp h
    unfold gskip at h
    split at h
    · cases h
    · rename_i blk hb
      split at h
      · cases h
        exact ⟨⟨b, i⟩, 0, rfl, fun _ _ => rfl⟩
      · rename_i hlt
        have hnone : blk.ops[i]? = none := by
          rw [List.getElem?_eq_none_iff]; omega
        split at h
        · rename_i c hs
          obtain ⟨p, k, hat, hk⟩ := ih _ _ _ h
          refine ⟨p, k + 1, hat, fun m n => ?_⟩
          have hst : gstep cx G ⟨b, i⟩ m = .next ⟨c, 0⟩ m := by
            simp [gstep, hb, hnone, hs]
          rw [← Nat.add_assoc, grunAt_succ, hst]
          exact hk m n
        · cases h
          exact ⟨⟨b, i⟩, 0, ⟨rfl, blk, hb, hnone⟩, fun _ _ => rfl⟩
        · rename_i hs
          cases h
          exact ⟨⟨b, i⟩, 0, ⟨rfl, blk, hb, hnone, hs⟩, fun _ _ => rfl⟩

/-! ### straight-line instructions -/

theorem isSimple_exec (cx : Ctx) (x : Instr) (m : MS) (h : isSimple x = true) :
    ∃ r, execSimple cx x m = some r := by
  cases x <;> simp [isSimple] at h <;> simp [execSimple]

theorem isTerminal_exec (cx : Ctx) (x : Instr) (m m' : MS) (h : isTerminalOp x = true) :
    execSimple cx x m ≠ some (.ok m') := by
  cases x <;> simp [isTerminalOp] at h
  · simp only [execSimple]
    split
    · split <;> simp
    · simp
  · simp [execSimple]

/-! ### one visible step -/

section
variable (cx : Ctx) (G : Graph) (P : Program) (V : Rel)

/-- both sides stop with the same outcome -/
def BothHalt (p : GPt) (pc : Nat) (c : List Frame) (m : MS) : Prop :=
  ∃ o, (∀ n, GO cx G (n + 1) p m = o) ∧ (∀ n, runFrom cx P (n + 1) ⟨pc, c, m⟩ = o)

/-- both sides reach, after finitely many steps, a related pair with the same machine state -/
def BothNext (p : GPt) (pc : Nat) (c : List Frame) (m : MS) : Prop :=
  ∃ gp' pc' p' m' kg kp, (gp', pc') ∈ V ∧ GAt G gp' p' ∧
    (∀ n, GO cx G (n + kg + 1) p m = GO cx G n p' m') ∧
    (∀ n, runFrom cx P (n + kp + 1) ⟨pc, c, m⟩ = runFrom cx P n ⟨pc', c, m'⟩)

theorem relHas_elim {g : Option GPos} {q : Option Nat} (h : relHas V g q = true) :
    ∃ gp pc, g = some gp ∧ q = some pc ∧ (gp, pc) ∈ V := by
  unfold relHas at h
  split at h
  · rename_i gp pc
    exact ⟨gp, pc, rfl, rfl, by simpa using h⟩
  · cases h

theorem both_next {p : GPt} {pc : Nat} {c : List Frame} {m m' : MS} {b1 i1 pc1 F : Nat}
    (hg : gstep cx G p m = .next ⟨b1, i1⟩ m')
    (hp : step cx P ⟨pc, c, m⟩ = .next ⟨pc1, c, m'⟩)
    (hr : relHas V (gskip G F b1 i1) (pskip P F pc1) = true) :
    BothNext cx G P V p pc c m := by
  obtain ⟨gp', pc', hgs, hps, hmem⟩ := relHas_elim V hr
  obtain ⟨p', kg, hat, hkg⟩ := gskip_sil cx G _ _ _ _ hgs
  obtain ⟨kp, hkp⟩ := pskip_sil cx P _ _ _ hps
  refine ⟨gp', pc', p', m', kg, kp, hmem, hat, fun n => ?_, fun n => ?_⟩
  · rw [GO_succ, hg]
    simp only [GO]
    rw [hkg]
  · rw [runFrom_succ, hp]
    exact hkp c m' n

theorem visible_step (gp : GPos) (pc : Nat) (p : GPt) (c : List Frame) (m : MS)
    (hok : localOk G P V gp pc = true) (hat : GAt G gp p) :
    BothHalt cx G P p pc c m ∨ BothNext cx G P V p pc c m := by
  cases gp with
  | op b i =>
    simp only [GAt] at hat
    subst hat
    simp only [localOk] at hok
    split at hok
    · rename_i blk ln hb hl
      split at hok
      · rename_i x hx
        simp only [Bool.and_eq_true, Bool.or_eq_true, beq_iff_eq] at hok
        obtain ⟨⟨hxe, hsimple⟩, hrest⟩ := hok
        obtain ⟨r, hr⟩ := isSimple_exec cx x m hsimple
        cases r with
        | ok m' =>
          have hg : gstep cx G ⟨b, i⟩ m = .next ⟨b, i + 1⟩ m' := by
            simp [gstep, hb, hx, hr]
          have hp : step cx P ⟨pc, c, m⟩ = .next ⟨pc + 1, c, m'⟩ := by
            simp [step, hl, ← hxe, hr]
          rcases hrest with ht | hrel
          · exact absurd hr (isTerminal_exec cx x m m' ht)
          · exact Or.inr (both_next cx G P V hg hp hrel)
        | halt o =>
          refine Or.inl ⟨o, fun n => ?_, fun n => ?_⟩
          · rw [GO_succ]; simp [gstep, hb, hx, hr]
          · rw [runFrom_succ]; simp [step, hl, ← hxe, hr]
      · cases hok
    · cases hok
  | br b =>
    obtain ⟨hpb, blk', hb', hnone⟩ := hat
    obtain ⟨pb, pi⟩ := p
    simp only at hpb hnone
    subst hpb
    simp only [localOk] at hok
    split at hok
    · rename_i blk ln hb hl
      rw [hb'] at hb
      cases hb
      split at hok
      · -- bnz
        rename_i t f l hs hi
        split at hok
        · rename_i tgt hfl
          simp only [Bool.and_eq_true] at hok
          obtain ⟨hrt, hrf⟩ := hok
          match hst : m.stack with
          | [] =>
            refine Or.inl ⟨.fail .underflow, fun n => ?_, fun n => ?_⟩
            · rw [GO_succ]; simp [gstep, hb', hnone, hs, hst]
            · rw [runFrom_succ]; simp [step, hl, hi, execSimple, hst]
          | .b bs :: r =>
            refine Or.inl ⟨.fail (.typeErr "branch on bytes"), fun n => ?_, fun n => ?_⟩
            · rw [GO_succ]; simp [gstep, hb', hnone, hs, hst]
            · rw [runFrom_succ]; simp [step, hl, hi, execSimple, hst]
          | .u 0 :: r =>
            have hg : gstep cx G ⟨pb, pi⟩ m = .next ⟨f, 0⟩ { m with stack := r } := by
              simp [gstep, hb', hnone, hs, hst]
            have hp : step cx P ⟨pc, c, m⟩ = .next ⟨pc + 1, c, { m with stack := r }⟩ := by
              simp [step, hl, hi, execSimple, hst]
            exact Or.inr (both_next cx G P V hg hp hrf)
          | .u (k + 1) :: r =>
            have hg : gstep cx G ⟨pb, pi⟩ m = .next ⟨t, 0⟩ { m with stack := r } := by
              simp [gstep, hb', hnone, hs, hst]
            have hp : step cx P ⟨pc, c, m⟩ = .next ⟨tgt, c, { m with stack := r }⟩ := by
              simp [step, hl, hi, execSimple, hst, jump, hfl]
            exact Or.inr (both_next cx G P V hg hp hrt)
        · cases hok
      · -- bz
        rename_i t f l hs hi
        split at hok
        · rename_i tgt hfl
          simp only [Bool.and_eq_true] at hok
          obtain ⟨hrf, hrt⟩ := hok
          match hst : m.stack with
          | [] =>
            refine Or.inl ⟨.fail .underflow, fun n => ?_, fun n => ?_⟩
            · rw [GO_succ]; simp [gstep, hb', hnone, hs, hst]
            · rw [runFrom_succ]; simp [step, hl, hi, execSimple, hst]
          | .b bs :: r =>
            refine Or.inl ⟨.fail (.typeErr "branch on bytes"), fun n => ?_, fun n => ?_⟩
            · rw [GO_succ]; simp [gstep, hb', hnone, hs, hst]
            · rw [runFrom_succ]; simp [step, hl, hi, execSimple, hst]
          | .u 0 :: r =>
            have hg : gstep cx G ⟨pb, pi⟩ m = .next ⟨f, 0⟩ { m with stack := r } := by
              simp [gstep, hb', hnone, hs, hst]
            have hp : step cx P ⟨pc, c, m⟩ = .next ⟨tgt, c, { m with stack := r }⟩ := by
              simp [step, hl, hi, execSimple, hst, jump, hfl]
            exact Or.inr (both_next cx G P V hg hp hrf)
          | .u (k + 1) :: r =>
            have hg : gstep cx G ⟨pb, pi⟩ m = .next ⟨t, 0⟩ { m with stack := r } := by
              simp [gstep, hb', hnone, hs, hst]
            have hp : step cx P ⟨pc, c, m⟩ = .next ⟨pc + 1, c, { m with stack := r }⟩ := by
              simp [step, hl, hi, execSimple, hst]
            exact Or.inr (both_next cx G P V hg hp hrt)
        · cases hok
      · cases hok
    · cases hok
  | fell b =>
    obtain ⟨hpb, blk, hb, hnone, hs⟩ := hat
    obtain ⟨pb, pi⟩ := p
    simp only at hpb hnone
    subst hpb
    simp only [localOk, beq_iff_eq] at hok
    subst hok
    refine Or.inl ⟨finish m, fun n => ?_, fun n => ?_⟩
    · rw [GO_succ]; simp [gstep, hb, hnone, hs]
    · rw [runFrom_succ]; simp [step]

/-! ### induction on the fuel of the terminating side -/

theorem fwd (hV : ∀ gp pc, (gp, pc) ∈ V → localOk G P V gp pc = true) :
    ∀ (n : Nat) (gp : GPos) (pc : Nat) (p : GPt) (c : List Frame) (m : MS),
      (gp, pc) ∈ V → GAt G gp p → GO cx G n p m ≠ .outOfFuel →
      ∃ n', runFrom cx P n' ⟨pc, c, m⟩ = GO cx G n p m := by
  intro n
  induction n using Nat.strongRecOn with
  | _ n ih =>
    intro gp pc p c m hmem hat hne
    rcases visible_step cx G P V gp pc p c m (hV _ _ hmem) hat with ⟨o, hgo, hpo⟩ | ⟨gp', pc', p', m', kg, kp, hmem', hat', hgo, hpo⟩
    · cases n with
      | zero => exact absurd rfl hne
      | succ n => exact ⟨1, by rw [hgo n]; exact hpo 0⟩
    · obtain ⟨n0, hn0, he⟩ := fuel_split (fun N => GO cx G N p m) (fun N => GO cx G N p' m') (kg + 1) n
        (fun a b => GO_mono cx G a b p m) (fun a => hgo a) rfl hne
      have hne' : GO cx G n0 p' m' ≠ .outOfFuel := by
        rw [he]; exact hne
      obtain ⟨n', hn'⟩ := ih n0 (by omega) gp' pc' p' c m' hmem' hat' hne'
      refine ⟨n' + kp + 1, ?_⟩
      rw [hpo n', hn', he]

theorem bwd (hV : ∀ gp pc, (gp, pc) ∈ V → localOk G P V gp pc = true) :
    ∀ (n : Nat) (gp : GPos) (pc : Nat) (p : GPt) (c : List Frame) (m : MS),
      (gp, pc) ∈ V → GAt G gp p → runFrom cx P n ⟨pc, c, m⟩ ≠ .outOfFuel →
      ∃ n', GO cx G n' p m = runFrom cx P n ⟨pc, c, m⟩ := by
  intro n
  induction n using Nat.strongRecOn with
  | _ n ih =>
    intro gp pc p c m hmem hat hne
    rcases visible_step cx G P V gp pc p c m (hV _ _ hmem) hat with ⟨o, hgo, hpo⟩ | ⟨gp', pc', p', m', kg, kp, hmem', hat', hgo, hpo⟩
    · cases n with
      | zero => exact absurd rfl hne
      | succ n => exact ⟨1, by rw [hpo n]; exact hgo 0⟩
    · obtain ⟨n0, hn0, he⟩ := fuel_split (fun N => runFrom cx P N ⟨pc, c, m⟩)
        (fun N => runFrom cx P N ⟨pc', c, m'⟩) (kp + 1) n
        (fun a b => runFrom_mono cx P a b _) (fun a => hpo a) rfl hne
      have hne' : runFrom cx P n0 ⟨pc', c, m'⟩ ≠ .outOfFuel := by
        rw [he]; exact hne
      obtain ⟨n', hn'⟩ := ih n0 (by omega) gp' pc' p' c m' hmem' hat' hne'
      refine ⟨n' + kg + 1, ?_⟩
      rw [hgo n', hn', he]

end

/-! ### non-vacuity: a loop with a conditional exit, accepted by the validator -/

namespace SimExample

/-- block 0: `load 0`, exit on the value (non-zero → block 1, zero → block 0 again); block 1: `int 1`, end -/
def G : Graph := #[{ ops := [.load 0], succ := .cond 1 0 }, { ops := [.pushInt 1], succ := .none }]

/-- the program `L0: ; load 0 ; bnz L1 ; b L0 ; L1: ; int 1` (what `Avm.parse` returns for it; written
    out because the tokeniser does not reduce in the kernel) -/
def P : Program := #[
  ⟨⟨"L0:", []⟩, .label "L0"⟩,
  ⟨⟨"load", ["0"]⟩, .load 0⟩,
  ⟨⟨"bnz", ["L1"]⟩, .bnz "L1"⟩,
  ⟨⟨"b", ["L0"]⟩, .b "L0"⟩,
  ⟨⟨"L1:", []⟩, .label "L1"⟩,
  ⟨⟨"int", ["1"]⟩, .pushInt 1⟩]

def V : Rel := [(.op 0 0, 1), (.br 0, 2), (.op 1 0, 5), (.fell 1, 6)]

example : P.size = 6 := rfl
example : closed G 0 P V = true := by decide +kernel

end SimExample

/-! ### the validator is sound -/

theorem closed_elim {G : Graph} {s : Nat} {P : Program} {V : Rel} (h : closed G s P V = true) :
    relHas V (gskip G (skipFuel G P) s 0) (pskip P (skipFuel G P) 0) = true ∧
    ∀ gp pc, (gp, pc) ∈ V → localOk G P V gp pc = true := by
  simp only [closed, Bool.and_eq_true, List.all_eq_true] at h
  exact ⟨h.1, fun gp pc hm => h.2 (gp, pc) hm⟩

theorem sim_sound_forward (G : Graph) (s : Nat) (P : Program) (V : Rel)
    (h : closed G s P V = true) (cx : Ctx) (m : MS) (n : Nat) (o : Outcome)
    (hrun : (grun cx G n s m).toOutcome = o) (hne : o ≠ .outOfFuel) :
    ∃ n', runFrom cx P n' { pc := 0, calls := [], ms := m } = o := by
  obtain ⟨hentry, hV⟩ := closed_elim h
  obtain ⟨gp0, pc0, hgs, hps, hmem⟩ := relHas_elim V hentry
  obtain ⟨p0, kg, hat, hkg⟩ := gskip_sil cx G _ _ _ _ hgs
  obtain ⟨kp, hkp⟩ := pskip_sil cx P _ _ _ hps
  have hrun' : GO cx G n ⟨s, 0⟩ m = o := hrun
  obtain ⟨n0, hn0, he⟩ := fuel_split (fun N => GO cx G N ⟨s, 0⟩ m) (fun N => GO cx G N p0 m) kg n
    (fun a b => GO_mono cx G a b _ m) (fun a => by simp only [GO]; rw [hkg]) rfl (by rw [hrun']; exact hne)
  obtain ⟨n', hn'⟩ := fwd cx G P V hV n0 gp0 pc0 p0 [] m hmem hat (by rw [he, hrun']; exact hne)
  exact ⟨n' + kp, by rw [hkp, hn', he, hrun']⟩

theorem sim_sound_backward (G : Graph) (s : Nat) (P : Program) (V : Rel)
    (h : closed G s P V = true) (cx : Ctx) (m : MS) (n : Nat) (o : Outcome)
    (hrun : runFrom cx P n { pc := 0, calls := [], ms := m } = o) (hne : o ≠ .outOfFuel) :
    ∃ n', (grun cx G n' s m).toOutcome = o := by
  obtain ⟨hentry, hV⟩ := closed_elim h
  obtain ⟨gp0, pc0, hgs, hps, hmem⟩ := relHas_elim V hentry
  obtain ⟨p0, kg, hat, hkg⟩ := gskip_sil cx G _ _ _ _ hgs
  obtain ⟨kp, hkp⟩ := pskip_sil cx P _ _ _ hps
  obtain ⟨n0, hn0, he⟩ := fuel_split (fun N => runFrom cx P N ⟨0, [], m⟩)
    (fun N => runFrom cx P N ⟨pc0, [], m⟩) kp n
    (fun a b => runFrom_mono cx P a b _) (fun a => hkp [] m a) rfl (by rw [hrun]; exact hne)
  obtain ⟨n', hn'⟩ := bwd cx G P V hV n0 gp0 pc0 p0 [] m hmem hat (by rw [he, hrun]; exact hne)
  refine ⟨n' + kg, ?_⟩
  show GO cx G (n' + kg) ⟨s, 0⟩ m = o
  have : GO cx G (n' + kg) ⟨s, 0⟩ m = GO cx G n' p0 m := by simp only [GO]; rw [hkg]
  rw [this, hn', he, hrun]

end PyTealV.Check
