/-
  Helper lemmas for property C17, part 2: the dataflow oracle `initCheck`
  (termination measure, fixpoint characterisation).  Property theorems: `Proofs/C17.lean`.
-/
import PyTealV.Proofs.C17Lemmas
namespace PyTealV.Proofs.C17
open PyTealV.Models.ValidateSlots

/-! ## E1. scan of one block by the oracle -/

theorem mem_badLoads {b j blk i : Nat} {L : List Nat} {ops : List SOp} :
    (b, j) ∈ badLoads blk i L ops ↔
      b = blk ∧ ∃ pre s e post, ops = pre ++ SOp.load s e :: post ∧ j = i + pre.length ∧
        s ∉ L ∧ SOp.store s ∉ pre := by
  induction ops generalizing i L with
  | nil => simp [badLoads]
  | cons o os ih =>
    have up : ∀ (L' : List Nat), (∀ s, s ∉ L' ↔ s ∉ L ∧ SOp.store s ≠ o) → (∀ s e, o ≠ .load s e) →
        ((∃ pre s e post, os = pre ++ SOp.load s e :: post ∧ j = i + 1 + pre.length ∧
          s ∉ L' ∧ SOp.store s ∉ pre) ↔
        (∃ pre s e post, o :: os = pre ++ SOp.load s e :: post ∧ j = i + pre.length ∧
          s ∉ L ∧ SOp.store s ∉ pre)) := by
      intro L' hL hne
      constructor
      · rintro ⟨pre, s, e, post, h1, h2, h3, h4⟩
        refine ⟨o :: pre, s, e, post, by simp [h1], by simp; omega, ((hL s).mp h3).1, ?_⟩
        simp only [List.mem_cons, not_or]
        exact ⟨((hL s).mp h3).2, h4⟩
      · rintro ⟨pre, s, e, post, h1, h2, h3, h4⟩
        cases pre with
        | nil => simp at h1; exact absurd h1.1 (hne _ _)
        | cons o' pre =>
          simp at h1; obtain ⟨rfl, rfl⟩ := h1
          simp only [List.mem_cons, not_or] at h4
          exact ⟨pre, s, e, post, rfl, by simp at h2; omega, (hL s).mpr ⟨h3, h4.1⟩, h4.2⟩
    cases o with
    | store t =>
      simp only [badLoads, ih]
      rw [up (t :: L) (by intro s; simp only [List.mem_cons, not_or]; constructor
                          · rintro ⟨h1, h2⟩; exact ⟨h2, by intro h; injection h with h; exact h1 h⟩
                          · rintro ⟨h1, h2⟩; exact ⟨by intro h; exact h2 (by rw [h]), h1⟩) (by simp)]
    | ret => simp only [badLoads, ih]; rw [up L (by simp) (by simp)]
    | other => simp only [badLoads, ih]; rw [up L (by simp) (by simp)]
    | load t e0 =>
      have here : (∃ pre s e post, SOp.load t e0 :: os = pre ++ SOp.load s e :: post ∧
          j = i + pre.length ∧ s ∉ L ∧ SOp.store s ∉ pre) ↔
          (j = i ∧ t ∉ L) ∨
          (∃ pre s e post, os = pre ++ SOp.load s e :: post ∧ j = i + 1 + pre.length ∧
            s ∉ L ∧ SOp.store s ∉ pre) := by
        constructor
        · rintro ⟨pre, s, e, post, h1, h2, h3, h4⟩
          cases pre with
          | nil =>
            simp at h1; obtain ⟨⟨rfl, rfl⟩, rfl⟩ := h1
            exact Or.inl ⟨by simpa using h2, h3⟩
          | cons o' pre =>
            simp at h1; obtain ⟨rfl, rfl⟩ := h1
            simp only [List.mem_cons, not_or] at h4
            exact Or.inr ⟨pre, s, e, post, rfl, by simp at h2; omega, h3, h4.2⟩
        · rintro (⟨h2, h3⟩ | ⟨pre, s, e, post, h1, h2, h3, h4⟩)
          · exact ⟨[], t, e0, os, rfl, by simpa using h2, h3, by simp⟩
          · exact ⟨SOp.load t e0 :: pre, s, e, post, by simp [h1], by simp; omega, h3, by simp [h4]⟩
      rw [here]
      simp only [badLoads]
      split
      · rename_i hc
        rw [ih]
        constructor
        · rintro ⟨hb, h⟩; exact ⟨hb, Or.inr h⟩
        · rintro ⟨hb, ⟨_, h⟩ | h⟩
          · exact absurd (by simpa using hc) h
          · exact ⟨hb, h⟩
      · rename_i hc
        rw [List.mem_cons, ih]
        constructor
        · rintro (h | ⟨hb, h⟩)
          · simp only [Prod.mk.injEq] at h
            exact ⟨h.1, Or.inl ⟨h.2, by simpa using hc⟩⟩
          · exact ⟨hb, Or.inr h⟩
        · rintro ⟨hb, ⟨h1, _⟩ | h⟩
          · left; rw [hb, h1]
          · exact Or.inr ⟨hb, h⟩

/-! ## E2. termination measure of the fixpoint iteration -/

def wt (U : List Nat) : Option (List Nat) → Nat
  | none => U.length + 1
  | some L => L.length

def mu (U : List Nat) (df : DF) : Nat := (df.map (wt U)).sum

theorem getD_set_self (df : DF) (i : Nat) : df.set i (df.getD i none) = df := by
  induction df generalizing i with
  | nil => simp
  | cons x xs ih =>
    cases i with
    | zero => simp
    | succ i => have := ih i; simp [List.getD] at this ⊢; exact this

theorem getD_set_eq (df : DF) (i : Nat) (x : Option (List Nat)) (h : i < df.length) :
    (df.set i x).getD i none = x := by
  simp [List.getD, h]

theorem getD_set_ne (df : DF) (i j : Nat) (x : Option (List Nat)) (h : i ≠ j) :
    (df.set i x).getD j none = df.getD j none := by
  simp [List.getD, List.getElem?_set_ne h]

theorem set_of_ge (df : DF) (i : Nat) (x : Option (List Nat)) (h : df.length ≤ i) : df.set i x = df := by
  induction df generalizing i with
  | nil => simp
  | cons y ys ih =>
    cases i with
    | zero => simp at h
    | succ i => simp at h; simp [ih i h]

theorem mu_set (U : List Nat) (df : DF) (i : Nat) (x : Option (List Nat)) (h : i < df.length) :
    mu U (df.set i x) + wt U (df.getD i none) = mu U df + wt U x := by
  induction df generalizing i with
  | nil => simp at h
  | cons y ys ih =>
    cases i with
    | zero => simp [mu]; omega
    | succ i =>
      simp at h
      have := ih i h
      simp [mu] at this ⊢; omega

theorem filter_length_lt_of_ne {α} (p : α → Bool) (l : List α) (h : l.filter p ≠ l) :
    (l.filter p).length < l.length := by
  induction l with
  | nil => simp at h
  | cons x xs ih =>
    by_cases hp : p x = true
    · have h' : xs.filter p ≠ xs := by intro h'; apply h; simp [hp, h']
      have := ih h'
      simp only [List.filter_cons, hp, if_true, List.length_cons]; omega
    · have := List.length_filter_le p xs
      simp [hp]; omega

theorem wt_meet_le (U : List Nat) (old : Option (List Nat)) (o : List Nat) (ho : o.length ≤ U.length) :
    wt U (meet old o) ≤ wt U old ∧ (meet old o ≠ old → wt U (meet old o) < wt U old) := by
  cases old with
  | none => simp [meet, wt]; omega
  | some L =>
    simp only [meet, wt]
    refine ⟨List.length_filter_le _ _, fun h => filter_length_lt_of_ne _ _ ?_⟩
    intro h'; apply h; rw [h']

theorem outFact_length (U L : List Nat) (ops : List SOp) : (outFact U L ops).length ≤ U.length :=
  List.length_filter_le _ _

theorem relax_mu (G : Graph) (U : List Nat) (df : DF) (e : Nat × Nat) :
    mu U (relax G U df e) ≤ mu U df ∧ (relax G U df e ≠ df → mu U (relax G U df e) < mu U df) := by
  unfold relax
  cases h1 : df.getD e.1 none with
  | none => simp
  | some L =>
    simp only
    by_cases hlen : e.2 < df.length
    · have hm := mu_set U df e.2 (meet (df.getD e.2 none) (outFact U L (G.block e.1).ops)) hlen
      have hw := wt_meet_le U (df.getD e.2 none) (outFact U L (G.block e.1).ops) (outFact_length _ _ _)
      have hw1 := hw.1
      constructor
      · omega
      · intro hne
        have : meet (df.getD e.2 none) (outFact U L (G.block e.1).ops) ≠ df.getD e.2 none := by
          intro heq; apply hne; rw [heq, getD_set_self]
        have hw2 := hw.2 this
        omega
    · rw [set_of_ge _ _ _ (by omega)]; simp

theorem pass_mu (G : Graph) (U : List Nat) (E : List (Nat × Nat)) (df : DF) :
    mu U (pass G U E df) ≤ mu U df ∧
      (mu U (pass G U E df) = mu U df → ∀ e ∈ E, relax G U df e = df) := by
  unfold pass
  induction E generalizing df with
  | nil => simp
  | cons e es ih =>
    simp only [List.foldl_cons]
    have h1 := relax_mu G U df e
    have h2 := ih (relax G U df e)
    refine ⟨by omega, ?_⟩
    intro heq
    have hsame : relax G U df e = df := by
      apply Classical.byContradiction
      intro hne
      have := h1.2 hne
      omega
    intro e' he'
    rcases List.mem_cons.mp he' with rfl | he'
    · exact hsame
    · rw [hsame] at h2 heq
      exact h2.2 heq e' he'

theorem pass_fix (G : Graph) (U : List Nat) (E : List (Nat × Nat)) (df : DF)
    (h : pass G U E df = df) : ∀ e ∈ E, relax G U df e = df :=
  (pass_mu G U E df).2 (by rw [h])

theorem pass_lt (G : Graph) (U : List Nat) (E : List (Nat × Nat)) (df : DF)
    (h : pass G U E df ≠ df) : mu U (pass G U E df) < mu U df := by
  have h1 := pass_mu G U E df
  apply Nat.lt_of_le_of_ne h1.1
  intro heq
  apply h
  have := h1.2 heq
  unfold pass
  clear h h1 heq
  induction E with
  | nil => rfl
  | cons e es ih =>
    simp only [List.foldl_cons]
    rw [this e (by simp)]
    exact ih (fun e' he' => this e' (List.mem_cons_of_mem _ he'))

theorem iterate_some (G : Graph) (U : List Nat) (E : List (Nat × Nat)) (fuel : Nat) (df : DF)
    (h : mu U df < fuel) : ∃ r, iterate G U E fuel df = some r := by
  induction fuel generalizing df with
  | zero => omega
  | succ n ih =>
    unfold iterate
    simp only
    split
    · exact ⟨_, rfl⟩
    · rename_i hne
      have := pass_lt G U E df hne
      exact ih _ (by omega)

theorem iterate_spec (G : Graph) (U : List Nat) (E : List (Nat × Nat)) (P : DF → Prop)
    (hP : ∀ df, P df → P (pass G U E df)) (fuel : Nat) (df r : DF) (h0 : P df)
    (h : iterate G U E fuel df = some r) : P r ∧ pass G U E r = r := by
  induction fuel generalizing df with
  | zero => simp [iterate] at h
  | succ n ih =>
    unfold iterate at h
    simp only at h
    split at h
    · rename_i heq; cases h; exact ⟨h0, heq⟩
    · exact ih _ (hP _ h0) h

theorem mu_replicate (U : List Nat) (n : Nat) : mu U (List.replicate n none) = n * (U.length + 1) := by
  induction n with
  | zero => simp [mu]
  | succ n ih =>
    unfold mu at ih ⊢
    simp only [List.replicate_succ, List.map_cons, List.sum_cons, ih, wt, Nat.succ_mul]
    omega

theorem mu_initDF (U init : List Nat) (n start : Nat) : mu U (initDF U init n start) < dfFuel U n := by
  unfold initDF dfFuel
  by_cases h : start < (List.replicate n (none : Option (List Nat))).length
  · have hm := mu_set U (List.replicate n none) start (some (U.filter (fun s => init.contains s))) h
    have hl := List.length_filter_le (fun s => init.contains s) U
    have hg : (List.replicate n (none : Option (List Nat))).getD start none = none := by
      simp [List.getD, List.getElem?_replicate]
      split <;> rfl
    rw [mu_replicate, hg] at hm
    simp only [wt] at hm
    omega
  · rw [set_of_ge _ _ _ (by omega), mu_replicate]; omega

end PyTealV.Proofs.C17
