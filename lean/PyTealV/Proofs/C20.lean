/-
  C20 — compilation is total (model half).

  `gen` (Comp/Gen.lean) is a total Lean function into `StateT Graph (Except String)`; the only
  way it does not return a graph is an explicit `throw` of a PyTeal error (or of the
  "unmodelled" marker).  This file proves

  * `gen_total`      : an admissible tree (`Models/GenOk.lean`) is ACCEPTED, from every graph
                       state, continuation and loop context — whatever its shape;
  * `gen_total_iff`  : and only admissible trees are (the model rejects exactly the listed
                       constructs);
  * `genMain_total`, `genMain_total_iff` : the same for the main-routine wrapper;
  * `gen_error_is_pyteal_error`, `genMain_error_is_pyteal_error` : every error outcome of the
                       model is a PyTeal error class (or "unmodelled"): no crash outcome;
  * `genMain_outcome` : TEAL graph or PyTeal error, decided by `mainAdmissible`.

  Proof technique: three compositional predicates on generator computations (`Ok`: succeeds
  from every state; `Conv p`: success implies `p`; `Errs P`: every error message satisfies `P`)
  with one rule per monad primitive, then one mutual structural induction per theorem.
-/
import PyTealV.Models.GenOk
namespace PyTealV.Proofs.C20
open PyTealV PyTealV.Avm PyTealV.Src PyTealV.Comp PyTealV.Models.GenOk

/-! ### Running the generator monad -/

theorem bind_run {α β : Type} (x : GenM α) (f : α → GenM β) (g : Graph) :
    (x >>= f) g = match x g with
      | .ok (a, g') => f a g'
      | .error m => .error m := by
  simp only [bind, StateT.bind, Except.bind]
  split <;> simp_all

theorem emit_run (b : Block) (g : Graph) : emit b g = .ok (g.size, g.push b) := rfl
theorem opBlock_run (ops : List Instr) (k : Nat) (g : Graph) :
    opBlock ops k g = .ok (g.size, g.push { ops := ops, succ := .next k }) := rfl
theorem reserve_run (g : Graph) : reserve g = .ok (g.size, g.push {}) := rfl
theorem write_run (i : Nat) (b : Block) (g : Graph) : write i b g = .ok ((), g.setIfInBounds i b) := rfl
theorem pure_run {α : Type} (a : α) (g : Graph) : (pure a : GenM α) g = .ok (a, g) := rfl
theorem throw_run {α : Type} (m : String) (g : Graph) : (throw m : GenM α) g = .error m := rfl

/-! ### `Ok`: the computation succeeds from every graph state -/

def Ok {α : Type} (x : GenM α) : Prop := ∀ g, ∃ a g', x g = .ok (a, g')

theorem Ok.bind {α β : Type} {x : GenM α} {f : α → GenM β} (hx : Ok x) (hf : ∀ a, Ok (f a)) :
    Ok (x >>= f) := by
  intro g
  obtain ⟨a, g', h⟩ := hx g
  rw [bind_run, h]
  exact hf a g'

theorem Ok.emit (b : Block) : Ok (emit b) := fun g => ⟨_, _, emit_run b g⟩
theorem Ok.opBlock (ops : List Instr) (k : Nat) : Ok (opBlock ops k) := fun g => ⟨_, _, opBlock_run ops k g⟩
theorem Ok.reserve : Ok reserve := fun g => ⟨_, _, reserve_run g⟩
theorem Ok.write (i : Nat) (b : Block) : Ok (write i b) := fun g => ⟨_, _, write_run i b g⟩
theorem Ok.pure {α : Type} (a : α) : Ok (pure a : GenM α) := fun g => ⟨_, _, pure_run a g⟩

/-! ### `Conv`: success implies `p` -/

def Conv {α : Type} (x : GenM α) (p : Prop) : Prop := ∀ g r, x g = .ok r → p

theorem Conv.triv {α : Type} (x : GenM α) : Conv x True := fun _ _ _ => trivial

theorem Conv.bind {α β : Type} {x : GenM α} {f : α → GenM β} {p q : Prop}
    (hx : Conv x p) (hf : ∀ a, Conv (f a) q) : Conv (x >>= f) (p ∧ q) := by
  intro g r h
  rw [bind_run] at h
  split at h
  · rename_i a g' hxg
    exact ⟨hx g _ hxg, hf a g' r h⟩
  · cases h

theorem Conv.throw {α : Type} (m : String) : Conv (throw m : GenM α) False := by
  intro g r h
  rw [throw_run] at h
  cases h

theorem Conv.mono {α : Type} {x : GenM α} {p q : Prop} (h : Conv x p) (hpq : p → q) : Conv x q :=
  fun g r hr => hpq (h g r hr)

/-! ### `Errs`: every error message satisfies `P` -/

def Errs {α : Type} (P : String → Prop) (x : GenM α) : Prop := ∀ g m, x g = .error m → P m

theorem Errs.bind {α β : Type} {P : String → Prop} {x : GenM α} {f : α → GenM β}
    (hx : Errs P x) (hf : ∀ a, Errs P (f a)) : Errs P (x >>= f) := by
  intro g m h
  rw [bind_run] at h
  split at h
  · rename_i a g' _
    exact hf a g' m h
  · rename_i m' hxg
    cases h
    exact hx g _ hxg

theorem Errs.emit {P : String → Prop} (b : Block) : Errs P (emit b) := by
  intro g m h; rw [emit_run] at h; cases h
theorem Errs.opBlock {P : String → Prop} (ops : List Instr) (k : Nat) : Errs P (opBlock ops k) := by
  intro g m h; rw [opBlock_run] at h; cases h
theorem Errs.reserve {P : String → Prop} : Errs P reserve := by
  intro g m h; rw [reserve_run] at h; cases h
theorem Errs.write {P : String → Prop} (i : Nat) (b : Block) : Errs P (write i b) := by
  intro g m h; rw [write_run] at h; cases h
theorem Errs.pure {α : Type} {P : String → Prop} (a : α) : Errs P (pure a : GenM α) := by
  intro g m h; rw [pure_run] at h; cases h
theorem Errs.throw {α : Type} {P : String → Prop} {m : String} (hm : P m) : Errs P (throw m : GenM α) := by
  intro g m' h; rw [throw_run] at h; cases h; exact hm

/-! ### Opcode selection facts -/

theorem lowerSubstring_ok_of_substringOk {v : Nat} {a b : Expr} (h : substringOk a b = true) :
    ∃ low, lowerSubstring v a b = .ok low := by
  unfold lowerSubstring
  split
  · rename_i st en
    simp only [substringOk, decide_eq_true_eq] at h
    rw [if_neg (by omega)]
    dsimp only
    split <;> split <;> exact ⟨_, rfl⟩
  · exact ⟨_, rfl⟩

theorem substringOk_of_lowerSubstring_ok {v : Nat} {a b : Expr} {low : Low}
    (h : lowerSubstring v a b = .ok low) : substringOk a b = true := by
  unfold lowerSubstring at h
  split at h
  · rename_i st en
    split at h
    · cases h
    · simp only [substringOk, decide_eq_true_eq]; omega
  · rename_i hne
    unfold substringOk
    split
    · exact (hne _ _ rfl rfl).elim
    · rfl

/-- when the selected op takes the constants as immediates or pushes them itself, the two
    operands are `Int` literals (so they are admissible and never generated) -/
theorem lowerSubstring_consts {v : Nat} {a b : Expr} {low : Low} (h : lowerSubstring v a b = .ok low)
    (hl : ∀ i, low ≠ .asGiven i) : ∃ st en, a = .int st ∧ b = .int en := by
  unfold lowerSubstring at h
  split at h
  · exact ⟨_, _, rfl, rfl⟩
  · cases h
    exact (hl _ rfl).elim

theorem lowerExtract_consts {a l : Expr} (hl : ∀ i, lowerExtract a l ≠ .asGiven i) :
    ∃ st ln, a = .int st ∧ l = .int ln := by
  unfold lowerExtract at hl
  split at hl
  · exact ⟨_, _, rfl, rfl⟩
  · exact (hl _ rfl).elim

theorem adm_int (cfg : GenCfg) (l : Bool) (n : Nat) : genAdmissible cfg l (.int n) = true := by
  simp only [genAdmissible]

variable {cfg : GenCfg}

/-! ### Totality: admissible trees are accepted -/

mutual
  theorem gen_ok : ∀ (e : Expr) (k : Nat) (L : Option Loop),
      genAdmissible cfg L.isSome e = true → Ok (gen cfg e k L)
    | .int n, k, L, _ => by simp only [gen]; exact .opBlock _ _
    | .bytes b, k, L, _ => by simp only [gen]; exact .opBlock _ _
    | .load v, k, L, _ => by simp only [gen]; exact .opBlock _ _
    | .index v, k, L, _ => by simp only [gen]; exact .opBlock _ _
    | .err, k, L, _ => by simp only [gen]; exact .opBlock _ _
    | .note none, k, L, _ => by simp only [gen]; exact .opBlock _ _
    | .note (some e), k, L, h => by
      simp only [genAdmissible] at h
      simp only [gen]; exact gen_ok e _ _ h
    | .store v e, k, L, h => by
      simp only [genAdmissible] at h
      simp only [gen]; exact .bind (.opBlock _ _) (fun _ => gen_ok e _ _ h)
    | .prim op imms args, k, L, h => by
      simp only [genAdmissible] at h
      simp only [gen]; exact .bind (.opBlock _ _) (fun _ => genArgs_ok args _ _ h)
    | .seq es, k, L, h => by
      simp only [genAdmissible] at h
      simp only [gen]; exact genSeq_ok es _ _ h
    | .multi op imms args outs, k, L, h => by
      simp only [genAdmissible] at h
      simp only [gen]
      exact .bind (.opBlock _ _) (fun _ => .bind (.opBlock _ _) (fun _ => genArgs_ok args _ _ h))
    | .ite c t (some e), k, L, h => by
      simp only [genAdmissible, Bool.and_eq_true] at h
      simp only [gen]
      exact .bind (.opBlock _ _) (fun _ => .bind (gen_ok t _ _ h.1.2) (fun _ =>
        .bind (gen_ok e _ _ h.2) (fun _ => .bind (.emit _) (fun _ => gen_ok c _ _ h.1.1))))
    | .ite c t none, k, L, h => by
      simp only [genAdmissible, Bool.and_eq_true] at h
      simp only [gen]
      exact .bind (.opBlock _ _) (fun _ => .bind (gen_ok t _ _ h.2) (fun _ =>
        .bind (.pure _) (fun _ => .bind (.emit _) (fun _ => gen_ok c _ _ h.1))))
    | .cond arms, k, L, h => by
      simp only [genAdmissible] at h
      simp only [gen]
      exact .bind (.opBlock _ _) (fun _ => .bind (.emit _) (fun _ => genCond_ok arms _ _ _ h))
    | .while_ c d, k, L, h => by
      simp only [genAdmissible, Bool.and_eq_true] at h
      simp only [gen]
      exact .bind (.opBlock _ _) (fun endB => .bind .reserve (fun br => .bind .reserve (fun hdr =>
        .bind (gen_ok c _ (some ⟨endB, hdr⟩) h.1) (fun _ => .bind (.write _ _) (fun _ =>
        .bind (gen_ok d _ (some ⟨endB, hdr⟩) h.2) (fun _ => .bind (.write _ _) (fun _ => .pure _)))))))
    | .for_ i c s d, k, L, h => by
      simp only [genAdmissible, Bool.and_eq_true] at h
      simp only [gen]
      exact .bind (.opBlock _ _) (fun endB => .bind .reserve (fun br => .bind .reserve (fun shdr =>
        .bind (gen_ok c _ (some ⟨endB, shdr⟩) h.1.1.2) (fun _ =>
        .bind (gen_ok s _ (some ⟨endB, shdr⟩) h.1.2) (fun _ => .bind (.write _ _) (fun _ =>
        .bind (gen_ok d _ (some ⟨endB, shdr⟩) h.2) (fun _ => .bind (.write _ _) (fun _ =>
        gen_ok i _ (some ⟨endB, shdr⟩) h.1.1.1))))))))
    | .brk, k, L, h => by
      cases L with
      | none => simp [genAdmissible] at h
      | some l => simp only [gen]; exact .emit _
    | .cont, k, L, h => by
      cases L with
      | none => simp [genAdmissible] at h
      | some l => simp only [gen]; exact .emit _
    | .assert_ c, k, L, h => by
      simp only [genAdmissible] at h
      simp only [gen]
      split
      · exact .bind (.opBlock _ _) (fun _ => gen_ok c _ _ h)
      · exact .bind (.opBlock _ _) (fun _ => .bind (.emit _) (fun _ => .bind (.emit _) (fun _ => gen_ok c _ _ h)))
    | .ret none, k, L, h => by
      simp only [genAdmissible] at h
      simp only [gen, h, if_true]; exact .opBlock _ _
    | .ret (some e), k, L, h => by
      simp only [genAdmissible] at h
      simp only [gen]; exact .bind (.opBlock _ _) (fun _ => gen_ok e _ _ h)
    | .exit e, k, L, h => by
      simp only [genAdmissible] at h
      simp only [gen]; exact .bind (.opBlock _ _) (fun _ => gen_ok e _ _ h)
    | .call f args, k, L, h => by simp [genAdmissible] at h
    | .wideRatio ns ds, k, L, h => by simp [genAdmissible] at h
    | .nonce b e, k, L, h => by
      simp only [genAdmissible] at h
      simp only [gen]; exact .bind (gen_ok e _ _ h) (fun _ => .opBlock _ _)
    | .substring s a b, k, L, h => by
      simp only [genAdmissible, Bool.and_eq_true] at h
      obtain ⟨low, hl⟩ := lowerSubstring_ok_of_substringOk (v := cfg.version) h.1.1.1
      simp only [gen, hl]
      cases low with
      | one i => exact .bind (.opBlock _ _) (fun _ => gen_ok s _ _ h.1.1.2)
      | consts i x y =>
        exact .bind (.opBlock _ _) (fun _ => .bind (.opBlock _ _) (fun _ => .bind (.opBlock _ _)
          (fun _ => gen_ok s _ _ h.1.1.2)))
      | asGiven i =>
        exact .bind (.opBlock _ _) (fun _ => .bind (gen_ok b _ _ h.2) (fun _ =>
          .bind (gen_ok a _ _ h.1.2) (fun _ => gen_ok s _ _ h.1.1.2)))
    | .extract s a n, k, L, h => by
      simp only [genAdmissible, Bool.and_eq_true] at h
      simp only [gen]
      cases lowerExtract a n with
      | one i => exact .bind (.opBlock _ _) (fun _ => gen_ok s _ _ h.1.1)
      | consts i x y =>
        exact .bind (.opBlock _ _) (fun _ => .bind (.opBlock _ _) (fun _ => .bind (.opBlock _ _)
          (fun _ => gen_ok s _ _ h.1.1)))
      | asGiven i =>
        exact .bind (.opBlock _ _) (fun _ => .bind (gen_ok n _ _ h.2) (fun _ =>
          .bind (gen_ok a _ _ h.1.2) (fun _ => gen_ok s _ _ h.1.1)))
    | .suffix s a, k, L, h => by
      simp only [genAdmissible, Bool.and_eq_true] at h
      simp only [gen]
      split
      · rename_i st
        have hs := h.1.1
        simp only [suffixOk, Bool.or_eq_true, decide_eq_true_eq] at hs
        split
        · rename_i hst
          rw [if_pos (by omega)]
          exact .bind (.opBlock _ _) (fun _ => gen_ok s _ _ h.1.2)
        · exact .bind (.opBlock _ _) (fun _ => .bind (.opBlock _ _) (fun _ => gen_ok s _ _ h.1.2))
      · exact .bind (.opBlock _ _) (fun _ => .bind (gen_ok a _ _ h.2) (fun _ => gen_ok s _ _ h.1.2))

  theorem genArgs_ok : ∀ (es : List Expr) (k : Nat) (L : Option Loop),
      genAdmissibleList cfg L.isSome es = true → Ok (genArgs cfg es k L)
    | [], k, L, _ => by simp only [genArgs]; exact .pure _
    | e :: es, k, L, h => by
      simp only [genAdmissibleList, Bool.and_eq_true] at h
      simp only [genArgs]; exact .bind (genArgs_ok es _ _ h.2) (fun _ => gen_ok e _ _ h.1)

  theorem genSeq_ok : ∀ (es : List Expr) (k : Nat) (L : Option Loop),
      genAdmissibleList cfg L.isSome es = true → Ok (genSeq cfg es k L)
    | [], k, L, _ => by simp only [genSeq]; exact .opBlock _ _
    | e :: es, k, L, h => by
      simp only [genAdmissibleList, Bool.and_eq_true] at h
      simp only [genSeq]; exact .bind (genSeq_ok es _ _ h.2) (fun _ => gen_ok e _ _ h.1)

  theorem genCond_ok : ∀ (arms : List (Expr × Expr)) (endB errB : Nat) (L : Option Loop),
      genAdmissibleArms cfg L.isSome arms = true → Ok (genCond cfg arms endB errB L)
    | [], endB, errB, L, _ => by simp only [genCond]; exact .pure _
    | (c, b) :: rest, endB, errB, L, h => by
      simp only [genAdmissibleArms, Bool.and_eq_true] at h
      simp only [genCond]
      exact .bind (genCond_ok rest _ _ _ h.2) (fun _ => .bind (gen_ok b _ _ h.1.2) (fun _ =>
        .bind (.emit _) (fun _ => gen_ok c _ _ h.1.1)))
end

/-! ### Converse: only admissible trees are accepted -/

mutual
  theorem gen_conv : ∀ (e : Expr) (k : Nat) (L : Option Loop),
      Conv (gen cfg e k L) (genAdmissible cfg L.isSome e = true)
    | .int n, k, L => by simp only [genAdmissible]; exact .triv _
    | .bytes b, k, L => by simp only [genAdmissible]; exact .triv _
    | .load v, k, L => by simp only [genAdmissible]; exact .triv _
    | .index v, k, L => by simp only [genAdmissible]; exact .triv _
    | .err, k, L => by simp only [genAdmissible]; exact .triv _
    | .note none, k, L => by simp only [genAdmissible]; exact .triv _
    | .note (some e), k, L => by
      simp only [genAdmissible, gen]; exact gen_conv e _ _
    | .store v e, k, L => by
      simp only [genAdmissible, gen]
      exact (Conv.bind (.triv _) (fun _ => gen_conv e _ _)).mono (·.2)
    | .prim op imms args, k, L => by
      simp only [genAdmissible, gen]
      exact (Conv.bind (.triv _) (fun _ => genArgs_conv args _ _)).mono (·.2)
    | .seq es, k, L => by
      simp only [genAdmissible, gen]; exact genSeq_conv es _ _
    | .multi op imms args outs, k, L => by
      simp only [genAdmissible, gen]
      exact (Conv.bind (.triv _) (fun _ => Conv.bind (.triv _) (fun _ => genArgs_conv args _ _))).mono (·.2.2)
    | .ite c t (some e), k, L => by
      simp only [genAdmissible, gen, Bool.and_eq_true]
      exact (Conv.bind (.triv _) (fun _ => Conv.bind (gen_conv t _ _) (fun _ =>
        Conv.bind (gen_conv e _ _) (fun _ => Conv.bind (.triv _) (fun _ => gen_conv c _ _))))).mono
        (fun h => ⟨⟨h.2.2.2.2, h.2.1⟩, h.2.2.1⟩)
    | .ite c t none, k, L => by
      simp only [genAdmissible, gen, Bool.and_eq_true]
      exact (Conv.bind (.triv _) (fun _ => Conv.bind (gen_conv t _ _) (fun _ =>
        Conv.bind (.triv _) (fun _ => Conv.bind (.triv _) (fun _ => gen_conv c _ _))))).mono
        (fun h => ⟨h.2.2.2.2, h.2.1⟩)
    | .cond arms, k, L => by
      simp only [genAdmissible, gen]
      exact (Conv.bind (.triv _) (fun _ => Conv.bind (.triv _) (fun _ => genCond_conv arms _ _ _))).mono (·.2.2)
    | .while_ c d, k, L => by
      simp only [genAdmissible, gen, Bool.and_eq_true]
      exact (Conv.bind (.triv _) (fun endB => Conv.bind (.triv _) (fun br => Conv.bind (.triv _) (fun hdr =>
        Conv.bind (gen_conv c _ (some ⟨endB, hdr⟩)) (fun _ => Conv.bind (.triv _) (fun _ =>
        Conv.bind (gen_conv d _ (some ⟨endB, hdr⟩)) (fun _ => .triv _))))))).mono
        (fun h => ⟨h.2.2.2.1, h.2.2.2.2.2.1⟩)
    | .for_ i c s d, k, L => by
      simp only [genAdmissible, gen, Bool.and_eq_true]
      exact (Conv.bind (.triv _) (fun endB => Conv.bind (.triv _) (fun br => Conv.bind (.triv _) (fun shdr =>
        Conv.bind (gen_conv c _ (some ⟨endB, shdr⟩)) (fun _ =>
        Conv.bind (gen_conv s _ (some ⟨endB, shdr⟩)) (fun _ => Conv.bind (.triv _) (fun _ =>
        Conv.bind (gen_conv d _ (some ⟨endB, shdr⟩)) (fun _ => Conv.bind (.triv _) (fun _ =>
        gen_conv i _ (some ⟨endB, shdr⟩)))))))))).mono
        (fun h => ⟨⟨⟨h.2.2.2.2.2.2.2.2, h.2.2.2.1⟩, h.2.2.2.2.1⟩, h.2.2.2.2.2.2.1⟩)
    | .brk, k, L => by
      cases L with
      | none => simp only [gen]; exact (Conv.throw _).mono False.elim
      | some l => simp only [genAdmissible, Option.isSome]; exact .triv _
    | .cont, k, L => by
      cases L with
      | none => simp only [gen]; exact (Conv.throw _).mono False.elim
      | some l => simp only [genAdmissible, Option.isSome]; exact .triv _
    | .assert_ c, k, L => by
      simp only [genAdmissible, gen]
      split
      · exact (Conv.bind (.triv _) (fun _ => gen_conv c _ _)).mono (·.2)
      · exact (Conv.bind (.triv _) (fun _ => Conv.bind (.triv _) (fun _ => Conv.bind (.triv _)
          (fun _ => gen_conv c _ _)))).mono (·.2.2.2)
    | .ret none, k, L => by
      simp only [genAdmissible, gen]
      split
      · rename_i h; simp only [h]; exact .triv _
      · exact (Conv.throw _).mono False.elim
    | .ret (some e), k, L => by
      simp only [genAdmissible, gen]
      exact (Conv.bind (.triv _) (fun _ => gen_conv e _ _)).mono (·.2)
    | .exit e, k, L => by
      simp only [genAdmissible, gen]
      exact (Conv.bind (.triv _) (fun _ => gen_conv e _ _)).mono (·.2)
    | .call f args, k, L => by simp only [gen]; exact (Conv.throw _).mono False.elim
    | .wideRatio ns ds, k, L => by simp only [gen]; exact (Conv.throw _).mono False.elim
    | .nonce b e, k, L => by
      simp only [genAdmissible, gen]
      exact (Conv.bind (gen_conv e _ _) (fun _ => .triv _)).mono (·.1)
    | .substring s a b, k, L => by
      simp only [genAdmissible, gen, Bool.and_eq_true]
      cases hl : lowerSubstring cfg.version a b with
      | error m => exact (Conv.throw _).mono False.elim
      | ok low =>
        have hso := substringOk_of_lowerSubstring_ok hl
        cases low with
        | one i =>
          obtain ⟨st, en, rfl, rfl⟩ := lowerSubstring_consts hl (fun _ h => by cases h)
          exact (Conv.bind (.triv _) (fun _ => gen_conv s _ _)).mono
            (fun h => ⟨⟨⟨hso, h.2⟩, adm_int _ _ _⟩, adm_int _ _ _⟩)
        | consts i x y =>
          obtain ⟨st, en, rfl, rfl⟩ := lowerSubstring_consts hl (fun _ h => by cases h)
          exact (Conv.bind (.triv _) (fun _ => Conv.bind (.triv _) (fun _ => Conv.bind (.triv _)
            (fun _ => gen_conv s _ _)))).mono
            (fun h => ⟨⟨⟨hso, h.2.2.2⟩, adm_int _ _ _⟩, adm_int _ _ _⟩)
        | asGiven i =>
          exact (Conv.bind (.triv _) (fun _ => Conv.bind (gen_conv b _ _) (fun _ =>
            Conv.bind (gen_conv a _ _) (fun _ => gen_conv s _ _)))).mono
            (fun h => ⟨⟨⟨hso, h.2.2.2⟩, h.2.2.1⟩, h.2.1⟩)
    | .extract s a n, k, L => by
      simp only [genAdmissible, gen, Bool.and_eq_true]
      cases hl : lowerExtract a n with
      | one i =>
        obtain ⟨st, ln, rfl, rfl⟩ := lowerExtract_consts (a := a) (l := n) (fun _ h => by rw [hl] at h; cases h)
        exact (Conv.bind (.triv _) (fun _ => gen_conv s _ _)).mono
          (fun h => ⟨⟨h.2, adm_int _ _ _⟩, adm_int _ _ _⟩)
      | consts i x y =>
        obtain ⟨st, ln, rfl, rfl⟩ := lowerExtract_consts (a := a) (l := n) (fun _ h => by rw [hl] at h; cases h)
        exact (Conv.bind (.triv _) (fun _ => Conv.bind (.triv _) (fun _ => Conv.bind (.triv _)
          (fun _ => gen_conv s _ _)))).mono
          (fun h => ⟨⟨h.2.2.2, adm_int _ _ _⟩, adm_int _ _ _⟩)
      | asGiven i =>
        exact (Conv.bind (.triv _) (fun _ => Conv.bind (gen_conv n _ _) (fun _ =>
          Conv.bind (gen_conv a _ _) (fun _ => gen_conv s _ _)))).mono
          (fun h => ⟨⟨h.2.2.2, h.2.2.1⟩, h.2.1⟩)
    | .suffix s a, k, L => by
      simp only [genAdmissible, gen, Bool.and_eq_true]
      split
      · rename_i st
        simp only [suffixOk, Bool.or_eq_true, decide_eq_true_eq]
        split
        · split
          · rename_i hv
            exact (Conv.bind (.triv _) (fun _ => gen_conv s _ _)).mono
              (fun h => ⟨⟨.inr hv, h.2⟩, adm_int _ _ _⟩)
          · exact (Conv.throw _).mono False.elim
        · rename_i hst
          exact (Conv.bind (.triv _) (fun _ => Conv.bind (.triv _) (fun _ => gen_conv s _ _))).mono
            (fun h => ⟨⟨.inl (by omega), h.2.2⟩, adm_int _ _ _⟩)
      · rename_i hne
        have hso : suffixOk cfg a = true := by
          unfold suffixOk
          split
          · rename_i st; exact (hne st rfl).elim
          · rfl
        exact (Conv.bind (.triv _) (fun _ => Conv.bind (gen_conv a _ _) (fun _ => gen_conv s _ _))).mono
          (fun h => ⟨⟨hso, h.2.2⟩, h.2.1⟩)

  theorem genArgs_conv : ∀ (es : List Expr) (k : Nat) (L : Option Loop),
      Conv (genArgs cfg es k L) (genAdmissibleList cfg L.isSome es = true)
    | [], k, L => by simp only [genAdmissibleList]; exact .triv _
    | e :: es, k, L => by
      simp only [genAdmissibleList, genArgs, Bool.and_eq_true]
      exact (Conv.bind (genArgs_conv es _ _) (fun _ => gen_conv e _ _)).mono (fun h => ⟨h.2, h.1⟩)

  theorem genSeq_conv : ∀ (es : List Expr) (k : Nat) (L : Option Loop),
      Conv (genSeq cfg es k L) (genAdmissibleList cfg L.isSome es = true)
    | [], k, L => by simp only [genAdmissibleList]; exact .triv _
    | e :: es, k, L => by
      simp only [genAdmissibleList, genSeq, Bool.and_eq_true]
      exact (Conv.bind (genSeq_conv es _ _) (fun _ => gen_conv e _ _)).mono (fun h => ⟨h.2, h.1⟩)

  theorem genCond_conv : ∀ (arms : List (Expr × Expr)) (endB errB : Nat) (L : Option Loop),
      Conv (genCond cfg arms endB errB L) (genAdmissibleArms cfg L.isSome arms = true)
    | [], endB, errB, L => by simp only [genAdmissibleArms]; exact .triv _
    | (c, b) :: rest, endB, errB, L => by
      simp only [genAdmissibleArms, genCond, Bool.and_eq_true]
      exact (Conv.bind (genCond_conv rest _ _ _) (fun _ => Conv.bind (gen_conv b _ _) (fun _ =>
        Conv.bind (.triv _) (fun _ => gen_conv c _ _)))).mono
        (fun h => ⟨⟨h.2.2.2, h.2.1⟩, h.1⟩)
end

/-! ### Error outcomes are PyTeal errors -/

/-- `m` starts with `c` -/
def StartsWith (m c : String) : Prop := ∃ rest, m = c ++ rest

/-- `StartsWith` is the usual prefix relation on the character lists -/
theorem startsWith_iff_prefix {m c : String} : StartsWith m c ↔ c.toList <+: m.toList := by
  constructor
  · rintro ⟨r, rfl⟩
    rw [String.toList_append]
    exact List.prefix_append _ _
  · rintro ⟨t, ht⟩
    refine ⟨String.ofList t, ?_⟩
    apply String.toList_injective
    rw [String.toList_append, String.toList_ofList, ht]

/-- the message names a PyTeal error class (or the model's "unmodelled" marker) -/
def IsPyTealError (m : String) : Prop :=
  StartsWith m "TealCompileError" ∨ StartsWith m "TealInputError" ∨ StartsWith m "unmodelled"

theorem lowerSubstring_error {v : Nat} {a b : Expr} {m : String} (h : lowerSubstring v a b = .error m) :
    IsPyTealError m := by
  unfold lowerSubstring at h
  split at h
  · split at h
    · cases h
      exact .inl ⟨": end index must be greater than or equal to the start index", by decide⟩
    · dsimp only at h
      split at h <;> split at h <;> cases h
  · cases h

mutual
  theorem gen_errs : ∀ (e : Expr) (k : Nat) (L : Option Loop), Errs IsPyTealError (gen cfg e k L)
    | .int n, k, L => by simp only [gen]; exact .opBlock _ _
    | .bytes b, k, L => by simp only [gen]; exact .opBlock _ _
    | .load v, k, L => by simp only [gen]; exact .opBlock _ _
    | .index v, k, L => by simp only [gen]; exact .opBlock _ _
    | .err, k, L => by simp only [gen]; exact .opBlock _ _
    | .note none, k, L => by simp only [gen]; exact .opBlock _ _
    | .note (some e), k, L => by simp only [gen]; exact gen_errs e _ _
    | .store v e, k, L => by simp only [gen]; exact .bind (.opBlock _ _) (fun _ => gen_errs e _ _)
    | .prim op imms args, k, L => by
      simp only [gen]; exact .bind (.opBlock _ _) (fun _ => genArgs_errs args _ _)
    | .seq es, k, L => by simp only [gen]; exact genSeq_errs es _ _
    | .multi op imms args outs, k, L => by
      simp only [gen]
      exact .bind (.opBlock _ _) (fun _ => .bind (.opBlock _ _) (fun _ => genArgs_errs args _ _))
    | .ite c t (some e), k, L => by
      simp only [gen]
      exact .bind (.opBlock _ _) (fun _ => .bind (gen_errs t _ _) (fun _ =>
        .bind (gen_errs e _ _) (fun _ => .bind (.emit _) (fun _ => gen_errs c _ _))))
    | .ite c t none, k, L => by
      simp only [gen]
      exact .bind (.opBlock _ _) (fun _ => .bind (gen_errs t _ _) (fun _ =>
        .bind (.pure _) (fun _ => .bind (.emit _) (fun _ => gen_errs c _ _))))
    | .cond arms, k, L => by
      simp only [gen]
      exact .bind (.opBlock _ _) (fun _ => .bind (.emit _) (fun _ => genCond_errs arms _ _ _))
    | .while_ c d, k, L => by
      simp only [gen]
      exact .bind (.opBlock _ _) (fun _ => .bind .reserve (fun _ => .bind .reserve (fun _ =>
        .bind (gen_errs c _ _) (fun _ => .bind (.write _ _) (fun _ =>
        .bind (gen_errs d _ _) (fun _ => .bind (.write _ _) (fun _ => .pure _)))))))
    | .for_ i c s d, k, L => by
      simp only [gen]
      exact .bind (.opBlock _ _) (fun _ => .bind .reserve (fun _ => .bind .reserve (fun _ =>
        .bind (gen_errs c _ _) (fun _ => .bind (gen_errs s _ _) (fun _ => .bind (.write _ _) (fun _ =>
        .bind (gen_errs d _ _) (fun _ => .bind (.write _ _) (fun _ => gen_errs i _ _))))))))
    | .brk, k, L => by
      cases L with
      | none =>
        simp only [gen]
        exact .throw (.inl ⟨": break is only allowed in a loop", by decide⟩)
      | some l => simp only [gen]; exact .emit _
    | .cont, k, L => by
      cases L with
      | none =>
        simp only [gen]
        exact .throw (.inl ⟨": continue is only allowed in a loop", by decide⟩)
      | some l => simp only [gen]; exact .emit _
    | .assert_ c, k, L => by
      simp only [gen]
      split
      · exact .bind (.opBlock _ _) (fun _ => gen_errs c _ _)
      · exact .bind (.opBlock _ _) (fun _ => .bind (.emit _) (fun _ => .bind (.emit _) (fun _ => gen_errs c _ _)))
    | .ret none, k, L => by
      simp only [gen]
      split
      · exact .opBlock _ _
      · exact .throw (.inl ⟨": Return from main program must have an argument", by decide⟩)
    | .ret (some e), k, L => by simp only [gen]; exact .bind (.opBlock _ _) (fun _ => gen_errs e _ _)
    | .exit e, k, L => by simp only [gen]; exact .bind (.opBlock _ _) (fun _ => gen_errs e _ _)
    | .call f args, k, L => by
      simp only [gen]; exact .throw (.inr (.inr ⟨": subroutine call", by decide⟩))
    | .wideRatio ns ds, k, L => by
      simp only [gen]; exact .throw (.inr (.inr ⟨": WideRatio", by decide⟩))
    | .nonce b e, k, L => by simp only [gen]; exact .bind (gen_errs e _ _) (fun _ => .opBlock _ _)
    | .substring s a b, k, L => by
      simp only [gen]
      cases hl : lowerSubstring cfg.version a b with
      | error m => exact .throw (lowerSubstring_error hl)
      | ok low =>
        cases low with
        | one i => exact .bind (.opBlock _ _) (fun _ => gen_errs s _ _)
        | consts i x y =>
          exact .bind (.opBlock _ _) (fun _ => .bind (.opBlock _ _) (fun _ => .bind (.opBlock _ _)
            (fun _ => gen_errs s _ _)))
        | asGiven i =>
          exact .bind (.opBlock _ _) (fun _ => .bind (gen_errs b _ _) (fun _ =>
            .bind (gen_errs a _ _) (fun _ => gen_errs s _ _)))
    | .extract s a n, k, L => by
      simp only [gen]
      cases lowerExtract a n with
      | one i => exact .bind (.opBlock _ _) (fun _ => gen_errs s _ _)
      | consts i x y =>
        exact .bind (.opBlock _ _) (fun _ => .bind (.opBlock _ _) (fun _ => .bind (.opBlock _ _)
          (fun _ => gen_errs s _ _)))
      | asGiven i =>
        exact .bind (.opBlock _ _) (fun _ => .bind (gen_errs n _ _) (fun _ =>
          .bind (gen_errs a _ _) (fun _ => gen_errs s _ _)))
    | .suffix s a, k, L => by
      simp only [gen]
      split
      · split
        · split
          · exact .bind (.opBlock _ _) (fun _ => gen_errs s _ _)
          · exact .throw (.inr (.inl ⟨": Program version too low to use op extract", by decide⟩))
        · exact .bind (.opBlock _ _) (fun _ => .bind (.opBlock _ _) (fun _ => gen_errs s _ _))
      · exact .bind (.opBlock _ _) (fun _ => .bind (gen_errs a _ _) (fun _ => gen_errs s _ _))

  theorem genArgs_errs : ∀ (es : List Expr) (k : Nat) (L : Option Loop), Errs IsPyTealError (genArgs cfg es k L)
    | [], k, L => by simp only [genArgs]; exact .pure _
    | e :: es, k, L => by
      simp only [genArgs]; exact .bind (genArgs_errs es _ _) (fun _ => gen_errs e _ _)

  theorem genSeq_errs : ∀ (es : List Expr) (k : Nat) (L : Option Loop), Errs IsPyTealError (genSeq cfg es k L)
    | [], k, L => by simp only [genSeq]; exact .opBlock _ _
    | e :: es, k, L => by
      simp only [genSeq]; exact .bind (genSeq_errs es _ _) (fun _ => gen_errs e _ _)

  theorem genCond_errs : ∀ (arms : List (Expr × Expr)) (endB errB : Nat) (L : Option Loop),
      Errs IsPyTealError (genCond cfg arms endB errB L)
    | [], endB, errB, L => by simp only [genCond]; exact .pure _
    | (c, b) :: rest, endB, errB, L => by
      simp only [genCond]
      exact .bind (genCond_errs rest _ _ _) (fun _ => .bind (gen_errs b _ _) (fun _ =>
        .bind (.emit _) (fun _ => gen_errs c _ _)))
end

/-! ## Property theorems -/

/-- **C20, acceptance.**  A tree none of whose constructs is a rejected one is compiled: from
    every graph state `g`, continuation `k` and loop context `L`, `gen` returns an entry block
    and a graph.  Shape plays no role: there is no hypothesis about what comes first, about
    empty sequences, about bodies that only Break/Continue, or about nesting depth. -/
theorem gen_total {e : Expr} {L : Option Loop} (h : genAdmissible cfg L.isSome e = true) :
    ∀ k g, ∃ s g', gen cfg e k L g = .ok (s, g') := fun k g => gen_ok e k L h g

theorem genArgs_total {es : List Expr} {L : Option Loop} (h : genAdmissibleList cfg L.isSome es = true) :
    ∀ k g, ∃ s g', genArgs cfg es k L g = .ok (s, g') := fun k g => genArgs_ok es k L h g

theorem genSeq_total {es : List Expr} {L : Option Loop} (h : genAdmissibleList cfg L.isSome es = true) :
    ∀ k g, ∃ s g', genSeq cfg es k L g = .ok (s, g') := fun k g => genSeq_ok es k L h g

theorem genCond_total {arms : List (Expr × Expr)} {L : Option Loop}
    (h : genAdmissibleArms cfg L.isSome arms = true) :
    ∀ endB errB g, ∃ s g', genCond cfg arms endB errB L g = .ok (s, g') :=
  fun endB errB g => genCond_ok arms endB errB L h g

/-- **C20, exactness.**  The model accepts exactly the admissible trees (independently of the
    graph state and of the continuation). -/
theorem gen_total_iff (e : Expr) (k : Nat) (L : Option Loop) (g : Graph) :
    (∃ s g', gen cfg e k L g = .ok (s, g')) ↔ genAdmissible cfg L.isSome e = true :=
  ⟨fun ⟨_, _, h⟩ => gen_conv e k L g _ h, fun h => gen_total h k g⟩

/-- an inadmissible tree is rejected, with an error (not silently) -/
theorem gen_rejects {e : Expr} {L : Option Loop} (h : genAdmissible cfg L.isSome e = false) (k : Nat) (g : Graph) :
    ∃ m, gen cfg e k L g = .error m := by
  cases hr : gen cfg e k L g with
  | error m => exact ⟨m, rfl⟩
  | ok r =>
    have := gen_conv e k L g r hr
    rw [h] at this
    cases this

/-- **C20, never a crash (model half).**  Every error the model can produce names a PyTeal error
    class (`TealCompileError`, `TealInputError`) or is the "unmodelled" marker. -/
theorem gen_error_is_pyteal_error {e : Expr} {k : Nat} {L : Option Loop} {g : Graph} {m : String}
    (h : gen cfg e k L g = .error m) : IsPyTealError m := gen_errs e k L g m h

theorem genMain_eq (e : Expr) :
    genMain cfg e = match gen cfg (mainTree e) 0 none #[{}] with
      | .ok (s, g) => .ok (g, s)
      | .error m => .error m := by
  unfold genMain
  show (match ((emit {} >>= fun exitB => gen cfg (mainTree e) exitB none : GenM Nat) #[]) with
      | .ok (s, g) => Except.ok (g, s)
      | .error m => .error m) = _
  rw [bind_run, emit_run]
  rfl

/-- **C20 for the main routine.**  (The side condition `cfg.inSub = false` of a main routine is
    not needed: admissibility already refuses `Return()` there.) -/
theorem genMain_total {e : Expr}
    (h : genAdmissible cfg false (if hasReturn e then e else .ret (some e)) = true) :
    ∃ G s, genMain cfg e = .ok (G, s) := by
  obtain ⟨s, g', hg⟩ := gen_total (L := none) h 0 #[{}]
  refine ⟨g', s, ?_⟩
  rw [genMain_eq]
  show (match gen cfg (if hasReturn e then e else .ret (some e)) 0 none #[{}] with
      | .ok (s, g) => Except.ok (g, s)
      | .error m => .error m) = _
  rw [hg]

theorem genMain_total_iff (e : Expr) :
    (∃ G s, genMain cfg e = .ok (G, s)) ↔ mainAdmissible cfg e = true := by
  constructor
  · rintro ⟨G, s, h⟩
    rw [genMain_eq] at h
    split at h
    · rename_i s' g' hg
      exact gen_conv (mainTree e) 0 none _ _ hg
    · cases h
  · exact fun h => genMain_total h

theorem genMain_error_is_pyteal_error {e : Expr} {m : String} (h : genMain cfg e = .error m) :
    IsPyTealError m := by
  rw [genMain_eq] at h
  split at h
  · cases h
  · rename_i m' hg
    cases h
    exact gen_error_is_pyteal_error hg

/-- **C20, outcome classes of the model**: a graph, or a PyTeal error — decided by
    `mainAdmissible`. -/
theorem genMain_outcome (e : Expr) :
    (mainAdmissible cfg e = true ∧ ∃ G s, genMain cfg e = .ok (G, s)) ∨
    (mainAdmissible cfg e = false ∧ ∃ m, genMain cfg e = .error m ∧ IsPyTealError m) := by
  cases ha : mainAdmissible cfg e with
  | true => exact .inl ⟨rfl, genMain_total ha⟩
  | false =>
    refine .inr ⟨rfl, ?_⟩
    cases hr : genMain cfg e with
    | error m => exact ⟨m, rfl, genMain_error_is_pyteal_error hr⟩
    | ok r =>
      have := (genMain_total_iff (cfg := cfg) e).1 ⟨r.1, r.2, hr⟩
      rw [ha] at this
      cases this

/-! ## Non-vacuity: shapes that must be accepted -/

section Examples

/-- a loop as the very first statement -/
def loopFirst : Expr := .seq [.while_ (.prim "<" [] [.load 0, .int 3]) (.store 0 (.prim "+" [] [.load 0, .int 1])), .int 1]
/-- a loop whose body is only `Break` -/
def onlyBreak : Expr := .seq [.while_ (.int 1) .brk, .int 1]
/-- a loop whose body is only `Continue`, and a `For` with Break in init/step/condition position -/
def onlyCont : Expr := .seq [.for_ (.seq []) (.seq [.brk, .int 1]) .cont .cont, .int 1]
/-- an `If` whose two arms are empty sequences -/
def emptyArms : Expr := .seq [.ite (.int 1) (.seq []) (some (.seq [])), .int 1]
/-- nested loops, Break/Continue at depth 2, a Cond and an early return inside -/
def nested : Expr :=
  .seq [.while_ (.int 1) (.seq [
          .for_ (.store 1 (.int 0)) (.prim "<" [] [.load 1, .int 2]) (.store 1 (.prim "+" [] [.load 1, .int 1]))
            (.seq [.ite (.load 1) .brk (some .cont)]),
          .cond [(.load 0, .ret (some (.int 1))), (.int 1, .brk)]]),
        .int 0]

example : mainAdmissible {} loopFirst = true ∧ (genMain {} loopFirst).toBool = true := by decide +kernel
example : mainAdmissible {} onlyBreak = true ∧ (genMain {} onlyBreak).toBool = true := by decide +kernel
example : mainAdmissible {} onlyCont = true ∧ (genMain {} onlyCont).toBool = true := by decide +kernel
example : mainAdmissible {} emptyArms = true ∧ (genMain {} emptyArms).toBool = true := by decide +kernel
example : mainAdmissible {} nested = true ∧ (genMain {} nested).toBool = true := by decide +kernel
example : mainAdmissible { version := 2 } nested = true := by decide

/-- the theorems apply to them (hypotheses satisfiable) -/
example : ∃ G s, genMain {} nested = .ok (G, s) := genMain_total (by decide)
example : ∃ G s, genMain {} onlyBreak = .ok (G, s) := genMain_total (by decide)
example : ∃ s g', gen {} (.while_ (.int 1) .brk) 0 none #[{}] = .ok (s, g') := gen_total (by decide) _ _

/-- the error message of a rejected main routine (`""` when accepted) -/
def errOf (r : Except String (Graph × Nat)) : String := match r with | .error m => m | .ok _ => ""

/-- … and the rejected constructs are rejected, each with its PyTeal error -/
example : mainAdmissible {} (.seq [.brk, .int 1]) = false := by decide
example : errOf (genMain {} (.seq [.brk, .int 1])) =
    "TealCompileError: break is only allowed in a loop" := by decide
example : errOf (genMain {} (.seq [.ite (.int 1) .cont none, .int 1])) =
    "TealCompileError: continue is only allowed in a loop" := by decide
example : errOf (genMain {} (.substring (.bytes []) (.int 3) (.int 2))) =
    "TealCompileError: end index must be greater than or equal to the start index" := by decide
example : errOf (genMain { version := 4 } (.suffix (.bytes []) (.int 3))) =
    "TealInputError: Program version too low to use op extract" := by decide
example : mainAdmissible { version := 5 } (.suffix (.bytes []) (.int 3)) = true := by decide
example : mainAdmissible { version := 4 } (.suffix (.bytes []) (.int 300)) = true := by decide
example : errOf (genMain {} (.seq [.ret none])) =
    "TealCompileError: Return from main program must have an argument" := by decide
example : mainAdmissible { inSub := true } (.seq [.ret none]) = true := by decide
/-- Break after the loop is outside it again -/
example : mainAdmissible {} (.seq [.while_ (.int 1) .brk, .brk, .int 1]) = false := by decide

end Examples

end PyTealV.Proofs.C20
