/-
  Helper lemmas for `Proofs/C07.lean`: PyTeal's descriptors agree with the ARC-4 specification,
  the loops with `ignoreNext` walk maximal bool runs, and the positions the offset walk computes
  are the positions `Arc4.split` reads.
-/
import PyTealV.Models.AbiDecode
import PyTealV.Proofs.Arc4Decode
namespace PyTealV.Proofs.C07
open PyTealV PyTealV.Arc4 PyTealV.Avm PyTealV.Util PyTealV.Models.AbiDecode

/-! ### descriptors -/

theorem boolSeqLen_eq (n : Nat) : boolSeqLen n = ceil8 n := by
  simp [boolSeqLen, ceil8]

mutual
  theorem isDyn_eq : (t : Ty) → isDyn t = isDynamic t
    | .bool => rfl
    | .byte => rfl
    | .uint _ => rfl
    | .address => rfl
    | .string => rfl
    | .sarray e _ => by simp only [isDyn, isDynamic, isDyn_eq e]
    | .darray _ => rfl
    | .tuple ts => by simp only [isDyn, isDynamic, anyDyn_eq ts]
  theorem anyDyn_eq : (ts : List Ty) → anyDyn ts = anyDynamic ts
    | [] => rfl
    | t :: ts => by simp only [anyDyn, anyDynamic, isDyn_eq t, anyDyn_eq ts]
end

theorem isBool_iff (t : Ty) : isBool t = true ↔ t = .bool := by
  cases t <;> simp [isBool]

theorem kind_bit_iff (t : Ty) : kind t = .bit ↔ t = .bool := by
  cases t <;> simp [kind, mkKind] <;> split <;> simp

/-! ### bool runs -/

theorem consecBits_le (ks : List Kind) : consecBits ks ≤ ks.length := by
  induction ks with
  | nil => simp [consecBits]
  | cons k ks ih => cases k <;> simp [consecBits] <;> omega

theorem consecBits_get (ks : List Kind) (j : Nat) (h : j < consecBits ks) : ks[j]? = some .bit := by
  induction ks generalizing j with
  | nil => simp [consecBits] at h
  | cons k ks ih =>
    cases k with
    | bit =>
      cases j with
      | zero => rfl
      | succ j => simp only [consecBits] at h; simpa using ih j (by omega)
    | stat n => simp [consecBits] at h
    | dyn => simp [consecBits] at h

theorem groupKinds_bit (ks : List Kind) :
    groupKinds (.bit :: ks) = .bits (consecBits ks + 1) :: groupKinds (ks.drop (consecBits ks)) := by
  induction ks with
  | nil => rfl
  | cons k ks ih =>
    cases k with
    | bit =>
      rw [groupKinds, ih]
      simp [consecBits]
    | stat n => simp [groupKinds, consecBits]
    | dyn => simp [groupKinds, consecBits]

/-- induction over a list of kinds one *group* at a time -/
theorem kinds_peel {P : List Kind → Prop} (hnil : P [])
    (hstat : ∀ n ks, P ks → P (.stat n :: ks)) (hdyn : ∀ ks, P ks → P (.dyn :: ks))
    (hbit : ∀ ks, P (ks.drop (consecBits ks)) → P (.bit :: ks)) : ∀ ks, P ks := by
  intro ks
  generalize hn : ks.length = n
  induction n using Nat.strongRecOn generalizing ks with
  | _ n ih =>
    cases ks with
    | nil => exact hnil
    | cons k ks =>
      simp only [List.length_cons] at hn
      cases k with
      | bit => exact hbit ks (ih (ks.drop (consecBits ks)).length (by simp; omega) _ rfl)
      | stat m => exact hstat m ks (ih ks.length (by omega) _ rfl)
      | dyn => exact hdyn ks (ih ks.length (by omega) _ rfl)

theorem kinds_drop (ts : List Ty) (n : Nat) : kinds (ts.drop n) = (kinds ts).drop n := by
  induction ts generalizing n with
  | nil => simp [kinds]
  | cons t ts ih => cases n <;> simp [kinds, ih]

theorem kinds_length (ts : List Ty) : (kinds ts).length = ts.length := by
  induction ts with
  | nil => rfl
  | cons t ts ih => simp [kinds, ih]

theorem kinds_get (ts : List Ty) (i : Nat) : (kinds ts)[i]? = ts[i]?.map kind := by
  induction ts generalizing i with
  | nil => simp [kinds]
  | cons t ts ih => cases i <;> simp [kinds, kind, ih]

theorem consecBits_kinds (ts : List Ty) : consecBits (kinds ts) = consecBools ts := by
  induction ts with
  | nil => rfl
  | cons t ts ih =>
    cases t <;> simp [kinds, mkKind, consecBits, consecBools, ih] <;> split <;> simp [consecBits]


/-! ### `byte_length_static` / `_bool_aware_static_byte_length` agree with `staticLen` -/

theorem boolAwareLen_skip (ts : List Ty) (ig : Nat) (h : ig ≤ ts.length) :
    boolAwareLen ts ig = boolAwareLen (ts.drop ig) 0 := by
  induction ig generalizing ts with
  | zero => simp
  | succ ig ih =>
    cases ts with
    | nil => simp at h
    | cons t ts => simp only [boolAwareLen, List.drop_succ_cons]; exact ih ts (by simpa using h)

theorem consecBools_le (ts : List Ty) : consecBools ts ≤ ts.length := by
  induction ts with
  | nil => simp [consecBools]
  | cons t ts ih => cases t <;> simp [consecBools] <;> omega

/-- types one group at a time -/
theorem tys_peel {P : List Ty → Prop} (hnil : P [])
    (hother : ∀ t ts, t ≠ .bool → P ts → P (t :: ts))
    (hbool : ∀ ts, P (ts.drop (consecBools ts)) → P (.bool :: ts)) : ∀ ts, P ts := by
  intro ts
  generalize hn : ts.length = n
  induction n using Nat.strongRecOn generalizing ts with
  | _ n ih =>
    cases ts with
    | nil => exact hnil
    | cons t ts =>
      simp only [List.length_cons] at hn
      by_cases hb : t = .bool
      · subst hb
        exact hbool ts (ih (ts.drop (consecBools ts)).length (by simp; omega) _ rfl)
      · exact hother t ts hb (ih ts.length (by omega) _ rfl)

theorem kinds_cons_other (t : Ty) (ts : List Ty) (h : t ≠ .bool) (hd : isDynamic t = false) :
    groupKinds (kinds (t :: ts)) = .stat (staticLen t) :: groupKinds (kinds ts) := by
  cases t <;> simp_all [kinds, mkKind, groupKinds]

theorem boolAwareLen_eq (ts : List Ty) :
    (∀ t ∈ ts, isDynamic t = false → byteLen t = .ok (staticLen t)) → anyDynamic ts = false →
    boolAwareLen ts 0 = .ok (kindsHeadLen (kinds ts)) := by
  induction ts using tys_peel with
  | hnil => intro _ _; rfl
  | hother t ts hb ih =>
    intro hall hd
    simp only [anyDynamic, Bool.or_eq_false_iff] at hd
    have h1 := hall t List.mem_cons_self hd.1
    have h2 := ih (fun x hx => hall x (List.mem_cons_of_mem _ hx)) hd.2
    have hnb : isBool t = false := by
      cases hbb : isBool t with
      | false => rfl
      | true => exact absurd ((isBool_iff t).1 hbb) hb
    simp only [boolAwareLen, hnb, Bool.false_eq_true, ↓reduceIte, h1, h2]
    simp only [kindsHeadLen] at *
    rw [kinds_cons_other t ts hb hd.1]
    rfl
  | hbool ts ih =>
    intro hall hd
    simp only [anyDynamic, Bool.or_eq_false_iff] at hd
    have hd' : anyDynamic (ts.drop (consecBools ts)) = false := by
      have : ∀ (l : List Ty) (n : Nat), anyDynamic l = false → anyDynamic (l.drop n) = false := by
        intro l
        induction l with
        | nil => intro n _; simp [anyDynamic]
        | cons a l ihl =>
          intro n h
          cases n with
          | zero => simpa using h
          | succ n =>
            simp only [anyDynamic, Bool.or_eq_false_iff] at h
            simpa using ihl n h.2
      exact this ts _ hd.2
    have h2 := ih (fun x hx => hall x (List.mem_cons_of_mem _ (List.mem_of_mem_drop hx))) hd'
    simp only [boolAwareLen, isBool, ↓reduceIte, consecBools, Nat.add_sub_cancel]
    rw [boolAwareLen_skip ts _ (consecBools_le ts), h2]
    simp only [Except.map, kindsHeadLen, kinds, mkKind, groupKinds_bit, gkindsLen, consecBits_kinds,
      kinds_drop, boolSeqLen_eq]

mutual
  theorem byteLen_eq : (t : Ty) → isDynamic t = false → byteLen t = .ok (staticLen t)
    | .bool, _ => rfl
    | .byte, _ => rfl
    | .uint _, _ => rfl
    | .address, _ => rfl
    | .string, h => by simp [isDynamic] at h
    | .darray _, h => by simp [isDynamic] at h
    | .sarray e n, h => by
      simp only [isDynamic] at h
      simp only [byteLen, isDyn_eq, h, Bool.false_eq_true, ↓reduceIte]
      by_cases hb : e = .bool
      · subst hb
        simp [isBool, staticLen_sarray_bool, boolSeqLen_eq]
      · have hnb : isBool e = false := by
          cases hbb : isBool e with
          | false => rfl
          | true => exact absurd ((isBool_iff e).1 hbb) hb
        simp only [hnb, Bool.false_eq_true, ↓reduceIte, byteLen_eq e h, Except.map]
        rw [staticLen_sarray e n hb, headLen, h]
        rfl
    | .tuple ts, h => by
      simp only [isDynamic] at h
      simp only [byteLen, anyDyn_eq, h, Bool.false_eq_true, ↓reduceIte]
      rw [boolAwareLen_eq ts (byteLen_all ts) h]
      rfl
  theorem byteLen_all : (ts : List Ty) → ∀ t ∈ ts, isDynamic t = false → byteLen t = .ok (staticLen t)
    | [], _, h, _ => by cases h
    | t :: ts, x, hx, hd => by
      by_cases hxt : x = t
      · rw [hxt] at hd ⊢; exact byteLen_eq t hd
      · exact byteLen_all ts x (by simpa [hxt] using hx) hd
end

theorem obs_eq (t : Ty) : obs t = .ok (kind t) := by
  unfold obs
  by_cases hb : t = .bool
  · subst hb; rfl
  · have hnb : isBool t = false := by
      cases hbb : isBool t with
      | false => rfl
      | true => exact absurd ((isBool_iff t).1 hbb) hb
    simp only [hnb, Bool.false_eq_true, ↓reduceIte, isDyn_eq]
    cases hd : isDynamic t with
    | true => cases t <;> simp_all [kind, mkKind]
    | false =>
      simp only [Bool.false_eq_true, ↓reduceIte, byteLen_eq t hd, Except.map]
      cases t <;> simp_all [kind, mkKind]

theorem obsList_eq (ts : List Ty) : obsList ts = .ok (kinds ts) := by
  induction ts with
  | nil => rfl
  | cons t ts ih => simp only [obsList, obs_eq, ih, kinds, kind]

theorem stride_eq (e : Ty) : stride e = .ok (headLen e) := by
  unfold stride headLen
  rw [isDyn_eq]
  cases hd : isDynamic e with
  | true => rfl
  | false => simp [byteLen_eq e hd]


/-! ### the offset walk on a bool run -/

theorem walk_skip_le (ks : List Kind) (n : Nat) (st : WalkSt) (h : n ≤ st.ignoreNext) (hl : n ≤ ks.length) :
    walk ks n st = { st with ignoreNext := st.ignoreNext - n } := by
  induction n generalizing ks st with
  | zero => simp [walk]
  | succ n ih =>
    cases ks with
    | nil => simp at hl
    | cons k rest =>
      have hpos : st.ignoreNext > 0 := by omega
      simp only [walk, hpos, ↓reduceIte]
      rw [ih rest _ (by simp; omega) (by simpa using hl)]
      simp only [WalkSt.mk.injEq, true_and, and_true]
      omega

theorem walk_skip_gt (ks : List Kind) (g n : Nat) (st : WalkSt) (hg : st.ignoreNext = g) (h : g ≤ n)
    (hl : g ≤ ks.length) : walk ks n st = walk (ks.drop g) (n - g) { st with ignoreNext := 0 } := by
  induction g generalizing ks n st with
  | zero => cases st; simp_all
  | succ g ih =>
    cases ks with
    | nil => simp at hl
    | cons k rest =>
      cases n with
      | zero => omega
      | succ n =>
        have hpos : st.ignoreNext > 0 := by omega
        simp only [walk, hpos, ↓reduceIte, List.drop_succ_cons]
        rw [ih rest n _ (by simp; omega) (by omega) (by simpa using hl)]
        simp

theorem walk_bit_lt (ks : List Kind) (i : Nat) (st : WalkSt) (h0 : st.ignoreNext = 0)
    (hi : i ≤ consecBits ks) :
    walk (.bit :: ks) (i + 1) st =
      ⟨st.offset + boolSeqLen (consecBits ks + 1), consecBits ks - i, st.offset, consecBits ks + 1⟩ := by
  have hnp : ¬ st.ignoreNext > 0 := by omega
  simp only [walk, hnp, ↓reduceIte, consecBits, Nat.add_sub_cancel]
  rw [walk_skip_le ks i _ (by simpa using hi) (Nat.le_trans hi (consecBits_le ks))]

theorem walk_bit_ge (ks : List Kind) (j : Nat) (st : WalkSt) (h0 : st.ignoreNext = 0) :
    walk (.bit :: ks) (consecBits ks + 1 + j) st =
      walk (ks.drop (consecBits ks)) j
        ⟨st.offset + boolSeqLen (consecBits ks + 1), 0, st.offset, consecBits ks + 1⟩ := by
  have hnp : ¬ st.ignoreNext > 0 := by omega
  have e : consecBits ks + 1 + j = (consecBits ks + j) + 1 := by omega
  rw [e]
  simp only [walk, hnp, ↓reduceIte, consecBits, Nat.add_sub_cancel]
  rw [walk_skip_gt ks (consecBits ks) _ _ rfl (by omega) (consecBits_le ks)]
  simp

theorem nextDyn_skip (ks : List Kind) (g p : Nat) (hl : g ≤ ks.length) :
    nextDyn ks g p = nextDyn (ks.drop g) 0 p := by
  induction g generalizing ks with
  | zero => simp
  | succ g ih =>
    cases ks with
    | nil => simp at hl
    | cons k rest => simp only [nextDyn, List.drop_succ_cons]; exact ih rest (by simpa using hl)

/-! ### bytes -/

theorem beToNat_eq (bs : Bytes) : beToNat bs = beNat bs := rfl

theorem drop_cons2 {bs : Bytes} {off : Nat} {a b : UInt8} {r : Bytes} (h : bs.drop off = a :: b :: r) :
    bs.drop (off + 2) = r ∧ off + 2 ≤ bs.length := by
  have h1 : bs.drop (off + 2) = (bs.drop off).drop 2 := by rw [List.drop_drop]
  have hl : (bs.drop off).length = r.length + 2 := by rw [h]; simp
  rw [List.length_drop] at hl
  refine ⟨by rw [h1, h]; rfl, by omega⟩

theorem u16At_of_drop {bs : Bytes} {off : Nat} {a b : UInt8} {r : Bytes} (h : bs.drop off = a :: b :: r) :
    u16At bs off = .ok (a.toNat * 256 + b.toNat) := by
  have hl := (drop_cons2 h).2
  simp only [u16At, sliceB]
  rw [if_pos ⟨by omega, hl⟩]
  simp only [Nat.add_sub_cancel_left, h, Except.map]
  simp [beToNat, List.take]

theorem sliceB_ok (bs : Bytes) (s e : Nat) (h1 : s ≤ e) (h2 : e ≤ bs.length) :
    sliceB bs s e = .ok ((bs.drop s).take (e - s)) := by
  simp only [sliceB]; rw [if_pos ⟨h1, h2⟩]

theorem natBits8_get (n r : Nat) (h : r < 8) :
    (natBits 8 n)[r]? = some (n / 2 ^ (7 - r) % 2 == 1) := by
  have : r = 0 ∨ r = 1 ∨ r = 2 ∨ r = 3 ∨ r = 4 ∨ r = 5 ∨ r = 6 ∨ r = 7 := by omega
  rcases this with rfl | rfl | rfl | rfl | rfl | rfl | rfl | rfl <;> simp [natBits]

theorem natBits_length (w n : Nat) : (natBits w n).length = w := by
  induction w with
  | zero => rfl
  | succ w ih => simp [natBits, ih]

theorem unpack_length (xs : Bytes) : (unpack xs).length = 8 * xs.length := by
  induction xs with
  | nil => rfl
  | cons x xs ih => rw [unpack_cons, List.length_append, natBits_length, ih]; simp; omega

theorem unpack_get (xs : Bytes) (r : Nat) (h : r / 8 < xs.length) :
    (unpack xs)[r]? = (xs[r / 8]?).map (fun b => b.toNat / 2 ^ (7 - r % 8) % 2 == 1) := by
  induction xs generalizing r with
  | nil => simp at h
  | cons x xs ih =>
    rw [unpack_cons]
    by_cases hr : r < 8
    · rw [List.getElem?_append_left (by rw [natBits_length]; exact hr), natBits8_get _ _ hr]
      have h0 : r / 8 = 0 := by omega
      have h1 : r % 8 = r := by omega
      simp [h0, h1]
    · rw [List.getElem?_append_right (by rw [natBits_length]; omega), natBits_length]
      have e1 : r / 8 = (r - 8) / 8 + 1 := by omega
      have e2 : r % 8 = (r - 8) % 8 := by omega
      rw [ih (r - 8) (by simp at h; omega), e1, e2]
      simp

/-- `getbit` at bit `off*8 + r` reads bit `r` of the unpacked bytes starting at `off` -/
theorem getBitB_unpack (bs : Bytes) (off m r : Nat) (hr : r < 8 * m) (hm : off + m ≤ bs.length) :
    ∃ b, (unpack ((bs.drop off).take m))[r]? = some b ∧
      getBitB bs (off * 8 + r) = .ok (if b then 1 else 0) := by
  have hlen : ((bs.drop off).take m).length = m := by simp; omega
  have hq : r / 8 < m := by omega
  have hg := unpack_get ((bs.drop off).take m) r (by rw [hlen]; exact hq)
  have hidx : ((bs.drop off).take m)[r / 8]? = bs[off + r / 8]? := by
    rw [List.getElem?_take_of_lt hq, List.getElem?_drop]
  have hlt : off + r / 8 < bs.length := by omega
  rw [hidx, List.getElem?_eq_getElem hlt] at hg
  refine ⟨_, hg, ?_⟩
  have e1 : (off * 8 + r) / 8 = off + r / 8 := by omega
  have e2 : (off * 8 + r) % 8 = r % 8 := by omega
  simp only [getBitB, e1, e2, List.getElem?_eq_getElem hlt]
  have : bs[off + r / 8].toNat / 2 ^ (7 - r % 8) % 2 < 2 := Nat.mod_lt _ (by decide)
  by_cases hb : bs[off + r / 8].toNat / 2 ^ (7 - r % 8) % 2 = 1
  · simp [hb]
  · have : bs[off + r / 8].toNat / 2 ^ (7 - r % 8) % 2 = 0 := by omega
    simp [this]


/-! ### the positions computed by `_index_tuple` are the positions `Arc4.split` reads -/

/-- what lands in the output variable for a piece of the encoding -/
def pieceVal : Piece → Val
  | .bit b => .u (if b then 1 else 0)
  | .bytes s => .b s

/-- end of the slice of a dynamic member: the next dynamic member's head, else the end -/
def dynEnd (bs : Bytes) (after : List Kind) (p : Nat) : M Nat :=
  match nextDyn after 0 p with
  | (true, q) => u16At bs q
  | (false, _) => .ok bs.length

/-- what the emitted code reads for a member of kind `k` located by the walk state `st`
    (`after` = the members behind it), in canonical form (slice = start, start+length) -/
def accessAt (bs : Bytes) (st : WalkSt) (k : Kind) (after : List Kind) : M Val :=
  match k with
  | .bit =>
    opGetBit bs (if st.ignoreNext > 0 then st.lastBoolStart * 8 + (st.lastBoolLength - st.ignoreNext)
                 else st.offset * 8)
  | .stat n => (sliceB bs st.offset (st.offset + n)).map .b
  | .dyn =>
    match u16At bs st.offset, dynEnd bs after (st.offset + 2) with
    | .ok s, .ok e => (sliceB bs s e).map .b
    | .error f, _ => .error f
    | _, .error f => .error f

theorem readHeads_stat {n : Nat} {gs : List GKind} {x : Bytes} {items : List HItem} {rest : Bytes}
    (h : readHeads (.stat n :: gs) x = some (items, rest)) :
    n ≤ x.length ∧ ∃ is', readHeads gs (x.drop n) = some (is', rest) ∧
      items = .pieces [.bytes (x.take n)] :: is' := by
  simp only [readHeads] at h
  split at h
  · cases h
  · rename_i hn
    split at h
    · rename_i is' r hr
      cases h
      exact ⟨by omega, is', hr, rfl⟩
    · cases h

theorem readHeads_bits {k : Nat} {gs : List GKind} {x : Bytes} {items : List HItem} {rest : Bytes}
    (h : readHeads (.bits k :: gs) x = some (items, rest)) :
    ceil8 k ≤ x.length ∧ ∃ is', readHeads gs (x.drop (ceil8 k)) = some (is', rest) ∧
      items = .pieces (((unpack (x.take (ceil8 k))).take k).map .bit) :: is' := by
  simp only [readHeads] at h
  split at h
  · cases h
  · rename_i hn
    split at h
    · rename_i is' r hr
      cases h
      exact ⟨by omega, is', hr, rfl⟩
    · cases h

theorem readHeads_dyn {gs : List GKind} {x : Bytes} {items : List HItem} {rest : Bytes}
    (h : readHeads (.dyn :: gs) x = some (items, rest)) :
    ∃ a b x' is', x = a :: b :: x' ∧ readHeads gs x' = some (is', rest) ∧
      items = .off (a.toNat * 256 + b.toNat) :: is' := by
  simp only [readHeads] at h
  split at h
  · rename_i a b x'
    split at h
    · rename_i is' r hr
      cases h
      exact ⟨a, b, x', is', rfl, hr, rfl⟩
    · cases h
  · cases h

/-- the next-dynamic-head search finds what `Arc4.nextOff` uses -/
theorem nextDyn_spec (bs : Bytes) : ∀ (ks : List Kind) (off : Nat) (items : List HItem) (rest : Bytes),
    readHeads (groupKinds ks) (bs.drop off) = some (items, rest) →
    dynEnd bs ks off = .ok (nextOff bs.length items) := by
  intro ks
  induction ks using kinds_peel with
  | hnil =>
    intro off items rest h
    simp only [groupKinds, readHeads, Option.some.injEq, Prod.mk.injEq] at h
    simp [dynEnd, nextDyn, ← h.1, nextOff]
  | hstat n ks ih =>
    intro off items rest h
    obtain ⟨_, is', hr, rfl⟩ := readHeads_stat (by simpa [groupKinds] using h)
    rw [List.drop_drop] at hr
    have := ih (off + n) is' rest hr
    simpa [dynEnd, nextDyn, nextOff] using this
  | hdyn ks ih =>
    intro off items rest h
    obtain ⟨a, b, x', is', hx, _, rfl⟩ := readHeads_dyn (by simpa [groupKinds] using h)
    simp [dynEnd, nextDyn, nextOff, u16At_of_drop hx]
  | hbit ks ih =>
    intro off items rest h
    rw [groupKinds_bit] at h
    obtain ⟨_, is', hr, rfl⟩ := readHeads_bits h
    rw [List.drop_drop] at hr
    have := ih (off + ceil8 (consecBits ks + 1)) is' rest hr
    simp only [dynEnd, nextDyn, consecBits, Nat.add_sub_cancel, nextOff, boolSeqLen_eq] at this ⊢
    rw [nextDyn_skip ks _ _ (consecBits_le ks)]
    exact this

def gkindIsDyn : GKind → Bool
  | .dyn => true
  | _ => false

theorem groupKinds_any_dyn (ks : List Kind) :
    (groupKinds ks).any gkindIsDyn = ks.any kindIsDyn := by
  induction ks with
  | nil => rfl
  | cons k ks ih =>
    cases k with
    | bit =>
      simp only [groupKinds, List.any_cons, ← ih]
      cases hg : groupKinds ks with
      | nil => rfl
      | cons g gs => cases g <;> rfl
    | stat n => simp [groupKinds, ih, gkindIsDyn, kindIsDyn]
    | dyn => simp [groupKinds, gkindIsDyn, kindIsDyn]

theorem hasOff_readHeads : ∀ (gs : List GKind) (x : Bytes) (items : List HItem) (rest : Bytes),
    readHeads gs x = some (items, rest) → hasOff items = gs.any gkindIsDyn := by
  intro gs
  induction gs with
  | nil => intro x items rest h; simp only [readHeads, Option.some.injEq, Prod.mk.injEq] at h; simp [← h.1, hasOff]
  | cons g gs ih =>
    intro x items rest h
    cases g with
    | bits k =>
      obtain ⟨_, is', hr, rfl⟩ := readHeads_bits h
      simpa [hasOff, gkindIsDyn] using ih _ _ _ hr
    | stat n =>
      obtain ⟨_, is', hr, rfl⟩ := readHeads_stat h
      simpa [hasOff, gkindIsDyn] using ih _ _ _ hr
    | dyn =>
      obtain ⟨a, b, x', is', _, _, rfl⟩ := readHeads_dyn h
      simp [hasOff, gkindIsDyn]

theorem allStatic_iff (ks : List Kind) : allStatic ks = !(ks.any kindIsDyn) := by
  induction ks with
  | nil => rfl
  | cons k ks ih =>
    simp only [allStatic, List.all_cons, List.any_cons] at ih ⊢
    rw [ih]; cases k <;> simp [kindIsDyn]

/-- conclusion of the main lemma -/
def Located (bs : Bytes) (ks : List Kind) (off : Nat) (items : List HItem) (rest : Bytes)
    (pieces : List Piece) (i : Nat) (st : WalkSt) : Prop :=
  ∃ k p, ks[i]? = some k ∧ pieces[i]? = some p ∧
    accessAt bs (walk ks i st) k (ks.drop (i + 1)) = .ok (pieceVal p) ∧
    off ≤ (walk ks i st).offset ∧
    (∀ n, k = .stat n → i + 1 = ks.length →
      (rest = [] → (walk ks i st).offset + n = bs.length) ∧
      (hasOff items = true → off + 2 ≤ (walk ks i st).offset))

theorem located (bs : Bytes) : ∀ (ks : List Kind) (off : Nat) (items : List HItem) (rest : Bytes)
    (pieces : List Piece) (i : Nat) (st : WalkSt),
    readHeads (groupKinds ks) (bs.drop off) = some (items, rest) → resolve bs items = some pieces →
    off ≤ bs.length → i < ks.length → st.offset = off → st.ignoreNext = 0 →
    Located bs ks off items rest pieces i st := by
  intro ks
  induction ks using kinds_peel with
  | hnil => intro off items rest pieces i st _ _ _ hi; simp at hi
  | hstat n ks ih =>
    intro off items rest pieces i st h hres hoff hi hso hig
    obtain ⟨hn, is', hr, rfl⟩ := readHeads_stat (by simpa [groupKinds] using h)
    rw [List.drop_drop] at hr
    simp only [List.length_drop] at hn
    simp only [resolve, Option.map_eq_some_iff] at hres
    obtain ⟨pieces', hres', rfl⟩ := hres
    have hnp : ¬ st.ignoreNext > 0 := by omega
    cases i with
    | zero =>
      refine ⟨.stat n, .bytes ((bs.drop off).take n), rfl, rfl, ?_, by simp [walk, hso], ?_⟩
      · simp only [walk, accessAt, hso, sliceB_ok bs off (off + n) (by omega) (by omega),
          Nat.add_sub_cancel_left, Except.map, pieceVal]
      · intro m hm hlast
        cases hm
        have hks : ks = [] := by
          simp only [List.length_cons] at hlast
          exact List.eq_nil_of_length_eq_zero (by omega)
        subst hks
        simp only [groupKinds, readHeads, Option.some.injEq, Prod.mk.injEq] at hr
        refine ⟨fun hrest => ?_, fun ho => ?_⟩
        · have hl : (bs.drop (off + n)).length = 0 := by rw [hr.2, hrest]; rfl
          simp only [List.length_drop] at hl
          simp only [walk, hso]; omega
        · rw [← hr.1] at ho; simp [hasOff] at ho
    | succ i =>
      obtain ⟨k, p, hk, hp, hacc, hmono, hlast⟩ :=
        ih (off + n) is' rest pieces' i { st with offset := st.offset + n } hr hres' (by omega)
          (by simpa using hi) (by simp [hso]) hig
      have hw : walk (.stat n :: ks) (i + 1) st = walk ks i { st with offset := st.offset + n } := by
        simp only [walk, hnp, ↓reduceIte]
      refine ⟨k, p, by simpa using hk, by simpa using hp, by simpa [hw] using hacc, by rw [hw]; omega, ?_⟩
      intro m hm hl
      obtain ⟨h1, h2⟩ := hlast m hm (by simpa using hl)
      rw [hw]
      exact ⟨h1, fun ho => by have := h2 (by simpa [hasOff] using ho); omega⟩
  | hdyn ks ih =>
    intro off items rest pieces i st h hres hoff hi hso hig
    obtain ⟨a, b, x', is', hx, hr, rfl⟩ := readHeads_dyn (by simpa [groupKinds] using h)
    obtain ⟨hx', hlen2⟩ := drop_cons2 hx
    rw [← hx'] at hr
    simp only [resolve] at hres
    split at hres
    · rename_i hoe
      simp only [Option.map_eq_some_iff] at hres
      obtain ⟨pieces', hres', rfl⟩ := hres
      have hnp : ¬ st.ignoreNext > 0 := by omega
      cases i with
      | zero =>
        refine ⟨.dyn, _, rfl, rfl, ?_, by simp [walk, hso], fun m hm => by cases hm⟩
        simp only [walk, accessAt, hso, u16At_of_drop hx, List.drop_succ_cons, List.drop_zero,
          nextDyn_spec bs ks (off + 2) is' rest hr, sliceB_ok bs _ _ hoe.1 hoe.2, Except.map, pieceVal]
      | succ i =>
        obtain ⟨k, p, hk, hp, hacc, hmono, hlast⟩ :=
          ih (off + 2) is' rest pieces' i { st with offset := st.offset + 2 } hr hres' hlen2
            (by simpa using hi) (by simp [hso]) hig
        have hw : walk (.dyn :: ks) (i + 1) st = walk ks i { st with offset := st.offset + 2 } := by
          simp only [walk, hnp, ↓reduceIte]
        refine ⟨k, p, by simpa using hk, by simpa using hp, by simpa [hw] using hacc, by rw [hw]; omega, ?_⟩
        intro m hm hl
        obtain ⟨h1, _⟩ := hlast m hm (by simpa using hl)
        rw [hw]
        exact ⟨h1, fun _ => hmono⟩
    · cases hres
  | hbit ks ih =>
    intro off items rest pieces i st h hres hoff hi hso hig
    rw [groupKinds_bit] at h
    obtain ⟨hn, is', hr, rfl⟩ := readHeads_bits h
    rw [List.drop_drop] at hr
    simp only [List.length_drop] at hn
    simp only [resolve, Option.map_eq_some_iff] at hres
    obtain ⟨pieces', hres', rfl⟩ := hres
    generalize hc0 : consecBits ks = c0 at *
    have hbl : ((unpack ((bs.drop off).take (ceil8 (c0 + 1)))).take (c0 + 1)).length = c0 + 1 := by
      rw [List.length_take, unpack_length, List.length_take, List.length_drop]
      simp only [ceil8] at hn ⊢
      omega
    by_cases hlt : i ≤ c0
    · -- inside the run
      obtain ⟨bv, hbv, hget⟩ := getBitB_unpack bs off (ceil8 (c0 + 1)) i (by simp only [ceil8]; omega) (by omega)
      have hki : (Kind.bit :: ks)[i]? = some .bit := by
        cases i with
        | zero => rfl
        | succ i => simpa using consecBits_get ks i (by omega)
      have hpi : ((List.map Piece.bit ((unpack ((bs.drop off).take (ceil8 (c0 + 1)))).take (c0 + 1))) ++ pieces')[i]?
          = some (.bit bv) := by
        rw [List.getElem?_append_left (by rw [List.length_map, hbl]; omega), List.getElem?_map,
          List.getElem?_take_of_lt (by omega), hbv]
        rfl
      refine ⟨.bit, .bit bv, hki, hpi, ?_, ?_, fun m hm => by cases hm⟩
      · cases i with
        | zero =>
          have hnp : ¬ st.ignoreNext > 0 := by omega
          simp only [walk, accessAt, hnp, ↓reduceIte, hso, opGetBit]
          rw [show off * 8 = off * 8 + 0 by rfl, hget]; rfl
        | succ i =>
          rw [walk_bit_lt ks i st hig (by omega), hc0]
          have hpos : c0 - i > 0 := by omega
          simp only [accessAt, hpos, ↓reduceIte, hso, opGetBit]
          have : c0 + 1 - (c0 - i) = i + 1 := by omega
          rw [this, hget]; rfl
      · cases i with
        | zero => simp [walk, hso]
        | succ i => rw [walk_bit_lt ks i st hig (by omega)]; simp [hso]
    · -- behind the run
      obtain ⟨j, rfl⟩ : ∃ j, i = c0 + 1 + j := ⟨i - (c0 + 1), by omega⟩
      have hcl := consecBits_le ks
      obtain ⟨k, p, hk, hp, hacc, hmono, hlast⟩ :=
        ih (off + ceil8 (c0 + 1)) is' rest pieces' j
          ⟨st.offset + boolSeqLen (c0 + 1), 0, st.offset, c0 + 1⟩ hr hres' (by omega)
          (by simp only [List.length_cons, List.length_drop] at hi ⊢; omega)
          (by simp [hso, boolSeqLen_eq]) rfl
      have hw := walk_bit_ge ks j st hig
      rw [hc0] at hw
      refine ⟨k, p, ?_, ?_, ?_, by rw [hw]; omega, ?_⟩
      · rw [show c0 + 1 + j = (c0 + j) + 1 by omega, List.getElem?_cons_succ]
        simpa [List.getElem?_drop] using hk
      · rw [List.getElem?_append_right (by rw [List.length_map, hbl]; omega), List.length_map, hbl]
        simpa using hp
      · rw [hw]
        have : (Kind.bit :: ks).drop (c0 + 1 + j + 1) = (ks.drop c0).drop (j + 1) := by
          rw [show c0 + 1 + j + 1 = (c0 + (j + 1)) + 1 by omega, List.drop_succ_cons, List.drop_drop]
        rw [this]; exact hacc
      · intro m hm hl
        obtain ⟨h1, h2⟩ := hlast m hm (by simp only [List.length_cons, List.length_drop] at hl ⊢; omega)
        rw [hw]
        exact ⟨h1, fun ho => by have := h2 (by simpa [hasOff] using ho); omega⟩

end PyTealV.Proofs.C07
