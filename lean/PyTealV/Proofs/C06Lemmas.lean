/-
  C06 — helper lemmas (run grouping, descriptors, bit packing, the `_encode_tuple` loop
  invariant, leaf encodings).  The property theorems are in `Proofs/C06.lean`.
-/
import PyTealV.Models.AbiEncode
import PyTealV.Proofs.Arc4Decode
namespace PyTealV.Proofs.C06
open PyTealV.Arc4 PyTealV.Models.AbiEncode
set_option linter.unusedVariables false
set_option linter.unusedSimpArgs false

/-! ## runs of bools: the `ignoreNext` loop computes the maximal runs -/

/-- maximal runs, defined from the right exactly like `Arc4.group` / `Arc4.groupKinds` -/
def groupR {α} (isB : α → Bool) : List α → List (Item α)
  | [] => []
  | x :: xs =>
    if isB x then
      match groupR isB xs with
      | .run r :: is => .run (x :: r) :: is
      | is => .run [x] :: is
    else .one x :: groupR isB xs

theorem pyItems_skip {α} (isB : α → Bool) (k : Nat) (xs : List α) :
    pyItems isB k xs = pyItems isB 0 (xs.drop k) := by
  induction k generalizing xs with
  | zero => rfl
  | succ k ih =>
    cases xs with
    | nil => simp [pyItems]
    | cons x xs => simp [pyItems, ih]

theorem groupR_head_one {α} (isB : α → Bool) (xs : List α) (y : α) (is : List (Item α))
    (h : groupR isB xs = .one y :: is) : isB y = false := by
  cases xs with
  | nil => simp [groupR] at h
  | cons x xs =>
    simp only [groupR] at h
    split at h
    · split at h <;> simp at h
    · rename_i hx
      simp only [List.cons.injEq, Item.one.injEq] at h
      rw [← h.1]; simpa using hx

/-- `groupR` in terms of the length of the leading run -/
theorem groupR_lead {α} (isB : α → Bool) (xs : List α) :
    (leadCount isB xs = 0 → ∀ r is, groupR isB xs ≠ .run r :: is) ∧
    (∀ n, leadCount isB xs = n + 1 →
      groupR isB xs = .run (xs.take (n + 1)) :: groupR isB (xs.drop (n + 1))) := by
  induction xs with
  | nil => simp [leadCount, groupR]
  | cons x xs ih =>
    by_cases hx : isB x = true
    · simp only [leadCount, hx, ↓reduceIte, groupR]
      refine ⟨by omega, ?_⟩
      intro n hn
      have hn' : leadCount isB xs = n := by omega
      cases n with
      | zero =>
        have h0 := ih.1 hn'
        simp only [List.take_succ_cons, List.take_zero, List.drop_succ_cons, List.drop_zero]
      | succ n =>
        rw [ih.2 n hn']
        simp
    · simp only [leadCount, hx, Bool.false_eq_true, ↓reduceIte, groupR]
      refine ⟨fun _ r is => by simp, by omega⟩

theorem leadCount_le {α} (p : α → Bool) (xs : List α) : leadCount p xs ≤ xs.length := by
  induction xs with
  | nil => simp [leadCount]
  | cons x xs ih => simp only [leadCount]; split <;> simp <;> omega

/-- **the `ignoreNext` loop is maximal-run grouping** -/
theorem pyItems_eq_groupR {α} (isB : α → Bool) (xs : List α) :
    pyItems isB 0 xs = groupR isB xs := by
  induction hn : xs.length using Nat.strongRecOn generalizing xs with
  | ind n ih =>
    cases xs with
    | nil => rfl
    | cons x xs =>
      by_cases hx : isB x = true
      · have hl : leadCount isB (x :: xs) = leadCount isB xs + 1 := by simp [leadCount, hx]
        rw [(groupR_lead isB (x :: xs)).2 _ hl]
        simp only [pyItems, hx, ↓reduceIte, hl, Nat.add_sub_cancel, List.drop_succ_cons]
        rw [pyItems_skip]
        congr 1
        have := leadCount_le isB xs
        exact ih _ (by subst hn; simp; omega) _ rfl
      · simp only [pyItems, hx, Bool.false_eq_true, ↓reduceIte, groupR]
        congr 1
        exact ih _ (by subst hn; simp) _ rfl

theorem groupR_mem_one {α} (isB : α → Bool) (xs : List α) (y : α)
    (h : Item.one y ∈ groupR isB xs) : y ∈ xs ∧ isB y = false := by
  induction xs with
  | nil => simp [groupR] at h
  | cons x xs ih =>
    simp only [groupR] at h
    split at h
    · split at h
      · rename_i r is hr
        simp only [List.mem_cons, reduceCtorEq, false_or] at h
        have := ih (by rw [hr]; exact List.mem_cons_of_mem _ h)
        exact ⟨List.mem_cons_of_mem _ this.1, this.2⟩
      · simp only [List.mem_cons, reduceCtorEq, false_or] at h
        have := ih h
        exact ⟨List.mem_cons_of_mem _ this.1, this.2⟩
    · rename_i hx
      simp only [List.mem_cons, Item.one.injEq] at h
      rcases h with rfl | h
      · exact ⟨List.mem_cons_self, by simpa using hx⟩
      · have := ih h
        exact ⟨List.mem_cons_of_mem _ this.1, this.2⟩

theorem groupR_mem_run {α} (isB : α → Bool) (xs : List α) (r : List α)
    (h : Item.run r ∈ groupR isB xs) : ∀ y ∈ r, y ∈ xs ∧ isB y = true := by
  induction xs generalizing r with
  | nil => simp [groupR] at h
  | cons x xs ih =>
    simp only [groupR] at h
    split at h
    · rename_i hx
      split at h
      · rename_i r' is hr
        simp only [List.mem_cons, Item.run.injEq] at h
        rcases h with rfl | h
        · intro y hy
          rcases List.mem_cons.1 hy with rfl | hy
          · exact ⟨List.mem_cons_self, hx⟩
          · have := ih r' (by rw [hr]; exact List.mem_cons_self) y hy
            exact ⟨List.mem_cons_of_mem _ this.1, this.2⟩
        · intro y hy
          have := ih r (by rw [hr]; exact List.mem_cons_of_mem _ h) y hy
          exact ⟨List.mem_cons_of_mem _ this.1, this.2⟩
      · simp only [List.mem_cons, Item.run.injEq] at h
        rcases h with rfl | h
        · intro y hy
          simp only [List.mem_singleton] at hy
          subst hy
          exact ⟨List.mem_cons_self, hx⟩
        · intro y hy
          have := ih r h y hy
          exact ⟨List.mem_cons_of_mem _ this.1, this.2⟩
    · simp only [List.mem_cons, reduceCtorEq, false_or] at h
      intro y hy
      have := ih r h y hy
      exact ⟨List.mem_cons_of_mem _ this.1, this.2⟩

/-! ## descriptors -/

theorem toTy_bool_iff (t : PT) : toTy t = .bool ↔ isBoolSpec t = true := by
  cases t with
  | uint k => cases k <;> simp [toTy, isBoolSpec]
  | _ => simp [toTy, isBoolSpec]

mutual
  theorem str_agree (t : PT) : pyStrChars t = sigChars (toTy t) := by
    match t with
    | .bool | .address | .string => rfl
    | .uint k => cases k <;> rfl
    | .dynBytes => rfl
    | .staticBytes n => rfl
    | .sarray e n =>
      show pyStrChars e ++ '[' :: (Nat.repr n).toList ++ [']'] = sigChars (toTy e) ++ '[' :: (Nat.repr n).toList ++ [']']
      rw [str_agree e]
    | .darray e =>
      show pyStrChars e ++ ['[', ']'] = sigChars (toTy e) ++ ['[', ']']
      rw [str_agree e]
    | .tuple ts =>
      show '(' :: pyStrList ts ++ [')'] = '(' :: sigFields (toTys ts) ++ [')']
      rw [strList_agree ts]
    | .named ts =>
      show '(' :: pyStrList ts ++ [')'] = '(' :: sigFields (toTys ts) ++ [')']
      rw [strList_agree ts]
  theorem strList_agree (ts : List PT) : pyStrList ts = sigFields (toTys ts) := by
    match ts with
    | [] => rfl
    | [t] =>
      show pyStrChars t = sigChars (toTy t)
      exact str_agree t
    | t :: u :: ts =>
      show pyStrChars t ++ ',' :: pyStrList (u :: ts) = sigChars (toTy t) ++ ',' :: sigFields (toTys (u :: ts))
      rw [str_agree t, strList_agree (u :: ts)]
end

mutual
  theorem dyn_agree (t : PT) : pyIsDynamic t = isDynamic (toTy t) := by
    match t with
    | .bool | .address | .string | .dynBytes | .staticBytes _ => rfl
    | .uint k => cases k <;> rfl
    | .sarray e n => simp only [pyIsDynamic, toTy, isDynamic, dyn_agree e]
    | .darray e => rfl
    | .tuple ts => simp only [pyIsDynamic, toTy, isDynamic, anyDyn_agree ts]
    | .named ts => simp only [pyIsDynamic, toTy, isDynamic, anyDyn_agree ts]
  theorem anyDyn_agree (ts : List PT) : pyAnyDynamic ts = anyDynamic (toTys ts) := by
    match ts with
    | [] => rfl
    | t :: ts => simp only [pyAnyDynamic, toTys, anyDynamic, dyn_agree t, anyDyn_agree ts]
end

/-- kind of an item, for a kind function `f` on the elements -/
def itemGKind {α} (f : α → Kind) : Item α → GKind
  | .run r => .bits r.length
  | .one x =>
    match f x with
    | .bit => .bits 1
    | .stat n => .stat n
    | .dyn => .dyn

/-- `Arc4.groupKinds` is maximal-run grouping -/
theorem groupKinds_groupR {α} (f : α → Kind) (isB : α → Bool)
    (hf : ∀ x, f x = .bit ↔ isB x = true) (xs : List α) :
    groupKinds (xs.map f) = (groupR isB xs).map (itemGKind f) := by
  induction xs with
  | nil => rfl
  | cons x xs ih =>
    by_cases hx : isB x = true
    · have hfx : f x = .bit := (hf x).2 hx
      simp only [List.map_cons, hfx, groupKinds, ih, groupR, hx, ↓reduceIte]
      cases hg : groupR isB xs with
      | nil => simp [itemGKind]
      | cons it is =>
        cases it with
        | run r => simp [itemGKind]
        | one y =>
          have hy := groupR_head_one isB xs y is hg
          have : f y ≠ .bit := fun e => by rw [(hf y).1 e] at hy; cases hy
          simp only [List.map_cons, itemGKind, List.length_cons, List.length_nil, Nat.zero_add]
          cases hfy : f y with
          | bit => exact absurd hfy this
          | stat n => simp
          | dyn => simp
    · have hfx : f x ≠ .bit := fun e => hx ((hf x).1 e)
      simp only [List.map_cons, groupR, hx, Bool.false_eq_true, ↓reduceIte, itemGKind]
      cases hfx' : f x with
      | bit => exact absurd hfx' hfx
      | stat n => simp [groupKinds, ih]
      | dyn => simp [groupKinds, ih]

theorem kinds_map (ts : List PT) : kinds (toTys ts) = ts.map (fun t => kind (toTy t)) := by
  induction ts with
  | nil => rfl
  | cons t ts ih => simp [toTys, kinds, kind, ih]

theorem kind_bit_iff (t : PT) : kind (toTy t) = .bit ↔ isBoolSpec t = true := by
  rw [← toTy_bool_iff]
  cases h : toTy t <;> simp [kind, mkKind] <;> split <;> simp

theorem lenPairs_map (ts : List PT) : lenPairs ts = ts.map (fun t => (t, pyByteLengthStatic t)) := by
  induction ts with
  | nil => rfl
  | cons t ts ih => simp [lenPairs, ih]

theorem boolSeqLen_eq (n : Nat) : boolSeqLen n = ceil8 n := rfl

/-- `_bool_aware_static_byte_length` on items whose single members are static -/
theorem boolAwareLen_ok (is : List (Item (PT × Except String Nat)))
    (h : ∀ p, Item.one p ∈ is → pyIsDynamic p.1 = false ∧ p.2 = .ok (staticLen (toTy p.1))) :
    boolAwareLen is = .ok (gkindsLen (is.map (itemGKind (fun p => kind (toTy p.1))))) := by
  induction is with
  | nil => rfl
  | cons it is ih =>
    have ih' := ih (fun p hp => h p (List.mem_cons_of_mem _ hp))
    cases it with
    | run r =>
      simp only [boolAwareLen, ih', List.map_cons, itemGKind, gkindsLen, boolSeqLen_eq]
      rfl
    | one p =>
      obtain ⟨hd, hl⟩ := h p List.mem_cons_self
      simp only [boolAwareLen, ih', hl, List.map_cons, itemGKind]
      rw [dyn_agree] at hd
      cases hk : toTy p.1 <;> simp_all [kind, mkKind, staticLen, isDynamic] <;> rfl

theorem staticLen_tuple_items (ts : List PT) :
    staticLen (.tuple (toTys ts)) =
      gkindsLen ((groupR (fun p => isBoolSpec p.1) (lenPairs ts)).map
        (itemGKind (fun p => kind (toTy p.1)))) := by
  simp only [staticLen, kindsHeadLen, kinds_map, lenPairs_map]
  have := groupKinds_groupR (fun p : PT × Except String Nat => kind (toTy p.1)) (fun p => isBoolSpec p.1)
    (fun p => kind_bit_iff p.1) (ts.map (fun t => (t, pyByteLengthStatic t)))
  rw [← this]
  simp [List.map_map, Function.comp_def]

theorem anyDyn_false_mem (ts : List PT) (h : pyAnyDynamic ts = false) :
    ∀ t ∈ ts, pyIsDynamic t = false := by
  induction ts with
  | nil => simp
  | cons t ts ih =>
    simp only [pyAnyDynamic, Bool.or_eq_false_iff] at h
    intro u hu
    rcases List.mem_cons.1 hu with rfl | hu
    · exact h.1
    · exact ih h.2 u hu

theorem tuple_len_ok (ts : List PT) (hd : pyAnyDynamic ts = false)
    (ih : ∀ t ∈ ts, pyIsDynamic t = false → pyByteLengthStatic t = .ok (staticLen (toTy t))) :
    boolAwareLen (pyItems (fun p => isBoolSpec p.1) 0 (lenPairs ts)) =
      .ok (staticLen (.tuple (toTys ts))) := by
  rw [pyItems_eq_groupR, staticLen_tuple_items]
  apply boolAwareLen_ok
  intro p hp
  have hm := (groupR_mem_one _ _ _ hp).1
  rw [lenPairs_map] at hm
  obtain ⟨t, ht, rfl⟩ := List.mem_map.1 hm
  exact ⟨anyDyn_false_mem ts hd t ht, ih t ht (anyDyn_false_mem ts hd t ht)⟩

mutual
  /-- `byte_length_static()` of a static type is the reference length -/
  theorem len_agree (t : PT) (hd : pyIsDynamic t = false) :
      pyByteLengthStatic t = .ok (staticLen (toTy t)) := by
    match t with
    | .bool => rfl
    | .uint k => cases k <;> rfl
    | .address => rfl
    | .staticBytes n =>
      simp only [pyByteLengthStatic, toTy, Nat.mul_one]
      rw [staticLen_sarray _ _ (by simp)]
      simp [headLen, isDynamic, staticLen]; rfl
    | .string | .dynBytes | .darray _ => simp [pyIsDynamic] at hd
    | .sarray e n =>
      simp only [pyIsDynamic] at hd
      simp only [pyByteLengthStatic, hd, Bool.false_eq_true, ↓reduceIte, toTy]
      by_cases hb : isBoolSpec e = true
      · have : toTy e = .bool := (toTy_bool_iff e).2 hb
        simp only [hb, ↓reduceIte, this, staticLen_sarray_bool]; rfl
      · have hne : toTy e ≠ .bool := fun h => hb ((toTy_bool_iff e).1 h)
        simp only [hb, Bool.false_eq_true, ↓reduceIte, len_agree e hd]
        rw [staticLen_sarray _ _ hne, headLen, ← dyn_agree, hd]
        rfl
    | .tuple ts =>
      simp only [pyIsDynamic] at hd
      simp only [pyByteLengthStatic, hd, Bool.false_eq_true, ↓reduceIte, toTy]
      exact tuple_len_ok ts hd (len_agree_list ts)
    | .named ts =>
      simp only [pyIsDynamic] at hd
      simp only [pyByteLengthStatic, hd, Bool.false_eq_true, ↓reduceIte, toTy]
      exact tuple_len_ok ts hd (len_agree_list ts)
  theorem len_agree_list (ts : List PT) :
      ∀ t ∈ ts, pyIsDynamic t = false → pyByteLengthStatic t = .ok (staticLen (toTy t)) := by
    match ts with
    | [] => simp
    | t :: ts =>
      intro u hu hd
      cases hu with
      | head => exact len_agree t hd
      | tail _ hu => exact len_agree_list ts u hu hd
end

/-- a dynamic type has no static length: `byte_length_static()` raises -/
theorem len_dynamic_raises (t : PT) (hd : pyIsDynamic t = true) :
    pyByteLengthStatic t = .error dynErr := by
  cases t <;> simp_all [pyIsDynamic, pyByteLengthStatic] <;> rfl


/-! ## integers -/

theorem beBytes_split (a b n : Nat) :
    beBytes (a + b) n = beBytes a (n / 256 ^ b) ++ beBytes b n := by
  induction b generalizing n with
  | zero => simp [beBytes]
  | succ b ih =>
    rw [← Nat.add_assoc, beBytes, ih, beBytes, List.append_assoc, Nat.div_div_eq_div_mul, Nat.pow_succ,
      Nat.mul_comm]

theorem itob_drop6 (n : Nat) : (itob n).drop 6 = beBytes 2 n := by
  rw [itob, show (8 : Nat) = 6 + 2 from rfl, beBytes_split, List.drop_left' (by simp)]

theorem itob_drop4 (n : Nat) : (itob n).drop 4 = beBytes 4 n := by
  rw [itob, show (8 : Nat) = 4 + 4 from rfl, beBytes_split, List.drop_left' (by simp)]

/-- `uint_encode` of an in-range stored value is the reference big-endian encoding -/
theorem uintEncode_correct (k : UK) (n : Nat) (h : n < 2 ^ k.bits) :
    uintEncode k n = encode (toTy (.uint k)) (.uint n) := by
  cases k <;> simp only [UK.bits] at h
  · have : ¬ n > 255 := by omega
    simp [uintEncode, setByte, toTy, encode, this, h]
  · have : ¬ n > 255 := by omega
    simp [uintEncode, setByte, toTy, encode, this, h, UK.bits, uintOk, beBytes, Nat.mod_eq_of_lt h]
  · simp [uintEncode, toTy, encode, h, UK.bits, uintOk, itob_drop6]
  · simp [uintEncode, toTy, encode, h, UK.bits, uintOk, itob_drop4]
  · simp [uintEncode, toTy, encode, h, UK.bits, uintOk, itob]

/-! ## bool runs: `_encode_bool_sequence` packs like the reference -/

theorem packBits_fuel (f1 f2 : Nat) (bits : List Bool) (h1 : bits.length ≤ f1) (h2 : bits.length ≤ f2) :
    packBits f1 bits = packBits f2 bits := by
  induction f1 generalizing f2 bits with
  | zero =>
    have : bits = [] := List.eq_nil_of_length_eq_zero (by omega)
    subst this
    cases f2 <;> simp [packBits]
  | succ f1 ih =>
    cases f2 with
    | zero =>
      have : bits = [] := List.eq_nil_of_length_eq_zero (by omega)
      subst this; simp [packBits]
    | succ f2 =>
      simp only [packBits]
      split
      · rfl
      · rename_i hne
        have hpos : 0 < bits.length := by
          cases bits with
          | nil => simp at hne
          | cons _ _ => simp
        rw [ih f2 (bits.drop 8) (by simp; omega) (by simp; omega)]

theorem pack_nil : pack [] = [] := rfl

theorem pack_unfold (bits : List Bool) (h : bits ≠ []) :
    pack bits = packByte (bits.take 8) :: pack (bits.drop 8) := by
  have hpos : 0 < bits.length := List.length_pos_iff.2 h
  obtain ⟨m, hm⟩ : ∃ m, bits.length = m + 1 := ⟨bits.length - 1, by omega⟩
  have he : bits.isEmpty = false := by cases bits <;> simp_all
  rw [pack, hm, packBits, he]
  simp only [Bool.false_eq_true, ↓reduceIte, pack]
  rw [packBits_fuel m (bits.drop 8).length _ (by simp; omega) (Nat.le_refl _)]

/-- the first `bits.length` bits of an `L`-byte zero string already set -/
def bytesOfBits (L : Nat) (bits : List Bool) : Bytes :=
  pack bits ++ List.replicate (L - ceil8 bits.length) 0

theorem bytesOfBits_short (L : Nat) (bits : List Bool) (h : bits.length ≤ 8) (hL : 1 ≤ L)
    (hne : bits.length = 8 → True) :
    bytesOfBits L bits = packByte bits :: List.replicate (L - 1) 0 := by
  cases bits with
  | nil =>
    simp only [bytesOfBits, pack_nil, List.length_nil, ceil8, List.nil_append]
    obtain ⟨l, rfl⟩ : ∃ l, L = l + 1 := ⟨L - 1, by omega⟩
    simp [List.replicate_succ]; decide
  | cons b bs =>
    rw [bytesOfBits, pack_unfold _ (by simp), List.take_of_length_le h,
      List.drop_eq_nil_of_le h, pack_nil]
    have : ceil8 (bs.length + 1) = 1 := by simp [ceil8] at h ⊢; omega
    simp [this]

theorem bytesOfBits_long (L : Nat) (bits : List Bool) (h : 8 ≤ bits.length) :
    bytesOfBits L bits = packByte (bits.take 8) :: bytesOfBits (L - 1) (bits.drop 8) := by
  have hne : bits ≠ [] := by intro e; simp [e] at h
  rw [bytesOfBits, pack_unfold _ hne, bytesOfBits]
  have : L - ceil8 bits.length = L - 1 - ceil8 (bits.drop 8).length := by
    simp [ceil8]; omega
  simp [this]

theorem setBit_cons_ge8 (x : UInt8) (rest : Bytes) (j v : Nat) (h : 8 ≤ j) :
    setBit (x :: rest) j v = (setBit rest (j - 8) v).map (x :: ·) := by
  have h1 : j / 8 = (j - 8) / 8 + 1 := by omega
  have h2 : j % 8 = (j - 8) % 8 := by omega
  unfold setBit
  split
  · rfl
  · rw [h1, h2]
    simp only [List.getElem?_cons_succ]
    cases rest[(j - 8) / 8]? <;> rfl

/-- setting bit `k` of the byte holding `k` bits gives the byte holding `k+1` bits -/
theorem byte_set_bit : ∀ (bits : List Bool), bits.length ≤ 7 → ∀ b : Bool,
    UInt8.ofNat ((packByte bits).toNat -
      ((packByte bits).toNat / 2 ^ (7 - bits.length % 8) % 2) * 2 ^ (7 - bits.length % 8) +
      (if b then 1 else 0) * 2 ^ (7 - bits.length % 8)) = packByte (bits ++ [b]) := by
  intro bits h b
  match bits, h with
  | [], _ => revert b; decide
  | [b0], _ => revert b0 b; decide
  | [b0, b1], _ => revert b0 b1 b; decide
  | [b0, b1, b2], _ => revert b0 b1 b2 b; decide
  | [b0, b1, b2, b3], _ => revert b0 b1 b2 b3 b; decide
  | [b0, b1, b2, b3, b4], _ => revert b0 b1 b2 b3 b4 b; decide
  | [b0, b1, b2, b3, b4, b5], _ => revert b0 b1 b2 b3 b4 b5 b; decide
  | [b0, b1, b2, b3, b4, b5, b6], _ => revert b0 b1 b2 b3 b4 b5 b6 b; decide
  | _ :: _ :: _ :: _ :: _ :: _ :: _ :: _ :: _, h => simp at h

theorem setBit_next (bits : List Bool) (L : Nat) (b : Bool) (h : bits.length < 8 * L) :
    setBit (bytesOfBits L bits) bits.length (if b then 1 else 0) =
      some (bytesOfBits L (bits ++ [b])) := by
  induction hn : bits.length using Nat.strongRecOn generalizing bits L with
  | ind n ih =>
    subst hn
    by_cases h8 : bits.length < 8
    · have hL : 1 ≤ L := by omega
      rw [bytesOfBits_short L bits (by omega) hL (fun _ => trivial),
        bytesOfBits_short L (bits ++ [b]) (by simp; omega) hL (fun _ => trivial)]
      have hv : ¬ (if b then 1 else 0) > 1 := by cases b <;> simp
      have hidx : bits.length / 8 = 0 := by omega
      simp only [setBit, hv, ↓reduceIte, hidx, List.getElem?_cons_zero, List.set_cons_zero]
      rw [byte_set_bit bits (by omega) b]
    · have h8' : 8 ≤ bits.length := by omega
      rw [bytesOfBits_long L bits h8', bytesOfBits_long L (bits ++ [b]) (by simp; omega),
        setBit_cons_ge8 _ _ _ _ h8']
      have ht : (bits ++ [b]).take 8 = bits.take 8 := by
        rw [List.take_append_of_le_length h8']
      have hd : (bits ++ [b]).drop 8 = bits.drop 8 ++ [b] := by
        rw [List.drop_append_of_le_length h8']
      have := ih (bits.drop 8).length (by simp; omega) (bits.drop 8) (L - 1)
        (by simp; omega) rfl
      simp only [List.length_drop] at this
      rw [this, ht, hd]
      rfl

/-- the bit a `Bool` slot holding `n ≤ 1` stands for -/
def bitOf (m : Member) : Bool :=
  match m.val with
  | .u n => n == 1
  | .b _ => false

def goodBool (m : Member) : Bool :=
  match m.val with
  | .u n => decide (n ≤ 1)
  | .b _ => false

theorem setBits_pack (ms : List Member) (done : List Bool) (L : Nat)
    (hg : ∀ m ∈ ms, goodBool m = true) (hL : done.length + ms.length ≤ 8 * L) :
    setBits (bytesOfBits L done) done.length ms = some (bytesOfBits L (done ++ ms.map bitOf)) := by
  induction ms generalizing done with
  | nil => simp [setBits]
  | cons m ms ih =>
    have hm := hg m List.mem_cons_self
    simp only [List.length_cons] at hL
    cases hv : m.val with
    | b bs => simp [goodBool, hv] at hm
    | u n =>
      simp only [goodBool, hv, decide_eq_true_eq] at hm
      have hb : n = (if bitOf m then 1 else 0) := by
        simp only [bitOf, hv]
        rcases (by omega : n = 0 ∨ n = 1) with rfl | rfl <;> simp
      simp only [setBits, hv]
      rw [hb, setBit_next done L (bitOf m) (by omega)]
      simp only [Option.bind_some]
      have := ih (done ++ [bitOf m]) (fun x hx => hg x (List.mem_cons_of_mem _ hx))
        (by simp; omega)
      simp only [List.length_append, List.length_singleton, List.append_assoc,
        List.singleton_append] at this
      rw [this]
      simp

/-- **`_encode_bool_sequence` = reference bit packing** (msb first, 8 per byte, zero padded) -/
theorem encodeBoolSeq_pack (ms : List Member) (hg : ∀ m ∈ ms, goodBool m = true) :
    encodeBoolSeq ms = some (pack (ms.map bitOf)) := by
  have h := setBits_pack ms [] (boolSeqLen ms.length) hg (by
    simp only [List.length_nil, Nat.zero_add, boolSeqLen]; omega)
  simp only [bytesOfBits, pack_nil, List.length_nil, ceil8, List.nil_append, List.length_map] at h
  rw [encodeBoolSeq]
  have e : boolSeqLen ms.length - (0 + 7) / 8 = boolSeqLen ms.length := by simp
  rw [e] at h
  rw [h]
  have : boolSeqLen ms.length - (ms.length + 7) / 8 = 0 := by simp [boolSeqLen]
  simp [this]

/-- a slot holding something else than 0/1 (impossible after `set`) makes `setbit` fail -/
theorem setBits_bad (ms : List Member) (acc : Bytes) (i : Nat)
    (hb : ∃ m ∈ ms, goodBool m = false) : setBits acc i ms = none := by
  induction ms generalizing acc i with
  | nil => simp at hb
  | cons m ms ih =>
    simp only [setBits]
    cases hv : m.val with
    | b bs => rfl
    | u n =>
      simp only
      by_cases hn : n ≤ 1
      · obtain ⟨x, hx, hxb⟩ := hb
        rcases List.mem_cons.1 hx with rfl | hx
        · simp [goodBool, hv, hn] at hxb
        · cases setBit acc i n with
          | none => rfl
          | some acc' => exact ih acc' (i + 1) ⟨x, hx, hxb⟩
      · have : n > 1 := by omega
        simp [setBit, this]

/-! ## `_encode_tuple`: the emitted head/tail computation is `Arc4.assemble` -/

abbrev isBoolM (m : Member) : Bool := isBoolSpec m.spec

/-- the part a member contributes to the reference assembly -/
def partD (m : Member) : Part :=
  if isBoolSpec m.spec then .bit (bitOf m)
  else if pyIsDynamic m.spec then .dyn ((memberEncode m).getD [])
  else .stat ((memberEncode m).getD [])

/-- a member `_encode_tuple` can process: a Bool slot holds 0/1, any other member encodes -/
def goodMember (m : Member) : Bool :=
  if isBoolSpec m.spec then goodBool m else (memberEncode m).isSome

def itemSeg : Item Member → Seg
  | .run r => .bits (r.map bitOf)
  | .one m =>
    match partD m with
    | .bit b => .bits [b]
    | .stat bs => .stat bs
    | .dyn bs => .dyn bs

theorem partD_nonbool (m : Member) (h : isBoolSpec m.spec = false) :
    partD m = if pyIsDynamic m.spec then .dyn ((memberEncode m).getD [])
      else .stat ((memberEncode m).getD []) := by
  simp [partD, h]

theorem itemSeg_one_nonbool (m : Member) (h : isBoolSpec m.spec = false) :
    itemSeg (.one m) = if pyIsDynamic m.spec then .dyn ((memberEncode m).getD [])
      else .stat ((memberEncode m).getD []) := by
  cases hd : pyIsDynamic m.spec <;> simp [itemSeg, partD, h, hd]

/-- `Arc4.group` is maximal-run grouping -/
theorem group_groupR (ms : List Member) :
    group (ms.map partD) = (groupR isBoolM ms).map itemSeg := by
  induction ms with
  | nil => rfl
  | cons m ms ih =>
    by_cases hm : isBoolSpec m.spec = true
    · have hp : partD m = .bit (bitOf m) := by simp [partD, hm]
      simp only [List.map_cons, hp, group, ih, groupR, isBoolM, hm, ↓reduceIte]
      cases hg : groupR isBoolM ms with
      | nil => simp [itemSeg]
      | cons it is =>
        cases it with
        | run r => simp [itemSeg]
        | one y =>
          have hy : isBoolSpec y.spec = false := groupR_head_one isBoolM ms y is hg
          simp only [List.map_cons, itemSeg_one_nonbool y hy]
          cases hdy : pyIsDynamic y.spec <;> simp [itemSeg]
    · have hm' : isBoolSpec m.spec = false := by simpa using hm
      simp only [List.map_cons, groupR, isBoolM, hm', Bool.false_eq_true, ↓reduceIte,
        itemSeg_one_nonbool m hm', partD_nonbool m hm']
      cases hdm : pyIsDynamic m.spec <;> simp [group, ih]

def hasDynS : List Seg → Bool
  | [] => false
  | .dyn _ :: _ => true
  | _ :: ss => hasDynS ss

theorem heads_none_of_ge (ss : List Seg) (off : Nat) (h : hasDynS ss = true) (ho : lim16 ≤ off) :
    heads off ss = none := by
  induction ss with
  | nil => simp [hasDynS] at h
  | cons s ss ih =>
    cases s with
    | bits run => simp only [hasDynS] at h; simp [heads, ih h]
    | stat bs => simp only [hasDynS] at h; simp [heads, ih h]
    | dyn bs =>
      have : ¬ off < lim16 := by omega
      simp [heads, this]

theorem heads_nodyn (ss : List Seg) (off off' : Nat) (h : hasDynS ss = false) :
    heads off ss = heads off' ss := by
  induction ss with
  | nil => rfl
  | cons s ss ih =>
    cases s with
    | bits run => simp only [hasDynS] at h; simp [heads, ih h]
    | stat bs => simp only [hasDynS] at h; simp [heads, ih h]
    | dyn bs => simp [hasDynS] at h

theorem tails_nodyn (ss : List Seg) (h : hasDynS ss = false) : tails ss = [] := by
  induction ss with
  | nil => rfl
  | cons s ss ih =>
    cases s with
    | bits run => simp only [hasDynS] at h; simp [tails, ih h]
    | stat bs => simp only [hasDynS] at h; simp [tails, ih h]
    | dyn bs => simp [hasDynS] at h

/-- what `_encode_tuple` may assume about an item -/
def goodItem : Item Member → Prop
  | .run r => ∀ m ∈ r, isBoolSpec m.spec = true ∧ goodBool m = true
  | .one m => isBoolSpec m.spec = false ∧ ∃ bs, memberEncode m = some bs

theorem hasDynS_items (is : List (Item Member)) (hg : ∀ it ∈ is, goodItem it) :
    hasDynS (is.map itemSeg) = is.any dynItem := by
  induction is with
  | nil => rfl
  | cons it is ih =>
    have ih' := ih (fun x hx => hg x (List.mem_cons_of_mem _ hx))
    cases it with
    | run r => simp [itemSeg, hasDynS, dynItem, ih']
    | one m =>
      have := hg _ List.mem_cons_self
      simp only [goodItem] at this
      simp only [List.map_cons, itemSeg_one_nonbool m this.1, List.any_cons, dynItem]
      cases hd : pyIsDynamic m.spec <;> simp [hasDynS, ih']

def nextOff (hl : Nat) (st : TState) : Nat := if st.first then hl else st.acc

theorem u16Encode (off : Nat) : uintEncode .u16 off = some (u16 off) := by
  simp [uintEncode, itob_drop6, u16]

/-- **the loop invariant**: evaluating the head expressions from state `st` produces the
    reference head block for tail offset `nextOff st`, appends the reference tails to
    `tail_holder`, and fails exactly where the reference has no encoding -/
theorem headsLoop_heads (hl : Nat) (is : List (Item Member)) (st : TState)
    (hg : ∀ it ∈ is, goodItem it)
    (hinv : st.first = true → st.tailHolder = [])
    (hoff : is.any dynItem = true → nextOff hl st < lim16) :
    (headsLoop hl st is).map (fun r => (r.1, r.2.tailHolder, r.2.first)) =
      (heads (nextOff hl st) (is.map itemSeg)).map
        (fun h => (h, st.tailHolder ++ tails (is.map itemSeg), st.first && !(is.any dynItem))) := by
  induction is generalizing st with
  | nil => simp [headsLoop, heads, tails]
  | cons it is ih =>
    have hg' : ∀ x ∈ is, goodItem x := fun x hx => hg x (List.mem_cons_of_mem _ hx)
    have hit := hg it List.mem_cons_self
    cases it with
    | run r =>
      simp only [goodItem] at hit
      have henc := encodeBoolSeq_pack r (fun m hm => (hit m hm).2)
      have ih' := ih st hg' hinv (by simpa [dynItem] using hoff)
      have := congrArg (Option.map (fun q : Bytes × Bytes × Bool => (pack (r.map bitOf) ++ q.1, q.2))) ih'
      simp only [Option.map_map, Function.comp_def] at this
      simp only [headsLoop, henc, Option.bind_eq_bind, Option.bind_some, List.map_cons, itemSeg, heads,
        tails, List.any_cons, dynItem, Bool.false_or, Option.map_map, Function.comp_def]
      rw [← this]
      cases headsLoop hl st is <;> rfl
    | one m =>
      simp only [goodItem] at hit
      obtain ⟨hnb, bs, hbs⟩ := hit
      by_cases hd : pyIsDynamic m.spec = true
      · -- a dynamic member
        have hseg : itemSeg (.one m) = .dyn bs := by simp [itemSeg_one_nonbool m hnb, hd, hbs]
        have hoff0 : nextOff hl st < lim16 := hoff (by simp [dynItem, hd])
        have hss : hasDynS (is.map itemSeg) = is.any dynItem := hasDynS_items is hg'
        simp only [headsLoop, hd, ↓reduceIte, dynHead, hbs, Option.bind_eq_bind, Option.bind_some,
          List.map_cons, hseg, heads, hoff0, tails, List.any_cons, dynItem, Bool.true_or,
          Bool.not_true, Bool.and_false, u16Encode]
        -- the state after `updateVars`
        have hst1 : (if st.first = true then
              ({ st with tailHolder := bs, tailOffset := hl, first := false } : TState)
            else { st with tailHolder := st.tailHolder ++ bs, tailOffset := st.acc }) =
            (⟨st.tailHolder ++ bs, nextOff hl st, st.acc, false⟩ : TState) := by
          cases hf : st.first
          · simp [nextOff, hf]
          · simp [nextOff, hf, hinv hf]
        rw [hst1]
        cases hnl : is.any dynItem
        · -- the last dynamic member: no accumulator update, the rest has no offsets
          simp only [Bool.false_eq_true, ↓reduceIte, Option.bind_some]
          have ih' := ih ⟨st.tailHolder ++ bs, nextOff hl st, st.acc, false⟩ hg' (by simp)
            (by simp [hnl])
          simp only [nextOff, Bool.false_eq_true, ↓reduceIte, hnl, Bool.not_false, Bool.and_true] at ih'
          rw [heads_nodyn _ _ st.acc (by rw [hss, hnl])]
          have := congrArg (Option.map
            (fun q : Bytes × Bytes × Bool => (u16 (nextOff hl st) ++ q.1, q.2))) ih'
          simp only [Option.map_map, Function.comp_def, List.append_assoc] at this
          simp only [Option.map_map, Function.comp_def, nextOff] at this ⊢
          rw [← this]
          cases headsLoop hl _ is <;> rfl
        · simp only [↓reduceIte]
          by_cases ha : nextOff hl st + bs.length < 2 ^ 64 ∧ nextOff hl st + bs.length < 2 ^ 16
          · simp only [ha, and_self, ↓reduceIte, Option.bind_some]
            have ih' := ih ⟨st.tailHolder ++ bs, nextOff hl st, nextOff hl st + bs.length, false⟩
              hg' (by simp) (by intro _; simp [nextOff, lim16]; exact ha.2)
            simp only [nextOff, Bool.false_eq_true, ↓reduceIte, Bool.false_and] at ih'
            have := congrArg (Option.map
              (fun q : Bytes × Bytes × Bool => (u16 (nextOff hl st) ++ q.1, q.2))) ih'
            simp only [Option.map_map, Function.comp_def, List.append_assoc] at this
            simp only [Option.map_map, Function.comp_def, nextOff] at this ⊢
            rw [← this]
            cases headsLoop hl _ is <;> rfl
          · simp only [ha, ↓reduceIte, Option.bind_none, Option.map_none]
            have : lim16 ≤ nextOff hl st + bs.length := by
              simp only [lim16]; simp only [lim16] at hoff0; omega
            rw [heads_none_of_ge _ _ (by rw [hss, hnl]) this]
            rfl
      · -- a static member
        have hd' : pyIsDynamic m.spec = false := by simpa using hd
        have hseg : itemSeg (.one m) = .stat bs := by simp [itemSeg_one_nonbool m hnb, hd', hbs]
        have ih' := ih st hg' hinv (by simpa [dynItem, hd'] using hoff)
        have := congrArg (Option.map (fun q : Bytes × Bytes × Bool => (bs ++ q.1, q.2))) ih'
        simp only [Option.map_map, Function.comp_def] at this
        simp only [headsLoop, hd', Bool.false_eq_true, ↓reduceIte, hbs, Option.bind_eq_bind,
          Option.bind_some, List.map_cons, hseg, heads, tails, List.any_cons, dynItem, Bool.false_or,
          Option.map_map, Function.comp_def]
        rw [← this]
        cases headsLoop hl st is <;> rfl

def itemMap {α β} (f : α → β) : Item α → Item β
  | .run r => .run (r.map f)
  | .one x => .one (f x)

theorem groupR_map {α β} (isB : β → Bool) (f : α → β) (xs : List α) :
    groupR isB (xs.map f) = (groupR (fun x => isB (f x)) xs).map (itemMap f) := by
  induction xs with
  | nil => rfl
  | cons x xs ih =>
    simp only [List.map_cons, groupR, ih]
    split
    · cases groupR (fun x => isB (f x)) xs with
      | nil => simp [itemMap]
      | cons it is => cases it <;> simp [itemMap]
    · simp [itemMap]

/-- static members encode to as many bytes as their `byte_length_static()` says -/
def LenOk (ms : List Member) : Prop :=
  ∀ m ∈ ms, isBoolSpec m.spec = false → pyIsDynamic m.spec = false →
    ∀ bs, memberEncode m = some bs → pyByteLengthStatic m.spec = .ok bs.length

theorem goodItems_of_good (ms : List Member) (h : ∀ m ∈ ms, goodMember m = true) :
    ∀ it ∈ groupR isBoolM ms, goodItem it := by
  intro it hit
  cases it with
  | run r =>
    intro m hm
    obtain ⟨hmem, hb⟩ := groupR_mem_run isBoolM ms r hit m hm
    have := h m hmem
    simp only [isBoolM] at hb
    simp only [goodMember, hb, ↓reduceIte] at this
    exact ⟨hb, this⟩
  | one m =>
    obtain ⟨hmem, hb⟩ := groupR_mem_one isBoolM ms m hit
    have := h m hmem
    simp only [isBoolM] at hb
    simp only [goodMember, hb, Bool.false_eq_true, ↓reduceIte, Option.isSome_iff_exists] at this
    exact ⟨hb, this⟩

theorem headLenItems_ok (is : List (Item Member)) (hg : ∀ it ∈ is, goodItem it)
    (hl : ∀ m, Item.one m ∈ is → pyIsDynamic m.spec = false →
      ∀ bs, memberEncode m = some bs → pyByteLengthStatic m.spec = .ok bs.length) :
    headLenItems (is.map (itemMap (·.spec))) = .ok (segHeadLen (is.map itemSeg)) := by
  induction is with
  | nil => rfl
  | cons it is ih =>
    have ih' := ih (fun x hx => hg x (List.mem_cons_of_mem _ hx))
      (fun m hm => hl m (List.mem_cons_of_mem _ hm))
    cases it with
    | run r =>
      simp only [List.map_cons, itemMap, headLenItems, ih', itemSeg, segHeadLen, List.length_map,
        boolSeqLen_eq]
      rfl
    | one m =>
      have hgm := hg _ List.mem_cons_self
      simp only [goodItem] at hgm
      obtain ⟨hnb, bs, hbs⟩ := hgm
      cases hd : pyIsDynamic m.spec
      · have := hl m List.mem_cons_self hd bs hbs
        simp only [List.map_cons, itemMap, headLenItems, hd, Bool.false_eq_true, ↓reduceIte, this, ih',
          itemSeg_one_nonbool m hnb, hbs, Option.getD_some, segHeadLen]
        rfl
      · simp only [List.map_cons, itemMap, headLenItems, hd, ↓reduceIte, ih',
          itemSeg_one_nonbool m hnb, segHeadLen]
        rfl

theorem headLenStatic_ok (ms : List Member) (hgood : ∀ m ∈ ms, goodMember m = true)
    (hlen : LenOk ms) :
    headLenStatic (ms.map (·.spec)) = .ok (segHeadLen (group (ms.map partD))) := by
  rw [headLenStatic, pyItems_eq_groupR, groupR_map, group_groupR]
  apply headLenItems_ok _ (goodItems_of_good ms hgood)
  intro m hm hd bs hbs
  obtain ⟨hmem, hb⟩ := groupR_mem_one isBoolM ms m hm
  exact hlen m hmem hb hd bs hbs

theorem any_dynItem_groupR (ms : List Member) :
    (groupR isBoolM ms).any dynItem = ms.any (fun m => pyIsDynamic m.spec) := by
  induction ms with
  | nil => rfl
  | cons m ms ih =>
    simp only [groupR, isBoolM, List.any_cons]
    split
    · rename_i hb
      have : pyIsDynamic m.spec = false := by
        cases hs : m.spec <;> simp_all [isBoolSpec, pyIsDynamic]
      rw [this, Bool.false_or, ← ih]
      cases groupR isBoolM ms with
      | nil => rfl
      | cons it is => cases it <;> simp [dynItem]
    · simp [dynItem, ih]

/-- run time, head of legal size: the emitted expression computes `Arc4.assemble` of the
    members' parts (and fails exactly when that does not exist) -/
theorem encodeTupleRun_eq (ms : List Member) (hgood : ∀ m ∈ ms, goodMember m = true)
    (hlen : LenOk ms)
    (hchk : ms.any (fun m => pyIsDynamic m.spec) = true →
      segHeadLen (group (ms.map partD)) < lim16) :
    encodeTupleRun ms = assemble (ms.map partD) := by
  have hgi := goodItems_of_good ms hgood
  have hany := any_dynItem_groupR ms
  have hss := hasDynS_items _ hgi
  have hmain := headsLoop_heads (segHeadLen (group (ms.map partD))) (groupR isBoolM ms) {} hgi
    (fun _ => rfl) (by intro h; rw [hany] at h; simpa [nextOff] using hchk h)
  simp only [encodeTupleRun, headLenStatic_ok ms hgood hlen, pyItems_eq_groupR, assemble]
  rw [group_groupR] at hmain ⊢
  simp only [nextOff, ↓reduceIte, List.nil_append, Bool.true_and] at hmain
  cases hh : headsLoop (segHeadLen ((groupR isBoolM ms).map itemSeg)) {} (groupR isBoolM ms) with
  | none =>
    rw [hh] at hmain
    cases hhd : heads (segHeadLen ((groupR isBoolM ms).map itemSeg)) ((groupR isBoolM ms).map itemSeg) with
    | none => rfl
    | some h => rw [hhd] at hmain; simp at hmain
  | some r =>
    rw [hh] at hmain
    cases hhd : heads (segHeadLen ((groupR isBoolM ms).map itemSeg)) ((groupR isBoolM ms).map itemSeg) with
    | none => rw [hhd] at hmain; simp at hmain
    | some h =>
      rw [hhd] at hmain
      simp only [Option.map_some, Option.some.injEq, Prod.mk.injEq] at hmain
      obtain ⟨h1, h2, h3⟩ := hmain
      simp only [Option.map_some, Option.some.injEq]
      cases hf : r.2.first
      · simp [h1, h2]
      · rw [hf] at h3
        have : hasDynS ((groupR isBoolM ms).map itemSeg) = false := by
          rw [hss]; simpa using h3.symm
        simp [h1, tails_nodyn _ this]

/-- a head of 2¹⁶ bytes or more in front of a dynamic member: no reference encoding either -/
theorem assemble_none_of_big (ms : List Member) (hgood : ∀ m ∈ ms, goodMember m = true)
    (hdyn : ms.any (fun m => pyIsDynamic m.spec) = true)
    (hbig : lim16 ≤ segHeadLen (group (ms.map partD))) : assemble (ms.map partD) = none := by
  have hss := hasDynS_items _ (goodItems_of_good ms hgood)
  rw [any_dynItem_groupR, hdyn, ← group_groupR] at hss
  simp [assemble, heads_none_of_ge _ _ hss hbig]

theorem tupleBuildCheck_eq (specs : List PT) (hl : Nat) (h : headLenStatic specs = .ok hl) :
    tupleBuildCheck specs =
      if specs.any pyIsDynamic = true ∧ 2 ^ 16 ≤ hl then
        .error "TealInputError: Value exceeds uint16 maximum" else .ok hl := by
  simp only [tupleBuildCheck, h, bind, Except.bind]
  by_cases hc : specs.any pyIsDynamic = true ∧ 2 ^ 16 ≤ hl
  · have : decide (hl ≥ 2 ^ 16) = true := by simpa using hc.2
    simp only [hc.1, this, Bool.and_self, ↓reduceIte, hc, and_self]; rfl
  · simp only [hc, ↓reduceIte]
    by_cases hd : specs.any pyIsDynamic = true
    · have : decide (hl ≥ 2 ^ 16) = false := by
        have : ¬ 2 ^ 16 ≤ hl := fun h => hc ⟨hd, h⟩
        simpa using this
      simp only [hd, this, Bool.and_false, Bool.false_eq_true, ↓reduceIte]; rfl
    · have : specs.any pyIsDynamic = false := by simpa using hd
      simp only [this, Bool.false_and, Bool.false_eq_true, ↓reduceIte]; rfl


/-! ## `set` on nested values -/

/-- what the induction carries for one value: build error ⇒ no reference encoding; run-time
    failure ⇒ no reference encoding; otherwise the slot encodes to the reference bytes -/
def LeafOK (t : PT) (x : In) : Prop :=
  match buildCheck t x with
  | .error _ => encode (toTy t) (denote x) = none
  | .ok _ =>
    match runSet t x with
    | none => encode (toTy t) (denote x) = none
    | some s => ∃ bs, memberEncode ⟨t, s⟩ = some bs ∧ encode (toTy t) (denote x) = some bs ∧
        partD ⟨t, s⟩ = toPart (toTy t) (denote x) bs

def FieldsOK (ts : List PT) (xs : List In) : Prop :=
  match buildFields ts xs with
  | .error _ => encodeFields (toTys ts) (denotes xs) = none
  | .ok _ =>
    match runFields ts xs with
    | none => encodeFields (toTys ts) (denotes xs) = none
    | some ms => (∀ m ∈ ms, goodMember m = true) ∧ LenOk ms ∧ ms.map (·.spec) = ts ∧
        encodeFields (toTys ts) (denotes xs) = some (ms.map partD)

theorem toPart_nonbool (t : Ty) (v : V) (bs : Bytes) (h : t ≠ .bool) :
    toPart t v bs = if isDynamic t then .dyn bs else .stat bs := by
  cases t <;> simp_all [toPart]

theorem partD_eq_toPart (t : PT) (s : Stored) (v : V) (bs : Bytes) (hb : isBoolSpec t = false)
    (he : memberEncode ⟨t, s⟩ = some bs) : partD ⟨t, s⟩ = toPart (toTy t) v bs := by
  have hne : toTy t ≠ .bool := fun h => by rw [(toTy_bool_iff t).1 h] at hb; cases hb
  rw [toPart_nonbool _ _ _ hne, ← dyn_agree, partD_nonbool _ hb]
  simp [he]

theorem optMap_encByte_ofBytes (bs : Bytes) :
    optMap encByte (bs.map (fun b => V.uint b.toNat)) = some bs := by
  induction bs with
  | nil => rfl
  | cons b bs ih =>
    simp only [List.map_cons, optMap, ih, encByte]
    have : b.toNat < 256 := b.toNat_lt
    simp [this]

theorem toPart_byte (v : V) : toPart .byte v = toPart (.uint 8) v := by
  funext bs; cases v <;> rfl

/-- elements of a byte array: the assembled tuple of single bytes is the byte string -/
theorem encode_byte_elems (vs : List V) :
    (optMap (fun v => (encode .byte v).map (toPart .byte v)) vs).bind assemble = optMap encByte vs := by
  rw [← encode_bytes_elems]
  congr 1
  apply optMap_congr
  intro v _
  rw [← encode_byte_uint8, toPart_byte]

theorem encode_address_bytes (bs : Bytes) :
    encode .address (V.ofBytes bs) = if bs.length = 32 then some bs else none := by
  simp [V.ofBytes, encode, optMap_encByte_ofBytes]

theorem encode_string_bytes (bs : Bytes) :
    encode .string (V.ofBytes bs) = if bs.length < lim16 then some (u16 bs.length ++ bs) else none := by
  simp [V.ofBytes, encode, optMap_encByte_ofBytes]

theorem encode_sbytes_bytes (n : Nat) (bs : Bytes) :
    encode (.sarray .byte n) (V.ofBytes bs) =
      if bs.length = n ∧ n < lim16 then some bs else none := by
  simp only [V.ofBytes, encode, List.length_map, encode_byte_elems, optMap_encByte_ofBytes]

theorem encode_dbytes_bytes (bs : Bytes) :
    encode (.darray .byte) (V.ofBytes bs) =
      if bs.length < lim16 then some (u16 bs.length ++ bs) else none := by
  simp only [V.ofBytes, encode, List.length_map, encode_byte_elems, optMap_encByte_ofBytes,
    Option.map_some]

theorem exprByteString_eq (bs : Bytes) : exprByteString bs = u16 bs.length ++ bs := by
  simp [exprByteString, itob_drop6, u16]

theorem mapUnit_ok {α} (e : Except String α) :
    (e.map (fun _ => ())) = match e with
      | .ok _ => .ok ()
      | .error m => .error m := by
  cases e <;> rfl

theorem pure_ok {α} (a : α) : (pure a : Except String α) = .ok a := rfl
theorem throw_err {α} (e : String) : (throw e : Except String α) = .error e := rfl
theorem setBit_zero : setBit [0] 0 0 = some [0x00] := by decide
theorem setBit_one : setBit [0] 0 1 = some [0x80] := by decide

/-- the leaves -/
theorem leaf_bool (x : In) (h : WT .bool x = true) : LeafOK .bool x := by
  cases x <;> simp [WT] at h
  · rename_i b
    cases b <;> simp [LeafOK, buildCheck, pure_ok, runSet, boolSetConst, memberEncode, denote, toTy, encode,
      partD, isBoolSpec, bitOf, toPart, setBit_zero, setBit_one]
  · rename_i n
    by_cases hn : n = 0
    · subst hn
      simp [LeafOK, buildCheck, pure_ok, runSet, boolSetExpr, memberEncode, denote, toTy, encode, partD,
        isBoolSpec, bitOf, toPart, setBit_zero]
    · simp [LeafOK, buildCheck, pure_ok, runSet, boolSetExpr, hn, memberEncode, denote, toTy, encode, partD,
        isBoolSpec, bitOf, toPart, setBit_one]

end PyTealV.Proofs.C06
