import PyTealV.Avm.Syntax
open PyTealV PyTealV.Avm

namespace PyTealV.Proofs.FrameImm

def readsBury (k : Nat) : Bool := match parseInstr [] ["frame_bury", toString k] with
  | .ok (.frameBury i) => i == (k : Int) | _ => false
def readsDig (k : Nat) : Bool := match parseInstr [] ["frame_dig", toString k] with
  | .ok (.frameDig i) => i == (k : Int) | _ => false
def refuses (op : String) (k : Nat) : Bool := match parseInstr [] [op, toString k] with
  | .ok _ => false | .error _ => true

/-- the immediates the allocator can hand out (0..127, theorem `C10.frame_index_fits`) are read back by the grammar as that frame index -/
theorem frame_imm_accepted (k : Nat) (h : k ≤ 127) : readsBury k = true ∧ readsDig k = true := by
  have : (List.range 128).all (fun k => readsBury k && readsDig k) = true := by decide +kernel
  have hk := List.all_eq_true.1 this k (List.mem_range.2 (by omega))
  simpa [Bool.and_eq_true] using hk

/-- 128..255 are refused: they do not fit the signed byte (what three seeded changes made the compiler emit) -/
theorem frame_imm_refused (k : Nat) (h1 : 128 ≤ k) (h2 : k ≤ 255) : refuses "frame_bury" k = true ∧ refuses "frame_dig" k = true := by
  have : (List.range 128).all (fun j => refuses "frame_bury" (128 + j) && refuses "frame_dig" (128 + j)) = true := by decide +kernel
  have hk := List.all_eq_true.1 this (k - 128) (List.mem_range.2 (by omega))
  have e : 128 + (k - 128) = k := by omega
  rw [e] at hk
  simpa [Bool.and_eq_true] using hk

end PyTealV.Proofs.FrameImm
