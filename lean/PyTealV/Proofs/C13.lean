/-
  C13 — literals reach the program byte-for-byte.  Property theorems.
  All statements are against the independent TEAL grammar `PyTealV.Avm.Syntax`
  (`tokenise`, `splitStatements`, `parseStringLiteral`, `parseBytesLit`, `parseUint64`,
  `parseAddr`, `parseInstr`).
-/
import PyTealV.Proofs.C13Lemmas
namespace PyTealV.Proofs.C13
open PyTealV PyTealV.Avm PyTealV.Util PyTealV.Models.Literals
set_option exponentiation.threshold 400

/-! ## `Bytes(str)`: the quoted, escaped form -/

/-- The TEAL string-literal grammar decodes `escapeStr`'s output to exactly the bytes that
    went in — for every byte string (so for the UTF-8 encoding of every Python string). -/
theorem escape_roundtrip (bs : Bytes) : parseStringLiteral (escapeStr bs) = some bs := by
  simp only [parseStringLiteral, escapeStr, String.toList_ofList, escapeChars,
    replaceQuote_unicodeEscape]
  simpa using pgo_escaped bs []

/-- `byte <escaped>` is exactly two tokens: nothing in the escaped text (quote, backslash,
    blank, `//`, `;`, control or non-ASCII byte) ends the token early, starts a comment or
    leaks into a further token. -/
theorem escape_single_token (bs : Bytes) :
    tokenise ("byte " ++ escapeStr bs) = ["byte", escapeStr bs] := by
  have h := tokenise_op_escaped ['b', 'y', 't', 'e'] (by simp [okChar]) (by simp) bs
  have e : "byte " ++ escapeStr bs = String.ofList (['b', 'y', 't', 'e'] ++ ' ' :: escapeChars bs) := by
    apply String.toList_inj.mp; simp [escapeStr]
  rw [e, h]; rfl

/-- … and the `byte` instruction built from those tokens pushes exactly `bs`. -/
theorem escape_line_parses (sels : List (Bytes × Bytes)) (bs : Bytes) :
    parseInstr sels (tokenise ("byte " ++ escapeStr bs)) = .ok (.pushBytes bs) := by
  rw [escape_single_token]
  apply parseInstr_byte
  · exact isTmpl_false _ '"' _ (by simp [escapeStr, escapeChars]; rfl) (by decide)
  · rw [parseBytesLit_str _ (by simp [escapeStr, escapeChars]) (by simp [escapeStr, escapeChars]),
      escape_roundtrip]; rfl

/-- the line is one statement (no token is a lone `;`) and one physical line (no raw newline) -/
theorem escape_one_statement (bs : Bytes) :
    splitStatements (tokenise ("byte " ++ escapeStr bs)) = [["byte", escapeStr bs]] ∧
    '\n' ∉ ("byte " ++ escapeStr bs).toList := by
  constructor
  · rw [escape_single_token]
    have h1 : escapeStr bs ≠ ";" := by
      intro h
      have := congrArg String.toList h
      simp [escapeStr, escapeChars] at this
    simp [splitStatements, splitStatements.go, h1]
  · have := escapeChars_no_newline bs
    simp [escapeStr, this]

/-! ## `Bytes(bytes)` and `Bytes("base16", …)`: the `0x` form -/

/-- shared by both ways of producing a `0x` literal -/
theorem hex_form (sels : List (Bytes × Bytes)) (cs : List Char) (bs : Bytes)
    (hall : ∀ c ∈ cs, isHexChar c = true) (hdec : unhexChars cs = some bs) :
    tokenise ("byte " ++ ("0x" ++ String.ofList cs)) = ["byte", "0x" ++ String.ofList cs] ∧
    parseBytesLit ["0x" ++ String.ofList cs] = some (bs, []) ∧
    parseInstr sels ["byte", "0x" ++ String.ofList cs] = .ok (.pushBytes bs) := by
  have hp : parseBytesLit ["0x" ++ String.ofList cs] = some (bs, []) := by
    rw [parseBytesLit_hex _ (by simp)]
    have : (("0x" ++ String.ofList cs).drop 2).copy = String.ofList cs := by
      apply String.toList_inj.mp; simp
    rw [this, unhex, String.toList_ofList, hdec]; rfl
  refine ⟨?_, hp, ?_⟩
  · have h := tokenise_op_plain ['b', 'y', 't', 'e'] ('0' :: 'x' :: cs) (by simp [okChar]) (by simp)
      (by
        intro c hc
        simp only [List.mem_cons] at hc
        rcases hc with rfl | rfl | hc
        · simp [okChar]
        · simp [okChar]
        · exact (hexChar_facts c (hall c hc)).1) (by simp)
    have e : "byte " ++ ("0x" ++ String.ofList cs)
        = String.ofList (['b', 'y', 't', 'e'] ++ ' ' :: '0' :: 'x' :: cs) := by
      apply String.toList_inj.mp; simp
    have e2 : "0x" ++ String.ofList cs = String.ofList ('0' :: 'x' :: cs) := by
      apply String.toList_inj.mp; simp
    rw [e, h, e2]
  · exact parseInstr_byte _ _ _ (isTmpl_false _ '0' _ (by simp; rfl) (by decide)) hp

/-- The `0x` literal PyTeal emits for a `bytes`/`bytearray` argument (`bytes.hex()`: lower-case
    digits) decodes to the same bytes. -/
theorem hex_roundtrip (bs : Bytes) : parseBytesLit ["0x" ++ hex bs] = some (bs, []) :=
  (hex_form [] _ bs (hex_okChars bs) (unhexChars_hex bs)).2.1

/-- Every base16 text the validator accepts (any mix of upper/lower case) is a `0x` literal of the
    grammar, and decodes to the bytes whose canonical lower-case hex spelling is the text
    lower-cased — i.e. to `bytes.fromhex(text)`. -/
theorem base16_valid_decodes (t : List Char) (h : validBase16 t = true) :
    ∃ bs, parseBytesLit ["0x" ++ String.ofList t] = some (bs, []) ∧
      (hex bs).toList = t.map lowerHex ∧ bs.length * 2 = t.length := by
  simp only [validBase16, decide_eq_true_eq, List.all_eq_true] at h
  obtain ⟨bs, h1, h2, h3⟩ := unhexChars_valid t h.1 h.2
  exact ⟨bs, (hex_form [] t bs h.2 h1).2.1, by simp [hex, h2], h3⟩

/-! ## `Bytes("base64", …)` and `Bytes("base32", …)` -/

/-- Validator accepts ⇒ the grammar's base64 decoder is defined on the text and yields the
    RFC 4648 reading of it (`rfcBase64`: the leading whole bytes of the 6-bit symbol values
    read as one big-endian number). -/
theorem base64_valid_decodes (cs : List Char) (h : validBase64 cs = true) :
    ∃ bs, base64Decode false (String.ofList cs) = some bs ∧ rfcBase64 cs = some bs :=
  base64Decode_valid cs h

/-- Same for base32 (padding optional, as the validator's pattern allows). -/
theorem base32_valid_decodes (cs : List Char) (h : validBase32 cs = true) :
    ∃ bs, base32Decode (String.ofList cs) = some bs ∧ rfcBase32 cs = some bs :=
  base32Decode_valid cs h

/-- the `byte base64(…)` line: two tokens (a `//` inside the parentheses is not a comment), and
    the instruction pushes the RFC 4648 reading of the text -/
theorem base64_form (sels : List (Bytes × Bytes)) (t : String) (h : validBase64 t.toList = true) :
    ∃ bs, rfcBase64 t.toList = some bs ∧
      tokenise ("byte " ++ ("base64" ++ "(" ++ t ++ ")")) = ["byte", "base64" ++ "(" ++ t ++ ")"] ∧
      parseInstr sels ["byte", "base64" ++ "(" ++ t ++ ")"] = .ok (.pushBytes bs) := by
  obtain ⟨bs, hd, hr⟩ := base64Decode_valid t.toList h
  rw [String.ofList_toList] at hd
  refine ⟨bs, hr, ?_, ?_⟩
  · have hsh := (validBase64_shape t.toList h).1
    have := tokenise_op_paren ['b', 'y', 't', 'e'] "base64".toList t.toList (by simp [okChar]) (by simp)
      (by simp [okChar])
      (by
        intro c hc
        rw [String.ofList_toList]
        rcases hsh c hc with hc | rfl
        · exact (b64Char_facts c hc).1
        · simp [okChar])
    have e : "byte " ++ ("base64" ++ "(" ++ t ++ ")")
        = String.ofList (['b', 'y', 't', 'e'] ++ ' ' :: ("base64".toList ++ '(' :: (t.toList ++ [')']))) := by
      apply String.toList_inj.mp; simp
    have e2 : "base64" ++ "(" ++ t ++ ")" = String.ofList ("base64".toList ++ '(' :: (t.toList ++ [')'])) := by
      apply String.toList_inj.mp; simp
    rw [e, this, e2]
  · apply parseInstr_byte
    · exact isTmpl_false _ 'b' _ (by simp; rfl) (by decide)
    · rw [parseBytesLit_b64 _ t (by simp) (by simp) (stripParen_wrap "base64" t), hd]; rfl

theorem base32_form (sels : List (Bytes × Bytes)) (t : String) (h : validBase32 t.toList = true) :
    ∃ bs, rfcBase32 t.toList = some bs ∧
      tokenise ("byte " ++ ("base32" ++ "(" ++ t ++ ")")) = ["byte", "base32" ++ "(" ++ t ++ ")"] ∧
      parseInstr sels ["byte", "base32" ++ "(" ++ t ++ ")"] = .ok (.pushBytes bs) := by
  obtain ⟨bs, hd, hr⟩ := base32Decode_valid t.toList h
  rw [String.ofList_toList] at hd
  refine ⟨bs, hr, ?_, ?_⟩
  · have hsh := (validBase32_shape t.toList h).1
    have := tokenise_op_paren ['b', 'y', 't', 'e'] "base32".toList t.toList (by simp [okChar]) (by simp)
      (by simp [okChar])
      (by
        intro c hc
        rw [String.ofList_toList]
        rcases hsh c hc with hc | rfl
        · have := (b32Char_facts c hc).1
          simp only [okChar] at this ⊢
          obtain ⟨a1, a2, a3, a4, a5, a6, a7⟩ := this
          exact ⟨a1, a2, a3, a4, a5, a6, fun hs => by simpa using a7 hs⟩
        · simp [okChar])
    have e : "byte " ++ ("base32" ++ "(" ++ t ++ ")")
        = String.ofList (['b', 'y', 't', 'e'] ++ ' ' :: ("base32".toList ++ '(' :: (t.toList ++ [')']))) := by
      apply String.toList_inj.mp; simp
    have e2 : "base32" ++ "(" ++ t ++ ")" = String.ofList ("base32".toList ++ '(' :: (t.toList ++ [')'])) := by
      apply String.toList_inj.mp; simp
    rw [e, this, e2]
  · apply parseInstr_byte
    · exact isTmpl_false _ 'b' _ (by simp; rfl) (by decide)
    · rw [parseBytesLit_b32 _ t (by simp) (by simp) (stripParen_none _ _ (by simp))
        (stripParen_none _ _ (by simp)) (stripParen_wrap "base32" t), hd]; rfl

/-- `correctBase32Padding` (used when constants are assembled) on a text the validator accepts:
    never the internal error, the result is padded to a multiple of 8 and the grammar decodes it to
    the same bytes as the original text. -/
theorem correctBase32Padding_valid (cs : List Char) (h : validBase32 cs = true) :
    ∃ p, correctBase32Padding cs = .ok p ∧ p.length % 8 = 0 ∧
      base32Decode (String.ofList p) = base32Decode (String.ofList cs) := by
  obtain ⟨_, _, h3⟩ := validBase32_shape cs h
  have htw := validBase32_takeWhile cs h
  have hne : ∀ c ∈ cs.takeWhile (· ≠ '='), c ≠ '=' := by
    intro c hc
    have := (List.all_eq_true.mp (List.all_takeWhile (l := cs) (p := (· ≠ '=')))) c hc
    simpa using this
  have key : ∀ k, base32Decode (String.ofList (cs.takeWhile (· ≠ '=') ++ List.replicate k '='))
      = base32Decode (String.ofList cs) := by
    intro k
    have e : (cs.takeWhile (· ≠ '=') ++ List.replicate k '=').filter (· ≠ '=') = cs.filter (· ≠ '=') := by
      rw [List.filter_append, htw]
      have e1 : (cs.takeWhile (· ≠ '=')).filter (· ≠ '=') = cs.takeWhile (· ≠ '=') :=
        List.filter_eq_self.mpr (fun c hc => by simpa using hne c hc)
      have e2 : (List.replicate k '=').filter (· ≠ '=') = [] := by
        apply List.filter_eq_nil_iff.mpr; intro c hc; simp [(List.mem_replicate.mp hc).2]
      rw [e1, e2, List.append_nil]
    simp only [base32Decode, String.toList_ofList, e]
  rw [htw] at h3
  unfold correctBase32Padding
  simp only []
  split
  · next ht => exact ⟨_, rfl, by rw [List.length_append, List.length_replicate]; omega, key 6⟩
  split
  · next ht => exact ⟨_, rfl, by rw [List.length_append, List.length_replicate]; omega, key 4⟩
  split
  · next ht => exact ⟨_, rfl, by rw [List.length_append, List.length_replicate]; omega, key 3⟩
  split
  · next ht => exact ⟨_, rfl, by rw [List.length_append, List.length_replicate]; omega, key 1⟩
  split
  · next h2 h4 h5 h7 h0 => omega
  · next h2 h4 h5 h7 h0 =>
    refine ⟨_, rfl, by omega, ?_⟩
    simpa using key 0

/-! ## `Bytes(...)`, all forms together -/

/-- **C13 for `Bytes`.**  Whatever arguments the constructor accepts, the `byte` line it emits
    is two tokens, and the independent grammar decodes it to exactly what the user's arguments
    denote (`BytesArg.denote`: the UTF-8 bytes of a `str`, the bytes of a `bytes`, the RFC 4648
    reading of a base16/32/64 text after the optional `0x`). -/
theorem bytes_faithful (sels : List (Bytes × Bytes)) (a : BytesArg) (lit : BytesLit)
    (h : mkBytes a = .ok lit) :
    ∃ bs, a.denote = some bs ∧
      tokenise (bytesLine lit) = ["byte", bytesPayload lit] ∧
      parseInstr sels (tokenise (bytesLine lit)) = .ok (.pushBytes bs) := by
  cases a with
  | str u =>
    simp only [mkBytes, Except.ok.injEq] at h; subst h
    exact ⟨u, rfl, escape_single_token u, escape_line_parses sels u⟩
  | raw b =>
    simp only [mkBytes, Except.ok.injEq] at h; subst h
    obtain ⟨h1, _, h3⟩ := hex_form sels _ b (hex_okChars b) (unhexChars_hex b)
    refine ⟨b, rfl, h1, ?_⟩
    show parseInstr sels (tokenise ("byte " ++ ("0x" ++ hex b))) = _
    rw [show hex b = String.ofList (b.flatMap hexOfByte) from rfl, h1]; exact h3
  | based base text =>
    simp only [mkBytes] at h
    split at h
    · next hb =>
      subst hb
      split at h
      · next hv =>
        simp only [Except.ok.injEq] at h; subst h
        obtain ⟨bs, h1, h2, h3⟩ := base32_form sels text hv
        refine ⟨bs, by simpa [BytesArg.denote] using h1, h2, ?_⟩
        show parseInstr sels (tokenise ("byte " ++ ("base32" ++ "(" ++ text ++ ")"))) = _
        rw [h2]; exact h3
      · cases h
    split at h
    · next hnb hb =>
      subst hb
      split at h
      · next hv =>
        simp only [Except.ok.injEq] at h; subst h
        obtain ⟨bs, h1, h2, h3⟩ := base64_form sels text hv
        refine ⟨bs, by simpa [BytesArg.denote] using h1, h2, ?_⟩
        show parseInstr sels (tokenise ("byte " ++ ("base64" ++ "(" ++ text ++ ")"))) = _
        rw [h2]; exact h3
      · cases h
    split at h
    · next hnb hnb2 hb =>
      subst hb
      split at h
      · next hv =>
        simp only [Except.ok.injEq] at h; subst h
        have hv' := hv
        simp only [validBase16, decide_eq_true_eq, List.all_eq_true] at hv'
        obtain ⟨bs, hd, _, _⟩ := unhexChars_valid _ hv'.1 hv'.2
        obtain ⟨h1, _, h3⟩ := hex_form sels _ bs hv'.2 hd
        refine ⟨bs, by simp [BytesArg.denote, rfcBase16, hv, hd], h1, ?_⟩
        show parseInstr sels (tokenise ("byte " ++ ("0x" ++ String.ofList (strip0x text.toList)))) = _
        rw [h1]; exact h3
      · cases h
    · cases h

/-- Conversely the constructor rejects every `Bytes(base, text)` whose text has no RFC 4648
    reading in that base (and every unknown base). -/
theorem bytes_rejects_malformed (base text : String)
    (h : (BytesArg.based base text).denote = none) : ∃ e, mkBytes (.based base text) = .error e := by
  simp only [BytesArg.denote] at h
  simp only [mkBytes]
  split
  · next hb =>
    subst hb
    simp only [if_true] at h
    by_cases hv : validBase32 text.toList = true
    · obtain ⟨bs, _, hr⟩ := base32_valid_decodes _ hv; rw [hr] at h; cases h
    · simp [hv]
  split
  · next hnb hb =>
    subst hb
    simp only [hnb, if_false, if_true] at h
    by_cases hv : validBase64 text.toList = true
    · obtain ⟨bs, _, hr⟩ := base64_valid_decodes _ hv; rw [hr] at h; cases h
    · simp [hv]
  split
  · next hnb hnb2 hb =>
    subst hb
    simp only [hnb, hnb2, if_false, if_true] at h
    by_cases hv : validBase16 (strip0x text.toList) = true
    · have hv' := hv
      simp only [validBase16, decide_eq_true_eq, List.all_eq_true] at hv'
      obtain ⟨bs, hd, _, _⟩ := unhexChars_valid _ hv'.1 hv'.2
      simp [rfcBase16, hv, hd] at h
    · simp [hv]
  · exact ⟨_, rfl⟩

/-! ## `Int` -/

/-- The decimal text PyTeal emits for an in-range integer is read back as that integer. -/
theorem int_roundtrip (n : Nat) (h : n < 2 ^ 64) : parseUint64 (toString n) = some n :=
  parseUint64_toString n h

/-- `Int(v)` is accepted exactly for `0 ≤ v < 2^64`; the emitted line is two tokens and the
    `int` instruction pushes `v`. -/
theorem int_faithful (sels : List (Bytes × Bytes)) (v : Int) :
    (∀ n, mkInt v = .ok n →
      (n : Int) = v ∧ tokenise (intLine n) = ["int", toString n] ∧
      parseInstr sels (tokenise (intLine n)) = .ok (.pushInt n)) ∧
    ((∃ e, mkInt v = .error e) ↔ (v < 0 ∨ 2 ^ 64 ≤ v)) := by
  constructor
  · intro n hn
    unfold mkInt at hn
    split at hn
    · next hr =>
      injection hn with hn
      have hnv : (n : Int) = v := by rw [← hn]; omega
      have hlt : n < 2 ^ 64 := by omega
      have htok : tokenise (intLine n) = ["int", toString n] := by
        have hne : (toString n).toList ≠ [] := by
          obtain ⟨c, r, hcr, _⟩ := toString_head n; rw [hcr]; simp
        have := tokenise_op_plain ['i', 'n', 't'] (toString n).toList (by simp [okChar]) (by simp)
          (fun c hc => (digit_okChar c (toString_digits n c hc)).1) hne
        have e : intLine n = String.ofList (['i', 'n', 't'] ++ ' ' :: (toString n).toList) := by
          apply String.toList_inj.mp; simp [intLine]
        rw [e, this]; simp; rfl
      refine ⟨hnv, htok, ?_⟩
      rw [htok]
      obtain ⟨c, r, hcr, hc⟩ := toString_head n
      have ht : isTmpl (toString n) = false := isTmpl_false _ c r hcr (digit_okChar c hc).2.2
      exact parseInstr_int _ _ _ ht (namedInt_digit _ c r hcr hc) (int_roundtrip n hlt)
    · cases hn
  · unfold mkInt
    constructor
    · rintro ⟨e, he⟩
      split at he
      · cases he
      · omega
    · intro h
      rw [if_neg (by omega)]
      exact ⟨_, rfl⟩

/-! ## `Addr` -/

/-- What `Addr` guarantees: an accepted address is 58 base32 symbols without padding, its RFC 4648
    reading is 36 bytes, the line is two tokens and the `addr` instruction pushes the first 32 of
    those bytes (the public key).  Nothing relates the last 4 bytes to the key. -/
theorem addr_valid_partial (sels : List (Bytes × Bytes)) (a : String) (h : mkAddr a = .ok a) :
    ∃ bs, rfcBase32 a.toList = some bs ∧ bs.length = 36 ∧
      tokenise (addrLine a) = ["addr", a] ∧
      parseInstr sels (tokenise (addrLine a)) = .ok (.pushBytes (bs.take 32)) := by
  have hv : validAddress a.toList = true := by
    unfold mkAddr at h; split at h
    · assumption
    · cases h
  simp only [validAddress, Bool.and_eq_true, beq_iff_eq] at hv
  obtain ⟨hlen, hv⟩ := hv
  obtain ⟨bs, hd, hr⟩ := base32Decode_valid a.toList hv
  rw [String.ofList_toList] at hd
  have hfil : a.toList.filter (· ≠ '=') = a.toList := by
    rcases validBase32_pad _ hv with h | h
    · exact h
    · omega
  have hbl : bs.length = 36 := by
    rw [rfcBase32_length _ _ hr, hfil, hlen]
  have hall : ∀ c ∈ a.toList, isB32Char c = true := by
    intro c hc
    rw [← hfil] at hc
    exact (validBase32_shape _ hv).2.1 c hc
  have htok : tokenise (addrLine a) = ["addr", a] := by
    have := tokenise_op_plain ['a', 'd', 'd', 'r'] a.toList (by simp [okChar]) (by simp)
      (fun c hc => (b32Char_facts c (hall c hc)).1) (by intro h0; rw [h0] at hlen; simp at hlen)
    have e : addrLine a = String.ofList (['a', 'd', 'd', 'r'] ++ ' ' :: a.toList) := by
      apply String.toList_inj.mp; simp [addrLine]
    rw [e, this]; simp
  refine ⟨bs, hr, hbl, htok, ?_⟩
  rw [htok]
  apply parseInstr_addr
  · have : ¬ "TMPL_".toList <+: a.toList := by
      intro hp
      have : '_' ∈ a.toList := hp.subset (by simp)
      exact (b32Char_facts _ (hall _ this)).2.2.2.1 rfl
    simpa [isTmpl] using this
  · have hl : a.length = 58 := by rw [← String.length_toList]; exact hlen
    simp [parseAddr, hl, hd, hbl]

/- Full statement wanted by the property ("malformed literals are rejected when constructed"):

      ∀ a, mkAddr a = .ok a → the last 4 of the 36 decoded bytes are the checksum of the first 32

  (checksum = last four bytes of SHA-512/256 of the key).  It is false of the code whatever the
  checksum function is, because two accepted addresses share a key and differ in the checksum
  bytes; `addr_valid_partial` above is the strongest true restriction. -/

def addrZero : String := String.ofList (List.replicate 58 'A')
def addrZero' : String := String.ofList (List.replicate 57 'A' ++ ['E'])

/-- `Addr("A"*58)` and `Addr("A"*57+"E")` are both accepted, carry the same public key (32 zero
    bytes) and different checksum bytes — so for *every* checksum function `ck`, some accepted
    address has a wrong checksum.  (Replayed on the real `Addr` by the harness.) -/
theorem addr_checksum_counterexample (ck : Bytes → Bytes) :
    ∃ a bs, mkAddr a = .ok a ∧ rfcBase32 a.toList = some bs ∧ bs.drop 32 ≠ ck (bs.take 32) := by
  have v1 : validAddress (List.replicate 58 'A') = true := by decide
  have v2 : validAddress (List.replicate 57 'A' ++ ['E']) = true := by decide
  have r1 : rfcBase32 (List.replicate 58 'A') = some (List.replicate 36 0) := by decide
  have r2 : rfcBase32 (List.replicate 57 'A' ++ ['E']) = some (List.replicate 35 0 ++ [1]) := by decide
  have m1 : mkAddr addrZero = .ok addrZero := by
    unfold mkAddr addrZero; rw [String.toList_ofList, if_pos v1]
  have m2 : mkAddr addrZero' = .ok addrZero' := by
    unfold mkAddr addrZero'; rw [String.toList_ofList, if_pos v2]
  have q1 : rfcBase32 addrZero.toList = some (List.replicate 36 0) := by
    unfold addrZero; rw [String.toList_ofList]; exact r1
  have q2 : rfcBase32 addrZero'.toList = some (List.replicate 35 0 ++ [1]) := by
    unfold addrZero'; rw [String.toList_ofList]; exact r2
  have t1 : (List.replicate 36 (0 : UInt8)).take 32 = List.replicate 32 0 := by decide
  have t2 : (List.replicate 35 (0 : UInt8) ++ [1]).take 32 = List.replicate 32 0 := by decide
  have d1 : (List.replicate 36 (0 : UInt8)).drop 32 = List.replicate 4 0 := by decide
  have d2 : (List.replicate 35 (0 : UInt8) ++ [1]).drop 32 ≠ List.replicate 4 0 := by decide
  by_cases h : ck (List.replicate 32 0) = List.replicate 4 0
  · exact ⟨addrZero', List.replicate 35 0 ++ [1], m2, q2, by rw [t2, h]; exact d2⟩
  · exact ⟨addrZero, List.replicate 36 0, m1, q1, by rw [t1, d1]; exact fun h' => h h'.symm⟩

/-! ## `MethodSignature` -/

/-- what the text of an accepted signature looks like: non-empty, none of the four refused characters -/
theorem mkMethod_ok {sig s : String} (h : mkMethod sig = .ok s) :
    s = sig ∧ sig.toList ≠ [] ∧ ∀ c ∈ sig.toList, c ≠ '"' ∧ c ≠ '\\' ∧ c ≠ '\n' ∧ c ≠ '\r' := by
  unfold mkMethod at h
  split at h
  · cases h
  · next hne =>
    split at h
    · cases h
    · next hbad =>
      injection h with h
      refine ⟨h.symm, by simpa using hne, ?_⟩
      intro c hc
      have := hbad
      simp only [List.any_eq_true, not_exists, not_and, Bool.not_eq_true] at this
      have hc' := this c hc
      simp only [methodBadChar, Bool.or_eq_false_iff, decide_eq_false_iff_not] at hc'
      exact ⟨hc'.1.1.1, hc'.1.1.2, hc'.1.2, hc'.2⟩

/-- **methodsig_correct.**  Every text `MethodSignature` ACCEPTS is emitted as one line
    `method "<text>"` that is exactly two tokens of the TEAL grammar and one statement, contains no line
    break (`\n`, `\r`); its single argument is a string literal that the grammar
    (`Avm.parseStringLiteral`) decodes to exactly the UTF-8 bytes of the text; hence the `method`
    instruction denotes the selector registered for that very text (`sel` stands for the first four
    bytes of SHA-512/256 of it, which Lean does not interpret).
    (Before repair 3567bd6 of `pyteal/ast/methodsig.py` every non-empty text was accepted and this was
    false: see the `…_regression` theorems below.) -/
theorem methodsig_correct (sels : List (Bytes × Bytes)) (sig s : String) (sel : Bytes)
    (h : mkMethod sig = .ok s) :
    s = sig ∧
    tokenise (methodLine s) = ["method", "\"" ++ sig ++ "\""] ∧
    splitStatements (tokenise (methodLine s)) = [["method", "\"" ++ sig ++ "\""]] ∧
    parseStringLiteral ("\"" ++ sig ++ "\"") = some (strBytes sig) ∧
    parseInstr ((strBytes sig, sel) :: sels) (tokenise (methodLine s)) = .ok (.pushBytes sel) ∧
    '\n' ∉ (methodLine s).toList ∧ '\r' ∉ (methodLine s).toList := by
  obtain ⟨rfl, _, hch⟩ := mkMethod_ok h
  have hq : ∀ c ∈ s.toList, c ≠ '"' ∧ c ≠ '\\' := fun c hc => ⟨(hch c hc).1, (hch c hc).2.1⟩
  have htok : tokenise (methodLine s) = ["method", "\"" ++ s ++ "\""] := by
    have := tokenise_op_quoted ['m', 'e', 't', 'h', 'o', 'd'] (by simp [okChar]) (by simp) s.toList hq
    have e : methodLine s
        = String.ofList (['m', 'e', 't', 'h', 'o', 'd'] ++ ' ' :: '"' :: (s.toList ++ ['"'])) := by
      apply String.toList_inj.mp; simp [methodLine]
    have e2 : "\"" ++ s ++ "\"" = String.ofList ('"' :: (s.toList ++ ['"'])) := by
      apply String.toList_inj.mp; simp
    rw [e, this, e2]
  have hlit : parseStringLiteral ("\"" ++ s ++ "\"") = some (strBytes s) := by
    simp only [parseStringLiteral, String.toList_append]
    have : ("\"" : String).toList = ['"'] := by simp
    rw [this]
    simp only [List.cons_append, List.nil_append]
    rw [pgo_plains _ hq, strBytes, toUTF8_toList]; simp
  refine ⟨rfl, htok, ?_, hlit, ?_, ?_, ?_⟩
  · rw [htok]
    have h1 : "\"" ++ s ++ "\"" ≠ ";" := by
      intro h
      have := congrArg String.toList h
      simp at this
    simp [splitStatements, splitStatements.go, h1]
  · rw [htok]; exact parseInstr_method _ _ _ _ hlit
  · have : '\n' ∉ s.toList := fun hm => (hch _ hm).2.2.1 rfl
    simp [methodLine, this]
  · have : '\r' ∉ s.toList := fun hm => (hch _ hm).2.2.2 rfl
    simp [methodLine, this]

/-- **methodsig_rejects.**  `MethodSignature` raises `TealInputError` exactly for the empty text and for
    the texts that contain a double quote, a backslash, a line feed or a carriage return — the texts
    that cannot stand verbatim between double quotes on one line. -/
theorem methodsig_rejects (sig : String) :
    (∃ e, mkMethod sig = .error e) ↔
      (sig.toList = [] ∨ ∃ c ∈ sig.toList, c = '"' ∨ c = '\\' ∨ c = '\n' ∨ c = '\r') := by
  constructor
  · rintro ⟨e, he⟩
    unfold mkMethod at he
    split at he
    · next h0 => exact Or.inl (by simpa using h0)
    · split at he
      · next hb =>
        right
        obtain ⟨c, hc, hbad⟩ := List.any_eq_true.mp hb
        refine ⟨c, hc, ?_⟩
        simpa [methodBadChar, or_assoc] using hbad
      · cases he
  · intro h
    cases hm : mkMethod sig with
    | error e => exact ⟨e, rfl⟩
    | ok s =>
      obtain ⟨_, hne, hch⟩ := mkMethod_ok hm
      rcases h with h | ⟨c, hc, hbad⟩
      · exact absurd h hne
      · obtain ⟨h1, h2, h3, h4⟩ := hch c hc
        rcases hbad with e | e | e | e <;> contradiction

/-- in particular: a text with one of the four characters is never accepted -/
theorem methodsig_bad_char_rejected (sig : String) (c : Char) (hc : c ∈ sig.toList)
    (hbad : c = '"' ∨ c = '\\' ∨ c = '\n' ∨ c = '\r') : ∃ e, mkMethod sig = .error e :=
  (methodsig_rejects sig).mpr (Or.inr ⟨c, hc, hbad⟩)

/-! ### regression examples: the inputs of the retired finding `methodsig-unescaped`

  Before commit 3567bd6 `MethodSignature` accepted every non-empty text.  The three theorems below
  keep the old failing inputs: each is now rejected, and each records what the verbatim line
  `method "<text>"` would mean under the grammar (why it must not be emitted). -/

/-- `MethodSignature('a"b()void')` is rejected; the line `method "a"b()void"` that used to be emitted is not
    a string literal of the grammar (it does not assemble). -/
theorem methodsig_quote_regression :
    (∃ e, mkMethod "a\"b()void" = .error e) ∧
    tokenise (methodLine "a\"b()void") = ["method", "\"a\"b()void\""] ∧
    parseStringLiteral "\"a\"b()void\"" = none ∧
    ∀ sel, parseInstr [(strBytes "a\"b()void", sel)] (tokenise (methodLine "a\"b()void"))
      ≠ .ok (.pushBytes sel) := by
  have ht : tokenise (methodLine "a\"b()void") = ["method", "\"a\"b()void\""] := by decide
  have hp : parseStringLiteral "\"a\"b()void\"" = none := by decide
  refine ⟨methodsig_bad_char_rejected _ '"' (by decide) (Or.inl rfl), ht, hp, ?_⟩
  intro sel
  rw [ht]
  simp [parseInstr, hp]

/-- `MethodSignature('a\\x41()void')` is rejected; in the line `method "a\x41()void"` that used to be emitted
    the grammar reads the escape, so it denoted the selector of a *different* signature, `aA()void`. -/
theorem methodsig_backslash_regression (sel : Bytes) :
    (∃ e, mkMethod "a\\x41()void" = .error e) ∧
    tokenise (methodLine "a\\x41()void") = ["method", "\"a\\x41()void\""] ∧
    parseStringLiteral "\"a\\x41()void\"" = some (strBytes "aA()void") ∧
    parseInstr [(strBytes "aA()void", sel)] (tokenise (methodLine "a\\x41()void"))
      = .ok (.pushBytes sel) := by
  have ht : tokenise (methodLine "a\\x41()void") = ["method", "\"a\\x41()void\""] := by decide
  have hp : parseStringLiteral "\"a\\x41()void\"" = some (strBytes "aA()void") := by
    have tb : ∀ s : String, s.toByteArray.toList = s.toList.flatMap String.utf8EncodeChar :=
      toUTF8_toList
    simp [parseStringLiteral, parseStringLiteral.go, strBytes, hexVal, tb, String.utf8EncodeChar]
  refine ⟨methodsig_bad_char_rejected _ '\\' (by decide) (Or.inr (Or.inl rfl)), ht, hp, ?_⟩
  rw [ht]; exact parseInstr_method _ _ _ _ hp

/-- `MethodSignature('a()void\nint 0')` and `MethodSignature('a\rb()void')` are rejected; the first used to
    put a line feed into the program text (a second instruction `int 0"`) -/
theorem methodsig_linebreak_regression :
    (∃ e, mkMethod "a()void\nint 0" = .error e) ∧ '\n' ∈ (methodLine "a()void\nint 0").toList ∧
    (∃ e, mkMethod "a\rb()void" = .error e) :=
  ⟨methodsig_bad_char_rejected _ '\n' (by decide) (Or.inr (Or.inr (Or.inl rfl))), by decide,
   methodsig_bad_char_rejected _ '\r' (by decide) (Or.inr (Or.inr (Or.inr rfl)))⟩


/-! ## non-vacuity: the hypotheses above are satisfiable by non-trivial inputs -/

-- quote, backslash, newline, `//`, `;`, NUL, DEL and a two-byte UTF-8 character
example : escapeStr [34, 92, 10, 47, 47, 59, 0, 127, 0xc3, 0xa9]
    = "\"\\\"\\\\\\n//;\\x00\\x7f\\xc3\\xa9\"" := by decide
example : mkBytes (.based "base64" "ab//") = .ok ⟨"base64", "ab//"⟩ := by
  simp [mkBytes]; decide
example : rfcBase64 ['a', 'b', '/', '/'] = some [0x69, 0xbf, 0xff] := by decide
example : rfcBase32 ['M', 'F', 'R', 'G', 'G', '=', '=', '='] = some [0x61, 0x62, 0x63] := by decide
example : validBase32 ['M', 'F', 'R', 'G', 'G', '=', '=', '='] = true := by decide
example : validBase16 (strip0x ['0', 'x', 'A', 'b', 'C', 'd']) = true := by decide
example : validBase16 (strip0x ['0', 'x', '0', 'x', '1', '2']) = false := by decide
example : mkInt (2 ^ 64 - 1) = .ok 18446744073709551615 := by simp [mkInt]
example : mkAddr addrZero = .ok addrZero := by
  unfold mkAddr addrZero; rw [String.toList_ofList, if_pos (by decide)]
-- the hypothesis of `methodsig_correct` is met by a real ABI signature and by odd but acceptable texts
example : mkMethod "add(uint64,uint64)uint64" = .ok "add(uint64,uint64)uint64" := by
  unfold mkMethod; rw [if_neg (by decide), if_neg (by decide)]
example : mkMethod "a b()void; // é" = .ok "a b()void; // é" := by
  unfold mkMethod; rw [if_neg (by decide), if_neg (by decide)]
example (sel : Bytes) : parseInstr [(strBytes "a b()void; // é", sel)] (tokenise (methodLine "a b()void; // é"))
    = .ok (.pushBytes sel) :=
  (methodsig_correct [] "a b()void; // é" _ sel
    (by unfold mkMethod; rw [if_neg (by decide), if_neg (by decide)])).2.2.2.2.1

/-! ## injectivity corollaries: two different byte strings never share a literal spelling -/

/-- different byte strings have different escaped string literals -/
theorem escape_injective (bs cs : Bytes) (h : escapeStr bs = escapeStr cs) : bs = cs := by
  have h1 := escape_roundtrip bs
  rw [h, escape_roundtrip cs] at h1
  exact (Option.some.inj h1).symm

/-- different byte strings have different `0x` literals -/
theorem hex_injective (bs cs : Bytes) (h : hex bs = hex cs) : bs = cs := by
  have h1 := hex_roundtrip bs
  rw [h, hex_roundtrip cs] at h1
  exact (Prod.mk.inj (Option.some.inj h1)).1.symm

end PyTealV.Proofs.C13
