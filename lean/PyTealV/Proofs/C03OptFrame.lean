/-
  C03 — frame property of the AVM opcode semantics: every opcode of `Avm.execPrim` listed in
  `framedOps` neither reads nor writes the scratch space (`execPrim_frame`).  `framedOps` is every
  opcode of the model except `loads`, `stores`, `vloads`, `vstores` (they address scratch space by a
  run-time value; the property is false for them: `frame_tac` fails on them).
-/
import PyTealV.Models.Optimizer
import PyTealV.Proofs.C03OptFrame1
import PyTealV.Proofs.C03OptFrame2
import PyTealV.Proofs.C03OptFrame3
import PyTealV.Proofs.C03OptFrame4
import PyTealV.Proofs.C03OptFrame5
namespace PyTealV.Models.Optimizer
open PyTealV PyTealV.Avm

theorem primFrame_of_mem (op : String) (h : op ∈ framedOps) : PrimFrame op := by
  simp only [framedOps, List.mem_cons, List.not_mem_nil, or_false] at h
  rcases h with rfl | rfl | rfl | rfl | rfl | rfl | rfl | rfl | rfl | rfl | rfl | rfl | rfl | rfl | rfl | rfl | rfl | rfl | rfl | rfl | rfl | rfl | rfl | rfl | rfl | rfl | rfl | rfl | rfl | rfl | rfl | rfl | rfl | rfl | rfl | rfl | rfl | rfl | rfl | rfl | rfl | rfl | rfl | rfl | rfl | rfl | rfl | rfl | rfl | rfl | rfl | rfl | rfl | rfl | rfl | rfl | rfl | rfl | rfl | rfl | rfl | rfl | rfl | rfl | rfl | rfl | rfl | rfl | rfl | rfl | rfl | rfl | rfl | rfl | rfl | rfl | rfl | rfl | rfl | rfl | rfl | rfl | rfl | rfl | rfl | rfl | rfl | rfl | rfl | rfl | rfl | rfl | rfl | rfl | rfl | rfl | rfl | rfl | rfl | rfl | rfl | rfl | rfl | rfl | rfl | rfl | rfl | rfl | rfl | rfl | rfl | rfl | rfl | rfl | rfl | rfl | rfl | rfl | rfl | rfl | rfl | rfl | rfl | rfl | rfl | rfl
  · exact primFrame_0
  · exact primFrame_1
  · exact primFrame_2
  · exact primFrame_3
  · exact primFrame_4
  · exact primFrame_5
  · exact primFrame_6
  · exact primFrame_7
  · exact primFrame_8
  · exact primFrame_9
  · exact primFrame_10
  · exact primFrame_11
  · exact primFrame_12
  · exact primFrame_13
  · exact primFrame_14
  · exact primFrame_15
  · exact primFrame_16
  · exact primFrame_17
  · exact primFrame_18
  · exact primFrame_19
  · exact primFrame_20
  · exact primFrame_21
  · exact primFrame_22
  · exact primFrame_23
  · exact primFrame_24
  · exact primFrame_25
  · exact primFrame_26
  · exact primFrame_27
  · exact primFrame_28
  · exact primFrame_29
  · exact primFrame_30
  · exact primFrame_31
  · exact primFrame_32
  · exact primFrame_33
  · exact primFrame_34
  · exact primFrame_35
  · exact primFrame_36
  · exact primFrame_37
  · exact primFrame_38
  · exact primFrame_39
  · exact primFrame_40
  · exact primFrame_41
  · exact primFrame_42
  · exact primFrame_43
  · exact primFrame_44
  · exact primFrame_45
  · exact primFrame_46
  · exact primFrame_47
  · exact primFrame_48
  · exact primFrame_49
  · exact primFrame_50
  · exact primFrame_51
  · exact primFrame_52
  · exact primFrame_53
  · exact primFrame_54
  · exact primFrame_55
  · exact primFrame_56
  · exact primFrame_57
  · exact primFrame_58
  · exact primFrame_59
  · exact primFrame_60
  · exact primFrame_61
  · exact primFrame_62
  · exact primFrame_63
  · exact primFrame_64
  · exact primFrame_65
  · exact primFrame_66
  · exact primFrame_67
  · exact primFrame_68
  · exact primFrame_69
  · exact primFrame_70
  · exact primFrame_71
  · exact primFrame_72
  · exact primFrame_73
  · exact primFrame_74
  · exact primFrame_75
  · exact primFrame_76
  · exact primFrame_77
  · exact primFrame_78
  · exact primFrame_79
  · exact primFrame_80
  · exact primFrame_81
  · exact primFrame_82
  · exact primFrame_83
  · exact primFrame_84
  · exact primFrame_85
  · exact primFrame_86
  · exact primFrame_87
  · exact primFrame_88
  · exact primFrame_89
  · exact primFrame_90
  · exact primFrame_91
  · exact primFrame_92
  · exact primFrame_93
  · exact primFrame_94
  · exact primFrame_95
  · exact primFrame_96
  · exact primFrame_97
  · exact primFrame_98
  · exact primFrame_99
  · exact primFrame_100
  · exact primFrame_101
  · exact primFrame_102
  · exact primFrame_103
  · exact primFrame_104
  · exact primFrame_105
  · exact primFrame_106
  · exact primFrame_107
  · exact primFrame_108
  · exact primFrame_109
  · exact primFrame_110
  · exact primFrame_111
  · exact primFrame_112
  · exact primFrame_113
  · exact primFrame_114
  · exact primFrame_115
  · exact primFrame_116
  · exact primFrame_117
  · exact primFrame_118
  · exact primFrame_119
  · exact primFrame_120
  · exact primFrame_121
  · exact primFrame_122
  · exact primFrame_123
  · exact primFrame_124
  · exact primFrame_125

theorem execPrim_frame (cx : Ctx) (op : String) (imms : List String) (w : World) (sc : List (Nat × Val)) (st : List Val)
    (h : framedOps.contains op = true) :
    execPrim cx op imms { w with scratch := sc } st = (execPrim cx op imms w st).map (setSc sc) :=
  primFrame_of_mem op (by simpa using h) cx imms w sc st

end PyTealV.Models.Optimizer
