/-
  C12, run-time clause: a TEAL program and its constant-assembled form (related by the decidable
  check `Models.ConstantsTV.checkAssembled`) have the same outcome in the AVM specification
  `Avm.run`, for every context, world and fuel.
-/
import PyTealV.Avm.Sem
import PyTealV.Models.ConstantsTV
set_option linter.unusedSimpArgs false
namespace PyTealV.Proofs.C12Run
open PyTealV PyTealV.Avm PyTealV.Models.ConstantsTV

/-- how a line of the plain program may differ in the assembled one -/
def lineOk (IB : List Nat) (BB : List Bytes) (a b : Line) : Prop :=
  match a.instr with
  | .intcblock _ | .bytecblock _ | .intc _ | .bytec _ => False
  | .pushInt n => b.instr = .pushInt n ∨ ∃ k, b.instr = .intc k ∧ IB[k]? = some n
  | .pushBytes x => b.instr = .pushBytes x ∨ ∃ k, b.instr = .bytec k ∧ BB[k]? = some x
  | i => b.instr = i

def shiftFrame (k : Nat) (f : Frame) : Frame := { f with retPc := f.retPc + k }

/-- the assembled straight-line state that corresponds to a plain one: same stack and world, the declared blocks -/
def TM (IB : List Nat) (BB : List Bytes) (m : MS) : MS := { m with intc := IB, bytec := BB }

/-- the assembled machine state that corresponds to a plain state -/
def T (k : Nat) (IB : List Nat) (BB : List Bytes) (s : St) : St :=
  { pc := s.pc + k, calls := s.calls.map (shiftFrame k), ms := TM IB BB s.ms }

def mapR (f : St → St) : StepR → StepR
  | .next s => .next (f s)
  | .halt o => .halt o

def mapSR (f : MS → MS) : SR → SR
  | .ok m => .ok (f m)
  | .halt o => .halt o

structure Rel (k : Nat) (IB : List Nat) (BB : List Bytes) (p q : Program) : Prop where
  size : q.size = p.size + k
  line : ∀ i a, p[i]? = some a → ∃ b, q[i + k]? = some b ∧ lineOk IB BB a b
  label : ∀ l, findLabel q l = (findLabel p l).map (· + k)

theorem pushV_TM (IB : List Nat) (BB : List Bytes) (m : MS) (v : Val) :
    pushV (TM IB BB m) v = mapSR (TM IB BB) (pushV m v) := by
  unfold pushV
  by_cases h : m.stack.length < maxStack <;> simp [TM, mapSR, h]

/-- straight-line instructions: related lines act the same on related states -/
theorem execSimple_sim (cx : Ctx) (IB : List Nat) (BB : List Bytes) (a b : Line) (hl : lineOk IB BB a b) (m : MS) :
    execSimple cx b.instr (TM IB BB m) = (execSimple cx a.instr m).map (mapSR (TM IB BB)) := by
  unfold lineOk at hl
  cases hi : a.instr <;> simp only [hi] at hl
  case pushInt n =>
    rcases hl with hl | ⟨k', hl, hk⟩
    · simp [hl, execSimple, pushV_TM]
    · have : (TM IB BB m).intc = IB := rfl
      simp [hl, execSimple, this, hk, pushV_TM]
  case pushBytes x =>
    rcases hl with hl | ⟨k', hl, hk⟩
    · simp [hl, execSimple, pushV_TM]
    · have : (TM IB BB m).bytec = BB := rfl
      simp [hl, execSimple, this, hk, pushV_TM]
  case label l => simp [hl, execSimple, mapSR]
  case pragma n v => simp [hl, execSimple, mapSR]
  case tmpl o n => simp [hl, execSimple, mapSR]
  case err => simp [hl, execSimple, mapSR]
  case ret =>
    simp only [hl, execSimple, Option.map_some]
    have : (TM IB BB m).stack = m.stack := rfl
    have hw : (TM IB BB m).world = m.world := rfl
    rw [this, hw]
    rcases m.stack with _ | ⟨v, r⟩
    · simp [mapSR]
    · cases v <;> simp [mapSR]
  case load n =>
    simp only [hl, execSimple, Option.map_some]
    have hw : (TM IB BB m).world = m.world := rfl
    rw [hw]
    by_cases hn : n < 256 <;> simp [hn, pushV_TM, mapSR]
  case store n =>
    simp only [hl, execSimple, Option.map_some]
    have : (TM IB BB m).stack = m.stack := rfl
    rw [this]
    rcases hs : m.stack with _ | ⟨v, r⟩
    · simp [mapSR]
    · by_cases hn : n < 256 <;> simp [hn, mapSR, TM]
  case prim o imms =>
    simp only [hl, execSimple, Option.map_some]
    have e1 : (TM IB BB m).world = m.world := rfl
    have e2 : (TM IB BB m).stack = m.stack := rfl
    rw [e1, e2]
    cases execPrim cx o imms m.world m.stack with
    | error e => simp [mapSR]
    | ok r =>
      obtain ⟨st', w'⟩ := r
      by_cases hlen : st'.length ≤ maxStack <;> simp [hlen, mapSR, TM]
  all_goals simp [hl, execSimple]

theorem step_sim (cx : Ctx) (k : Nat) (IB : List Nat) (BB : List Bytes) (p q : Program) (h : Rel k IB BB p q) (s : St) :
    step cx q (T k IB BB s) = mapR (T k IB BB) (step cx p s) := by
  unfold step
  cases hp : p[s.pc]? with
  | none =>
    have hq : q[(T k IB BB s).pc]? = none := by
      have : p.size ≤ s.pc := by simpa using hp
      simp [T]; have := h.size; omega
    simp only [hq]
    have := h.size
    by_cases e : s.pc = p.size
    · simp [T, e, this, mapR, finish, TM]
    · have : ¬ (s.pc + k = q.size) := by omega
      simp [T, e, this, mapR]
  | some a =>
    obtain ⟨b, hb, hl⟩ := h.line _ _ hp
    have hq : q[(T k IB BB s).pc]? = some b := by simpa [T] using hb
    simp only [hq]
    have hms : (T k IB BB s).ms = TM IB BB s.ms := rfl
    rw [hms, execSimple_sim cx IB BB a b hl s.ms]
    cases hex : execSimple cx a.instr s.ms with
    | some r =>
      cases r with
      | ok m => simp [mapSR, mapR, T, Nat.add_right_comm]
      | halt o => simp [mapSR, mapR]
    | none =>
      simp only [Option.map_none]
      unfold lineOk at hl
      cases hi : a.instr <;> simp only [hi] at hl <;> simp only [hi, execSimple] at hex
      all_goals try (exact absurd hex (Option.some_ne_none _))
      case b l =>
        simp only [hl, jump, h.label l]
        cases findLabel p l <;> simp [T, mapR]
      case bz l =>
        simp only [hl, jump, h.label l]
        have hst : (TM IB BB s.ms).stack = s.ms.stack := rfl
        rcases hs : s.ms.stack with _ | ⟨v, r⟩
        · simp [T, hst, hs, mapR]
        · cases v with
          | b x => simp [T, hst, hs, mapR]
          | u n =>
            cases n with
            | zero => cases findLabel p l <;> simp [T, hst, hs, mapR, TM]
            | succ m => simp [T, hst, hs, mapR, TM, Nat.add_right_comm]
      case bnz l =>
        simp only [hl, jump, h.label l]
        have hst : (TM IB BB s.ms).stack = s.ms.stack := rfl
        rcases hs : s.ms.stack with _ | ⟨v, r⟩
        · simp [T, hst, hs, mapR]
        · cases v with
          | b x => simp [T, hst, hs, mapR]
          | u n =>
            cases n with
            | zero => simp [T, hst, hs, mapR, TM, Nat.add_right_comm]
            | succ m => cases findLabel p l <;> simp [T, hst, hs, mapR, TM]
      case callsub l =>
        simp only [hl, jump, h.label l]
        cases findLabel p l <;> simp [T, TM, mapR, shiftFrame, Nat.add_right_comm]
      case retsub =>
        simp only [hl]
        rcases hc : s.calls with _ | ⟨f, cs⟩
        · simp [T, hc, mapR]
        · rcases hpr : f.proto with _ | ⟨a', r'⟩
          · simp [T, hc, hpr, mapR, shiftFrame]
          · by_cases h1 : s.ms.stack.length < f.height + r' <;> by_cases h2 : f.height < a' <;>
              simp [T, TM, hc, hpr, mapR, shiftFrame, h1, h2]
      case proto a' r' =>
        simp only [hl]
        rcases hc : s.calls with _ | ⟨f, cs⟩
        · simp [T, hc, mapR]
        · by_cases h1 : f.proto.isSome = true <;> by_cases h2 : s.ms.stack.length < a' <;>
            simp [T, TM, hc, mapR, shiftFrame, h1, h2, Nat.add_right_comm]
      case frameDig i =>
        simp only [hl]
        rcases hc : s.calls with _ | ⟨f, cs⟩
        · simp [T, hc, mapR]
        · have hba : belowArgs (shiftFrame k f) i = belowArgs f i := rfl
          have hst : (TM IB BB s.ms).stack = s.ms.stack := rfl
          simp only [T, hc, List.map_cons, hba, hst, pushV_TM]
          have hh : (shiftFrame k f).height = f.height := rfl
          rw [hh]
          by_cases h1 : belowArgs f i = true <;>
          by_cases h2 : (f.height : Int) + i < 0 <;>
          by_cases h3 : ((f.height : Int) + i).toNat ≥ s.ms.stack.length <;>
          rcases hg : s.ms.stack[fromBottom s.ms.stack ((f.height : Int) + i).toNat]? with _ | v <;>
          simp [mapR, h1, h2, h3, hg] <;>
          (cases pushV s.ms v <;> simp [mapSR, mapR, T, hc, Nat.add_right_comm])
      case frameBury i =>
        simp only [hl]
        rcases hc : s.calls with _ | ⟨f, cs⟩
        · simp [T, hc, mapR]
        · have hba : belowArgs (shiftFrame k f) i = belowArgs f i := rfl
          have hst : (TM IB BB s.ms).stack = s.ms.stack := rfl
          have hh : (shiftFrame k f).height = f.height := rfl
          simp only [T, hc, List.map_cons, hba, hst, hh]
          rcases hs : s.ms.stack with _ | ⟨v, r⟩
          · simp [mapR]
          · by_cases h1 : belowArgs f i = true <;>
            by_cases h2 : (f.height : Int) + i < 0 <;>
            by_cases h3 : ((f.height : Int) + i).toNat ≥ r.length <;>
            simp [mapR, h1, h2, h3, T, TM, hc, Nat.add_right_comm]

theorem runFrom_sim (cx : Ctx) (k : Nat) (IB : List Nat) (BB : List Bytes) (p q : Program) (h : Rel k IB BB p q) :
    ∀ (fuel : Nat) (s : St), runFrom cx q fuel (T k IB BB s) = runFrom cx p fuel s
  | 0, _ => rfl
  | fuel + 1, s => by
    simp only [runFrom, step_sim cx k IB BB p q h s]
    cases step cx p s with
    | next s' => simp [mapR, runFrom_sim cx k IB BB p q h fuel s']
    | halt o => simp [mapR]

/-! ### From the decidable check to the relation -/

theorem lineOk_of_lineOkB {IB : List Nat} {BB : List Bytes} {a b : Line} (h : lineOkB IB BB a b = true) :
    lineOk IB BB a b := by
  unfold lineOkB at h
  unfold lineOk
  cases hi : a.instr <;> simp only [hi] at h ⊢
  case pushInt n =>
    rcases (Bool.or_eq_true _ _).mp h with h | h
    · exact Or.inl (of_decide_eq_true h)
    · cases hb : b.instr <;> simp [hb] at h
      exact Or.inr ⟨_, rfl, h⟩
  case pushBytes x =>
    rcases (Bool.or_eq_true _ _).mp h with h | h
    · exact Or.inl (of_decide_eq_true h)
    · cases hb : b.instr <;> simp [hb] at h
      exact Or.inr ⟨_, rfl, h⟩
  all_goals first | exact of_decide_eq_true h | cases h

theorem allOk_spec (IB : List Nat) (BB : List Bytes) : ∀ (xs ys : List Line), allOk IB BB xs ys = true →
    xs.length = ys.length ∧ ∀ (i : Nat) (a : Line), xs[i]? = some a → ∃ b, ys[i]? = some b ∧ lineOk IB BB a b
  | [], [], _ => by simp
  | [], _ :: _, h => by simp [allOk] at h
  | _ :: _, [], h => by simp [allOk] at h
  | a0 :: xs, b0 :: ys, h => by
    simp only [allOk, Bool.and_eq_true] at h
    obtain ⟨hl, ih⟩ := allOk_spec IB BB xs ys h.2
    refine ⟨by simp [hl], ?_⟩
    intro i a hi
    cases i with
    | zero => simp at hi; subst hi; exact ⟨b0, by simp, lineOk_of_lineOkB h.1⟩
    | succ j => simp at hi; simpa using ih j a hi

def isLab (l : String) (ln : Line) : Bool :=
  match ln.instr with | .label l' => l' == l | _ => false

theorem findLabel_eq (p : Program) (l : String) : findLabel p l = p.toList.findIdx? (isLab l) := by
  rcases p with ⟨xs⟩
  simp only [findLabel, List.findIdx?_toArray]
  rfl

theorem isLab_of_lineOk {IB : List Nat} {BB : List Bytes} {a b : Line} (h : lineOk IB BB a b) (l : String) :
    isLab l b = isLab l a := by
  unfold lineOk at h
  unfold isLab
  cases hi : a.instr <;> simp only [hi] at h <;> try (simp [h]; done)
  · rcases h with h | ⟨k, h, _⟩ <;> simp [h]
  · rcases h with h | ⟨k, h, _⟩ <;> simp [h]

theorem findIdx?_congr {α : Type} {P : α → Bool} : ∀ (xs ys : List α), xs.length = ys.length →
    (∀ (i : Nat) (a : α), xs[i]? = some a → ∃ b, ys[i]? = some b ∧ P b = P a) → ys.findIdx? P = xs.findIdx? P
  | [], [], _, _ => rfl
  | [], _ :: _, h, _ => by simp at h
  | _ :: _, [], h, _ => by simp at h
  | x :: xs, y :: ys, hl, h => by
    obtain ⟨b, hb, hP⟩ := h 0 x (by simp)
    simp at hb; subst hb
    have ih := findIdx?_congr xs ys (by simpa using hl) (fun i a hi => by simpa using h (i + 1) a (by simpa using hi))
    simp [List.findIdx?_cons, hP, ih]


/-! ### The declaration lines in front -/

theorem isLab_of_isDecl {l : String} {ln : Line} (h : isDecl ln = true) : isLab l ln = false := by
  unfold isDecl at h
  unfold isLab
  cases hi : ln.instr <;> simp [hi] at h ⊢

/-- executing a run of declaration lines: one step each, only `pc` and the constant blocks change -/
theorem exec_decls (cx : Ctx) (q : Program) : ∀ (ds : List Line) (s : St) (fuel : Nat),
    (∀ l ∈ ds, isDecl l = true) → (∀ (j : Nat) (l : Line), ds[j]? = some l → q[s.pc + j]? = some l) →
    runFrom cx q (fuel + ds.length) s =
      runFrom cx q fuel { s with pc := s.pc + ds.length,
                                 ms := { s.ms with intc := (declBlocks ds (s.ms.intc, s.ms.bytec)).1,
                                                   bytec := (declBlocks ds (s.ms.intc, s.ms.bytec)).2 } }
  | [], s, fuel, _, _ => by simp [declBlocks]
  | d :: ds, s, fuel, hd, hi => by
    have h0 : q[s.pc]? = some d := by simpa using hi 0 d (by simp)
    have hdd : isDecl d = true := hd d (by simp)
    have hrest : ∀ l ∈ ds, isDecl l = true := fun l hl => hd l (by simp [hl])
    have hstep : ∀ (s' : St), s'.pc = s.pc + 1 →
        (∀ (j : Nat) (l : Line), ds[j]? = some l → q[s'.pc + j]? = some l) := by
      intro s' hs' j l hj
      have := hi (j + 1) l (by simpa using hj)
      rw [hs']; rw [← this]; congr 1; omega
    show runFrom cx q (fuel + ds.length + 1) s = _
    unfold isDecl at hdd
    cases hinstr : d.instr <;> simp [hinstr] at hdd
    case pragma nm v =>
      simp only [runFrom, step, h0, hinstr, execSimple]
      rw [exec_decls cx q ds _ fuel hrest (hstep _ rfl)]
      simp [declBlocks, hinstr, Nat.add_assoc, Nat.add_comm 1]
    case intcblock vs =>
      simp only [runFrom, step, h0, hinstr, execSimple]
      rw [exec_decls cx q ds _ fuel hrest (hstep _ rfl)]
      simp [declBlocks, hinstr, Nat.add_assoc, Nat.add_comm 1]
    case bytecblock vs =>
      simp only [runFrom, step, h0, hinstr, execSimple]
      rw [exec_decls cx q ds _ fuel hrest (hstep _ rfl)]
      simp [declBlocks, hinstr, Nat.add_assoc, Nat.add_comm 1]

/-- a program `q` that is `ds ++ body`, with `ds` declarations and `body` line-wise related to `p0` -/
theorem rel_of_parts {IB : List Nat} {BB : List Bytes} (p0 q : Program) (ds body : List Line)
    (hq : q.toList = ds ++ body) (hdecl : ∀ l ∈ ds, isDecl l = true) (hlen : p0.toList.length = body.length)
    (hline : ∀ (i : Nat) (a : Line), p0.toList[i]? = some a → ∃ b, body[i]? = some b ∧ lineOk IB BB a b) :
    Rel ds.length IB BB p0 q := by
  have hsz : q.size = p0.size + ds.length := by
    have : q.toList.length = ds.length + body.length := by rw [hq]; simp
    simp only [Array.length_toList] at this hlen
    omega
  refine ⟨hsz, ?_, ?_⟩
  · intro i a hi
    obtain ⟨b, hb, hl⟩ := hline i a (by simpa using hi)
    refine ⟨b, ?_, hl⟩
    have : q.toList[i + ds.length]? = some b := by
      rw [hq, List.getElem?_append_right (by omega)]
      simpa using hb
    simpa using this
  · intro l
    rw [findLabel_eq, findLabel_eq, hq, List.findIdx?_append]
    have hnone : ds.findIdx? (isLab l) = none := by
      rw [List.findIdx?_eq_none_iff]
      intro x hx
      exact isLab_of_isDecl (hdecl x hx)
    have hc := findIdx?_congr (P := isLab l) p0.toList body hlen
      (fun i a hi => by
        obtain ⟨b, hb, hl⟩ := hline i a hi
        exact ⟨b, hb, isLab_of_lineOk hl l⟩)
    simp [hnone, hc]

/-- outcome equality from the relation plus the declaration prefix -/
theorem run_of_parts {IB : List Nat} {BB : List Bytes} (p0 q : Program) (ds body : List Line)
    (hq : q.toList = ds ++ body) (hdecl : ∀ l ∈ ds, isDecl l = true) (hlen : p0.toList.length = body.length)
    (hline : ∀ (i : Nat) (a : Line), p0.toList[i]? = some a → ∃ b, body[i]? = some b ∧ lineOk IB BB a b)
    (hblocks : declBlocks ds ([], []) = (IB, BB)) (cx : Ctx) (fuel : Nat) (w : World) :
    run cx q (fuel + ds.length) w = run cx p0 fuel w := by
  have hrel := rel_of_parts (IB := IB) (BB := BB) p0 q ds body hq hdecl hlen hline
  unfold run
  have hidx : ∀ (j : Nat) (l : Line), ds[j]? = some l → q[({ ms := { world := w } } : St).pc + j]? = some l := by
    intro j l hj
    have : q.toList[j]? = some l := by
      rw [hq, List.getElem?_append_left (by
        have := (List.getElem?_eq_some_iff.mp hj).1; exact this)]
      exact hj
    simpa using this
  rw [exec_decls cx q ds { ms := { world := w } } fuel hdecl hidx]
  rw [← runFrom_sim cx ds.length IB BB p0 q hrel fuel { ms := { world := w } }]
  congr 1
  simp [T, TM, hblocks]

theorem mem_takeWhile_imp {α : Type} {P : α → Bool} : ∀ {l : List α} {x : α}, x ∈ l.takeWhile P → P x = true
  | [], _, h => by simp at h
  | y :: r, x, h => by
    by_cases hy : P y = true
    · simp only [List.takeWhile_cons, hy, if_true, List.mem_cons] at h
      rcases h with h | h
      · rw [h]; exact hy
      · exact mem_takeWhile_imp h
    · simp [List.takeWhile_cons, hy] at h

theorem drop_length_takeWhile {α : Type} (P : α → Bool) : ∀ l : List α,
    l.drop (l.takeWhile P).length = l.dropWhile P
  | [] => rfl
  | x :: r => by
    by_cases h : P x = true
    · simp [List.takeWhile_cons, List.dropWhile_cons, h, drop_length_takeWhile P r]
    · simp [List.takeWhile_cons, List.dropWhile_cons, h]

theorem declBlocks_pragma : ∀ (ds : List Line) (acc : List Nat × List Bytes), (∀ l ∈ ds, isPragma l = true) →
    declBlocks ds acc = acc
  | [], _, _ => rfl
  | d :: ds, acc, h => by
    have hd := h d (by simp)
    unfold isPragma at hd
    cases hi : d.instr <;> simp [hi] at hd
    simp [declBlocks, hi, declBlocks_pragma ds acc (fun l hl => h l (by simp [hl]))]

theorem isDecl_of_isPragma {l : Line} (h : isPragma l = true) : isDecl l = true := by
  unfold isPragma at h
  unfold isDecl
  cases hi : l.instr <;> simp [hi] at h ⊢

theorem lineOk_self {IB : List Nat} {BB : List Bytes} {a b : Line} (h : lineOk IB BB a b) : lineOk [] [] a a := by
  unfold lineOk at h ⊢
  cases hi : a.instr <;> simp only [hi] at h ⊢ <;> first | exact h.elim | exact Or.inl trivial | trivial

/-- **assembled_run_eq.**  If `checkAssembled p q = some (m, n)` — after its `m` `#pragma` lines the
    plain program `p` is line for line the assembled program `q` after its `n` declaration lines
    (`#pragma`, `intcblock`, `bytecblock`), constant pushes possibly replaced by references to block
    entries holding the same value — then for every context, initial world and fuel the two programs
    have the same outcome in the AVM specification: `q` after `fuel + n` steps is `p` after `fuel + m`. -/
theorem assembled_run_eq (p q : Program) (m n : Nat) (h : checkAssembled p q = some (m, n))
    (cx : Ctx) (fuel : Nat) (w : World) : run cx q (fuel + n) w = run cx p (fuel + m) w := by
  unfold checkAssembled at h
  simp only at h
  split at h
  · rename_i hc
    cases h
    obtain ⟨_, hall⟩ := hc
    obtain ⟨hlen, hline⟩ := allOk_spec _ _ _ _ hall
    let p0 : Program := ⟨p.toList.drop (p.toList.takeWhile isPragma).length⟩
    have hqsplit : q.toList = q.toList.takeWhile isDecl ++ q.toList.drop (q.toList.takeWhile isDecl).length := by
      rw [drop_length_takeWhile]; exact (List.takeWhile_append_dropWhile).symm
    have hpsplit : p.toList = p.toList.takeWhile isPragma ++ p0.toList := by
      show _ = _ ++ List.drop _ p.toList
      rw [drop_length_takeWhile]; exact (List.takeWhile_append_dropWhile).symm
    have hq := run_of_parts (IB := (declBlocks (q.toList.takeWhile isDecl) ([], [])).1)
      (BB := (declBlocks (q.toList.takeWhile isDecl) ([], [])).2) p0 q _ _ hqsplit
      (fun l hl => (mem_takeWhile_imp hl)) hlen hline rfl cx fuel w
    have hp := run_of_parts (IB := []) (BB := []) p0 p _ _ hpsplit
      (fun l hl => isDecl_of_isPragma (mem_takeWhile_imp hl)) rfl
      (fun i a hi => ⟨a, hi, by
        obtain ⟨b, _, hl⟩ := hline i a hi
        exact lineOk_self hl⟩)
      (declBlocks_pragma _ _ (fun l hl => mem_takeWhile_imp hl)) cx fuel w
    rw [hq, hp]
  · cases h

/-! ### Non-vacuity -/

def ln (op : String) (imms : List String) (i : Instr) : Line := ⟨⟨op, imms⟩, i⟩

def demoPlain : Program := #[
  ln "#pragma" ["version", "8"] (.pragma "version" "8"),
  ln "int" ["300"] (.pushInt 300), ln "byte" ["0x61"] (.pushBytes [97]), ln "l0:" [] (.label "l0"),
  ln "int" ["300"] (.pushInt 300), ln "byte" ["\"a\""] (.pushBytes [97]), ln "pop" [] (.prim "pop" []),
  ln "int" ["7"] (.pushInt 7), ln "bnz" ["l0"] (.bnz "l0")]

def demoAsm : Program := #[
  ln "#pragma" ["version", "8"] (.pragma "version" "8"),
  ln "intcblock" ["300"] (.intcblock [300]), ln "bytecblock" ["0x61"] (.bytecblock [[97]]),
  ln "intc_0" [] (.intc 0), ln "bytec_0" [] (.bytec 0), ln "l0:" [] (.label "l0"),
  ln "intc_0" [] (.intc 0), ln "bytec_0" [] (.bytec 0), ln "pop" [] (.prim "pop" []),
  ln "pushint" ["7"] (.pushInt 7), ln "bnz" ["l0"] (.bnz "l0")]

theorem demo_check : checkAssembled demoPlain demoAsm = some (1, 3) := by decide

/-- the hypothesis of `assembled_run_eq` is satisfiable by a program with a pragma, a label, a branch and both blocks -/
example (cx : Ctx) (fuel : Nat) (w : World) : run cx demoAsm (fuel + 3) w = run cx demoPlain (fuel + 1) w :=
  assembled_run_eq demoPlain demoAsm 1 3 demo_check cx fuel w

end PyTealV.Proofs.C12Run
