/-
  C08 — Router dispatch: proofs.
-/
import PyTealV.Models.Router
namespace PyTealV.Proofs.C08
open PyTealV PyTealV.Models.Router

/-! ## what the generated code decides (the spec plus the one shortcut of `approval_cond`) -/

/-- `MethodConfig.approval_cond` returns the constant 1 when all five CallConfigs are ALL: no
    OnCompletion test is generated at all, so `ClearState` is let through as well. -/
def allowsCode (m : MethodConfig) (oc : OC) (cr : Bool) : Bool :=
  if m.isAllAll then true else (m.get oc).allows cr

def ocaDecision (oca : OnCompleteAction) (c : Call) : Decision :=
  match oca with
  | ⟨some k, cc⟩ => if cc.allows c.isCreate then .run (.bare k) else .reject
  | ⟨none, _⟩ => .reject

def dispatchCode (cfg : RouterCfg) (c : Call) : Decision :=
  match c.appArgs with
  | [] => ocaDecision (cfg.bare.get c.oc) c
  | a :: _ =>
    match findMethod a cfg.methods 0 with
    | some (k, m) => if allowsCode m.config c.oc c.isCreate then .run (.method k) else .reject
    | none => .reject

/-! ## condition expressions -/

theorem eval_foldl_or (c : Call) (xs : List CExpr) (x : CExpr) :
    (xs.foldl .or x).eval c = (x.eval c || xs.any (·.eval c)) := by
  induction xs generalizing x with
  | nil => simp
  | cons y ys ih => simp [List.foldl_cons, ih, CExpr.eval, Bool.or_assoc]

theorem condListEntry_none (p : CallConfig × OC) : condListEntry p = none ↔ p.1 = .never := by
  obtain ⟨cc, oc⟩ := p
  cases cc <;> simp [condListEntry, CallConfig.approvalConditionUnderConfig]

theorem condListEntry_eval (c : Call) (p : CallConfig × OC) :
    (match condListEntry p with | some e => e.eval c | none => false) =
      (decide (c.oc = p.2) && p.1.allows c.isCreate) := by
  obtain ⟨cc, oc⟩ := p
  cases cc <;> simp [condListEntry, CallConfig.approvalConditionUnderConfig, CExpr.eval,
    CallConfig.allows, Call.isCreate, bne]

theorem any_filterMap_condList (c : Call) (l : List (CallConfig × OC)) :
    (l.filterMap condListEntry).any (·.eval c) =
      l.any (fun p => decide (c.oc = p.2) && p.1.allows c.isCreate) := by
  induction l with
  | nil => simp
  | cons p ps ih =>
    have h := condListEntry_eval c p
    rw [List.any_cons, ← h, List.filterMap_cons]
    cases hp : condListEntry p with
    | none => simp [ih]
    | some e => simp [ih]

theorem pairs_any_eq_get (m : MethodConfig) (c : Call) :
    m.pairs.any (fun p => decide (c.oc = p.2) && p.1.allows c.isCreate) =
      (m.get c.oc).allows c.isCreate := by
  obtain ⟨args, oc, appId⟩ := c
  cases oc <;> simp [MethodConfig.pairs, MethodConfig.get, CallConfig.allows]

/-- `approval_cond` of a MethodConfig that is not all-NEVER: never raises, never the constant 0,
    and evaluates to "allowed by the config" — except for the all-ALL shortcut. -/
theorem approvalCond_spec (m : MethodConfig) (h : m.isNever = false) :
    ∃ cr, m.approvalCond = .ok cr ∧ cr ≠ .zero ∧
      ∀ c : Call, cr.eval c = allowsCode m c.oc c.isCreate := by
  unfold MethodConfig.isNever at h
  unfold MethodConfig.approvalCond
  rw [h]
  by_cases hall : m.pairs.all (fun p => p.1 == .all) = true
  · refine ⟨.one, by simp [hall], by simp, ?_⟩
    intro c; simp [CondR.eval, allowsCode, MethodConfig.isAllAll, hall]
  · have hall' : m.pairs.all (fun p => p.1 == .all) = false := by simpa using hall
    cases hl : m.pairs.filterMap condListEntry with
    | nil =>
      exfalso
      rw [List.filterMap_eq_nil_iff] at hl
      have : m.pairs.all (fun p => p.1 == .never) = true := by
        rw [List.all_eq_true]; intro p hp
        have := (condListEntry_none p).mp (hl p hp)
        simp [this]
      rw [this] at h; cases h
    | cons x xs =>
      refine ⟨.expr (xs.foldl .or x), by simp [hall', orN], by simp, ?_⟩
      intro c
      have h1 := any_filterMap_condList c m.pairs
      rw [hl, pairs_any_eq_get] at h1
      simp only [CondR.eval, eval_foldl_or, allowsCode, MethodConfig.isAllAll, hall']
      simpa using h1


/-! ## the bare-call `Cond` -/

def decList (c : Call) : List (OC × OnCompleteAction) → Decision
  | [] => .reject
  | (oc, oca) :: rest => if c.oc = oc ∧ oca.action.isSome then ocaDecision oca c else decList c rest

theorem bareArm_spec (oc : OC) (oca : OnCompleteAction) (hv : oca.valid = true) :
    ∃ a, bareArm oc oca = .ok a ∧
      ∀ (c : Call) (rest : List (CExpr × Body)) (d : Decision), (evalInner c rest).toDecision = d →
        (evalInner c (a.toList ++ rest)).toDecision =
          if c.oc = oc ∧ oca.action.isSome then ocaDecision oca c else d := by
  obtain ⟨act, cc⟩ := oca
  cases act <;> cases cc <;>
    simp_all [OnCompleteAction.valid, bareArm, OnCompleteAction.isEmpty, evalInner, CExpr.eval, Body.eval,
      ocaDecision, CallConfig.allows, Call.isCreate, Outcome.toDecision, bne]
  all_goals
    intro c rest
    by_cases h1 : c.oc = oc <;> by_cases h2 : c.appId = 0 <;> simp [h1, h2]

theorem bareArms_spec (l : List (OC × OnCompleteAction)) (hv : ∀ p ∈ l, p.2.valid = true) :
    ∃ arms, bareArms l = .ok arms ∧ ∀ c : Call, (evalInner c arms).toDecision = decList c l := by
  induction l with
  | nil => exact ⟨[], rfl, fun c => rfl⟩
  | cons p ps ih =>
    obtain ⟨oc, oca⟩ := p
    obtain ⟨arms, h1, h2⟩ := ih (fun q hq => hv q (List.mem_cons_of_mem _ hq))
    obtain ⟨a, h3, h4⟩ := bareArm_spec oc oca (hv (oc, oca) List.mem_cons_self)
    refine ⟨a.toList ++ arms, by simp [bareArms, h1, h3], ?_⟩
    intro c
    rw [h4 c arms _ (h2 c)]
    rfl

theorem bareArm_ok_valid (oc : OC) (oca : OnCompleteAction) (a) (h : bareArm oc oca = .ok a) :
    oca.valid = true := by
  obtain ⟨act, cc⟩ := oca
  cases act <;> cases cc <;> simp_all [OnCompleteAction.valid, bareArm, OnCompleteAction.isEmpty]

theorem bareArms_ok_valid (l : List (OC × OnCompleteAction)) (arms) (h : bareArms l = .ok arms) :
    ∀ p ∈ l, p.2.valid = true := by
  induction l generalizing arms with
  | nil => simp
  | cons p ps ih =>
    obtain ⟨oc, oca⟩ := p
    simp only [bareArms] at h
    split at h
    · cases h
    · rename_i a ha
      split at h
      · cases h
      · rename_i as has
        intro q hq
        rcases List.mem_cons.mp hq with rfl | hq
        · exact bareArm_ok_valid oc oca a ha
        · exact ih as has q hq

theorem decList_pairs (b : BareCallActions) (c : Call) :
    decList c b.pairs = ocaDecision (b.get c.oc) c := by
  obtain ⟨args, oc, appId⟩ := c
  obtain ⟨⟨a1, c1⟩, ⟨a2, c2⟩, ⟨a3, c3⟩, ⟨a4, c4⟩, ⟨a5, c5⟩⟩ := b
  cases oc <;> simp [BareCallActions.pairs, BareCallActions.get, decList, OnCompleteAction.never, ocaDecision]
  · cases a1 <;> simp
  · cases a2 <;> simp
  · cases a3 <;> simp
  · cases a4 <;> simp
  · cases a5 <;> simp

/-- every bare action obeys `OnCompleteAction.__post_init__` -/
def BareValid (b : BareCallActions) : Prop := ∀ p ∈ b.pairs, p.2.valid = true

theorem isEmpty_valid (b : BareCallActions) (h : b.isEmpty = true) : BareValid b := by
  intro p hp
  have := (List.all_eq_true.mp h) p hp
  obtain ⟨oc, ⟨act, cc⟩⟩ := p
  cases act <;> cases cc <;> simp_all [OnCompleteAction.isEmpty, OnCompleteAction.valid]

theorem isEmpty_decision (b : BareCallActions) (h : b.isEmpty = true) (c : Call) :
    ocaDecision (b.get c.oc) c = .reject := by
  rw [← decList_pairs]
  have h' := List.all_eq_true.mp h
  generalize b.pairs = l at h'
  induction l with
  | nil => rfl
  | cons p ps ih =>
    obtain ⟨oc, ⟨act, cc⟩⟩ := p
    have := h' _ List.mem_cons_self
    have h'' : ∀ x ∈ ps, (fun p : OC × OnCompleteAction => p.2.isEmpty) x = true :=
      fun x hx => h' x (List.mem_cons_of_mem _ hx)
    cases act
    · simpa [decList] using ih h''
    · simp [OnCompleteAction.isEmpty] at this


/-! ## registration (`add_method_handler`) -/

def condOf (mc : MethodConfig) : CondR :=
  match mc.approvalCond with
  | .ok c => c
  | .error _ => .zero

/-- the `CondWithMethod`s of methods registered from index `base` on -/
def cwmsFrom : Nat → List Method → List CondWithMethod
  | _, [] => []
  | base, m :: ms => ⟨m.selector, condOf m.config, base⟩ :: cwmsFrom (base + 1) ms

def Router.push (r : Router) (m : Method) : Router :=
  { r with methods := r.methods ++ [m],
           ast := r.ast ++ [⟨m.selector, condOf m.config, r.methods.length⟩] }

theorem addMethodHandler_ok (r : Router) (m : Method) (r' : Router) (h : r.addMethodHandler m = .ok r') :
    m.config.isNever = false ∧ m.sig ∉ r.methods.map (·.sig) ∧
      m.selector ∉ r.methods.map (·.selector) ∧ r' = Router.push r m := by
  unfold Router.addMethodHandler at h
  split at h; · cases h
  rename_i hn
  split at h; · cases h
  rename_i hs
  split at h; · cases h
  rename_i hl
  have hn' : m.config.isNever = false := by simpa using hn
  obtain ⟨cr, h1, h2, _⟩ := approvalCond_spec m.config hn'
  rw [h1] at h
  simp only [Except.ok.injEq] at h
  refine ⟨hn', hs, hl, ?_⟩
  rw [← h]
  simp [Router.push, addMethodToAst, h2, condOf, h1]

theorem addMethodHandler_of (r : Router) (m : Method) (hn : m.config.isNever = false)
    (hs : m.sig ∉ r.methods.map (·.sig)) (hl : m.selector ∉ r.methods.map (·.selector)) :
    r.addMethodHandler m = .ok (Router.push r m) := by
  obtain ⟨cr, h1, h2, _⟩ := approvalCond_spec m.config hn
  unfold Router.addMethodHandler
  simp only [hn, hs, hl, h1]
  simp [Router.push, addMethodToAst, h2, condOf, h1]

theorem addAll_spec (ms : List Method) (r r' : Router) (h : r.addAll ms = .ok r') :
    r'.methods = r.methods ++ ms ∧ r'.ast = r.ast ++ cwmsFrom r.methods.length ms ∧
    r'.bare = r.bare ∧ r'.clearState = r.clearState ∧
    (∀ m ∈ ms, m.config.isNever = false) ∧
    ((r.methods.map (·.selector)).Nodup → (r'.methods.map (·.selector)).Nodup) ∧
    ((r.methods.map (·.sig)).Nodup → (r'.methods.map (·.sig)).Nodup) := by
  induction ms generalizing r with
  | nil =>
    simp only [Router.addAll, Except.ok.injEq] at h
    subst h; simp [cwmsFrom]
  | cons m ms ih =>
    simp only [Router.addAll] at h
    split at h
    · cases h
    · rename_i r1 h1
      obtain ⟨hn, hs, hl, rfl⟩ := addMethodHandler_ok r m r1 h1
      obtain ⟨a1, a2, a3, a4, a5, a6, a7⟩ := ih _ h
      refine ⟨by simp [a1, Router.push], by simp [a2, Router.push, cwmsFrom], by simp [a3, Router.push],
        by simp [a4, Router.push], ?_, ?_, ?_⟩
      · intro x hx
        rcases List.mem_cons.mp hx with rfl | hx
        · exact hn
        · exact a5 x hx
      · intro hnd
        apply a6
        simp only [Router.push, List.map_append, List.map_cons, List.map_nil]
        rw [List.nodup_append]
        exact ⟨hnd, by simp, by intro a ha b hb; simp at hb; subst hb; intro e; subst e; exact hl ha⟩
      · intro hnd
        apply a7
        simp only [Router.push, List.map_append, List.map_cons, List.map_nil]
        rw [List.nodup_append]
        exact ⟨hnd, by simp, by intro a ha b hb; simp at hb; subst hb; intro e; subst e; exact hs ha⟩

theorem addAll_ok (ms : List Method) (r : Router) (hn : ∀ m ∈ ms, m.config.isNever = false)
    (hl : ((r.methods ++ ms).map (·.selector)).Nodup) (hs : ((r.methods ++ ms).map (·.sig)).Nodup) :
    ∃ r', r.addAll ms = .ok r' := by
  induction ms generalizing r with
  | nil => exact ⟨r, rfl⟩
  | cons m ms ih =>
    have e : r.methods ++ m :: ms = (r.methods ++ [m]) ++ ms := by simp
    rw [e] at hl hs
    have hl1 : m.selector ∉ r.methods.map (·.selector) := by
      have := (List.nodup_append.mp (by simpa using hl : ((r.methods.map (·.selector) ++ [m.selector]) ++ ms.map (·.selector)).Nodup)).1
      have := (List.nodup_append.mp this).2.2
      intro hmem; exact this _ hmem _ (by simp) rfl
    have hs1 : m.sig ∉ r.methods.map (·.sig) := by
      have := (List.nodup_append.mp (by simpa using hs : ((r.methods.map (·.sig) ++ [m.sig]) ++ ms.map (·.sig)).Nodup)).1
      have := (List.nodup_append.mp this).2.2
      intro hmem; exact this _ hmem _ (by simp) rfl
    have h1 := addMethodHandler_of r m (hn m List.mem_cons_self) hs1 hl1
    obtain ⟨r', h2⟩ := ih (Router.push r m) (fun x hx => hn x (List.mem_cons_of_mem _ hx))
      (by simpa [Router.push] using hl) (by simpa [Router.push] using hs)
    exact ⟨r', by simp [Router.addAll, h1, h2]⟩

/-! ## the top-level `Cond` -/

def methodDecision (a : Bytes) (ms : List Method) (base : Nat) (c : Call) : Decision :=
  match findMethod a ms base with
  | some (k, m) => if allowsCode m.config c.oc c.isCreate then .run (.method k) else .reject
  | none => .reject

theorem condNodes_spec (ms : List Method) (base : Nat) (hn : ∀ m ∈ ms, m.config.isNever = false) :
    ∃ nodes, condNodes (cwmsFrom base ms) = .ok nodes ∧ (nodes = [] ↔ ms = []) ∧
      (∀ (c : Call) a rest, c.appArgs = a :: rest →
          (evalTop c nodes).toDecision = methodDecision a ms base c) ∧
      (∀ c : Call, c.appArgs = [] → (evalTop c nodes).toDecision = .reject) := by
  induction ms generalizing base with
  | nil => exact ⟨[], rfl, by simp, fun c a rest _ => rfl, fun c _ => rfl⟩
  | cons m ms ih =>
    obtain ⟨nodes, h1, _, h3, h4⟩ := ih (base + 1) (fun x hx => hn x (List.mem_cons_of_mem _ hx))
    obtain ⟨cr, e1, e2, e3⟩ := approvalCond_spec m.config (hn m List.mem_cons_self)
    have hc : condOf m.config = cr := by simp [condOf, e1]
    cases cr with
    | zero => exact absurd rfl e2
    | one =>
      refine ⟨(.arg0Eq m.selector, .body ⟨none, .method base⟩) :: nodes,
        by simp [cwmsFrom, condNodes, hc, CondWithMethod.toCondNode, h1], by simp, ?_, ?_⟩
      · intro c a rest hc'
        have := e3 c
        simp only [CondR.eval] at this
        by_cases hsel : a = m.selector
        · subst hsel
          simp [evalTop, Guard.eval, hc', Branch.eval, Body.eval, methodDecision, findMethod, ← this,
            Outcome.toDecision]
        · have hsel' : ¬ m.selector = a := fun e => hsel e.symm
          simp [evalTop, Guard.eval, hc', hsel, methodDecision, findMethod, hsel', h3 c a rest hc']
      · intro c hc'
        simp [evalTop, Guard.eval, hc', Outcome.toDecision]
    | expr e =>
      refine ⟨(.arg0Eq m.selector, .body ⟨some e, .method base⟩) :: nodes,
        by simp [cwmsFrom, condNodes, hc, CondWithMethod.toCondNode, h1], by simp, ?_, ?_⟩
      · intro c a rest hc'
        have := e3 c
        simp only [CondR.eval] at this
        by_cases hsel : a = m.selector
        · subst hsel
          by_cases hev : e.eval c = true
          · simp [evalTop, Guard.eval, hc', Branch.eval, Body.eval, methodDecision, findMethod, ← this,
              Outcome.toDecision, hev]
          · simp [evalTop, Guard.eval, hc', Branch.eval, Body.eval, methodDecision, findMethod, ← this,
              Outcome.toDecision, hev]
        · have hsel' : ¬ m.selector = a := fun e => hsel e.symm
          simp [evalTop, Guard.eval, hc', hsel, methodDecision, findMethod, hsel', h3 c a rest hc']
      · intro c hc'
        simp [evalTop, Guard.eval, hc', Outcome.toDecision]


/-! ## accepted routers -/

/-- what the Python constructors and `add_method_handler` enforce -/
structure WellFormed (cfg : RouterCfg) : Prop where
  selNodup : (cfg.methods.map (·.selector)).Nodup
  sigNodup : (cfg.methods.map (·.sig)).Nodup
  notNever : ∀ m ∈ cfg.methods, m.config.isNever = false
  bareValid : BareValid cfg.bare

/-- the model of `Router(...)`, `add_method_handler`…, `_build_program` does not raise -/
def Accepted (cfg : RouterCfg) : Prop := ∃ p, compile cfg = .ok p

theorem new_clear_eval (cfg : RouterCfg) (c : Call) :
    ((Router.new cfg.bare cfg.clear).clearState.eval c).toDecision = clearDispatch cfg := by
  cases h : cfg.clear <;> simp [Router.new, h, Prog.eval, Body.eval, Outcome.toDecision, clearDispatch]

/-- Everything the generated programs decide, for every accepted router and every call. -/
theorem compile_spec (cfg : RouterCfg) (hw : WellFormed cfg) :
    ∃ ap cl, compile cfg = .ok (ap, cl) ∧
      (∀ c : Call, (ap.eval c).toDecision = dispatchCode cfg c) ∧
      (∀ c : Call, (cl.eval c).toDecision = clearDispatch cfg) := by
  obtain ⟨r, hr⟩ := addAll_ok cfg.methods (Router.new cfg.bare cfg.clear) hw.notNever
    (by simpa [Router.new] using hw.selNodup) (by simpa [Router.new] using hw.sigNodup)
  obtain ⟨a1, a2, a3, a4, _, _, _⟩ := addAll_spec _ _ _ hr
  have a1' : r.methods = cfg.methods := by simpa [Router.new] using a1
  have a2' : r.ast = cwmsFrom 0 cfg.methods := by simpa [Router.new] using a2
  have a3' : r.bare = cfg.bare := by simpa [Router.new] using a3
  obtain ⟨nodes, n1, n2, n3, n4⟩ := condNodes_spec cfg.methods 0 hw.notNever
  have hclear : ∀ c : Call, (r.clearState.eval c).toDecision = clearDispatch cfg := by
    intro c; rw [a4]; exact new_clear_eval cfg c
  by_cases hb : cfg.bare.isEmpty = true
  · -- no bare calls registered
    have hbuild : r.buildProgram = .ok ((if nodes.isEmpty then Prog.reject else Prog.cond nodes), r.clearState) := by
      simp only [Router.buildProgram, a3', hb, a2', programConstruction, n1]
      cases nodes <;> simp
    refine ⟨(if nodes.isEmpty then Prog.reject else Prog.cond nodes), r.clearState,
      by simp [compile, hr, hbuild], ?_, hclear⟩
    intro c
    cases hargs : c.appArgs with
    | nil =>
      have hd : dispatchCode cfg c = .reject := by
        simp [dispatchCode, hargs, isEmpty_decision cfg.bare hb c]
      rw [hd]
      cases hnn : nodes with
      | nil => simp [Prog.eval, Outcome.toDecision]
      | cons x xs => simpa [Prog.eval, hnn] using n4 c hargs
    | cons a rest =>
      have hd : dispatchCode cfg c = methodDecision a cfg.methods 0 c := by
        simp [dispatchCode, hargs, methodDecision]
      rw [hd]
      cases hnn : nodes with
      | nil =>
        have : cfg.methods = [] := n2.mp hnn
        simp [Prog.eval, Outcome.toDecision, methodDecision, this, findMethod]
      | cons x xs => simpa [Prog.eval, hnn] using n3 c a rest hargs
  · -- bare calls registered: first arm `NumAppArgs == 0` guards the inner Cond
    have hb' : cfg.bare.isEmpty = false := by simpa using hb
    obtain ⟨arms, b1, b2⟩ := bareArms_spec cfg.bare.pairs hw.bareValid
    have hb'' : (cfg.bare.pairs.all fun p => p.2.isEmpty) = false := hb'
    have hbuild : r.buildProgram =
        .ok (Prog.cond ((Guard.numAppArgsEq0, Branch.cond arms) :: nodes), r.clearState) := by
      simp [Router.buildProgram, a3', hb', a2', programConstruction, n1,
        BareCallActions.approvalConstruction, hb'', b1]
    refine ⟨Prog.cond ((Guard.numAppArgsEq0, Branch.cond arms) :: nodes), r.clearState,
      by simp [compile, hr, hbuild], ?_, hclear⟩
    intro c
    cases hargs : c.appArgs with
    | nil =>
      simp [Prog.eval, evalTop, Guard.eval, hargs, Branch.eval, b2 c, decList_pairs, dispatchCode]
    | cons a rest =>
      simp [Prog.eval, evalTop, Guard.eval, hargs, n3 c a rest hargs, dispatchCode, methodDecision]

/-- `add_ok → distinct` (and the rest of well-formedness): whatever the model of the Python
    registration path accepts has pairwise distinct selectors and signatures, no never-callable
    method and only consistent bare actions — and everything of that kind is accepted. -/
theorem accepted_iff_wellFormed (cfg : RouterCfg) : Accepted cfg ↔ WellFormed cfg := by
  constructor
  · rintro ⟨p, hp⟩
    unfold compile at hp
    split at hp
    · cases hp
    · rename_i r hr
      obtain ⟨_, _, a3, _, a5, a6, a7⟩ := addAll_spec _ _ _ hr
      have a3' : r.bare = cfg.bare := by simpa [Router.new] using a3
      refine ⟨?_, ?_, a5, ?_⟩
      · have := a6 (by simp [Router.new]); rw [(addAll_spec _ _ _ hr).1] at this
        simpa [Router.new] using this
      · have := a7 (by simp [Router.new]); rw [(addAll_spec _ _ _ hr).1] at this
        simpa [Router.new] using this
      · by_cases hb : cfg.bare.isEmpty = true
        · exact isEmpty_valid _ hb
        · have hb' : cfg.bare.isEmpty = false := by simpa using hb
          have hb'' : (cfg.bare.pairs.all fun p => p.2.isEmpty) = false := hb'
          cases hba : bareArms cfg.bare.pairs with
          | ok arms => exact bareArms_ok_valid _ _ hba
          | error e =>
            exfalso
            simp [Router.buildProgram, a3', hb', BareCallActions.approvalConstruction, hb'', hba] at hp
  · intro hw
    obtain ⟨ap, cl, h, _⟩ := compile_spec cfg hw
    exact ⟨_, h⟩

theorem add_ok_distinct (cfg : RouterCfg) (h : Accepted cfg) :
    (cfg.methods.map (·.selector)).Nodup :=
  ((accepted_iff_wellFormed cfg).mp h).selNodup

/-! ## the property -/

instance : DecidableEq (Except String Decision) := fun a b =>
  match a, b with
  | .ok x, .ok y => if h : x = y then isTrue (by rw [h]) else isFalse (by intro e; cases e; exact h rfl)
  | .error x, .error y => if h : x = y then isTrue (by rw [h]) else isFalse (by intro e; cases e; exact h rfl)
  | .ok _, .error _ => isFalse (by intro e; cases e)
  | .error _, .ok _ => isFalse (by intro e; cases e)




/-- Exact statement about the code as it is: the model of the generated approval program decides
    `dispatchCode` (= the spec plus the all-ALL shortcut) for every accepted router (any number of
    methods) and every call. -/
theorem router_dispatch_code (cfg : RouterCfg) (c : Call) (hw : WellFormed cfg) :
    modelDecision cfg c = .ok (dispatchCode cfg c) := by
  obtain ⟨ap, cl, h, h1, _⟩ := compile_spec cfg hw
  simp [modelDecision, modelEval, h, h1 c]

theorem findMethod_mem (a : Bytes) (ms : List Method) (base k : Nat) (m : Method)
    (h : findMethod a ms base = some (k, m)) :
    base ≤ k ∧ ms[k - base]? = some m ∧ m.selector = a := by
  induction ms generalizing base with
  | nil => simp [findMethod] at h
  | cons x xs ih =>
    simp only [findMethod] at h
    split at h
    · simp only [Option.some.injEq, Prod.mk.injEq] at h
      obtain ⟨rfl, rfl⟩ := h
      simp_all
    · obtain ⟨h1, h2, h3⟩ := ih (base + 1) h
      refine ⟨by omega, ?_, h3⟩
      have : k - base = (k - (base + 1)) + 1 := by omega
      rw [this]; simpa using h2

theorem findMethod_of_nodup (ms : List Method) (base i : Nat) (m : Method)
    (hnd : (ms.map (·.selector)).Nodup) (hi : ms[i]? = some m) :
    findMethod m.selector ms base = some (base + i, m) := by
  induction ms generalizing base i with
  | nil => simp at hi
  | cons x xs ih =>
    cases i with
    | zero => simp at hi; subst hi; simp [findMethod]
    | succ j =>
      simp only [List.getElem?_cons_succ] at hi
      simp only [List.map_cons, List.nodup_cons] at hnd
      have hne : ¬ x.selector = m.selector := by
        intro e
        apply hnd.1
        rw [e]
        exact List.mem_map.mpr ⟨m, List.mem_of_getElem? hi, rfl⟩
      simp only [findMethod, hne, if_false]
      rw [ih (base + 1) j hnd.2 hi]
      congr 2; omega

theorem allowsCode_eq (m : MethodConfig) (oc : OC) (cr : Bool)
    (h : oc ≠ .clearState ∨ m.isAllAll = false) : allowsCode m oc cr = (m.get oc).allows cr := by
  unfold allowsCode
  by_cases ha : m.isAllAll = true
  · rcases h with h | h
    · simp only [ha, if_true]
      obtain ⟨a, b, c', d, e⟩ := m
      simp [MethodConfig.isAllAll, MethodConfig.pairs] at ha
      obtain ⟨rfl, rfl, rfl, rfl, rfl⟩ := ha
      cases oc <;> simp_all [MethodConfig.get, CallConfig.allows]
    · rw [h] at ha; cases ha
  · simp [ha]

/-- the spec and the code's decision coincide away from the one shortcut -/
theorem dispatchCode_eq_dispatch (cfg : RouterCfg) (c : Call)
    (h : c.oc ≠ .clearState ∨ ∀ m ∈ cfg.methods, m.config.isAllAll = false) :
    dispatchCode cfg c = dispatch cfg c := by
  unfold dispatchCode dispatch
  cases hargs : c.appArgs with
  | nil =>
    simp only [ocaDecision]
    cases cfg.bare.get c.oc with
    | mk act cc => cases act <;> rfl
  | cons a rest =>
    simp only
    cases hf : findMethod a cfg.methods 0 with
    | none => rfl
    | some km =>
      obtain ⟨k, m⟩ := km
      have hm : m ∈ cfg.methods := List.mem_of_getElem? (findMethod_mem _ _ _ _ _ hf).2.1
      simp only
      rw [allowsCode_eq]
      rcases h with h | h
      · exact .inl h
      · exact .inr (h m hm)

/-
  THE PROPERTY AS STATED (for every call, OnCompletion 0..5):

      theorem router_dispatch (cfg : RouterCfg) (c : Call) (hw : WellFormed cfg) :
          modelDecision cfg c = .ok (dispatch cfg c)

  is FALSE of the unchanged code: `MethodConfig.approval_cond` returns the constant 1 when all
  five CallConfigs are ALL, `to_cond_node` then emits no Assert at all, so the approval program
  runs the handler under `OnCompletion = ClearState` too, which no MethodConfig can allow
  (see `router_dispatch_counterexample`).  Proved instead: the statement for every call whose
  OnCompletion is not ClearState, and for ClearState whenever no method is all-ALL.
-/
theorem router_dispatch_partial (cfg : RouterCfg) (c : Call) (hw : WellFormed cfg)
    (h : c.oc ≠ .clearState ∨ ∀ m ∈ cfg.methods, m.config.isAllAll = false) :
    modelDecision cfg c = .ok (dispatch cfg c) := by
  rw [router_dispatch_code cfg c hw, dispatchCode_eq_dispatch cfg c h]

/-- … and the partial theorem is tight: on an accepted router the model (= the generated code)
    departs from the spec exactly for `OnCompletion = ClearState` calls whose first argument is
    the selector of a method registered with all five CallConfigs ALL. -/
theorem router_dispatch_fails_iff (cfg : RouterCfg) (c : Call) (hw : WellFormed cfg) :
    modelDecision cfg c ≠ .ok (dispatch cfg c) ↔
      c.oc = .clearState ∧ ∃ a rest k m, c.appArgs = a :: rest ∧
        findMethod a cfg.methods 0 = some (k, m) ∧ m.config.isAllAll = true := by
  rw [router_dispatch_code cfg c hw]
  simp only [ne_eq, Except.ok.injEq]
  constructor
  · intro hne
    by_cases hoc : c.oc = .clearState
    · refine ⟨hoc, ?_⟩
      cases hargs : c.appArgs with
      | nil =>
        exfalso; apply hne
        simp only [dispatchCode, dispatch, hargs, ocaDecision]
        cases cfg.bare.get c.oc with
        | mk act cc => cases act <;> rfl
      | cons a rest =>
        cases hf : findMethod a cfg.methods 0 with
        | none => exfalso; apply hne; simp [dispatchCode, dispatch, hargs, hf]
        | some km =>
          obtain ⟨k, m⟩ := km
          by_cases ha : m.config.isAllAll = true
          · exact ⟨a, rest, k, m, rfl, hf, ha⟩
          · exfalso; apply hne
            simp [dispatchCode, dispatch, hargs, hf, allowsCode, ha]
    · exact absurd (dispatchCode_eq_dispatch cfg c (.inl hoc)) hne
  · rintro ⟨hoc, a, rest, k, m, hargs, hf, ha⟩
    simp [dispatchCode, dispatch, hargs, hf, allowsCode, ha, hoc, MethodConfig.get, CallConfig.allows]

def cexCfg : RouterCfg :=
  { methods := [⟨[0x6d], [1, 2, 3, 4], ⟨.all, .all, .all, .all, .all⟩⟩], bare := .empty, clear := none }
def cexCall : Call := ⟨[[1, 2, 3, 4]], .clearState, 7⟩

theorem router_dispatch_counterexample :
    modelDecision cexCfg cexCall = .ok (.run (.method 0)) ∧ dispatch cexCfg cexCall = .reject := by
  constructor <;> decide

/-- the clear-state program runs exactly the given clear action, and rejects when none was given -/
theorem clear_runs_given_action (cfg : RouterCfg) (c : Call) (hw : WellFormed cfg) :
    ∃ o, modelClear cfg c = .ok o ∧ o.toDecision = clearDispatch cfg ∧
      (cfg.clear = none → o = .returned0) ∧ (∀ k, cfg.clear = some k → o = .ran (.clear k)) := by
  obtain ⟨r, hr⟩ := addAll_ok cfg.methods (Router.new cfg.bare cfg.clear) hw.notNever
    (by simpa [Router.new] using hw.selNodup) (by simpa [Router.new] using hw.sigNodup)
  obtain ⟨ap, cl, h, _, h2⟩ := compile_spec cfg hw
  have hcl : cl = (Router.new cfg.bare cfg.clear).clearState := by
    have a4 := (addAll_spec _ _ _ hr).2.2.2.1
    simp only [compile, hr, Router.buildProgram] at h
    split at h
    · cases h
    · split at h
      · cases h
      · simp only [Except.ok.injEq, Prod.mk.injEq] at h
        rw [← h.2, a4]
  refine ⟨cl.eval c, by simp [modelClear, h], h2 c, ?_, ?_⟩
  · intro hn; simp [hcl, Router.new, hn, Prog.eval]
  · intro k hk; simp [hcl, Router.new, hk, Prog.eval, Body.eval]

/-! ### "H, and only H, exactly when …": the relational reading of the spec -/

theorem dispatch_method_iff (cfg : RouterCfg) (c : Call) (k : Nat)
    (hnd : (cfg.methods.map (·.selector)).Nodup) :
    dispatch cfg c = .run (.method k) ↔ MatchesMethod cfg c k := by
  unfold dispatch MatchesMethod
  constructor
  · intro h
    cases hargs : c.appArgs with
    | nil =>
      rw [hargs] at h; simp only at h
      split at h
      · split at h <;> simp at h
      · cases h
    | cons a rest =>
      rw [hargs] at h; simp only at h
      split at h
      · rename_i k' m hf
        split at h
        · rename_i hal
          simp only [Decision.run.injEq, Action.method.injEq] at h
          subst h
          obtain ⟨_, h2, h3⟩ := findMethod_mem _ _ _ _ _ hf
          exact ⟨m, by simpa using h2, by simp [h3], hal⟩
        · cases h
      · cases h
  · rintro ⟨m, h1, h2, h3⟩
    cases hargs : c.appArgs with
    | nil => simp [hargs] at h2
    | cons a rest =>
      simp [hargs] at h2
      subst h2
      have := findMethod_of_nodup cfg.methods 0 k m hnd h1
      simp [this, h3]

theorem dispatch_bare_iff (cfg : RouterCfg) (c : Call) (k : Nat) :
    dispatch cfg c = .run (.bare k) ↔ MatchesBare cfg c k := by
  unfold dispatch MatchesBare
  cases hargs : c.appArgs with
  | nil =>
    simp only
    cases hg : cfg.bare.get c.oc with
    | mk act cc =>
      cases act with
      | none => simp
      | some j =>
        by_cases hal : cc.allows c.isCreate = true
        · simp [hal]
        · simp [hal]
  | cons a rest =>
    simp only
    constructor
    · intro h
      split at h
      · split at h <;> simp at h
      · cases h
    · simp

theorem dispatch_reject_iff (cfg : RouterCfg) (c : Call)
    (hnd : (cfg.methods.map (·.selector)).Nodup) :
    dispatch cfg c = .reject ↔ (∀ k, ¬ MatchesMethod cfg c k) ∧ (∀ k, ¬ MatchesBare cfg c k) := by
  constructor
  · intro h
    constructor
    · intro k hk
      rw [(dispatch_method_iff cfg c k hnd).mpr hk] at h
      cases h
    · intro k hk
      rw [(dispatch_bare_iff cfg c k).mpr hk] at h
      cases h
  · rintro ⟨h1, h2⟩
    cases hd : dispatch cfg c with
    | reject => rfl
    | run a =>
      cases a with
      | method k => exact absurd ((dispatch_method_iff cfg c k hnd).mp hd) (h1 k)
      | bare k => exact absurd ((dispatch_bare_iff cfg c k).mp hd) (h2 k)
      | clear k =>
        exfalso
        unfold dispatch at hd
        split at hd
        · split at hd
          · split at hd <;> simp at hd
          · cases hd
        · split at hd
          · split at hd <;> simp at hd
          · cases hd

/-- handler H runs exactly when the call matches H's registration … -/
theorem runs_method_iff (cfg : RouterCfg) (c : Call) (k : Nat) (hw : WellFormed cfg)
    (h : c.oc ≠ .clearState ∨ ∀ m ∈ cfg.methods, m.config.isAllAll = false) :
    modelDecision cfg c = .ok (.run (.method k)) ↔ MatchesMethod cfg c k := by
  rw [router_dispatch_partial cfg c hw h, ← dispatch_method_iff cfg c k hw.selNodup]
  simp

theorem runs_bare_iff (cfg : RouterCfg) (c : Call) (k : Nat) (hw : WellFormed cfg)
    (h : c.oc ≠ .clearState ∨ ∀ m ∈ cfg.methods, m.config.isAllAll = false) :
    modelDecision cfg c = .ok (.run (.bare k)) ↔ MatchesBare cfg c k := by
  rw [router_dispatch_partial cfg c hw h, ← dispatch_bare_iff cfg c k]
  simp

/-- … and every other combination is rejected. -/
theorem rejects_iff (cfg : RouterCfg) (c : Call) (hw : WellFormed cfg)
    (h : c.oc ≠ .clearState ∨ ∀ m ∈ cfg.methods, m.config.isAllAll = false) :
    modelDecision cfg c = .ok .reject ↔
      (∀ k, ¬ MatchesMethod cfg c k) ∧ (∀ k, ¬ MatchesBare cfg c k) := by
  rw [router_dispatch_partial cfg c hw h, ← dispatch_reject_iff cfg c hw.selNodup]
  simp

/-! ### non-vacuity -/

def exCfg : RouterCfg :=
  { methods := [⟨[0x61], [1, 2, 3, 4], ⟨.call, .never, .create, .never, .all⟩⟩,
                ⟨[0x62], [9, 9, 9, 9], ⟨.all, .all, .all, .all, .all⟩⟩],
    bare := ⟨⟨some 0, .create⟩, .never, .never, ⟨some 3, .call⟩, .never⟩,
    clear := some 5 }

example : WellFormed exCfg := (accepted_iff_wellFormed exCfg).mp ⟨_, rfl⟩
example : modelDecision exCfg ⟨[[1, 2, 3, 4], [0]], .noOp, 7⟩ = .ok (.run (.method 0)) := by decide
example : modelDecision exCfg ⟨[[1, 2, 3, 4]], .noOp, 0⟩ = .ok .reject := by decide
example : modelDecision exCfg ⟨[[9, 9, 9, 9]], .optIn, 0⟩ = .ok (.run (.method 1)) := by decide
example : modelDecision exCfg ⟨[], .noOp, 0⟩ = .ok (.run (.bare 0)) := by decide
example : modelDecision exCfg ⟨[], .updateApplication, 0⟩ = .ok .reject := by decide
example : MatchesMethod exCfg ⟨[[1, 2, 3, 4], [0]], .closeOut, 0⟩ 0 := ⟨_, rfl, rfl, rfl⟩

end PyTealV.Proofs.C08
