/-
  C11 — compilation is deterministic and independent of process history.
  Theorems about the session model `PyTealV.Models.Session` (process-global counters,
  `_current_proto`, declaration caches) and, through `Proofs/C11Rename.lean`, about the C10 model
  of `assignScratchSlotsToSubroutines`.

  PROVED AT FULL STRENGTH (all histories, failing and raising ones included — true of the code since
  commit 6bedda4 put the restore of `_frame_pointer_context` in a `finally:`):
  * `session_inv`              `currentProto = none` between top-level API calls, counters only grow
                               from 256/0, slot objects well formed
  * `decl_shape_inv`           cached declarations depend only on their definition
  * `compile_history_independent`  what a target that shares no object with earlier activity compiles
                               to is the same after any two histories (model tie-break)
  * `compile_rel_order_only`   the compile result depends only on the relative order of the
                               program's own slot ids and subroutine ids
  * `compile_tiebreak_irrelevant` with pairwise different ids, every sort-by-id gives that result
  * `compile_idempotent`       compiling the same objects again gives the same result

  STILL PARTIAL (the statement about the code, for EVERY order in which CPython may iterate the
  set `allSlots`, kept visible above `compile_history_independent_anysort_partial`):
  * `compile_history_independent_anysort_partial`  history- AND tie-break-independence for targets
                               none of whose compilations has colliding slot ids
  * `router_recompile_counterexample`  (`decide`) why the restriction is needed:
    `Router._cleaning_context` rewinds `ScratchSlot.nextSlotId` while the method declarations cached
    by the first `compile_program` keep their slot objects; the second build creates new slot
    objects with the SAME ids, `sorted(allSlots, key=id)` has ties, and two valid sorts give
    different numberings.  Replayed on the real code by harness/props/c11.py (known finding
    `C11-router-recompile-slot-id-collision`).

  REGRESSION WITNESS
  * `session_counterexample_old`  on `evaluateOld` (the code before 6bedda4: no try/finally) a raising
    frame-pointer evaluation left the marker set and the next unrelated `abi.Uint64()` became frame
    variable 0; `session_counterexample_fixed` computes the same history on the present model.
-/
import PyTealV.Models.Session
import PyTealV.Proofs.C10
import PyTealV.Proofs.C11Rename
namespace PyTealV.Proofs.C11
open PyTealV.Models.Slots
open PyTealV.Models.Session
open PyTealV.Proofs.C10
open PyTealV.Proofs.C11Rename

/-- an API operation of the session model (`Slots.Op` is a TEAL op of the C10 model) -/
abbrev SOp := PyTealV.Models.Session.Op

/-! ## The compile result only sees relative order -/

def mapStorage (g : Slot → Slot) : Storage → Storage
  | .frame o i => .frame o i
  | .scratch s => .scratch (g s)

def mapDecl (g : Slot → Slot) (d : Decl) : Decl := ⟨d.slots.map g, d.abiAlloc.map (mapStorage g)⟩

/-- rename the slot objects by `g` and the subroutine ids by `h` -/
def mapSubs (g : Slot → Slot) (h : Nat → Nat) (subs : List (Nat × Decl)) : List (Nat × Decl) :=
  subs.map (fun e => (h e.1, mapDecl g e.2))

/-- every slot object a program references -/
def progSlots (mainSlots : List Slot) (mainAbis : List Storage) (subs : List (Nat × Decl)) : List Slot :=
  mainSlots ++ storageSlots mainAbis ++ subs.flatMap (fun e => e.2.slots)

/-- `h` preserves and reflects the order of subroutine ids -/
def OrderEmb (h : Nat → Nat) : Prop := ∀ a b, a ≤ b ↔ h a ≤ h b

theorem OrderEmb.inj {h : Nat → Nat} (hh : OrderEmb h) {a b : Nat} (e : h a = h b) : a = b :=
  Nat.le_antisymm ((hh a b).2 (by omega)) ((hh b a).2 (by omega))

section RelOrder
variable {g : Slot → Slot} {h : Nat → Nat}

theorem storageSlots_map (l : List Storage) : storageSlots (l.map (mapStorage g)) = (storageSlots l).map g := by
  induction l with
  | nil => rfl
  | cons a l ih =>
    cases a with
    | frame o i => simpa [storageSlots, mapStorage] using ih
    | scratch s => simpa [storageSlots, mapStorage] using ih

theorem useOps_map (l : List Slot) : useOps (l.map g) = (useOps l).map (mapOp g) := by
  induction l with
  | nil => rfl
  | cons a l ih =>
    simp only [useOps, List.map_cons, List.flatMap_cons, List.map_append] at ih ⊢
    rw [ih]
    rfl

theorem routines_map (i : Nat) (l : List Decl) :
    routines i (l.map (mapDecl g)) = mapProgram g (routines i l) := by
  induction l generalizing i with
  | nil => rfl
  | cons d l ih =>
    simp only [List.map_cons, routines, mapProgram, ih, mapDecl, useOps_map]

theorem insertByKey_map (hh : OrderEmb h) (x : Nat × Decl) (l : List (Nat × Decl)) :
    insertByKey (h x.1, mapDecl g x.2) (mapSubs g h l) = mapSubs g h (insertByKey x l) := by
  induction l with
  | nil => rfl
  | cons y l ih =>
    simp only [mapSubs, List.map_cons, insertByKey] at ih ⊢
    by_cases hle : x.1 ≤ y.1
    · rw [if_pos hle, if_pos ((hh _ _).1 hle)]; rfl
    · rw [if_neg hle, if_neg (fun h' => hle ((hh _ _).2 h')), ih]; rfl

theorem sortByKey_map (hh : OrderEmb h) (l : List (Nat × Decl)) :
    sortByKey (mapSubs g h l) = mapSubs g h (sortByKey l) := by
  induction l with
  | nil => rfl
  | cons x l ih =>
    show insertByKey (h x.1, mapDecl g x.2) (sortByKey (mapSubs g h l)) = _
    rw [ih, insertByKey_map hh]
    rfl

theorem rank_map (hh : OrderEmb h) (k : Nat) (l : List (Nat × Decl)) :
    rank (h k) (mapSubs g h l) = rank k l := by
  induction l with
  | nil => rfl
  | cons y l ih =>
    simp only [mapSubs, List.map_cons, rank] at ih ⊢
    by_cases e : y.1 = k
    · simp [e]
    · have : h y.1 ≠ h k := fun e' => e (hh.inj e')
      simp [e, this, ih]

theorem insertByKey_perm {α} (x : Nat × α) (l : List (Nat × α)) : (insertByKey x l).Perm (x :: l) := by
  induction l with
  | nil => exact List.Perm.refl _
  | cons y l ih =>
    simp only [insertByKey]
    split
    · exact List.Perm.refl _
    · exact (List.Perm.cons y ih).trans (List.Perm.swap x y l)

theorem sortByKey_perm {α} (l : List (Nat × α)) : (sortByKey l).Perm l := by
  induction l with
  | nil => exact List.Perm.refl _
  | cons x l ih => exact (insertByKey_perm x _).trans (List.Perm.cons x ih)

theorem uses_useOps {l : List Slot} {s : Slot} (hu : Uses (useOps l) s) : s ∈ l := by
  obtain ⟨op, hop, harg⟩ := hu
  simp only [useOps, List.mem_flatMap] at hop
  obtain ⟨t, ht, hop⟩ := hop
  simp only [List.mem_cons, List.mem_nil_iff, or_false] at hop
  rcases hop with rfl | rfl <;> simp at harg <;> exact harg ▸ ht

theorem referenced_routines {i : Nat} {l : List Decl} {s : Slot}
    (hr : ∃ r ∈ routines i l, Uses r.2 s) : ∃ d ∈ l, s ∈ d.slots := by
  induction l generalizing i with
  | nil => obtain ⟨r, hr, _⟩ := hr; cases hr
  | cons d l ih =>
    obtain ⟨r, hr, hu⟩ := hr
    simp only [routines, List.mem_cons] at hr
    rcases hr with rfl | hr
    · exact ⟨d, List.mem_cons_self, uses_useOps hu⟩
    · obtain ⟨d', hd', hs⟩ := ih ⟨r, hr, hu⟩
      exact ⟨d', List.mem_cons_of_mem _ hd', hs⟩

/-- the slot objects the C10 model sees are slot objects of the program -/
theorem allSlots_sub_progSlots (mainSlots : List Slot) (mainAbis : List Storage) (subs : List (Nat × Decl))
    {s : Slot}
    (hs : s ∈ allSlots (slotProgram (mainSlots ++ storageSlots mainAbis) ((sortByKey subs).map (·.2)))) :
    s ∈ progSlots mainSlots mainAbis subs := by
  obtain ⟨r, hr, hu⟩ := mem_allSlots.1 hs
  simp only [slotProgram, List.mem_cons] at hr
  simp only [progSlots, List.mem_append, List.mem_flatMap]
  rcases hr with rfl | hr
  · have := uses_useOps hu
    simp only [List.mem_append] at this
    exact Or.inl this
  · obtain ⟨d, hd, hsd⟩ := referenced_routines ⟨r, hr, hu⟩
    obtain ⟨e, he, rfl⟩ := List.mem_map.1 hd
    exact Or.inr ⟨e, (sortByKey_perm subs).mem_iff.1 he, hsd⟩

theorem nodup_ids_map {l : List Slot}
    (hm : ∀ a ∈ l, ∀ b ∈ l, (a.id ≤ b.id ↔ (g a).id ≤ (g b).id)) :
    ((l.map g).map (·.id)).Nodup ↔ (l.map (·.id)).Nodup := by
  simp only [List.Nodup, List.pairwise_map]
  constructor <;> intro hp <;> refine hp.imp_of_mem ?_
  · intro a b ha hb hne e
    apply hne
    have h1 := (hm a ha b hb).1 (by omega)
    have h2 := (hm b hb a ha).1 (by omega)
    omega
  · intro a b ha hb hne e
    apply hne
    have h1 := (hm a ha b hb).2 (by omega)
    have h2 := (hm b hb a ha).2 (by omega)
    omega

theorem storageLoc_map (hg : Function.Injective g) (r : Result) (a : Storage) :
    storageLoc (mapResult g r) (mapStorage g a) = storageLoc r a := by
  cases a with
  | frame o i => rfl
  | scratch s => simp [storageLoc, mapStorage, number_mapResult hg]

/-- **`compile_rel_order_only`**: renaming the program's own slot objects by an order isomorphism
    of their ids (requested ids kept) and its subroutine ids by an order embedding does not change
    the compile result: slot numbering, label order and compile order use only relative id order. -/
theorem compile_rel_order_only (mainSlots : List Slot) (mainAbis : List Storage) (subs : List (Nat × Decl))
    (hg : OrderIso g (progSlots mainSlots mainAbis subs)) (hh : OrderEmb h) :
    compileObjs (mainSlots.map g) (mainAbis.map (mapStorage g)) (mapSubs g h subs) =
      compileObjs mainSlots mainAbis subs := by
  have hprog : slotProgram (mainSlots.map g ++ storageSlots (mainAbis.map (mapStorage g)))
        ((sortByKey (mapSubs g h subs)).map (·.2)) =
      mapProgram g (slotProgram (mainSlots ++ storageSlots mainAbis) ((sortByKey subs).map (·.2))) := by
    rw [sortByKey_map hh, storageSlots_map, ← List.map_append]
    have : (mapSubs g h (sortByKey subs)).map (·.2) = ((sortByKey subs).map (·.2)).map (mapDecl g) := by
      simp [mapSubs, Function.comp_def]
    rw [this]
    simp only [slotProgram, mapProgram, List.map_cons, useOps_map]
    rw [routines_map]
    rfl
  have hiso : OrderIso g (allSlots (slotProgram (mainSlots ++ storageSlots mainAbis) ((sortByKey subs).map (·.2)))) :=
    ⟨hg.inj, hg.reserved, hg.rid, fun a ha b hb =>
      hg.mono a (allSlots_sub_progSlots _ _ _ ha) b (allSlots_sub_progSlots _ _ _ hb)⟩
  unfold compileObjs compileObjsWith
  simp only [hprog]
  have hren := assignSlots_rename _ hiso
  unfold assignSlots at hren
  rw [hren]
  cases hres : assignWith sortById (slotProgram (mainSlots ++ storageSlots mainAbis) ((sortByKey subs).map (·.2))) with
  | error e => rfl
  | ok r =>
    simp only [Except.map]
    congr 1
    have hnum : ∀ l : List Slot, (l.map g).map (mapResult g r).number = l.map r.number := by
      intro l; simp [number_mapResult hg.inj, Function.comp_def]
    have hloc : ∀ l : List Storage, (l.map (mapStorage g)).map (storageLoc (mapResult g r)) = l.map (storageLoc r) := by
      intro l
      rw [List.map_map]
      exact List.map_congr_left (fun a _ => storageLoc_map hg.inj r a)
    simp only [hnum, hloc, CompileResult.mk.injEq, true_and]
    refine ⟨?_, ?_, ?_, ?_⟩
    · simp only [mapSubs, List.map_map, Function.comp_def]
      apply List.map_congr_left
      intro e _
      have := sortByKey_map (g := g) hh subs
      simp only [mapSubs] at this
      rw [this]
      exact rank_map hh e.1 _
    · simp only [mapSubs, List.map_map, Function.comp_def, mapDecl, hnum]
    · simp only [mapSubs, List.map_map, Function.comp_def, mapDecl, hloc]
    · rw [allSlots_map hg.inj]
      congr 1
      rw [decide_eq_decide]
      exact nodup_ids_map hiso.mono

end RelOrder

/-! ## Distinct ids: CPython's set order cannot show -/

/-- no two slot objects the program references carry the same id -/
def NoTie (mainSlots : List Slot) (mainAbis : List Storage) (subs : List (Nat × Decl)) : Prop :=
  ((allSlots (slotProgram (mainSlots ++ storageSlots mainAbis) ((sortByKey subs).map (·.2)))).map (·.id)).Nodup

/-- **`compile_tiebreak_irrelevant`**: when the referenced slot objects have pairwise different ids,
    EVERY function that sorts by id (whatever order it breaks ties in, i.e. whatever order CPython
    iterates the set `allSlots` in) yields the result of the model's stable sort. -/
theorem compile_tiebreak_irrelevant {sortf : List Slot → List Slot} (hs : IsSortById sortf)
    (mainSlots : List Slot) (mainAbis : List Storage) (subs : List (Nat × Decl))
    (hn : NoTie mainSlots mainAbis subs) :
    compileObjsWith sortf mainSlots mainAbis subs = compileObjs mainSlots mainAbis subs := by
  unfold compileObjs compileObjsWith
  simp only [assignWith_tiebreak_irrelevant hs _ hn, assignSlots]

/-- the `tie` flag of a result says exactly whether ids collide -/
theorem tie_flag_spec {mainSlots : List Slot} {mainAbis : List Storage} {subs : List (Nat × Decl)}
    {r : CompileResult} (h : compileObjs mainSlots mainAbis subs = .ok r) :
    r.tie = false ↔ NoTie mainSlots mainAbis subs := by
  unfold compileObjs compileObjsWith at h
  simp only at h
  split at h
  · cases h
  · cases h
    simp [NoTie]

/-! ## Invariants of the session state -/

/-- requested ids are below 256, automatic ids are not (scratch.py:18, 36) -/
def WFSlot (x : Slot) : Prop := (x.reserved = true → x.id < NUM_SLOTS) ∧ (x.reserved = false → NUM_SLOTS ≤ x.id)

def optSlots : Option Decl → List Slot
  | some c => c.slots
  | none => []

/-- the slot objects an object of the environment holds (and a compilation can reference) -/
def objSlots : Obj → List Slot
  | .slot x => [x]
  | .abi a => storageSlots [a]
  | .sub d => optSlots d.scratchDecl ++ optSlots d.fpDecl
  | .router _ => []

def kindOf : Storage → Option Nat
  | .frame _ i => some i
  | .scratch _ => none

def kindOfAlloc : VarAlloc → Option Nat
  | .frame i => some i
  | .scratch => none

/-- where the ABI values of a body live, as a function of the definition and the convention only:
    `alloc_abstract_var` (the C10 model `Slots.allocMany`) started on a NEW proto -/
def expectedAbis (info : DefInfo) (fl : Flavour) : List (Option Nat) :=
  (allocMany info.abis ((entryProto 0 info fl).map (·.locals))).map kindOfAlloc

def expectedSlots (info : DefInfo) (fl : Flavour) : Nat :=
  preSlots info fl + info.vars + ((expectedAbis info fl).filter (fun k => k.isNone)).length

/-- a declaration has the shape its definition prescribes -/
structure ShapeOK (c : Decl) (info : DefInfo) (fl : Flavour) : Prop where
  abis : c.abiAlloc.map kindOf = expectedAbis info fl
  slots : c.slots.length = expectedSlots info fl

/-- both cached declarations of a definition depend only on the definition -/
def DefOK (d : DefState) : Prop := ∀ fl c, d.decl fl = some c → ShapeOK c d.info fl

structure ObjOK (o : Obj) : Prop where
  wf : ∀ x ∈ objSlots o, WFSlot x
  shape : ∀ d, o = .sub d → DefOK d

/-- what holds of the environment after EVERY history -/
structure EnvInv (s : State) : Prop where
  next : NUM_SLOTS ≤ s.nextSlotId
  objs : ∀ e ∈ s.env, ObjOK e.2

/-- the state-threading helpers do not touch the environment and never lower the slot counter -/
structure Frame (s s' : State) : Prop where
  env : s'.env = s.env
  slot : s.nextSlotId ≤ s'.nextSlotId

theorem Frame.refl (s : State) : Frame s s := ⟨rfl, Nat.le_refl _⟩
theorem Frame.trans {a b c : State} (h1 : Frame a b) (h2 : Frame b c) : Frame a c :=
  ⟨h2.env.trans h1.env, Nat.le_trans h1.slot h2.slot⟩

theorem allocSlot_frame (s : State) : Frame s (allocSlot s).2 := ⟨rfl, Nat.le_succ _⟩

theorem allocSlot_wf (s : State) (h : NUM_SLOTS ≤ s.nextSlotId) : WFSlot (allocSlot s).1 :=
  ⟨fun hr => by simp [allocSlot] at hr, fun _ => h⟩

@[simp] theorem allocSlot_proto (s : State) : (allocSlot s).2.currentProto = s.currentProto := rfl

theorem allocSlots_frame (n : Nat) (s : State) : Frame s (allocSlots n s).2 := by
  induction n generalizing s with
  | zero => exact Frame.refl s
  | succ n ih => exact (allocSlot_frame s).trans (ih _)

@[simp] theorem allocSlots_proto (n : Nat) (s : State) : (allocSlots n s).2.currentProto = s.currentProto := by
  induction n generalizing s with
  | zero => rfl
  | succ n ih => simp [allocSlots, ih]

@[simp] theorem allocSlots_length (n : Nat) (s : State) : (allocSlots n s).1.length = n := by
  induction n generalizing s with
  | zero => rfl
  | succ n ih => simp [allocSlots, ih]

theorem allocSlots_wf (n : Nat) (s : State) (h : NUM_SLOTS ≤ s.nextSlotId) : ∀ x ∈ (allocSlots n s).1, WFSlot x := by
  induction n generalizing s with
  | zero => intro x hx; cases hx
  | succ n ih =>
    intro x hx
    simp only [allocSlots, List.mem_cons] at hx
    rcases hx with rfl | hx
    · exact allocSlot_wf s h
    · exact ih _ (Nat.le_trans h (allocSlot_frame s).slot) x hx

theorem allocAbi_frame (s : State) : Frame s (allocAbi s).2 := by
  unfold allocAbi
  split
  · split
    · exact ⟨rfl, Nat.le_refl _⟩
    · exact allocSlot_frame s
  · exact allocSlot_frame s

theorem allocAbi_protoNone (s : State) (h : s.currentProto = none) : (allocAbi s).2.currentProto = none := by
  simp [allocAbi, h]

theorem allocAbi_wf (s : State) (h : NUM_SLOTS ≤ s.nextSlotId) : ∀ x ∈ storageSlots [(allocAbi s).1], WFSlot x := by
  unfold allocAbi
  split
  · split
    · intro x hx; simp [storageSlots] at hx
    · intro x hx
      simp only [storageSlots, List.filterMap_cons, List.filterMap_nil, List.mem_singleton] at hx
      exact hx ▸ allocSlot_wf s h
  · intro x hx
    simp only [storageSlots, List.filterMap_cons, List.filterMap_nil, List.mem_singleton] at hx
    exact hx ▸ allocSlot_wf s h

/-- `alloc_abstract_var` of the session agrees with the C10 model `Slots.allocAbstractVar` -/
theorem allocAbi_agrees (s : State) :
    kindOf (allocAbi s).1 = kindOfAlloc (allocAbstractVar (s.currentProto.map (·.locals))).1 ∧
      (allocAbi s).2.currentProto.map (·.locals) = (allocAbstractVar (s.currentProto.map (·.locals))).2 := by
  unfold allocAbi allocAbstractVar
  cases hp : s.currentProto with
  | none => simp [kindOf, kindOfAlloc, allocSlot, hp]
  | some p =>
    simp only [Option.map_some]
    split <;> simp [kindOf, kindOfAlloc, allocSlot, hp]

theorem allocAbis_frame (n : Nat) (s : State) : Frame s (allocAbis n s).2 := by
  induction n generalizing s with
  | zero => exact Frame.refl s
  | succ n ih => exact (allocAbi_frame s).trans (ih _)

theorem allocAbis_protoNone (n : Nat) (s : State) (h : s.currentProto = none) :
    (allocAbis n s).2.currentProto = none := by
  induction n generalizing s with
  | zero => exact h
  | succ n ih => exact ih _ (allocAbi_protoNone s h)

theorem storageSlots_cons (a : Storage) (l : List Storage) :
    storageSlots (a :: l) = storageSlots [a] ++ storageSlots l := by
  cases a <;> simp [storageSlots]

theorem allocAbis_wf (n : Nat) (s : State) (h : NUM_SLOTS ≤ s.nextSlotId) :
    ∀ x ∈ storageSlots (allocAbis n s).1, WFSlot x := by
  induction n generalizing s with
  | zero => intro x hx; simp [allocAbis, storageSlots] at hx
  | succ n ih =>
    intro x hx
    simp only [allocAbis] at hx
    rw [storageSlots_cons, List.mem_append] at hx
    rcases hx with hx | hx
    · exact allocAbi_wf s h x hx
    · exact ih _ (Nat.le_trans h (allocAbi_frame s).slot) x hx

theorem allocAbis_kinds (n : Nat) (s : State) :
    (allocAbis n s).1.map kindOf = (allocMany n (s.currentProto.map (·.locals))).map kindOfAlloc := by
  induction n generalizing s with
  | zero => rfl
  | succ n ih =>
    have h := allocAbi_agrees s
    simp only [allocAbis, allocMany, List.map_cons, ih, h.1, h.2]

theorem storageSlots_length (l : List Storage) :
    (storageSlots l).length = ((l.map kindOf).filter (fun k => k.isNone)).length := by
  induction l with
  | nil => rfl
  | cons a l ih =>
    cases a with
    | frame o i => simpa [storageSlots, kindOf] using ih
    | scratch x => simpa [storageSlots, kindOf] using ih

/-! ### `evaluate`, `get_declaration_by_option`, `__probe_info` -/

/-- the stages of `SubroutineEval.evaluate` -/
def evPre (s : State) (info : DefInfo) (fl : Flavour) : List Slot × State := allocSlots (preSlots info fl) s
def evEntry (s : State) (d : Name) (info : DefInfo) (fl : Flavour) : State :=
  { (evPre s info fl).2 with currentProto := entryProto d info fl }
def evVars (s : State) (d : Name) (info : DefInfo) (fl : Flavour) : List Slot × State :=
  allocSlots info.vars (evEntry s d info fl)
def evAbis (s : State) (d : Name) (info : DefInfo) (fl : Flavour) : List Storage × State :=
  allocAbis info.abis (evVars s d info fl).2

theorem evaluate_raise (s : State) (d : Name) (info : DefInfo) (fl : Flavour) (h : info.raises fl = true) :
    evaluate s d info fl =
      (none, { (evAbis s d info fl).2 with currentProto := (evPre s info fl).2.currentProto }) := by
  simp only [evaluate, h, if_true]
  rfl

theorem evaluate_ok (s : State) (d : Name) (info : DefInfo) (fl : Flavour) (h : info.raises fl = false) :
    evaluate s d info fl =
      (some ⟨(evPre s info fl).1 ++ (evVars s d info fl).1 ++ storageSlots (evAbis s d info fl).1, (evAbis s d info fl).1⟩,
       { (evAbis s d info fl).2 with currentProto := (evPre s info fl).2.currentProto }) := by
  simp only [evaluate, h]
  rfl

theorem evAbis_frame (s : State) (d : Name) (info : DefInfo) (fl : Flavour) : Frame s (evAbis s d info fl).2 := by
  have f1 : Frame s (evEntry s d info fl) := ⟨(allocSlots_frame _ s).env, (allocSlots_frame _ s).slot⟩
  exact (f1.trans (allocSlots_frame _ _)).trans (allocAbis_frame _ _)

theorem evaluate_frame (s : State) (d : Name) (info : DefInfo) (fl : Flavour) : Frame s (evaluate s d info fl).2 := by
  have f := evAbis_frame s d info fl
  cases h : info.raises fl with
  | true => rw [evaluate_raise s d info fl h]; exact ⟨f.env, f.slot⟩
  | false => rw [evaluate_ok s d info fl h]; exact ⟨f.env, f.slot⟩

/-- **the marker is restored by every evaluation**, raising or not (`try/finally` in
    `_frame_pointer_context`) -/
theorem evaluate_proto (s : State) (d : Name) (info : DefInfo) (fl : Flavour) :
    (evaluate s d info fl).2.currentProto = s.currentProto := by
  cases h : info.raises fl with
  | true => rw [evaluate_raise s d info fl h]; simp [evPre]
  | false => rw [evaluate_ok s d info fl h]; simp [evPre]

/-- the declaration an evaluation returns: well-formed slot objects, and a shape that depends on
    the definition and the convention only — whatever `currentProto` was before -/
theorem evaluate_some (s : State) (d : Name) (info : DefInfo) (fl : Flavour) (c : Decl)
    (h : (evaluate s d info fl).1 = some c) :
    ShapeOK c info fl ∧ (NUM_SLOTS ≤ s.nextSlotId → ∀ x ∈ c.slots, WFSlot x) ∧
      (evaluate s d info fl).2.currentProto = s.currentProto := by
  cases hr : info.raises fl with
  | true => rw [evaluate_raise s d info fl hr] at h; cases h
  | false =>
    rw [evaluate_ok s d info fl hr] at h ⊢
    simp only [Option.some.injEq] at h
    subst h
    have hproto : (evVars s d info fl).2.currentProto = entryProto d info fl := by
      simp [evVars, evEntry]
    have hk : (evAbis s d info fl).1.map kindOf = expectedAbis info fl := by
      simp only [evAbis, allocAbis_kinds, hproto, expectedAbis]
      cases fl <;> rfl
    refine ⟨⟨hk, ?_⟩, ?_, ?_⟩
    · show ((evPre s info fl).1 ++ (evVars s d info fl).1 ++ storageSlots (evAbis s d info fl).1).length = _
      rw [List.length_append, List.length_append, storageSlots_length, hk]
      simp [evPre, evVars, expectedSlots]
    · intro hn x hx
      have f1 : Frame s (evEntry s d info fl) := ⟨(allocSlots_frame _ s).env, (allocSlots_frame _ s).slot⟩
      simp only [List.mem_append] at hx
      rcases hx with (hx | hx) | hx
      · exact allocSlots_wf _ _ hn x hx
      · exact allocSlots_wf _ _ (Nat.le_trans hn f1.slot) x hx
      · exact allocAbis_wf _ _ (Nat.le_trans hn (f1.trans (allocSlots_frame _ _)).slot) x hx
    · simp [evPre]

theorem DefOK_setDecl_none {ds : DefState} (h : DefOK ds) (fl : Flavour) : DefOK (ds.setDecl fl none) := by
  intro fl' c hc
  cases fl <;> cases fl' <;> simp [DefState.setDecl, DefState.decl] at hc ⊢
  all_goals first | exact h .scratch c hc | exact h .fp c hc

theorem DefOK_setDecl_some {ds : DefState} (h : DefOK ds) (fl : Flavour) (c : Decl) (hc : ShapeOK c ds.info fl) :
    DefOK (ds.setDecl fl (some c)) := by
  intro fl' c' hc'
  cases fl <;> cases fl' <;> simp [DefState.setDecl, DefState.decl] at hc' ⊢
  · exact hc' ▸ hc
  · exact h .fp c' hc'
  · exact h .scratch c' hc'
  · exact hc' ▸ hc

@[simp] theorem setDecl_info (ds : DefState) (fl : Flavour) (c : Option Decl) : (ds.setDecl fl c).info = ds.info := by
  cases fl <;> rfl

@[simp] theorem setDecl_subId (ds : DefState) (fl : Flavour) (c : Option Decl) : (ds.setDecl fl c).subId = ds.subId := by
  cases fl <;> rfl

theorem optSlots_setDecl (ds : DefState) (fl : Flavour) (c : Option Decl) {x : Slot}
    (hx : x ∈ objSlots (.sub (ds.setDecl fl c))) : x ∈ objSlots (.sub ds) ∨ x ∈ optSlots c := by
  cases fl <;> simp only [objSlots, DefState.setDecl, List.mem_append] at hx ⊢ <;> rcases hx with hx | hx <;> simp [hx]

/-- a definition object that is fit to be bound -/
def SubOK (ds : DefState) : Prop := ObjOK (.sub ds)

theorem SubOK_iff {ds : DefState} : SubOK ds ↔ (∀ x ∈ objSlots (.sub ds), WFSlot x) ∧ DefOK ds := by
  constructor
  · intro h; exact ⟨h.wf, h.shape ds rfl⟩
  · intro h; exact ⟨h.1, fun d e => by cases e; exact h.2⟩

theorem getDeclaration_cached (s : State) (d : Name) (ds : DefState) (fl : Flavour) (c : Decl)
    (h : ds.decl fl = some c) : getDeclaration s d ds fl = (some ds, s) := by
  simp [getDeclaration, h]

theorem getDeclaration_eval_some (s : State) (d : Name) (ds : DefState) (fl : Flavour) (c : Decl)
    (h : ds.decl fl = none) (he : (evaluate s d ds.info fl).1 = some c) :
    getDeclaration s d ds fl = (some (ds.setDecl fl (some c)), (evaluate s d ds.info fl).2) := by
  simp [getDeclaration, h, he]

theorem getDeclaration_eval_none (s : State) (d : Name) (ds : DefState) (fl : Flavour)
    (h : ds.decl fl = none) (he : (evaluate s d ds.info fl).1 = none) :
    getDeclaration s d ds fl = (none, (evaluate s d ds.info fl).2) := by
  simp [getDeclaration, h, he]

theorem getDeclaration_frame (s : State) (d : Name) (ds : DefState) (fl : Flavour) :
    Frame s (getDeclaration s d ds fl).2 := by
  cases hc : ds.decl fl with
  | some c => rw [getDeclaration_cached s d ds fl c hc]; exact Frame.refl s
  | none =>
    cases he : (evaluate s d ds.info fl).1 with
    | some c => rw [getDeclaration_eval_some s d ds fl c hc he]; exact evaluate_frame s d ds.info fl
    | none => rw [getDeclaration_eval_none s d ds fl hc he]; exact evaluate_frame s d ds.info fl

theorem getDeclaration_some (s : State) (d : Name) (ds ds' : DefState) (fl : Flavour)
    (hn : NUM_SLOTS ≤ s.nextSlotId) (hok : SubOK ds) (h : (getDeclaration s d ds fl).1 = some ds') :
    SubOK ds' ∧ ds'.info = ds.info ∧ ds'.subId = ds.subId ∧ (ds'.decl fl).isSome ∧
      (getDeclaration s d ds fl).2.currentProto = s.currentProto := by
  cases hc : ds.decl fl with
  | some c =>
    rw [getDeclaration_cached s d ds fl c hc] at h ⊢
    simp only [Option.some.injEq] at h
    subst h
    exact ⟨hok, rfl, rfl, by simp [hc], rfl⟩
  | none =>
    cases he : (evaluate s d ds.info fl).1 with
    | none => rw [getDeclaration_eval_none s d ds fl hc he] at h; cases h
    | some c =>
      rw [getDeclaration_eval_some s d ds fl c hc he] at h ⊢
      simp only [Option.some.injEq] at h
      subst h
      have hev := evaluate_some s d ds.info fl c he
      have hok' := SubOK_iff.1 hok
      refine ⟨SubOK_iff.2 ⟨?_, DefOK_setDecl_some hok'.2 fl c hev.1⟩, by simp, by simp, ?_, hev.2.2⟩
      · intro x hx
        rcases optSlots_setDecl ds fl (some c) hx with hx | hx
        · exact hok'.1 x hx
        · exact hev.2.1 hn x hx
      · cases fl <;> simp [DefState.setDecl, DefState.decl]

theorem getDeclaration_proto (s : State) (d : Name) (ds : DefState) (fl : Flavour) :
    (getDeclaration s d ds fl).2.currentProto = s.currentProto := by
  cases hc : ds.decl fl with
  | some c => rw [getDeclaration_cached s d ds fl c hc]
  | none =>
    cases he : (evaluate s d ds.info fl).1 with
    | some c => rw [getDeclaration_eval_some s d ds fl c hc he]; exact evaluate_proto s d ds.info fl
    | none => rw [getDeclaration_eval_none s d ds fl hc he]; exact evaluate_proto s d ds.info fl

theorem probe_some (s : State) (d : Name) (ds ds1 : DefState) (fl : Flavour)
    (h : (getDeclaration s d ds fl).1 = some ds1) :
    probe s d ds fl = (some (if (ds.decl fl).isSome then ds1 else ds1.setDecl fl none),
      { (getDeclaration s d ds fl).2 with nextSlotId := s.nextSlotId }) := by
  simp [probe, h]

theorem probe_none (s : State) (d : Name) (ds : DefState) (fl : Flavour)
    (h : (getDeclaration s d ds fl).1 = none) : probe s d ds fl = (none, (getDeclaration s d ds fl).2) := by
  simp [probe, h]

theorem probe_spec (s : State) (d : Name) (ds : DefState) (fl : Flavour) (hn : NUM_SLOTS ≤ s.nextSlotId)
    (hok : SubOK ds) :
    (probe s d ds fl).2.env = s.env ∧ NUM_SLOTS ≤ (probe s d ds fl).2.nextSlotId ∧
      ∀ ds', (probe s d ds fl).1 = some ds' →
        SubOK ds' ∧ ds'.info = ds.info ∧ (probe s d ds fl).2.currentProto = s.currentProto ∧
          (probe s d ds fl).2.nextSlotId = s.nextSlotId := by
  have f := getDeclaration_frame s d ds fl
  cases hg : (getDeclaration s d ds fl).1 with
  | none =>
    rw [probe_none s d ds fl hg]
    exact ⟨f.env, Nat.le_trans hn f.slot, fun _ h => by cases h⟩
  | some ds1 =>
    rw [probe_some s d ds ds1 fl hg]
    have hs := getDeclaration_some s d ds ds1 fl hn hok hg
    refine ⟨f.env, hn, ?_⟩
    intro ds' h
    simp only [Option.some.injEq] at h
    subst h
    refine ⟨?_, ?_, hs.2.2.2.2, rfl⟩
    · split
      · exact hs.1
      · have h1 := SubOK_iff.1 hs.1
        refine SubOK_iff.2 ⟨fun x hx => ?_, DefOK_setDecl_none h1.2 fl⟩
        rcases optSlots_setDecl ds1 fl none hx with hx | hx
        · exact h1.1 x hx
        · cases hx
    · split <;> simp [hs.2.1]

theorem probe_proto (s : State) (d : Name) (ds : DefState) (fl : Flavour) :
    (probe s d ds fl).2.currentProto = s.currentProto := by
  cases hg : (getDeclaration s d ds fl).1 with
  | none => rw [probe_none s d ds fl hg]; exact getDeclaration_proto s d ds fl
  | some ds1 => rw [probe_some s d ds ds1 fl hg]; exact getDeclaration_proto s d ds fl

theorem infoPrepare_known (s : State) (d : Name) (ds : DefState) (h : ds.infoKnown = true) :
    infoPrepare s d ds = (some ds, s) := by simp [infoPrepare, h]

theorem infoPrepare_raise1 (s : State) (d : Name) (ds : DefState) (h : ds.infoKnown = false)
    (h1 : (probe s d ds .scratch).1 = none) : infoPrepare s d ds = (none, (probe s d ds .scratch).2) := by
  simp [infoPrepare, h, h1]

theorem infoPrepare_raise2 (s : State) (d : Name) (ds ds1 : DefState) (h : ds.infoKnown = false)
    (h1 : (probe s d ds .scratch).1 = some ds1) (h2 : (probe (probe s d ds .scratch).2 d ds1 .fp).1 = none) :
    infoPrepare s d ds = (none, (probe (probe s d ds .scratch).2 d ds1 .fp).2) := by
  simp [infoPrepare, h, h1, h2]

theorem infoPrepare_ok (s : State) (d : Name) (ds ds1 ds2 : DefState) (h : ds.infoKnown = false)
    (h1 : (probe s d ds .scratch).1 = some ds1) (h2 : (probe (probe s d ds .scratch).2 d ds1 .fp).1 = some ds2) :
    infoPrepare s d ds = (some { ds2 with infoKnown := true }, (probe (probe s d ds .scratch).2 d ds1 .fp).2) := by
  simp [infoPrepare, h, h1, h2]

theorem infoPrepare_proto (s : State) (d : Name) (ds : DefState) :
    (infoPrepare s d ds).2.currentProto = s.currentProto := by
  cases hk : ds.infoKnown with
  | true => rw [infoPrepare_known s d ds hk]
  | false =>
    cases h1 : (probe s d ds .scratch).1 with
    | none => rw [infoPrepare_raise1 s d ds hk h1]; exact probe_proto s d ds .scratch
    | some ds1 =>
      cases h2 : (probe (probe s d ds .scratch).2 d ds1 .fp).1 with
      | none =>
        rw [infoPrepare_raise2 s d ds ds1 hk h1 h2]
        exact (probe_proto _ d ds1 .fp).trans (probe_proto s d ds .scratch)
      | some ds2 =>
        rw [infoPrepare_ok s d ds ds1 ds2 hk h1 h2]
        exact (probe_proto _ d ds1 .fp).trans (probe_proto s d ds .scratch)

theorem infoPrepare_spec (s : State) (d : Name) (ds : DefState) (hn : NUM_SLOTS ≤ s.nextSlotId) (hok : SubOK ds) :
    (infoPrepare s d ds).2.env = s.env ∧ NUM_SLOTS ≤ (infoPrepare s d ds).2.nextSlotId ∧
      ∀ ds', (infoPrepare s d ds).1 = some ds' →
        SubOK ds' ∧ (infoPrepare s d ds).2.currentProto = s.currentProto ∧
          (infoPrepare s d ds).2.nextSlotId = s.nextSlotId := by
  cases hk : ds.infoKnown with
  | true =>
    rw [infoPrepare_known s d ds hk]
    exact ⟨rfl, hn, fun ds' h => by cases h; exact ⟨hok, rfl, rfl⟩⟩
  | false =>
    have p1 := probe_spec s d ds .scratch hn hok
    cases h1 : (probe s d ds .scratch).1 with
    | none =>
      rw [infoPrepare_raise1 s d ds hk h1]
      exact ⟨p1.1, p1.2.1, fun _ h => by cases h⟩
    | some ds1 =>
      have q1 := p1.2.2 ds1 h1
      have p2 := probe_spec (probe s d ds .scratch).2 d ds1 .fp p1.2.1 q1.1
      cases h2 : (probe (probe s d ds .scratch).2 d ds1 .fp).1 with
      | none =>
        rw [infoPrepare_raise2 s d ds ds1 hk h1 h2]
        exact ⟨p2.1.trans p1.1, p2.2.1, fun _ h => by cases h⟩
      | some ds2 =>
        rw [infoPrepare_ok s d ds ds1 ds2 hk h1 h2]
        have q2 := p2.2.2 ds2 h2
        refine ⟨p2.1.trans p1.1, p2.2.1, ?_⟩
        intro ds' h
        simp only [Option.some.injEq] at h
        subst h
        refine ⟨?_, q2.2.2.1.trans q1.2.2.1, q2.2.2.2.trans q1.2.2.2⟩
        have h2' := SubOK_iff.1 q2.1
        exact SubOK_iff.2 ⟨h2'.1, fun fl c hc => h2'.2 fl c hc⟩

/-! ### The environment -/

theorem lookup_mem {s : State} {n : Name} {o : Obj} (h : s.lookup n = some o) : (n, o) ∈ s.env := by
  unfold State.lookup at h
  generalize s.env = env at h
  induction env with
  | nil => cases h
  | cons e env ih =>
    obtain ⟨k, v⟩ := e
    simp only [List.lookup_cons] at h
    split at h
    · rename_i hk
      simp only [Option.some.injEq] at h
      have : n = k := by simpa using hk
      subst h; subst this
      exact List.mem_cons_self
    · exact List.mem_cons_of_mem _ (ih h)

theorem EnvInv.lookup {s : State} (h : EnvInv s) {n : Name} {o : Obj} (hl : s.lookup n = some o) : ObjOK o :=
  h.objs _ (lookup_mem hl)

theorem EnvInv.of_env {s s' : State} (h : EnvInv s) (he : s'.env = s.env) (hn : NUM_SLOTS ≤ s'.nextSlotId) :
    EnvInv s' := ⟨hn, by rw [he]; exact h.objs⟩

theorem EnvInv.frame {s s' : State} (h : EnvInv s) (f : Frame s s') : EnvInv s' :=
  h.of_env f.env (Nat.le_trans h.next f.slot)

theorem EnvInv.bind {s : State} (h : EnvInv s) (n : Name) {o : Obj} (ho : ObjOK o) : EnvInv (s.bind n o) :=
  ⟨h.next, fun e he => by
    simp only [State.bind, List.mem_cons] at he
    rcases he with rfl | he
    · exact ho
    · exact h.objs e he⟩

theorem ObjOK_slot {x : Slot} (h : WFSlot x) : ObjOK (.slot x) :=
  ⟨fun y hy => by simp only [objSlots, List.mem_singleton] at hy; exact hy ▸ h, fun d e => by cases e⟩

theorem ObjOK_abi {a : Storage} (h : ∀ x ∈ storageSlots [a], WFSlot x) : ObjOK (.abi a) :=
  ⟨h, fun d e => by cases e⟩

theorem ObjOK_router (r : RouterState) : ObjOK (.router r) :=
  ⟨fun x hx => (by cases hx), fun d e => (by cases e)⟩

theorem SubOK_of_lookup {s : State} (h : EnvInv s) {n : Name} {ds : DefState} (hl : s.lookup n = some (.sub ds)) :
    SubOK ds := h.lookup hl

/-! ### Compilation and routers -/

theorem evalAll_inv (fl : Flavour) (names : List Name) (s : State) (h : EnvInv s) :
    EnvInv (evalAll fl names s).2 ∧
      (s.currentProto = none → (evalAll fl names s).2.currentProto = none) := by
  induction names generalizing s with
  | nil => exact ⟨h, fun hp => hp⟩
  | cons n rest ih =>
    simp only [evalAll]
    split
    · rename_i ds hl
      have hok := SubOK_of_lookup h hl
      have f := getDeclaration_frame s n ds fl
      cases hg : (getDeclaration s n ds fl).1 with
      | none => exact ⟨h.frame f, fun hp => (getDeclaration_proto s n ds fl).trans hp⟩
      | some ds' =>
        have hs := getDeclaration_some s n ds ds' fl h.next hok hg
        have hinv : EnvInv ((getDeclaration s n ds fl).2.bind n (.sub ds')) := (h.frame f).bind n hs.1
        have := ih _ hinv
        refine ⟨this.1, fun hp => this.2 ?_⟩
        show (getDeclaration s n ds fl).2.currentProto = none
        rw [hs.2.2.2.2]; exact hp
    · exact ⟨h, fun hp => hp⟩

theorem compileTail_fst (sortf : List Slot → List Slot) (r : Bool × State) (ms : List Slot) (ma : List Storage)
    (subs : List Name) (extra : List (Nat × Decl)) (fl : Flavour) (failsAt : Option Stage) :
    (compileTail sortf r ms ma subs extra fl failsAt).1 = r.2 := by
  unfold compileTail
  split
  · rfl
  · split
    · rfl
    · split
      · rfl
      · split <;> rfl

theorem compileTail_noBody (sortf : List Slot → List Slot) (r : Bool × State) (ms : List Slot) (ma : List Storage)
    (subs : List Name) (extra : List (Nat × Decl)) (fl : Flavour) (failsAt : Option Stage)
    (h : (compileTail sortf r ms ma subs extra fl failsAt).2 ≠ .raised .body) : r.1 = true := by
  unfold compileTail at h
  split at h
  · exact absurd rfl h
  · rename_i hb; simpa using hb

theorem compileWith_inv (sortf : List Slot → List Slot) (s : State) (ms : List Slot) (ma : List Storage)
    (subs : List Name) (extra : List (Nat × Decl)) (version : Nat) (fp : Bool) (failsAt : Option Stage)
    (inOrder : Bool) (h : EnvInv s) :
    EnvInv (compileWith sortf s ms ma subs extra version fp failsAt inOrder).1 ∧
      (s.currentProto = none →
        (compileWith sortf s ms ma subs extra version fp failsAt inOrder).1.currentProto = none) := by
  unfold compileWith
  split
  · exact ⟨h, fun hp => hp⟩
  · split
    · exact ⟨h, fun hp => hp⟩
    · split
      · exact ⟨h, fun hp => hp⟩
      · rename_i ids _
        have he := evalAll_inv (flavourOf fp) (evalOrder inOrder subs ids) s h
        rw [compileTail_fst]
        exact ⟨he.1, fun hp => he.2 hp⟩

theorem compileProg_inv (sortf : List Slot → List Slot) (s : State) (p : Prog) (version : Nat)
    (fpOpt : Option Bool) (failsAt : Option Stage) (h : EnvInv s) :
    EnvInv (compileProg sortf s p version fpOpt failsAt).1 ∧
      (s.currentProto = none → (compileProg sortf s p version fpOpt failsAt).1.currentProto = none) := by
  unfold compileProg
  split
  · exact ⟨h, fun hp => hp⟩
  · split
    · exact compileWith_inv _ _ _ _ _ _ _ _ _ _ h
    · exact ⟨h, fun hp => hp⟩

theorem storeIntoState_some (s : State) (d : Name) (ds ds' : DefState)
    (hg : (getDeclaration s d ds .scratch).1 = some ds') :
    storeIntoState s d ds = (getDeclaration s d ds .scratch).2.bind d (.sub ds') := by
  simp [storeIntoState, hg]

theorem storeIntoState_none (s : State) (d : Name) (ds : DefState)
    (hg : (getDeclaration s d ds .scratch).1 = none) :
    storeIntoState s d ds = (getDeclaration s d ds .scratch).2 := by
  simp [storeIntoState, hg]

theorem storeIntoState_inv (s : State) (d : Name) (ds : DefState) (h : EnvInv s) (hok : SubOK ds) :
    EnvInv (storeIntoState s d ds) ∧ (s.currentProto = none → (storeIntoState s d ds).currentProto = none) := by
  have f := getDeclaration_frame s d ds .scratch
  cases hg : (getDeclaration s d ds .scratch).1 with
  | none =>
    rw [storeIntoState_none s d ds hg]
    exact ⟨h.frame f, fun hp => (getDeclaration_proto s d ds .scratch).trans hp⟩
  | some ds' =>
    rw [storeIntoState_some s d ds ds' hg]
    have hs := getDeclaration_some s d ds ds' .scratch h.next hok hg
    exact ⟨(h.frame f).bind d hs.1, fun hp => by
      show (getDeclaration s d ds .scratch).2.currentProto = none
      rw [hs.2.2.2.2]; exact hp⟩

theorem newCaster_inv (fp : Bool) (s : State) (h : EnvInv s) :
    EnvInv (newCaster fp s).2 ∧ (newCaster fp s).2.currentProto = s.currentProto ∧
      (newCaster fp s).2.lookup = s.lookup ∧ ∀ e ∈ (newCaster fp s).1, e.2.slots = [] := by
  unfold newCaster
  split
  · exact ⟨h.of_env rfl h.next, rfl, rfl, fun e he => by simp only [List.mem_singleton] at he; subst he; rfl⟩
  · exact ⟨h, rfl, rfl, fun e he => by cases he⟩

theorem storageSlots_append (l1 l2 : List Storage) :
    storageSlots (l1 ++ l2) = storageSlots l1 ++ storageSlots l2 := by
  simp [storageSlots]

/-- building a router's approval program: the wrapper's ABI instances are well formed, casters hold
    no slot objects, and an unset marker stays unset (the only raising evaluation is a SCRATCH one,
    swallowed by `store_into`) -/
theorem buildMethods_inv (fp : Bool) (ms : List (Name × Nat)) (s : State) (h : EnvInv s) :
    EnvInv (buildMethods fp ms s).2 ∧
      (s.currentProto = none → (buildMethods fp ms s).2.currentProto = none) ∧
      (∀ b, (buildMethods fp ms s).1 = some b →
        (∀ x ∈ storageSlots b.mainAbis, WFSlot x) ∧ ∀ e ∈ b.casters, e.2.slots = []) := by
  induction ms generalizing s with
  | nil =>
    refine ⟨h, fun hp => hp, ?_⟩
    intro b hb
    simp only [buildMethods, Option.some.injEq] at hb
    subst hb
    exact ⟨fun x hx => by simp [storageSlots] at hx, fun e he => by cases he⟩
  | cons m rest ih =>
    obtain ⟨d, k⟩ := m
    simp only [buildMethods]
    split
    · rename_i ds hl
      have hok := SubOK_of_lookup h hl
      have ha : EnvInv (allocAbis k s).2 := h.frame (allocAbis_frame k s)
      have hc := newCaster_inv fp (allocAbis k s).2 ha
      have h3 : EnvInv (if ds.info.hasOutput = true then storeIntoState (newCaster fp (allocAbis k s).2).2 d ds
            else (newCaster fp (allocAbis k s).2).2) ∧
          (s.currentProto = none →
            (if ds.info.hasOutput = true then storeIntoState (newCaster fp (allocAbis k s).2).2 d ds
              else (newCaster fp (allocAbis k s).2).2).currentProto = none) := by
        have hpn : s.currentProto = none → (newCaster fp (allocAbis k s).2).2.currentProto = none := fun hp => by
          rw [hc.2.1]; exact allocAbis_protoNone k s hp
        split
        · have := storeIntoState_inv (newCaster fp (allocAbis k s).2).2 d ds hc.1 hok
          exact ⟨this.1, fun hp => this.2 (hpn hp)⟩
        · exact ⟨hc.1, hpn⟩
      have hrec := ih _ h3.1
      cases hb : (buildMethods fp rest _).1 with
      | none => exact ⟨hrec.1, fun hp => hrec.2.1 (h3.2 hp), fun _ hb' => by cases hb'⟩
      | some b =>
        refine ⟨hrec.1, fun hp => hrec.2.1 (h3.2 hp), ?_⟩
        intro b' hb'
        simp only [Option.some.injEq] at hb'
        subst hb'
        have hb2 := hrec.2.2 b hb
        constructor
        · intro x hx
          simp only at hx
          rw [storageSlots_append, List.mem_append] at hx
          rcases hx with hx | hx
          · split at hx
            · simp [storageSlots] at hx
            · exact allocAbis_wf k s h.next x hx
          · exact hb2.1 x hx
        · intro e he
          simp only [List.mem_append] at he
          rcases he with he | he
          · exact hc.2.2.2 e he
          · exact hb2.2 e he
    · exact ⟨h, fun hp => hp, fun _ hb => by cases hb⟩

theorem routerCompile_inv (sortf : List Slot → List Slot) (s : State) (r : Name) (version : Nat) (h : EnvInv s) :
    EnvInv (routerCompile sortf s r version).1 ∧
      (s.currentProto = none → (routerCompile sortf s r version).1.currentProto = none) := by
  unfold routerCompile
  split
  · rename_i rs _
    have hb := buildMethods_inv (decide (8 ≤ version)) rs.methods s h
    simp only
    split
    · exact ⟨hb.1.of_env rfl h.next, fun hp => hb.2.1 hp⟩
    · rename_i built _
      have hc := compileWith_inv sortf (buildMethods (decide (8 ≤ version)) rs.methods s).2 [] built.mainAbis
        (rs.methods.map (·.1)) built.casters version (decide (8 ≤ version)) none (decide (8 ≤ version)) hb.1
      exact ⟨hc.1.of_env rfl h.next, fun hp => hc.2 (hb.2.1 hp)⟩
  · exact ⟨h, fun hp => hp⟩

theorem routerBuild_inv (s : State) (r : Name) (version : Nat) (h : EnvInv s) :
    EnvInv (routerBuild s r version).1 ∧
      (s.currentProto = none → (routerBuild s r version).1.currentProto = none) := by
  unfold routerBuild
  split
  · rename_i rs _
    have hb := buildMethods_inv (decide (8 ≤ version)) rs.methods s h
    simp only
    split <;> exact ⟨hb.1, hb.2.1⟩
  · exact ⟨h, fun hp => hp⟩

/-- one API call: the environment invariant survives and an unset marker stays unset — whether the
    call returns or raises -/
theorem step_inv (sortf : List Slot → List Slot) (s : State) (op : SOp) (h : EnvInv s) :
    EnvInv (stepWith sortf s op).1 ∧
      (s.currentProto = none → (stepWith sortf s op).1.currentProto = none) := by
  cases op with
  | newSlot x =>
    exact ⟨(h.frame (allocSlot_frame s)).bind x (ObjOK_slot (allocSlot_wf s h.next)), fun hp => hp⟩
  | newSlotReq x n =>
    simp only [stepWith]
    split
    · rename_i hn
      refine ⟨(h.of_env (s' := { s with nextObj := s.nextObj + 1 }) rfl h.next).bind x (ObjOK_slot ⟨fun _ => hn, fun hr => by cases hr⟩),
        fun hp => hp⟩
    · exact ⟨h, fun hp => hp⟩
  | newSubroutine d info =>
    refine ⟨(h.of_env (s' := { s with nextSubroutineId := s.nextSubroutineId + 1 }) rfl h.next).bind d
      ⟨fun x hx => by simp [objSlots, optSlots] at hx, fun ds e => ?_⟩, fun hp => hp⟩
    cases e
    intro fl c hc
    cases fl <;> simp [DefState.decl] at hc
  | evalDeclaration d fl =>
    simp only [stepWith]
    split
    · rename_i ds hl
      have hok := SubOK_of_lookup h hl
      have f := getDeclaration_frame s d ds fl
      cases hg : (getDeclaration s d ds fl).1 with
      | none => exact ⟨h.frame f, fun hp => (getDeclaration_proto s d ds fl).trans hp⟩
      | some ds' =>
        have hs := getDeclaration_some s d ds ds' fl h.next hok hg
        exact ⟨(h.frame f).bind d hs.1, fun hp => by
          show (getDeclaration s d ds fl).2.currentProto = none
          rw [hs.2.2.2.2]; exact hp⟩
    · exact ⟨h, fun hp => hp⟩
  | probeInfo d =>
    simp only [stepWith]
    split
    · rename_i ds hl
      have hok := SubOK_of_lookup h hl
      have hp := infoPrepare_spec s d ds h.next hok
      cases hg : (infoPrepare s d ds).1 with
      | none => exact ⟨h.of_env hp.1 hp.2.1, fun hpn => (infoPrepare_proto s d ds).trans hpn⟩
      | some ds' =>
        have hs := hp.2.2 ds' hg
        exact ⟨(h.of_env hp.1 hp.2.1).bind d hs.1, fun hpn => by
          show (infoPrepare s d ds).2.currentProto = none
          rw [hs.2.1]; exact hpn⟩
    · exact ⟨h, fun hp => hp⟩
  | storeInto d =>
    simp only [stepWith]
    split
    · rename_i ds hl
      have := storeIntoState_inv s d ds h (SubOK_of_lookup h hl)
      exact ⟨this.1, fun hp => this.2 hp⟩
    · exact ⟨h, fun hp => hp⟩
  | newAbiValue x =>
    exact ⟨(h.frame (allocAbi_frame s)).bind x (ObjOK_abi (allocAbi_wf s h.next)),
      fun hp => allocAbi_protoNone s hp⟩
  | tmpl n => exact ⟨h.of_env rfl h.next, fun hp => hp⟩
  | compile p version fpOpt failsAt => exact compileProg_inv sortf s p version fpOpt failsAt h
  | newRouter r methods => exact ⟨h.bind r (ObjOK_router _), fun hp => hp⟩
  | routerBuild r version =>
    have := routerBuild_inv s r version h
    exact ⟨this.1, fun hp => this.2 hp⟩
  | routerCompile r version => exact routerCompile_inv sortf s r version h

theorem init_inv : EnvInv init := ⟨Nat.le_refl _, fun e he => by cases he⟩

theorem run_inv (ops : List SOp) (s : State) (h : EnvInv s) : EnvInv (run ops s) := by
  induction ops generalizing s with
  | nil => exact h
  | cons op rest ih => exact ih _ (step_inv sortById s op h).1

/-- **`decl_shape_inv`** (ALL histories, raising ones included): every cached declaration of every
    definition has the shape prescribed by its definition and calling convention alone — it does
    not depend on `currentProto` or on anything else that happened before — and every slot object
    is well formed (requested ids < 256 ≤ automatic ids ≤ `nextSlotId` base). -/
theorem decl_shape_inv (ops : List SOp) :
    NUM_SLOTS ≤ (run ops init).nextSlotId ∧
      (∀ (n : Name) (ds : DefState) (fl : Flavour) (c : Decl),
        (run ops init).lookup n = some (.sub ds) → ds.decl fl = some c → ShapeOK c ds.info fl) ∧
      (∀ (n : Name) (o : Obj), (run ops init).lookup n = some o → ∀ x ∈ objSlots o, WFSlot x) := by
  have h := run_inv ops init init_inv
  exact ⟨h.next, fun n ds fl c hl hc => (h.lookup hl).shape ds rfl fl c hc, fun n o hl => (h.lookup hl).wf⟩

theorem run_proto_none (ops : List SOp) (s : State) (h : EnvInv s) (hp : s.currentProto = none) :
    (run ops s).currentProto = none := by
  induction ops generalizing s with
  | nil => exact hp
  | cons op rest ih =>
    have hs := step_inv sortById s op h
    exact ih _ hs.1 (hs.2 hp)

/-- **`session_inv`** (ALL histories — full statement, true since commit 6bedda4 put the restore of
    `_frame_pointer_context` in a `finally:`): whatever API calls were made and however they ended
    — compilations failing at any stage, subroutine bodies raising under either calling convention
    during a compilation, a probe, a `store_into` or a router build — between top-level API calls
    `SubroutineEval._current_proto` is `None`, and the environment invariant of `decl_shape_inv`
    holds.  (The statement was false of the code before that commit: `session_counterexample_old`.) -/
theorem session_inv (ops : List SOp) :
    (run ops init).currentProto = none ∧ EnvInv (run ops init) :=
  ⟨run_proto_none ops init init_inv rfl, run_inv ops init init_inv⟩

/-! ## History independence: a different history only SHIFTS the counters -/

/-- by how much the counters of two states differ -/
structure Delta where
  slot : Nat
  sub : Nat
  obj : Nat
  tmpl : List Nat

def shiftSlot (δ : Delta) (x : Slot) : Slot :=
  ⟨x.obj + δ.obj, if x.reserved then x.id else x.id + δ.slot, x.reserved⟩

def shiftDef (δ : Delta) (d : DefState) : DefState :=
  { info := d.info, subId := d.subId + δ.sub, scratchDecl := d.scratchDecl.map (mapDecl (shiftSlot δ)),
    fpDecl := d.fpDecl.map (mapDecl (shiftSlot δ)), infoKnown := d.infoKnown }

def shiftObj (δ : Delta) : Obj → Obj
  | .slot x => .slot (shiftSlot δ x)
  | .abi a => .abi (mapStorage (shiftSlot δ) a)
  | .sub d => .sub (shiftDef δ d)
  | .router r => .router r

def shiftState (δ : Delta) (s : State) : State :=
  { nextSlotId := s.nextSlotId + δ.slot, nextSubroutineId := s.nextSubroutineId + δ.sub,
    currentProto := s.currentProto, nextObj := s.nextObj + δ.obj,
    env := s.env.map (fun e => (e.1, shiftObj δ e.2)), templates := s.templates ++ δ.tmpl }

section Shift
variable (δ : Delta)

theorem shiftSlot_inj : Function.Injective (shiftSlot δ) := by
  intro a b h
  obtain ⟨ao, ai, ar⟩ := a
  obtain ⟨bo, bi, br⟩ := b
  simp only [shiftSlot, Slot.mk.injEq] at h ⊢
  obtain ⟨h1, h2, h3⟩ := h
  subst h3
  refine ⟨by omega, ?_, rfl⟩
  cases ar <;> simp at h2 <;> omega

theorem shiftSlot_orderIso (S : List Slot) (hS : ∀ x ∈ S, WFSlot x) : OrderIso (shiftSlot δ) S := by
  refine ⟨shiftSlot_inj δ, fun a => rfl, fun a ha => by simp [shiftSlot, ha], ?_⟩
  intro a ha b hb
  have wa := hS a ha
  have wb := hS b hb
  unfold WFSlot NUM_SLOTS at wa wb
  simp only [shiftSlot]
  cases har : a.reserved <;> cases hbr : b.reserved <;> simp only [if_true, if_false, Bool.false_eq_true]
  · omega
  · have := wa.2 har; have := wb.1 hbr; omega
  · have := wa.1 har; have := wb.2 hbr; omega

theorem shiftSub_orderEmb : OrderEmb (· + δ.sub) := fun a b => by
  show a ≤ b ↔ a + δ.sub ≤ b + δ.sub
  omega

@[simp] theorem sh_proto (s : State) : (shiftState δ s).currentProto = s.currentProto := rfl
@[simp] theorem sh_nextSlot (s : State) : (shiftState δ s).nextSlotId = s.nextSlotId + δ.slot := rfl
@[simp] theorem sh_nextSub (s : State) : (shiftState δ s).nextSubroutineId = s.nextSubroutineId + δ.sub := rfl

theorem sh_setProto (s : State) (p : Option Proto) :
    { shiftState δ s with currentProto := p } = shiftState δ { s with currentProto := p } := rfl

theorem sh_setNext (s : State) (n : Nat) :
    { shiftState δ s with nextSlotId := n + δ.slot } = shiftState δ { s with nextSlotId := n } := rfl

theorem sh_bumpObj (s : State) :
    { shiftState δ s with nextObj := (shiftState δ s).nextObj + 1 } =
      shiftState δ { s with nextObj := s.nextObj + 1 } := by
  simp only [shiftState, State.mk.injEq, and_true, true_and]
  omega

theorem sh_bumpSub (s : State) :
    { shiftState δ s with nextSubroutineId := (shiftState δ s).nextSubroutineId + 1 } =
      shiftState δ { s with nextSubroutineId := s.nextSubroutineId + 1 } := by
  simp only [shiftState, State.mk.injEq, and_true, true_and]
  omega

theorem sh_allocSlot (s : State) :
    allocSlot (shiftState δ s) = (shiftSlot δ (allocSlot s).1, shiftState δ (allocSlot s).2) := by
  simp only [allocSlot, shiftState, shiftSlot, Bool.false_eq_true, if_false, Prod.mk.injEq, State.mk.injEq, true_and,
    and_true]
  omega

theorem sh_allocSlots (n : Nat) (s : State) :
    allocSlots n (shiftState δ s) = ((allocSlots n s).1.map (shiftSlot δ), shiftState δ (allocSlots n s).2) := by
  induction n generalizing s with
  | zero => rfl
  | succ n ih => simp only [allocSlots, sh_allocSlot, ih, List.map_cons]

theorem sh_allocAbi (s : State) :
    allocAbi (shiftState δ s) = (mapStorage (shiftSlot δ) (allocAbi s).1, shiftState δ (allocAbi s).2) := by
  unfold allocAbi
  simp only [sh_proto]
  cases hp : s.currentProto with
  | none => simp only [sh_allocSlot, mapStorage]
  | some p =>
    simp only
    split
    · rfl
    · simp only [sh_allocSlot, mapStorage]

theorem sh_allocAbis (n : Nat) (s : State) :
    allocAbis n (shiftState δ s) =
      ((allocAbis n s).1.map (mapStorage (shiftSlot δ)), shiftState δ (allocAbis n s).2) := by
  induction n generalizing s with
  | zero => rfl
  | succ n ih => simp only [allocAbis, sh_allocAbi, ih, List.map_cons]

theorem sh_evaluate (s : State) (d : Name) (info : DefInfo) (fl : Flavour) :
    evaluate (shiftState δ s) d info fl =
      ((evaluate s d info fl).1.map (mapDecl (shiftSlot δ)), shiftState δ (evaluate s d info fl).2) := by
  unfold evaluate
  simp only [sh_allocSlots, sh_setProto, sh_allocAbis, sh_proto]
  split
  · rfl
  · simp only [Option.map_some, mapDecl, List.map_append, storageSlots_map]

theorem sh_decl (ds : DefState) (fl : Flavour) :
    (shiftDef δ ds).decl fl = (ds.decl fl).map (mapDecl (shiftSlot δ)) := by
  cases fl <;> rfl

theorem sh_setDecl (ds : DefState) (fl : Flavour) (c : Option Decl) :
    (shiftDef δ ds).setDecl fl (c.map (mapDecl (shiftSlot δ))) = shiftDef δ (ds.setDecl fl c) := by
  cases fl <;> rfl

theorem sh_getDeclaration (s : State) (d : Name) (ds : DefState) (fl : Flavour) :
    getDeclaration (shiftState δ s) d (shiftDef δ ds) fl =
      ((getDeclaration s d ds fl).1.map (shiftDef δ), shiftState δ (getDeclaration s d ds fl).2) := by
  unfold getDeclaration
  rw [sh_decl]
  cases hc : ds.decl fl with
  | some c => rfl
  | none =>
    simp only [Option.map_none, sh_evaluate]
    have hinfo : (shiftDef δ ds).info = ds.info := rfl
    rw [hinfo]
    cases he : (evaluate s d ds.info fl).1 with
    | none => rfl
    | some c =>
      simp only [Option.map_some]
      rw [← sh_setDecl]
      rfl

theorem sh_probe (s : State) (d : Name) (ds : DefState) (fl : Flavour) :
    probe (shiftState δ s) d (shiftDef δ ds) fl =
      ((probe s d ds fl).1.map (shiftDef δ), shiftState δ (probe s d ds fl).2) := by
  unfold probe
  simp only [sh_getDeclaration, sh_decl, Option.isSome_map, sh_nextSlot]
  cases hg : (getDeclaration s d ds fl).1 with
  | none => rfl
  | some ds' =>
    simp only [Option.map_some, sh_setNext]
    congr 2
    split
    · rfl
    · have := sh_setDecl δ ds' fl none
      simpa using this

theorem sh_infoPrepare (s : State) (d : Name) (ds : DefState) :
    infoPrepare (shiftState δ s) d (shiftDef δ ds) =
      ((infoPrepare s d ds).1.map (shiftDef δ), shiftState δ (infoPrepare s d ds).2) := by
  unfold infoPrepare
  have hk : (shiftDef δ ds).infoKnown = ds.infoKnown := rfl
  rw [hk]
  split
  · rfl
  · simp only [sh_probe]
    cases h1 : (probe s d ds .scratch).1 with
    | none => rfl
    | some ds1 =>
      simp only [Option.map_some, sh_probe]
      cases h2 : (probe (probe s d ds .scratch).2 d ds1 .fp).1 with
      | none => rfl
      | some ds2 => rfl

theorem lookup_map_snd {β γ : Type} (f : β → γ) (env : List (Name × β)) (n : Name) :
    (env.map (fun e => (e.1, f e.2))).lookup n = (env.lookup n).map f := by
  induction env with
  | nil => rfl
  | cons e env ih =>
    obtain ⟨k, v⟩ := e
    simp only [List.map_cons, List.lookup_cons]
    split
    · rfl
    · exact ih

theorem sh_lookup (s : State) (n : Name) : (shiftState δ s).lookup n = (s.lookup n).map (shiftObj δ) :=
  lookup_map_snd (shiftObj δ) s.env n

theorem sh_bind (s : State) (n : Name) (o : Obj) :
    (shiftState δ s).bind n (shiftObj δ o) = shiftState δ (s.bind n o) := rfl

theorem sh_getSlots (s : State) (l : List Name) :
    getSlots (shiftState δ s) l = (getSlots s l).map (List.map (shiftSlot δ)) := by
  induction l with
  | nil => rfl
  | cons n rest ih =>
    simp only [getSlots, sh_lookup, ih]
    cases hl : s.lookup n with
    | none => rfl
    | some o =>
      cases o <;> cases getSlots s rest <;> rfl

theorem sh_getAbis (s : State) (l : List Name) :
    getAbis (shiftState δ s) l = (getAbis s l).map (List.map (mapStorage (shiftSlot δ))) := by
  induction l with
  | nil => rfl
  | cons n rest ih =>
    simp only [getAbis, sh_lookup, ih]
    cases hl : s.lookup n with
    | none => rfl
    | some o =>
      cases o <;> cases getAbis s rest <;> rfl

theorem sh_getSubIds (s : State) (l : List Name) :
    getSubIds (shiftState δ s) l = (getSubIds s l).map (List.map (fun e => (e.1 + δ.sub, e.2))) := by
  induction l with
  | nil => rfl
  | cons n rest ih =>
    simp only [getSubIds, sh_lookup, ih]
    cases hl : s.lookup n with
    | none => rfl
    | some o =>
      cases o <;> cases getSubIds s rest <;> rfl

theorem sh_getDecls (s : State) (fl : Flavour) (l : List Name) :
    getDecls (shiftState δ s) fl l = (getDecls s fl l).map (mapSubs (shiftSlot δ) (· + δ.sub)) := by
  induction l with
  | nil => rfl
  | cons n rest ih =>
    simp only [getDecls, sh_lookup, ih]
    cases hl : s.lookup n with
    | none => rfl
    | some o =>
      cases o with
      | sub d =>
        cases hr : getDecls s fl rest with
        | none => rfl
        | some ds =>
          simp only [Option.map_some, shiftObj, sh_decl]
          cases hd : d.decl fl with
          | none => rfl
          | some c => rfl
      | slot x => cases getDecls s fl rest <;> rfl
      | abi a => cases getDecls s fl rest <;> rfl
      | router r => cases getDecls s fl rest <;> rfl

theorem sh_evalAll (fl : Flavour) (names : List Name) (s : State) :
    evalAll fl names (shiftState δ s) = ((evalAll fl names s).1, shiftState δ (evalAll fl names s).2) := by
  induction names generalizing s with
  | nil => rfl
  | cons n rest ih =>
    simp only [evalAll, sh_lookup]
    cases hl : s.lookup n with
    | none => rfl
    | some o =>
      cases o with
      | sub ds =>
        simp only [Option.map_some, shiftObj, sh_getDeclaration]
        cases hg : (getDeclaration s n ds fl).1 with
        | none => rfl
        | some ds' =>
          simp only [Option.map_some]
          rw [← ih]
          rfl
      | slot x => rfl
      | abi a => rfl
      | router r => rfl

/-- sorting by key commutes with an order embedding of the keys, whatever the payload -/
theorem insertByKey_mapKey {α β : Type} {h : Nat → Nat} (hh : OrderEmb h) (f : α → β) (x : Nat × α)
    (l : List (Nat × α)) :
    insertByKey (h x.1, f x.2) (l.map (fun e => (h e.1, f e.2))) =
      (insertByKey x l).map (fun e => (h e.1, f e.2)) := by
  induction l with
  | nil => rfl
  | cons y l ih =>
    simp only [List.map_cons, insertByKey]
    by_cases hle : x.1 ≤ y.1
    · rw [if_pos hle, if_pos ((hh _ _).1 hle)]; rfl
    · rw [if_neg hle, if_neg (fun h' => hle ((hh _ _).2 h')), ih]; rfl

theorem sortByKey_mapKey {α β : Type} {h : Nat → Nat} (hh : OrderEmb h) (f : α → β) (l : List (Nat × α)) :
    sortByKey (l.map (fun e => (h e.1, f e.2))) = (sortByKey l).map (fun e => (h e.1, f e.2)) := by
  induction l with
  | nil => rfl
  | cons x l ih =>
    show insertByKey (h x.1, f x.2) (sortByKey (l.map (fun e => (h e.1, f e.2)))) = _
    rw [ih, insertByKey_mapKey hh]
    rfl

theorem sh_evalOrder (inOrder : Bool) (subs : List Name) (ids : List (Nat × Name)) :
    evalOrder inOrder subs (ids.map (fun e => (e.1 + δ.sub, e.2))) = evalOrder inOrder subs ids := by
  unfold evalOrder
  split
  · rfl
  · have := sortByKey_mapKey (shiftSub_orderEmb δ) (fun n : Name => n) ids
    rw [this]
    simp [Function.comp_def]

theorem getSlots_wf {s : State} (h : EnvInv s) {l : List Name} {xs : List Slot} (hg : getSlots s l = some xs) :
    ∀ x ∈ xs, WFSlot x := by
  induction l generalizing xs with
  | nil => simp only [getSlots, Option.some.injEq] at hg; subst hg; intro x hx; cases hx
  | cons n rest ih =>
    simp only [getSlots] at hg
    split at hg
    · rename_i y ys hl hr
      simp only [Option.some.injEq] at hg
      subst hg
      intro x hx
      rcases List.mem_cons.1 hx with rfl | hx
      · exact (h.lookup hl).wf x (by simp [objSlots])
      · exact ih hr x hx
    · cases hg

theorem getAbis_wf {s : State} (h : EnvInv s) {l : List Name} {as : List Storage} (hg : getAbis s l = some as) :
    ∀ x ∈ storageSlots as, WFSlot x := by
  induction l generalizing as with
  | nil => simp only [getAbis, Option.some.injEq] at hg; subst hg; intro x hx; simp [storageSlots] at hx
  | cons n rest ih =>
    simp only [getAbis] at hg
    split at hg
    · rename_i a as' hl hr
      simp only [Option.some.injEq] at hg
      subst hg
      intro x hx
      rw [storageSlots_cons, List.mem_append] at hx
      rcases hx with hx | hx
      · exact (h.lookup hl).wf x hx
      · exact ih hr x hx
    · cases hg

theorem getDecls_wf {s : State} (h : EnvInv s) {fl : Flavour} {l : List Name} {ds : List (Nat × Decl)}
    (hg : getDecls s fl l = some ds) : ∀ e ∈ ds, ∀ x ∈ e.2.slots, WFSlot x := by
  induction l generalizing ds with
  | nil => simp only [getDecls, Option.some.injEq] at hg; subst hg; intro e he; cases he
  | cons n rest ih =>
    simp only [getDecls] at hg
    split at hg
    · rename_i d ds' hl hr
      split at hg
      · rename_i c hc
        simp only [Option.some.injEq] at hg
        subst hg
        intro e he x hx
        rcases List.mem_cons.1 he with rfl | he
        · refine (h.lookup hl).wf x ?_
          cases fl <;> simp only [DefState.decl] at hc <;> simp [objSlots, optSlots, hc, hx]
        · exact ih hr e he x hx
      · cases hg
    · cases hg

theorem hasFrame_map (g : Slot → Slot) (l : List Storage) : hasFrame (l.map (mapStorage g)) = hasFrame l := by
  induction l with
  | nil => rfl
  | cons a l ih =>
    cases a <;> simp_all [hasFrame, mapStorage]

/-- the compile result is the same in the shifted state -/
theorem sh_compileObjs (ms : List Slot) (ma : List Storage) (subs : List (Nat × Decl))
    (hw : ∀ x ∈ progSlots ms ma subs, WFSlot x) :
    compileObjs (ms.map (shiftSlot δ)) (ma.map (mapStorage (shiftSlot δ))) (mapSubs (shiftSlot δ) (· + δ.sub) subs) =
      compileObjs ms ma subs :=
  compile_rel_order_only ms ma subs (shiftSlot_orderIso δ _ hw) (shiftSub_orderEmb δ)

theorem sh_compileTail (r : Bool × State) (ms : List Slot) (ma : List Storage) (subs : List Name)
    (extra : List (Nat × Decl)) (fl : Flavour) (failsAt : Option Stage) (h : EnvInv r.2)
    (hms : ∀ x ∈ ms, WFSlot x) (hma : ∀ x ∈ storageSlots ma, WFSlot x) (hex : ∀ e ∈ extra, e.2.slots = []) :
    compileTail sortById (r.1, shiftState δ r.2) (ms.map (shiftSlot δ)) (ma.map (mapStorage (shiftSlot δ))) subs
        (mapSubs (shiftSlot δ) (· + δ.sub) extra) fl failsAt =
      (shiftState δ (compileTail sortById r ms ma subs extra fl failsAt).1,
        (compileTail sortById r ms ma subs extra fl failsAt).2) := by
  unfold compileTail
  simp only [sh_getDecls]
  split
  · rfl
  · cases hd : getDecls r.2 fl subs with
    | none => rfl
    | some decls =>
      simp only [Option.map_some]
      have hw : ∀ x ∈ progSlots ms ma (decls ++ extra), WFSlot x := by
        intro x hx
        simp only [progSlots, List.mem_append, List.mem_flatMap] at hx
        rcases hx with (hx | hx) | ⟨e, he | he, hxe⟩
        · exact hms x hx
        · exact hma x hx
        · exact getDecls_wf h hd e he x hxe
        · rw [hex e he] at hxe; cases hxe
      have hc := sh_compileObjs δ ms ma (decls ++ extra) hw
      have hsplit : mapSubs (shiftSlot δ) (· + δ.sub) (decls ++ extra) =
          mapSubs (shiftSlot δ) (· + δ.sub) decls ++ mapSubs (shiftSlot δ) (· + δ.sub) extra := by
        simp [mapSubs]
      rw [hsplit] at hc
      unfold compileObjs at hc
      rw [hc]
      cases compileObjsWith sortById ms ma (decls ++ extra) with
      | error e => rfl
      | ok res => simp only; split <;> rfl

theorem sh_compileWith (s : State) (ms : List Slot) (ma : List Storage) (subs : List Name)
    (extra : List (Nat × Decl)) (version : Nat) (fp : Bool) (failsAt : Option Stage) (inOrder : Bool)
    (h : EnvInv s) (hms : ∀ x ∈ ms, WFSlot x) (hma : ∀ x ∈ storageSlots ma, WFSlot x)
    (hex : ∀ e ∈ extra, e.2.slots = []) :
    compileWith sortById (shiftState δ s) (ms.map (shiftSlot δ)) (ma.map (mapStorage (shiftSlot δ))) subs
        (mapSubs (shiftSlot δ) (· + δ.sub) extra) version fp failsAt inOrder =
      (shiftState δ (compileWith sortById s ms ma subs extra version fp failsAt inOrder).1,
        (compileWith sortById s ms ma subs extra version fp failsAt inOrder).2) := by
  unfold compileWith
  simp only [hasFrame_map, sh_getSubIds]
  split
  · rfl
  · split
    · rfl
    · cases hi : getSubIds s subs with
      | none => rfl
      | some ids =>
        simp only [Option.map_some, sh_evalOrder, sh_evalAll]
        exact sh_compileTail δ _ ms ma subs extra _ failsAt (evalAll_inv _ _ s h).1 hms hma hex

theorem sh_compileProg (s : State) (p : Prog) (version : Nat) (fpOpt : Option Bool) (failsAt : Option Stage)
    (h : EnvInv s) :
    compileProg sortById (shiftState δ s) p version fpOpt failsAt =
      (shiftState δ (compileProg sortById s p version fpOpt failsAt).1,
        (compileProg sortById s p version fpOpt failsAt).2) := by
  unfold compileProg
  cases hu : useFp version fpOpt with
  | none => rfl
  | some fp =>
    simp only [sh_getSlots, sh_getAbis]
    cases hs : getSlots s p.slots with
    | none => rfl
    | some ms =>
      cases ha : getAbis s p.abis with
      | none => rfl
      | some ma =>
        simp only [Option.map_some]
        have := sh_compileWith δ s ms ma p.subs [] version fp failsAt false h (getSlots_wf h hs) (getAbis_wf h ha)
          (fun e he => by cases he)
        simpa [mapSubs] using this

def shiftBuilt (δ : Delta) (b : Built) : Built :=
  ⟨b.mainAbis.map (mapStorage (shiftSlot δ)), mapSubs (shiftSlot δ) (· + δ.sub) b.casters⟩

theorem sh_storeIntoState (s : State) (d : Name) (ds : DefState) :
    storeIntoState (shiftState δ s) d (shiftDef δ ds) = shiftState δ (storeIntoState s d ds) := by
  unfold storeIntoState
  simp only [sh_getDeclaration]
  cases (getDeclaration s d ds Flavour.scratch).1 <;> rfl

theorem sh_newCaster (fp : Bool) (s : State) :
    newCaster fp (shiftState δ s) =
      (mapSubs (shiftSlot δ) (· + δ.sub) (newCaster fp s).1, shiftState δ (newCaster fp s).2) := by
  unfold newCaster
  split
  · simp only [mapSubs, mapDecl, List.map_cons, List.map_nil, sh_nextSub, Prod.mk.injEq, true_and]
    simp only [shiftState, State.mk.injEq, and_true, true_and]
    omega
  · rfl

theorem sh_buildMethods (fp : Bool) (ms : List (Name × Nat)) (s : State) :
    buildMethods fp ms (shiftState δ s) =
      ((buildMethods fp ms s).1.map (shiftBuilt δ), shiftState δ (buildMethods fp ms s).2) := by
  induction ms generalizing s with
  | nil => rfl
  | cons m rest ih =>
    obtain ⟨d, k⟩ := m
    simp only [buildMethods, sh_lookup]
    cases hl : s.lookup d with
    | none => rfl
    | some o =>
      cases o with
      | slot x => rfl
      | abi a => rfl
      | router r => rfl
      | sub ds =>
        simp only [Option.map_some, shiftObj, sh_allocAbis, sh_newCaster]
        have hinfo : (shiftDef δ ds).info = ds.info := rfl
        rw [hinfo]
        have h3 : (if ds.info.hasOutput = true then
              storeIntoState (shiftState δ (newCaster fp (allocAbis k s).2).2) d (shiftDef δ ds)
            else shiftState δ (newCaster fp (allocAbis k s).2).2) =
            shiftState δ (if ds.info.hasOutput = true then storeIntoState (newCaster fp (allocAbis k s).2).2 d ds
              else (newCaster fp (allocAbis k s).2).2) := by
          split
          · exact sh_storeIntoState δ _ d ds
          · rfl
        rw [h3, ih]
        cases hb : (buildMethods fp rest _).1 with
        | none => rfl
        | some b =>
          simp only [Option.map_some, shiftBuilt, Prod.mk.injEq, Option.some.injEq, Built.mk.injEq, and_true]
          constructor
          · split <;> simp [List.map_append]
          · simp [mapSubs]

theorem sh_routerCompile (s : State) (r : Name) (version : Nat) (h : EnvInv s) :
    routerCompile sortById (shiftState δ s) r version =
      (shiftState δ (routerCompile sortById s r version).1, (routerCompile sortById s r version).2) := by
  unfold routerCompile
  simp only [sh_lookup]
  cases hl : s.lookup r with
  | none => rfl
  | some o =>
    cases o with
    | slot x => rfl
    | abi a => rfl
    | sub d => rfl
    | router rs =>
      simp only [Option.map_some, shiftObj, sh_buildMethods, sh_nextSlot]
      have hb := buildMethods_inv (decide (8 ≤ version)) rs.methods s h
      cases hbm : (buildMethods (decide (8 ≤ version)) rs.methods s).1 with
      | none => simp only [Option.map_none, sh_setNext]
      | some built =>
        simp only [Option.map_some, shiftBuilt]
        have hw := hb.2.2 built hbm
        have := sh_compileWith δ (buildMethods (decide (8 ≤ version)) rs.methods s).2 [] built.mainAbis
          (rs.methods.map (·.1)) built.casters version (decide (8 ≤ version)) none (decide (8 ≤ version)) hb.1
          (fun x hx => by cases hx) hw.1 hw.2
        simp only [List.map_nil] at this
        rw [this]
        simp only [sh_setNext]

theorem sh_routerBuild (s : State) (r : Name) (version : Nat) :
    routerBuild (shiftState δ s) r version =
      (shiftState δ (routerBuild s r version).1, (routerBuild s r version).2) := by
  unfold routerBuild
  simp only [sh_lookup]
  cases hl : s.lookup r with
  | none => rfl
  | some o =>
    cases o with
    | slot x => rfl
    | abi a => rfl
    | sub d => rfl
    | router rs =>
      simp only [Option.map_some, shiftObj, sh_buildMethods]
      cases (buildMethods (decide (8 ≤ version)) rs.methods s).1 <;> rfl

/-- **one API call commutes with the shift**: same observation, shifted successor state -/
theorem sh_step (s : State) (op : SOp) (h : EnvInv s) :
    step (shiftState δ s) op = (shiftState δ (step s op).1, (step s op).2) := by
  unfold step
  cases op with
  | newSlot x => simp only [stepWith, sh_allocSlot]; rfl
  | newSlotReq x n =>
    simp only [stepWith]
    split
    · simp only [Prod.mk.injEq, and_true]
      rw [sh_bumpObj]
      rfl
    · rfl
  | newSubroutine d info =>
    simp only [stepWith, Prod.mk.injEq, and_true]
    rw [sh_bumpSub]
    rfl
  | evalDeclaration d fl =>
    simp only [stepWith, sh_lookup]
    cases hl : s.lookup d with
    | none => rfl
    | some o =>
      cases o with
      | sub ds =>
        simp only [Option.map_some, shiftObj, sh_getDeclaration]
        cases (getDeclaration s d ds fl).1 <;> rfl
      | slot x => rfl
      | abi a => rfl
      | router r => rfl
  | probeInfo d =>
    simp only [stepWith, sh_lookup]
    cases hl : s.lookup d with
    | none => rfl
    | some o =>
      cases o with
      | sub ds =>
        simp only [Option.map_some, shiftObj, sh_infoPrepare]
        cases (infoPrepare s d ds).1 <;> rfl
      | slot x => rfl
      | abi a => rfl
      | router r => rfl
  | storeInto d =>
    simp only [stepWith, sh_lookup]
    cases hl : s.lookup d with
    | none => rfl
    | some o =>
      cases o with
      | sub ds =>
        simp only [Option.map_some, shiftObj, sh_storeIntoState]
      | slot x => rfl
      | abi a => rfl
      | router r => rfl
  | newAbiValue x => simp only [stepWith, sh_allocAbi]; rfl
  | tmpl n => rfl
  | compile p version fpOpt failsAt => exact sh_compileProg δ s p version fpOpt failsAt h
  | newRouter r methods => rfl
  | routerBuild r version => exact sh_routerBuild δ s r version
  | routerCompile r version => exact sh_routerCompile δ s r version h

theorem sh_observe (ops : List SOp) (s : State) (h : EnvInv s) :
    observe ops (shiftState δ s) = observe ops s := by
  induction ops generalizing s with
  | nil => rfl
  | cons op rest ih =>
    have hs := sh_step δ s op h
    unfold step at hs
    simp only [observe, observeWith] at ih ⊢
    rw [hs]
    simp only
    rw [ih _ (step_inv sortById s op h).1]

end Shift

/-- a state whose marker is unset, stripped of its names, is the initial state with shifted counters -/
theorem forgetNames_eq_shift (s : State) (hp : s.currentProto = none) (hn : NUM_SLOTS ≤ s.nextSlotId) :
    s.forgetNames = shiftState ⟨s.nextSlotId - NUM_SLOTS, s.nextSubroutineId, s.nextObj, s.templates⟩ init := by
  obtain ⟨a, b, c, d, e, f⟩ := s
  simp only at hp hn
  subst hp
  simp only [State.forgetNames, shiftState, init, State.mk.injEq, List.map_nil, List.nil_append, Nat.zero_add,
    and_true]
  omega

/-- what a target compiles to after ANY history is what it compiles to in a fresh process -/
theorem observeTarget_after_history (history target : List SOp) :
    observeTarget target (run history init) = observe target init := by
  have hi := session_inv history
  unfold observeTarget
  rw [forgetNames_eq_shift _ hi.1 hi.2.next]
  exact sh_observe _ target init init_inv

/-- **`compile_history_independent`** (full statement, all histories): whatever two histories came
    before — any number of unrelated slots, subroutines, ABI values, templates; programs and routers
    compiled at any version and option; compilations FAILING at any stage, subroutine bodies raising
    included; probing; router re-compilations — a target that shares no object with them (it runs
    in its own name space) yields the same observations: the same slot numbers, label indices, ABI
    locations, and the same failures.

    What this statement fixes and the code does not: the model breaks ties of
    `sorted(allSlots, key=id)` by first occurrence.  The real tie-break is CPython's iteration order
    of a set of objects; see `compile_history_independent_anysort_partial` and
    `router_recompile_counterexample` below. -/
theorem compile_history_independent (h₁ h₂ target : List SOp) :
    observeTarget target (run h₁ init) = observeTarget target (run h₂ init) := by
  rw [observeTarget_after_history h₁ target, observeTarget_after_history h₂ target]

/-! ## Compiling the same objects again -/

/-- an object as it may look later in the session: unchanged, except that a definition may have
    gained cached declarations -/
def ObjLe : Obj → Obj → Prop
  | .sub d, .sub d' => d'.subId = d.subId ∧ d'.info = d.info ∧ ∀ fl c, d.decl fl = some c → d'.decl fl = some c
  | .sub _, _ => False
  | o, o' => o = o'

theorem ObjLe.refl (o : Obj) : ObjLe o o := by
  cases o <;> simp [ObjLe]

theorem ObjLe.trans {a b c : Obj} (h1 : ObjLe a b) (h2 : ObjLe b c) : ObjLe a c := by
  cases a <;> cases b <;> cases c <;> simp_all [ObjLe]

/-- every name bound in `s` is bound in `s'` to a later version of the same object -/
def Ext (s s' : State) : Prop := ∀ n o, s.lookup n = some o → ∃ o', s'.lookup n = some o' ∧ ObjLe o o'

theorem Ext.refl (s : State) : Ext s s := fun _ o h => ⟨o, h, ObjLe.refl o⟩

theorem Ext.trans {a b c : State} (h1 : Ext a b) (h2 : Ext b c) : Ext a c := fun n o h => by
  obtain ⟨o1, hl1, le1⟩ := h1 n o h
  obtain ⟨o2, hl2, le2⟩ := h2 n o1 hl1
  exact ⟨o2, hl2, le1.trans le2⟩

theorem Ext.of_env {s s' : State} (he : s'.env = s.env) : Ext s s' := fun n o h =>
  ⟨o, by unfold State.lookup at h ⊢; rw [he]; exact h, ObjLe.refl o⟩

theorem lookup_bind (s : State) (n m : Name) (o : Obj) :
    (s.bind n o).lookup m = if m = n then some o else s.lookup m := by
  unfold State.lookup State.bind
  simp only [List.lookup_cons]
  by_cases h : m = n
  · simp [h]
  · have : (m == n) = false := by simpa using h
    simp [h, this]

theorem Ext.bind {s : State} {n : Name} {o o' : Obj} (hl : s.lookup n = some o) (hle : ObjLe o o') :
    Ext s (s.bind n o') := fun m x hx => by
  rw [lookup_bind]
  by_cases h : m = n
  · subst h
    rw [hl] at hx
    cases hx
    exact ⟨o', by simp, hle⟩
  · exact ⟨x, by simp [h, hx], ObjLe.refl x⟩

theorem getDeclaration_le (s : State) (d : Name) (ds ds' : DefState) (fl : Flavour)
    (h : (getDeclaration s d ds fl).1 = some ds') : ObjLe (.sub ds) (.sub ds') ∧ (ds'.decl fl).isSome := by
  cases hc : ds.decl fl with
  | some c =>
    rw [getDeclaration_cached s d ds fl c hc] at h
    simp only [Option.some.injEq] at h
    subst h
    exact ⟨ObjLe.refl _, by simp [hc]⟩
  | none =>
    cases he : (evaluate s d ds.info fl).1 with
    | none => rw [getDeclaration_eval_none s d ds fl hc he] at h; cases h
    | some c =>
      rw [getDeclaration_eval_some s d ds fl c hc he] at h
      simp only [Option.some.injEq] at h
      subst h
      refine ⟨⟨by simp, by simp, ?_⟩, by cases fl <;> simp [DefState.setDecl, DefState.decl]⟩
      intro fl' c' hc'
      cases fl <;> cases fl' <;> simp_all [DefState.setDecl, DefState.decl]

theorem evalAll_ext (fl : Flavour) (names : List Name) (s : State) : Ext s (evalAll fl names s).2 := by
  induction names generalizing s with
  | nil => exact Ext.refl s
  | cons n rest ih =>
    simp only [evalAll]
    split
    · rename_i ds hl
      have f := getDeclaration_frame s n ds fl
      cases hg : (getDeclaration s n ds fl).1 with
      | none => exact Ext.of_env f.env
      | some ds' =>
        have hle := (getDeclaration_le s n ds ds' fl hg).1
        have hl' : (getDeclaration s n ds fl).2.lookup n = some (.sub ds) := by
          unfold State.lookup at hl ⊢; rw [f.env]; exact hl
        exact ((Ext.of_env f.env).trans (Ext.bind hl' hle)).trans (ih _)
    · exact Ext.refl s

/-- all the named definitions have their declaration of the convention cached -/
def AllCached (fl : Flavour) (names : List Name) (s : State) : Prop :=
  ∀ n ∈ names, ∃ d, s.lookup n = some (.sub d) ∧ (d.decl fl).isSome

theorem AllCached.ext {fl : Flavour} {names : List Name} {s s' : State} (h : AllCached fl names s) (he : Ext s s') :
    AllCached fl names s' := fun n hn => by
  obtain ⟨d, hl, hc⟩ := h n hn
  obtain ⟨o', hl', hle⟩ := he n _ hl
  cases o' with
  | sub d' =>
    refine ⟨d', hl', ?_⟩
    obtain ⟨c, hc'⟩ := Option.isSome_iff_exists.1 hc
    simp [hle.2.2 fl c hc']
  | slot x => simp [ObjLe] at hle
  | abi a => simp [ObjLe] at hle
  | router r => simp [ObjLe] at hle

theorem evalAll_cached (fl : Flavour) (names : List Name) (s : State) (h : (evalAll fl names s).1 = true) :
    AllCached fl names (evalAll fl names s).2 := by
  induction names generalizing s with
  | nil => intro n hn; cases hn
  | cons n rest ih =>
    simp only [evalAll] at h ⊢
    split at h
    · rename_i ds hl
      cases hg : (getDeclaration s n ds fl).1 with
      | none => simp [hg] at h
      | some ds' =>
        simp only [hg] at h ⊢
        have hle := getDeclaration_le s n ds ds' fl hg
        intro m hm
        rcases List.mem_cons.1 hm with rfl | hm
        · have h0 : AllCached fl [m] ((getDeclaration s m ds fl).2.bind m (.sub ds')) := fun x hx => by
            simp only [List.mem_singleton] at hx
            subst hx
            exact ⟨ds', by simp [lookup_bind], hle.2⟩
          exact (h0.ext (evalAll_ext fl rest _)) m (by simp)
        · exact ih _ h m hm
    · cases h

/-- same bindings (the second compilation re-binds every definition to itself) -/
def LookupEq (s s' : State) : Prop := ∀ n, s'.lookup n = s.lookup n

theorem evalAll_noop (fl : Flavour) (names : List Name) (s : State) (h : AllCached fl names s) :
    (evalAll fl names s).1 = true ∧ LookupEq s (evalAll fl names s).2 := by
  induction names generalizing s with
  | nil => exact ⟨rfl, fun _ => rfl⟩
  | cons n rest ih =>
    obtain ⟨d, hl, hc⟩ := h n List.mem_cons_self
    obtain ⟨c, hc'⟩ := Option.isSome_iff_exists.1 hc
    simp only [evalAll, hl, getDeclaration_cached s n d fl c hc']
    have heq : LookupEq s (s.bind n (.sub d)) := fun m => by
      rw [lookup_bind]
      by_cases hm : m = n
      · simp [hm, hl]
      · simp [hm]
    have h' : AllCached fl rest (s.bind n (.sub d)) := fun m hm => by
      obtain ⟨d', hl', hc''⟩ := h m (List.mem_cons_of_mem _ hm)
      exact ⟨d', by rw [heq m]; exact hl', hc''⟩
    have := ih _ h'
    exact ⟨this.1, fun m => (this.2 m).trans (heq m)⟩

theorem getSlots_ext {s s' : State} (he : Ext s s') {l : List Name} {xs : List Slot} (h : getSlots s l = some xs) :
    getSlots s' l = some xs := by
  induction l generalizing xs with
  | nil => exact h
  | cons n rest ih =>
    simp only [getSlots] at h ⊢
    split at h
    · rename_i y ys hl hr
      obtain ⟨o', hl', hle⟩ := he n _ hl
      have : o' = .slot y := by cases o' <;> simp_all [ObjLe]
      subst this
      simp [hl', ih hr, h]
    · cases h

theorem getAbis_ext {s s' : State} (he : Ext s s') {l : List Name} {xs : List Storage} (h : getAbis s l = some xs) :
    getAbis s' l = some xs := by
  induction l generalizing xs with
  | nil => exact h
  | cons n rest ih =>
    simp only [getAbis] at h ⊢
    split at h
    · rename_i y ys hl hr
      obtain ⟨o', hl', hle⟩ := he n _ hl
      have : o' = .abi y := by cases o' <;> simp_all [ObjLe]
      subst this
      simp [hl', ih hr, h]
    · cases h

theorem getSubIds_ext {s s' : State} (he : Ext s s') {l : List Name} {xs : List (Nat × Name)}
    (h : getSubIds s l = some xs) : getSubIds s' l = some xs := by
  induction l generalizing xs with
  | nil => exact h
  | cons n rest ih =>
    simp only [getSubIds] at h ⊢
    split at h
    · rename_i d ds hl hr
      obtain ⟨o', hl', hle⟩ := he n _ hl
      cases o' with
      | sub d' =>
        simp only [Option.some.injEq] at h
        subst h
        simp [hl', ih hr, hle.1]
      | slot x => simp [ObjLe] at hle
      | abi a => simp [ObjLe] at hle
      | router r => simp [ObjLe] at hle
    · cases h

theorem getDecls_lookupEq {s s' : State} (he : LookupEq s s') (fl : Flavour) (l : List Name) :
    getDecls s' fl l = getDecls s fl l := by
  induction l with
  | nil => rfl
  | cons n rest ih => simp only [getDecls, he n, ih]

theorem compileTail_compiled (sortf : List Slot → List Slot) (e : Bool × State) (ms : List Slot) (ma : List Storage)
    (subs : List Name) (extra : List (Nat × Decl)) (fl : Flavour) (r : CompileResult) :
    (compileTail sortf e ms ma subs extra fl none).2 = .compiled r ↔
      e.1 = true ∧ ∃ decls, getDecls e.2 fl subs = some decls ∧ compileObjsWith sortf ms ma (decls ++ extra) = .ok r := by
  unfold compileTail
  cases he : e.1 with
  | false => simp
  | true =>
    simp only [Bool.true_eq_false, if_false, true_and, reduceCtorEq]
    cases hd : getDecls e.2 fl subs with
    | none => simp
    | some decls =>
      simp only [Option.some.injEq, exists_eq_left']
      cases hc : compileObjsWith sortf ms ma (decls ++ extra) with
      | error err => simp
      | ok res => simp

/-- the compile operation, once its names resolve -/
theorem compileProg_eq (s : State) (p : Prog) (version : Nat) (fpOpt : Option Bool) (fp : Bool) (ms : List Slot)
    (ma : List Storage) (ids : List (Nat × Name)) (hu : useFp version fpOpt = some fp)
    (hs : getSlots s p.slots = some ms) (ha : getAbis s p.abis = some ma)
    (hf : (hasFrame ma && !decide (8 ≤ version)) = false) (hi : getSubIds s p.subs = some ids) :
    compileProg sortById s p version fpOpt none =
      compileTail sortById (evalAll (flavourOf fp) (evalOrder false p.subs ids) s) ms ma p.subs [] (flavourOf fp) none := by
  simp [compileProg, compileWith, hu, hs, ha, hf, hi]

theorem compileProg_compiled (s : State) (p : Prog) (version : Nat) (fpOpt : Option Bool) (r : CompileResult)
    (h : (compileProg sortById s p version fpOpt none).2 = .compiled r) :
    ∃ fp ms ma ids, useFp version fpOpt = some fp ∧ getSlots s p.slots = some ms ∧ getAbis s p.abis = some ma ∧
      (hasFrame ma && !decide (8 ≤ version)) = false ∧ getSubIds s p.subs = some ids := by
  unfold compileProg at h
  cases hu : useFp version fpOpt with
  | none => simp [hu] at h
  | some fp =>
    cases hs : getSlots s p.slots with
    | none => simp [hu, hs] at h
    | some ms =>
      cases ha : getAbis s p.abis with
      | none => simp [hu, hs, ha] at h
      | some ma =>
        simp only [hu, hs, ha] at h
        unfold compileWith at h
        cases hf : (hasFrame ma && !decide (8 ≤ version)) with
        | true => simp [hf] at h
        | false =>
          cases hi : getSubIds s p.subs with
          | none => simp [hf, hi] at h
          | some ids => exact ⟨fp, ms, ma, ids, rfl, rfl, rfl, hf, rfl⟩

/-- **`compile_idempotent`**: compiling the same objects again, with the same version and options,
    gives the same result (the first compilation only fills declaration caches; the model compile is
    a function of the program's objects and builds its slot program afresh). -/
theorem compile_idempotent (s : State) (p : Prog) (version : Nat) (fpOpt : Option Bool) (r : CompileResult)
    (h : (step s (.compile p version fpOpt none)).2 = .compiled r) :
    (step (step s (.compile p version fpOpt none)).1 (.compile p version fpOpt none)).2 = .compiled r := by
  have hstep : ∀ t, step t (.compile p version fpOpt none) = compileProg sortById t p version fpOpt none := fun _ => rfl
  rw [hstep] at h ⊢
  rw [hstep]
  obtain ⟨fp, ms, ma, ids, hu, hs, ha, hf, hi⟩ := compileProg_compiled s p version fpOpt r h
  have e1 := compileProg_eq s p version fpOpt fp ms ma ids hu hs ha hf hi
  rw [e1] at h ⊢
  rw [compileTail_fst]
  obtain ⟨hb, decls, hd, hc⟩ := (compileTail_compiled _ _ _ _ _ _ _ _).1 h
  -- the state after the first compilation extends `s`, with every declaration cached
  have hext := evalAll_ext (flavourOf fp) (evalOrder false p.subs ids) s
  have hcached := evalAll_cached (flavourOf fp) (evalOrder false p.subs ids) s hb
  have e2 := compileProg_eq _ p version fpOpt fp ms ma ids hu (getSlots_ext hext hs) (getAbis_ext hext ha) hf
    (getSubIds_ext hext hi)
  rw [e2]
  have hnoop := evalAll_noop (flavourOf fp) (evalOrder false p.subs ids) _ hcached
  exact (compileTail_compiled _ _ _ _ _ _ _ _).2 ⟨hnoop.1, decls, by rw [getDecls_lookupEq hnoop.2]; exact hd, hc⟩

/-! ## Regression witness: the code before commit 6bedda4 -/

/-- a version-8 program whose only subroutine raises in its body -/
def leakHistory : List SOp :=
  [.newSubroutine 1 ⟨1, 0, 0, false, false, true⟩, .compile ⟨[], [], [1]⟩ 8 none none]

/-- an unrelated program: `x = abi.Uint64()` in the main routine, compiled at version 8 -/
def abiTarget : List SOp := [.newAbiValue 2, .compile ⟨[], [2], []⟩ 8 none none]

/-- on the code AS IT IS: the compilation fails out of the subroutine body, the marker is unset
    afterwards, and the unrelated ABI value lives in scratch slot 0 exactly as in a fresh process
    (an instance of `session_inv` / `compile_history_independent`, computed) -/
theorem session_counterexample_fixed :
    observe leakHistory init = [.unit, .raised .body] ∧
    (run leakHistory init).currentProto = none ∧
    observeTarget abiTarget (run leakHistory init) = [.unit, .compiled ⟨[], [.slot (some 0)], [], [], [], false⟩] ∧
    observeTarget abiTarget (run [] init) = [.unit, .compiled ⟨[], [.slot (some 0)], [], [], [], false⟩] := by
  decide

/-- **`session_counterexample_old`** (REGRESSION WITNESS for fix 6bedda4, on `evaluateOld` /
    `evalDeclarationOld`, the model of `_frame_pointer_context` without `try/finally`): evaluating
    the frame-pointer declaration of a subroutine whose body raises left `currentProto` set to that
    subroutine's proto, and the next `alloc_abstract_var` — an unrelated `abi.Uint64()` in a main
    routine — returned frame variable 0 of that dead proto (`frame_bury 0 / frame_dig 0` outside
    any frame), where the present code returns a scratch variable.  harness/props/c11.py replays
    this history on the real code and reports a VIOLATION if the old behaviour ever comes back. -/
theorem session_counterexample_old :
    let s := (step init (.newSubroutine 1 ⟨1, 0, 0, false, false, true⟩)).1
    (evalDeclarationOld s 1 .fp).2 = true ∧
    (evalDeclarationOld s 1 .fp).1.currentProto = some ⟨1, 0⟩ ∧
    (allocAbi (evalDeclarationOld s 1 .fp).1).1 = .frame 1 0 ∧
    (step s (.evalDeclaration 1 .fp)).2 = .raised .body ∧
    (step s (.evalDeclaration 1 .fp)).1.currentProto = none ∧
    (allocAbi (step s (.evalDeclaration 1 .fp)).1).1 = .scratch ⟨0, 256, false⟩ := by
  decide

/-! ## What remains false: the tie-break of `sorted(allSlots, key=id)` after a router re-compilation -/

/-- no compilation of the observation list had colliding slot ids -/
def NoTieObs : Obs → Prop
  | .compiled r => r.tie = false
  | _ => True

instance : DecidablePred NoTieObs := fun o => by
  cases o <;> simp only [NoTieObs] <;> infer_instance

theorem isReorder_of_isSortById {sortf : List Slot → List Slot} (hs : IsSortById sortf) : IsReorder sortf :=
  fun l => (hs l).1

/-- every error of a compilation is raised before the sort is consulted -/
theorem compileObjsWith_error_iff {sortf : List Slot → List Slot} (hs : IsSortById sortf) (ms : List Slot)
    (ma : List Storage) (subs : List (Nat × Decl)) (e : PyTealV.Models.Slots.Err) :
    compileObjsWith sortf ms ma subs = .error e ↔ compileObjs ms ma subs = .error e := by
  have key : ∀ (f : List Slot → List Slot), IsReorder f →
      (compileObjsWith f ms ma subs = .error e ↔
        assignWith f (slotProgram (ms ++ storageSlots ma) ((sortByKey subs).map (·.2))) = .error e) := by
    intro f _
    simp only [compileObjsWith]
    cases assignWith f (slotProgram (ms ++ storageSlots ma) ((sortByKey subs).map (·.2))) with
    | ok r => simp
    | error e' => simp
  unfold compileObjs
  rw [key sortf (isReorder_of_isSortById hs), key sortById sortById_isReorder, assignWith_error (isReorder_of_isSortById hs),
    assignWith_error sortById_isReorder]

/-- the model's result is the result for EVERY sort-by-id, unless ids collide -/
theorem compileObjsWith_eq {sortf : List Slot → List Slot} (hs : IsSortById sortf) (ms : List Slot)
    (ma : List Storage) (subs : List (Nat × Decl))
    (hn : ∀ r, compileObjs ms ma subs = .ok r → r.tie = false) :
    compileObjsWith sortf ms ma subs = compileObjs ms ma subs := by
  cases hc : compileObjs ms ma subs with
  | ok r => rw [← hc]; exact compile_tiebreak_irrelevant hs ms ma subs ((tie_flag_spec hc).1 (hn r hc))
  | error e => exact (compileObjsWith_error_iff hs ms ma subs e).2 hc

theorem compileTail_tiebreak {sortf : List Slot → List Slot} (hs : IsSortById sortf) (r : Bool × State)
    (ms : List Slot) (ma : List Storage) (subs : List Name) (extra : List (Nat × Decl)) (fl : Flavour)
    (failsAt : Option Stage) (hn : NoTieObs (compileTail sortById r ms ma subs extra fl failsAt).2) :
    compileTail sortf r ms ma subs extra fl failsAt = compileTail sortById r ms ma subs extra fl failsAt := by
  unfold compileTail at hn ⊢
  cases hb : r.1 with
  | false => rfl
  | true =>
    simp only [hb, Bool.true_eq_false, if_false] at hn ⊢
    cases hd : getDecls r.2 fl subs with
    | none => rfl
    | some decls =>
      simp only [hd] at hn ⊢
      cases hc : compileObjsWith sortById ms ma (decls ++ extra) with
      | error e =>
        rw [(compileObjsWith_error_iff hs ms ma (decls ++ extra) e).2 hc]
      | ok res =>
        simp only [hc] at hn
        by_cases hl : failsAt = some Stage.late
        · -- the late failure hides the result; the other sort does not fail earlier either
          cases hc' : compileObjsWith sortf ms ma (decls ++ extra) with
          | error e =>
            have := (compileObjsWith_error_iff hs ms ma (decls ++ extra) e).1 hc'
            unfold compileObjs at this
            rw [hc] at this
            cases this
          | ok res' => simp [hl]
        · simp only [hl, if_false] at hn
          have : compileObjsWith sortf ms ma (decls ++ extra) = compileObjs ms ma (decls ++ extra) := by
            apply compileObjsWith_eq hs
            intro res'' hres
            unfold compileObjs at hres
            rw [hc] at hres
            cases hres
            exact hn
          unfold compileObjs at this
          rw [this, hc]

theorem compileWith_tiebreak {sortf : List Slot → List Slot} (hs : IsSortById sortf) (s : State) (ms : List Slot)
    (ma : List Storage) (subs : List Name) (extra : List (Nat × Decl)) (version : Nat) (fp : Bool)
    (failsAt : Option Stage) (inOrder : Bool)
    (hn : NoTieObs (compileWith sortById s ms ma subs extra version fp failsAt inOrder).2) :
    compileWith sortf s ms ma subs extra version fp failsAt inOrder =
      compileWith sortById s ms ma subs extra version fp failsAt inOrder := by
  unfold compileWith at hn ⊢
  split
  · rfl
  · split
    · rfl
    · cases hi : getSubIds s subs with
      | none => rfl
      | some ids =>
        rename_i h1 h2
        simp only [h1, h2, hi, if_false] at hn
        exact compileTail_tiebreak hs _ ms ma subs extra _ failsAt hn

/-- one API call under another tie-break: the same successor state and, unless slot ids collide in
    its compilation, the same observation -/
theorem stepWith_tiebreak {sortf : List Slot → List Slot} (hs : IsSortById sortf) (s : State) (op : SOp)
    (hn : NoTieObs (step s op).2) : stepWith sortf s op = step s op := by
  unfold step at hn ⊢
  cases op with
  | compile p version fpOpt failsAt =>
    simp only [stepWith, compileProg] at hn ⊢
    cases hu : useFp version fpOpt with
    | none => rfl
    | some fp =>
      cases hsl : getSlots s p.slots with
      | none => rfl
      | some ms =>
        cases ha : getAbis s p.abis with
        | none => rfl
        | some ma =>
          simp only [hu, hsl, ha] at hn ⊢
          exact compileWith_tiebreak hs s ms ma p.subs [] version fp failsAt false hn
  | routerCompile r version =>
    simp only [stepWith, routerCompile] at hn ⊢
    cases hl : s.lookup r with
    | none => rfl
    | some o =>
      cases o with
      | router rs =>
        simp only [hl] at hn ⊢
        cases hb : (buildMethods (decide (8 ≤ version)) rs.methods s).1 with
        | none => rfl
        | some built =>
          simp only [hb] at hn ⊢
          rw [compileWith_tiebreak hs _ [] built.mainAbis (rs.methods.map (·.1)) built.casters version _ none _ hn]
      | slot x => rfl
      | abi a => rfl
      | sub d => rfl
  | newSlot x => rfl
  | newSlotReq x n => rfl
  | newSubroutine d info => rfl
  | evalDeclaration d fl => rfl
  | probeInfo d => rfl
  | storeInto d => rfl
  | newAbiValue x => rfl
  | tmpl n => rfl
  | newRouter r methods => rfl
  | routerBuild r version => rfl

theorem observeWith_tiebreak {sortf : List Slot → List Slot} (hs : IsSortById sortf) (ops : List SOp) (s : State)
    (hn : ∀ o ∈ observe ops s, NoTieObs o) : observeWith sortf ops s = observe ops s := by
  induction ops generalizing s with
  | nil => rfl
  | cons op rest ih =>
    have h1 : NoTieObs (step s op).2 := hn _ (by simp [observe, observeWith, step])
    have hst := stepWith_tiebreak hs s op h1
    unfold step at hst
    simp only [observe, observeWith] at hn ih ⊢
    rw [hst, ih _ (fun o ho => hn o (List.mem_cons_of_mem _ ho))]

/-
  FULL STATEMENT about the code (FALSE, see `router_recompile_counterexample`):
    theorem compile_history_independent_anysort : ∀ sortf sortf', IsSortById sortf → IsSortById sortf' →
      ∀ h₁ h₂ target, observeWith sortf target (run h₁ init).forgetNames
                       = observeWith sortf' target (run h₂ init).forgetNames
  i.e. the TEAL of a target is a function of the target alone, whatever order CPython iterates the
  set `allSlots` in.
-/

/-- **`compile_history_independent_anysort_partial`**: for a target none of whose compilations has
    colliding slot ids (every target except one that calls `Router.compile_program` again below
    version 8, see `router_recompile_counterexample`), the observations are the same after any two
    histories AND under any two tie-breaks of `sorted(allSlots, key=id)`: nothing CPython's set
    order, the hash seed or the addresses of objects could change. -/
theorem compile_history_independent_anysort_partial {sortf sortf' : List Slot → List Slot}
    (hs : IsSortById sortf) (hs' : IsSortById sortf') (h₁ h₂ target : List SOp)
    (hn : ∀ o ∈ observe target init, NoTieObs o) :
    observeWith sortf target (run h₁ init).forgetNames = observeWith sortf' target (run h₂ init).forgetNames := by
  have e₁ := observeTarget_after_history h₁ target
  have e₂ := observeTarget_after_history h₂ target
  unfold observeTarget at e₁ e₂
  rw [observeWith_tiebreak hs target _ (by rw [e₁]; exact hn), observeWith_tiebreak hs' target _ (by rw [e₂]; exact hn),
    e₁, e₂]

/-- two methods with an output on one router, compiled twice below version 8 -/
def routerSession : List SOp :=
  [.newSubroutine 1 ⟨1, 1, 0, true, false, false⟩, .newSubroutine 2 ⟨1, 0, 0, true, false, false⟩,
   .newRouter 3 [(1, 2), (2, 2)], .routerCompile 3 6, .routerCompile 3 6]

/-- **`router_recompile_counterexample`** (the finding that REMAINS: key
    `C11-router-recompile-slot-id-collision`): the first `compile_program` has no id collision; the
    second one re-builds the wrappers at the rewound counter, so their new slot objects carry the ids
    of the slot objects cached in the first method's declaration (`tie`), the numbering differs
    from the first compilation, and two functions that both sort by id (first- and last-occurrence
    tie-break, i.e. two iteration orders of the same set) give DIFFERENT numberings: the result is
    not determined by the program.  Replayed on the real code by harness/props/c11.py
    (key `C11-router-recompile-slot-id-collision`). -/
theorem router_recompile_counterexample :
    (observe routerSession init)[3]? =
      some (.compiled ⟨[], [.slot (some 0), .slot (some 1), .slot (some 5), .slot (some 6)], [0, 1],
        [[some 2, some 3, some 4], [some 7, some 8]], [[], []], false⟩) ∧
    (observe routerSession init)[4]? =
      some (.compiled ⟨[], [.slot (some 0), .slot (some 1), .slot (some 2), .slot (some 4)], [0, 1],
        [[some 3, some 5, some 6], [some 7, some 8]], [[], []], true⟩) ∧
    (observeWith (fun l => sortById l.reverse) routerSession init)[4]? =
      some (.compiled ⟨[], [.slot (some 0), .slot (some 1), .slot (some 3), .slot (some 5)], [0, 1],
        [[some 2, some 4, some 6], [some 7, some 8]], [[], []], true⟩) ∧
    IsSortById (fun l => sortById l.reverse) ∧
    (run routerSession init).nextSlotId = NUM_SLOTS := by
  refine ⟨by decide, by decide, by decide, sortById_reverse_isSortById, by decide⟩

/-! ## Non-vacuity -/

/-- a non-trivial history: slots, a requested id given twice (compile error), a failure injected
    in the main routine, a late failure, probing, subroutine bodies that raise under the scratch
    convention (inside `store_into`, swallowed) and under frame pointers (in a version-8 compilation
    and in a probe), a router compiled three times -/
def quietHistory : List SOp :=
  [.newSlot 1, .newSlotReq 2 17, .newSlotReq 3 17, .newSubroutine 4 ⟨2, 1, 1, false, false, false⟩,
   .compile ⟨[1, 2, 3], [], [4]⟩ 8 none none, .compile ⟨[1, 2], [], [4]⟩ 6 none (some .mainTeal),
   .compile ⟨[1, 2], [], [4]⟩ 6 none (some .late), .probeInfo 4, .newSlotReq 5 300,
   .newSubroutine 6 ⟨1, 0, 1, true, true, false⟩, .storeInto 6, .newSubroutine 7 ⟨1, 1, 0, true, false, false⟩,
   .newSubroutine 9 ⟨1, 0, 1, true, false, false⟩,
   .newRouter 8 [(7, 2), (9, 2)], .routerCompile 8 6, .routerCompile 8 8, .routerCompile 8 6, .tmpl 3,
   .newSubroutine 10 ⟨1, 2, 2, false, false, true⟩, .compile ⟨[1], [], [4, 10]⟩ 9 none none, .probeInfo 10]

/-- … in which compilations do fail, bodies do raise (swallowed and not) and a re-compilation does
    hit an id collision -/
example : (observe quietHistory init)[4]? = some (.raised (.slots .dupRequested)) ∧
    (observe quietHistory init)[5]? = some (.raised (.stage .mainTeal)) ∧
    (observe quietHistory init)[6]? = some (.raised (.stage .late)) ∧
    (observe quietHistory init)[8]? = some (.raised .input) ∧
    (observe quietHistory init)[10]? = some .unit ∧
    ((observe quietHistory init)[16]?).map (fun o => match o with | .compiled r => r.tie | _ => false) = some true ∧
    (observe quietHistory init)[19]? = some (.raised .body) ∧
    (observe quietHistory init)[20]? = some (.raised .body) ∧
    (run quietHistory init).currentProto = none := by
  decide

/-- a target with slots, ABI values and two subroutines: same observations after both histories -/
def richTarget : List SOp :=
  [.newSubroutine 1 ⟨1, 2, 1, false, false, false⟩, .newSlot 2, .newAbiValue 3, .newSlotReq 4 0,
   .newSubroutine 5 ⟨0, 1, 2, false, false, false⟩, .compile ⟨[2, 4], [3], [5, 1]⟩ 8 none none,
   .compile ⟨[2, 4], [3], [5, 1]⟩ 6 none none]

example : observeTarget richTarget (run quietHistory init) = observeTarget richTarget (run leakHistory init) :=
  compile_history_independent quietHistory leakHistory richTarget

/-- … and under another tie-break: the rich target has no id collision -/
example : observeWith (fun l => sortById l.reverse) richTarget (run quietHistory init).forgetNames =
    observeWith sortById richTarget (run [] init).forgetNames :=
  compile_history_independent_anysort_partial sortById_reverse_isSortById sortById_isSortById quietHistory []
    richTarget (by decide)

example : observeTarget richTarget (run [] init) =
    [.unit, .unit, .unit, .unit, .unit,
     .compiled ⟨[some 1, some 0], [.slot (some 2)], [1, 0], [[some 5], [some 3, some 4]], [[.frame 0, .frame 1], [.frame 0]], false⟩,
     .compiled ⟨[some 1, some 0], [.slot (some 2)], [1, 0], [[some 7, some 8, some 9], [some 3, some 4, some 5, some 6]],
       [[.slot (some 8), .slot (some 9)], [.slot (some 6)]], false⟩] := by decide

/-- `compile_idempotent` applies: the first compilation of the rich target succeeds -/
example : (step (run (richTarget.take 5) init) (.compile ⟨[2, 4], [3], [5, 1]⟩ 8 none none)).2 =
    .compiled ⟨[some 1, some 0], [.slot (some 2)], [1, 0], [[some 5], [some 3, some 4]],
      [[.frame 0, .frame 1], [.frame 0]], false⟩ := by decide

/-- an order isomorphism in the sense of `compile_rel_order_only` that is not a shift -/
example : OrderIso (fun x : Slot => ⟨x.obj, if x.reserved then x.id else 2 * x.id + 7, x.reserved⟩)
    [⟨0, 256, false⟩, ⟨1, 300, false⟩, ⟨2, 5, true⟩] := by
  refine ⟨?_, fun a => rfl, fun a ha => by simp [ha], by decide⟩
  intro a b h
  obtain ⟨ao, ai, ar⟩ := a
  obtain ⟨bo, bi, br⟩ := b
  simp only [Slot.mk.injEq] at h ⊢
  obtain ⟨h1, h2, h3⟩ := h
  subst h3
  refine ⟨h1, ?_, rfl⟩
  cases ar <;> simp at h2 <;> omega

end PyTealV.Proofs.C11
