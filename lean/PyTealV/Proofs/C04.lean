/-
  C04 — successful compilation yields complete, target-legal TEAL.

  1. Finite-table theorems (`decide` over the COMPLETE regenerated tables `Gen.opTable`,
     `Gen.txnFields`, `Gen.globalFields`, `Gen.simpleFields`): PyTeal's op/field tables agree with
     the hand-written `OpSpec`.  A changed `min_version` in `/repo` changes `Gen/*.lean` and breaks
     this file's build.
  2. Soundness of `Flow.wf` for control: for every context, input world and fuel the machine
     never fails with `badPc`, `badLabel _` or `retsub with empty call stack`, never reaches the
     end of the text, and always executes inside the routine it was called into.
  3. Soundness of `Flow.wf` for legality: no `.fail (.illegal _)`.
-/
import PyTealV.OpSpec
import PyTealV.Gen.OpTable
import PyTealV.Gen.FieldTable
import PyTealV.Check.Flow
import PyTealV.Proofs.C04Legal
import PyTealV.Models.LabelText
import PyTealV.Proofs.AnnotLemmas
namespace PyTealV.Proofs.C04

-- the kernel evaluations below allocate heavily; checked one after the other they are several times
-- faster than in parallel
set_option Elab.async false
open PyTealV PyTealV.Avm PyTealV.Util PyTealV.Check.Flow PyTealV.Proofs.C04L

/-! ## 1. Table agreement

Each regenerated table comes twice: with `String` names and (`…K`) with names as code-point
lists.  `…K_ok` shows in one pass that the two are the same table; the look-ups, which are
quadratic, run on the `K` form (number literals are cheap for the kernel, strings are not). -/

/-- a name as the list of its code points -/
abbrev key (s : String) : OpSpec.Nm := OpSpec.Nm.ofString s
abbrev Nm := OpSpec.Nm

theorem opTableK_ok : Gen.opTable.map (fun e => (key e.1, e.2)) = Gen.opTableK := by decide +kernel
theorem txnFieldsK_ok : Gen.txnFields.map (fun e => (key e.1, e.2)) = Gen.txnFieldsK := by decide +kernel
theorem globalFieldsK_ok : Gen.globalFields.map (fun e => (key e.1, e.2)) = Gen.globalFieldsK := by decide +kernel
theorem simpleFieldsK_ok :
    Gen.simpleFields.map (fun e => (key e.1, key e.2.1, e.2.2)) = Gen.simpleFieldsK := by decide +kernel

theorem optableK_agrees :
    ∀ e ∈ Gen.opTableK, 2 ≤ e.2.1 → e.2.1 ≤ 10 → OpSpec.lookupNm e.1 = some e.2 := by decide +kernel

theorem optableK_range :
    ∀ e ∈ Gen.opTableK, (e.2.1 < 2 → e.1 = n!"//") ∧ (10 < e.2.1 → OpSpec.lookupNm e.1 = none) := by decide +kernel

/-- **Every PyTeal op with `2 ≤ min_version ≤ 10` is an `OpSpec` op with the same minimum
    version and the same modes** (complete regenerated table). -/
theorem optable_agrees :
    ∀ e ∈ Gen.opTable, 2 ≤ e.2.1 → e.2.1 ≤ 10 → OpSpec.lookup e.1 = some (e.2.1, e.2.2.1, e.2.2.2) := by
  intro e he h1 h2
  have hm : (key e.1, e.2) ∈ Gen.opTableK := by
    rw [← opTableK_ok]; exact List.mem_map.mpr ⟨e, he, rfl⟩
  exact optableK_agrees _ hm h1 h2

/-- Outside that range: only the comment pseudo-op is below 2, and what PyTeal dates after v10
    is unknown to `OpSpec` (so `wf` rejects it at every version ≤ 10). -/
theorem optable_range :
    ∀ e ∈ Gen.opTable, (e.2.1 < 2 → key e.1 = n!"//") ∧ (10 < e.2.1 → OpSpec.lookup e.1 = none) := by
  intro e he
  have hm : (key e.1, e.2) ∈ Gen.opTableK := by
    rw [← opTableK_ok]; exact List.mem_map.mpr ⟨e, he, rfl⟩
  exact optableK_range _ hm

theorem txnfieldsK_agree :
    ∀ e ∈ Gen.txnFieldsK, e.2.1 ≤ 10 →
      (OpSpec.txnFieldNm? e.1).map (fun f => (max 2 f.minV, f.isArray, f.isUint)) = some e.2 := by
  decide +kernel

theorem txnfields_agree :
    ∀ e ∈ Gen.txnFields, e.2.1 ≤ 10 →
      (OpSpec.txnField? e.1).map (fun f => (max 2 f.minV, f.isArray, f.isUint)) = some (e.2.1, e.2.2.1, e.2.2.2) := by
  intro e he h
  have hm : (key e.1, e.2) ∈ Gen.txnFieldsK := by
    rw [← txnFieldsK_ok]; exact List.mem_map.mpr ⟨e, he, rfl⟩
  exact txnfieldsK_agree _ hm h

theorem globalfieldsK_agree :
    ∀ e ∈ Gen.globalFieldsK,
      (e.2.1 ≤ 10 → (OpSpec.globalFieldNm? e.1).map (fun f => (max 2 f.minV, f.isUint)) = some e.2) ∧
      (10 < e.2.1 → OpSpec.globalFieldNm? e.1 = none) := by
  decide +kernel

theorem globalfields_agree :
    ∀ e ∈ Gen.globalFields,
      (e.2.1 ≤ 10 → (OpSpec.globalField? e.1).map (fun f => (max 2 f.minV, f.isUint)) = some (e.2.1, e.2.2)) ∧
      (10 < e.2.1 → OpSpec.globalField? e.1 = none) := by
  intro e he
  have hm : (key e.1, e.2) ∈ Gen.globalFieldsK := by
    rw [← globalFieldsK_ok]; exact List.mem_map.mpr ⟨e, he, rfl⟩
  exact globalfieldsK_agree _ hm

def groupTable : List (Nm × OpSpec.FG) := [
  (n!"asset_holding", .assetHolding), (n!"asset_params", .assetParams), (n!"app_params", .appParams),
  (n!"acct_params", .acctParams), (n!"base64", .base64), (n!"json", .json), (n!"ecdsa", .ecdsa),
  (n!"vrf", .vrf), (n!"block", .block), (n!"ec", .ec)]

def groupOf (g : Nm) : Option OpSpec.FG := (groupTable.find? (·.1 == g)).map (·.2)

/-- entries excluded from `simplefields_agree`:
    * `asset_params_get AssetCreator` — GENUINE DISAGREEMENT: the AVM introduced it in v5; PyTeal has
      no per-field version for `AssetParam`, so it is emitted from v2 (finding
      `C04-assetcreator-below-v5`, see `assetcreator_spec`);
    * `vrf_verify VrfChainlink` — UNSETTLED (`OpSpec.unsettled`): removed from the claim. -/
def excluded : List (Nm × Nm) := [(n!"asset_params", n!"AssetCreator"), (n!"vrf", n!"VrfChainlink")]

/-- (group, name, min_version, declared type) agrees with `OpSpec.simpleFields` -/
def simpleAgrees (e : Nm × Nm × Nat × Option Bool) : Bool :=
  match groupOf e.1 with
  | none => false
  | some g =>
    if e.2.2.1 ≤ 10 then
      match OpSpec.simpleFieldNm? g e.2.1 with
      | some f => max 2 f.minV == e.2.2.1 && (e.2.2.2 == none || e.2.2.2 == some f.isUint)
      | none => false
    else (OpSpec.simpleFieldNm? g e.2.1).isNone

theorem simplefieldsK_agree :
    ∀ e ∈ Gen.simpleFieldsK, (e.1, e.2.1) ∉ excluded → simpleAgrees e = true := by
  decide +kernel

theorem simplefields_agree :
    ∀ e ∈ Gen.simpleFields, (key e.1, key e.2.1) ∉ excluded →
      simpleAgrees (key e.1, key e.2.1, e.2.2) = true := by
  intro e he h
  have hm : (key e.1, key e.2.1, e.2.2) ∈ Gen.simpleFieldsK := by
    rw [← simpleFieldsK_ok]; exact List.mem_map.mpr ⟨e, he, rfl⟩
  exact simplefieldsK_agree _ hm h

/-- **The field tables of PyTeal agree with `OpSpec`** (transaction fields: minimum version,
    array-ness, type; `global` fields: minimum version, type; the other named immediates: group,
    minimum version, declared type) — complete regenerated tables, except `excluded`. -/
theorem fieldtable_agrees :
    (∀ e ∈ Gen.txnFields, e.2.1 ≤ 10 →
      (OpSpec.txnField? e.1).map (fun f => (max 2 f.minV, f.isArray, f.isUint)) = some (e.2.1, e.2.2.1, e.2.2.2)) ∧
    (∀ e ∈ Gen.globalFields, e.2.1 ≤ 10 →
      (OpSpec.globalField? e.1).map (fun f => (max 2 f.minV, f.isUint)) = some (e.2.1, e.2.2)) ∧
    (∀ e ∈ Gen.simpleFields, (key e.1, key e.2.1) ∉ excluded →
      simpleAgrees (key e.1, key e.2.1, e.2.2) = true) :=
  ⟨txnfields_agree, fun e he h => (globalfields_agree e he).1 h, simplefields_agree⟩

/-- `n!"…"` really is the key of the string -/
example : n!"asset_params_get" = key "asset_params_get" ∧ n!"b==" = key "b==" ∧ n!"" = key "" := by decide +kernel

/-! ### The key encoding is injective: distinct names never share a key -/

theorem enc_inj : ∀ {l l' : List Nat}, (∀ d ∈ l, d < 2097151) → (∀ d ∈ l', d < 2097151) →
    OpSpec.Nm.enc l = OpSpec.Nm.enc l' → l = l'
  | [], [], _, _, _ => rfl
  | [], d :: ds, _, _, h => by simp only [OpSpec.Nm.enc] at h; omega
  | d :: ds, [], _, _, h => by simp only [OpSpec.Nm.enc] at h; omega
  | d :: ds, d' :: ds', h1, h2, h => by
    simp only [OpSpec.Nm.enc] at h
    have b1 := h1 d (by simp)
    have b2 := h2 d' (by simp)
    have hd : d = d' := by omega
    have he : OpSpec.Nm.enc ds = OpSpec.Nm.enc ds' := by omega
    rw [hd, enc_inj (fun x hx => h1 x (by simp [hx])) (fun x hx => h2 x (by simp [hx])) he]

theorem char_lt (c : Char) : c.toNat < 2097151 := by
  have h := c.valid
  unfold UInt32.isValidChar Nat.isValidChar at h
  show c.val.toNat < 2097151
  omega

theorem map_toNat_inj : ∀ {l l' : List Char}, l.map Char.toNat = l'.map Char.toNat → l = l'
  | [], [], _ => rfl
  | [], _ :: _, h => by simp at h
  | _ :: _, [], h => by simp at h
  | a :: as, b :: bs, h => by
    simp only [List.map_cons, List.cons.injEq] at h
    rw [Char.toNat_inj.mp h.1, map_toNat_inj h.2]

theorem key_inj {s t : String} (h : key s = key t) : s = t := by
  unfold key OpSpec.Nm.ofString at h
  have := enc_inj (by intro d hd; simp at hd; obtain ⟨c, _, rfl⟩ := hd; exact char_lt c)
    (by intro d hd; simp at hd; obtain ⟨c, _, rfl⟩ := hd; exact char_lt c) h
  exact String.ext (map_toNat_inj this)

/-- the spec side of the genuine disagreement: `AssetCreator` needs version 5, and `wf` rejects it below -/
theorem assetcreator_spec :
    OpSpec.fieldMinV .assetParams "AssetCreator" = some 5 ∧
    primLegal 4 .app "asset_params_get" ["AssetCreator"] = false ∧
    primLegal 5 .app "asset_params_get" ["AssetCreator"] = true := by
  decide +kernel

/-- `itxn_field` may set only some fields, and only from the version listed in `OpSpec` -/
theorem itxnfield_spec :
    primLegal 5 .app "itxn_field" ["Note"] = false ∧ primLegal 6 .app "itxn_field" ["Note"] = true ∧
    primLegal 10 .app "itxn_field" ["FirstValid"] = false ∧ primLegal 5 .app "itxn_field" ["Receiver"] = true := by
  decide +kernel

/-- immediates that do not fit one byte are not legal (finding `C04-txna-index-over-255`, …) -/
theorem index_over_255_counterexample :
    primLegal 10 .app "txna" ["ApplicationArgs", "300"] = false ∧
    primLegal 10 .app "txna" ["ApplicationArgs", "255"] = true ∧
    primLegal 10 .app "intc" ["256"] = false ∧ primLegal 10 .app "gtxn" ["256", "Sender"] = false := by
  decide +kernel


/-! ## 2. The checker: what `wf = true` means, and that the driver's report decides exactly `wf` -/

/-- the report printed by the driver command `c04-wf` is `ok` exactly when `wf` holds -/
theorem wfReport_ok_iff (p : Program) (v : Nat) (m : Mode) : (wfReport p v m).isOk = wf p v m := by
  unfold wfReport wf
  cases pragmaOK p v <;> cases allLegal v m p <;> cases labelsOK p <;> cases constsOK p <;> cases closed p (colors p) <;>
    simp only [Bool.not_false, Bool.not_true, if_true, if_false, Bool.false_eq_true, Bool.and_true, Bool.and_false] <;>
    (repeat' split) <;> rfl

theorem dupFree_nodup : ∀ {l : List String}, dupFree l = true → l.Nodup
  | [], _ => List.nodup_nil
  | x :: xs, h => by
    simp only [dupFree, Bool.and_eq_true, Bool.not_eq_true', List.contains_eq_mem, decide_eq_false_iff_not] at h
    exact List.nodup_cons.mpr ⟨h.1, dupFree_nodup h.2⟩

/-- (a) the program opens with the matching pragma -/
theorem wf_pragma {p : Program} {v : Nat} {m : Mode} (h : wf p v m = true) :
    ∃ ln, p[0]? = some ln ∧ ln.instr = .pragma "version" (toString v) := by
  have := (wf_parts h).1
  unfold pragmaOK at this
  split at this
  · rename_i ln hl; exact ⟨ln, hl, by simpa using this⟩
  · cases this

/-- (b) every later line is legal for (v, mode) -/
theorem wf_lines {p : Program} {v : Nat} {m : Mode} (h : wf p v m = true) {pc : Nat} {ln : Line}
    (hl : p[pc]? = some ln) (hpc : pc ≠ 0) : lineLegal v m ln = true := by
  rcases allLegal_at (wf_parts h).2.1 hl with h0 | h1
  · exact absurd h0 hpc
  · exact h1

/-- (c) every label is defined exactly once and every branch / callsub target is defined -/
theorem wf_labels {p : Program} {v : Nat} {m : Mode} (h : wf p v m = true) :
    (labelsOf p).Nodup ∧ ∀ l ∈ targetsOf p, l ∈ labelsOf p := by
  have := (wf_parts h).2.2.1
  simp only [labelsOK, Bool.and_eq_true, List.all_eq_true, List.contains_eq_mem, decide_eq_true_eq] at this
  exact ⟨dupFree_nodup this.1, this.2⟩

/-! ## 3. Soundness with respect to the machine (proved in `C04Flow`, `C04Legal`) -/

/-- **Control soundness.**  `wf p v mode = true` ⇒ for all contexts, all initial worlds and all
    path lengths the machine never fails with `badPc` and never with a branch / `callsub` to an
    undefined label. -/
theorem wf_sound_control {p : Program} {v : Nat} {mode : Mode} (h : wf p v mode = true) :
    ∀ (cx : Ctx) (fuel : Nat) (w0 : World),
      Avm.run cx p fuel w0 ≠ .fail .badPc ∧ (∀ l, Avm.run cx p fuel w0 ≠ .fail (.badLabel l)) :=
  C04L.wf_sound_control h

/-- no `retsub` is ever executed with an empty call stack -/
theorem wf_sound_retsub {p : Program} {v : Nat} {mode : Mode} (h : wf p v mode = true) :
    ∀ (cx : Ctx) (fuel : Nat) (w0 : World),
      Avm.run cx p fuel w0 ≠ .fail (.frame "retsub with empty call stack") :=
  C04L.wf_sound_retsub h

/-- **No run-off, no fall-through into another routine.**  Every reachable machine state has its
    pc inside the text, painted with the entry of the routine that is running, and every frame of
    the call stack returns into the routine that made the call. -/
theorem wf_sound_inside {p : Program} {v : Nat} {mode : Mode} (h : wf p v mode = true)
    {cx : Ctx} {w0 : World} {s : St} (hr : Reachable cx p w0 s) :
    s.pc < p.size ∧ ∃ c, same (colors p) c s.pc = true ∧ Good (colors p) c s.calls :=
  C04L.wf_sound_inside h hr

/-- every path inside a routine ends in `return`, `retsub` or `err` (or loops): each painted
    instruction is a terminator or all its successors are painted instructions of the same routine -/
theorem wf_paths {p : Program} {v : Nat} {mode : Mode} (h : wf p v mode = true)
    {pc c : Nat} {ln : Line} (hl : p[pc]? = some ln) (hp : same (colors p) c pc = true) :
    isTerminator ln.instr = true ∨
      (cfgSuccs p pc ln.instr ≠ [] ∧ ∀ t ∈ cfgSuccs p pc ln.instr, t < p.size ∧ same (colors p) c t = true) :=
  C04L.wf_paths h hl hp

/-- **Legality soundness.**  A program accepted by `wf` at (v, mode) that contains no template
    placeholder (`TMPL_…`, a documented feature: such a text is not yet a program), run in a context
    of the checked mode, never fails with `.illegal _`: no unknown opcode, no missing or malformed
    immediate, no opcode outside its mode, no scratch slot above 255, no constant-block load beyond
    the installed block.  Covers every opcode of `OpSpec.table` (all PyTeal can emit up to v10);
    table-driven: `natCompat_ok`, `strCompat_ok`, `modeCompat_ok` in `C04Legal.lean` tie the table
    to the `.illegal` sites found by the traversal of `execPrim` (`execPrim_errs`). -/
theorem wf_sound_illegal {p : Program} {v : Nat} {mode : Mode} (h : wf p v mode = true)
    (ht : hasTemplates p = false) :
    ∀ (cx : Ctx), cx.mode = mode → ∀ (fuel : Nat) (w0 : World) (msg : String),
      Avm.run cx p fuel w0 ≠ .fail (.illegal msg) :=
  C04L.wf_sound_illegal h ht

/-- a template placeholder does make the machine fail with `.illegal` (so the hypothesis is needed) -/
theorem template_counterexample :
    ∃ (p : Program), wf p 6 .app = true ∧ hasTemplates p = true ∧
      ∃ msg, Avm.run { mode := .app } p 5 = .fail (.illegal msg) := by
  refine ⟨#[⟨⟨"#pragma", ["version", "6"]⟩, .pragma "version" "6"⟩, ⟨⟨"int", ["TMPL_X"]⟩, .tmpl "int" "TMPL_X"⟩,
            ⟨⟨"return", []⟩, .ret⟩], by decide +kernel, by decide +kernel, _, rfl⟩

/-! ## 4. Non-vacuity and rejection examples -/

private def L (op : String) (imms : List String) (i : Instr) : Line := ⟨⟨op, imms⟩, i⟩

/-- `#pragma version 6; txna ApplicationArgs 0; callsub f_0; bnz main_l1; int 0; return;
    main_l1: int 1; return; f_0: len; retsub` -/
def exGood : Program := #[
  L "#pragma" ["version", "6"] (.pragma "version" "6"),
  L "txna" ["ApplicationArgs", "0"] (.prim "txna" ["ApplicationArgs", "0"]),
  L "callsub" ["f_0"] (.callsub "f_0"),
  L "bnz" ["main_l1"] (.bnz "main_l1"),
  L "int" ["0"] (.pushInt 0),
  L "return" [] .ret,
  L "main_l1:" [] (.label "main_l1"),
  L "int" ["1"] (.pushInt 1),
  L "return" [] .ret,
  L "f_0:" [] (.label "f_0"),
  L "len" [] (.prim "len" []),
  L "retsub" [] .retsub]

example : wf exGood 6 .app = true ∧ hasTemplates exGood = false := by
  decide +kernel

/-- with constant blocks: `intcblock 5 7; bytecblock 0x00; intc_1; bytec_0; len; +; return` -/
def exConsts : Program := #[
  L "#pragma" ["version", "6"] (.pragma "version" "6"),
  L "intcblock" ["5", "7"] (.intcblock [5, 7]),
  L "bytecblock" ["0x00"] (.bytecblock [[0]]),
  L "intc_1" [] (.intc 1),
  L "bytec_0" [] (.bytec 0),
  L "len" [] (.prim "len" []),
  L "+" [] (.prim "+" []),
  L "return" [] .ret]

example : wf exConsts 6 .sig = true ∧ hasConstLoads exConsts = true ∧ hasTemplates exConsts = false := by
  decide +kernel

/-- a load beyond the installed block is rejected -/
example : wf (exConsts.set! 3 (L "intc" ["2"] (.intc 2))) 6 .sig = false := by decide +kernel

/-- the same program is not a version-2 program (`callsub` needs 4), and a version-6 text is not
    accepted for target 7 -/
example : wf exGood 2 .app = false ∧ wf exGood 7 .app = false := by decide +kernel

/-- main without a final `return` falls into the subroutine: rejected -/
def exFallThrough : Program := #[
  L "#pragma" ["version", "6"] (.pragma "version" "6"),
  L "callsub" ["f_0"] (.callsub "f_0"),
  L "f_0:" [] (.label "f_0"),
  L "int" ["1"] (.pushInt 1),
  L "retsub" [] .retsub]

example : wf exFallThrough 6 .app = false := by decide +kernel

/-- running off the end of the text: rejected -/
def exRunOff : Program := #[
  L "#pragma" ["version", "6"] (.pragma "version" "6"),
  L "int" ["1"] (.pushInt 1)]

example : wf exRunOff 6 .app = false := by decide +kernel

/-- a duplicate label: rejected -/
def exDup : Program := #[
  L "#pragma" ["version", "6"] (.pragma "version" "6"),
  L "b" ["l0"] (.b "l0"),
  L "l0:" [] (.label "l0"),
  L "l0:" [] (.label "l0"),
  L "int" ["1"] (.pushInt 1),
  L "return" [] .ret]

example : wf exDup 6 .app = false := by decide +kernel


/-! ## 5. Label lines: subroutine names in the comment of the entry label

`flatten.py` hands the subroutine's name, unescaped, to `TealLabel` as the comment of the routine's
entry label.  Since the repair 90c7383 `TealLabel.assemble` cuts the comment with `str.splitlines()`
and writes one `// piece` line per piece, so "a label contributes exactly one instruction line,
the label" holds for EVERY comment (`label_lines`).  Before the repair the raw name followed
`// ` and a `\n` in it put the rest of the name on TEAL lines of its own (finding `C04-name-newline`,
now retired; `name_newline_regression` keeps the old text next to the new one).

The hypothesis `'\n' ∉ l` is about the LABEL, not the comment: `LabelReference` takes any string,
but every label the compiler makes is `main_l<k>` or `re.sub("[^A-Za-z0-9]", "", name)_<index>`
(`subLabel_no_newline` below discharges the hypothesis for the second form, for every name). -/

section LabelLines
open PyTealV.Models.LabelText PyTealV.Models.Annot

theorem splitLines_noNewline : ∀ {l : List Char}, '\n' ∉ l → splitLines l = [l]
  | [], _ => rfl
  | c :: cs, h => by
    have hc : c ≠ '\n' := fun e => h (by simp [e])
    have hcs : '\n' ∉ cs := fun e => h (by simp [e])
    simp [splitLines, hc, splitLines_noNewline hcs]

theorem splitLines_append : ∀ {a b : List Char}, '\n' ∉ a → splitLines (a ++ '\n' :: b) = a :: splitLines b
  | [], b, _ => by simp [splitLines]
  | c :: cs, b, h => by
    have hc : c ≠ '\n' := fun e => h (by simp [e])
    have hcs : '\n' ∉ cs := fun e => h (by simp [e])
    simp [splitLines, hc, splitLines_append hcs]

/-- a non-empty block of lines without `\n`, joined by `\n` and followed by `\n`, is read back line by line -/
theorem splitLines_joinNl : ∀ (ls : List (List Char)) (rest : List Char), ls ≠ [] → (∀ p ∈ ls, '\n' ∉ p) →
    splitLines (joinNl ls ++ '\n' :: rest) = ls ++ splitLines rest
  | [], _, hne, _ => absurd rfl hne
  | [a], rest, _, h => by simpa [joinNl] using splitLines_append (b := rest) (h a (by simp))
  | a :: b :: ls, rest, _, h => by
    have ih := splitLines_joinNl (b :: ls) rest (by simp) (fun p hp => h p (by simp [hp]))
    have e : joinNl (a :: b :: ls) ++ '\n' :: rest = a ++ '\n' :: (joinNl (b :: ls) ++ '\n' :: rest) := by
      simp [joinNl]
    rw [e, splitLines_append (h a (by simp)), ih]
    rfl

theorem joinNl_toList : ∀ (ls : List String), ("\n".intercalate ls).toList = joinNl (ls.map String.toList)
  | [] => by simp [joinNl]
  | [a] => by simp [joinNl]
  | a :: b :: ls => by
    rw [String.intercalate_cons_cons, String.toList_append, String.toList_append, joinNl_toList (b :: ls)]
    simp [joinNl]

theorem headerPieces_toList (c : String) : (headerPieces c).map String.toList = piecesChars c.toList := by
  unfold headerPieces piecesChars splitlines
  cases h : splitlinesChars c.toList <;> simp

theorem commentLines_toList (c : String) :
    (headerCommentLines c).map String.toList = commentLinesChars c.toList := by
  rw [commentLinesChars, ← headerPieces_toList]
  simp [headerCommentLines, Function.comp_def, C18.toList_commentOp]

/-- the text model on strings and on character lists agree -/
theorem assemble_toList (c : Option String) (l : String) :
    (assemble c l).toList = assembleChars (c.map String.toList) l.toList := by
  cases c with
  | none => simp [assemble, assembleChars, String.toList_append]
  | some c =>
    have h := joinNl_toList (headerCommentLines c)
    rw [commentLines_toList] at h
    simp only [assemble, assembleChars, String.toList_append, h, Option.map_some]
    simp

theorem piecesChars_ne_nil (c : List Char) : piecesChars c ≠ [] := by
  unfold piecesChars
  split
  · simp
  · assumption

/-- `comment.splitlines() or [""]`: the pieces of `splitlines`, or one empty piece when there is none;
    no piece contains any of the ten line boundaries of `str.splitlines()` -/
theorem piecesChars_spec (c : List Char) :
    (splitlinesChars c = [] → piecesChars c = [[]]) ∧
    (splitlinesChars c ≠ [] → piecesChars c = splitlinesChars c) ∧
    ∀ p ∈ piecesChars c, ∀ x ∈ p, isBreak x = false := by
  refine ⟨fun h => by simp [piecesChars, h], fun h => ?_, ?_⟩
  · unfold piecesChars; split
    · contradiction
    · rfl
  · intro p hp
    unfold piecesChars at hp
    split at hp
    · simp only [List.mem_singleton] at hp; subst hp; simp
    · exact C18.splitlinesChars_piece_chars c p hp

/-- **For every comment** `c` (any characters; no hypothesis) the label text, read line by line as
    the assembler does, is: an empty line, then one line `// piece` per piece of `c.splitlines()`
    (one line `// ` when there is no piece: `piecesChars_spec`), then the label line — and every one
    of the comment lines has no tokens for the TEAL grammar, so the label is the only instruction
    line.  (`'\n' ∉ l`: see the section header; `subLabel_no_newline`.) -/
theorem label_lines (c l : List Char) (hl : '\n' ∉ l) :
    splitLines (assembleChars (some c) l)
      = [] :: ((piecesChars c).map (fun p => '/' :: '/' :: ' ' :: p) ++ [l ++ [':']]) ∧
    ∀ ln ∈ (piecesChars c).map (fun p => '/' :: '/' :: ' ' :: p), tokenise (String.ofList ln) = [] := by
  constructor
  · have hp : ∀ ln ∈ commentLinesChars c, '\n' ∉ ln := by
      intro ln hln hm
      simp only [commentLinesChars, List.mem_map] at hln
      obtain ⟨p, hp, rfl⟩ := hln
      simp only [List.mem_cons] at hm
      rcases hm with hm | hm | hm | hm
      · exact absurd hm (by decide)
      · exact absurd hm (by decide)
      · exact absurd hm (by decide)
      · exact (C18.not_break_ne ((piecesChars_spec c).2.2 p hp _ hm)).1 rfl
    have hne : commentLinesChars c ≠ [] := by simpa [commentLinesChars] using piecesChars_ne_nil c
    have h1 : assembleChars (some c) l = [] ++ '\n' :: (joinNl (commentLinesChars c) ++ '\n' :: (l ++ [':'])) := by
      simp [assembleChars]
    rw [h1, splitLines_append (by simp), splitLines_joinNl _ _ hne hp, splitLines_noNewline (by simp [hl])]
    rfl
  · intro ln hln
    simp only [List.mem_map] at hln
    obtain ⟨p, _, rfl⟩ := hln
    exact C18.tokenise_slashes (' ' :: p)

/-- the same on strings, for the text `assemble` returns -/
theorem label_lines_string (c l : String) (hl : '\n' ∉ l.toList) :
    splitLines (assemble (some c) l).toList
      = [] :: ((headerCommentLines c).map String.toList ++ [(l ++ ":").toList]) ∧
    ∀ ln ∈ headerCommentLines c, tokenise ln = [] := by
  constructor
  · rw [assemble_toList, Option.map_some, (label_lines c.toList l.toList hl).1, commentLines_toList]
    simp [commentLinesChars]
  · intro ln hln
    simp only [headerCommentLines, List.mem_map] at hln
    obtain ⟨p, _, rfl⟩ := hln
    exact C18.comment_line_vanishes p

/-- the label of a subroutine (`resolveSubroutines`: sanitised name, `_`, index) never contains a
    line feed, whatever the name: the hypothesis of `label_lines` holds for every routine header -/
theorem subLabel_no_newline (name : String) (idx : Nat) : '\n' ∉ (subLabel name idx).toList := by
  intro hm
  have e : (subLabel name idx).toList = name.toList.filter isAlnum ++ '_' :: Nat.toDigits 10 idx := by
    simp [subLabel, sanitise]
  rw [e] at hm
  simp only [List.mem_append, List.mem_cons, List.mem_filter] at hm
  rcases hm with ⟨_, hm⟩ | hm | hm
  · exact absurd hm (by decide)
  · exact absurd hm (by decide)
  · have := Nat.isDigit_of_mem_toDigits (by decide) (by decide) hm
    exact absurd this (by decide)

/-- **Regression example**: for the name `f\nint 7` the OLD text (`assembleCharsOld`, the raw name after
    `// `) had the extra line `int 7` between comment and label; the text of the repaired code has
    two comment lines and no other line.  More boundaries: `\r\n` is one, a trailing one adds no
    piece, the empty comment gives one `// ` line. -/
theorem name_newline_regression :
    splitLines (assembleCharsOld (some "f\nint 7".toList) "fint7_0".toList) =
      [[], "// f".toList, "int 7".toList, "fint7_0:".toList] ∧
    splitLines (assembleChars (some "f\nint 7".toList) "fint7_0".toList) =
      [[], "// f".toList, "// int 7".toList, "fint7_0:".toList] ∧
    splitLines (assembleChars (some "a\r\nb\u2028c\x0b".toList) "abc_1".toList) =
      [[], "// a".toList, "// b".toList, "// c".toList, "abc_1:".toList] ∧
    splitLines (assembleChars (some []) "_0".toList) = [[], "// ".toList, "_0:".toList] ∧
    assemble (some "f\nint 7") "fint7_0" = "\n// f\n// int 7\nfint7_0:" ∧
    assemble none "main_l1" = "main_l1:" := by
  decide +kernel

end LabelLines

end PyTealV.Proofs.C04
