/-
  Lemmas shared by C04 (§5, label lines) and C18 about the text model `Models/Annot.lean`:
  `str.splitlines()` pieces contain no line boundary, a line that starts with `//` has no tokens.
  (Moved here from `Proofs/C18.lean` so that C04 does not import C18's proofs.)
-/
import PyTealV.Proofs.C13Lemmas
import PyTealV.Models.Annot
namespace PyTealV.Proofs.C18
open PyTealV PyTealV.Avm PyTealV.Models.Annot PyTealV.Proofs.C13

theorem toList_commentOp (t : String) : (commentOp t).toList = '/' :: '/' :: ' ' :: t.toList := by
  simp [commentOp]

/-- a line that starts with `//` has no tokens, whatever follows -/
theorem tokenise_slashes (rest : List Char) : tokenise (String.ofList ('/' :: '/' :: rest)) = [] := by
  rw [tokenise_def, String.toList_ofList]
  simp [tokenise.go, isWs_eq, flush_eq]

theorem tokenise_empty : tokenise "" = [] := by decide

/-- (a) A comment op's line has no tokens: nothing in the text (quotes, `//`, `;`, `\r`, control
    characters, `#pragma`, even a line break) can re-open the line for the tokeniser. -/
theorem comment_line_vanishes (text : String) : tokenise (commentOp text) = [] := by
  have h : commentOp text = String.ofList ('/' :: '/' :: ' ' :: text.toList) := by
    apply String.toList_inj.mp; simp [toList_commentOp]
  rw [h, tokenise_slashes]

/-! ### `splitlines` -/

theorem splitlinesAux_no_break (cs cur : List Char) (b : Bool)
    (hcur : ∀ c ∈ cur, isBreak c = false) :
    ∀ p ∈ splitlinesAux cs cur b, ∀ c ∈ p, isBreak c = false := by
  induction cs generalizing cur b with
  | nil =>
    intro p hp
    simp only [splitlinesAux] at hp
    split at hp
    · simp at hp
    · simp only [List.mem_singleton] at hp
      subst hp; intro c hc; exact hcur c (by simpa using hc)
  | cons c cs ih =>
    intro p hp
    simp only [splitlinesAux] at hp
    split at hp
    · exact ih cur false hcur p hp
    · split at hp
      · rcases List.mem_cons.mp hp with rfl | hp
        · intro c hc; exact hcur c (by simpa using hc)
        · exact ih [] _ (by simp) p hp
      · rename_i hb
        refine ih (c :: cur) false ?_ p hp
        intro d hd
        rcases List.mem_cons.mp hd with rfl | hd
        · simpa using hb
        · exact hcur d hd

/-- the same for the entry point on code-point lists -/
theorem splitlinesChars_piece_chars (cs : List Char) :
    ∀ p ∈ splitlinesChars cs, ∀ c ∈ p, isBreak c = false :=
  splitlinesAux_no_break cs [] false (by simp)

/-- Which characters can occur inside a piece of `splitlines`: everything except the ten line
    boundaries (so in particular neither `\n` nor `\r`). -/
theorem splitlines_piece_chars (text : String) :
    ∀ p ∈ splitlines text, ∀ c ∈ p.toList, isBreak c = false := by
  intro p hp c hc
  simp only [splitlines, splitlinesChars, List.mem_map] at hp
  obtain ⟨q, hq, rfl⟩ := hp
  exact splitlinesAux_no_break _ [] false (by simp) q hq c (by simpa using hc)

theorem not_break_ne {c : Char} (h : isBreak c = false) : c ≠ '\n' ∧ c ≠ '\r' := by
  simp only [isBreak, Bool.or_eq_false_iff, decide_eq_false_iff_not] at h
  exact ⟨h.1.1.1.1.1.1.1.1.1, h.1.1.1.1.1.1.1.1.2⟩

/-- `comment.splitlines() or [""]`: no piece contains a line boundary -/
theorem headerPieces_chars (text : String) :
    ∀ p ∈ headerPieces text, ∀ c ∈ p.toList, isBreak c = false := by
  intro p hp
  unfold headerPieces at hp
  split at hp
  · simp only [List.mem_singleton] at hp; subst hp; simp
  · exact splitlines_piece_chars text p hp

theorem headerPieces_ne_nil (text : String) : headerPieces text ≠ [] := by
  unfold headerPieces
  split
  · simp
  · assumption

end PyTealV.Proofs.C18
