/-
  C04 — soundness of `Flow.wf` with respect to the machine `Avm.step / runFrom / run`.
-/
import PyTealV.Check.Flow
import PyTealV.Proofs.C04Lemmas
namespace PyTealV.Proofs.C04L
open PyTealV PyTealV.Avm PyTealV.Util PyTealV.Check.Flow

/-! ## Painting facts -/

theorem same_iff {col : Colors} {c t : Nat} : same col c t = true ↔ col[t]? = some (some c) := by
  simp [same]

theorem closed_size {p : Program} {col : Colors} (h : closed p col = true) : col.size = p.size := by
  simp [closed] at h; exact h.1.1

theorem closed_entry {p : Program} {col : Colors} (h : closed p col = true) : same col 0 0 = true := by
  simp only [closed, Bool.and_eq_true] at h; exact h.1.2

theorem closed_at {p : Program} {col : Colors} (h : closed p col = true) {pc : Nat} {ln : Line}
    (hl : p[pc]? = some ln) : okAt p col pc ln = true := by
  simp only [closed, Bool.and_eq_true, List.all_eq_true, List.mem_range] at h
  have hlt : pc < p.size := by
    rcases Nat.lt_or_ge pc p.size with h' | h'
    · exact h'
    · rw [Array.getElem?_eq_none h'] at hl; cases hl
  have := h.2 pc hlt
  rw [hl] at this; exact this

theorem same_lt {p : Program} {col : Colors} (h : closed p col = true) {c t : Nat} (hs : same col c t = true) :
    t < p.size := by
  rw [same_iff] at hs
  rcases Nat.lt_or_ge t col.size with h' | h'
  · rw [← closed_size h]; exact h'
  · rw [Array.getElem?_eq_none h'] at hs; cases hs

theorem same_line {p : Program} {col : Colors} (h : closed p col = true) {c t : Nat} (hs : same col c t = true) :
    ∃ ln, p[t]? = some ln := by
  have := same_lt h hs
  exact ⟨p[t], by simp [this]⟩

theorem same_unique {col : Colors} {c c' t : Nat} (h : same col c t = true) (h' : same col c' t = true) : c = c' := by
  rw [same_iff] at h h'; rw [h] at h'; cases h'; rfl

/-! ## The invariant -/

/-- the call stack is consistent with the painting: the routine painted `c` is running, and every
    frame returns into the routine that made the call; the outermost routine is the one painted 0 -/
inductive Good (col : Colors) : Nat → List Frame → Prop
  | nil : Good col 0 []
  | cons {c c' : Nat} {f : Frame} {fs : List Frame} :
      same col c' f.retPc = true → Good col c' fs → Good col c (f :: fs)

/-- "pc is a reachable in-routine instruction index, and so is every frame's return pc" -/
def Inv (col : Colors) (s : St) : Prop := ∃ c, same col c s.pc = true ∧ Good col c s.calls

/-- failures excluded by the control part of `wf` -/
def NoCtl (e : Fail) : Prop :=
  e ≠ .badPc ∧ (∀ l, e ≠ .badLabel l) ∧ e ≠ .frame "retsub with empty call stack"

theorem noCtl_data : DataOK NoCtl :=
  ⟨⟨nofun, nofun, nofun⟩, fun _ => ⟨nofun, nofun, nofun⟩, fun _ => ⟨nofun, nofun, nofun⟩, fun _ => ⟨nofun, nofun, nofun⟩⟩

theorem noCtl_illegal (m : String) : NoCtl (.illegal m) := ⟨nofun, nofun, nofun⟩

/-- every failure outcome satisfies `S` -/
def OutS (S : Fail → Prop) (o : Outcome) : Prop := ∀ e, o = .fail e → S e

theorem pushV_halt {S : Fail → Prop} (D : DataOK S) {m : MS} {v : Val} {o : Outcome}
    (h : pushV m v = .halt o) : OutS S o := by
  unfold pushV at h
  split at h
  · cases h
  · cases h; intro e he; cases he; exact D.logic _

/-- what `execSimple` needs so that its halts stay inside `S` -/
def SimpleOK (S : Fail → Prop) (cx : Ctx) (i : Instr) (m : MS) : Prop :=
  match i with
  | .prim op imms => Errs S (execPrim cx op imms m.world m.stack)
  | .intc i => i < m.intc.length ∨ ∀ msg, S (.illegal msg)
  | .bytec i => i < m.bytec.length ∨ ∀ msg, S (.illegal msg)
  | .tmpl _ _ => ∀ msg, S (.illegal msg)
  | .load n | .store n => n < 256 ∨ ∀ msg, S (.illegal msg)
  | _ => True

theorem execSimple_halt {S : Fail → Prop} (D : DataOK S) {cx : Ctx} {i : Instr} {m : MS} {o : Outcome}
    (hs : SimpleOK S cx i m) (h : execSimple cx i m = some (.halt o)) : OutS S o := by
  cases i <;> simp only [execSimple, Option.some.injEq, reduceCtorEq] at h
  case intc k =>
    split at h
    · exact pushV_halt D h
    · rename_i hnone
      cases h; intro e he; cases he
      rcases hs with hs | hs
      · have : m.intc[k]? ≠ none := by simp [hs]
        contradiction
      · exact hs _
  case bytec k =>
    split at h
    · exact pushV_halt D h
    · rename_i hnone
      cases h; intro e he; cases he
      rcases hs with hs | hs
      · have : m.bytec[k]? ≠ none := by simp [hs]
        contradiction
      · exact hs _
  case pushInt n => exact pushV_halt D h
  case pushBytes b => exact pushV_halt D h
  case tmpl a b => cases h; intro e he; cases he; exact hs _
  case ret =>
    split at h
    · split at h
      · cases h; intro e he; cases he
      · cases h; intro e he; cases he; exact D.typeErr _
    · cases h; intro e he; cases he; exact D.underflow
  case err => cases h; intro e he; cases he; exact D.logic _
  case load n =>
    split at h
    · exact pushV_halt D h
    · cases h; intro e he; cases he
      rcases hs with hs | hs
      · contradiction
      · exact hs _
  case store n =>
    split at h
    · split at h
      · cases h
      · cases h; intro e he; cases he
        rcases hs with hs | hs
        · contradiction
        · exact hs _
    · cases h; intro e he; cases he; exact D.underflow
  case prim op imms =>
    split at h
    · split at h
      · cases h
      · cases h; intro e he; cases he; exact D.logic _
    · rename_i e' he'
      cases h; intro e he; cases he
      exact hs.out _ he'


/-! ## One machine step -/

theorem jump_ok {p : Program} {col : Colors} {c : Nat} {l : String} (h : jumpOK p col c l = true) (s : St) :
    ∃ t, jump p l s = .next { s with pc := t } ∧ same col c t = true := by
  unfold jumpOK at h
  split at h
  · rename_i t ht
    exact ⟨t, by simp [jump, ht], h⟩
  · cases h

theorem call_ok {p : Program} {col : Colors} {l : String} (h : callOK p col l = true) (s : St) :
    ∃ t, jump p l s = .next { s with pc := t } ∧ same col t t = true := by
  unfold callOK at h
  split at h
  · rename_i t ht
    exact ⟨t, by simp [jump, ht], h⟩
  · cases h

/-- result of a step: the invariant is kept, or the halt is not one of the excluded failures -/
def StepGood (S : Fail → Prop) (col : Colors) : StepR → Prop
  | .next s' => Inv col s'
  | .halt o => OutS S o

/-- instructions handled by `execSimple` with an `.ok` continue at `pc+1` in the same routine -/
theorem step_inv {S : Fail → Prop} (D : DataOK S)
    (hF : ∀ m, m ≠ "retsub with empty call stack" → S (.frame m))
    {cx : Ctx} {p : Program} {col : Colors} {s : St}
    (hc : closed p col = true) (hi : Inv col s)
    (hs : ∀ ln, p[s.pc]? = some ln → SimpleOK S cx ln.instr s.ms) :
    StepGood S col (step cx p s) := by
  obtain ⟨c, hpc, hg⟩ := hi
  obtain ⟨ln, hln⟩ := same_line hc hpc
  have hok := closed_at hc hln
  have hcol := same_iff.mp hpc
  have hs' := hs ln hln
  unfold step
  rw [hln]
  dsimp only
  cases hes : execSimple cx ln.instr s.ms with
  | some r =>
    cases r with
    | halt o => exact execSimple_halt D hs' hes
    | ok m =>
      dsimp only
      refine ⟨c, ?_, hg⟩
      dsimp only
      cases hinstr : ln.instr <;> rw [hinstr] at hes <;> simp only [execSimple, reduceCtorEq, Option.some.injEq] at hes <;>
        simp only [okAt, hcol, hinstr] at hok <;> first | exact hok | skip
      all_goals (exfalso; revert hes; repeat' split)
      all_goals simp
  | none =>
    dsimp only
    cases hinstr : ln.instr <;> rw [hinstr] at hes <;> simp only [execSimple, reduceCtorEq] at hes <;>
      simp only [okAt, hcol, hinstr, Bool.and_eq_true] at hok <;> dsimp only
    case b l =>
      obtain ⟨t, ht, hst⟩ := jump_ok hok { s with pc := s.pc + 1 }
      rw [ht]; exact ⟨c, hst, hg⟩
    case bz l =>
      split
      · obtain ⟨t, ht, hst⟩ := jump_ok hok.1 { s with pc := s.pc + 1, ms := { s.ms with stack := ‹List Val› } }
        rw [ht]; exact ⟨c, hst, hg⟩
      · exact ⟨c, hok.2, hg⟩
      · intro e he; cases he; exact D.typeErr _
      · intro e he; cases he; exact D.underflow
    case bnz l =>
      split
      · exact ⟨c, hok.2, hg⟩
      · obtain ⟨t, ht, hst⟩ := jump_ok hok.1 { s with pc := s.pc + 1, ms := { s.ms with stack := ‹List Val› } }
        rw [ht]; exact ⟨c, hst, hg⟩
      · intro e he; cases he; exact D.typeErr _
      · intro e he; cases he; exact D.underflow
    case callsub l =>
      obtain ⟨t, ht, hst⟩ := call_ok hok.1
        { s with pc := s.pc + 1, calls := { retPc := s.pc + 1, height := s.ms.stack.length } :: s.calls }
      rw [ht]
      exact ⟨t, hst, Good.cons hok.2 hg⟩
    case retsub =>
      cases hcalls : s.calls with
      | nil =>
        rw [hcalls] at hg
        cases hg
        simp at hok
      | cons f cs =>
        rw [hcalls] at hg
        cases hg with
        | cons hret hg' =>
          dsimp only
          split
          · exact ⟨_, hret, hg'⟩
          · split
            · intro e he; cases he; exact hF _ (by decide)
            · split
              · intro e he; cases he; exact hF _ (by decide)
              · exact ⟨_, hret, hg'⟩
    case proto a r =>
      cases hcalls : s.calls with
      | nil => intro e he; cases he; exact hF _ (by decide)
      | cons f cs =>
        dsimp only
        rw [hcalls] at hg
        split
        · intro e he; cases he; exact hF _ (by decide)
        · split
          · intro e he; cases he; exact hF _ (by decide)
          · refine ⟨c, hok, ?_⟩
            cases hg with
            | cons hret hg' => exact Good.cons hret hg'
    case frameDig i =>
      cases hcalls : s.calls with
      | nil => intro e he; cases he; exact hF _ (by decide)
      | cons f cs =>
        dsimp only
        repeat' split
        all_goals first
          | (intro e he; cases he; exact hF _ (by decide))
          | (rename_i o ho; exact pushV_halt D ho)
          | exact ⟨c, hok, hcalls ▸ hg⟩
    case frameBury i =>
      cases hcalls : s.calls with
      | nil => intro e he; cases he; exact hF _ (by decide)
      | cons f cs =>
        dsimp only
        repeat' split
        all_goals first
          | (intro e he; cases he; exact hF _ (by decide))
          | (intro e he; cases he; exact D.underflow)
          | exact ⟨c, hok, hcalls ▸ hg⟩


/-! ## Whole runs -/

theorem runFrom_good {S : Fail → Prop} (D : DataOK S)
    (hF : ∀ m, m ≠ "retsub with empty call stack" → S (.frame m))
    {cx : Ctx} {p : Program} {col : Colors} (hc : closed p col = true)
    (hs : ∀ (s : St) ln, p[s.pc]? = some ln → SimpleOK S cx ln.instr s.ms) :
    ∀ (fuel : Nat) (s : St), Inv col s → OutS S (runFrom cx p fuel s) := by
  intro fuel
  induction fuel with
  | zero => intro s _ e he; simp [runFrom] at he
  | succ n ih =>
    intro s hi
    have hstep := step_inv D hF hc hi (hs s)
    unfold runFrom
    cases hst : step cx p s with
    | next s' => rw [hst] at hstep; exact ih s' hstep
    | halt o => rw [hst] at hstep; exact hstep

/-- the same with a second invariant `J` carried along (used for the constant blocks) -/
theorem runFrom_good2 {S : Fail → Prop} (D : DataOK S)
    (hF : ∀ m, m ≠ "retsub with empty call stack" → S (.frame m))
    {cx : Ctx} {p : Program} {col : Colors} (hc : closed p col = true) (J : St → Prop)
    (hJ : ∀ (s s' : St), J s → step cx p s = .next s' → J s')
    (hs : ∀ (s : St) ln, J s → p[s.pc]? = some ln → SimpleOK S cx ln.instr s.ms) :
    ∀ (fuel : Nat) (s : St), Inv col s → J s → OutS S (runFrom cx p fuel s) := by
  intro fuel
  induction fuel with
  | zero => intro s _ _ e he; simp [runFrom] at he
  | succ n ih =>
    intro s hi hj
    have hstep := step_inv D hF hc hi (hs s · hj)
    unfold runFrom
    cases hst : step cx p s with
    | next s' => rw [hst] at hstep; exact ih s' hstep (hJ s s' hj hst)
    | halt o => rw [hst] at hstep; exact hstep

theorem inv_init {p : Program} {col : Colors} (hc : closed p col = true) (w0 : World) :
    Inv col { ms := { world := w0 } } :=
  ⟨0, closed_entry hc, Good.nil⟩

theorem simpleOK_noCtl (cx : Ctx) (i : Instr) (m : MS) : SimpleOK NoCtl cx i m := by
  cases i <;> simp only [SimpleOK]
  case prim op imms =>
    exact execPrim_errs noCtl_data cx op imms _ _ (fun i _ => Errs.immNat noCtl_illegal _ _ _)
      (fun i _ => Errs.immStr noCtl_illegal _ _ _) (fun _ _ _ => noCtl_illegal)
  case load n => exact Or.inr noCtl_illegal
  case store n => exact Or.inr noCtl_illegal
  case intc n => exact Or.inr noCtl_illegal
  case bytec n => exact Or.inr noCtl_illegal
  all_goals first | exact noCtl_illegal | trivial

theorem noCtl_frame (m : String) (h : m ≠ "retsub with empty call stack") : NoCtl (.frame m) :=
  ⟨nofun, nofun, fun h' => h (by cases h'; rfl)⟩

theorem wf_closed {p : Program} {v : Nat} {mode : Mode} (h : wf p v mode = true) : closed p (colors p) = true := by
  simp only [wf, Bool.and_eq_true] at h; exact h.2

/-- **Control soundness.**  A program accepted by `wf` never fails with `badPc` or with a branch /
    `callsub` to an undefined label — in every context, from every initial world, for every fuel. -/
theorem wf_sound_control {p : Program} {v : Nat} {mode : Mode} (h : wf p v mode = true) :
    ∀ (cx : Ctx) (fuel : Nat) (w0 : World),
      Avm.run cx p fuel w0 ≠ .fail .badPc ∧ (∀ l, Avm.run cx p fuel w0 ≠ .fail (.badLabel l)) := by
  intro cx fuel w0
  have hc := wf_closed h
  have := runFrom_good noCtl_data noCtl_frame hc (fun s ln _ => simpleOK_noCtl cx ln.instr s.ms) fuel _ (inv_init hc w0)
  unfold Avm.run
  constructor
  · intro he; exact (this _ he).1 rfl
  · intro l he; exact (this _ he).2.1 l rfl

/-- … and never executes `retsub` with an empty call stack (no `retsub` is reachable in the main routine). -/
theorem wf_sound_retsub {p : Program} {v : Nat} {mode : Mode} (h : wf p v mode = true) :
    ∀ (cx : Ctx) (fuel : Nat) (w0 : World),
      Avm.run cx p fuel w0 ≠ .fail (.frame "retsub with empty call stack") := by
  intro cx fuel w0 he
  have hc := wf_closed h
  have := runFrom_good noCtl_data noCtl_frame hc (fun s ln _ => simpleOK_noCtl cx ln.instr s.ms) fuel _ (inv_init hc w0)
  exact (this _ he).2.2 rfl

/-- machine states reachable from the initial state -/
inductive Reachable (cx : Ctx) (p : Program) (w0 : World) : St → Prop
  | init : Reachable cx p w0 { ms := { world := w0 } }
  | step {s s' : St} : Reachable cx p w0 s → step cx p s = .next s' → Reachable cx p w0 s'

theorem reachable_inv {cx : Ctx} {p : Program} {col : Colors} (hc : closed p col = true) {w0 : World} {s : St}
    (hr : Reachable cx p w0 s) : Inv col s := by
  induction hr with
  | init => exact inv_init hc w0
  | step _ hst ih =>
    have := step_inv noCtl_data noCtl_frame hc ih (fun ln _ => simpleOK_noCtl cx ln.instr _)
    rw [hst] at this; exact this

/-- **No run-off, no fall-through.**  Every state the machine can reach has its pc inside the
    program text (the "ran past the last instruction" case of `step` is never taken), the pc is
    painted with the entry of the routine that is running, and every frame's return pc is painted
    with the routine that made the call (`Good`): execution never falls or branches into another
    routine. -/
theorem wf_sound_inside {p : Program} {v : Nat} {mode : Mode} (h : wf p v mode = true)
    {cx : Ctx} {w0 : World} {s : St} (hr : Reachable cx p w0 s) :
    s.pc < p.size ∧ ∃ c, same (colors p) c s.pc = true ∧ Good (colors p) c s.calls := by
  have hc := wf_closed h
  obtain ⟨c, hpc, hg⟩ := reachable_inv hc hr
  exact ⟨same_lt hc hpc, c, hpc, hg⟩

/-- in the main routine (empty call stack) the pc is painted 0 -/
theorem wf_sound_main {p : Program} {v : Nat} {mode : Mode} (h : wf p v mode = true)
    {cx : Ctx} {w0 : World} {s : St} (hr : Reachable cx p w0 s) (hcalls : s.calls = []) :
    same (colors p) 0 s.pc = true := by
  obtain ⟨_, c, hpc, hg⟩ := wf_sound_inside h hr
  rw [hcalls] at hg
  cases hg
  exact hpc

/-! ## Paths end in `return`, `retsub` or `err` -/

def isTerminator : Instr → Bool
  | .ret | .retsub | .err => true
  | _ => false

/-- control-flow successors inside a routine (`callsub` continues at the next line) -/
def cfgSuccs (p : Program) (pc : Nat) (i : Instr) : List Nat :=
  match i with
  | .b l => (findLabel p l).toList
  | .bz l | .bnz l => (pc + 1) :: (findLabel p l).toList
  | .ret | .retsub | .err => []
  | _ => [pc + 1]

/-- Every painted (= reachable in-routine) instruction is a terminator, or it has at least one
    successor and all its successors are painted instructions of the same routine inside the text.
    Hence every maximal path from an entry is infinite (a loop) or ends in `return`, `retsub`, `err`. -/
theorem wf_paths {p : Program} {v : Nat} {mode : Mode} (h : wf p v mode = true)
    {pc c : Nat} {ln : Line} (hl : p[pc]? = some ln) (hp : same (colors p) c pc = true) :
    isTerminator ln.instr = true ∨
      (cfgSuccs p pc ln.instr ≠ [] ∧ ∀ t ∈ cfgSuccs p pc ln.instr, t < p.size ∧ same (colors p) c t = true) := by
  have hc := wf_closed h
  have hok := closed_at hc hl
  have hcol := same_iff.mp hp
  cases hinstr : ln.instr <;> simp only [okAt, hcol, hinstr, Bool.and_eq_true] at hok <;>
    simp only [isTerminator, cfgSuccs, reduceCtorEq, false_or, true_or, ne_eq, List.cons_ne_self, not_false_eq_true,
      List.mem_cons, or_false, forall_eq, true_and, Bool.false_eq_true, forall_eq_or_imp, List.mem_nil_iff]
  case b l =>
    obtain ⟨t, ht, hst⟩ := jump_ok hok default
    have hf : findLabel p l = some t := by
      unfold jumpOK at hok; split at hok
      · rename_i t' ht'; simp [jump, ht'] at ht; rw [ht']; simp [← ht]
      · cases hok
    simp [hf, hst, same_lt hc hst]
  case bz l =>
    obtain ⟨t, ht, hst⟩ := jump_ok hok.1 default
    have hf : findLabel p l = some t := by
      have := hok.1; unfold jumpOK at this; split at this
      · rename_i t' ht'; simp [jump, ht'] at ht; rw [ht']; simp [← ht]
      · cases this
    simp [hf, hst, same_lt hc hst, hok.2, same_lt hc hok.2]
  case bnz l =>
    obtain ⟨t, ht, hst⟩ := jump_ok hok.1 default
    have hf : findLabel p l = some t := by
      have := hok.1; unfold jumpOK at this; split at this
      · rename_i t' ht'; simp [jump, ht'] at ht; rw [ht']; simp [← ht]
      · cases this
    simp [hf, hst, same_lt hc hst, hok.2, same_lt hc hok.2]
  case callsub l => exact ⟨same_lt hc hok.2, hok.2⟩
  all_goals first | exact ⟨same_lt hc hok, hok⟩ | skip

end PyTealV.Proofs.C04L
