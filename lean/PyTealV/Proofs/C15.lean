/-
  C15 — theorems about the source-map codecs and annotated TEAL lines
  (model: `PyTealV/Models/SourceMap.lean`).
-/
import Lean.Elab.Term
import PyTealV.Models.SourceMap
namespace PyTealV.Proofs.C15
open PyTealV PyTealV.Models.SourceMap

/-! ## Base64 VLQ -/

deriving instance DecidableEq for Except

theorem tableVal_b64Char : ∀ d : Fin 64, tableVal (b64Char d.val) = .ok (some d.val) := by decide

theorem b64Char_ascii : ∀ d : Fin 64, (b64Char d.val).toNat < 128 := by decide

theorem b64Char_not_sep : ∀ d : Fin 64, b64Char d.val ≠ ',' ∧ b64Char d.val ≠ ';' := by decide

theorem digit_facts : ∀ x : Fin 32,
    (x.val ||| 32) &&& 31 = x.val ∧ (x.val ||| 32) &&& 32 = 32 ∧ x.val &&& 31 = x.val ∧
    x.val &&& 32 = 0 ∧ x.val ||| 32 < 64 ∧ x.val ||| 0 = x.val := by decide

theorem and31 (v : Nat) : v &&& 31 = v % 32 := Nat.and_two_pow_sub_one_eq_mod v 5

theorem encNat_eq (v : Nat) :
    encNat v = if v < 32 then [v % 32] else (v % 32 ||| 32) :: encNat (v / 32) := by
  rw [encNat]
  simp [mask, flag, shiftsize, Nat.shiftRight_eq_div_pow, and31]

theorem encNat_lt (v : Nat) : ∀ d ∈ encNat v, d < 64 := by
  induction v using Nat.strongRecOn with
  | _ v ih =>
    rw [encNat_eq]
    split
    · intro d hd; simp at hd; omega
    · intro d hd
      simp only [List.mem_cons] at hd
      rcases hd with rfl | hd
      · exact (digit_facts ⟨v % 32, Nat.mod_lt _ (by omega)⟩).2.2.2.2.1
      · exact ih (v / 32) (by omega) d hd

theorem encNat_ne_nil (v : Nat) : encNat v ≠ [] := by
  rw [encNat_eq]; split <;> simp

/-- one digit of the decoder on a character produced by the encoder -/
theorem decodeGo_digit (d : Nat) (hd : d < 64) (cs : List Char) (shift value : Nat) (acc : List Int) :
    decodeGo (b64Char d :: cs) shift value acc =
      if d &&& 32 != 0 then decodeGo cs (shift + 5) (value + ((d &&& 31) <<< shift)) acc
      else decodeGo cs 0 0 (untag (value + ((d &&& 31) <<< shift)) :: acc) := by
  have h := tableVal_b64Char ⟨d, hd⟩
  simp only at h
  simp [decodeGo, h, mask, flag, shiftsize]

/-- the decoder run over the digits of one number -/
theorem decodeGo_encNat (n : Nat) : ∀ (rest : List Char) (shift value : Nat) (acc : List Int),
    decodeGo ((encNat n).map b64Char ++ rest) shift value acc =
      decodeGo rest 0 0 (untag (value + n * 2 ^ shift) :: acc) := by
  induction n using Nat.strongRecOn with
  | _ n ih =>
    intro rest shift value acc
    rw [encNat_eq]
    have hm : n % 32 < 32 := Nat.mod_lt _ (by omega)
    have f := digit_facts ⟨n % 32, hm⟩
    simp only at f
    split
    · rename_i hlt
      simp only [List.map_cons, List.map_nil, List.cons_append, List.nil_append]
      rw [decodeGo_digit _ (by omega)]
      rw [Nat.mod_eq_of_lt hlt] at f ⊢
      simp [f.2.2.1, f.2.2.2.1, Nat.shiftLeft_eq]
    · rename_i hge
      simp only [List.map_cons, List.cons_append]
      rw [decodeGo_digit _ f.2.2.2.2.1]
      simp only [f.1, f.2.1]
      simp only [show ((32 : Nat) != 0) = true from rfl, if_true]
      rw [ih (n / 32) (by omega)]
      congr 3
      have : n = 32 * (n / 32) + n % 32 := (Nat.div_add_mod n 32).symm
      rw [Nat.shiftLeft_eq, Nat.pow_add]
      generalize n / 32 = q at *
      generalize n % 32 = r at *
      subst this
      grind

theorem signTag_eq (v : Int) : signTag v = 2 * v.natAbs + (if v < 0 then 1 else 0) := by
  unfold signTag
  have h : (if v < 0 then 1 else 0) < 2 ^ 1 := by split <;> decide
  rw [← Nat.shiftLeft_add_eq_or_of_lt h, Nat.shiftLeft_eq]
  omega

theorem untag_signTag (v : Int) : untag (signTag v) = v := by
  rw [signTag_eq]
  unfold untag
  rw [Nat.shiftRight_eq_div_pow, Nat.and_one_is_mod]
  by_cases h : v < 0
  · simp only [h, if_true]
    have h1 : (2 * v.natAbs + 1) / 2 ^ 1 = v.natAbs := by omega
    have h2 : (2 * v.natAbs + 1) % 2 = 1 := by omega
    rw [h1, h2]; simp; omega
  · simp only [h, if_false]
    have h1 : (2 * v.natAbs + 0) / 2 ^ 1 = v.natAbs := by omega
    have h2 : (2 * v.natAbs + 0) % 2 = 0 := by omega
    rw [h1, h2]; simp; omega

theorem decodeGo_encode (vs : List Int) : ∀ (rest : List Char) (acc : List Int),
    decodeGo (vlqEncode vs ++ rest) 0 0 acc = decodeGo rest 0 0 (vs.reverse ++ acc) := by
  induction vs with
  | nil => intro rest acc; simp [vlqEncode]
  | cons v vs ih =>
    intro rest acc
    have : vlqEncode (v :: vs) = (encNat (signTag v)).map b64Char ++ vlqEncode vs := by
      simp [vlqEncode]
    rw [this, List.append_assoc, decodeGo_encNat, ih]
    simp [untag_signTag]

theorem vlqEncode_chars (vs : List Int) : ∀ c ∈ vlqEncode vs, ∃ d : Fin 64, c = b64Char d.val := by
  intro c hc
  simp only [vlqEncode, List.mem_map, List.mem_flatMap] at hc
  obtain ⟨d, ⟨v, _, hd⟩, rfl⟩ := hc
  exact ⟨⟨d, encNat_lt _ d hd⟩, rfl⟩

/-- **`_base64vlq_decode(_base64vlq_encode(*vs)) == vs`** for every list of (unbounded) integers. -/
theorem vlq_roundtrip (vs : List Int) : vlqDecode (vlqEncode vs) = .ok vs := by
  unfold vlqDecode
  have hasc : (vlqEncode vs).any (fun c => c.toNat ≥ 128) = false := by
    rw [List.any_eq_false]
    intro c hc
    obtain ⟨d, rfl⟩ := vlqEncode_chars vs c hc
    have := b64Char_ascii d
    simp; omega
  rw [hasc]
  have := decodeGo_encode vs [] []
  simp only [List.append_nil] at this
  simp [this, decodeGo]


/-! ## Revision-3 "mappings" -/

theorem splitOn_ne_nil (sep : Char) (l : List Char) : splitOn sep l ≠ [] := by
  induction l with
  | nil => simp [splitOn]
  | cons c cs ih =>
    unfold splitOn
    split
    · simp
    · split <;> simp

theorem splitOn_cons_ne (sep c : Char) (l : List Char) (h : c ≠ sep) :
    splitOn sep (c :: l) = match splitOn sep l with
      | [] => [[c]]
      | x :: t => (c :: x) :: t := by
  rw [splitOn]; simp only [h, if_false]
  cases splitOn sep l <;> rfl

theorem splitOn_no_sep (sep : Char) (x : List Char) (h : sep ∉ x) : splitOn sep x = [x] := by
  induction x with
  | nil => simp [splitOn]
  | cons c cs ih =>
    simp only [List.mem_cons, not_or] at h
    rw [splitOn_cons_ne sep c cs (fun hc => h.1 hc.symm), ih h.2]

theorem splitOn_append_sep (sep : Char) (x rest : List Char) (h : sep ∉ x) :
    splitOn sep (x ++ sep :: rest) = x :: splitOn sep rest := by
  induction x with
  | nil => simp [splitOn]
  | cons c cs ih =>
    simp only [List.mem_cons, not_or] at h
    simp only [List.cons_append]
    rw [splitOn_cons_ne sep c _ (fun hc => h.1 hc.symm), ih h.2]

theorem splitOn_joinSep (sep : Char) (xs : List (List Char)) (hne : xs ≠ [])
    (h : ∀ x ∈ xs, sep ∉ x) : splitOn sep (joinSep sep xs) = xs := by
  induction xs with
  | nil => exact absurd rfl hne
  | cons x r ih =>
    cases r with
    | nil => simpa [joinSep] using splitOn_no_sep sep x (h x (by simp))
    | cons y r' =>
      simp only [joinSep]
      rw [splitOn_append_sep sep x _ (h x (by simp)), ih (by simp) (fun z hz => h z (by simp [hz]))]

theorem mem_joinSep (sep c : Char) (xs : List (List Char)) (hc : c ∈ joinSep sep xs) :
    c = sep ∨ ∃ x ∈ xs, c ∈ x := by
  induction xs with
  | nil => simp [joinSep] at hc
  | cons x r ih =>
    cases r with
    | nil => exact Or.inr ⟨x, by simp, by simpa [joinSep] using hc⟩
    | cons y r' =>
      simp only [joinSep, List.mem_append, List.mem_cons] at hc
      rcases hc with hc | hc | hc
      · exact Or.inr ⟨x, by simp, hc⟩
      · exact Or.inl hc
      · rcases ih hc with h | ⟨z, hz, hcz⟩
        · exact Or.inl h
        · exact Or.inr ⟨z, by simp [hz], hcz⟩

theorem joinSep_ne_nil (sep : Char) (xs : List (List Char)) (hne : xs ≠ []) (h : ∀ x ∈ xs, x ≠ []) :
    joinSep sep xs ≠ [] := by
  cases xs with
  | nil => exact absurd rfl hne
  | cons x r =>
    cases r with
    | nil => simpa [joinSep] using h x (by simp)
    | cons y r' =>
      have := h x (by simp)
      simp [joinSep, this]

theorem vlqEncode_no_comma (ds : List Int) : ',' ∉ vlqEncode ds := by
  intro hc
  obtain ⟨d, hd⟩ := vlqEncode_chars ds _ hc
  exact (b64Char_not_sep d).1 hd.symm

theorem vlqEncode_no_semi (ds : List Int) : ';' ∉ vlqEncode ds := by
  intro hc
  obtain ⟨d, hd⟩ := vlqEncode_chars ds _ hc
  exact (b64Char_not_sep d).2 hd.symm

theorem vlqEncode_ne_nil (ds : List Int) (h : ds ≠ []) : vlqEncode ds ≠ [] := by
  cases ds with
  | nil => exact absurd rfl h
  | cons v vs =>
    have hn := encNat_ne_nil (signTag v)
    simp [vlqEncode, hn]

theorem line_no_semi (dss : List (List Int)) : ';' ∉ joinSep ',' (dss.map vlqEncode) := by
  intro hc
  rcases mem_joinSep _ _ _ hc with h | ⟨x, hx, hcx⟩
  · exact absurd h (by decide)
  · simp only [List.mem_map] at hx
    obtain ⟨ds, _, rfl⟩ := hx
    exact vlqEncode_no_semi ds hcx

/-- `B` agrees with `A` wherever `A` is defined (the key lists of `autoindex` only grow) -/
def Sub (A B : List String) : Prop := ∀ (i : Nat) (s : String), A[i]? = some s → B[i]? = some s

theorem Sub.refl (A : List String) : Sub A A := fun _ _ h => h
theorem Sub.trans {A B C : List String} (h1 : Sub A B) (h2 : Sub B C) : Sub A C :=
  fun i s h => h2 i s (h1 i s h)

theorem autoindex_spec (l : List String) (s : String) :
    (autoindex l s).2[(autoindex l s).1]? = some s ∧ Sub l (autoindex l s).2 := by
  unfold autoindex
  split
  · rename_i hmem
    refine ⟨?_, Sub.refl _⟩
    have hlt : l.idxOf s < l.length := List.idxOf_lt_length_iff.mpr hmem
    simp only
    rw [List.getElem?_eq_getElem hlt, List.getElem_idxOf hlt]
  · refine ⟨by simp, ?_⟩
    intro i t h
    simp only
    have hi : i < l.length := by
      rcases Nat.lt_or_ge i l.length with h' | h'
      · exact h'
      · rw [List.getElem?_eq_none h'] at h; cases h
    rw [List.getElem?_append_left hi]; exact h

def dst (st : EncSt) : DecSt := { spos := st.spos, sline := st.sline, scol := st.scol, npos := st.npos }

theorem pyIndex_nat (N : List String) (j : Nat) (nm : String) (h : N[j]? = some nm) :
    pyIndex N (j : Int) = .ok nm := by
  unfold pyIndex
  simp [h]

theorem encSeg_spec (st : EncSt) (gcol : Int) (e : Seg) (h : e.wf = true) :
    ∃ st' ds, encSeg st gcol e = .ok (st', ds) ∧ ds ≠ [] ∧
      Sub st.sources st'.sources ∧ Sub st.names st'.names ∧
      ∀ S N, Sub st'.sources S → Sub st'.names N →
        decSeg S N (dst st) gcol ds = .ok (dst st', e.column, e) := by
  obtain ⟨col, src, sl, sc, nm⟩ := e
  cases src with
  | none =>
    simp only [Seg.wf, Bool.and_eq_true, Option.isNone_iff_eq_none] at h
    obtain ⟨⟨rfl, rfl⟩, rfl⟩ := h
    refine ⟨st, [col - gcol], by simp [encSeg], by simp, Sub.refl _, Sub.refl _, ?_⟩
    intro S N _ _
    have : gcol + (col - gcol) = col := by omega
    simp [decSeg, this]
  | some src =>
    simp only [Seg.wf, Bool.and_eq_true, Option.isSome_iff_exists] at h
    obtain ⟨⟨sl, rfl⟩, ⟨sc, rfl⟩⟩ := h
    have hs := autoindex_spec st.sources src
    generalize hai : autoindex st.sources src = ai at hs
    obtain ⟨i, sources'⟩ := ai
    simp only at hs
    have e0 : gcol + (col - gcol) = col := by omega
    have e1 : st.spos + ((i : Int) - st.spos) = i := by omega
    have e2 : st.sline + (sl - st.sline) = sl := by omega
    have e3 : st.scol + (sc - st.scol) = sc := by omega
    cases nm with
    | none =>
      refine ⟨{ st with spos := st.spos + ((i : Int) - st.spos), sline := st.sline + (sl - st.sline),
                        scol := st.scol + (sc - st.scol), sources := sources' },
              [col - gcol, (i : Int) - st.spos, sl - st.sline, sc - st.scol],
              by simp only [encSeg, hai], by simp, hs.2, Sub.refl _, ?_⟩
      intro S N hS _
      have hSi := hS i src hs.1
      have hlt : i < S.length := by
        rcases Nat.lt_or_ge i S.length with h' | h'
        · exact h'
        · rw [List.getElem?_eq_none h'] at hSi; cases hSi
      simp only [decSeg, dst, e0, e1, e2, e3]
      have hneg : ¬ ((i : Int) < 0) := by omega
      have hlt' : (i : Int) < (S.length : Int) := by omega
      simp [hneg, hlt', hSi]
    | some nm =>
      have hn := autoindex_spec st.names nm
      generalize haj : autoindex st.names nm = aj at hn
      obtain ⟨j, names'⟩ := aj
      simp only at hn
      have e4 : st.npos + ((j : Int) - st.npos) = j := by omega
      refine ⟨{ st with spos := st.spos + ((i : Int) - st.spos), sline := st.sline + (sl - st.sline),
                        scol := st.scol + (sc - st.scol), sources := sources',
                        npos := st.npos + ((j : Int) - st.npos), names := names' },
              [col - gcol, (i : Int) - st.spos, sl - st.sline, sc - st.scol, (j : Int) - st.npos],
              by simp only [encSeg, hai, haj], by simp, hs.2, hn.2, ?_⟩
      intro S N hS hN
      have hSi := hS i src hs.1
      have hNj := hN j nm hn.1
      have hlt : i < S.length := by
        rcases Nat.lt_or_ge i S.length with h' | h'
        · exact h'
        · rw [List.getElem?_eq_none h'] at hSi; cases hSi
      have hNne : N.isEmpty = false := by
        cases N with
        | nil => simp at hNj
        | cons _ _ => rfl
      simp only [decSeg, dst, e0, e1, e2, e3, e4]
      have hneg : ¬ ((i : Int) < 0) := by omega
      have hlt' : (i : Int) < (S.length : Int) := by omega
      simp [hneg, hlt', hSi, hNne, pyIndex_nat N j nm hNj]


theorem encLine_spec (es : List Seg) : ∀ (st : EncSt) (gcol : Int), (∀ e ∈ es, e.wf = true) →
    ∃ st' dss, encLine st gcol es = .ok (st', dss) ∧ dss.length = es.length ∧ (∀ ds ∈ dss, ds ≠ []) ∧
      Sub st.sources st'.sources ∧ Sub st.names st'.names ∧
      ∀ S N, Sub st'.sources S → Sub st'.names N →
        decLine S N (dst st) gcol (dss.map vlqEncode) = .ok (dst st', es) := by
  induction es with
  | nil =>
    intro st gcol _
    exact ⟨st, [], by simp [encLine], rfl, by simp, Sub.refl _, Sub.refl _, by intros; simp [decLine]⟩
  | cons e es ih =>
    intro st gcol hwf
    obtain ⟨st1, ds, h1, hne, hs1, hn1, hdec1⟩ := encSeg_spec st gcol e (hwf e (by simp))
    obtain ⟨st2, dss, h2, hlen, hnes, hs2, hn2, hdec2⟩ := ih st1 e.column (fun x hx => hwf x (by simp [hx]))
    refine ⟨st2, ds :: dss, by simp [encLine, h1, h2], by simp [hlen], ?_, hs1.trans hs2, hn1.trans hn2, ?_⟩
    · intro d hd
      simp only [List.mem_cons] at hd
      rcases hd with rfl | hd
      · exact hne
      · exact hnes d hd
    · intro S N hS hN
      simp only [List.map_cons, decLine, vlq_roundtrip]
      rw [hdec1 S N (hs2.trans hS) (hn2.trans hN)]
      simp only
      rw [hdec2 S N hS hN]

theorem encLines_spec (t : Table) : ∀ (st : EncSt), (∀ row ∈ t, ∀ e ∈ row, e.wf = true) →
    ∃ st' dsss, encLines st t = .ok (st', dsss) ∧ dsss.length = t.length ∧
      Sub st.sources st'.sources ∧ Sub st.names st'.names ∧
      ∀ S N, Sub st'.sources S → Sub st'.names N →
        decLines S N (dst st) (dsss.map (fun dss => joinSep ',' (dss.map vlqEncode))) = .ok (dst st', t) := by
  induction t with
  | nil =>
    intro st _
    exact ⟨st, [], by simp [encLines], rfl, Sub.refl _, Sub.refl _, by intros; simp [decLines]⟩
  | cons row rows ih =>
    intro st hwf
    obtain ⟨st1, dss, h1, hlen, hnes, hs1, hn1, hdec1⟩ := encLine_spec row st 0 (hwf row (by simp))
    obtain ⟨st2, dsss, h2, hlen2, hs2, hn2, hdec2⟩ := ih st1 (fun r hr => hwf r (by simp [hr]))
    refine ⟨st2, dss :: dsss, by simp [encLines, h1, h2], by simp [hlen2], hs1.trans hs2, hn1.trans hn2, ?_⟩
    intro S N hS hN
    have hd1 := hdec1 S N (hs2.trans hS) (hn2.trans hN)
    have hd2 := hdec2 S N hS hN
    simp only [List.map_cons, decLines]
    cases row with
    | nil =>
      have hdss : dss = [] := by simpa using hlen
      subst hdss
      simp only [encLine, Except.ok.injEq, Prod.mk.injEq] at h1
      obtain ⟨rfl, _⟩ := h1
      simp [joinSep, hd2]
    | cons e es =>
      have hdne : dss ≠ [] := by
        intro h0; subst h0; simp at hlen
      have hpne : dss.map vlqEncode ≠ [] := by simpa using hdne
      have hne : joinSep ',' (dss.map vlqEncode) ≠ [] := by
        apply joinSep_ne_nil _ _ hpne
        intro x hx
        simp only [List.mem_map] at hx
        obtain ⟨ds, hds, rfl⟩ := hx
        exact vlqEncode_ne_nil ds (hnes ds hds)
      have hsplit : splitOn ',' (joinSep ',' (dss.map vlqEncode)) = dss.map vlqEncode := by
        apply splitOn_joinSep _ _ hpne
        intro x hx
        simp only [List.mem_map] at hx
        obtain ⟨ds, _, rfl⟩ := hx
        exact vlqEncode_no_comma ds
      have hemp : (joinSep ',' (dss.map vlqEncode)).isEmpty = false := by
        cases hj : joinSep ',' (dss.map vlqEncode) with
        | nil => exact absurd hj hne
        | cons _ _ => rfl
      rw [hemp, hsplit, hd1]
      simp only [Bool.false_eq_true, if_false]
      rw [hd2]

theorem Table.wf_iff (t : Table) :
    t.wf = true ↔ t ≠ [] ∧ ∀ row ∈ t, ∀ e ∈ row, e.wf = true := by
  unfold Table.wf
  cases t <;> simp

/-- **`from_json(to_json(m))` gives back the same line/column/source/name associations** for every
    well-formed table: `to_json` succeeds and decoding its output yields the table itself. -/
theorem r3_roundtrip (t : Table) (h : t.wf = true) :
    ∃ j, t.toJson = .ok j ∧ Table.fromJson j = .ok t := by
  rw [Table.wf_iff] at h
  obtain ⟨hne, hwf⟩ := h
  obtain ⟨st, dsss, henc, hlen, _, _, hdec⟩ := encLines_spec t {} hwf
  refine ⟨{ sources := st.sources, names := st.names, mappings := render dsss }, by simp [Table.toJson, henc], ?_⟩
  have hS : Sub st.sources (effectiveSources st.sources) := by
    unfold effectiveSources
    cases hs : st.sources with
    | nil => intro i s hi; simp at hi
    | cons a l => exact Sub.refl _
  have hsplit : splitOn ';' (render dsss) = dsss.map (fun dss => joinSep ',' (dss.map vlqEncode)) := by
    apply splitOn_joinSep
    · intro h0
      have : dsss = [] := by simpa using h0
      subst this
      cases t with
      | nil => exact hne rfl
      | cons _ _ => simp at hlen
    · intro x hx
      simp only [List.mem_map] at hx
      obtain ⟨dss, _, rfl⟩ := hx
      exact line_no_semi dss
  have := hdec (effectiveSources st.sources) st.names hS (Sub.refl _)
  simp only [Table.fromJson, hsplit]
  have hd0 : dst ({} : EncSt) = ({} : DecSt) := rfl
  rw [hd0] at this
  rw [this]

/-- the hypotheses of `r3_roundtrip` are satisfiable by a non-trivial table: two sources, names,
    an empty generated line, a source-less segment, decreasing source lines, a line ≥ 2^32 -/
def sampleTable : Table :=
  [ [ { column := 0, source := some "a.py", sourceLine := some 25, sourceColumn := some 8 },
      { column := 9, source := some "dir/b.py", sourceLine := some 3, sourceColumn := some 0, name := some "f" } ],
    [],
    [ { column := 4 },
      { column := 7, source := some "a.py", sourceLine := some 4294967296, sourceColumn := some 2, name := some "g" },
      { column := 8, source := some "dir/b.py", sourceLine := some (-1), sourceColumn := some 2, name := some "f" } ] ]

example : sampleTable.wf = true := by decide

/-- the empty table is the one place where the JSON does not come back: Python's `"".split(";")`
    is `[""]`, so a map with no generated line decodes to a map with one (empty) line.  This is why
    `Table.wf` demands a non-empty table. -/
theorem r3_empty_table : (Table.toJson []).bind Table.fromJson = Except.ok [[]] := by
  simp [Table.toJson, encLines, render, joinSep, Table.fromJson, splitOn, decLines, Except.bind]


/-! ## `R3SourceMap` objects (index + entries dict) -/

/-- **`R3SourceMap.from_json(m.to_json(), add_right_bounds=False)` has the same `index` and the
    same `entries`** (keys, order, line, column, source, source line, source column, name) for
    every well-formed map object. -/
theorem r3map_roundtrip (m : R3Map) (h : m.wf = true) :
    ∃ j, m.toJson = .ok j ∧ R3Map.fromJson j = .ok m := by
  unfold R3Map.wf at h
  cases hm : m.table with
  | error x => simp [hm] at h
  | ok t =>
    simp only [hm, Bool.and_eq_true, beq_iff_eq] at h
    obtain ⟨⟨htwf, hof⟩, hpost⟩ := h
    obtain ⟨j, hj, hback⟩ := r3_roundtrip t htwf
    refine ⟨j, by simp [R3Map.toJson, hm, hj], ?_⟩
    simp [R3Map.fromJson, hback, hof, hpost]

def sampleMap : R3Map :=
  { index := [[0, 9], [], [4, 7]],
    entries := [
      ((0, 0), { line := 0, seg := { column := 0, source := some "a.py", sourceLine := some 25, sourceColumn := some 8 } }),
      ((0, 9), { line := 0, seg := { column := 9, source := some "b.py", sourceLine := some 3, sourceColumn := some 0, name := some "f" } }),
      ((2, 4), { line := 2, seg := { column := 4 } }),
      ((2, 7), { line := 2, seg := { column := 7, source := some "a.py", sourceLine := some (-1), sourceColumn := some 2 } }) ] }

example : sampleMap.wf = true := by decide



/-! ## Annotated TEAL lines

The scanner of the model (`commentHere`, `scanNext`, `codePart`) is first tied to the trusted
tokeniser `PyTealV.Avm.tokenise`.  Two helpers of the tokeniser (`isWs`, `TokSt.flush`) are private
to `PyTealV/Avm/Syntax.lean`; the two elaborators below do nothing but name those constants. -/

open Lean Elab Term in
elab "avmIsWs%" : term => do
  return mkConst (mkPrivateNameCore `PyTealV.Avm.Syntax `PyTealV.Avm.isWs)

open Lean Elab Term in
elab "avmFlush%" : term => do
  return mkConst (mkPrivateNameCore `PyTealV.Avm.Syntax `PyTealV.Avm.TokSt.flush)

open PyTealV.Avm

theorem avm_isWs_eq (c : Char) : avmIsWs% c = isWs c := rfl

theorem avm_flush_eq (t : TokSt) : avmFlush% t =
    if t.cur.isEmpty then t else { t with toks := String.ofList t.cur.reverse :: t.toks, cur := [] } := rfl

/-- the scanner's view of a tokeniser state -/
def proj (t : TokSt) : ScanSt := { cur := t.cur, inStr := t.inStr, esc := t.esc, inB64 := t.inB64 }

/-- the tokeniser state after a character that does not start a comment -/
def advance (t : TokSt) (c : Char) : TokSt :=
  if t.inStr then
    if t.esc then { t with cur := c :: t.cur, esc := false }
    else if c = '\\' then { t with cur := c :: t.cur, esc := true }
    else if c = '"' then { t with cur := c :: t.cur, inStr := false }
    else { t with cur := c :: t.cur }
  else if isWs c then avmFlush% t
  else if c = '"' ∧ t.cur.isEmpty then { t with cur := [c], inStr := true }
  else if c = '(' then
    { t with cur := c :: t.cur,
             inB64 := t.inB64 || String.ofList t.cur.reverse = "base64" || String.ofList t.cur.reverse = "b64" }
  else if c = ')' then { t with cur := c :: t.cur, inB64 := false }
  else { t with cur := c :: t.cur }

theorem go_nil (t : TokSt) : tokenise.go [] t = t := by rw [tokenise.go]

theorem proj_flush (t : TokSt) : proj (avmFlush% t) = { proj t with cur := [] } := by
  rw [avm_flush_eq]
  split
  · rename_i h; simp only [proj]; simp at h; simp [h]
  · simp [proj]

theorem flush_fields (t : TokSt) : (avmFlush% t).cur = [] ∧ (avmFlush% t).inStr = t.inStr ∧
    (avmFlush% t).esc = t.esc ∧ (avmFlush% t).inB64 = t.inB64 := by
  rw [avm_flush_eq]
  split
  · rename_i h; simp at h; simp [h]
  · simp

theorem flush_done (t : TokSt) : (avmFlush% t).done = t.done := by
  rw [avm_flush_eq]; split <;> rfl

/-- one character of the tokeniser, phrased with the model's scanner -/
theorem go_step (t : TokSt) (c : Char) (rest : List Char) (hd : t.done = false) :
    tokenise.go (c :: rest) t =
      if commentHere (proj t) c rest.head? then { avmFlush% t with done := true }
      else tokenise.go rest (advance t c) := by
  rw [tokenise.go]
  simp only [avm_isWs_eq, hd, Bool.false_eq_true, if_false]
  unfold commentHere advance
  simp only [proj]
  repeat' split
  all_goals (first | rfl | simp_all [isWs])

theorem proj_advance (t : TokSt) (c : Char) :
    proj (advance t c) = scanNext (proj t) c ∧ (advance t c).done = t.done := by
  unfold scanNext advance
  simp only [proj]
  repeat' split
  all_goals (first | (constructor <;> rfl) | simp_all [flush_fields, flush_done])

theorem codePart_head (rest : List Char) (s : ScanSt) :
    (codePart rest s).head? = none ∨ (codePart rest s).head? = rest.head? := by
  cases rest with
  | nil => left; rfl
  | cons c r =>
    unfold codePart
    split
    · left; rfl
    · right; rfl

theorem commentHere_next (s : ScanSt) (c : Char) (n n' : Option Char)
    (h : commentHere s c n = false) (hn : n' = n ∨ n' ≠ some '/') : commentHere s c n' = false := by
  rcases hn with rfl | hn
  · exact h
  · unfold commentHere
    simp [hn]

theorem codePart_cons (c : Char) (rest : List Char) (s : ScanSt) :
    codePart (c :: rest) s = if commentHere s c rest.head? then [] else c :: codePart rest (scanNext s c) := by
  rw [codePart, scanStep]
  by_cases h : commentHere s c rest.head? = true <;> simp [h]

theorem finalSt_cons (c : Char) (rest : List Char) (s : ScanSt) :
    finalSt (c :: rest) s = if commentHere s c rest.head? then none else finalSt rest (scanNext s c) := by
  rw [finalSt, scanStep]
  by_cases h : commentHere s c rest.head? = true <;> simp [h]

/-- the tokeniser produces the same tokens on the code part as on the whole line -/
theorem go_codePart (cs : List Char) : ∀ t : TokSt, t.done = false →
    (avmFlush% (tokenise.go (codePart cs (proj t)) t)).toks = (avmFlush% (tokenise.go cs t)).toks := by
  induction cs with
  | nil => intro t _; rfl
  | cons c rest ih =>
    intro t hd
    rw [codePart_cons, go_step t c rest hd]
    by_cases hc : commentHere (proj t) c rest.head? = true
    · simp only [hc, if_true, go_nil]
      have hf := flush_fields t
      conv => rhs; rw [avm_flush_eq]
      simp [hf.1]
    · simp only [hc, Bool.false_eq_true, if_false]
      have hc' : commentHere (proj t) c rest.head? = false := by simpa using hc
      have hpa := proj_advance t c
      have hhead : commentHere (proj t) c (codePart rest (scanNext (proj t) c)).head? = false := by
        apply commentHere_next _ _ _ _ hc'
        rcases codePart_head rest (scanNext (proj t) c) with h | h
        · right; rw [h]; simp
        · left; exact h
      rw [go_step t c _ hd, hhead]
      simp only [Bool.false_eq_true, if_false]
      rw [← hpa.1]
      exact ih (advance t c) (by rw [hpa.2]; exact hd)

/-- **the model's scanner cuts the line exactly where the trusted tokeniser starts the comment**:
    the code part tokenises to the same tokens as the whole line. -/
theorem codePart_tokens (cs : List Char) :
    tokenise (String.ofList (codePart cs {})) = tokenise (String.ofList cs) := by
  unfold tokenise
  simp only [String.toList_ofList]
  have := go_codePart cs {} rfl
  have hp : proj {} = {} := rfl
  rw [hp] at this
  exact congrArg List.reverse this

/-! ### the scanner on an annotated line -/

theorem head?_append_ne_nil {α} (l r : List α) (h : l ≠ []) : (l ++ r).head? = l.head? := by
  cases l with
  | nil => exact absurd rfl h
  | cons _ _ => rfl

theorem codePart_append (l : List Char) : ∀ (r : List Char) (s s' : ScanSt),
    finalSt l s = some s' → r.head? ≠ some '/' → codePart (l ++ r) s = l ++ codePart r s' := by
  induction l with
  | nil =>
    intro r s s' h _
    simp only [finalSt, Option.some.injEq] at h
    subst h; rfl
  | cons c l ih =>
    intro r s s' h hr
    rw [finalSt_cons] at h
    by_cases hc : commentHere s c l.head? = true
    · simp [hc] at h
    · have hc' : commentHere s c l.head? = false := by simpa using hc
      simp only [hc', Bool.false_eq_true, if_false] at h
      have hc2 : commentHere s c (l ++ r).head? = false := by
        apply commentHere_next _ _ _ _ hc'
        cases l with
        | nil => right; simpa using hr
        | cons _ _ => left; rfl
      rw [List.cons_append, codePart_cons, hc2]
      simp only [Bool.false_eq_true, if_false]
      rw [ih r _ _ h hr]
      rfl

theorem codePart_self (l : List Char) (s s' : ScanSt) (h : finalSt l s = some s') : codePart l s = l := by
  have := codePart_append l [] s s' h (by simp)
  simpa [codePart] using this

theorem codePart_comment (l : List Char) : ∀ (r : List Char) (s : ScanSt),
    finalSt l s = none → codePart (l ++ r) s = codePart l s := by
  induction l with
  | nil => intro r s h; simp [finalSt] at h
  | cons c l ih =>
    intro r s h
    rw [finalSt_cons] at h
    have hl : l ≠ [] := by
      intro h0; subst h0
      simp [commentHere, finalSt] at h
    rw [List.cons_append, codePart_cons, codePart_cons, head?_append_ne_nil l r hl]
    by_cases hc : commentHere s c l.head? = true
    · simp [hc]
    · simp only [hc, Bool.false_eq_true, if_false] at h ⊢
      rw [ih r _ h]

theorem codePart_blanks (k : Nat) (note : List Char) (s : ScanSt) (h1 : s.inStr = false)
    (h2 : s.inB64 = false) : codePart (List.replicate k ' ' ++ '/' :: '/' :: note) s = List.replicate k ' ' := by
  induction k generalizing s with
  | zero =>
    simp only [List.replicate, List.nil_append]
    rw [codePart_cons]
    simp [commentHere, h1, h2]
  | succ k ih =>
    simp only [List.replicate_succ, List.cons_append]
    rw [codePart_cons]
    have hc : commentHere s ' ' (List.replicate k ' ' ++ '/' :: '/' :: note).head? = false := by
      simp [commentHere]
    rw [hc]
    simp only [Bool.false_eq_true, if_false]
    have hn : scanNext s ' ' = { s with cur := [] } := by
      simp [scanNext, h1, isWs]
    rw [hn, ih _ (by simpa using h1) (by simpa using h2)]

theorem dropWhile_blanks (k : Nat) (m : List Char) :
    (List.replicate k ' ' ++ m).dropWhile isWs = m.dropWhile isWs := by
  induction k with
  | zero => rfl
  | succ k ih => simp [List.replicate_succ, isWs, ih]

theorem rstrip_blanks (l : List Char) (k : Nat) : rstrip (l ++ List.replicate k ' ') = rstrip l := by
  unfold rstrip
  rw [List.reverse_append, List.reverse_replicate, dropWhile_blanks]

/-- **Stripping the comment of an annotated line gives the stripped TEAL line** — for every complete
    TEAL line (no string literal or `base64(` group left open; it may carry a comment of its own),
    every amount of padding ≥ 1 and every annotation text.  In particular a `//` inside a quoted
    byte literal or inside `base64(…)` is not mistaken for the annotation. -/
theorem annotated_strip_general (line note : List Char) (pad : Nat) (h : closed line = true) (hp : 1 ≤ pad) :
    stripComment (annotate line pad note) = stripComment line := by
  unfold stripComment annotate closed at *
  rw [List.append_assoc]
  cases hf : finalSt line {} with
  | none => rw [codePart_comment line _ _ hf]
  | some s =>
    rw [hf] at h
    simp only [Bool.and_eq_true, Bool.not_eq_true'] at h
    have hr : (List.replicate pad ' ' ++ '/' :: '/' :: note).head? ≠ some '/' := by
      cases pad with
      | zero => omega
      | succ k => simp [List.replicate_succ]
    rw [codePart_append line _ _ s hf hr, codePart_blanks pad note s h.1 h.2, rstrip_blanks,
      codePart_self line _ s hf]

/-- **`stripComment (annotate line pad note) = line`** whenever `line` is a TEAL line as
    `assemble` produces it without a comment of its own (`plainTeal`). -/
theorem annotated_strip (line note : List Char) (pad : Nat) (h : plainTeal line = true) (hp : 1 ≤ pad) :
    stripComment (annotate line pad note) = line := by
  unfold plainTeal at h
  simp only [Bool.and_eq_true, beq_iff_eq] at h
  obtain ⟨h1, h2⟩ := h
  cases hf : finalSt line {} with
  | none => simp [hf] at h1
  | some s =>
    have hcl : closed line = true := by
      unfold closed; rw [hf]; rw [hf] at h1; exact h1
    rw [annotated_strip_general line note pad hcl hp]
    unfold stripComment
    rw [codePart_self line _ s hf, h2]

/-- the annotated line and the TEAL line tokenise identically up to the blanks in front of the
    annotation: both have the tokens of `stripComment`'s input -/
theorem annotated_codePart (line note : List Char) (pad : Nat) (h : closed line = true) (hp : 1 ≤ pad) :
    codePart (annotate line pad note) {} = codePart line {} ∨
    codePart (annotate line pad note) {} = line ++ List.replicate pad ' ' := by
  unfold annotate closed at *
  rw [List.append_assoc]
  cases hf : finalSt line {} with
  | none => left; rw [codePart_comment line _ _ hf]
  | some s =>
    right
    rw [hf] at h
    simp only [Bool.and_eq_true, Bool.not_eq_true'] at h
    have hr : (List.replicate pad ' ' ++ '/' :: '/' :: note).head? ≠ some '/' := by
      cases pad with
      | zero => omega
      | succ k => simp [List.replicate_succ]
    rw [codePart_append line _ _ s hf hr, codePart_blanks pad note s h.1 h.2]

theorem flush_flush (t : TokSt) : avmFlush% (avmFlush% t) = avmFlush% t := by
  have h := (flush_fields t).1
  conv => lhs; rw [avm_flush_eq]
  simp [h]

theorem go_blanks (k : Nat) : ∀ t : TokSt, t.done = false → t.inStr = false →
    (avmFlush% (tokenise.go (List.replicate k ' ') t)).toks = (avmFlush% t).toks := by
  induction k with
  | zero => intro t _ _; simp [go_nil]
  | succ k ih =>
    intro t hd hs
    rw [List.replicate_succ, go_step t ' ' _ hd]
    have hc : commentHere (proj t) ' ' (List.replicate k ' ').head? = false := by simp [commentHere]
    have ha : advance t ' ' = avmFlush% t := by simp [advance, hs, isWs]
    rw [hc, ha]
    simp only [Bool.false_eq_true, if_false]
    rw [ih _ (by rw [flush_done]; exact hd) (by rw [(flush_fields t).2.1]; exact hs), flush_flush]

theorem go_append_blanks (l : List Char) (k : Nat) : ∀ (t : TokSt) (s : ScanSt), t.done = false →
    finalSt l (proj t) = some s → s.inStr = false →
    (avmFlush% (tokenise.go (l ++ List.replicate k ' ') t)).toks = (avmFlush% (tokenise.go l t)).toks := by
  induction l with
  | nil =>
    intro t s hd hf hs
    simp only [finalSt, Option.some.injEq] at hf
    subst hf
    simp only [List.nil_append, go_nil]
    exact go_blanks k t hd hs
  | cons c l ih =>
    intro t s hd hf hs
    rw [finalSt_cons] at hf
    by_cases hc : commentHere (proj t) c l.head? = true
    · simp [hc] at hf
    · have hc' : commentHere (proj t) c l.head? = false := by simpa using hc
      simp only [hc', Bool.false_eq_true, if_false] at hf
      have hc2 : commentHere (proj t) c (l ++ List.replicate k ' ').head? = false := by
        apply commentHere_next _ _ _ _ hc'
        cases l with
        | nil =>
          right
          cases k <;> simp [List.replicate_succ]
        | cons _ _ => left; rfl
      rw [List.cons_append, go_step t c _ hd, go_step t c _ hd, hc', hc2]
      simp only [Bool.false_eq_true, if_false]
      have hpa := proj_advance t c
      exact ih (advance t c) s (by rw [hpa.2]; exact hd) (by rw [hpa.1]; exact hf) hs

/-- **The annotated line and the TEAL line have the same tokens** for the trusted tokeniser
    (`PyTealV.Avm.tokenise`), i.e. an assembler reads the same instruction from both. -/
theorem annotated_tokens (line note : List Char) (pad : Nat) (h : closed line = true) (hp : 1 ≤ pad) :
    tokenise (String.ofList (annotate line pad note)) = tokenise (String.ofList line) := by
  rw [← codePart_tokens (annotate line pad note)]
  rcases annotated_codePart line note pad h hp with hcp | hcp
  · rw [hcp, codePart_tokens]
  · rw [hcp]
    unfold closed at h
    cases hf : finalSt line {} with
    | none =>
      -- then the first alternative holds as well
      have : codePart (annotate line pad note) {} = codePart line {} := by
        unfold annotate; rw [List.append_assoc, codePart_comment line _ _ hf]
      rw [← hcp, this, codePart_tokens]
    | some s =>
      rw [hf] at h
      simp only [Bool.and_eq_true, Bool.not_eq_true'] at h
      unfold tokenise
      simp only [String.toList_ofList]
      exact congrArg List.reverse (go_append_blanks line pad {} s rfl hf h.1)

/-- the guards are satisfiable by the lines that matter: a `//` inside a quoted literal, inside
    `base64(…)`, an escaped quote, a line with its own comment, an empty line -/
example : plainTeal "byte \"a//b\"".toList = true := by decide
example : plainTeal "byte base64(//8=)".toList = true := by decide
example : plainTeal "byte \"q\\\"//\"".toList = true := by decide
example : plainTeal [] = true := by decide
example : closed "intc_0 // 1".toList = true ∧ plainTeal "intc_0 // 1".toList = false := by decide
example : stripComment (annotate "byte \"a//b\"".toList 3 " pt.Bytes('a//b')".toList) = "byte \"a//b\"".toList := by
  decide
/-- … and the guard is needed: with a string literal left open the annotation is swallowed -/
theorem annotated_strip_needs_closed :
    stripComment (annotate "byte \"ab".toList 2 " x".toList) ≠ "byte \"ab".toList := by decide

/-! ## Attribution: which frame a constant is mapped to

Full statement wanted by the property (a constant written on line L of file F is attributed to
(F, L)), in terms of the frame decision:

    attribution : ∀ a b lib user outer, (every frame in `lib` belongs to the PyTeal library) →
        keepIdx (a :: b :: lib ++ user :: outer) = some (2 + lib.length)

i.e. the frame kept is the innermost frame outside the library — the line where the user wrote the
constant.  This is FALSE of the code as it stands: "belongs to the library" is decided by an
unanchored regular-expression search for fragments such as `pyteal/ast` in the file name, so a
user file whose path merely contains such a fragment is skipped too (`attribution_counterexample`;
replayed on the real code by the harness, known finding `c15-user-file-matches-internal-path`).
What holds is the restriction to user files whose name matches none of the patterns. -/

theorem keepIdx_go (lib : List String) (user : String) (outer : List String)
    (hlib : ∀ f ∈ lib, frameIsPyteal f = true) (huser : frameIsPyteal user = false) :
    ∀ i, keepIdx.go i (lib ++ user :: outer) = some (i + lib.length) := by
  induction lib with
  | nil => intro i; simp [keepIdx.go, huser]
  | cons f fs ih =>
    intro i
    have hf := hlib f (by simp)
    simp only [List.cons_append, keepIdx.go, hf, if_true]
    rw [ih (fun g hg => hlib g (by simp [hg]))]
    simp only [List.length_cons]
    congr 1
    omega

theorem attribution_partial (a b user : String) (lib outer : List String)
    (hlib : ∀ f ∈ lib, frameIsPyteal f = true) (huser : frameIsPyteal user = false) :
    keepIdx (a :: b :: lib ++ user :: outer) = some (2 + lib.length) := by
  unfold keepIdx
  simp only [List.cons_append, List.drop_succ_cons, List.drop_zero]
  exact keepIdx_go lib user outer hlib huser 2

/-- a user module `…/c15pyteal/ast_mod.py` counts as PyTeal's own, so the constant it writes
    (frame 3) is attributed to its caller (frame 4) -/
theorem attribution_counterexample :
    frameIsPyteal "c15pyteal/ast_mod.py" = true ∧
    keepIdx ["pyteal/stack_frame.py", "pyteal/ast/expr.py", "pyteal/ast/int.py",
             "c15pyteal/ast_mod.py", "c15_main.py"] = some 4 := by decide

example : frameIsPyteal "c15_main.py" = false ∧ frameIsPyteal "pyteal/ast/int.py" = true ∧
    keepIdx ["pyteal/stack_frame.py", "pyteal/ast/expr.py", "pyteal/ast/int.py",
             "c15_mod0.py", "c15_main.py"] = some 3 := by decide


/-! ## injectivity corollaries: distinct associations never share an encoding -/

/-- two integer lists with the same Base64-VLQ text are the same list -/
theorem vlq_injective (vs ws : List Int) (h : vlqEncode vs = vlqEncode ws) : vs = ws := by
  have h1 := vlq_roundtrip vs
  rw [h, vlq_roundtrip ws] at h1
  exact (Except.ok.inj h1).symm

/-- two well-formed tables that serialise to the same Revision-3 JSON are the same table: the JSON
    loses nothing of the line / column / source / name associations -/
theorem r3_injective (t u : Table) (ht : t.wf = true) (hu : u.wf = true)
    (h : t.toJson = u.toJson) : t = u := by
  obtain ⟨j, hj, hdj⟩ := r3_roundtrip t ht
  obtain ⟨k, hk, hdk⟩ := r3_roundtrip u hu
  rw [hj, hk] at h
  have hjk : j = k := Except.ok.inj h
  subst hjk
  rw [hdj] at hdk
  exact Except.ok.inj hdk

/-- the same for map objects -/
theorem r3map_injective (m n : R3Map) (hm : m.wf = true) (hn : n.wf = true)
    (h : m.toJson = n.toJson) : m = n := by
  obtain ⟨j, hj, hdj⟩ := r3map_roundtrip m hm
  obtain ⟨k, hk, hdk⟩ := r3map_roundtrip n hn
  rw [hj, hk] at h
  have hjk : j = k := Except.ok.inj h
  subst hjk
  rw [hdj] at hdk
  exact Except.ok.inj hdk

end PyTealV.Proofs.C15
