/-
  C14 — inner method calls are marshalled per ARC-4.
  Model and spec: `PyTealV/Models/MethodCall.lean`.
-/
import PyTealV.Models.MethodCall
namespace PyTealV.Proofs.C14
open PyTealV PyTealV.Util PyTealV.Avm PyTealV.Models.MethodCall

/-! ### helpers -/

theorem bind_ok {ε α β : Type} {e : Except ε α} {f : α → Except ε β} {y : β}
    (h : (e >>= f) = .ok y) : ∃ x, e = .ok x ∧ f x = .ok y := by
  cases e with
  | error _ => simp [bind, Except.bind] at h
  | ok x => exact ⟨x, rfl, h⟩

theorem splitActs_fields (fs : Txn) : ∀ (r : List Act) (cur : Txn),
    splitActs (fs.map Act.ofSetting ++ r) cur = splitActs r (cur ++ fs) := by
  induction fs with
  | nil => intro r cur; simp
  | cons x xs ih =>
    intro r cur
    simp only [List.map_cons, List.cons_append, Act.ofSetting, splitActs]
    rw [show List.map Act.ofSetting xs = List.map Act.ofSetting xs from rfl, ih]
    simp

theorem splitActs_txns (txns : List Txn) (r : List Act) :
    splitActs (txns.flatMap (fun t => t.map Act.ofSetting ++ [Act.next]) ++ r) [] =
      txns ++ splitActs r [] := by
  induction txns with
  | nil => simp
  | cons t ts ih =>
    simp only [List.flatMap_cons, List.append_assoc]
    rw [splitActs_fields]
    simp [splitActs, ih]

theorem record_call (txns : List Txn) (call : Txn) :
    record (txns.flatMap (fun t => t.map Act.ofSetting ++ [Act.next]) ++ call.map Act.ofSetting) =
      txns ++ [call] := by
  unfold record
  rw [splitActs_txns]
  have := splitActs_fields call [] []
  simp only [List.append_nil, List.nil_append] at this
  rw [this]; simp [splitActs]


/-! ### reading the application call's settings -/

theorem foldl_accounts (l : List Bytes) : ∀ v : TxnView,
    (l.map (fun a => (("Accounts", Val.b a) : Setting))).foldl setF v =
      { v with accounts := v.accounts ++ l.map Val.b } := by
  induction l with
  | nil => intro v; simp
  | cons x xs ih => intro v; simp [ih, setF]

theorem foldl_apps (l : List Nat) : ∀ v : TxnView,
    (l.map (fun n => (("Applications", Val.u n) : Setting))).foldl setF v =
      { v with apps := v.apps ++ l.map Val.u } := by
  induction l with
  | nil => intro v; simp
  | cons x xs ih => intro v; simp [ih, setF]

theorem foldl_assets (l : List Nat) : ∀ v : TxnView,
    (l.map (fun n => (("Assets", Val.u n) : Setting))).foldl setF v =
      { v with assets := v.assets ++ l.map Val.u } := by
  induction l with
  | nil => intro v; simp
  | cons x xs ih => intro v; simp [ih, setF]

theorem foldl_appArgs (l : List Bytes) : ∀ v : TxnView,
    (l.map (fun x => (("ApplicationArgs", Val.b x) : Setting))).foldl setF v =
      { v with appArgs := v.appArgs ++ l.map Val.b } := by
  induction l with
  | nil => intro v; simp
  | cons x xs ih => intro v; simp [ih, setF]

theorem ite_isEmpty_map {α β : Type} (l : List α) (f : α → β) :
    (if l.isEmpty then [] else l.map f) = l.map f := by
  cases l <;> simp

/-! ### `SetFields` sets the fields of the dict, in order -/

theorem setField_ok (f : String) (dv : DVal) (a : Txn) (h : setField f dv = .ok a) :
    a = flattenD [(f, dv)] := by
  unfold setField at h
  split at h
  · simp at h
  · rename_i isUint isArray _
    cases isArray <;> cases dv <;> simp at h
    all_goals
      first
      | (obtain ⟨_, _, h⟩ := bind_ok h
         simp at h
         simp [flattenD, ← h])
      | skip


theorem setFields_ok : ∀ (d : Dict) (fs : Txn), setFields d = .ok fs → fs = flattenD d := by
  intro d
  induction d with
  | nil => intro fs h; simp [setFields] at h; simp [flattenD, ← h]
  | cons e r ih =>
    intro fs h
    obtain ⟨f, dv⟩ := e
    unfold setFields at h
    obtain ⟨a, ha, h⟩ := bind_ok h
    obtain ⟨b, hb, h⟩ := bind_ok h
    have h1 := setField_ok f dv a ha
    have h2 := ih b hb
    simp [pure, Except.pure] at h
    subst h1 h2
    rw [← h]
    cases dv <;> simp [flattenD]

/-! ### the argument loop against the declarative spec -/

theorem uint8E_ok {n : Nat} {b : Bytes} (h : uint8E n = .ok b) : uint8? n = some b := by
  unfold uint8E at h; unfold uint8?
  split at h <;> simp_all

theorem countK_append (p : Kind → Bool) (b : List KV) (z : KV) :
    countK p (b ++ [z]) = countK p b + (if p z.1 then 1 else 0) := by
  simp [countK, List.countP_append, List.countP_cons]

/-- One iteration: the argument has a meaning, the slot the spec prescribes (given the arguments
    before it) is what is appended to `app_args`, and the foreign arrays / transaction list grow
    by exactly this argument. -/
theorem step_spec (asg : String → String → Bool) (k : Kind) (a : PArg) (s s1 : LoopSt) (before : List KV)
    (h : stepArg asg k a s = .ok s1)
    (ha : s.accts.length = countK Kind.isAccount before)
    (hp : s.apps.length = countK Kind.isApplication before)
    (hs : s.assets.length = countK Kind.isAsset before) :
    ∃ v sl, denoteArg k a = some v ∧ slotOf before (k, v) = some sl ∧
      sl.length = (if k.isTxn then 0 else 1) ∧
      s1.appArgs = s.appArgs ++ sl.map (·.enc) ∧
      s1.txns = s.txns ++ txnsOf [(k, v)] ∧
      s1.accts = s.accts ++ accountsOf [(k, v)] ∧
      s1.apps = s.apps ++ appsOf [(k, v)] ∧
      s1.assets = s.assets ++ assetsOf [(k, v)] := by
  cases k with
  | plain ty lay =>
    cases a with
    | expr v =>
      cases v <;> simp [stepArg, pure, Except.pure] at h
      subst h
      simp [denoteArg, slotOf, Kind.isTxn, txnsOf, accountsOf, appsOf, assetsOf]
    | abiVal ty' enc =>
      simp only [stepArg] at h
      split at h <;> simp [pure, Except.pure] at h
      subst h
      simp [denoteArg, slotOf, Kind.isTxn, txnsOf, accountsOf, appsOf, assetsOf]
    | _ => simp [stepArg] at h
  | account =>
    cases a with
    | expr v =>
      cases v with
      | u n => simp [stepArg] at h
      | b x =>
        simp only [stepArg] at h
        obtain ⟨ix, hix, h⟩ := bind_ok h
        simp [pure, Except.pure] at h
        subst h
        have := uint8E_ok hix
        rw [ha] at this
        simp [denoteArg, slotOf, Kind.isTxn, txnsOf, accountsOf, appsOf, assetsOf, this]
    | account x =>
      simp only [stepArg] at h
      obtain ⟨ix, hix, h⟩ := bind_ok h
      simp [pure, Except.pure] at h
      subst h
      have := uint8E_ok hix
      rw [ha] at this
      simp [denoteArg, slotOf, Kind.isTxn, txnsOf, accountsOf, appsOf, assetsOf, this]
    | _ => simp [stepArg] at h
  | application =>
    cases a with
    | expr v =>
      cases v with
      | b n => simp [stepArg] at h
      | u x =>
        simp only [stepArg] at h
        obtain ⟨ix, hix, h⟩ := bind_ok h
        simp [pure, Except.pure] at h
        subst h
        have := uint8E_ok hix
        rw [hp] at this
        simp [denoteArg, slotOf, Kind.isTxn, txnsOf, accountsOf, appsOf, assetsOf, this]
    | application x =>
      simp only [stepArg] at h
      obtain ⟨ix, hix, h⟩ := bind_ok h
      simp [pure, Except.pure] at h
      subst h
      have := uint8E_ok hix
      rw [hp] at this
      simp [denoteArg, slotOf, Kind.isTxn, txnsOf, accountsOf, appsOf, assetsOf, this]
    | _ => simp [stepArg] at h
  | asset =>
    simp only [stepArg] at h
    obtain ⟨ix, hix, h⟩ := bind_ok h
    have := uint8E_ok hix
    rw [hs] at this
    cases a with
    | expr v =>
      cases v with
      | b n => simp at h
      | u x =>
        simp [pure, Except.pure] at h
        subst h
        simp [denoteArg, slotOf, Kind.isTxn, txnsOf, accountsOf, appsOf, assetsOf, this]
    | asset x =>
      simp [pure, Except.pure] at h
      subst h
      simp [denoteArg, slotOf, Kind.isTxn, txnsOf, accountsOf, appsOf, assetsOf, this]
    | _ => simp at h
  | txn ty =>
    cases a with
    | dict d =>
      simp only [stepArg] at h
      split at h
      · simp at h
      · split at h
        · simp at h
        · split at h
          · obtain ⟨fs, hfs, h⟩ := bind_ok h
            simp [pure, Except.pure] at h
            subst h
            have := setFields_ok d fs hfs
            simp [denoteArg, slotOf, Kind.isTxn, txnsOf, accountsOf, appsOf, assetsOf, this]
          · simp at h
      · simp at h
    | _ => simp [stepArg] at h


theorem accountsOf_cons (z : KV) (zs : List KV) : accountsOf (z :: zs) = accountsOf [z] ++ accountsOf zs := by
  simp [accountsOf, List.filterMap_cons]; split <;> simp
theorem appsOf_cons (z : KV) (zs : List KV) : appsOf (z :: zs) = appsOf [z] ++ appsOf zs := by
  simp [appsOf, List.filterMap_cons]; split <;> simp
theorem assetsOf_cons (z : KV) (zs : List KV) : assetsOf (z :: zs) = assetsOf [z] ++ assetsOf zs := by
  simp [assetsOf, List.filterMap_cons]; split <;> simp
theorem txnsOf_cons (z : KV) (zs : List KV) : txnsOf (z :: zs) = txnsOf [z] ++ txnsOf zs := by
  simp [txnsOf, List.filterMap_cons]; split <;> simp

theorem accountsOf_single_length (k : Kind) (v : SVal) (sl : List Slot)
    (h : slotOf before (k, v) = some sl) :
    (accountsOf [(k, v)]).length = (if k.isAccount then 1 else 0) ∧
    (appsOf [(k, v)]).length = (if k.isApplication then 1 else 0) ∧
    (assetsOf [(k, v)]).length = (if k.isAsset then 1 else 0) := by
  cases k <;> cases v <;> simp [slotOf] at h <;>
    simp [accountsOf, appsOf, assetsOf, Kind.isAccount, Kind.isApplication, Kind.isAsset]

/-- The whole loop: on success the arguments have meanings `vals`, `app_args` grows by the slots
    the spec prescribes for them, the foreign arrays by the reference values and `txns_to_pass`
    by the transaction arguments, all in argument order. -/
theorem loop_spec (asg : String → String → Bool) : ∀ (ks : List Kind) (as : List PArg)
    (s s' : LoopSt) (before : List KV),
    loop asg ks as s = .ok s' →
    s.accts.length = countK Kind.isAccount before →
    s.apps.length = countK Kind.isApplication before →
    s.assets.length = countK Kind.isAsset before →
    ∃ vals slots, denote ks as = some vals ∧ vals.length = ks.length ∧
      encodeFrom before (ks.zip vals) = some slots ∧
      slots.length = (ks.filter (fun k => !k.isTxn)).length ∧
      s'.appArgs = s.appArgs ++ slots.map (·.enc) ∧
      s'.txns = s.txns ++ txnsOf (ks.zip vals) ∧
      s'.accts = s.accts ++ accountsOf (ks.zip vals) ∧
      s'.apps = s.apps ++ appsOf (ks.zip vals) ∧
      s'.assets = s.assets ++ assetsOf (ks.zip vals) := by
  intro ks
  induction ks with
  | nil =>
    intro as s s' before h _ _ _
    cases as with
    | nil =>
      simp [loop] at h; subst h
      exact ⟨[], [], by simp [denote], rfl, by simp [encodeFrom], by simp,
        by simp, by simp [txnsOf], by simp [accountsOf], by simp [appsOf], by simp [assetsOf]⟩
    | cons a as => simp [loop] at h
  | cons k ks ih =>
    intro as s s' before h ha hp hs
    cases as with
    | nil => simp [loop] at h
    | cons a as =>
      unfold loop at h
      obtain ⟨s1, h1, h⟩ := bind_ok h
      obtain ⟨v, sl, hv, hsl, hlen, e1, e2, e3, e4, e5⟩ := step_spec asg k a s s1 before h1 ha hp hs
      obtain ⟨c1, c2, c3⟩ := accountsOf_single_length (before := before) k v sl hsl
      have ha' : s1.accts.length = countK Kind.isAccount (before ++ [(k, v)]) := by
        rw [e3, countK_append, List.length_append, ha, c1]
      have hp' : s1.apps.length = countK Kind.isApplication (before ++ [(k, v)]) := by
        rw [e4, countK_append, List.length_append, hp, c2]
      have hs' : s1.assets.length = countK Kind.isAsset (before ++ [(k, v)]) := by
        rw [e5, countK_append, List.length_append, hs, c3]
      obtain ⟨vals, slots, d, dl, en, sl2, f1, f2, f3, f4, f5⟩ :=
        ih as s1 s' (before ++ [(k, v)]) h ha' hp' hs'
      refine ⟨v :: vals, sl ++ slots, ?_, by simp [dl], ?_, ?_, ?_, ?_, ?_, ?_, ?_⟩
      · simp [denote, hv, d]
      · simp [encodeFrom, hsl, en]
      · rw [List.length_append, hlen, sl2, List.filter_cons]
        cases k <;> simp [Kind.isTxn] <;> omega
      · rw [f1, e1]; simp
      · rw [List.zip_cons_cons, txnsOf_cons, f2, e2]; simp
      · rw [List.zip_cons_cons, accountsOf_cons, f3, e3]; simp
      · rw [List.zip_cons_cons, appsOf_cons, f4, e4]; simp
      · rw [List.zip_cons_cons, assetsOf_cons, f5, e5]; simp


/-! ### the whole expression -/

/-- the application call as `MethodCall` builds it, read by the ledger: always one application
    argument per non-transaction argument (no packing step) -/
def unpackedCall (sig : Sig) (zs : List KV) (slots : List Slot) (appId : Option Nat) (extra : Txn) :
    TxnView :=
  extra.foldl setF
    { typeEnum := some (.u applType)
      appId := appId.map .u
      appArgs := (Val.b sig.selector) :: (slots.map (·.enc)).map .b
      accounts := (accountsOf zs).map .b
      apps := (appsOf zs).map .u
      assets := (assetsOf zs).map .u }

/-- Exact characterisation of what is submitted (for every signature, any number of arguments):
    the transaction arguments in order, then the application call with the selector, one
    application argument per non-transaction argument, and the three foreign arrays. -/
theorem methodcall_emits (asg : String → String → Bool) (sig : Sig) (appId : Option Val)
    (args : List PArg) (extra : Dict) (acts : List Act)
    (h : methodCall asg sig appId args extra = .ok acts) :
    ∃ vals slots, denote sig.args args = some vals ∧ vals.length = sig.args.length ∧
      encodeFrom [] (sig.args.zip vals) = some slots ∧
      slots.length = (sig.args.filter (fun k => !k.isTxn)).length ∧
      (record acts).map decodeTxn =
        (txnsOf (sig.args.zip vals)).map decodeTxn ++
          [unpackedCall sig (sig.args.zip vals) slots (appIdNat appId) (flattenD extra)] := by
  unfold methodCall at h
  obtain ⟨idf, hid, h⟩ := bind_ok h
  split at h
  · simp at h
  · obtain ⟨s, hs, h⟩ := bind_ok h
    obtain ⟨ex, hex, h⟩ := bind_ok h
    simp only [pure, Except.pure, Except.ok.injEq] at h
    obtain ⟨vals, slots, d, dl, en, sl, f1, f2, f3, f4, f5⟩ :=
      loop_spec asg sig.args args {} s [] hs (by simp [countK]) (by simp [countK]) (by simp [countK])
    refine ⟨vals, slots, d, dl, en, sl, ?_⟩
    have hex' := setFields_ok extra ex hex
    simp only [List.nil_append] at f1 f2 f3 f4 f5
    rw [← h, record_call, List.map_append, f2]
    congr 1
    simp only [List.map_cons, List.map_nil, List.cons.injEq, and_true]
    simp only [ite_isEmpty_map, decodeTxn, List.foldl_append, unpackedCall, hex', f1, f3, f4, f5]
    congr 1
    have hidf : idf = [] ∧ appIdNat appId = none ∨ ∃ n, idf = [("ApplicationID", Val.u n)] ∧ appIdNat appId = some n := by
      cases appId with
      | none => simp [idFieldsOf] at hid; exact Or.inl ⟨hid, rfl⟩
      | some v =>
        cases v with
        | u n => simp [idFieldsOf] at hid; exact Or.inr ⟨n, hid.symm, rfl⟩
        | b x => simp [idFieldsOf] at hid
    rw [List.foldl_cons, foldl_appArgs, foldl_assets, foldl_apps, foldl_accounts]
    rcases hidf with ⟨e1, e2⟩ | ⟨n, e1, e2⟩ <;> simp [e1, e2, setF]


/-! ## The property -/

/-- the inner group `Begin; MethodCall(…); Submit` submits, as its reader sees it
    (none = the expression is rejected when built) -/
def submitted (asg : String → String → Bool) (sig : Sig) (appId : Option Val) (args : List PArg)
    (extra : Dict) : Option (List TxnView) :=
  match methodCall asg sig appId args extra with
  | .ok acts => some ((record acts).map decodeTxn)
  | .error _ => none

/-- the inner group ARC-4 prescribes for the values the arguments stand for -/
def prescribed (sig : Sig) (appId : Option Val) (args : List PArg) (extra : Dict) :
    Option (List TxnView) :=
  (denote sig.args args).bind (fun vals => arc4Call sig vals (appIdNat appId) (flattenD extra))

/-
  FULL STATEMENT (false of the code as it is — see `methodcall_counterexample`):

    theorem methodcall_marshal (asg) (sig : Sig) (appId : Option Val) (args : List PArg)
        (extra : Dict) (g : List TxnView) (h : submitted asg sig appId args extra = some g) :
        prescribed sig appId args extra = some g

  i.e. whenever `MethodCall` builds, the group recorded at `itxn_submit`, read field by field, is
  the group the ARC-4 convention prescribes for the values the arguments stand for.  `MethodCall`
  has no tuple-packing step, so this holds exactly for signatures with at most 15
  non-transaction arguments.
-/

/-- Strongest true restriction: at most 15 non-transaction arguments (any number of transaction
    arguments, any mix of kinds in any order, any extra fields, any assignability relation). -/
theorem methodcall_marshal_partial (asg : String → String → Bool) (sig : Sig) (appId : Option Val)
    (args : List PArg) (extra : Dict) (g : List TxnView)
    (h : submitted asg sig appId args extra = some g)
    (h15 : (sig.args.filter (fun k => !k.isTxn)).length ≤ 15) :
    prescribed sig appId args extra = some g := by
  unfold submitted at h
  split at h
  · rename_i acts hacts
    obtain ⟨vals, slots, d, dl, en, sl, hrec⟩ := methodcall_emits asg sig appId args extra acts hacts
    have hp : packArgs slots = some (slots.map (·.enc)) := by
      unfold packArgs; rw [if_pos (by omega)]
    simp only [Option.some.injEq] at h
    simp [prescribed, d, arc4Call, dl, en, hp, ← h, hrec, unpackedCall]
  · simp at h

/-- the same for `ExecuteMethodCall` (= Begin, MethodCall, Submit) -/
theorem executemethodcall_marshal_partial (asg : String → String → Bool) (sig : Sig)
    (appId : Option Val) (args : List PArg) (extra : Dict) (g : Group)
    (h : executeMethodCall asg sig appId args extra = .ok g)
    (h15 : (sig.args.filter (fun k => !k.isTxn)).length ≤ 15) :
    prescribed sig appId args extra = some (g.map decodeTxn) := by
  apply methodcall_marshal_partial asg sig appId args extra _ _ h15
  unfold executeMethodCall at h
  unfold submitted
  cases hm : methodCall asg sig appId args extra with
  | error e => simp [hm, Except.map] at h
  | ok acts => simp [hm, Except.map] at h; simp [h]

/-- sixteen `uint64` arguments 0 … 15 -/
def sig16 : Sig := ⟨[0x01, 0x02, 0x03, 0x04], List.replicate 16 (.plain "uint64" .static)⟩
def args16 : List PArg := (List.range 16).map (fun i => .abiVal "uint64" (natToBE 8 i))

/-- The full statement fails at 16 plain arguments: `MethodCall` builds, the call it submits
    carries 17 application arguments (selector + 16); ARC-4 prescribes 16 (selector, 14
    arguments, one tuple holding the last two). -/
theorem methodcall_counterexample :
    submitted (· == ·) sig16 (some (.u 1)) args16 [] ≠ none ∧
    submitted (· == ·) sig16 (some (.u 1)) args16 [] ≠ prescribed sig16 (some (.u 1)) args16 [] ∧
    (submitted (· == ·) sig16 (some (.u 1)) args16 []).map (·.map (·.appArgs.length)) = some [17] ∧
    (prescribed sig16 (some (.u 1)) args16 []).map (·.map (·.appArgs.length)) = some [16] ∧
    (prescribed sig16 (some (.u 1)) args16 []).map (·.map (·.appArgs.getLast?)) =
      some [some (.b [0, 0, 0, 0, 0, 0, 0, 14, 0, 0, 0, 0, 0, 0, 0, 15])] := by
  decide


/-! ### build-time rejection -/

theorem step_fits (asg : String → String → Bool) (k : Kind) (a : PArg) (s s1 : LoopSt)
    (h : stepArg asg k a s = .ok s1) : fits asg k a = true := by
  cases k with
  | plain ty lay =>
    cases a with
    | expr v => cases v <;> simp [stepArg] at h <;> simp [fits]
    | abiVal ty' enc =>
      simp only [stepArg] at h
      split at h
      · simpa [fits]
      · simp at h
    | _ => simp [stepArg] at h
  | account =>
    cases a with
    | expr v => cases v <;> simp [stepArg] at h <;> simp [fits]
    | account x => simp [fits]
    | _ => simp [stepArg] at h
  | application =>
    cases a with
    | expr v => cases v <;> simp [stepArg] at h <;> simp [fits]
    | application x => simp [fits]
    | _ => simp [stepArg] at h
  | asset =>
    simp only [stepArg] at h
    obtain ⟨ix, _, h⟩ := bind_ok h
    cases a with
    | expr v => cases v <;> simp at h <;> simp [fits]
    | asset x => simp [fits]
    | _ => simp at h
  | txn ty =>
    cases a with
    | dict d =>
      simp only [stepArg] at h
      simp only [fits]
      split at h
      · simp at h
      · rename_i name code hf
        rw [hf]
        split at h
        · simp at h
        · rename_i g hg
          simp only [hg]
          split at h
          · assumption
          · simp at h
      · simp at h
    | _ => simp [stepArg] at h

theorem loop_fits (asg : String → String → Bool) : ∀ (ks : List Kind) (as : List PArg)
    (s s' : LoopSt), loop asg ks as s = .ok s' →
    allFit asg ks as = true := by
  intro ks
  induction ks with
  | nil =>
    intro as s s' h
    cases as with
    | nil => rfl
    | cons a as => simp [loop] at h
  | cons k ks ih =>
    intro as s s' h
    cases as with
    | nil => simp [loop] at h
    | cons a as =>
      unfold loop at h
      obtain ⟨s1, h1, h⟩ := bind_ok h
      simp [allFit, step_fits asg k a s s1 h1, ih as s1 s' h]

/-- Whatever `MethodCall` accepts has one argument per signature entry and every argument fits
    its entry: a plain entry takes a bytes expression or an ABI value of an assignable type, a
    reference entry takes an expression of the reference's storage type or the matching
    reference value, a transaction entry takes a dict whose `type_enum` is a `TxnType` member
    naming the stated type (any specific type for `txn`); `app_id` is `None` or of type uint64. -/
theorem methodcall_accepts_only_fits (asg : String → String → Bool) (sig : Sig)
    (appId : Option Val) (args : List PArg) (extra : Dict) (acts : List Act)
    (h : methodCall asg sig appId args extra = .ok acts) :
    allFit asg sig.args args = true ∧
    (appId = none ∨ ∃ n, appId = some (.u n)) := by
  unfold methodCall at h
  obtain ⟨idf, hid, h⟩ := bind_ok h
  split at h
  · simp at h
  · obtain ⟨s, hs, h⟩ := bind_ok h
    refine ⟨loop_fits asg _ _ _ _ hs, ?_⟩
    cases appId with
    | none => exact Or.inl rfl
    | some v =>
      cases v with
      | u n => exact Or.inr ⟨n, rfl⟩
      | b x => simp [idFieldsOf] at hid

/-- Arguments whose type does not fit the signature (wrong count included) are rejected when the
    expression is built. -/
theorem methodcall_rejects_misfit (asg : String → String → Bool) (sig : Sig)
    (appId : Option Val) (args : List PArg) (extra : Dict)
    (h : allFit asg sig.args args = false) :
    ∃ e, methodCall asg sig appId args extra = .error e := by
  cases hm : methodCall asg sig appId args extra with
  | error e => exact ⟨e, rfl⟩
  | ok acts => simp [(methodcall_accepts_only_fits asg sig appId args extra acts hm).1] at h

/-- the exception for a wrong number of arguments is TealInputError -/
theorem methodcall_rejects_count (asg : String → String → Bool) (sig : Sig)
    (n : Nat) (args : List PArg) (extra : Dict) (h : args.length ≠ sig.args.length) :
    methodCall asg sig (some (.u n)) args extra = .error .input ∧
    methodCall asg sig none args extra = .error .input := by
  simp [methodCall, idFieldsOf, h, bind, Except.bind]

/-! ### the recording function is the AVM's -/

theorem semStep_fold (acts : List Act) : ∀ (cur : Txn) (g : List Txn),
    ((acts.foldl semStep (cur.reverse :: g)).map List.reverse).reverse =
      (g.map List.reverse).reverse ++ splitActs acts cur := by
  induction acts with
  | nil => intro cur g; simp [splitActs]
  | cons a r ih =>
    intro cur g
    cases a with
    | field f v =>
      have := ih (cur ++ [(f, v)]) g
      simp only [List.reverse_append, List.reverse_cons, List.reverse_nil, List.nil_append,
        List.singleton_append] at this
      simp only [List.foldl_cons, semStep, splitActs]
      exact this
    | next =>
      have := ih [] (cur.reverse :: g)
      simp only [List.reverse_nil] at this
      simp only [List.foldl_cons, semStep, splitActs, this]
      simp

/-- `record` is what `itxn_begin … itxn_submit` of `Avm.Sem` records (buffer newest-first,
    reversed at submit) -/
theorem record_eq_sem (acts : List Act) : semRecord acts = record acts := by
  have := semStep_fold acts [] []
  simpa [semRecord, record] using this

/-! ### the statements are not vacuous -/

/-- a call mixing all kinds: builds, and submits what ARC-4 prescribes -/
def sigMix : Sig :=
  ⟨[0xAA, 0xBB, 0xCC, 0xDD],
   [.plain "uint64" .static, .txn .pay, .account, .plain "string" .dynamic, .asset, .application,
    .txn .any, .account, .asset]⟩
def argsMix : List PArg :=
  [.abiVal "uint64" (natToBE 8 5),
   .dict [("TypeEnum", .enum "pay" 1), ("Amount", .one (.u 9))],
   .expr (.b [1, 1]), .expr (.b [0, 2, 104, 105]), .expr (.u 33), .application 44,
   .dict [("XferAsset", .one (.u 9)), ("TypeEnum", .enum "axfer" 4), ("Accounts", .many [.b [7]])],
   .account [2, 2], .asset 34]

example :
    submitted (· == ·) sigMix (some (.u 77)) argsMix [("Fee", .one (.u 0))] =
      some [ { typeEnum := some (.u 1), others := [("Amount", .u 9)] },
             { typeEnum := some (.u 4), accounts := [.b [7]], others := [("XferAsset", .u 9)] },
             { typeEnum := some (.u 6), appId := some (.u 77),
               appArgs := [.b [0xAA, 0xBB, 0xCC, 0xDD], .b [0, 0, 0, 0, 0, 0, 0, 5], .b [1],
                           .b [0, 2, 104, 105], .b [0], .b [1], .b [2], .b [1]],
               accounts := [.b [1, 1], .b [2, 2]], apps := [.u 44], assets := [.u 33, .u 34],
               others := [("Fee", .u 0)] } ] ∧
    prescribed sigMix (some (.u 77)) argsMix [("Fee", .one (.u 0))] =
      submitted (· == ·) sigMix (some (.u 77)) argsMix [("Fee", .one (.u 0))] := by
  decide

/-- misfits exist and are rejected with the modelled exception class -/
example :
    methodCall (· == ·) ⟨[1, 2, 3, 4], [.plain "uint64" .static]⟩ none [.abiVal "string" [0, 0]] []
      = .error .type ∧
    methodCall (· == ·) ⟨[1, 2, 3, 4], [.txn .pay]⟩ none [.dict [("TypeEnum", .enum "axfer" 4)]] []
      = .error .input ∧
    methodCall (· == ·) ⟨[1, 2, 3, 4], [.txn .pay]⟩ none [.dict [("Amount", .one (.u 1))]] []
      = .error .input ∧
    methodCall (· == ·) ⟨[1, 2, 3, 4], [.account]⟩ none [.expr (.u 3)] [] = .error .type ∧
    methodCall (· == ·) ⟨[1, 2, 3, 4], [.account]⟩ none [] [] = .error .input ∧
    allFit (· == ·) [.plain "uint64" .static] [.abiVal "string" [0, 0]] = false :=
  ⟨rfl, rfl, rfl, rfl, rfl, rfl⟩

/-- the spec's packing, on 17 arguments with bools, a dynamic value and a reference beyond the
    cut: 14 plain slots, then (uint64, bool, bool, string, asset index) as one tuple
    (head: 8 bytes, one byte for the two bools, a 2-byte offset 12, one byte; tail: the string) -/
example :
    packArgs ((List.replicate 14 ⟨[9], .static⟩) ++
      [⟨natToBE 8 7, .static⟩, ⟨[0x80], .bool⟩, ⟨[0x80], .bool⟩, ⟨[0, 1, 65], .dynamic⟩, ⟨[0], .static⟩]) =
      some (List.replicate 14 [9] ++
        [[0, 0, 0, 0, 0, 0, 0, 7, 0xC0, 0, 12, 0, 0, 1, 65]]) := by
  decide

end PyTealV.Proofs.C14
