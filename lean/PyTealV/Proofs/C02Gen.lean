/-
  C02Gen — correctness of the code-generation model for whole programs with subroutine calls
  (`Comp.genR / genSub / genMainR`, collected by `Models.FragmentR.genProg`) with respect to the
  source semantics `Src.runProg`, on the multi-routine graph machine `Comp.runP`.

  FULL STATEMENT (the goal; kept visible):
    for every program `p` of the fragment, every version / calling-convention configuration for
    which `genProg version fp p = .ok Pg`, every context, world and fuel:
      `Src.runProg cx p fuel w0 = .done v w`  ⟹  some run of `runP cx Pg` ends `.done v w`
         (or fails with the machine's operand-stack limit, which the source semantics does not have),
      and a source failure other than `unmodelled` corresponds to a machine failure.

  WHAT IS PROVED HERE
    * `genProg_correct` (stages 1 and 2, complete): scratch-slot convention (`fp = false`), by-value
      parameters, call graph arbitrary — recursion (direct or mutual) included; the spill / restore
      code around re-entrant calls is covered by `frame_spill` (from the lemmas behind
      `C02Spill.spill_correct`, plus `before_ovf`: too little room under the stack limit makes
      `spillBefore` fail with exactly the stack-overflow failure).
    * `genProg_correct_stage1`: the special case without re-entrant calls.
    * `genProg_correct_fp` (stage 4, complete): frame-pointer convention, by-value parameters
      (`proto`, `frame_dig`, `retsub` clean-up); final worlds equal up to the parameter slots
      (the source semantics keeps parameters in scratch cells; `Proofs/C02GenPres.lean`: those
      cells survive every allowed call).
    * `genProg_correct_ref` (stage 3, scratch convention, complete) and `genProg_correct_fp_ref`
      (stage 3 under frame pointers, complete): by-reference parameters under the by-reference
      discipline R9 of `Models/FragmentR.lean`; `Proofs/C02GenValid.lean` shows that every value
      dereferenced by the generated `loads` / `stores` is a slot number `< 256`,
      `Proofs/C02GenPresV.lean` is the footprint theorem under that discipline.
    * `genProg_correct_dyn_partial` (PARTIAL): `vloads` / `vstores` outside the discipline; the range
      failures of `loads` / `stores` are permitted deviations.
    * the proof is by induction on the fuel of `Src.eval`, which decreases at every call, so
      *recursion itself needs no extra argument*: `sound_all` holds for every program for which the
      ops around each `callsub` do their job (`FrameProvider`) and the invariants of the
      activations survive calls (`CallInv`, `CallEntry`).
    * the link from an accepted `Check.validateProg` certificate to the real TEAL:
      `Proofs/C02Compile.lean`.
    * `WideRatio` is inside the fragment (`Proofs/C02GenWide.lean`, `case_wide`; the opcode
      arithmetic is that of `Proofs/C16.lean`) under the side conditions W1, W2 of
      `Models/FragmentR.lean` (`wideOk`): the first two factors of a factor list with at least two
      factors are syntactically uint64, and the factors evaluated after an opcode that can fail
      contain neither `Exit` nor calls.  Both are needed (`wide_unbounded_counterexample`,
      `wide_exit_counterexample` below).
  NOT PROVED: `Return` in operand position (false: `ret_in_operand_counterexample`);
  by-reference accesses outside the discipline without the range-failure caveat (false:
  `ref_discipline_counterexample`); `WideRatio` outside W1 / W2 (false, see above).
  The final world is equal **up to the representation of the scratch space** (`SameW`: same
  content slot by slot, every other component equal).  Literal equality is false as soon as a
  routine has two parameters (`scratch_order_counterexample` below): `Src.eval` binds parameters
  first-to-last, the generated prologue stores them last-to-first, and `setSlot` moves the written
  slot to the front of an association list.
-/
import PyTealV.Proofs.C02GenProg
import PyTealV.Proofs.C02GenSpill
import PyTealV.Proofs.C02GenPres
import PyTealV.Proofs.C02GenValid
import PyTealV.Proofs.C02GenPresV
namespace PyTealV.Proofs.C02Gen
open PyTealV PyTealV.Avm PyTealV.Src PyTealV.Comp PyTealV.Models.Fragment PyTealV.Models.FragmentR
open PyTealV.Check (isSimple)
open PyTealV.Proofs.Shape (ovf Blk isUnm retOut)

/-! ### calls that spill nothing -/

theorem frame_nospill {cx : Ctx} {X : MCtx} {cfg : RCfg} {f : Nat} {ce : Callee} {cb k nret : Nat}
    {locals : List Var} {st σ : List Val} {ic bcs} {w1 : World}
    (hns : (cfg.reenters.contains f && !cfg.localSlots.isEmpty) = false) (hloc : ∀ x ∈ locals, x ∈ X.ign)
    (hb : Blk X.G cb (callOps cfg f ce) (.next k)) :
    CallFrame cx X cb k f nret locals st σ ic bcs w1 := by
  have hops : callOps cfg f ce = [.callsub (subLabel f)] := by
    unfold callOps
    rw [hns]
    rfl
  rw [hops] at hb
  refine ⟨_, 0, σ, hb, rfl, ReachS.refl _, fun rets w3 _ => ?_⟩
  intro wm hw _ _
  refine .inr ⟨wm, ⟨fun x hx => ?_, hw.2⟩, trivial, .step ?_⟩
  · show getSlot (restoreW locals w1 w3).scratch x = _
    rw [restoreW_get, if_neg (fun h => hx (hloc x h))]
    exact hw.1 x hx
  · unfold Blk at hb
    simp [gstepP, MCtx.st, GSt.setW, X.hG, hb]

/-- the call blocks of a subroutine `sd` -/
theorem frame_of_sub {P : PCtx} {X : MCtx} {f0 : Nat} {sd : SubDef} (hS : SubOK P f0 sd) (hsd : findSub P.p f0 = some sd)
    (hign : X.ign = P.ign) {f : Nat} {ce : Callee} {cb k : Nat} {st σ : List Val} {ic bcs} {w1 : World}
    (hb : Blk X.G cb (callOps (subCfg P sd) f ce) (.next k)) (hlen : st.length = ce.nArgs) :
    CallFrame P.cx X cb k f (if ce.hasRet then 1 else 0) (srcLocals P.p (some f0) f) st σ ic bcs w1 := by
  by_cases hre : sd.reenters.contains f = true
  · by_cases hemp : (spillSlotsC P.fp sd).isEmpty = true
    · -- no local slot outside the ignored ones: nothing observable is saved on either side
      refine frame_nospill (by simp only [subCfg, hre, hemp]; rfl) ?_ hb
      intro x hx
      simp only [srcLocals, hsd, hre, if_true] at hx
      rw [hign]
      rcases Classical.em (x ∈ P.ign) with h | h
      · exact h
      · have := (hS.sset x h).mp hx
        rw [List.isEmpty_iff.mp hemp] at this
        cases this
    · have hemp' : (spillSlotsC P.fp sd).isEmpty = false := by simpa using hemp
      refine frame_spill (cfg := subCfg P sd) (by simp only [subCfg, hre, hemp']; rfl) hS.snodup hS.s256
        (fun s hs => hign ▸ hS.snign s hs) ?_ hlen hb
      intro x hx
      simp only [srcLocals, hsd, hre, if_true]
      exact hS.sset x (hign ▸ hx)
  · have hre' : sd.reenters.contains f = false := by simpa using hre
    refine frame_nospill (by simp only [subCfg, hre']; rfl) ?_ hb
    intro x hx
    simp only [srcLocals, hsd, hre'] at hx
    cases hx

/-- every call block of a program with `ProgOK` does its job: nothing to do when the callee cannot
    re-enter the caller (or the caller has no local slot), otherwise the spill / restore code of
    `Models.Spill` (`frame_spill`, from `C02Spill.restore_ok`, `before_ok`, `before_ovf`) -/
theorem frameProvider_of_progOK {P : PCtx} (hP : ProgOK P) : FrameProvider P := by
  intro X cfg K cur hR f ce cb k st σ ic bcs w1 hf hb hlen
  have hpresent := fun (h : ∃ f0, cur = some f0) => h
  cases hR with
  | main _ _ _ _ _ _ => exact frame_nospill (by simp [mainCfg]) (fun x hx => by cases hx) hb
  | @sub f0 sd fr cs' hpg hfp hsd hr0 hcs hpr hign hinv hdev hprot hact =>
    exact frame_of_sub (hP f0 sd hsd (RoutOK.present (.sub hpg hfp hsd hr0 hcs hpr hign hinv hdev hprot hact))) hsd hign hb hlen
  | @subFp f0 sd fr cs' st0 σc hpg hfp hsd hr0 hcs hpr hbase hl0 hh hign hinv hdev hprot hact =>
    exact frame_of_sub (hP f0 sd hsd (RoutOK.present (.subFp hpg hfp hsd hr0 hcs hpr hbase hl0 hh hign hinv hdev hprot hact)))
      hsd hign hb hlen

/-- scratch-slot convention without the by-reference discipline: activations carry no invariant on
    the source world -/
theorem callInv_scratch {P : PCtx} (hfp : P.fp = false) (hs : P.strict = false) : CallInv P := by
  intro X cfg K cur hR f sd st w1 fuel r3 w3 _ _ _ _ _ _
  cases hR with
  | main _ _ _ hinv => rw [hinv, PCtx.vinv, hs]; trivial
  | sub _ _ _ _ _ _ _ hinv => rw [hinv, PCtx.vinv, hs]; trivial
  | subFp _ hfp' => rw [hfp] at hfp'; cases hfp'

/-- outside the by-reference discipline the callee's invariant holds at its entry by construction -/
theorem callEntry_plain {P : PCtx} (hP : ProgOK P) (hs : P.strict = false) : CallEntry P := by
  intro X cfg K cur hR f sd args bc rc n st w w1 fuel hsd hpres _ hlen _ _
  unfold calleeInv
  have hv : ∀ A w, P.vinv A w := by intro A w; rw [PCtx.vinv, hs]; trivial
  cases hfp : P.fp with
  | false => simp only [Bool.false_eq_true, if_false]; exact hv _ _
  | true => simp only [if_true]; exact ⟨pInv_bindW hlen (hP f sd hsd hpres).pnodup, hv _ _⟩

theorem vinv_nil (P : PCtx) (w : World) : P.vinv [] w := by
  unfold PCtx.vinv
  split
  · intro f hf; cases hf
  · trivial

/-! ### the by-reference discipline (stage 3): `CallInv` and `CallEntry` from `valid_all` -/

/-- a declared routine has a graph -/
def PresentT (P : PCtx) (g : Nat) : Prop := ∀ sd, findSub P.p g = some sd → Present P g

theorem valCtx_of {P : PCtx}
    (hsubs : ∀ f sd, findSub P.p f = some sd → Present P f → subOkC P.fp P.p sd P.dyn true = true)
    (hcl : ∀ f sd, findSub P.p f = some sd → Present P f →
      ∃ l, (subK P.fp P.p sd P.dyn true).okCalls = some l ∧ ∀ g, g ∈ l → PresentT P g) :
    ValCtx P.p P.fp P.dyn (PresentT P) := by
  refine ⟨fun g hT sd hsd => ?_⟩
  have hpres := hT sd hsd
  have hok := hsubs g sd hsd hpres
  simp only [subOkC, Bool.and_eq_true, Bool.not_true, Bool.false_or, List.all_eq_true, Bool.not_eq_true',
    List.contains_eq_mem, decide_eq_false_iff_not] at hok
  exact ⟨hok.1.1.1.1.1.1.1.1, hcl g sd hsd hpres, nodupB_nodup _ hok.1.1.1.1.1.1.2, hok.2.1⟩

theorem mainK_okCalls {fp p dyn} : (mainK fp p dyn true).okCalls = some (callsOf p.main) := rfl

theorem kv_of {P : PCtx} (hs : P.strict = true) (hmain : ∀ g, g ∈ callsOf P.p.main → PresentT P g)
    (hcl : ∀ f sd, findSub P.p f = some sd → Present P f →
      ∃ l, (subK P.fp P.p sd P.dyn true).okCalls = some l ∧ ∀ g, g ∈ l → PresentT P g)
    {X cfg K cur} (hR : RoutOK P X cfg K cur) : KV P.p (PresentT P) X.act K := by
  have hpres := fun f (h : cur = some f) => RoutOK.present (h ▸ hR)
  have hkref := hR.kref hs
  cases hR with
  | main =>
    rw [hs] at hkref ⊢
    exact ⟨mainK_strictB, mainK_callees, mainK_refAll, mainK_parAll, mainK_kinds, ⟨_, mainK_okCalls, hmain⟩, hkref⟩
  | @sub f sd fr cs' _ _ hsd =>
    rw [hs] at hkref ⊢
    exact ⟨subK_strictB, subK_callees, subK_refAll, subK_parAll, subK_kinds, hcl f sd hsd (hpres f rfl), hkref⟩
  | @subFp f sd fr cs' _ _ _ _ hsd =>
    rw [hs] at hkref ⊢
    exact ⟨subK_strictB, subK_callees, subK_refAll, subK_parAll, subK_kinds, hcl f sd hsd (hpres f rfl), hkref⟩

theorem calleeInv_vset {P : PCtx} (hs : P.strict = true) {X : MCtx} {f : Nat} {sd : SubDef} {st : List Val} {w : World}
    (h : calleeInv P X f sd st w) : VSet P.p (f :: X.act) w := by
  unfold calleeInv at h
  split at h
  · have := h.2
    rw [PCtx.vinv, hs] at this
    exact this
  · rw [PCtx.vinv, hs] at h
    exact h

/-- by-reference discipline: the reference cells of the caller's active set are valid again after
    the call (the callee only wrote through valid references) -/
theorem callInv_vpart {P : PCtx} (hs : P.strict = true) (hC : ValCtx P.p P.fp P.dyn (PresentT P))
    (hkv : ∀ X cfg K cur, RoutOK P X cfg K cur → KV P.p (PresentT P) X.act K)
    {X cfg K cur} (hR : RoutOK P X cfg K cur) {f : Nat} {sd : SubDef} {st : List Val} {w1 w3 : World} {fuel : Nat} {r3 : Res}
    (hsd : findSub P.p f = some sd) (hallow : callAllowed K f = true)
    (hev : eval ⟨P.cx, P.p, some f⟩ fuel sd.body (bindW sd st w1) = (r3, w3))
    (hinv : X.inv w1) (hentry : calleeInv P X f sd st (bindW sd st w1)) :
    VSet P.p X.act (restoreW (srcLocals P.p cur f) w1 w3) := by
  have hinv' := hR.inv_vset hs hinv
  have hentry' := calleeInv_vset hs hentry
  obtain ⟨l, hl, hlT⟩ := (hkv X cfg K cur hR).calls
  unfold callAllowed at hallow
  rw [hl] at hallow
  have hT : PresentT P f := hlT f (by simpa using hallow)
  obtain ⟨hwtb, hcallsb, _, _⟩ := hC.body f hT sd hsd
  have hKb : KV P.p (PresentT P) (f :: X.act) (subK P.fp P.p sd P.dyn true) :=
    ⟨subK_strictB, subK_callees, subK_refAll, subK_parAll, subK_kinds, hcallsb,
      fun v hv => ⟨f, sd, List.mem_cons_self .., hsd, by rw [subK_ref] at hv; exact hv⟩⟩
  have h3 := (valid_all (cx := P.cx) hC fuel).ev (some f) sd.body _ r3 w3 _ false true _ _ hKb hwtb hev hentry'
  exact vset_restore hinv' (h3.sub (fun g hg => List.mem_cons_of_mem _ hg))

theorem callInv_ref {P : PCtx} (hs : P.strict = true) (hfp : P.fp = false) (hC : ValCtx P.p P.fp P.dyn (PresentT P))
    (hkv : ∀ X cfg K cur, RoutOK P X cfg K cur → KV P.p (PresentT P) X.act K) : CallInv P := by
  intro X cfg K cur hR f sd st w1 fuel r3 w3 hsd hallow hlen hev hinv hentry
  have hv := callInv_vpart hs hC hkv hR hsd hallow hev hinv hentry
  cases hR with
  | main _ _ _ hi => rw [hi, PCtx.vinv, hs]; exact hv
  | sub _ _ _ _ _ _ _ hi => rw [hi, PCtx.vinv, hs]; exact hv
  | subFp _ hfp' => rw [hfp] at hfp'; cases hfp'

/-- by-reference discipline: what a call passes for a by-reference parameter is a valid reference -/
theorem callEntry_ref {P : PCtx} (hP : ProgOK P) (hs : P.strict = true) (hC : ValCtx P.p P.fp P.dyn (PresentT P))
    (hkv : ∀ X cfg K cur, RoutOK P X cfg K cur → KV P.p (PresentT P) X.act K) : CallEntry P := by
  intro X cfg K cur hR f sd args bc rc n st w w1 fuel hsd hpres hw hlen hev hinv
  have hinv' := hR.inv_vset hs hinv
  have hK := hkv X cfg K cur hR
  have hw0 := hw
  simp only [wtR, Bool.and_eq_true] at hw
  obtain ⟨l, hl, hlT⟩ := hK.calls
  have hallow := hw.1.1.2
  rw [hl] at hallow
  have hT : PresentT P f := hlT f (by simpa using hallow)
  obtain ⟨_, _, hpnd, hvals⟩ := hC.body f hT sd hsd
  have hv := valid_entry (valid_all (cx := P.cx) hC fuel) hK hw0 hsd hpnd hvals hev hlen hinv'
  unfold calleeInv
  split
  · exact ⟨pInv_bindW hlen (hP f sd hsd hpres).pnodup, by rw [PCtx.vinv, hs]; exact hv⟩
  · rw [PCtx.vinv, hs]; exact hv

/-- frame-pointer convention under the by-reference discipline: the parameter cells of the caller
    are restored after a re-entrant call and untouched by any other call (`presV_all`), and the
    reference cells stay valid (`callInv_vpart`) -/
theorem callInv_fp_ref {P : PCtx} (hfp : P.fp = true) (hs : P.strict = true)
    (hpnd : nodupB (allParamSlots P.p) = true)
    (hsubs : ∀ f sd, findSub P.p f = some sd → Present P f → subOkC true P.p sd P.dyn true = true)
    (hreach : ∀ f0 sd0, findSub P.p f0 = some sd0 → Present P f0 → ∀ g ∈ okCallsOf P.p sd0,
      sd0.reenters.contains g = false → ∀ h ∈ reachSet P.p g, Present P h)
    (hC : ValCtx P.p P.fp P.dyn (PresentT P))
    (hkv : ∀ X cfg K cur, RoutOK P X cfg K cur → KV P.p (PresentT P) X.act K) : CallInv P := by
  intro X cfg K cur hR f sd st w1 fuel r3 w3 hsd hallow hlen hev hinv hentry
  have hv := callInv_vpart hs hC hkv hR hsd hallow hev hinv hentry
  have hentry' := calleeInv_vset hs hentry
  have hpnd' : (P.p.subs.flatMap (fun sd => sd.params.map (·.2))).Nodup := nodupB_nodup _ hpnd
  cases hR with
  | main _ _ _ hi => rw [hi, PCtx.vinv, hs]; exact hv
  | sub _ hfp' => rw [hfp] at hfp'; cases hfp'
  | @subFp f0 sd0 fr cs' st0 σc hpg hfp0 hsd0 hr0 hcs hpr hbase hl0 hh hign hi hdev0 hprot0 hact0 =>
    have hpres0 : Present P f0 := RoutOK.present (.subFp hpg hfp0 hsd0 hr0 hcs hpr hbase hl0 hh hign hi hdev0 hprot0 hact0)
    rw [hi] at hinv ⊢
    refine ⟨?_, by rw [PCtx.vinv, hs]; exact hv⟩
    replace hinv := hinv.1
    have hmem0 : sd0 ∈ P.p.subs := List.mem_of_find?_eq_some hsd0
    have hok0 := hsubs f0 sd0 hsd0 hpres0
    simp only [subOkC, Bool.and_eq_true, List.all_eq_true, Bool.not_true, Bool.false_or, List.contains_eq_mem,
      decide_eq_true_eq] at hok0
    have hploc : ∀ kv ∈ sd0.params, kv.2 ∈ sd0.locals := hok0.1.2
    intro pr hprm
    have hs0 : pr.1 ∈ sd0.params.map (·.2) := (List.of_mem_zip hprm).1
    obtain ⟨kv0, hkv0, hkv02⟩ := List.mem_map.mp hs0
    -- the call is allowed: `f` is re-entrant for `f0`, or cannot reach it
    simp only [callAllowed, subK, hfp, hs, if_true, okCallsOf, List.contains_eq_mem, decide_eq_true_eq, List.mem_filter,
      Bool.or_eq_true, Bool.and_eq_true, Bool.not_eq_true', decide_eq_false_iff_not] at hallow
    by_cases hre : sd0.reenters.contains f = true
    · -- re-entrant: the cell is restored
      simp only [srcLocals, hsd0, hre, if_true]
      rw [restoreW_get, if_pos (hkv02 ▸ hploc kv0 hkv0)]
      exact hinv pr hprm
    · have hre' : sd0.reenters.contains f = false := by simpa using hre
      simp only [srcLocals, hsd0, hre']
      have hallow0 := hallow
      obtain ⟨_, hdisj⟩ := hallow
      rcases hdisj with hc | ⟨⟨hclosed, hfT⟩, hf0T⟩
      · simp only [List.contains_eq_mem, decide_eq_true_eq] at hre; exact absurd hc hre
      · -- `f` cannot reach `f0`: nothing writes the cell during the call
        have hid0 := findSub_id hsd0
        rw [hid0] at hf0T
        simp only [closedSet, List.all_eq_true] at hclosed
        have hCv : PresVCtx P.p P.dyn (sd0.params.map (·.2)) (reachSet P.p f) := by
          refine ⟨fun s hs => ?_, fun g hg sdg hsg => ?_⟩
          · obtain ⟨kv, hkv, rfl⟩ := List.mem_map.mp hs
            exact mem_allParamSlots hmem0 hkv
          · have hcg := hclosed g hg
            rw [hsg] at hcg
            simp only [List.all_eq_true, List.contains_eq_mem, decide_eq_true_eq] at hcg
            have hmemg : sdg ∈ P.p.subs := List.mem_of_find?_eq_some hsg
            have hokg := hsubs g sdg hsg (hreach f0 sd0 hsd0 hpres0 f
              (by simp only [okCallsOf, List.mem_filter, Bool.or_eq_true, Bool.and_eq_true, List.contains_eq_mem,
                    decide_eq_true_eq, Bool.not_eq_true', decide_eq_false_iff_not]; exact hallow0)
              hre' g hg)
            simp only [subOkC, Bool.and_eq_true, Bool.not_true, Bool.false_or, List.all_eq_true, Bool.not_eq_true',
              List.contains_eq_mem, decide_eq_false_iff_not] at hokg
            refine ⟨hokg.1.1.1.1.1.1.1.1, fun g' hg' => ?_, fun kv hkv hin => ?_,
              nodupB_nodup _ hokg.1.1.1.1.1.1.2, hokg.2.1⟩
            · simp only [okCallsOf, List.mem_filter] at hg'
              exact hcg g' hg'.1
            · have hne : sdg ≠ sd0 := by
                intro heq
                have := findSub_id hsg
                rw [heq, hid0] at this
                rw [← this] at hg
                exact hf0T hg
              obtain ⟨kv1, hkv1, hkv12⟩ := List.mem_map.mp hin
              exact nodup_flatMap_disjoint (fun (sd : SubDef) => sd.params.map (·.2)) P.p.subs hpnd' sdg hmemg sd0 hmem0 hne
                kv.2 (List.mem_map.mpr ⟨kv, hkv, rfl⟩) (hkv12 ▸ List.mem_map.mpr ⟨kv1, hkv1, rfl⟩)
        obtain ⟨hwtf, hcallsf, hparf, _, _⟩ := hCv.body f hfT sd hsd
        have hKb : KVT P.p (reachSet P.p f) (f :: X.act) (subK true P.p sd P.dyn true) :=
          ⟨⟨rfl, rfl, rfl, rfl, rfl, ⟨_, rfl, hcallsf⟩, fun v hv => ⟨f, sd, List.mem_cons_self .., hsd, hv⟩⟩, rfl⟩
        have k := (keep_bindW_nc hparf st w1).trans
          ((presV_all (cx := P.cx) hCv fuel).ev (some f) sd.body _ r3 w3 _ false true _ _ hKb hwtf hev hentry').1
        have := k pr.1 hs0
        show getSlot (restoreW [] w1 w3).scratch pr.1 = pr.2
        rw [restoreW_get, if_neg (by simp), this]
        exact hinv pr hprm

/-! ### the whole program -/

section Final
variable (D : Fail → Prop) (I : List Nat) (cx : Ctx) (Pg : PProg) (w0 : World)

/-- the run of the whole program ends with outcome `o` (up to `SameW I`), unless it fails with one
    of the permitted deviations `D` -/
def OutP (o : Outcome) : Prop :=
  ∃ n, (∃ o', OutEq I o o' ∧ runP cx Pg n { world := w0 } = o') ∨
    ∃ f, D f ∧ runP cx Pg n { world := w0 } = .fail f

def FailsP : Prop := ∃ n f, runP cx Pg n { world := w0 } = .fail f

def OutVP (v : Val) (w' : World) : Prop :=
  match v with
  | .u _ => OutP D I cx Pg w0 (.done v w')
  | .b _ => FailsP cx Pg w0

/-- what the program graph does for each result of the source evaluation of the main tree -/
def FinalP : Res → World → Prop
  | .vals [v], w' => OutVP D I cx Pg w0 v w'
  | .vals _, _ => FailsP cx Pg w0
  | .ret (some v), w' => OutVP D I cx Pg w0 v w'
  | .exit v, w' => OutVP D I cx Pg w0 v w'
  | .ret none, _ => False
  | .brk, _ => False
  | .cont, _ => False
  | .fail f, _ => isUnm f ∨ FailsP cx Pg w0

end Final

section
variable {P : PCtx} {w0 : World}

/-- the main routine with the empty call stack -/
def X0 (P : PCtx) : MCtx :=
  { Pg := P.Pg, r := none, cs := [], G := P.Pg.main, hG := rfl, ign := P.ign, inv := P.vinv [], prot := P.prot,
    dev := P.dev, devOvf := P.dev_ovf }

theorem outVP_of_haltO {s : Nat} {v : Val} {w' : World} (hs : s = P.Pg.start)
    (h : HaltO P.cx (X0 P) ⟨s, 0⟩ ⟨[], [], [], w0⟩ (retOut v w')) : OutVP P.dev P.ign P.cx P.Pg w0 v w' := by
  subst hs
  rcases h w0 (SameW.refl _ _) (vinv_nil P w0) (Nat.zero_le _) with ⟨f, hd, n, hn⟩ | ⟨o', ho, n, hn⟩
  · cases v with
    | u x => exact ⟨n, .inr ⟨f, hd, hn⟩⟩
    | b x => exact ⟨n, _, hn⟩
  · cases v with
    | u x => exact ⟨n, .inl ⟨o', ho, hn⟩⟩
    | b x =>
      simp only [retOut] at ho
      cases o' with
      | fail f => exact ⟨n, f, hn⟩
      | done _ _ => exact ho.elim
      | outOfFuel => exact ho.elim

theorem failsP_of_fails {s : Nat} (hs : s = P.Pg.start)
    (h : Fails P.cx (X0 P) ⟨s, 0⟩ ⟨[], [], [], w0⟩) : FailsP P.cx P.Pg w0 := by
  subst hs
  obtain ⟨f, n, hn⟩ := h w0 (SameW.refl _ _) (vinv_nil P w0) (Nat.zero_le _)
  exact ⟨n, f, hn⟩

end

/-- the program graph matches every result of the source evaluation of the main tree -/
theorem main_graph_of (P : PCtx) (hP : ProgOK P) (hC : CallPresent P) (hI : CallInv P) (hEnt : CallEntry P)
    (hmain : P.Pg.main[0]? = some ({} : Block) ∧
      ShapeR P.Pg.main { version := P.version, inSub := false, callees := calleesOf P.p, markIndex := false }
        (if hasReturn P.p.main then P.p.main else .ret (some P.p.main)) P.Pg.start 0 none)
    (hwm : mainOkC P.fp P.p P.dyn P.strict = true)
    (w0 : World) (fuel : Nat) {r : Res} {w' : World}
    (hev : eval ⟨P.cx, P.p, none⟩ fuel P.p.main w0 = (r, w')) : FinalP P.dev P.ign P.cx P.Pg w0 r w' := by
  have hF := frameProvider_of_progOK hP
  have hR0 : RoutOK P (X0 P) (mainCfg P) (mainK P.fp P.p P.dyn P.strict) none := .main rfl rfl rfl rfl rfl rfl rfl
  have all := sound_all hP hC hF hI hEnt fuel (X0 P) _ _ _ hR0
  obtain ⟨hexit, hshape⟩ := hmain
  simp only [mainOkC, Bool.or_eq_true] at hwm
  have hrvm : (mainK P.fp P.p P.dyn P.strict).rv = true := by unfold mainK; split <;> rfl
  by_cases hret : hasReturn P.p.main = true
  · simp only [hret, if_true] at hshape
    have key : ∀ n, wtR (mainK P.fp P.p P.dyn P.strict) false true n P.p.main = true → FinalP P.dev P.ign P.cx P.Pg w0 r w' := by
      intro n hw
      have g1 := all.ev _ _ _ _ _ _ _ [] [] [] _ _ _ hshape hw hev
      cases r with
      | vals vs => exact (hasReturn_no_vals hret hev).elim
      | brk => obtain ⟨_, l, hl, _⟩ := g1; cases hl
      | cont => obtain ⟨_, l, hl, _⟩ := g1; cases hl
      | ret v =>
        obtain ⟨_, hv, hg1⟩ := g1
        cases v with
        | none => rw [hrvm] at hv; cases hv
        | some v =>
          obtain ⟨v', hv', hh⟩ := hg1
          cases hv'
          exact outVP_of_haltO rfl hh
      | exit v => exact outVP_of_haltO rfl g1
      | fail f => exact g1.imp id (failsP_of_fails rfl)
    rcases hwm with hw | hw
    · exact key 0 hw
    · exact key 1 hw
  · simp only [hret] at hshape
    cases hshape with
    | ret hb he =>
      have hb' : Blk (X0 P).G _ [.ret] (.next 0) := hb
      have key : ∀ n, wtR (mainK P.fp P.p P.dyn P.strict) false true n P.p.main = true → n ≤ 1 →
          FinalP P.dev P.ign P.cx P.Pg w0 r w' := by
        intro n hw hn
        have g1 := all.ev _ _ _ _ _ _ _ [] [] [] _ _ _ he hw hev
        cases r with
        | vals vs =>
          obtain ⟨hlen, hr⟩ := g1
          simp only [List.append_nil] at hr
          match vs, n, hlen, hn with
          | [], _, _, _ =>
            refine failsP_of_fails rfl (hr.fails (Fails.of_block hb' (by simp [isSimple]) (fun wm _ => ⟨.underflow, rfl⟩)))
          | [v], _, _, _ => exact outVP_of_haltO rfl (hr.haltO (ret_block (env := ⟨P.cx, P.p, none⟩) hb'))
          | _ :: _ :: _, n, hlen, hn => simp only [List.length_cons] at hlen; omega
        | brk => obtain ⟨_, l, hl, _⟩ := g1; cases hl
        | cont => obtain ⟨_, l, hl, _⟩ := g1; cases hl
        | ret v =>
          obtain ⟨_, hv, hg1⟩ := g1
          cases v with
          | none => rw [hrvm] at hv; cases hv
          | some v =>
            obtain ⟨v', hv', hh⟩ := hg1
            cases hv'
            exact outVP_of_haltO rfl hh
        | exit v => exact outVP_of_haltO rfl g1
        | fail f => exact g1.imp id (failsP_of_fails rfl)
      rcases hwm with hw | hw
      · exact key 0 hw (by omega)
      · exact key 1 hw (by omega)

/-- from the result of the main tree to the outcome of `Src.runProg` -/
theorem runProg_of_final {D : Fail → Prop} {I : List Nat} {cx : Ctx} {p : Prog} {Pg : PProg} {w0 : World}
    {fuel : Nat} {r : Res} {w' : World}
    (hev : eval ⟨cx, p, none⟩ fuel p.main w0 = (r, w')) (key : FinalP D I cx Pg w0 r w') :
    match Src.runProg cx p fuel w0 with
    | .done v w => ∃ n, (∃ w'', SameW I w w'' ∧ runP cx Pg n { world := w0 } = .done v w'')
                    ∨ ∃ f, D f ∧ runP cx Pg n { world := w0 } = .fail f
    | .fail (.unmodelled _) => True
    | .fail _ => ∃ n f, runP cx Pg n { world := w0 } = .fail f
    | .outOfFuel => True := by
  have hdone : ∀ (x : Nat) (w : World), OutP D I cx Pg w0 (.done (.u x) w) →
      ∃ n, (∃ w'', SameW I w w'' ∧ runP cx Pg n { world := w0 } = .done (.u x) w'')
        ∨ ∃ f, D f ∧ runP cx Pg n { world := w0 } = .fail f := by
    intro x w ⟨n, h⟩
    refine ⟨n, h.imp (fun ⟨o', ho, hn⟩ => ?_) id⟩
    cases o' with
    | done v'' w'' => obtain ⟨rfl, hw⟩ := ho; exact ⟨w'', hw, hn⟩
    | fail _ => exact ho.elim
    | outOfFuel => exact ho.elim
  cases r with
  | vals vs =>
    simp only [Src.runProg, hev]
    match vs, key with
    | [], key => exact key
    | [.u n], key => exact hdone _ _ key
    | [.b x], key => exact key
    | _ :: _ :: _, key => exact key
  | brk => exact key.elim
  | cont => exact key.elim
  | ret v =>
    simp only [Src.runProg, hev]
    cases v with
    | none => exact key.elim
    | some v =>
      cases v with
      | u n => exact hdone _ _ key
      | b x => exact key
  | exit v =>
    simp only [Src.runProg, hev]
    cases v with
    | u n => exact hdone _ _ key
    | b x => exact key
  | fail f =>
    cases f with
    | unmodelled msg =>
      have hrp : Src.runProg cx p fuel w0 = .outOfFuel ∨ Src.runProg cx p fuel w0 = .fail (.unmodelled msg) := by
        simp only [Src.runProg, hev]
        split <;> simp_all
        rename_i h1 h2
        exact h1 _ h2.1.symm
      rcases hrp with h | h <;> rw [h] <;> trivial
    | _ =>
      simp only [Src.runProg, hev]
      rcases key with ⟨msg, hm⟩ | key
      · cases hm
      · exact key

/-- the general statement, for a program context `P` built from a successful `genProg` -/
theorem genProg_correct_of (P : PCtx) (hP : ProgOK P) (hC : CallPresent P) (hI : CallInv P) (hEnt : CallEntry P)
    (hmain : P.Pg.main[0]? = some ({} : Block) ∧
      ShapeR P.Pg.main { version := P.version, inSub := false, callees := calleesOf P.p, markIndex := false }
        (if hasReturn P.p.main then P.p.main else .ret (some P.p.main)) P.Pg.start 0 none)
    (hwm : mainOkC P.fp P.p P.dyn P.strict = true) (w0 : World) (fuel : Nat) :
    match Src.runProg P.cx P.p fuel w0 with
    | .done v w => ∃ n, (∃ w'', SameW P.ign w w'' ∧ runP P.cx P.Pg n { world := w0 } = .done v w'')
                    ∨ ∃ f, P.dev f ∧ runP P.cx P.Pg n { world := w0 } = .fail f
    | .fail (.unmodelled _) => True
    | .fail _ => ∃ n f, runP P.cx P.Pg n { world := w0 } = .fail f
    | .outOfFuel => True := by
  rcases hev : eval ⟨P.cx, P.p, none⟩ fuel P.p.main w0 with ⟨r, w'⟩
  exact runProg_of_final hev (main_graph_of P hP hC hI hEnt hmain hwm w0 fuel hev)

/-- only the stack limit is a permitted deviation when no run-time addressed slots are used -/
theorem only_ovf {α : Prop} {cx : Ctx} {Pg : PProg} {n : Nat} {w0 : World}
    (h : α ∨ ∃ f, devOvf f ∧ runP cx Pg n { world := w0 } = .fail f) :
    α ∨ runP cx Pg n { world := w0 } = .fail (.logic "stack overflow") :=
  h.imp id (fun ⟨f, hf, hr⟩ => by rw [hr, hf]; rfl)

/-- **Correctness of code generation for programs with subroutine calls (stages 1 and 2).**

    For every program of the fragment `inFragmentR` (main routine and subroutine bodies arity-typed
    as in `Models.Fragment`, calls with the declared arity in operand or statement position,
    `Return` in statement position, parameters in pairwise distinct scratch slots; recursion — direct
    or mutual — allowed), every version, under the scratch-slot calling convention (`fp = false`):
    whenever the whole-program generator succeeds, every terminating source run is matched by the
    multi-routine graph machine — same verdict, same return value, final world equal up to the
    representation of the scratch space (`SameW []`); the only permitted deviation is the AVM's
    1000-deep operand-stack limit (the machine has no call-depth limit).  When the source run fails
    (other than `unmodelled`), the machine fails. -/
theorem genProg_correct (version : Nat) (p : Prog) (hf : inFragmentR p = true)
    (Pg : PProg) (hg : genProg version false p = .ok Pg)
    (cx : Ctx) (w0 : World) (fuel : Nat) :
    match Src.runProg cx p fuel w0 with
    | .done v w => ∃ n, (∃ w', SameW [] w w' ∧ runP cx Pg n { world := w0 } = .done v w')
                    ∨ runP cx Pg n { world := w0 } = .fail (.logic "stack overflow")
    | .fail (.unmodelled _) => True
    | .fail _ => ∃ n f, runP cx Pg n { world := w0 } = .fail f
    | .outOfFuel => True := by
  have hwm : mainOkC false p false = true := by
    simp only [inFragmentR, inFragmentC, Bool.and_eq_true] at hf
    exact hf.1.1.1
  have hP := progOK_of_gen (strict := false) cx hg hf
  have key := genProg_correct_of ⟨cx, p, Pg, version, false, false, false⟩ hP
    (callPresent_of_gen cx hg) (callInv_scratch rfl rfl) (callEntry_plain hP rfl) (genProg_main hg) hwm w0 fuel
  revert key
  cases Src.runProg cx p fuel w0 with
  | done v w => intro ⟨n, h⟩; exact ⟨n, only_ovf h⟩
  | fail f => cases f <;> (intro key; exact key)
  | outOfFuel => intro _; trivial

/-- **Run-time addressed slots (`vloads` / `vstores`, the access path of by-reference parameters;
    stage 3), scratch-slot convention — PARTIAL.**

    As `genProg_correct`, for the fragment `inFragmentC false p true`: parameters of either kind
    (under the scratch-slot convention a by-reference parameter is a scratch cell that holds a slot
    number), `vloads` / `vstores` with arbitrary operands.  The source semantics `vloads/vstores`
    accepts every slot number (automatically numbered variables are abstract cells ≥ 256); the
    generated `loads` / `stores` fails for slot numbers ≥ 256.

    WHAT IS MISSING for the full statement: that this range failure cannot happen.  It needs the
    invariant "every value that reaches `vloads` / `vstores` is a slot number < 256" (true for
    PyTeal programs, where such values are `ScratchVar.index()` constants passed down by-reference
    parameter chains, after slot assignment); here the failure is a permitted deviation instead. -/
theorem genProg_correct_dyn_partial (version : Nat) (p : Prog) (hf : inFragmentC false p true = true)
    (Pg : PProg) (hg : genProg version false p = .ok Pg)
    (cx : Ctx) (w0 : World) (fuel : Nat) :
    match Src.runProg cx p fuel w0 with
    | .done v w => ∃ n, (∃ w', SameW [] w w' ∧ runP cx Pg n { world := w0 } = .done v w')
                    ∨ runP cx Pg n { world := w0 } = .fail (.logic "stack overflow")
                    ∨ runP cx Pg n { world := w0 } = .fail (.logic "loads slot out of range")
                    ∨ runP cx Pg n { world := w0 } = .fail (.logic "stores slot out of range")
    | .fail (.unmodelled _) => True
    | .fail _ => ∃ n f, runP cx Pg n { world := w0 } = .fail f
    | .outOfFuel => True := by
  have hwm : mainOkC false p true = true := by
    simp only [inFragmentC, Bool.and_eq_true] at hf
    exact hf.1.1.1
  have hP := progOK_of_gen (strict := false) cx hg hf
  have key := genProg_correct_of ⟨cx, p, Pg, version, false, true, false⟩ hP
    (callPresent_of_gen cx hg) (callInv_scratch rfl rfl) (callEntry_plain hP rfl) (genProg_main hg) hwm w0 fuel
  revert key
  cases Src.runProg cx p fuel w0 with
  | done v w =>
    intro ⟨n, h⟩
    refine ⟨n, h.imp id (fun ⟨f, hf', hr⟩ => ?_)⟩
    rcases hf' with rfl | rfl | rfl
    · exact .inl hr
    · exact .inr (.inl hr)
    · exact .inr (.inr hr)
  | fail f => cases f <;> (intro key; exact key)
  | outOfFuel => intro _; trivial

/-- **By-reference parameters (stage 3), scratch-slot convention.**

    As `genProg_correct`, for the fragment `inFragmentC false p true true`: parameters of either
    kind, `vloads` / `vstores` under the by-reference discipline R9 of `Models/FragmentR.lean`:
    they dereference a by-reference parameter of the routine they occur in; no tree stores directly
    into a by-reference parameter slot; what a call passes for a by-reference parameter is
    `index s` (`s < 256`, no parameter slot of any routine) or the caller's own by-reference
    parameter (forwarding); no by-value parameter slot is a by-reference parameter slot; the
    generic `loads` / `stores` do not occur.  Then every value that reaches the generated `loads` /
    `stores` is a slot number `< 256` (`Proofs/C02GenValid.lean`: the reference cells of all
    active routines hold valid references throughout the run), so the range check of the AVM never
    fails where the source semantics succeeds: the only permitted deviation is the operand-stack
    limit, as for by-value parameters.  Recursion is allowed. -/
theorem genProg_correct_ref (version : Nat) (p : Prog) (hf : inFragmentC false p true true = true)
    (Pg : PProg) (hg : genProg version false p = .ok Pg)
    (cx : Ctx) (w0 : World) (fuel : Nat) :
    match Src.runProg cx p fuel w0 with
    | .done v w => ∃ n, (∃ w', SameW [] w w' ∧ runP cx Pg n { world := w0 } = .done v w')
                    ∨ runP cx Pg n { world := w0 } = .fail (.logic "stack overflow")
    | .fail (.unmodelled _) => True
    | .fail _ => ∃ n f, runP cx Pg n { world := w0 } = .fail f
    | .outOfFuel => True := by
  have hfr := hf
  simp only [inFragmentC, Bool.and_eq_true, List.all_eq_true] at hfr
  have hwm : mainOkC false p true true = true := hfr.1.1.1
  let P : PCtx := ⟨cx, p, Pg, version, false, true, true⟩
  have hP : ProgOK P := progOK_of_gen cx hg hf
  have hall : ∀ g, PresentT P g := by
    intro g sd hsd
    obtain ⟨r, _, hl⟩ := genSubs_lookup p.subs Pg.subs (genProg_subs hg) g sd hsd
    simp only [Present, P, hl, Option.isSome_some]
  have hC : ValCtx p false true (PresentT P) :=
    valCtx_of (P := P) (fun f sd hsd _ => hfr.1.1.2 sd (List.mem_of_find?_eq_some hsd))
      (fun _ sd _ _ => ⟨callsOf sd.body, rfl, fun g _ => hall g⟩)
  have hkv : ∀ X cfg K cur, RoutOK P X cfg K cur → KV P.p (PresentT P) X.act K :=
    fun X cfg K cur hR => kv_of (P := P) rfl (fun g _ => hall g)
      (fun _ sd _ _ => ⟨callsOf sd.body, rfl, fun g _ => hall g⟩) hR
  have key := genProg_correct_of P hP (callPresent_of_gen cx hg) (callInv_ref rfl rfl hC hkv)
    (callEntry_ref hP rfl hC hkv) (genProg_main hg) hwm w0 fuel
  revert key
  cases Src.runProg cx p fuel w0 with
  | done v w => intro ⟨n, h⟩; exact ⟨n, only_ovf h⟩
  | fail f => cases f <;> (intro key; exact key)
  | outOfFuel => intro _; trivial

/-- **Correctness of code generation under the frame-pointer convention (stage 4).**

    For every program of the fragment `inFragmentC true` — as `inFragmentR`, and additionally: the
    parameter slots of all routines are pairwise distinct and are written by no tree and read only
    by their own routine (by-value parameters are read-only expressions in PyTeal), the run-time
    addressed `loads` / `stores` do not occur, parameters are by value and among the routine's
    `locals`, and every call goes to a callee that is declared re-entrant or cannot reach the caller
    (`okCallsOf`; true when `reenters` is what `findRecursionPoints` computes) — every version:
    whenever `genProg version true p` succeeds (`proto`, `frame_dig`, `retsub` with clean-up; spill
    code for the non-parameter locals), every terminating source run is matched by the
    multi-routine graph machine — same verdict, same return value, final world equal up to the
    representation of the scratch space and **up to the parameter slots** (`SameW (allParamSlots p)`:
    the source semantics keeps by-value parameters in scratch cells, the generated code keeps
    them in the stack frame and never writes those slots); the only permitted deviation is the
    operand-stack limit.  When the source run fails (other than `unmodelled`), the machine fails. -/
theorem genProg_correct_fp (version : Nat) (p : Prog) (hf : inFragmentC true p = true)
    (Pg : PProg) (hg : genProg version true p = .ok Pg)
    (cx : Ctx) (w0 : World) (fuel : Nat) :
    match Src.runProg cx p fuel w0 with
    | .done v w => ∃ n, (∃ w', SameW (allParamSlots p) w w' ∧ runP cx Pg n { world := w0 } = .done v w')
                    ∨ runP cx Pg n { world := w0 } = .fail (.logic "stack overflow")
    | .fail (.unmodelled _) => True
    | .fail _ => ∃ n f, runP cx Pg n { world := w0 } = .fail f
    | .outOfFuel => True := by
  have hwm : mainOkC true p false = true := by
    simp only [inFragmentC, Bool.and_eq_true] at hf
    exact hf.1.1.1
  have hP := progOK_of_gen (strict := false) cx hg hf
  have key := genProg_correct_of ⟨cx, p, Pg, version, true, false, false⟩ hP
    (callPresent_of_gen cx hg)
    (callInv_fp (P := ⟨cx, p, Pg, version, true, false, false⟩) rfl rfl rfl hf (fun f sd hsd => by
      obtain ⟨r, _, hl⟩ := genSubs_lookup p.subs Pg.subs (genProg_subs hg) f sd hsd
      simp only [Present, hl, Option.isSome_some]))
    (callEntry_plain hP rfl) (genProg_main hg) hwm w0 fuel
  revert key
  cases Src.runProg cx p fuel w0 with
  | done v w => intro ⟨n, h⟩; exact ⟨n, only_ovf h⟩
  | fail f => cases f <;> (intro key; exact key)
  | outOfFuel => intro _; trivial

/-- **By-reference parameters under the frame-pointer convention (stages 3 + 4).**

    For every program of the fragment `inFragmentC true p true true` — as `genProg_correct_fp`, with
    parameters of either kind under the by-reference discipline R9 (`genProg_correct_ref`):
    by-value parameters live in the stack frame (`frame_dig`), by-reference arguments are copied
    from the frame into their scratch slots by the prologue (`proto; frame_dig i; store v; …`) and
    dereferenced with `loads` / `stores`.  Final worlds are equal up to the representation of the
    scratch space and up to the **by-value** parameter slots (`SameW (allValSlots p)`); the only
    permitted deviation is the operand-stack limit. -/
theorem genProg_correct_fp_ref (version : Nat) (p : Prog) (hf : inFragmentC true p true true = true)
    (Pg : PProg) (hg : genProg version true p = .ok Pg)
    (cx : Ctx) (w0 : World) (fuel : Nat) :
    match Src.runProg cx p fuel w0 with
    | .done v w => ∃ n, (∃ w', SameW (allValSlots p) w w' ∧ runP cx Pg n { world := w0 } = .done v w')
                    ∨ runP cx Pg n { world := w0 } = .fail (.logic "stack overflow")
    | .fail (.unmodelled _) => True
    | .fail _ => ∃ n f, runP cx Pg n { world := w0 } = .fail f
    | .outOfFuel => True := by
  have hfr := hf
  simp only [inFragmentC, Bool.and_eq_true, List.all_eq_true, Bool.not_true, Bool.false_or] at hfr
  have hwm : mainOkC true p true true = true := hfr.1.1.1
  let P : PCtx := ⟨cx, p, Pg, version, true, true, true⟩
  have hP : ProgOK P := progOK_of_gen cx hg hf
  have hall : ∀ g, PresentT P g := by
    intro g sd hsd
    obtain ⟨r, _, hl⟩ := genSubs_lookup p.subs Pg.subs (genProg_subs hg) g sd hsd
    simp only [Present, P, hl, Option.isSome_some]
  have hsubs : ∀ f sd, findSub P.p f = some sd → Present P f → subOkC true P.p sd P.dyn true = true :=
    fun f sd hsd _ => hfr.1.1.2 sd (List.mem_of_find?_eq_some hsd)
  have hC : ValCtx p true true (PresentT P) :=
    valCtx_of (P := P) hsubs (fun _ sd _ _ => ⟨okCallsOf p sd, rfl, fun g _ => hall g⟩)
  have hkv : ∀ X cfg K cur, RoutOK P X cfg K cur → KV P.p (PresentT P) X.act K :=
    fun X cfg K cur hR => kv_of (P := P) rfl (fun g _ => hall g)
      (fun _ sd _ _ => ⟨okCallsOf p sd, rfl, fun g _ => hall g⟩) hR
  have hreach : ∀ f0 sd0, findSub P.p f0 = some sd0 → Present P f0 → ∀ g ∈ okCallsOf P.p sd0,
      sd0.reenters.contains g = false → ∀ h ∈ reachSet P.p g, Present P h := by
    intro f0 sd0 hsd0 _ g hg hre h hh
    have hg' := hg
    simp only [okCallsOf, List.mem_filter, Bool.or_eq_true, Bool.and_eq_true] at hg'
    rcases hg'.2 with hc | ⟨⟨hclosed, _⟩, _⟩
    · rw [hre] at hc; cases hc
    · simp only [closedSet, List.all_eq_true] at hclosed
      have := hclosed h hh
      cases hsh : findSub P.p h with
      | none => rw [hsh] at this; cases this
      | some sdh => exact hall h sdh hsh
  have key := genProg_correct_of P hP (callPresent_of_gen cx hg)
    (callInv_fp_ref (P := P) rfl rfl hfr.2 hsubs hreach hC hkv) (callEntry_ref hP rfl hC hkv)
    (genProg_main hg) hwm w0 fuel
  revert key
  cases Src.runProg cx p fuel w0 with
  | done v w => intro ⟨n, h⟩; exact ⟨n, only_ovf h⟩
  | fail f => cases f <;> (intro key; exact key)
  | outOfFuel => intro _; trivial

/-- stage 1 as a special case: no routine is declared re-entrant (with `reentersOk`: the call
    graph is acyclic), so no call block contains spill code -/
theorem genProg_correct_stage1 (version : Nat) (p : Prog) (hf : inFragmentR p = true)
    (_hnr : noReentry p = true) (Pg : PProg) (hg : genProg version false p = .ok Pg)
    (cx : Ctx) (w0 : World) (fuel : Nat) :
    match Src.runProg cx p fuel w0 with
    | .done v w => ∃ n, (∃ w', SameW [] w w' ∧ runP cx Pg n { world := w0 } = .done v w')
                    ∨ runP cx Pg n { world := w0 } = .fail (.logic "stack overflow")
    | .fail (.unmodelled _) => True
    | .fail _ => ∃ n f, runP cx Pg n { world := w0 } = .fail f
    | .outOfFuel => True :=
  genProg_correct version p hf Pg hg cx w0 fuel

/-! ### Non-vacuity: concrete programs with subroutine calls satisfy all hypotheses -/

/-- `f(a, b) = a - b`;  main: `f(10, 3) + 1` (two by-value parameters, call in operand position) -/
def exProg : Prog :=
  { subs := [{ id := 0, name := "f", params := [(.val, 1), (.val, 2)], hasRet := true,
               body := .prim "-" [] [.load 1, .load 2], locals := [1, 2], reenters := [] }],
    main := .prim "+" [] [.call 0 [.int 10, .int 3], .int 1] }

/-- `fact(n) = if n == 0 then return 1; m := n; fact(n - 1) * m` — recursive, with the local `m`
    (slot 2) and the parameter (slot 1) live across the re-entrant call: they are spilled -/
def factProg : Prog :=
  { subs := [{ id := 0, name := "fact", params := [(.val, 1)], hasRet := true,
               body := .seq [.store 2 (.load 1),
                             .ite (.prim "==" [] [.load 1, .int 0]) (.ret (some (.int 1))) none,
                             .prim "*" [] [.call 0 [.prim "-" [] [.load 1, .int 1]], .load 2]],
               locals := [1, 2], reenters := [0] }],
    main := .call 0 [.int 5] }

example : inFragmentR exProg = true := by decide
example : noReentry exProg = true := by decide
example : ∃ Pg, genProg 8 false exProg = .ok Pg := ⟨_, rfl⟩
example : ∃ w, Src.runProg {} exProg 20 = .done (.u 8) w := ⟨_, rfl⟩
example : ∃ Pg w, genProg 8 false exProg = .ok Pg ∧ runP {} Pg 100 {} = .done (.u 8) w := ⟨_, _, rfl, rfl⟩
example (Pg : PProg) (hg : genProg 8 false exProg = .ok Pg) :
    ∃ n, (∃ w', SameW [] { scratch := [(2, .u 3), (1, .u 10)] } w' ∧ runP {} Pg n {} = .done (.u 8) w')
      ∨ runP {} Pg n {} = .fail (.logic "stack overflow") :=
  genProg_correct 8 exProg (by decide) Pg hg {} {} 20

example : inFragmentR factProg = true := by decide
example : reentersOk factProg = true := by decide
example : stageOf factProg false = 2 := by decide
example : ∃ w, Src.runProg {} factProg 60 = .done (.u 120) w := ⟨_, rfl⟩
set_option maxRecDepth 100000 in
example : ∃ Pg w, genProg 8 false factProg = .ok Pg ∧ runP {} Pg 1000 {} = .done (.u 120) w := ⟨_, _, rfl, rfl⟩
set_option maxRecDepth 100000 in
/-- version 4: the `dig` flavour of the spill code -/
example : ∃ Pg w, genProg 4 false factProg = .ok Pg ∧ runP {} Pg 1000 {} = .done (.u 120) w := ⟨_, _, rfl, rfl⟩
example (Pg : PProg) (hg : genProg 8 false factProg = .ok Pg) :
    ∃ n, (∃ w', SameW [] { scratch := [(2, .u 5), (1, .u 5)] } w' ∧ runP {} Pg n {} = .done (.u 120) w')
      ∨ runP {} Pg n {} = .fail (.logic "stack overflow") :=
  genProg_correct 8 factProg (by decide) Pg hg {} {} 60

/-! ### Why the final worlds are compared up to `SameW`

  The requested statement with literal equality of the final world is FALSE for the smallest
  program with a two-parameter routine: `Src.eval` binds the parameters first-to-last
  (`foldl` over `params.zip argVals`), the generated prologue — like the real compiler's
  (`store 1; store 0` for `f(a, b)` in the TEAL that PyTeal emits) — stores them last-to-first, and
  `Avm.setSlot` moves the written slot to the front of an association list.  The two final scratch
  spaces have the same content and a different list order.  (On the real AVM scratch space is an
  array: the difference is an artefact of the list representation in `Avm.World`, not a defect of
  the compiler.) -/
theorem scratch_order_counterexample :
    ∃ Pg w w', genProg 8 false exProg = .ok Pg ∧
      Src.runProg {} exProg 20 = .done (.u 8) w ∧ runP {} Pg 100 {} = .done (.u 8) w' ∧
      w.scratch = [(2, .u 3), (1, .u 10)] ∧ w'.scratch = [(1, .u 10), (2, .u 3)] :=
  ⟨_, _, _, rfl, rfl, rfl, rfl, rfl⟩

/-! ### Why `Return` must be in statement position inside a subroutine (R7)

  `g() = 1 + Seq(Return(5))`, main `9 - g()`: the source semantics computes `9 - 5`; the generated
  `retsub` leaves the pending operand `1` on the stack, and the caller subtracts 5 from it. -/
def retOperandProg : Prog :=
  { subs := [{ id := 0, name := "g", params := [], hasRet := true,
               body := .prim "+" [] [.int 1, .seq [.ret (some (.int 5))]], locals := [], reenters := [] }],
    main := .prim "-" [] [.int 9, .call 0 []] }

theorem ret_in_operand_counterexample :
    ∃ Pg f, inFragmentR retOperandProg = false ∧ genProg 8 false retOperandProg = .ok Pg ∧
      Src.runProg {} retOperandProg 20 = .done (.u 4) {} ∧ runP {} Pg 100 {} = .fail f :=
  ⟨_, _, by decide, rfl, rfl, rfl⟩

/-! ### `WideRatio`: non-vacuity, and why the side conditions W1, W2 are there -/

/-- `WideRatio([2^63, 6, 5], [2^40, 3])`: the 128-bit intermediate products exceed 64 bits -/
def wideProg : Prog :=
  { subs := [], main := .wideRatio [.int (2 ^ 63), .int 6, .int 5] [.int (2 ^ 40), .int 3] }

example : inFragmentR wideProg = true := by decide
example : ∃ Pg w, genProg 8 false wideProg = .ok Pg ∧ Src.runProg {} wideProg 20 = .done (.u 83886080) w ∧
    runP {} Pg 200 {} = .done (.u 83886080) w := ⟨_, _, rfl, rfl, rfl⟩
example (Pg : PProg) (hg : genProg 8 false wideProg = .ok Pg) :
    ∃ n, (∃ w', SameW [] {} w' ∧ runP {} Pg n {} = .done (.u 83886080) w')
      ∨ runP {} Pg n {} = .fail (.logic "stack overflow") :=
  genProg_correct 8 wideProg (by decide) Pg hg {} {} 20

/-- W1 is needed: the values `Val.u n` of the model are unbounded and `mulw` multiplies whatever it
    is given, while `Src.wideProd` fails when the product of the first two factors is not below
    2^128: `WideRatio([2^100, 2^100], [2^150])` fails in the source semantics and yields `2^50` on
    the machine.  (On the real AVM no value is ≥ 2^64: an artefact of the unbounded `Val.u`.) -/
def wideUnboundedProg : Prog :=
  { subs := [], main := .wideRatio [.int (2 ^ 100), .int (2 ^ 100)] [.int (2 ^ 150)] }

theorem wide_unbounded_counterexample :
    ∃ Pg f w, inFragmentR wideUnboundedProg = false ∧ genProg 8 false wideUnboundedProg = .ok Pg ∧
      Src.runProg {} wideUnboundedProg 20 = .fail f ∧ runP {} Pg 200 {} = .done (.u (2 ^ 50)) w :=
  ⟨_, _, _, by decide, rfl, rfl, rfl⟩

/-- W2 is needed: the source semantics evaluates all factors before it multiplies, the generated
    code multiplies as soon as a factor is there: `WideRatio([2^63, 2^63, 4, Exit(1)], [1])` ends
    with `Exit(1)` in the source semantics; the machine has failed in the `mulStep` after the third
    factor (2^128 does not fit). -/
def wideExitProg : Prog :=
  { subs := [], main := .wideRatio [.int (2 ^ 63), .int (2 ^ 63), .int 4, .exit (.int 1)] [.int 1] }

theorem wide_exit_counterexample :
    ∃ Pg f w, inFragmentR wideExitProg = false ∧ genProg 8 false wideExitProg = .ok Pg ∧
      Src.runProg {} wideExitProg 20 = .done (.u 1) w ∧ runP {} Pg 200 {} = .fail f :=
  ⟨_, _, _, by decide, rfl, rfl, rfl⟩

/-! ### Frame-pointer convention: non-vacuity and why the statement has this shape -/

/-- `g(a) = a + 1`; `f(n) = g(n) * n` (the parameter `n` is read after a call of a routine that
    cannot reach `f`); main `f(6)` -/
def twoProg : Prog :=
  { subs := [{ id := 0, name := "f", params := [(.val, 1)], hasRet := true,
               body := .prim "*" [] [.call 1 [.load 1], .load 1], locals := [1], reenters := [] },
             { id := 1, name := "g", params := [(.val, 2)], hasRet := true,
               body := .prim "+" [] [.load 2, .int 1], locals := [2], reenters := [] }],
    main := .call 0 [.int 6] }

example : inFragmentC true twoProg = true := by decide
example : inFragmentC true factProg = true := by decide
example : inFragmentC true exProg = true := by decide
example : ∃ Pg w, genProg 8 true factProg = .ok Pg ∧ runP {} Pg 1000 {} = .done (.u 120) w := ⟨_, _, rfl, rfl⟩
example (Pg : PProg) (hg : genProg 8 true twoProg = .ok Pg) :
    ∃ n, (∃ w', SameW (allParamSlots twoProg) { scratch := [(2, .u 6), (1, .u 6)] } w' ∧
            runP {} Pg n {} = .done (.u 42) w')
      ∨ runP {} Pg n {} = .fail (.logic "stack overflow") :=
  genProg_correct_fp 8 twoProg (by decide) Pg hg {} {} 30

/-- under the frame-pointer convention the final worlds differ on the parameter slots: the source
    semantics leaves the last arguments in the parameter cells, the generated code never writes
    them (here: not at all) -/
theorem fp_param_slots_counterexample :
    ∃ Pg w w', genProg 8 true twoProg = .ok Pg ∧
      Src.runProg {} twoProg 30 = .done (.u 42) w ∧ runP {} Pg 1000 {} = .done (.u 42) w' ∧
      w.scratch = [(2, .u 6), (1, .u 6)] ∧ w'.scratch = [] :=
  ⟨_, _, _, rfl, rfl, rfl, rfl, rfl⟩

/-- `s(n) = if n == 0 then return 0; s(n - 1) + n` with a WRONG `reenters` field (empty, although
    `s` calls itself): the source semantics does not restore the parameter cell after the inner
    call and adds `0 + 0 + 0`; the generated code reads the frame and adds `1 + 2 + 3`.  This is
    why calls must go to callees that are declared re-entrant or cannot reach the caller
    (`okCallsOf`); the program is outside `inFragmentC true`. -/
def wrongReentersProg : Prog :=
  { subs := [{ id := 0, name := "s", params := [(.val, 1)], hasRet := true,
               body := .seq [.ite (.prim "==" [] [.load 1, .int 0]) (.ret (some (.int 0))) none,
                             .prim "+" [] [.call 0 [.prim "-" [] [.load 1, .int 1]], .load 1]],
               locals := [1], reenters := [] }],
    main := .call 0 [.int 3] }

theorem fp_reenters_counterexample :
    ∃ Pg w w', inFragmentC true wrongReentersProg = false ∧ genProg 8 true wrongReentersProg = .ok Pg ∧
      Src.runProg {} wrongReentersProg 60 = .done (.u 0) w ∧ runP {} Pg 1000 {} = .done (.u 6) w' :=
  ⟨_, _, _, by decide, rfl, rfl, rfl⟩

/-! ### by-reference parameters (stage 3) -/

/-- `inc(ref x) : x := x + 1`;  `fwd(ref y) : inc(y)` (forwards its reference);
    main: `v := 7; fwd(&v); v` -/
def refProg : Prog :=
  { subs := [{ id := 0, name := "inc", params := [(.ref, 1)], hasRet := false,
               body := .prim "vstores" [] [.load 1, .prim "+" [] [.prim "vloads" [] [.load 1], .int 1]],
               locals := [1], reenters := [] },
             { id := 1, name := "fwd", params := [(.ref, 2)], hasRet := false,
               body := .call 0 [.load 2], locals := [2], reenters := [] }],
    main := .seq [.store 5 (.int 7), .call 1 [.index 5], .load 5] }

example : inFragmentC false refProg true true = true := by decide
example : stageOf refProg false = 3 := by decide
example : ∃ Pg, genProg 6 false refProg = .ok Pg := ⟨_, rfl⟩
example : ∃ w, Src.runProg {} refProg 30 = .done (.u 8) w := ⟨_, rfl⟩
example : ∃ Pg w, genProg 6 false refProg = .ok Pg ∧ runP {} Pg 200 {} = .done (.u 8) w := ⟨_, _, rfl, rfl⟩

/-- a recursive routine with a by-reference parameter: `down(n, ref acc) : if n == 0 return;
    acc := acc + n; down(n - 1, acc)`;  main: `s := 0; down(2, &s); s`  (3) -/
def refRecProg : Prog :=
  { subs := [{ id := 0, name := "down", params := [(.val, 1), (.ref, 2)], hasRet := false,
               body := .seq [.ite (.prim "==" [] [.load 1, .int 0]) (.ret none) none,
                             .prim "vstores" [] [.load 2, .prim "+" [] [.prim "vloads" [] [.load 2], .load 1]],
                             .call 0 [.prim "-" [] [.load 1, .int 1], .load 2]],
               locals := [1, 2], reenters := [0] }],
    main := .seq [.store 5 (.int 0), .call 0 [.int 2, .index 5], .load 5] }

example : inFragmentC false refRecProg true true = true := by decide
example : ∃ w, Src.runProg {} refRecProg 40 = .done (.u 3) w := ⟨_, rfl⟩
example : (match genProg 6 false refRecProg with
    | .ok Pg => (match runP {} Pg 150 {} with | .done v _ => v == .u 3 | _ => false)
    | .error _ => false) = true := by decide +kernel

/-! the same programs under the frame-pointer convention (`genProg_correct_fp_ref`): the prologue of
    `inc` is `proto 1 0; frame_dig -1; store 1` -/
example : inFragmentC true refProg true true = true := by decide
example : ∃ Pg w, genProg 8 true refProg = .ok Pg ∧ runP {} Pg 200 {} = .done (.u 8) w := ⟨_, _, rfl, rfl⟩
example : inFragmentC true refRecProg true true = true := by decide
example : (match genProg 8 true refRecProg with
    | .ok Pg => (match runP {} Pg 150 {} with | .done v _ => v == .u 3 | _ => false)
    | .error _ => false) = true := by decide +kernel

/-- The discipline is NEEDED ("no reference to a parameter slot is created"): `bad(ref x)` is called
    with a reference to its own parameter cell (slot 1), overwrites the cell through the reference
    with 300 and dereferences again.  The source semantics reads the abstract cell 300 (value 0);
    the generated `loads` fails its range check.  The program is in the partial fragment
    (`genProg_correct_dyn_partial` permits exactly this deviation) and outside the strict one. -/
def selfRefProg : Prog :=
  { subs := [{ id := 0, name := "bad", params := [(.ref, 1)], hasRet := true,
               body := .seq [.prim "vstores" [] [.load 1, .int 300], .prim "vloads" [] [.load 1]],
               locals := [1], reenters := [] }],
    main := .call 0 [.index 1] }

theorem ref_discipline_counterexample :
    ∃ Pg w, inFragmentC false selfRefProg true = true ∧ inFragmentC false selfRefProg true true = false ∧
      genProg 6 false selfRefProg = .ok Pg ∧
      Src.runProg {} selfRefProg 30 = .done (.u 0) w ∧
      runP {} Pg 200 {} = .fail (.logic "loads slot out of range") :=
  ⟨_, _, by decide, by decide, rfl, rfl, rfl⟩

end PyTealV.Proofs.C02Gen
