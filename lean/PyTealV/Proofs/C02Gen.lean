/-
  C02Gen — correctness of the code-generation model for whole programs with subroutine calls
  (`Comp.genR / genSub / genMainR`, collected by `Models.FragmentR.genProg`) with respect to the
  source semantics `Src.runProg`, on the multi-routine graph machine `Comp.runP`.

  FULL STATEMENT (the goal; kept visible):
    for every program `p` of the fragment, every version / calling-convention configuration for
    which `genProg version fp p = .ok Pg`, every context, world and fuel:
      `Src.runProg cx p fuel w0 = .done v w`  ⟹  some run of `runP cx Pg` ends `.done v w`
         (or fails with the machine's operand-stack limit, which the source semantics does not have),
      and a source failure other than `unmodelled` corresponds to a machine failure.

  WHAT IS PROVED HERE
    * `genProg_correct` (stages 1 and 2, complete): scratch-slot convention (`fp = false`), by-value
      parameters, call graph arbitrary — recursion (direct or mutual) included; the spill / restore
      code around re-entrant calls is covered by `frame_spill` (from the lemmas behind
      `C02Spill.spill_correct`, plus `before_ovf`: too little room under the stack limit makes
      `spillBefore` fail with exactly the stack-overflow failure).
    * `genProg_correct_stage1`: the special case without re-entrant calls.
    * the proof is by induction on the fuel of `Src.eval`, which decreases at every call, so
      *recursion itself needs no extra argument*: `sound_all` holds for every program for which the
      ops around each `callsub` do their job (`FrameProvider`).
  NOT PROVED (stages 3 and 4): by-reference parameters; the frame-pointer convention (`fp = true`);
  `WideRatio`; the link from an accepted `Check.validateProg` certificate (whose program holds the
  *reachable* routines only) to `genProg`.
  The final world is equal **up to the representation of the scratch space** (`SameW`: same
  content slot by slot, every other component equal).  Literal equality is false as soon as a
  routine has two parameters (`scratch_order_counterexample` below): `Src.eval` binds parameters
  first-to-last, the generated prologue stores them last-to-first, and `setSlot` moves the written
  slot to the front of an association list.
-/
import PyTealV.Proofs.C02GenProg
import PyTealV.Proofs.C02GenSpill
namespace PyTealV.Proofs.C02Gen
open PyTealV PyTealV.Avm PyTealV.Src PyTealV.Comp PyTealV.Models.Fragment PyTealV.Models.FragmentR
open PyTealV.Check (isSimple)
open PyTealV.Proofs.Shape (ovf Blk isUnm retOut)

/-! ### calls that spill nothing -/

theorem frame_nospill {cx : Ctx} {X : MCtx} {cfg : RCfg} {f : Nat} {ce : Callee} {cb k nret : Nat}
    {locals : List Var} {st σ : List Val} {ic bcs} {w1 : World}
    (hns : (cfg.reenters.contains f && !cfg.localSlots.isEmpty) = false) (hloc : locals = [])
    (hb : Blk X.G cb (callOps cfg f ce) (.next k)) :
    CallFrame cx X cb k f nret locals st σ ic bcs w1 := by
  subst hloc
  have hops : callOps cfg f ce = [.callsub (subLabel f)] := by
    unfold callOps
    rw [hns]
    rfl
  rw [hops] at hb
  refine ⟨_, 0, σ, hb, rfl, ReachS.refl _, fun rets w3 _ => ?_⟩
  intro wm hw _
  refine .inr ⟨wm, hw, .step ?_⟩
  unfold Blk at hb
  simp [gstepP, MCtx.st, GSt.setW, X.hG, hb]

theorem frameProvider_noReentry {P : PCtx} (hnr : noReentry P.p = true) : FrameProvider P := by
  intro X cfg K cur hR f ce cb k st σ ic bcs w1 hf hb hlen
  simp only [noReentry, List.all_eq_true, List.isEmpty_iff] at hnr
  cases hR with
  | main _ _ => exact frame_nospill (by simp [mainCfg]) rfl hb
  | @sub f0 sd fr cs' _ hsd _ _ _ =>
    have hre : sd.reenters = [] := hnr sd (List.mem_of_find?_eq_some hsd)
    refine frame_nospill (by simp [subCfg, hre]) ?_ hb
    simp only [srcLocals, hsd, hre]
    rfl

/-- every call block of a program with `ProgOK` does its job: nothing to do when the callee cannot
    re-enter the caller (or the caller has no local slot), otherwise the spill / restore code of
    `Models.Spill` (`frame_spill`, from `C02Spill.restore_ok`, `before_ok`, `before_ovf`) -/
theorem frameProvider_of_progOK {P : PCtx} (hP : ProgOK P) : FrameProvider P := by
  intro X cfg K cur hR f ce cb k st σ ic bcs w1 hf hb hlen
  cases hR with
  | main _ _ => exact frame_nospill (by simp [mainCfg]) rfl hb
  | @sub f0 sd fr cs' hpg hsd hr0 _ _ =>
    have hpres : Present P f0 := by
      have := X.hG
      rw [hr0, hpg] at this
      simp only [PProg.graphOf, Option.map_eq_some_iff] at this
      obtain ⟨a, ha, _⟩ := this
      simp only [Present, ha, Option.isSome_some]
    have hS := hP f0 sd hsd hpres
    by_cases hre : sd.reenters.contains f = true
    · by_cases hemp : (spillSlots sd).isEmpty = true
      · -- no local slot: nothing is saved on either side
        have hloc : sd.locals = [] := by
          have hs : spillSlots sd = [] := List.isEmpty_iff.mp hemp
          cases hl : sd.locals with
          | nil => rfl
          | cons x xs =>
            have := (hS.sset x).mp (by rw [hl]; exact List.mem_cons_self ..)
            rw [hs] at this
            cases this
        refine frame_nospill (by simp only [subCfg, hre, hemp]; rfl) ?_ hb
        simp only [srcLocals, hsd, hre, if_true, hloc]
      · have hemp' : (spillSlots sd).isEmpty = false := by simpa using hemp
        refine frame_spill (cfg := subCfg P sd) (by simp only [subCfg, hre, hemp']; rfl) hS.snodup hS.s256 ?_ hlen hb
        intro x
        simp only [srcLocals, hsd, hre, if_true]
        exact hS.sset x
    · have hre' : sd.reenters.contains f = false := by simpa using hre
      refine frame_nospill (by simp only [subCfg, hre']; rfl) ?_ hb
      simp only [srcLocals, hsd, hre']
      rfl

/-! ### the whole program -/

section Final
variable (cx : Ctx) (Pg : PProg) (w0 : World)

/-- the run of the whole program ends with outcome `o` (up to the scratch representation), unless
    the operand stack overflows -/
def OutP (o : Outcome) : Prop :=
  ∃ n, (∃ o', OutEq o o' ∧ runP cx Pg n { world := w0 } = o') ∨
    runP cx Pg n { world := w0 } = .fail (.logic "stack overflow")

def FailsP : Prop := ∃ n f, runP cx Pg n { world := w0 } = .fail f

def OutVP (v : Val) (w' : World) : Prop :=
  match v with
  | .u _ => OutP cx Pg w0 (.done v w')
  | .b _ => FailsP cx Pg w0

/-- what the program graph does for each result of the source evaluation of the main tree -/
def FinalP : Res → World → Prop
  | .vals [v], w' => OutVP cx Pg w0 v w'
  | .vals _, _ => FailsP cx Pg w0
  | .ret (some v), w' => OutVP cx Pg w0 v w'
  | .exit v, w' => OutVP cx Pg w0 v w'
  | .ret none, _ => False
  | .brk, _ => False
  | .cont, _ => False
  | .fail f, _ => isUnm f ∨ FailsP cx Pg w0

end Final

section
variable {cx : Ctx} {Pg : PProg} {w0 : World}

/-- the main routine with the empty call stack -/
def X0 (Pg : PProg) : MCtx := ⟨Pg, none, [], Pg.main, rfl⟩

theorem init_eq (m : MS) : (X0 Pg).st ⟨Pg.start, 0⟩ m = Pg.init m := rfl

theorem outVP_of_haltO {s : Nat} {v : Val} {w' : World} (hs : s = Pg.start)
    (h : HaltO cx (X0 Pg) ⟨s, 0⟩ ⟨[], [], [], w0⟩ (retOut v w')) : OutVP cx Pg w0 v w' := by
  subst hs
  rcases h w0 (SameW.refl _) (Nat.zero_le _) with ⟨n, hn⟩ | ⟨o', ho, n, hn⟩
  · cases v with
    | u x => exact ⟨n, .inr hn⟩
    | b x => exact ⟨n, _, hn⟩
  · cases v with
    | u x => exact ⟨n, .inl ⟨o', ho, hn⟩⟩
    | b x =>
      simp only [retOut] at ho
      cases o' with
      | fail f => exact ⟨n, f, hn⟩
      | done _ _ => exact ho.elim
      | outOfFuel => exact ho.elim

theorem failsP_of_fails {s : Nat} (hs : s = Pg.start)
    (h : Fails cx (X0 Pg) ⟨s, 0⟩ ⟨[], [], [], w0⟩) : FailsP cx Pg w0 := by
  subst hs
  obtain ⟨f, n, hn⟩ := h w0 (SameW.refl _) (Nat.zero_le _)
  exact ⟨n, f, hn⟩

end

/-- the program graph matches every result of the source evaluation of the main tree -/
theorem main_graph_of {version : Nat} {p : Prog} {Pg : PProg} (cx : Ctx)
    (hP : ProgOK ⟨cx, p, Pg, version⟩) (hC : CallPresent ⟨cx, p, Pg, version⟩)
    (hmain : Pg.main[0]? = some ({} : Block) ∧
      ShapeR Pg.main { version := version, inSub := false, callees := calleesOf p, markIndex := false }
        (if hasReturn p.main then p.main else .ret (some p.main)) Pg.start 0 none)
    (hwm : mainOk p = true)
    (w0 : World) (fuel : Nat) {r : Res} {w' : World}
    (hev : eval ⟨cx, p, none⟩ fuel p.main w0 = (r, w')) : FinalP cx Pg w0 r w' := by
  have hF := frameProvider_of_progOK hP
  have hR0 : RoutOK ⟨cx, p, Pg, version⟩ (X0 Pg) (mainCfg ⟨cx, p, Pg, version⟩) (PCtx.K ⟨cx, p, Pg, version⟩ true) none :=
    .main rfl rfl
  have all := sound_all hP hC hF fuel (X0 Pg) _ _ _ hR0
  obtain ⟨hexit, hshape⟩ := hmain
  simp only [mainOk, Bool.or_eq_true] at hwm
  by_cases hret : hasReturn p.main = true
  · simp only [hret, if_true] at hshape
    have key : ∀ n, wtR (PCtx.K ⟨cx, p, Pg, version⟩ true) false true n p.main = true → FinalP cx Pg w0 r w' := by
      intro n hw
      have g1 := all.ev _ _ _ _ _ _ _ [] [] [] _ _ _ hshape hw hev
      cases r with
      | vals vs => exact (hasReturn_no_vals hret hev).elim
      | brk => obtain ⟨_, l, hl, _⟩ := g1; cases hl
      | cont => obtain ⟨_, l, hl, _⟩ := g1; cases hl
      | ret v =>
        obtain ⟨_, hv, hg1⟩ := g1
        cases v with
        | none => simp [PCtx.K] at hv
        | some v =>
          obtain ⟨v', hv', hh⟩ := hg1
          cases hv'
          exact outVP_of_haltO rfl hh
      | exit v => exact outVP_of_haltO rfl g1
      | fail f => exact g1.imp id (failsP_of_fails rfl)
    rcases hwm with hw | hw
    · exact key 0 hw
    · exact key 1 hw
  · simp only [hret] at hshape
    cases hshape with
    | ret hb he =>
      have hb' : Blk (X0 Pg).G _ [.ret] (.next 0) := hb
      have key : ∀ n, wtR (PCtx.K ⟨cx, p, Pg, version⟩ true) false true n p.main = true → n ≤ 1 →
          FinalP cx Pg w0 r w' := by
        intro n hw hn
        have g1 := all.ev _ _ _ _ _ _ _ [] [] [] _ _ _ he hw hev
        cases r with
        | vals vs =>
          obtain ⟨hlen, hr⟩ := g1
          simp only [List.append_nil] at hr
          match vs, n, hlen, hn with
          | [], _, _, _ =>
            refine failsP_of_fails rfl (hr.fails (Fails.of_block hb' (by simp [isSimple]) (fun wm _ => ⟨.underflow, rfl⟩)))
          | [v], _, _, _ => exact outVP_of_haltO rfl (hr.haltO (ret_block (env := ⟨cx, p, none⟩) hb'))
          | _ :: _ :: _, n, hlen, hn => simp only [List.length_cons] at hlen; omega
        | brk => obtain ⟨_, l, hl, _⟩ := g1; cases hl
        | cont => obtain ⟨_, l, hl, _⟩ := g1; cases hl
        | ret v =>
          obtain ⟨_, hv, hg1⟩ := g1
          cases v with
          | none => simp [PCtx.K] at hv
          | some v =>
            obtain ⟨v', hv', hh⟩ := hg1
            cases hv'
            exact outVP_of_haltO rfl hh
        | exit v => exact outVP_of_haltO rfl g1
        | fail f => exact g1.imp id (failsP_of_fails rfl)
      rcases hwm with hw | hw
      · exact key 0 hw (by omega)
      · exact key 1 hw (by omega)

theorem main_graph {version : Nat} {p : Prog} {Pg : PProg} (cx : Ctx)
    (hg : genProg version false p = .ok Pg) (hf : inFragmentR p = true)
    (w0 : World) (fuel : Nat) {r : Res} {w' : World}
    (hev : eval ⟨cx, p, none⟩ fuel p.main w0 = (r, w')) : FinalP cx Pg w0 r w' := by
  have hwm : mainOk p = true := by
    simp only [inFragmentR, Bool.and_eq_true] at hf
    exact hf.1.1
  exact main_graph_of cx (progOK_of_gen cx hg hf) (callPresent_of_gen cx hg) (genProg_main hg) hwm w0 fuel hev

/-- from the result of the main tree to the outcome of `Src.runProg` -/
theorem runProg_of_final {cx : Ctx} {p : Prog} {Pg : PProg} {w0 : World} {fuel : Nat} {r : Res} {w' : World}
    (hev : eval ⟨cx, p, none⟩ fuel p.main w0 = (r, w')) (key : FinalP cx Pg w0 r w') :
    match Src.runProg cx p fuel w0 with
    | .done v w => ∃ n, (∃ w'', SameW w w'' ∧ runP cx Pg n { world := w0 } = .done v w'')
                    ∨ runP cx Pg n { world := w0 } = .fail (.logic "stack overflow")
    | .fail (.unmodelled _) => True
    | .fail _ => ∃ n f, runP cx Pg n { world := w0 } = .fail f
    | .outOfFuel => True := by
  have hdone : ∀ (x : Nat) (w : World), OutP cx Pg w0 (.done (.u x) w) →
      ∃ n, (∃ w'', SameW w w'' ∧ runP cx Pg n { world := w0 } = .done (.u x) w'')
        ∨ runP cx Pg n { world := w0 } = .fail (.logic "stack overflow") := by
    intro x w ⟨n, h⟩
    refine ⟨n, h.imp (fun ⟨o', ho, hn⟩ => ?_) id⟩
    cases o' with
    | done v'' w'' => obtain ⟨rfl, hw⟩ := ho; exact ⟨w'', hw, hn⟩
    | fail _ => exact ho.elim
    | outOfFuel => exact ho.elim
  cases r with
  | vals vs =>
    simp only [Src.runProg, hev]
    match vs, key with
    | [], key => exact key
    | [.u n], key => exact hdone _ _ key
    | [.b x], key => exact key
    | _ :: _ :: _, key => exact key
  | brk => exact key.elim
  | cont => exact key.elim
  | ret v =>
    simp only [Src.runProg, hev]
    cases v with
    | none => exact key.elim
    | some v =>
      cases v with
      | u n => exact hdone _ _ key
      | b x => exact key
  | exit v =>
    simp only [Src.runProg, hev]
    cases v with
    | u n => exact hdone _ _ key
    | b x => exact key
  | fail f =>
    cases f with
    | unmodelled msg =>
      have hrp : Src.runProg cx p fuel w0 = .outOfFuel ∨ Src.runProg cx p fuel w0 = .fail (.unmodelled msg) := by
        simp only [Src.runProg, hev]
        split <;> simp_all
        rename_i h1 h2
        exact h1 _ h2.1.symm
      rcases hrp with h | h <;> rw [h] <;> trivial
    | _ =>
      simp only [Src.runProg, hev]
      rcases key with ⟨msg, hm⟩ | key
      · cases hm
      · exact key

/-- **Correctness of code generation for programs with subroutine calls (stages 1 and 2).**

    For every program of the fragment `inFragmentR` (main routine and subroutine bodies arity-typed
    as in `Models.Fragment`, calls with the declared arity in operand or statement position,
    `Return` in statement position, by-value parameters in pairwise distinct scratch slots;
    recursion — direct or mutual — allowed), every version, under the scratch-slot calling convention
    (`fp = false`): whenever the whole-program generator succeeds, every terminating source run is
    matched by the multi-routine graph machine — same verdict, same return value, final world equal
    up to the representation of the scratch space (`SameW`); the only permitted deviation is the
    AVM's 1000-deep operand-stack limit (the machine has no call-depth limit).  When the source run
    fails (other than `unmodelled`), the machine fails.

    NOT covered (stages 3 and 4 of the plan): by-reference parameters, the frame-pointer
    convention (`fp = true`: `proto`, `frame_dig`, `frame_bury`), `WideRatio`. -/
theorem genProg_correct (version : Nat) (p : Prog) (hf : inFragmentR p = true)
    (Pg : PProg) (hg : genProg version false p = .ok Pg)
    (cx : Ctx) (w0 : World) (fuel : Nat) :
    match Src.runProg cx p fuel w0 with
    | .done v w => ∃ n, (∃ w', SameW w w' ∧ runP cx Pg n { world := w0 } = .done v w')
                    ∨ runP cx Pg n { world := w0 } = .fail (.logic "stack overflow")
    | .fail (.unmodelled _) => True
    | .fail _ => ∃ n f, runP cx Pg n { world := w0 } = .fail f
    | .outOfFuel => True := by
  rcases hev : eval ⟨cx, p, none⟩ fuel p.main w0 with ⟨r, w'⟩
  exact runProg_of_final hev (main_graph cx hg hf w0 fuel hev)

/-- stage 1 as a special case: no routine is declared re-entrant (with `reentersOk`: the call
    graph is acyclic), so no call block contains spill code -/
theorem genProg_correct_stage1 (version : Nat) (p : Prog) (hf : inFragmentR p = true)
    (_hnr : noReentry p = true) (Pg : PProg) (hg : genProg version false p = .ok Pg)
    (cx : Ctx) (w0 : World) (fuel : Nat) :
    match Src.runProg cx p fuel w0 with
    | .done v w => ∃ n, (∃ w', SameW w w' ∧ runP cx Pg n { world := w0 } = .done v w')
                    ∨ runP cx Pg n { world := w0 } = .fail (.logic "stack overflow")
    | .fail (.unmodelled _) => True
    | .fail _ => ∃ n f, runP cx Pg n { world := w0 } = .fail f
    | .outOfFuel => True :=
  genProg_correct version p hf Pg hg cx w0 fuel

/-! ### Non-vacuity: concrete programs with subroutine calls satisfy all hypotheses -/

/-- `f(a, b) = a - b`;  main: `f(10, 3) + 1` (two by-value parameters, call in operand position) -/
def exProg : Prog :=
  { subs := [{ id := 0, name := "f", params := [(.val, 1), (.val, 2)], hasRet := true,
               body := .prim "-" [] [.load 1, .load 2], locals := [1, 2], reenters := [] }],
    main := .prim "+" [] [.call 0 [.int 10, .int 3], .int 1] }

/-- `fact(n) = if n == 0 then return 1; m := n; fact(n - 1) * m` — recursive, with the local `m`
    (slot 2) and the parameter (slot 1) live across the re-entrant call: they are spilled -/
def factProg : Prog :=
  { subs := [{ id := 0, name := "fact", params := [(.val, 1)], hasRet := true,
               body := .seq [.store 2 (.load 1),
                             .ite (.prim "==" [] [.load 1, .int 0]) (.ret (some (.int 1))) none,
                             .prim "*" [] [.call 0 [.prim "-" [] [.load 1, .int 1]], .load 2]],
               locals := [1, 2], reenters := [0] }],
    main := .call 0 [.int 5] }

example : inFragmentR exProg = true := by decide
example : noReentry exProg = true := by decide
example : ∃ Pg, genProg 8 false exProg = .ok Pg := ⟨_, rfl⟩
example : ∃ w, Src.runProg {} exProg 20 = .done (.u 8) w := ⟨_, rfl⟩
example : ∃ Pg w, genProg 8 false exProg = .ok Pg ∧ runP {} Pg 100 {} = .done (.u 8) w := ⟨_, _, rfl, rfl⟩
example (Pg : PProg) (hg : genProg 8 false exProg = .ok Pg) :
    ∃ n, (∃ w', SameW { scratch := [(2, .u 3), (1, .u 10)] } w' ∧ runP {} Pg n {} = .done (.u 8) w')
      ∨ runP {} Pg n {} = .fail (.logic "stack overflow") :=
  genProg_correct 8 exProg (by decide) Pg hg {} {} 20

example : inFragmentR factProg = true := by decide
example : reentersOk factProg = true := by decide
example : stageOf factProg false = 2 := by decide
example : ∃ w, Src.runProg {} factProg 60 = .done (.u 120) w := ⟨_, rfl⟩
set_option maxRecDepth 100000 in
example : ∃ Pg w, genProg 8 false factProg = .ok Pg ∧ runP {} Pg 1000 {} = .done (.u 120) w := ⟨_, _, rfl, rfl⟩
set_option maxRecDepth 100000 in
/-- version 4: the `dig` flavour of the spill code -/
example : ∃ Pg w, genProg 4 false factProg = .ok Pg ∧ runP {} Pg 1000 {} = .done (.u 120) w := ⟨_, _, rfl, rfl⟩
example (Pg : PProg) (hg : genProg 8 false factProg = .ok Pg) :
    ∃ n, (∃ w', SameW { scratch := [(2, .u 5), (1, .u 5)] } w' ∧ runP {} Pg n {} = .done (.u 120) w')
      ∨ runP {} Pg n {} = .fail (.logic "stack overflow") :=
  genProg_correct 8 factProg (by decide) Pg hg {} {} 60

/-! ### Why the final worlds are compared up to `SameW`

  The requested statement with literal equality of the final world is FALSE for the smallest
  program with a two-parameter routine: `Src.eval` binds the parameters first-to-last
  (`foldl` over `params.zip argVals`), the generated prologue — like the real compiler's
  (`store 1; store 0` for `f(a, b)` in the TEAL that PyTeal emits) — stores them last-to-first, and
  `Avm.setSlot` moves the written slot to the front of an association list.  The two final scratch
  spaces have the same content and a different list order.  (On the real AVM scratch space is an
  array: the difference is an artefact of the list representation in `Avm.World`, not a defect of
  the compiler.) -/
theorem scratch_order_counterexample :
    ∃ Pg w w', genProg 8 false exProg = .ok Pg ∧
      Src.runProg {} exProg 20 = .done (.u 8) w ∧ runP {} Pg 100 {} = .done (.u 8) w' ∧
      w.scratch = [(2, .u 3), (1, .u 10)] ∧ w'.scratch = [(1, .u 10), (2, .u 3)] :=
  ⟨_, _, _, rfl, rfl, rfl, rfl, rfl⟩

/-! ### Why `Return` must be in statement position inside a subroutine (R7)

  `g() = 1 + Seq(Return(5))`, main `9 - g()`: the source semantics computes `9 - 5`; the generated
  `retsub` leaves the pending operand `1` on the stack, and the caller subtracts 5 from it. -/
def retOperandProg : Prog :=
  { subs := [{ id := 0, name := "g", params := [], hasRet := true,
               body := .prim "+" [] [.int 1, .seq [.ret (some (.int 5))]], locals := [], reenters := [] }],
    main := .prim "-" [] [.int 9, .call 0 []] }

theorem ret_in_operand_counterexample :
    ∃ Pg f, inFragmentR retOperandProg = false ∧ genProg 8 false retOperandProg = .ok Pg ∧
      Src.runProg {} retOperandProg 20 = .done (.u 4) {} ∧ runP {} Pg 100 {} = .fail f :=
  ⟨_, _, by decide, rfl, rfl, rfl⟩

end PyTealV.Proofs.C02Gen
