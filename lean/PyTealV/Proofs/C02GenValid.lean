/-
  C02Gen (part 10): two theorems about the source semantics alone, used for by-reference
  parameters (stage 3) under the by-reference discipline R9 of `Models/FragmentR.lean`.

  * `arity_all`: an arity-typed tree (`wtR K bc rc n e`) that completes normally yields exactly `n`
    values (for every typing context whose callee table is the program's).
  * `valid_all`: the by-reference parameter cells of the routines that have an activation on the
    call stack (`VSet p A`) hold valid references — slot numbers `< 256` that are no parameter slot
    of any routine — throughout every evaluation: nobody stores into such a cell directly, a call
    binds it to `index s` or to a forwarded reference, and `vstores` only writes through valid
    references, that is, never into a parameter slot.
-/
import PyTealV.Proofs.C02GenSpill
import PyTealV.Proofs.C02GenProg
namespace PyTealV.Proofs.C02Gen
open PyTealV PyTealV.Avm PyTealV.Src PyTealV.Comp PyTealV.Models.Fragment PyTealV.Models.FragmentR
open PyTealV.Proofs.C02Spill (getSlot_setSlot)
open PyTealV.Proofs.Ops (execPrim_sig)

/-! ### arity -/

structure ArAll (cx : Ctx) (p : Prog) (fuel : Nat) : Prop where
  ev : ∀ cur e w vs w' K bc rc n, K.callees = calleesOf p → wtR K bc rc n e = true →
    eval ⟨cx, p, cur⟩ fuel e w = (.vals vs, w') → vs.length = n
  args : ∀ cur es w acc st w' K, K.callees = calleesOf p → wtRArgs K es = true →
    evalArgs ⟨cx, p, cur⟩ fuel es w acc = (.vals st, w') → st.length = acc.length + es.length
  seq : ∀ cur es w vs w' K bc rc n, K.callees = calleesOf p → wtRSeq K bc rc n es = true →
    evalSeq ⟨cx, p, cur⟩ fuel es w = (.vals vs, w') → vs.length = n
  cond : ∀ cur arms w vs w' K bc rc n, K.callees = calleesOf p → wtRArms K bc rc n arms = true →
    evalCond ⟨cx, p, cur⟩ fuel arms w = (.vals vs, w') → vs.length = n
  forL : ∀ cur c st d w vs w', evalForLoop ⟨cx, p, cur⟩ fuel c st d w = (.vals vs, w') → vs.length = 0
  op : ∀ cur o es w vs w' K k q, K.callees = calleesOf p → wtRArgs K es = true → primSig o = some (k, q) →
    es.length = k → evalOp ⟨cx, p, cur⟩ fuel o es w = (.vals vs, w') → vs.length = q

theorem arAll_zero {cx : Ctx} {p : Prog} : ArAll cx p 0 where
  ev := by intro cur e w vs w' K bc rc n _ _ h; simp only [eval] at h; cases h
  args := by intro cur es w acc st w' K _ _ h; simp only [evalArgs] at h; cases h
  seq := by intro cur es w vs w' K bc rc n _ _ h; simp only [evalSeq] at h; cases h
  cond := by intro cur arms w vs w' K bc rc n _ _ h; simp only [evalCond] at h; cases h
  forL := by intro cur c st d w vs w' h; simp only [evalForLoop] at h; cases h
  op := by intro cur o es w vs w' K k q _ _ _ _ h; simp only [evalOp] at h; cases h

/-- the result of an opcode with a signature applied to the right number of operands -/
theorem prim_len {cx : Ctx} {op : String} {k q : Nat} (hsig : primSig op = some (k, q)) {imms : List String}
    {w w2 : World} {st st' : List Val} (hl : st.length = k) (h : execPrim cx op imms w st = .ok (st', w2)) :
    st'.length = q := by
  have := (execPrim_sig hsig cx imms w st [] hl).2
  exact this _ _ h

theorem arAll_succ {cx : Ctx} {p : Prog} {fuel : Nat} (ih : ArAll cx p fuel) : ArAll cx p (fuel + 1) where
  ev := by
    intro cur e w vs w' K bc rc n hKc hw h
    cases e with
    | int _ => simp only [wtR, beq_iff_eq] at hw; simp only [eval] at h; cases h; subst hw; rfl
    | bytes _ => simp only [wtR, beq_iff_eq] at hw; simp only [eval] at h; cases h; subst hw; rfl
    | index _ => simp only [wtR, beq_iff_eq] at hw; simp only [eval] at h; cases h; subst hw; rfl
    | load _ =>
      simp only [wtR, Bool.and_eq_true, beq_iff_eq] at hw
      simp only [eval] at h; cases h; rw [hw.1]; rfl
    | brk => simp only [eval] at h; cases h
    | cont => simp only [eval] at h; cases h
    | err => simp only [eval] at h; cases h
    | prim op imms args =>
      simp only [wtR, Bool.and_eq_true] at hw
      replace hw := hw.1
      cases hsig : primSigK K op with
      | none => rw [hsig] at hw; exact absurd hw.1 (by simp)
      | some kp =>
        obtain ⟨k0, q⟩ := kp
        rw [hsig] at hw
        simp only [Bool.and_eq_true, beq_iff_eq] at hw
        simp only [eval] at h
        rcases hev : evalArgs ⟨cx, p, cur⟩ fuel args w [] with ⟨r1, w1⟩
        rw [hev] at h
        cases r1 with
        | vals st =>
          have hl := ih.args cur args w [] st w1 K hKc hw.2 hev
          simp only [List.length_nil, Nat.zero_add] at hl
          simp only [] at h
          cases hB : execPrim cx op imms w1 st with
          | error f => rw [hB] at h; cases h
          | ok x =>
            obtain ⟨st', w2⟩ := x
            rw [hB] at h
            cases h
            exact (prim_len (primSigK_primSig hsig) (hl.trans hw.1.1) hB).trans hw.1.2
        | _ => simp only [] at h; cases h
    | store v e =>
      simp only [wtR, Bool.and_eq_true, beq_iff_eq] at hw
      simp only [eval] at h
      split at h
      · cases h; rw [hw.1.1.1.1]; rfl
      · cases h
      · exfalso; solve_by_elim
    | multi op imms args outs =>
      simp only [wtR, Bool.and_eq_true, beq_iff_eq] at hw
      simp only [eval] at h
      split at h
      · split at h
        · split at h
          · cases h; rw [hw.1.1.1.1]; rfl
          · cases h
        · cases h
      · exfalso; solve_by_elim
    | seq es =>
      simp only [wtR] at hw
      simp only [eval] at h
      exact ih.seq cur es w vs w' K bc rc n hKc hw h
    | ite c t e =>
      simp only [eval] at h
      cases e with
      | none =>
        simp only [wtR, Bool.and_eq_true, beq_iff_eq] at hw
        split at h
        · split at h
          · rw [hw.1.1]; exact ih.ev cur t _ vs w' K _ _ _ hKc hw.2 h
          · cases h; rw [hw.1.1]; rfl
        · cases h
        · exfalso; solve_by_elim
      | some e =>
        simp only [wtR, Bool.and_eq_true] at hw
        split at h
        · split at h
          · exact ih.ev cur t _ vs w' K _ _ _ hKc hw.1.2 h
          · exact ih.ev cur e _ vs w' K _ _ _ hKc hw.2 h
        · cases h
        · exfalso; solve_by_elim
    | cond arms =>
      simp only [wtR] at hw
      simp only [eval] at h
      exact ih.cond cur arms w vs w' K bc rc n hKc hw h
    | while_ c b =>
      have hw0 := hw
      simp only [wtR, Bool.and_eq_true, beq_iff_eq] at hw
      simp only [eval] at h
      have again : ∀ w2, eval ⟨cx, p, cur⟩ fuel (.while_ c b) w2 = (.vals vs, w') → vs.length = n :=
        fun w2 hh => ih.ev cur _ w2 vs w' K bc rc n hKc hw0 hh
      split at h
      · split at h
        · cases h; rw [hw.1.1]; rfl
        · split at h
          · exact again _ h
          · exact again _ h
          · cases h; rw [hw.1.1]; rfl
          · exfalso; solve_by_elim
      · cases h
      · cases h; rw [hw.1.1]; rfl
      · exact again _ h
      · exfalso; solve_by_elim
    | for_ i c st b =>
      simp only [wtR, Bool.and_eq_true, beq_iff_eq] at hw
      simp only [eval] at h
      have loop : ∀ w2, evalForLoop ⟨cx, p, cur⟩ fuel c st b w2 = (.vals vs, w') → vs.length = n :=
        fun w2 hh => by rw [hw.1.1.1.1]; exact ih.forL cur c st b w2 vs w' hh
      split at h
      · exact loop _ h
      · cases h; rw [hw.1.1.1.1]; rfl
      · split at h
        · exact loop _ h
        · cases h; rw [hw.1.1.1.1]; rfl
        · exfalso; solve_by_elim
      · exfalso; solve_by_elim
    | assert_ c =>
      simp only [wtR, Bool.and_eq_true, beq_iff_eq] at hw
      simp only [eval] at h
      split at h
      · split at h
        · cases h; rw [hw.1]; rfl
        · cases h
      · cases h
      · exfalso; solve_by_elim
    | ret e =>
      cases e with
      | none => simp only [eval] at h; cases h
      | some e =>
        simp only [eval] at h
        split at h
        · cases h
        · cases h
        · exfalso; solve_by_elim
    | exit e =>
      simp only [eval] at h
      split at h
      · cases h
      · cases h
      · exfalso; solve_by_elim
    | call f args =>
      simp only [wtR, hKc, callees_find] at hw
      cases hsd : findSub p f with
      | none => rw [hsd] at hw; simp at hw
      | some sd =>
        rw [hsd] at hw
        simp only [Option.map_some, toCallee, Bool.and_eq_true, beq_iff_eq] at hw
        have hn : n = if sd.hasRet then 1 else 0 := hw.1.1.1.2
        simp only [eval, hsd] at h
        rcases hev : evalArgs ⟨cx, p, cur⟩ fuel args w [] with ⟨r1, w1⟩
        rw [hev] at h
        cases r1 with
        | vals st =>
          simp only [] at h
          split at h
          · cases h
          · rcases hbody : eval ⟨cx, p, some f⟩ fuel sd.body (bindW sd st w1) with ⟨r3, w3⟩
            have hbody' := hbody
            simp only [bindW] at hbody'
            rw [hbody'] at h
            simp only [] at h
            cases hr : sd.hasRet <;> rw [hr] at h hn <;> subst hn <;>
              (repeat' split at h) <;> first | (cases h; done) | (cases h; rfl) | (cases h; contradiction) | (cases h; exfalso; solve_by_elim)
        | _ => simp only [] at h; cases h
    | wideRatio ns ds =>
      simp only [wtR, Bool.and_eq_true, beq_iff_eq] at hw
      rw [eval_wideRatio] at h
      split at h
      · rename_i st w1 _
        rcases wrRes_cases ns.length st with ⟨q, hq, _⟩ | ⟨f, hf, _⟩
        · rw [hq] at h; cases h; rw [hw.1.1.1.1.1.1]; rfl
        · rw [hf] at h; cases h
      · exfalso; solve_by_elim
    | substring a b c =>
      simp only [wtR, Bool.and_eq_true, beq_iff_eq] at hw
      simp only [eval] at h
      rw [hw.1.1.1]
      exact ih.op cur _ _ w vs w' K 3 1 hKc (by simp only [wtRArgs, hw.1.1.2, hw.1.2, hw.2, Bool.and_self])
        (by decide) rfl h
    | extract a b c =>
      simp only [wtR, Bool.and_eq_true, beq_iff_eq] at hw
      simp only [eval] at h
      rw [hw.1.1.1]
      exact ih.op cur _ _ w vs w' K 3 1 hKc (by simp only [wtRArgs, hw.1.1.2, hw.1.2, hw.2, Bool.and_self])
        (by decide) rfl h
    | suffix a b =>
      simp only [wtR, Bool.and_eq_true, beq_iff_eq] at hw
      simp only [eval] at h
      rw [hw.1.1]
      exact ih.op cur _ _ w vs w' K 2 1 hKc (by simp only [wtRArgs, hw.1.2, hw.2, Bool.and_self])
        (by decide) rfl h
    | note e =>
      cases e with
      | none => simp only [wtR, beq_iff_eq] at hw; simp only [eval] at h; cases h; subst hw; rfl
      | some e =>
        simp only [wtR] at hw
        simp only [eval] at h
        exact ih.ev cur e w vs w' K bc rc n hKc hw h
    | nonce b e =>
      simp only [wtR] at hw
      simp only [eval] at h
      exact ih.ev cur e w vs w' K bc rc n hKc hw h
  args := by
    intro cur es w acc st w' K hKc hw h
    cases es with
    | nil => simp only [evalArgs] at h; cases h; simp
    | cons e es =>
      simp only [wtRArgs, Bool.and_eq_true] at hw
      simp only [evalArgs] at h
      split at h
      · rename_i vs1 w1 he
        have h1 := ih.ev cur e w vs1 w1 K _ _ _ hKc hw.1 he
        have h2 := ih.args cur es w1 _ st w' K hKc hw.2 h
        simp only [List.length_append, List.length_cons] at h2 ⊢
        omega
      · exfalso; solve_by_elim
  seq := by
    intro cur es w vs w' K bc rc n hKc hw h
    match es with
    | [] => simp only [wtRSeq, beq_iff_eq] at hw; simp only [evalSeq] at h; cases h; subst hw; rfl
    | [e] =>
      simp only [wtRSeq] at hw
      simp only [evalSeq] at h
      exact ih.ev cur e w vs w' K bc rc n hKc hw h
    | e :: e2 :: es =>
      simp only [wtRSeq, Bool.and_eq_true] at hw
      simp only [evalSeq] at h
      split at h
      · exact ih.seq cur _ _ vs w' K bc rc n hKc hw.2 h
      · exfalso; solve_by_elim
  cond := by
    intro cur arms w vs w' K bc rc n hKc hw h
    match arms with
    | [] => simp only [evalCond] at h; cases h
    | (c, b) :: rest =>
      simp only [wtRArms, Bool.and_eq_true] at hw
      simp only [evalCond] at h
      split at h
      · split at h
        · exact ih.ev cur b _ vs w' K _ _ _ hKc hw.1.2 h
        · exact ih.cond cur rest _ vs w' K bc rc n hKc hw.2 h
      · cases h
      · exfalso; solve_by_elim
  forL := by
    intro cur c st d w vs w' h
    simp only [evalForLoop] at h
    have after : ∀ w2, (match eval ⟨cx, p, cur⟩ fuel st w2 with
          | (.vals _, w3) => evalForLoop ⟨cx, p, cur⟩ fuel c st d w3
          | (.brk, w3) => (.vals [], w3)
          | (.cont, w3) => (.fail (.unmodelled "continue inside For step"), w3)
          | r => r) = (.vals vs, w') → vs.length = 0 := by
      intro w2 hh
      split at hh
      · exact ih.forL cur c st d _ vs w' hh
      · cases hh; rfl
      · cases hh
      · exfalso; solve_by_elim
    split at h
    · split at h
      · cases h; rfl
      · split at h
        · exact after _ h
        · exact after _ h
        · cases h; rfl
        · exfalso; solve_by_elim
    · cases h
    · cases h; rfl
    · cases h
    · exfalso; solve_by_elim
  op := by
    intro cur o es w vs w' K k q hKc hw hsig hk h
    simp only [evalOp] at h
    rcases hev : evalArgs ⟨cx, p, cur⟩ fuel es w [] with ⟨r1, w1⟩
    rw [hev] at h
    cases r1 with
    | vals st =>
      have hl := ih.args cur es w [] st w1 K hKc hw hev
      simp only [List.length_nil, Nat.zero_add] at hl
      simp only [] at h
      cases hB : execPrim cx o [] w1 st with
      | error f => rw [hB] at h; cases h
      | ok x =>
        obtain ⟨st', w2⟩ := x
        rw [hB] at h
        cases h
        exact prim_len hsig (hl.trans hk) hB
    | _ => simp only [] at h; cases h

/-- **Arity.**  A tree typed with arity `n` that completes normally yields `n` values. -/
theorem arity_all (cx : Ctx) (p : Prog) : ∀ fuel, ArAll cx p fuel
  | 0 => arAll_zero
  | f + 1 => arAll_succ (arity_all cx p f)

/-! ### valid references -/

/-- validity of the reference cells of the routines `A` is passed on from `w` to `w'` -/
def VP (p : Prog) (A : List Nat) (w w' : World) : Prop := VSet p A w → VSet p A w'

theorem VP.refl {p : Prog} (A : List Nat) (w : World) : VP p A w w := id
theorem VP.trans {p : Prog} {A : List Nat} {a b c : World} (h1 : VP p A a b) (h2 : VP p A b c) : VP p A a c :=
  fun h => h2 (h1 h)

/-- what the validity theorem assumes about the program and the set `T` of routines that can be
    called: bodies typed under the by-reference discipline, calls stay inside `T`, distinct
    parameter slots per routine, no by-value parameter slot is a by-reference parameter slot -/
structure ValCtx (p : Prog) (fp dyn : Bool) (T : Nat → Prop) : Prop where
  body : ∀ g, T g → ∀ sd, findSub p g = some sd →
    wtR (subK fp p sd dyn true) false true (if sd.hasRet then 1 else 0) sd.body = true ∧
    (∃ l, (subK fp p sd dyn true).okCalls = some l ∧ ∀ g', g' ∈ l → T g') ∧ (sd.params.map (·.2)).Nodup ∧
    (∀ v, v ∈ valSlots sd → v ∉ allRefSlots p)

/-- a strict typing context of a routine whose reference cells are among those of `A` -/
structure KV (p : Prog) (T : Nat → Prop) (A : List Nat) (K : RK) : Prop where
  strict : K.strict = true
  callees : K.callees = calleesOf p
  refAll : K.refAll = allRefSlots p
  parAll : K.parAll = allParamSlots p
  kinds : K.kinds = kindsOf p
  calls : ∃ l, K.okCalls = some l ∧ ∀ g, g ∈ l → T g
  ref : ∀ v, v ∈ K.ref → ∃ f sd, f ∈ A ∧ findSub p f = some sd ∧ v ∈ refSlots sd

/-- the values `vs` (first argument first) passed for the parameters with kinds `ks` are valid
    references where a reference is expected -/
def ArgsValid (p : Prog) (ks : List Bool) (vs : List Val) : Prop :=
  ∀ j, ks[j]? = some true → j < vs.length → ∃ s, vs[j]? = some (.u s) ∧ okAddr p s

structure ValidAll (cx : Ctx) (p : Prog) (fp dyn : Bool) (T : Nat → Prop) (fuel : Nat) : Prop where
  ev : ∀ cur e w r w' K bc rc n A, KV p T A K → wtR K bc rc n e = true →
    eval ⟨cx, p, cur⟩ fuel e w = (r, w') → VP p A w w'
  args : ∀ cur es w acc r w' K A, KV p T A K → wtRArgs K es = true →
    evalArgs ⟨cx, p, cur⟩ fuel es w acc = (r, w') → VP p A w w'
  seq : ∀ cur es w r w' K bc rc n A, KV p T A K → wtRSeq K bc rc n es = true →
    evalSeq ⟨cx, p, cur⟩ fuel es w = (r, w') → VP p A w w'
  cond : ∀ cur arms w r w' K bc rc n A, KV p T A K → wtRArms K bc rc n arms = true →
    evalCond ⟨cx, p, cur⟩ fuel arms w = (r, w') → VP p A w w'
  forL : ∀ cur c st d w r w' K rc A, KV p T A K → wtR K false false 1 c = true → wtR K false rc 0 st = true →
    wtR K true rc 0 d = true → evalForLoop ⟨cx, p, cur⟩ fuel c st d w = (r, w') → VP p A w w'
  op : ∀ cur o es w r w' K A, KV p T A K → wtRArgs K es = true → Models.Optimizer.framedOps.contains o = true →
    evalOp ⟨cx, p, cur⟩ fuel o es w = (r, w') → VP p A w w'
  /-- the arguments of a call under the by-reference discipline -/
  argsV : ∀ cur es ks w acc st w1 K A, KV p T A K → wtRArgs K es = true → refArgsOk K ks es = true →
    evalArgs ⟨cx, p, cur⟩ fuel es w acc = (.vals st, w1) → VSet p A w →
    ∃ vs, st = vs.reverse ++ acc ∧ vs.length = es.length ∧ ArgsValid p ks vs

theorem validAll_zero {cx : Ctx} {p : Prog} {fp dyn : Bool} {T : Nat → Prop} : ValidAll cx p fp dyn T 0 where
  ev := by intro cur e w r w' K bc rc n A _ _ h; simp only [eval] at h; cases h; exact .refl _ _
  args := by intro cur es w acc r w' K A _ _ h; simp only [evalArgs] at h; cases h; exact .refl _ _
  seq := by intro cur es w r w' K bc rc n A _ _ h; simp only [evalSeq] at h; cases h; exact .refl _ _
  cond := by intro cur arms w r w' K bc rc n A _ _ h; simp only [evalCond] at h; cases h; exact .refl _ _
  forL := by intro cur c st d w r w' K rc A _ _ _ _ h; simp only [evalForLoop] at h; cases h; exact .refl _ _
  op := by intro cur o es w r w' K A _ _ _ h; simp only [evalOp] at h; cases h; exact .refl _ _
  argsV := by intro cur es ks w acc st w1 K A _ _ _ h; simp only [evalArgs] at h; cases h

section Step
variable {cx : Ctx} {p : Prog} {fp dyn : Bool} {T : Nat → Prop} {fuel : Nat}

/-- an opcode of the strict fragment: framed (scratch space untouched), or `vloads` / `vstores`
    through a by-reference parameter of the routine -/
theorem valid_prim {A : List Nat} {K : RK} {op : String} {k q : Nat}
    {imms : List String} {args : List Expr} {env : Env} {w w1 w2 : World} {st st' : List Val}
    (hK : KV p T A K) (hsig : primSigK K op = some (k, q)) (hds : dynShapeOk K op args = true)
    (hev : evalArgs env fuel args w [] = (.vals st, w1)) (hlen : st.length = k)
    (k1 : VP p A w w1) (hB : execPrim env.cx op imms w1 st = .ok (st', w2)) : VP p A w w2 := by
  cases (primSigK_cases hsig).2 with
  | framed hf => exact k1.trans (fun h => h.congr (fun s _ => by rw [framed_scratch hf env.cx imms hB]))
  | slot _ hstr _ => have := hK.strict; rw [this] at hstr; cases hstr
  | dyn _ _ hop =>
    obtain ⟨v, rest, rfl, hvr⟩ := dynShape_load hK.strict hop hds
    intro hV
    have hV1 := k1 hV
    have hlast := evalArgs_load_last hev
    obtain ⟨f, sd, hfA, hsd, hvs⟩ := hK.ref v hvr
    obtain ⟨s, h1, h2⟩ := hV f hfA sd hsd v hvs
    have hsig' := (primSigK_cases hsig).1
    rcases hop with rfl | rfl
    · have hk : k = 1 := by
        have : primSig "vloads" = some (1, 1) := by decide
        rw [this] at hsig'; cases hsig'; rfl
      subst hk
      match st, hlen with
      | [x], _ =>
        simp only [List.getLast?_singleton, Option.some.injEq] at hlast
        rw [hlast, h1, exec_vloads_u] at hB
        cases hB
        exact hV1
    · have hk : k = 2 := by
        have : primSig "vstores" = some (2, 0) := by decide
        rw [this] at hsig'; cases hsig'; rfl
      subst hk
      match st, hlen with
      | [b, x], _ =>
        simp only [List.getLast?_cons_cons, List.getLast?_singleton, Option.some.injEq] at hlast
        rw [hlast, h1, exec_vstores_u] at hB
        cases hB
        exact hV1.set (fun hh => h2.2 (allRefSlots_params hh))

theorem kindsOf_lookup (p : Prog) (f : Nat) :
    (kindsOf p).lookup f = (findSub p f).map (fun sd => sd.params.map (fun kv => kv.1 == .ref)) := by
  unfold kindsOf findSub
  induction p.subs with
  | nil => rfl
  | cons sd rest ih =>
    simp only [List.map_cons, List.lookup_cons, List.find?_cons]
    by_cases h : sd.id = f
    · subst h; simp
    · have h1 : (f == sd.id) = false := by simp [Ne.symm h]
      have h2 : (sd.id == f) = false := by simp [h]
      rw [h1, h2]
      exact ih

theorem vset_restore {A : List Nat} {locals : List Var} {w1 w3 : World} (h1 : VSet p A w1) (h3 : VSet p A w3) :
    VSet p A (restoreW locals w1 w3) := by
  intro f hf sd hsd v hv
  unfold validAt
  rw [restoreW_get]
  split
  · exact h1 f hf sd hsd v hv
  · exact h3 f hf sd hsd v hv

/-- binding the parameters of `f` to valid arguments: the cells of `f :: A` are valid -/
theorem valid_bind {A : List Nat} {f : Nat} {sd : SubDef} {st vs : List Val} {w1 : World}
    (hsd : findSub p f = some sd) (hst : st.reverse = vs) (hlen : vs.length = sd.params.length)
    (hav : ArgsValid p (sd.params.map (fun kv => kv.1 == .ref)) vs)
    (hpnd : (sd.params.map (·.2)).Nodup) (hvals : ∀ v, v ∈ valSlots sd → v ∉ allRefSlots p)
    (hV1 : VSet p A w1) : VSet p (f :: A) (bindW sd st w1) := by
  have hkeys : (((sd.params.map (·.2)).zip st.reverse).map (·.1)).Nodup := by
    rw [List.map_fst_zip (by simp [hst, hlen])]
    exact hpnd
  intro g hg sdg hsdg v hv
  unfold validAt
  rw [bindW_scratch, getSlot_bindAll _ _ _ hkeys]
  by_cases hvp : v ∈ sd.params.map (·.2)
  · -- a parameter slot of the callee
    obtain ⟨j, hj⟩ := List.mem_iff_getElem?.mp hvp
    have hjlt : j < sd.params.length := by
      have := getElem?_lt hj
      simpa using this
    rw [List.getElem?_map] at hj
    cases hpj : sd.params[j]? with
    | none => rw [hpj] at hj; cases hj
    | some kv =>
      rw [hpj] at hj
      simp only [Option.map_some, Option.some.injEq] at hj
      have hjv : j < vs.length := by omega
      have hx : vs[j]? = some vs[j] := List.getElem?_eq_getElem hjv
      have hmem : (v, vs[j]) ∈ (sd.params.map (·.2)).zip st.reverse := by
        refine List.mem_iff_getElem?.mpr ⟨j, ?_⟩
        rw [List.getElem?_zip_eq_some]
        refine ⟨?_, by rw [hst]; exact hx⟩
        rw [List.getElem?_map, hpj, ← hj]
        rfl
      rw [lookup_eq_some_of_mem _ v _ hkeys hmem]
      by_cases hk : kv.1 = ParamKind.ref
      · obtain ⟨s, hs1, hs2⟩ := hav j (by rw [List.getElem?_map, hpj]; simp only [Option.map_some, hk]; rfl) hjv
        rw [hx] at hs1
        exact ⟨s, by simpa using hs1, hs2⟩
      · exfalso
        have hval : kv.1 = ParamKind.val := by
          cases hkv : kv.1 with
          | val => rfl
          | ref => exact absurd hkv hk
        have : v ∈ valSlots sd := by
          unfold valSlots
          refine List.mem_map.mpr ⟨kv, List.mem_filter.mpr ⟨List.mem_of_getElem? hpj, by rw [hval]; rfl⟩, hj⟩
        exact hvals v this (mem_allRefSlots hsdg hv)
  · -- not a parameter slot of the callee
    have hnone : ((sd.params.map (·.2)).zip st.reverse).lookup v = none := by
      rw [List.lookup_eq_none_iff]
      intro pr hpr
      simp only [bne_iff_ne, ne_eq]
      intro hpv
      exact hvp (hpv ▸ (List.of_mem_zip hpr).1)
    rw [hnone]
    rcases List.mem_cons.mp hg with rfl | hgA
    · rw [hsd] at hsdg
      cases hsdg
      exact absurd (refSlots_params hv) hvp
    · exact hV1 g hgA sdg hsdg v hv

/-- the callee's reference cells are valid when its body starts -/
theorem valid_entry (ih : ValidAll cx p fp dyn T fuel) {cur : Option Nat} {f : Nat} {sd : SubDef}
    {args : List Expr} {w w1 : World} {st : List Val} {K : RK} {bc rc : Bool} {n : Nat} {A : List Nat} (hK : KV p T A K)
    (hw : wtR K bc rc n (.call f args) = true) (hsd : findSub p f = some sd)
    (hpnd : (sd.params.map (·.2)).Nodup) (hvals : ∀ v, v ∈ valSlots sd → v ∉ allRefSlots p)
    (hev : evalArgs ⟨cx, p, cur⟩ fuel args w [] = (.vals st, w1)) (hlen : st.length = sd.params.length)
    (hV : VSet p A w) : VSet p (f :: A) (bindW sd st w1) := by
  simp only [wtR, Bool.and_eq_true] at hw
  obtain ⟨⟨_, hwa⟩, hcs⟩ := hw
  have hks : refArgsOk K (sd.params.map (fun kv => kv.1 == .ref)) args = true := by
    unfold callShapeOk at hcs
    rw [hK.strict, hK.kinds, kindsOf_lookup, hsd] at hcs
    simpa using hcs
  obtain ⟨vs, hvs, hvl, hav⟩ := ih.argsV cur args _ w [] st w1 K A hK hwa hks hev hV
  rw [List.append_nil] at hvs
  have hst : st.reverse = vs := by rw [hvs, List.reverse_reverse]
  exact valid_bind hsd hst (by rw [← hst, List.length_reverse]; exact hlen) hav hpnd hvals
    (ih.args cur args w [] _ w1 K _ hK hwa hev hV)

theorem valid_call (hC : ValCtx p fp dyn T) (ih : ValidAll cx p fp dyn T fuel) {cur : Option Nat} {f : Nat} {args : List Expr}
    {w w' : World} {r : Res} {K : RK} {bc rc : Bool} {n : Nat} {A : List Nat} (hK : KV p T A K)
    (hw : wtR K bc rc n (.call f args) = true)
    (h : eval ⟨cx, p, cur⟩ (fuel + 1) (.call f args) w = (r, w')) : VP p A w w' := by
  simp only [wtR, Bool.and_eq_true] at hw
  obtain ⟨⟨⟨hce, hallow⟩, hwa⟩, hcs⟩ := hw
  obtain ⟨l, hl, hlT⟩ := hK.calls
  rw [hl] at hallow
  simp only [List.contains_eq_mem, decide_eq_true_eq] at hallow
  have hfT : T f := hlT f hallow
  cases hsd : findSub p f with
  | none => simp only [eval, hsd] at h; cases h; exact .refl _ _
  | some sd =>
    obtain ⟨hwtb, hcallsb, hpnd, hvals⟩ := hC.body f hfT sd hsd
    rw [hK.callees, callees_find, hsd] at hce
    simp only [Option.map_some, toCallee, Bool.and_eq_true, beq_iff_eq] at hce
    simp only [eval, hsd] at h
    rcases hev : evalArgs ⟨cx, p, cur⟩ fuel args w [] with ⟨r1, w1⟩
    rw [hev] at h
    have k1 := ih.args cur args w [] r1 w1 K _ hK hwa hev
    cases r1 with
    | vals st =>
      simp only [] at h
      by_cases hlen : st.reverse.length ≠ sd.params.length
      · rw [if_pos hlen] at h
        cases h
        exact k1
      · rw [if_neg hlen] at h
        have hlen' : st.reverse.length = sd.params.length := by simpa using hlen
        rcases hbody : eval ⟨cx, p, some f⟩ fuel sd.body (bindW sd st w1) with ⟨r3, w3⟩
        have hKb : KV p T (f :: A) (subK fp p sd dyn true) :=
          ⟨subK_strictB, subK_callees, subK_refAll, subK_parAll, subK_kinds, hcallsb,
            fun v hv => ⟨f, sd, List.mem_cons_self .., hsd, by rw [subK_ref] at hv; exact hv⟩⟩
        -- the arguments passed for by-reference parameters are valid references
        have hks : refArgsOk K (sd.params.map (fun kv => kv.1 == .ref)) args = true := by
          unfold callShapeOk at hcs
          rw [hK.strict, hK.kinds, kindsOf_lookup, hsd] at hcs
          simpa using hcs
        have hentry : VSet p A w → VSet p (f :: A) (bindW sd st w1) := by
          intro hV
          obtain ⟨vs, hvs, hvl, hav⟩ := ih.argsV cur args _ w [] st w1 K A hK hwa hks hev hV
          rw [List.append_nil] at hvs
          have hst : st.reverse = vs := by rw [hvs, List.reverse_reverse]
          exact valid_bind hsd hst (by rw [← hst]; exact hlen') hav hpnd hvals (k1 hV)
        have k2 : VSet p A w → VSet p (f :: A) w3 := fun hV =>
          ih.ev (some f) sd.body _ r3 w3 _ false true _ (f :: A) hKb hwtb hbody (hentry hV)
        have A' : VP p A w w3 := fun hV => (k2 hV).sub (fun g hg => List.mem_cons_of_mem _ hg)
        have B : ∀ locals, VP p A w (restoreW locals w1 w3) := fun locals hV => vset_restore (k1 hV) (A' hV)
        have hbody' := hbody
        simp only [bindW] at hbody'
        rw [hbody'] at h
        simp only [] at h
        repeat' split at h
        all_goals (cases h; first | exact A' | exact B _)
    | _ =>
      simp only [] at h
      cases h
      exact k1

theorem validAll_succ (hC : ValCtx p fp dyn T) (ih : ValidAll cx p fp dyn T fuel) : ValidAll cx p fp dyn T (fuel + 1) where
  ev := by
    intro cur e w r w' K bc rc n A hK hw h
    -- a sub-evaluation followed by a result that keeps its world, or passes it on unchanged
    have one : ∀ (e1 : Expr) {bc1 rc1 n1}, wtR K bc1 rc1 n1 e1 = true → ∀ r1 w1,
        eval ⟨cx, p, cur⟩ fuel e1 w = (r1, w1) → VP p A w w1 :=
      fun e1 _ _ _ hw1 r1 w1 he => ih.ev cur e1 w r1 w1 K _ _ _ _ hK hw1 he
    cases e with
    | int _ => simp only [eval] at h; cases h; exact .refl _ _
    | bytes _ => simp only [eval] at h; cases h; exact .refl _ _
    | index _ => simp only [eval] at h; cases h; exact .refl _ _
    | load _ => simp only [eval] at h; cases h; exact .refl _ _
    | brk => simp only [eval] at h; cases h; exact .refl _ _
    | cont => simp only [eval] at h; cases h; exact .refl _ _
    | err => simp only [eval] at h; cases h; exact .refl _ _
    | prim op imms args =>
      simp only [wtR, Bool.and_eq_true] at hw
      obtain ⟨hw, hds⟩ := hw
      cases hsig : primSigK K op with
      | none => rw [hsig] at hw; exact absurd hw.1 (by simp)
      | some kp =>
        obtain ⟨k0, q⟩ := kp
        have hw' := hw
        rw [hsig] at hw'
        simp only [Bool.and_eq_true, beq_iff_eq] at hw'
        simp only [eval] at h
        rcases hev : evalArgs ⟨cx, p, cur⟩ fuel args w [] with ⟨r1, w1⟩
        rw [hev] at h
        have k1 := ih.args cur args w [] r1 w1 K _ hK hw.2 hev
        cases r1 with
        | vals st =>
          simp only [] at h
          cases hB : execPrim cx op imms w1 st with
          | error f => rw [hB] at h; cases h; exact k1
          | ok x =>
            obtain ⟨st', w2⟩ := x; rw [hB] at h; cases h
            have hl := (arity_all cx p fuel).args cur args w [] st w1 K hK.callees hw.2 hev
            simp only [List.length_nil, Nat.zero_add] at hl
            exact valid_prim hK hsig hds hev (hl.trans hw'.1.1) k1 hB
        | _ => simp only [] at h; cases h; exact k1
    | store v e =>
      simp only [wtR, Bool.and_eq_true, Bool.not_eq_true', List.contains_eq_mem, decide_eq_false_iff_not] at hw
      obtain ⟨hw, hvr⟩ := hw
      simp only [eval] at h
      split at h
      · cases h
        exact (one e hw.2 _ _ (by assumption)).trans (fun hV => hV.set (by rw [← hK.refAll]; exact hvr))
      · cases h; exact one e hw.2 _ _ (by assumption)
      · exact one e hw.2 _ _ h
    | multi op imms args outs =>
      simp only [wtR, Bool.and_eq_true] at hw
      obtain ⟨hw, houts⟩ := hw
      cases hsig : primSigK { K with dyn := false } op with
      | none => rw [hsig] at hw; exact absurd hw.1.1.2 (by simp)
      | some kp =>
        simp only [List.all_eq_true, Bool.and_eq_true, Bool.not_eq_true', List.contains_eq_mem,
          decide_eq_false_iff_not] at hw houts
        simp only [eval] at h
        rcases hev : evalArgs ⟨cx, p, cur⟩ fuel args w [] with ⟨r1, w1⟩
        rw [hev] at h
        have k1 := ih.args cur args w [] r1 w1 K _ hK hw.2 hev
        cases r1 with
        | vals st =>
          simp only [] at h
          cases hB : execPrim cx op imms w1 st with
          | error f => rw [hB] at h; cases h; exact k1
          | ok x =>
            obtain ⟨st', w2⟩ := x
            rw [hB] at h
            simp only [] at h
            have k2 : VP p A w1 w2 := by
              cases (primSigK_cases hsig).2 with
              | framed hf => exact fun hV => hV.congr (fun s _ => by rw [framed_scratch hf cx imms hB])
              | slot _ hstr _ => have := hK.strict; rw [this] at hstr; cases hstr
              | dyn _ hd _ => cases hd
            split at h
            · cases h
              refine k1.trans (k2.trans (fun hV => hV.congr (fun s hs => ?_)))
              refine getSlot_foldl_notin _ _ _ ?_
              intro hmem
              obtain ⟨pr, hpr, hpr1⟩ := List.mem_map.mp hmem
              have := (List.of_mem_zip hpr).1
              have hout := houts pr.1 (List.mem_reverse.mp this)
              rw [hK.refAll] at hout
              exact hout (hpr1 ▸ hs)
            · cases h; exact k1.trans k2
        | _ => simp only [] at h; cases h; exact k1
    | seq es =>
      simp only [wtR] at hw
      simp only [eval] at h
      exact ih.seq cur es w r w' K bc rc n _ hK hw h
    | ite c t e =>
      simp only [eval] at h
      cases e with
      | none =>
        simp only [wtR, Bool.and_eq_true] at hw
        split at h
        · have k1 := one c hw.1.2 _ _ (by assumption)
          split at h
          · exact k1.trans (ih.ev cur t _ r w' K _ _ _ _ hK hw.2 h)
          · cases h; exact k1
        · cases h; exact one c hw.1.2 _ _ (by assumption)
        · exact one c hw.1.2 _ _ h
      | some e =>
        simp only [wtR, Bool.and_eq_true] at hw
        split at h
        · have k1 := one c hw.1.1 _ _ (by assumption)
          split at h
          · exact k1.trans (ih.ev cur t _ r w' K _ _ _ _ hK hw.1.2 h)
          · exact k1.trans (ih.ev cur e _ r w' K _ _ _ _ hK hw.2 h)
        · cases h; exact one c hw.1.1 _ _ (by assumption)
        · exact one c hw.1.1 _ _ h
    | cond arms =>
      simp only [wtR] at hw
      simp only [eval] at h
      exact ih.cond cur arms w r w' K bc rc n _ hK hw h
    | while_ c b =>
      have hw0 := hw
      simp only [wtR, Bool.and_eq_true] at hw
      simp only [eval] at h
      have again : ∀ w2 r w', eval ⟨cx, p, cur⟩ fuel (.while_ c b) w2 = (r, w') → VP p A w2 w' :=
        fun w2 r w' hh => ih.ev cur _ w2 r w' K bc rc n _ hK hw0 hh
      split at h
      · have k1 := one c hw.1.2 _ _ (by assumption)
        split at h
        · cases h; exact k1
        · split at h
          · exact k1.trans ((ih.ev cur b _ _ _ K _ _ _ _ hK hw.2 (by assumption)).trans (again _ _ _ h))
          · exact k1.trans ((ih.ev cur b _ _ _ K _ _ _ _ hK hw.2 (by assumption)).trans (again _ _ _ h))
          · cases h; exact k1.trans (ih.ev cur b _ _ _ K _ _ _ _ hK hw.2 (by assumption))
          · exact k1.trans (ih.ev cur b _ _ _ K _ _ _ _ hK hw.2 h)
      · cases h; exact one c hw.1.2 _ _ (by assumption)
      · cases h; exact one c hw.1.2 _ _ (by assumption)
      · exact (one c hw.1.2 _ _ (by assumption)).trans (again _ _ _ h)
      · exact one c hw.1.2 _ _ h
    | for_ i c st b =>
      simp only [wtR, Bool.and_eq_true] at hw
      simp only [eval] at h
      have loop : ∀ w2 r w', evalForLoop ⟨cx, p, cur⟩ fuel c st b w2 = (r, w') → VP p A w2 w' :=
        fun w2 r w' hh => ih.forL cur c st b w2 r w' K rc _ hK hw.1.1.2 hw.1.2 hw.2 hh
      split at h
      · exact (one i hw.1.1.1.2 _ _ (by assumption)).trans (loop _ _ _ h)
      · cases h; exact one i hw.1.1.1.2 _ _ (by assumption)
      · have k1 := one i hw.1.1.1.2 _ _ (by assumption)
        split at h
        · exact k1.trans ((ih.ev cur st _ _ _ K _ _ _ _ hK hw.1.2 (by assumption)).trans (loop _ _ _ h))
        · cases h; exact k1.trans (ih.ev cur st _ _ _ K _ _ _ _ hK hw.1.2 (by assumption))
        · exact k1.trans (ih.ev cur st _ _ _ K _ _ _ _ hK hw.1.2 h)
      · exact one i hw.1.1.1.2 _ _ h
    | assert_ c =>
      simp only [wtR, Bool.and_eq_true] at hw
      simp only [eval] at h
      split at h
      · split at h <;> (cases h; exact one c hw.2 _ _ (by assumption))
      · cases h; exact one c hw.2 _ _ (by assumption)
      · exact one c hw.2 _ _ h
    | ret e =>
      cases e with
      | none => simp only [eval] at h; cases h; exact .refl _ _
      | some e =>
        simp only [wtR, Bool.and_eq_true] at hw
        simp only [eval] at h
        split at h
        · cases h; exact one e hw.2 _ _ (by assumption)
        · cases h; exact one e hw.2 _ _ (by assumption)
        · exact one e hw.2 _ _ h
    | exit e =>
      simp only [wtR] at hw
      simp only [eval] at h
      split at h
      · cases h; exact one e hw _ _ (by assumption)
      · cases h; exact one e hw _ _ (by assumption)
      · exact one e hw _ _ h
    | call f args => exact valid_call hC ih hK hw h
    | wideRatio ns ds =>
      simp only [wtR, Bool.and_eq_true] at hw
      have hwa : wtRArgs K (ns ++ ds) = true := by rw [wtRArgs_append, hw.1.1.2, hw.1.2]; rfl
      rw [eval_wideRatio] at h
      split at h
      · cases h; exact ih.args cur (ns ++ ds) w [] _ _ K _ hK hwa (by assumption)
      · exact ih.args cur (ns ++ ds) w [] r w' K _ hK hwa h
    | substring a b c =>
      simp only [wtR, Bool.and_eq_true] at hw
      simp only [eval] at h
      exact ih.op cur _ _ w r w' K _ hK (by simp only [wtRArgs, hw.1.1.2, hw.1.2, hw.2, Bool.and_self]) (by decide) h
    | extract a b c =>
      simp only [wtR, Bool.and_eq_true] at hw
      simp only [eval] at h
      exact ih.op cur _ _ w r w' K _ hK (by simp only [wtRArgs, hw.1.1.2, hw.1.2, hw.2, Bool.and_self]) (by decide) h
    | suffix a b =>
      simp only [wtR, Bool.and_eq_true] at hw
      simp only [eval] at h
      exact ih.op cur _ _ w r w' K _ hK (by simp only [wtRArgs, hw.1.2, hw.2, Bool.and_self]) (by decide) h
    | note e =>
      cases e with
      | none => simp only [eval] at h; cases h; exact .refl _ _
      | some e =>
        simp only [wtR] at hw
        simp only [eval] at h
        exact ih.ev cur e w r w' K bc rc n _ hK hw h
    | nonce b e =>
      simp only [wtR] at hw
      simp only [eval] at h
      exact ih.ev cur e w r w' K bc rc n _ hK hw h
  args := by
    intro cur es w acc r w' K A hK hw h
    cases es with
    | nil => simp only [evalArgs] at h; cases h; exact .refl _ _
    | cons e es =>
      simp only [wtRArgs, Bool.and_eq_true] at hw
      simp only [evalArgs] at h
      split at h
      · exact (ih.ev cur e w _ _ K _ _ _ _ hK hw.1 (by assumption)).trans (ih.args cur es _ _ r w' K _ hK hw.2 h)
      · exact ih.ev cur e w _ _ K _ _ _ _ hK hw.1 h
  seq := by
    intro cur es w r w' K bc rc n A hK hw h
    match es with
    | [] => simp only [evalSeq] at h; cases h; exact .refl _ _
    | [e] =>
      simp only [wtRSeq] at hw
      simp only [evalSeq] at h
      exact ih.ev cur e w r w' K bc rc n _ hK hw h
    | e :: e2 :: es =>
      simp only [wtRSeq, Bool.and_eq_true] at hw
      simp only [evalSeq] at h
      split at h
      · exact (ih.ev cur e w _ _ K _ _ _ _ hK hw.1 (by assumption)).trans (ih.seq cur _ _ r w' K bc rc n _ hK hw.2 h)
      · exact ih.ev cur e w _ _ K _ _ _ _ hK hw.1 h
  cond := by
    intro cur arms w r w' K bc rc n A hK hw h
    match arms with
    | [] => simp only [evalCond] at h; cases h; exact .refl _ _
    | (c, b) :: rest =>
      simp only [wtRArms, Bool.and_eq_true] at hw
      simp only [evalCond] at h
      split at h
      · have k1 := ih.ev cur c w _ _ K _ _ _ _ hK hw.1.1 (by assumption)
        split at h
        · exact k1.trans (ih.ev cur b _ r w' K _ _ _ _ hK hw.1.2 h)
        · exact k1.trans (ih.cond cur rest _ r w' K bc rc n _ hK hw.2 h)
      · cases h; exact ih.ev cur c w _ _ K _ _ _ _ hK hw.1.1 (by assumption)
      · exact ih.ev cur c w _ _ K _ _ _ _ hK hw.1.1 h
  forL := by
    intro cur c st d w r w' K rc A hK hwc hws hwd h
    simp only [evalForLoop] at h
    have after : ∀ w2 r w', (match eval ⟨cx, p, cur⟩ fuel st w2 with
          | (.vals _, w3) => evalForLoop ⟨cx, p, cur⟩ fuel c st d w3
          | (.brk, w3) => (.vals [], w3)
          | (.cont, w3) => (.fail (.unmodelled "continue inside For step"), w3)
          | r => r) = (r, w') → VP p A w2 w' := by
      intro w2 r w' hh
      split at hh
      · exact (ih.ev cur st w2 _ _ K _ _ _ _ hK hws (by assumption)).trans (ih.forL cur c st d _ r w' K rc _ hK hwc hws hwd hh)
      · cases hh; exact ih.ev cur st w2 _ _ K _ _ _ _ hK hws (by assumption)
      · cases hh; exact ih.ev cur st w2 _ _ K _ _ _ _ hK hws (by assumption)
      · exact ih.ev cur st w2 _ _ K _ _ _ _ hK hws hh
    split at h
    · have k1 := ih.ev cur c w _ _ K _ _ _ _ hK hwc (by assumption)
      split at h
      · cases h; exact k1
      · split at h
        · exact k1.trans ((ih.ev cur d _ _ _ K _ _ _ _ hK hwd (by assumption)).trans (after _ _ _ h))
        · exact k1.trans ((ih.ev cur d _ _ _ K _ _ _ _ hK hwd (by assumption)).trans (after _ _ _ h))
        · cases h; exact k1.trans (ih.ev cur d _ _ _ K _ _ _ _ hK hwd (by assumption))
        · exact k1.trans (ih.ev cur d _ _ _ K _ _ _ _ hK hwd h)
    · cases h; exact ih.ev cur c w _ _ K _ _ _ _ hK hwc (by assumption)
    · cases h; exact ih.ev cur c w _ _ K _ _ _ _ hK hwc (by assumption)
    · cases h; exact ih.ev cur c w _ _ K _ _ _ _ hK hwc (by assumption)
    · exact ih.ev cur c w _ _ K _ _ _ _ hK hwc h
  op := by
    intro cur o es w r w' K A hK hw ho h
    simp only [evalOp] at h
    rcases hev : evalArgs ⟨cx, p, cur⟩ fuel es w [] with ⟨r1, w1⟩
    rw [hev] at h
    have k1 := ih.args cur es w [] r1 w1 K _ hK hw hev
    cases r1 with
    | vals st =>
      simp only [] at h
      cases hB : execPrim cx o [] w1 st with
      | error f => rw [hB] at h; cases h; exact k1
      | ok x =>
        obtain ⟨st', w2⟩ := x
        rw [hB] at h
        cases h
        exact k1.trans (fun hV => hV.congr (fun s _ => by rw [framed_scratch ho cx [] hB]))
    | _ => simp only [] at h; cases h; exact k1
  argsV := by
    intro cur es ks w acc st w1 K A hK hw hks h hV
    cases es with
    | nil =>
      simp only [evalArgs] at h
      cases h
      exact ⟨[], by simp, rfl, fun j _ hj => by cases hj⟩
    | cons e es =>
      simp only [wtRArgs, Bool.and_eq_true] at hw
      simp only [evalArgs] at h
      split at h
      · rename_i vs1 w2 he
        have hl1 := (arity_all cx p fuel).ev cur e w vs1 w2 K _ _ _ hK.callees hw.1 he
        match vs1, hl1 with
        | [x], _ =>
          have hV2 := ih.ev cur e w _ _ K _ _ _ A hK hw.1 he hV
          have hks' : refArgsOk K ks.tail es = true := by
            match ks, hks with
            | [], _ => cases es <;> rfl
            | true :: ks', hks => simp only [refArgsOk, Bool.and_eq_true] at hks; exact hks.2
            | false :: ks', hks => simp only [refArgsOk] at hks; exact hks
          obtain ⟨vs, hvs, hvl, hav⟩ := ih.argsV cur es ks.tail w2 _ st w1 K A hK hw.2 hks' h hV2
          refine ⟨x :: vs, by rw [hvs]; simp, by simp [hvl], ?_⟩
          intro j hj hjl
          cases j with
          | zero =>
            -- the first argument
            match ks, hks, hj with
            | true :: ks', hks, _ =>
              simp only [refArgsOk, Bool.and_eq_true] at hks
              have hsh := hks.1
              cases e with
              | index s =>
                simp only [refArgOk, Bool.and_eq_true, decide_eq_true_eq, Bool.not_eq_true', List.contains_eq_mem,
                  decide_eq_false_iff_not] at hsh
                cases fuel with
                | zero => simp only [eval] at he; cases he
                | succ f' =>
                  simp only [eval] at he
                  cases he
                  exact ⟨s, rfl, hsh.1, by rw [← hK.parAll]; exact hsh.2⟩
              | load v =>
                simp only [refArgOk, List.contains_eq_mem, decide_eq_true_eq] at hsh
                cases fuel with
                | zero => simp only [eval] at he; cases he
                | succ f' =>
                  simp only [eval] at he
                  cases he
                  obtain ⟨g, sdg, hgA, hsdg, hvs'⟩ := hK.ref v hsh
                  obtain ⟨s, h1, h2⟩ := hV g hgA sdg hsdg v hvs'
                  exact ⟨s, by simp [h1], h2⟩
              | _ => simp only [refArgOk] at hsh; cases hsh
          | succ j' =>
            have hj' : ks.tail[j']? = some true := by
              cases ks with
              | nil => cases hj
              | cons k0 ks' => simpa using hj
            obtain ⟨s, hs1, hs2⟩ := hav j' hj' (by simpa using hjl)
            exact ⟨s, by simpa using hs1, hs2⟩
      · exfalso; solve_by_elim

/-- **Valid references.**  Under the by-reference discipline the reference cells of the active
    routines stay valid throughout every evaluation. -/
theorem valid_all (hC : ValCtx p fp dyn T) : ∀ fuel, ValidAll cx p fp dyn T fuel
  | 0 => validAll_zero
  | f + 1 => validAll_succ hC (valid_all hC f)

end Step

end PyTealV.Proofs.C02Gen
