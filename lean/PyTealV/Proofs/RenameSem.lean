/-
  Renaming invariance of the source semantics — the fuel induction over the evaluators.
-/
import PyTealV.Proofs.RenameLemmas
namespace PyTealV.Proofs.Rename
open PyTealV PyTealV.Avm PyTealV.Src PyTealV.Comp PyTealV.Check PyTealV.Models.FragmentR
open PyTealV.Models.Optimizer (framedOps)
open PyTealV.Proofs.C02Spill (getSlot_setSlot)
open PyTealV.Proofs.C02Gen (kindsOf_lookup exec_vloads_u exec_vstores_u arity_all)

/-- operand values by kind: references where a reference is expected, equal values elsewhere -/
inductive KRel (C : RCtx) : List Bool → List Val → List Val → Prop
  | nil (ks : List Bool) : KRel C ks [] []
  | ref {ks : List Bool} {a b : Val} {as bs : List Val} : RefV C a b → KRel C ks as bs → KRel C (true :: ks) (a :: as) (b :: bs)
  | val {ks : List Bool} {a : Val} {as bs : List Val} : KRel C ks as bs → KRel C (false :: ks) (a :: as) (a :: bs)
  | extra {a : Val} {as bs : List Val} : KRel C [] as bs → KRel C [] (a :: as) (a :: bs)

/-- operands by kind: related worlds; on normal completion one value per operand, related by kind -/
def SimK (C : RCtx) (S : Nat → Prop) (ks : List Bool) (n : Nat) (acc acc' : List Val) (x y : Res × World) : Prop :=
  WR C S x.2 y.2 ∧
  match x.1 with
  | .vals st => ∃ vals vals', st = vals.reverse ++ acc ∧ y.1 = .vals (vals'.reverse ++ acc') ∧ KRel C ks vals vals' ∧ vals.length = n
  | r => y.1 = r

/-- the current routine is one of the checked routines -/
def Live (C : RCtx) (cur : Option Nat) : Prop := ∀ c, cur = some c → c ∈ liveSet C.p

/-- the statement, for all five evaluators, at one fuel level -/
structure RenAll (C : RCtx) (fuel : Nat) : Prop where
  ev : ∀ cur e S w w', dOk (C.dk cur) e = true → (∀ v, v ∈ rpOf C.p cur → S v) → Live C cur → (∀ v, v ∈ varsE e → v ∈ C.D) →
    WR C S w w' → Sim C S (eval (C.env cur) fuel e w) (eval (C.env' cur) fuel (renameVars C.f e) w')
  args : ∀ cur es S w w' acc, dOkL (C.dk cur) es = true → (∀ v, v ∈ rpOf C.p cur → S v) → Live C cur → (∀ v, v ∈ varsL es → v ∈ C.D) →
    WR C S w w' → Sim C S (evalArgs (C.env cur) fuel es w acc) (evalArgs (C.env' cur) fuel (renameList C.f es) w' acc)
  argsK : ∀ cur ks es S w w' acc acc', dOkK (C.dk cur) ks es = true → arOk (C.dk cur) es = true →
    (∀ v, v ∈ rpOf C.p cur → S v) → Live C cur → (∀ v, v ∈ varsL es → v ∈ C.D) → WR C S w w' →
    SimK C S ks es.length acc acc' (evalArgs (C.env cur) fuel es w acc) (evalArgs (C.env' cur) fuel (renameList C.f es) w' acc')
  seq : ∀ cur es S w w', dOkL (C.dk cur) es = true → (∀ v, v ∈ rpOf C.p cur → S v) → Live C cur → (∀ v, v ∈ varsL es → v ∈ C.D) →
    WR C S w w' → Sim C S (evalSeq (C.env cur) fuel es w) (evalSeq (C.env' cur) fuel (renameList C.f es) w')
  cond : ∀ cur arms S w w', dOkA (C.dk cur) arms = true → (∀ v, v ∈ rpOf C.p cur → S v) → Live C cur → (∀ v, v ∈ varsA arms → v ∈ C.D) →
    WR C S w w' → Sim C S (evalCond (C.env cur) fuel arms w) (evalCond (C.env' cur) fuel (renameArms C.f arms) w')
  forL : ∀ cur c st b S w w', dOk (C.dk cur) c = true → dOk (C.dk cur) st = true → dOk (C.dk cur) b = true →
    (∀ v, v ∈ rpOf C.p cur → S v) → Live C cur → (∀ v, v ∈ varsE c → v ∈ C.D) → (∀ v, v ∈ varsE st → v ∈ C.D) → (∀ v, v ∈ varsE b → v ∈ C.D) →
    WR C S w w' → Sim C S (evalForLoop (C.env cur) fuel c st b w)
      (evalForLoop (C.env' cur) fuel (renameVars C.f c) (renameVars C.f st) (renameVars C.f b) w')
  op : ∀ cur o es S w w', framedOps.contains o = true → dOkL (C.dk cur) es = true → (∀ v, v ∈ rpOf C.p cur → S v) → Live C cur →
    (∀ v, v ∈ varsL es → v ∈ C.D) → WR C S w w' →
    Sim C S (evalOp (C.env cur) fuel o es w) (evalOp (C.env' cur) fuel o (renameList C.f es) w')

theorem renAll_zero {C : RCtx} : RenAll C 0 where
  ev := by intro cur e S w w' _ _ _ _ hW; simp only [eval]; exact ⟨rfl, hW⟩
  args := by intro cur es S w w' acc _ _ _ _ hW; simp only [evalArgs]; exact ⟨rfl, hW⟩
  argsK := by intro cur ks es S w w' acc acc' _ _ _ _ _ hW; simp only [evalArgs]; exact ⟨hW, rfl⟩
  seq := by intro cur es S w w' _ _ _ _ hW; simp only [evalSeq]; exact ⟨rfl, hW⟩
  cond := by intro cur arms S w w' _ _ _ _ hW; simp only [evalCond]; exact ⟨rfl, hW⟩
  forL := by intro cur c st b S w w' _ _ _ _ _ _ _ _ hW; simp only [evalForLoop]; exact ⟨rfl, hW⟩
  op := by intro cur o es S w w' _ _ _ _ _ hW; simp only [evalOp]; exact ⟨rfl, hW⟩


theorem Sim.elim {C : RCtx} {S : Nat → Prop} {x y : Res × World} (h : Sim C S x y) :
    ∃ r w1 w1', x = (r, w1) ∧ y = (r, w1') ∧ WR C S w1 w1' := by
  obtain ⟨r, w1⟩ := x
  obtain ⟨r', w1'⟩ := y
  obtain ⟨h1, h2⟩ := h
  simp only at h1 h2
  subst h1
  exact ⟨_, _, _, rfl, rfl, h2⟩

/-- all shapes of a result that the evaluators distinguish -/
macro "rescases" r:ident : tactic =>
  `(tactic| rcases $r:ident with (_ | ⟨(_ | _), (_ | ⟨_, _⟩)⟩) | _ | _ | _ | _ | _)

theorem SimK.push {C : RCtx} {S : Nat → Prop} {ks ks' : List Bool} {n : Nat} {acc acc' : List Val} {a b : Val} {x y : Res × World}
    (h : SimK C S ks n (a :: acc) (b :: acc') x y)
    (hk : ∀ as bs, KRel C ks as bs → KRel C ks' (a :: as) (b :: bs)) : SimK C S ks' (n + 1) acc acc' x y := by
  obtain ⟨r, w1⟩ := x
  obtain ⟨hW, hm⟩ := h
  refine ⟨hW, ?_⟩
  cases r with
  | vals st =>
    obtain ⟨vals, vals', h1, h2, h3, h4⟩ := hm
    exact ⟨a :: vals, b :: vals', by simp [h1], by simp [h2], hk _ _ h3, by simp [h4]⟩
  | _ => exact hm

theorem SimK.elim {C : RCtx} {S : Nat → Prop} {ks : List Bool} {n : Nat} {acc acc' : List Val} {x y : Res × World}
    (h : SimK C S ks n acc acc' x y) :
    ∃ w1 w1', WR C S w1 w1' ∧
      ((∃ vals vals', x = (.vals (vals.reverse ++ acc), w1) ∧ y = (.vals (vals'.reverse ++ acc'), w1') ∧
          KRel C ks vals vals' ∧ vals.length = n) ∨
       (∃ r, (∀ st, r ≠ .vals st) ∧ x = (r, w1) ∧ y = (r, w1'))) := by
  obtain ⟨r, w1⟩ := x
  obtain ⟨r', w1'⟩ := y
  obtain ⟨hW, hm⟩ := h
  refine ⟨w1, w1', hW, ?_⟩
  cases r with
  | vals st =>
    obtain ⟨vals, vals', h1, h2, h3, h4⟩ := hm
    simp only at h1 h2
    subst h1 h2
    exact .inl ⟨vals, vals', rfl, rfl, h3, h4⟩
  | _ =>
    simp only at hm
    subst hm
    refine .inr ⟨_, ?_, rfl, rfl⟩
    intro st h; cases h

theorem KRel.length {C : RCtx} {ks : List Bool} {as bs : List Val} (h : KRel C ks as bs) : bs.length = as.length := by
  induction h with
  | nil => rfl
  | ref _ _ ih => simp [ih]
  | val _ ih => simp [ih]
  | extra _ ih => simp [ih]

/-- without a reference position: equal values -/
theorem KRel.refl_plain {C : RCtx} : ∀ (ks : List Bool) (as : List Val), ks.any id = false → KRel C ks as as
  | ks, [], _ => .nil ks
  | [], a :: as, h => .extra (KRel.refl_plain [] as h)
  | true :: ks, a :: as, h => by simp at h
  | false :: ks, a :: as, h => .val (KRel.refl_plain ks as (by simpa using h))

/-- binding the parameters: the worlds stay related, and afterwards every by-reference parameter
    cell of the routine holds a reference (references that were there before stay) -/
theorem bind_ok {C : RCtx} (hok : ROk C) {S : Nat → Prop} :
    ∀ (ps : List (ParamKind × Var)) (vals vals' : List Val),
      KRel C (ps.map (fun kv => kv.1 == .ref)) vals vals' → vals.length = ps.length →
      (∀ kv, kv ∈ ps → kv.2 ∈ C.D ∧ (kv.1 = .val → kv.2 ∉ C.R) ∧ (kv.1 = .ref → kv.2 ∈ C.R)) →
      ∀ {sc sc' : Scratch}, ScR C S sc sc' →
        ScR C S (bindSc ps vals sc) (bindSc (ps.map (fun kv => (kv.1, C.f kv.2))) vals' sc') ∧
        ∀ v, v ∈ C.D → v ∈ C.R → (RefAt C sc sc' v ∨ (ParamKind.ref, v) ∈ ps) →
          RefAt C (bindSc ps vals sc) (bindSc (ps.map (fun kv => (kv.1, C.f kv.2))) vals' sc') v
  | [], vals, vals', _, hl, _, sc, sc', h => by
    cases vals with
    | nil => exact ⟨by simpa [bindSc] using h, fun v _ _ hh => by simpa [bindSc] using hh⟩
    | cons _ _ => simp at hl
  | (k, v0) :: ps, vals, vals', hk, hl, hps, sc, sc', h => by
    cases vals with
    | nil => simp at hl
    | cons a as =>
      have hl' : as.length = ps.length := by simpa using hl
      have hps' : ∀ kv, kv ∈ ps → kv.2 ∈ C.D ∧ (kv.1 = .val → kv.2 ∉ C.R) ∧ (kv.1 = .ref → kv.2 ∈ C.R) :=
        fun kv hkv => hps kv (List.mem_cons_of_mem _ hkv)
      obtain ⟨hv0D, hv0val, hv0ref⟩ := hps (k, v0) (List.mem_cons_self ..)
      simp only at hv0D hv0val hv0ref
      -- after the first write
      have step : ∀ b, Cell C S v0 a b → (k = .ref → RefV C a b) → ∀ bs, KRel C (ps.map (fun kv => kv.1 == .ref)) as bs →
          ScR C S (bindSc ps as (setSlot sc v0 a)) (bindSc (ps.map (fun kv => (kv.1, C.f kv.2))) bs (setSlot sc' (C.f v0) b)) ∧
          ∀ v, v ∈ C.D → v ∈ C.R → (RefAt C sc sc' v ∨ (ParamKind.ref, v) ∈ (k, v0) :: ps) →
            RefAt C (bindSc ps as (setSlot sc v0 a)) (bindSc (ps.map (fun kv => (kv.1, C.f kv.2))) bs (setSlot sc' (C.f v0) b)) v := by
        intro b hc hkr bs hrest
        have h1 := h.set hok hv0D hc
        obtain ⟨ih1, ih2⟩ := bind_ok hok ps as bs hrest hl' hps' h1
        refine ⟨ih1, fun v hvD hvR hh => ih2 v hvD hvR ?_⟩
        by_cases hvv : v = v0
        · subst hvv
          rcases hh with hh | hh
          · by_cases hkk : k = .ref
            · left; unfold RefAt; rw [getSlot_setSlot, getSlot_setSlot, if_pos rfl, if_pos rfl]; exact hkr hkk
            · have : k = .val := by cases k <;> simp_all
              exact absurd hvR (hv0val this)
          · simp only [List.mem_cons, Prod.mk.injEq] at hh
            rcases hh with ⟨hk1, _⟩ | hh
            · left; unfold RefAt; rw [getSlot_setSlot, getSlot_setSlot, if_pos rfl, if_pos rfl]; exact hkr hk1.symm
            · exact .inr hh
        · have hne : C.f v ≠ C.f v0 := fun e => hvv (hok.inj v hvD v0 hv0D e)
          rcases hh with hh | hh
          · left; unfold RefAt at hh ⊢; rw [getSlot_setSlot, getSlot_setSlot, if_neg hvv, if_neg hne]; exact hh
          · simp only [List.mem_cons, Prod.mk.injEq] at hh
            rcases hh with ⟨_, hk2⟩ | hh
            · exact absurd hk2 hvv
            · exact .inr hh
      cases k with
      | ref =>
        have hb : (ParamKind.ref == ParamKind.ref) = true := rfl
        simp only [List.map_cons, hb] at hk
        cases hk with
        | ref hab hrest =>
          simp only [bindSc, List.map_cons, List.zip_cons_cons, List.foldl_cons] at step ⊢
          exact step _ (Cell.ref hab (hv0ref rfl)) (fun _ => hab) _ hrest
      | val =>
        have hb : (ParamKind.val == ParamKind.ref) = false := rfl
        simp only [List.map_cons, hb] at hk
        cases hk with
        | val hrest =>
          simp only [bindSc, List.map_cons, List.zip_cons_cons, List.foldl_cons] at step ⊢
          exact step _ (Cell.plain (hv0val rfl) _) (fun h => by cases h) _ hrest

/-- the end of a call -/
theorem finish_sim {C : RCtx} {S : Nat → Prop} {sd : SubDef} {saved saved' : List (Var × Val)} (r : Res) {w3 w3' : World}
    (hW : WR C S w3 w3') (hR : WR C S (restoreW saved w3) (restoreW saved' w3')) :
    Sim C S (finishCall sd saved r w3) (finishCall (renameSub C.f sd) saved' r w3') := by
  have hret : (renameSub C.f sd).hasRet = sd.hasRet := rfl
  unfold finishCall
  rw [hret]
  rcases r with (_ | ⟨_, (_ | ⟨_, _⟩)⟩) | _ | _ | (_ | _) | _ | _ <;> simp only [] <;>
    first
    | exact ⟨rfl, hW⟩
    | (split <;> first | exact ⟨rfl, hW⟩ | exact ⟨rfl, hR⟩)

@[simp] theorem dk_R (C : RCtx) (cur : Option Nat) : (C.dk cur).R = C.R := rfl
@[simp] theorem dk_rp (C : RCtx) (cur : Option Nat) : (C.dk cur).rp = rpOf C.p cur := rfl
@[simp] theorem dk_kinds (C : RCtx) (cur : Option Nat) : (C.dk cur).kinds = kindsOf C.p := rfl
@[simp] theorem dk_f (C : RCtx) (cur : Option Nat) : (C.dk cur).f = C.f := rfl

@[simp] theorem env_cx (C : RCtx) (cur : Option Nat) : (C.env cur).cx = C.cx := rfl
@[simp] theorem envR_cx (C : RCtx) (cur : Option Nat) : (C.env' cur).cx = C.cx := rfl
@[simp] theorem env_prog (C : RCtx) (cur : Option Nat) : (C.env cur).prog = C.p := rfl
@[simp] theorem envR_prog (C : RCtx) (cur : Option Nat) : (C.env' cur).prog = C.p' := rfl
@[simp] theorem env_cur (C : RCtx) (cur : Option Nat) : (C.env cur).cur = cur := rfl
@[simp] theorem envR_cur (C : RCtx) (cur : Option Nat) : (C.env' cur).cur = cur := rfl

/-- a reference operand evaluates to a reference and its renamed form (or runs out of fuel) -/
theorem refArg_eval {C : RCtx} {S : Nat → Prop} {cur : Option Nat} {e : Expr} (hr : refArg (C.dk cur) e = true)
    (hS : ∀ v, v ∈ rpOf C.p cur → S v) (hv : ∀ v, v ∈ varsE e → v ∈ C.D) {w w' : World} (hW : WR C S w w') (fuel : Nat) :
    (eval (C.env cur) fuel e w = (.fail (.unmodelled "fuel"), w) ∧
      eval (C.env' cur) fuel (renameVars C.f e) w' = (.fail (.unmodelled "fuel"), w')) ∨
    ∃ a b, RefV C a b ∧ eval (C.env cur) fuel e w = (.vals [a], w) ∧ eval (C.env' cur) fuel (renameVars C.f e) w' = (.vals [b], w') := by
  cases fuel with
  | zero => left; simp only [eval, and_self]
  | succ n =>
    right
    cases e with
    | index s =>
      simp only [refArg, dk_R, Bool.not_eq_true', List.contains_eq_mem, decide_eq_false_iff_not] at hr
      exact ⟨_, _, ⟨s, hv s (by simp [varsE]), hr, rfl, rfl⟩, by simp only [eval], by simp only [eval, renameVars]⟩
    | load v =>
      simp only [refArg, dk_rp, List.contains_eq_mem, decide_eq_true_eq] at hr
      exact ⟨_, _, hW.sc.refAt (hv v (by simp [varsE])) (rpOf_mem hr) (hS v hr), by simp only [eval], by simp only [eval, renameVars]⟩
    | _ => simp [refArg] at hr

theorem renameSub_params (f : Nat → Nat) (sd : SubDef) :
    (renameSub f sd).params = sd.params.map (fun kv => (kv.1, f kv.2)) := rfl

theorem params_facts {C : RCtx} (hok : ROk C) {g : Nat} {sd : SubDef} (hsd : findSub C.p g = some sd) (hg : g ∈ liveSet C.p) :
    ∀ kv, kv ∈ sd.params → kv.2 ∈ C.D ∧ (kv.1 = .val → kv.2 ∉ C.R) ∧ (kv.1 = .ref → kv.2 ∈ C.R) := by
  intro kv hkv
  have hmem := findSub_mem hsd
  have hid : sd.id ∈ liveSet C.p := by rw [findSub_id hsd]; exact hg
  refine ⟨mem_varsP_of_sub hmem hid (by simp only [varsSub, List.mem_append, List.mem_map]; exact .inr ⟨kv, hkv, rfl⟩), ?_, ?_⟩
  · intro hk
    refine hok.vals sd hmem hid kv.2 ?_
    simp only [valSlots, List.mem_map, List.mem_filter]
    exact ⟨kv, ⟨hkv, by rw [hk]; rfl⟩, rfl⟩
  · intro hk
    refine mem_allRefSlots hmem ?_
    simp only [refSlots, List.mem_map, List.mem_filter]
    exact ⟨kv, ⟨hkv, by rw [hk]; rfl⟩, rfl⟩

theorem refSlots_mem_params {sd : SubDef} {v : Nat} (h : v ∈ refSlots sd) : (ParamKind.ref, v) ∈ sd.params := by
  simp only [refSlots, List.mem_map, List.mem_filter] at h
  obtain ⟨⟨k, u⟩, ⟨hkv, hk⟩, rfl⟩ := h
  cases k with
  | ref => exact hkv
  | val => cases hk

section Succ
variable {C : RCtx} {fuel : Nat}

theorem ev_succ (hok : ROk C) (ih : RenAll C fuel) : ∀ cur e S w w', dOk (C.dk cur) e = true → (∀ v, v ∈ rpOf C.p cur → S v) → Live C cur →
    (∀ v, v ∈ varsE e → v ∈ C.D) →
    WR C S w w' → Sim C S (eval (C.env cur) (fuel + 1) e w) (eval (C.env' cur) (fuel + 1) (renameVars C.f e) w') := by
  intro cur e S w w' hd hS hL hv hW
  cases e with
  | int n => simp only [eval, renameVars]; exact ⟨rfl, hW⟩
  | bytes b => simp only [eval, renameVars]; exact ⟨rfl, hW⟩
  | brk => simp only [eval, renameVars]; exact ⟨rfl, hW⟩
  | cont => simp only [eval, renameVars]; exact ⟨rfl, hW⟩
  | err => simp only [eval, renameVars]; exact ⟨rfl, hW⟩
  | index v => simp only [dOk] at hd; cases hd
  | load v =>
    simp only [dOk, dk_R, Bool.not_eq_true', List.contains_eq_mem, decide_eq_false_iff_not] at hd
    simp only [eval, renameVars]
    have hc := hW.sc v (hv v (by simp [varsE]))
    unfold Cell at hc
    rw [if_neg hd] at hc
    rw [hc]
    exact ⟨rfl, hW⟩
  | store v e =>
    simp only [dOk, dk_R, Bool.and_eq_true, Bool.not_eq_true', List.contains_eq_mem, decide_eq_false_iff_not] at hd
    simp only [eval, renameVars]
    obtain ⟨r, w1, w1', hx, hy, hW1⟩ := (ih.ev cur e S w w' hd.2 hS hL (fun u hu => hv u (by simp [varsE, hu])) hW).elim
    rw [hx, hy]
    rescases r <;> first
      | exact ⟨rfl, hW1⟩
      | exact ⟨rfl, hW1.withSc (hW1.sc.set hok (hv v (by simp [varsE])) (Cell.plain hd.1 _))⟩
  | ite c t e =>
    cases e with
    | none =>
      simp only [dOk, Bool.and_eq_true] at hd
      simp only [eval, renameVars]
      obtain ⟨r, w1, w1', hx, hy, hW1⟩ := (ih.ev cur c S w w' hd.1 hS hL (fun u hu => hv u (by simp [varsE, hu])) hW).elim
      rw [hx, hy]
      rescases r <;> try exact ⟨rfl, hW1⟩
      rename_i n
      simp only []
      split
      · exact ih.ev cur t S w1 w1' hd.2 hS hL (fun u hu => hv u (by simp [varsE, hu])) hW1
      · exact ⟨rfl, hW1⟩
    | some e =>
      simp only [dOk, Bool.and_eq_true] at hd
      simp only [eval, renameVars]
      obtain ⟨r, w1, w1', hx, hy, hW1⟩ := (ih.ev cur c S w w' hd.1.1 hS hL (fun u hu => hv u (by simp [varsE, hu])) hW).elim
      rw [hx, hy]
      rescases r <;> try exact ⟨rfl, hW1⟩
      rename_i n
      simp only []
      split
      · exact ih.ev cur t S w1 w1' hd.1.2 hS hL (fun u hu => hv u (by simp [varsE, hu])) hW1
      · exact ih.ev cur e S w1 w1' hd.2 hS hL (fun u hu => hv u (by simp [varsE, hu])) hW1
  | assert_ c =>
    simp only [dOk] at hd
    simp only [eval, renameVars]
    obtain ⟨r, w1, w1', hx, hy, hW1⟩ := (ih.ev cur c S w w' hd hS hL (fun u hu => hv u (by simp [varsE, hu])) hW).elim
    rw [hx, hy]
    rescases r <;> try exact ⟨rfl, hW1⟩
    simp only []
    split <;> exact ⟨rfl, hW1⟩
  | ret e =>
    cases e with
    | none => simp only [eval, renameVars]; exact ⟨rfl, hW⟩
    | some e =>
      simp only [dOk] at hd
      simp only [eval, renameVars]
      obtain ⟨r, w1, w1', hx, hy, hW1⟩ := (ih.ev cur e S w w' hd hS hL (fun u hu => hv u (by simp [varsE, hu])) hW).elim
      rw [hx, hy]
      rescases r <;> exact ⟨rfl, hW1⟩
  | exit e =>
    simp only [dOk] at hd
    simp only [eval, renameVars]
    obtain ⟨r, w1, w1', hx, hy, hW1⟩ := (ih.ev cur e S w w' hd hS hL (fun u hu => hv u (by simp [varsE, hu])) hW).elim
    rw [hx, hy]
    rescases r <;> exact ⟨rfl, hW1⟩
  | note e =>
    cases e with
    | none => simp only [eval, renameVars]; exact ⟨rfl, hW⟩
    | some e =>
      simp only [dOk] at hd
      simp only [eval, renameVars]
      exact ih.ev cur e S w w' hd hS hL (fun u hu => hv u (by simp [varsE, hu])) hW
  | nonce b e =>
    simp only [dOk] at hd
    simp only [eval, renameVars]
    exact ih.ev cur e S w w' hd hS hL (fun u hu => hv u (by simp [varsE, hu])) hW
  | seq es =>
    simp only [dOk] at hd
    simp only [eval, renameVars]
    exact ih.seq cur es S w w' hd hS hL (fun u hu => hv u (by simp [varsE, hu])) hW
  | cond arms =>
    simp only [dOk] at hd
    simp only [eval, renameVars]
    exact ih.cond cur arms S w w' hd hS hL (fun u hu => hv u (by simp [varsE, hu])) hW
  | substring a b c =>
    simp only [dOk, Bool.and_eq_true] at hd
    simp only [eval, renameVars]
    have := ih.op cur "substring3" [a, b, c] S w w' (by decide) (by simp [dOkL, hd.1.1, hd.1.2, hd.2]) hS hL
      (fun u hu => hv u (by simpa [varsE, varsL, or_assoc] using hu)) hW
    simpa only [renameList] using this
  | extract a b c =>
    simp only [dOk, Bool.and_eq_true] at hd
    simp only [eval, renameVars]
    have := ih.op cur "extract3" [a, b, c] S w w' (by decide) (by simp [dOkL, hd.1.1, hd.1.2, hd.2]) hS hL
      (fun u hu => hv u (by simpa [varsE, varsL, or_assoc] using hu)) hW
    simpa only [renameList] using this
  | suffix a b =>
    simp only [dOk, Bool.and_eq_true] at hd
    simp only [eval, renameVars]
    have := ih.op cur "suffix" [a, b] S w w' (by decide) (by simp [dOkL, hd.1, hd.2]) hS hL
      (fun u hu => hv u (by simpa [varsE, varsL] using hu)) hW
    simpa only [renameList] using this
  | while_ c b =>
    have hd0 := hd
    simp only [dOk, Bool.and_eq_true] at hd
    have again : ∀ w2 w2', WR C S w2 w2' → Sim C S (eval (C.env cur) fuel (.while_ c b) w2)
        (eval (C.env' cur) fuel (.while_ (renameVars C.f c) (renameVars C.f b)) w2') := fun w2 w2' h => by
      have := ih.ev cur (.while_ c b) S w2 w2' hd0 hS hL hv h
      simpa only [renameVars] using this
    simp only [eval, renameVars]
    obtain ⟨r, w1, w1', hx, hy, hW1⟩ := (ih.ev cur c S w w' hd.1 hS hL (fun u hu => hv u (by simp [varsE, hu])) hW).elim
    rw [hx, hy]
    rescases r <;> first | exact ⟨rfl, hW1⟩ | exact again _ _ hW1 | skip
    simp only []
    split
    · exact ⟨rfl, hW1⟩
    · obtain ⟨r2, w2, w2', hx2, hy2, hW2⟩ := (ih.ev cur b S w1 w1' hd.2 hS hL (fun u hu => hv u (by simp [varsE, hu])) hW1).elim
      rw [hx2, hy2]
      rcases r2 with _ | _ | _ | _ | _ | _ <;> first | exact ⟨rfl, hW2⟩ | exact again _ _ hW2
  | for_ i c st b =>
    simp only [dOk, Bool.and_eq_true] at hd
    have loop : ∀ w2 w2', WR C S w2 w2' → Sim C S (evalForLoop (C.env cur) fuel c st b w2)
        (evalForLoop (C.env' cur) fuel (renameVars C.f c) (renameVars C.f st) (renameVars C.f b) w2') := fun w2 w2' h =>
      ih.forL cur c st b S w2 w2' hd.1.1.2 hd.1.2 hd.2 hS hL (fun u hu => hv u (by simp [varsE, hu]))
        (fun u hu => hv u (by simp [varsE, hu])) (fun u hu => hv u (by simp [varsE, hu])) h
    simp only [eval, renameVars]
    obtain ⟨r, w1, w1', hx, hy, hW1⟩ := (ih.ev cur i S w w' hd.1.1.1 hS hL (fun u hu => hv u (by simp [varsE, hu])) hW).elim
    rw [hx, hy]
    rcases r with _ | _ | _ | _ | _ | _ <;> first | exact ⟨rfl, hW1⟩ | exact loop _ _ hW1 | skip
    simp only []
    obtain ⟨r2, w2, w2', hx2, hy2, hW2⟩ := (ih.ev cur st S w1 w1' hd.1.2 hS hL (fun u hu => hv u (by simp [varsE, hu])) hW1).elim
    rw [hx2, hy2]
    rcases r2 with _ | _ | _ | _ | _ | _ <;> first | exact ⟨rfl, hW2⟩ | exact loop _ _ hW2
  | wideRatio ns ds =>
    simp only [dOk, Bool.and_eq_true] at hd
    simp only [renameVars, eval_wideRatio, renameList_length]
    have := ih.args cur (ns ++ ds) S w w' [] (by rw [dOkL_append, hd.1, hd.2]; rfl) hS hL
      (fun u hu => hv u (by simpa [varsE, varsL_append] using hu)) hW
    rw [renameList_append] at this
    obtain ⟨r, w1, w1', hx, hy, hW1⟩ := this.elim
    rw [hx, hy]
    cases r <;> exact ⟨rfl, hW1⟩
  | multi op imms args outs =>
    simp only [dOk, dk_R, Bool.and_eq_true, List.all_eq_true, Bool.not_eq_true', List.contains_eq_mem,
      decide_eq_false_iff_not] at hd
    obtain ⟨⟨hop, houts⟩, hargs⟩ := hd
    replace hop : framedOps.contains op = true := by simpa using hop
    simp only [eval, renameVars, env_cx, envR_cx]
    obtain ⟨r, w1, w1', hx, hy, hW1⟩ := (ih.args cur args S w w' [] hargs hS hL (fun u hu => hv u (by simp [varsE, hu])) hW).elim
    rw [hx, hy]
    cases r with
    | vals st =>
      simp only []
      have hex := exec_framed hop imms hW1 st
      cases hB : execPrim C.cx op imms w1 st with
      | error e =>
        rw [hB] at hex
        simp only at hex
        rw [hex]
        exact ⟨rfl, hW1⟩
      | ok x =>
        obtain ⟨st', w2⟩ := x
        rw [hB] at hex
        obtain ⟨w2', hB', hW2⟩ := hex
        rw [hB']
        simp only [List.length_map]
        split
        · refine ⟨rfl, hW2.withSc ?_⟩
          rw [← List.map_reverse]
          exact ScR.setZip hok outs.reverse st'
            (fun u hu => ⟨hv u (by simp [varsE, List.mem_reverse.mp hu]), houts u (List.mem_reverse.mp hu)⟩) hW2.sc
        · exact ⟨rfl, hW2⟩
    | _ => exact ⟨rfl, hW1⟩
  | prim op imms args =>
    simp only [dOk] at hd
    simp only [eval, renameVars, env_cx, envR_cx]
    by_cases hop : framedOps.contains op = true
    · rw [if_pos hop] at hd
      obtain ⟨r, w1, w1', hx, hy, hW1⟩ := (ih.args cur args S w w' [] hd hS hL (fun u hu => hv u (by simp [varsE, hu])) hW).elim
      rw [hx, hy]
      cases r with
      | vals st =>
        simp only []
        have hex := exec_framed hop imms hW1 st
        cases hB : execPrim C.cx op imms w1 st with
        | error e =>
          rw [hB] at hex
          simp only at hex
          rw [hex]
          exact ⟨rfl, hW1⟩
        | ok x =>
          obtain ⟨st', w2⟩ := x
          rw [hB] at hex
          obtain ⟨w2', hB', hW2⟩ := hex
          rw [hB']
          exact ⟨rfl, hW2⟩
      | _ => exact ⟨rfl, hW1⟩
    · rw [if_neg hop] at hd
      split at hd
      · -- vloads
        rename_i hvl
        have hvl' : op = "vloads" := by simpa using hvl
        subst hvl'
        simp only [Bool.and_eq_true, beq_iff_eq] at hd
        obtain ⟨w1, w1', hW1, hc⟩ := (ih.argsK cur [true] args S w w' [] [] hd.1.1 hd.1.2 hS hL
          (fun u hu => hv u (by simp [varsE, hu])) hW).elim
        rcases hc with ⟨vals, vals', hx, hy, hk, hl⟩ | ⟨r, hr, hx, hy⟩
        · rw [hx, hy]
          rw [hd.2] at hl
          cases hk with
          | nil => cases hl
          | ref hab hrest =>
            cases hrest with
            | nil =>
              obtain ⟨s, hsD, hsR, rfl, rfl⟩ := hab
              simp only [List.reverse_cons, List.reverse_nil, List.nil_append, List.append_nil]
              rw [exec_vloads_u, exec_vloads_u, hW1.sc.plainAt hsD hsR]
              exact ⟨rfl, hW1⟩
            | _ => simp at hl
        · rw [hx, hy]
          cases r with
          | vals st => exact absurd rfl (hr st)
          | _ => exact ⟨rfl, hW1⟩
      · split at hd
        · -- vstores
          rename_i _ hvs
          have hvs' : op = "vstores" := by simpa using hvs
          subst hvs'
          simp only [Bool.and_eq_true, beq_iff_eq] at hd
          obtain ⟨w1, w1', hW1, hc⟩ := (ih.argsK cur [true, false] args S w w' [] [] hd.1.1 hd.1.2 hS hL
            (fun u hu => hv u (by simp [varsE, hu])) hW).elim
          rcases hc with ⟨vals, vals', hx, hy, hk, hl⟩ | ⟨r, hr, hx, hy⟩
          · rw [hx, hy]
            rw [hd.2] at hl
            cases hk with
            | nil => cases hl
            | ref hab hrest =>
              cases hrest with
              | nil => cases hl
              | val hrest2 =>
                cases hrest2 with
                | nil =>
                  obtain ⟨s, hsD, hsR, rfl, rfl⟩ := hab
                  simp only [List.reverse_cons, List.reverse_nil, List.nil_append, List.append_nil, List.cons_append]
                  rw [exec_vstores_u, exec_vstores_u]
                  exact ⟨rfl, hW1.withSc (hW1.sc.set hok hsD (Cell.plain hsR _))⟩
                | _ => simp at hl
          · rw [hx, hy]
            cases r with
            | vals st => exact absurd rfl (hr st)
            | _ => exact ⟨rfl, hW1⟩
        · cases hd
  | call g args =>
    simp only [dOk, dk_kinds, kindsOf_lookup] at hd
    have hvargs : ∀ v, v ∈ varsL args → v ∈ C.D := fun u hu => hv u (by simp [varsE, hu])
    cases hsd : findSub C.p g with
    | none =>
      rw [renameVars, eval_call_none _ _ _ _ _ (by simpa using hsd),
        eval_call_none _ _ _ _ _ (by simp [RCtx.p', findSub_rename, hsd])]
      exact ⟨rfl, hW⟩
    | some sd =>
      rw [hsd] at hd
      simp only [Option.map_some, Bool.and_eq_true] at hd
      have hg : g ∈ liveSet C.p := by simpa [RCtx.dk, dkOf] using hd.1
      replace hd := hd.2
      have hid : sd.id ∈ liveSet C.p := by rw [findSub_id hsd]; exact hg
      have hsd' : findSub (C.env' cur).prog g = some (renameSub C.f sd) := by simp [RCtx.p', findSub_rename, hsd]
      rw [renameVars, eval_call _ _ _ _ _ sd (by simpa using hsd), eval_call _ _ _ _ _ _ hsd']
      have hargs : ∃ w1 w1', WR C S w1 w1' ∧
          ((∃ vals vals', evalArgs (C.env cur) fuel args w [] = (.vals vals.reverse, w1) ∧
              evalArgs (C.env' cur) fuel (renameList C.f args) w' [] = (.vals vals'.reverse, w1') ∧
              KRel C (sd.params.map (fun kv => kv.1 == .ref)) vals vals') ∨
           (∃ r, (∀ st, r ≠ .vals st) ∧ evalArgs (C.env cur) fuel args w [] = (r, w1) ∧
              evalArgs (C.env' cur) fuel (renameList C.f args) w' [] = (r, w1'))) := by
        by_cases hany : (sd.params.map (fun kv => kv.1 == .ref)).any id = true
        · rw [if_pos hany] at hd
          simp only [Bool.and_eq_true] at hd
          obtain ⟨w1, w1', hW1, hc⟩ := (ih.argsK cur _ args S w w' [] [] hd.1 hd.2 hS hL hvargs hW).elim
          refine ⟨w1, w1', hW1, ?_⟩
          rcases hc with ⟨vals, vals', hx, hy, hk, _⟩ | hc
          · exact .inl ⟨vals, vals', by simpa using hx, by simpa using hy, hk⟩
          · exact .inr hc
        · rw [if_neg hany] at hd
          obtain ⟨r, w1, w1', hx, hy, hW1⟩ := (ih.args cur args S w w' [] hd hS hL hvargs hW).elim
          refine ⟨w1, w1', hW1, ?_⟩
          cases r with
          | vals st =>
            exact .inl ⟨st.reverse, st.reverse, by simpa using hx, by simpa using hy,
              KRel.refl_plain _ _ (by simpa using hany)⟩
          | _ => exact .inr ⟨_, (fun st h => by cases h), hx, hy⟩
      obtain ⟨w1, w1', hW1, hc⟩ := hargs
      rcases hc with ⟨vals, vals', hx, hy, hk⟩ | ⟨r, hr, hx, hy⟩
      · rw [hx, hy]
        simp only [List.reverse_reverse]
        have hlen := hk.length
        have hpl : (renameSub C.f sd).params.length = sd.params.length := by simp [renameSub_params]
        by_cases hl : vals.length = sd.params.length
        · rw [if_neg (by simpa using hl), if_neg (by rw [hlen, hpl]; simpa using hl)]
          obtain ⟨hb1, hb2⟩ := bind_ok hok sd.params vals vals' hk hl (params_facts hok hsd hg) hW1.sc
          have hW2 : WR C (fun v => S v ∨ v ∈ refSlots sd)
              { w1 with scratch := bindSc sd.params vals w1.scratch }
              { w1' with scratch := bindSc (renameSub C.f sd).params vals' w1'.scratch } := by
            have h0 := hW1.withSc hb1
            exact ⟨h0.rest, h0.sc.strengthen (fun v hvD hvR hT => hb2 v hvD hvR (.inr (refSlots_mem_params hT)))⟩
          have hbody := ih.ev (some g) sd.body _ _ _ (hok.subs g sd hg hsd)
            (fun v hvr => .inr (by simpa [rpOf, hsd] using hvr)) (fun c hc => by cases hc; exact hg)
            (fun v hvb => mem_varsP_of_sub (findSub_mem hsd) hid (by simp [varsSub, hvb])) hW2
          obtain ⟨r3, w3, w3', hx3, hy3, hW3⟩ := hbody.elim
          have hW3' : WR C S w3 w3' := hW3.weaken (fun v hs => .inl hs)
          have e1 : ({ C.env cur with cur := some g } : Env) = C.env (some g) := rfl
          have e2 : ({ C.env' cur with cur := some g } : Env) = C.env' (some g) := rfl
          have e3 : (renameSub C.f sd).body = renameVars C.f sd.body := rfl
          rw [e1, e2, e3, hx3, hy3]
          simp only [env_prog, envR_prog, env_cur, envR_cur, RCtx.p', callerLocals_rename]
          refine finish_sim r3 hW3' ?_
          unfold restoreW
          exact hW3'.withSc (ScR.restore hok hW1.sc _ (fun v hvc => callerLocals_mem hL hvc) hW3'.sc)
        · rw [if_pos (by simpa using hl), if_pos (by rw [hlen, hpl]; simpa using hl)]
          exact ⟨rfl, hW1⟩
      · rw [hx, hy]
        cases r with
        | vals st => exact absurd rfl (hr st)
        | _ => exact ⟨rfl, hW1⟩


theorem args_succ (ih : RenAll C fuel) : ∀ cur es S w w' acc, dOkL (C.dk cur) es = true → (∀ v, v ∈ rpOf C.p cur → S v) → Live C cur →
    (∀ v, v ∈ varsL es → v ∈ C.D) → WR C S w w' →
    Sim C S (evalArgs (C.env cur) (fuel + 1) es w acc) (evalArgs (C.env' cur) (fuel + 1) (renameList C.f es) w' acc) := by
  intro cur es S w w' acc hd hS hL hv hW
  cases es with
  | nil => simp only [evalArgs, renameList]; exact ⟨rfl, hW⟩
  | cons e es =>
    simp only [dOkL, Bool.and_eq_true] at hd
    simp only [evalArgs, renameList]
    obtain ⟨r, w1, w1', hx, hy, hW1⟩ := (ih.ev cur e S w w' hd.1 hS hL (fun u hu => hv u (by simp [varsL, hu])) hW).elim
    rw [hx, hy]
    cases r with
    | vals vs => exact ih.args cur es S w1 w1' _ hd.2 hS hL (fun u hu => hv u (by simp [varsL, hu])) hW1
    | _ => exact ⟨rfl, hW1⟩

theorem argsK_succ (ih : RenAll C fuel) : ∀ cur ks es S w w' acc acc', dOkK (C.dk cur) ks es = true → arOk (C.dk cur) es = true →
    (∀ v, v ∈ rpOf C.p cur → S v) → Live C cur → (∀ v, v ∈ varsL es → v ∈ C.D) → WR C S w w' →
    SimK C S ks es.length acc acc' (evalArgs (C.env cur) (fuel + 1) es w acc)
      (evalArgs (C.env' cur) (fuel + 1) (renameList C.f es) w' acc') := by
  intro cur ks es S w w' acc acc' hd ha hS hL hv hW
  cases es with
  | nil =>
    simp only [evalArgs, renameList]
    exact ⟨hW, [], [], by simp, by simp, .nil ks, rfl⟩
  | cons e es =>
    simp only [arOk, renameList, wtRArgs, Bool.and_eq_true, dk_f] at ha
    have ha2 : arOk (C.dk cur) es = true := ha.2
    have hve : ∀ v, v ∈ varsE e → v ∈ C.D := fun u hu => hv u (by simp [varsL, hu])
    have hves : ∀ v, v ∈ varsL es → v ∈ C.D := fun u hu => hv u (by simp [varsL, hu])
    simp only [evalArgs, renameList, List.length_cons]
    -- a plain operand: one value (arity typing of the renamed operand), equal on both sides
    have plain : dOk (C.dk cur) e = true → ∀ ks0 ks1, dOkK (C.dk cur) ks0 es = true →
        (∀ a as bs, KRel C ks0 as bs → KRel C ks1 (a :: as) (a :: bs)) →
        SimK C S ks1 (es.length + 1) acc acc'
          (match eval (C.env cur) fuel e w with
           | (.vals vs, w1) => evalArgs (C.env cur) fuel es w1 (vs ++ acc)
           | r => r)
          (match eval (C.env' cur) fuel (renameVars C.f e) w' with
           | (.vals vs, w1) => evalArgs (C.env' cur) fuel (renameList C.f es) w1 (vs ++ acc')
           | r => r) := by
      intro hde ks0 ks1 hdes hk
      obtain ⟨r, w1, w1', hx, hy, hW1⟩ := (ih.ev cur e S w w' hde hS hL hve hW).elim
      rw [hx, hy]
      cases r with
      | vals vs =>
        have hlen : vs.length = 1 :=
          (arity_all C.cx C.p' fuel).ev cur (renameVars C.f e) w' vs w1' (C.dk cur).K0 false false 1 rfl ha.1 hy
        match vs, hlen with
        | [a], _ =>
          simp only [List.cons_append, List.nil_append]
          exact (ih.argsK cur ks0 es S w1 w1' (a :: acc) (a :: acc') hdes ha2 hS hL hves hW1).push (hk a)
      | _ => exact ⟨hW1, rfl⟩
    match ks with
    | [] =>
      simp only [dOkK, Bool.and_eq_true] at hd
      exact plain hd.1 [] [] hd.2 (fun a as bs h => .extra h)
    | false :: ks =>
      simp only [dOkK, Bool.and_eq_true] at hd
      exact plain hd.1 ks (false :: ks) hd.2 (fun a as bs h => .val h)
    | true :: ks =>
      simp only [dOkK, Bool.and_eq_true] at hd
      rcases refArg_eval hd.1 hS hve hW fuel with ⟨hx, hy⟩ | ⟨a, b, hab, hx, hy⟩
      · rw [hx, hy]; exact ⟨hW, rfl⟩
      · rw [hx, hy]
        simp only [List.cons_append, List.nil_append]
        exact (ih.argsK cur ks es S w w' (a :: acc) (b :: acc') hd.2 ha2 hS hL hves hW).push (fun as bs h => .ref hab h)

theorem seq_succ (ih : RenAll C fuel) : ∀ cur es S w w', dOkL (C.dk cur) es = true → (∀ v, v ∈ rpOf C.p cur → S v) → Live C cur →
    (∀ v, v ∈ varsL es → v ∈ C.D) → WR C S w w' →
    Sim C S (evalSeq (C.env cur) (fuel + 1) es w) (evalSeq (C.env' cur) (fuel + 1) (renameList C.f es) w') := by
  intro cur es S w w' hd hS hL hv hW
  match es with
  | [] => simp only [evalSeq, renameList]; exact ⟨rfl, hW⟩
  | [e] =>
    simp only [dOkL, Bool.and_eq_true] at hd
    simp only [evalSeq, renameList]
    exact ih.ev cur e S w w' hd.1 hS hL (fun u hu => hv u (by simp [varsL, hu])) hW
  | e :: e2 :: es =>
    simp only [dOkL, Bool.and_eq_true] at hd
    simp only [evalSeq, renameList]
    obtain ⟨r, w1, w1', hx, hy, hW1⟩ := (ih.ev cur e S w w' hd.1 hS hL (fun u hu => hv u (by simp [varsL, hu])) hW).elim
    rw [hx, hy]
    cases r with
    | vals vs =>
      have := ih.seq cur (e2 :: es) S w1 w1' (by simp [dOkL, hd.2.1, hd.2.2]) hS hL
        (fun u hu => hv u (by simp only [varsL, List.mem_append] at hu ⊢; exact .inr hu)) hW1
      simpa only [renameList] using this
    | _ => exact ⟨rfl, hW1⟩

theorem cond_succ (ih : RenAll C fuel) : ∀ cur arms S w w', dOkA (C.dk cur) arms = true → (∀ v, v ∈ rpOf C.p cur → S v) → Live C cur →
    (∀ v, v ∈ varsA arms → v ∈ C.D) → WR C S w w' →
    Sim C S (evalCond (C.env cur) (fuel + 1) arms w) (evalCond (C.env' cur) (fuel + 1) (renameArms C.f arms) w') := by
  intro cur arms S w w' hd hS hL hv hW
  match arms with
  | [] => simp only [evalCond, renameArms]; exact ⟨rfl, hW⟩
  | (c, b) :: rest =>
    simp only [dOkA, Bool.and_eq_true] at hd
    simp only [evalCond, renameArms]
    obtain ⟨r, w1, w1', hx, hy, hW1⟩ := (ih.ev cur c S w w' hd.1.1 hS hL (fun u hu => hv u (by simp [varsA, hu])) hW).elim
    rw [hx, hy]
    rescases r <;> try exact ⟨rfl, hW1⟩
    simp only []
    split
    · exact ih.ev cur b S w1 w1' hd.1.2 hS hL (fun u hu => hv u (by simp [varsA, hu])) hW1
    · exact ih.cond cur rest S w1 w1' hd.2 hS hL (fun u hu => hv u (by simp [varsA, hu])) hW1

theorem forL_succ (ih : RenAll C fuel) : ∀ cur c st b S w w', dOk (C.dk cur) c = true → dOk (C.dk cur) st = true →
    dOk (C.dk cur) b = true → (∀ v, v ∈ rpOf C.p cur → S v) → Live C cur → (∀ v, v ∈ varsE c → v ∈ C.D) → (∀ v, v ∈ varsE st → v ∈ C.D) →
    (∀ v, v ∈ varsE b → v ∈ C.D) → WR C S w w' →
    Sim C S (evalForLoop (C.env cur) (fuel + 1) c st b w)
      (evalForLoop (C.env' cur) (fuel + 1) (renameVars C.f c) (renameVars C.f st) (renameVars C.f b) w') := by
  intro cur c st b S w w' hdc hds hdb hS hL hvc hvs hvb hW
  simp only [evalForLoop]
  have after : ∀ w2 w2', WR C S w2 w2' → Sim C S
      (match eval (C.env cur) fuel st w2 with
        | (.vals _, w3) => evalForLoop (C.env cur) fuel c st b w3
        | (.brk, w3) => (.vals [], w3)
        | (.cont, w3) => (.fail (.unmodelled "continue inside For step"), w3)
        | r => r)
      (match eval (C.env' cur) fuel (renameVars C.f st) w2' with
        | (.vals _, w3) => evalForLoop (C.env' cur) fuel (renameVars C.f c) (renameVars C.f st) (renameVars C.f b) w3
        | (.brk, w3) => (.vals [], w3)
        | (.cont, w3) => (.fail (.unmodelled "continue inside For step"), w3)
        | r => r) := by
    intro w2 w2' hW2
    obtain ⟨r, w3, w3', hx, hy, hW3⟩ := (ih.ev cur st S w2 w2' hds hS hL hvs hW2).elim
    rw [hx, hy]
    rcases r with _ | _ | _ | _ | _ | _ <;> first
      | exact ⟨rfl, hW3⟩
      | exact ih.forL cur c st b S w3 w3' hdc hds hdb hS hL hvc hvs hvb hW3
  obtain ⟨r, w1, w1', hx, hy, hW1⟩ := (ih.ev cur c S w w' hdc hS hL hvc hW).elim
  rw [hx, hy]
  rescases r <;> try exact ⟨rfl, hW1⟩
  simp only []
  split
  · exact ⟨rfl, hW1⟩
  · obtain ⟨r2, w2, w2', hx2, hy2, hW2⟩ := (ih.ev cur b S w1 w1' hdb hS hL hvb hW1).elim
    rw [hx2, hy2]
    rcases r2 with _ | _ | _ | _ | _ | _ <;> first | exact ⟨rfl, hW2⟩ | exact after _ _ hW2

theorem op_succ (ih : RenAll C fuel) : ∀ cur o es S w w', framedOps.contains o = true → dOkL (C.dk cur) es = true →
    (∀ v, v ∈ rpOf C.p cur → S v) → Live C cur → (∀ v, v ∈ varsL es → v ∈ C.D) → WR C S w w' →
    Sim C S (evalOp (C.env cur) (fuel + 1) o es w) (evalOp (C.env' cur) (fuel + 1) o (renameList C.f es) w') := by
  intro cur o es S w w' hop hd hS hL hv hW
  simp only [evalOp, env_cx, envR_cx]
  obtain ⟨r, w1, w1', hx, hy, hW1⟩ := (ih.args cur es S w w' [] hd hS hL hv hW).elim
  rw [hx, hy]
  cases r with
  | vals st =>
    simp only []
    have hex := exec_framed hop [] hW1 st
    cases hB : execPrim C.cx o [] w1 st with
    | error e =>
      rw [hB] at hex
      simp only at hex
      rw [hex]
      exact ⟨rfl, hW1⟩
    | ok x =>
      obtain ⟨st', w2⟩ := x
      rw [hB] at hex
      obtain ⟨w2', hB', hW2⟩ := hex
      rw [hB']
      exact ⟨rfl, hW2⟩
  | _ => exact ⟨rfl, hW1⟩

end Succ

theorem renAll_succ {C : RCtx} {fuel : Nat} (hok : ROk C) (ih : RenAll C fuel) : RenAll C (fuel + 1) where
  ev := ev_succ hok ih
  args := args_succ ih
  argsK := argsK_succ ih
  seq := seq_succ ih
  cond := cond_succ ih
  forL := forL_succ ih
  op := op_succ ih

/-- **Renaming invariance, all evaluators, every fuel.** -/
theorem ren_all {C : RCtx} (hok : ROk C) : ∀ fuel, RenAll C fuel
  | 0 => renAll_zero
  | n + 1 => renAll_succ hok (ren_all hok n)

end PyTealV.Proofs.Rename
