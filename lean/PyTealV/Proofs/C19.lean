/-
  C19 — ABI assignability implies identical encoding.

  Property (full statement): whenever PyTeal lets an ABI value of type A be passed or assigned
  where type B is expected (`type_spec_is_assignable_to(A, B)`), A and B have the same ARC-4
  encoding for every value (they differ at most in the byte/uint8, address/byte[32],
  string/byte[] spellings and in tuple field names); differently shaped types are rejected.

  Proved here, for ALL pairs of type specs, on the model `Models.Assignable.assignable`:

    assignable_sound     assignable a b = true → erase a = erase b
    assignable_encode    … hence for codec types  ∀ v, encode ta v = encode tb v
    assignable_decode    … and the bytes of a value of `a` decode under `b` to the same value
    assignable_rejects   erase a ≠ erase b → assignable a b = false        (contrapositive)
    assignable_layout    the same for any reading of the non-codec leaves (transaction specs
                         all get one layout τ, reference specs get ρ kind): so nested specs
                         that contain transaction / reference specs also have equal shapes
    assignable_txn / assignable_ref / assignable_to_txn / assignable_to_ref
                         what the function does on transaction and reference specs
-/
import PyTealV.Models.Assignable
import PyTealV.Proofs.Arc4
import PyTealV.Proofs.Arc4Decode
namespace PyTealV.Proofs.C19
open PyTealV.Models.Assignable PyTealV.Arc4

/-! ## Layouts -/

mutual
  /-- normalised ARC-4 layout of a spec, where every transaction spec is read as `τ` and the
      reference spec of kind `k` as `ρ k` (`erase` is the instance τ = none, ρ = none) -/
  def layout (τ : Option Ty) (ρ : RefKind → Option Ty) : TS → Option Ty
    | .bool => some .bool
    | .uint k => some (.uint k.bits)
    | .address => some (.sarray (.uint 8) 32)
    | .string => some (.darray (.uint 8))
    | .dynBytes => some (.darray (.uint 8))
    | .staticBytes n => some (.sarray (.uint 8) n)
    | .sarray e n => (layout τ ρ e).map (.sarray · n)
    | .darray e => (layout τ ρ e).map .darray
    | .tuple ts => (layouts τ ρ ts).map .tuple
    | .named _ ts => (layouts τ ρ ts).map .tuple
    | .txn _ => τ
    | .ref k => ρ k
  def layouts (τ : Option Ty) (ρ : RefKind → Option Ty) : List TS → Option (List Ty)
    | [] => some []
    | t :: ts =>
      match layout τ ρ t, layouts τ ρ ts with
      | some x, some xs => some (x :: xs)
      | _, _ => none
end

mutual
  theorem erase_eq_layout (x : TS) : erase x = layout none (fun _ => none) x := by
    match x with
    | .bool | .address | .string | .dynBytes | .txn _ | .ref _ => simp [erase, toTy, layout, Ty.norm]
    | .staticBytes n => simp [erase, toTy, layout, Ty.norm]
    | .uint k => cases k <;> simp [erase, toTy, layout, Ty.norm, UKind.bits]
    | .sarray e n =>
      have := erase_eq_layout e
      simp only [erase, toTy, layout, Option.map_map] at this ⊢
      rw [← this]; cases toTy e <;> simp [Ty.norm]
    | .darray e =>
      have := erase_eq_layout e
      simp only [erase, toTy, layout, Option.map_map] at this ⊢
      rw [← this]; cases toTy e <;> simp [Ty.norm]
    | .tuple ts =>
      have := erases_eq_layouts ts
      simp only [erase, toTy, layout, Option.map_map] at this ⊢
      rw [← this]; cases toTys ts <;> simp [Ty.norm]
    | .named _ ts =>
      have := erases_eq_layouts ts
      simp only [erase, toTy, layout, Option.map_map] at this ⊢
      rw [← this]; cases toTys ts <;> simp [Ty.norm]
  theorem erases_eq_layouts (ts : List TS) :
      (toTys ts).map normList = layouts none (fun _ => none) ts := by
    match ts with
    | [] => simp [toTys, layouts, normList]
    | t :: ts =>
      have h1 := erase_eq_layout t
      have h2 := erases_eq_layouts ts
      simp only [erase] at h1
      simp only [toTys, layouts, ← h1, ← h2]
      cases toTy t <;> cases toTys ts <;> simp [normList]
end

/-! ## `isinstance` tests as structural predicates -/

def isNamed : TS → Bool
  | .named _ _ => true
  | _ => false
def isTupleLike : TS → Bool
  | .tuple _ | .named _ _ => true
  | _ => false
def isArrayLike : TS → Bool
  | .address | .string | .dynBytes | .staticBytes _ | .sarray _ _ | .darray _ => true
  | _ => false
def isStaticLike : TS → Bool
  | .address | .staticBytes _ | .sarray _ _ => true
  | _ => false
def isDynLike : TS → Bool
  | .string | .dynBytes | .darray _ => true
  | _ => false
def isUint : TS → Bool
  | .uint _ => true
  | _ => false

macro "ts_rfl " x:ident : tactic =>
  `(tactic| (cases $x:ident with
    | uint k => cases k <;> rfl
    | txn k => cases k <;> rfl
    | ref k => cases k <;> rfl
    | _ => rfl))

theorem inst_namedTuple (x : TS) : isinstance x .NamedTuple = isNamed x := by ts_rfl x
theorem inst_tuple (x : TS) : isinstance x .Tuple = isTupleLike x := by ts_rfl x
theorem inst_array (x : TS) : isinstance x .Array = isArrayLike x := by ts_rfl x
theorem inst_staticArray (x : TS) : isinstance x .StaticArray = isStaticLike x := by ts_rfl x
theorem inst_dynamicArray (x : TS) : isinstance x .DynamicArray = isDynLike x := by ts_rfl x
theorem inst_uint (x : TS) : isinstance x .Uint = isUint x := by ts_rfl x
theorem inst_bool (x : TS) : isinstance x .Bool = (match x with | .bool => true | _ => false) := by ts_rfl x
theorem inst_address (x : TS) : isinstance x .Address = (match x with | .address => true | _ => false) := by ts_rfl x
theorem inst_string (x : TS) : isinstance x .String = (match x with | .string => true | _ => false) := by ts_rfl x
theorem inst_dynBytes (x : TS) : isinstance x .DynamicBytes = (match x with | .dynBytes => true | _ => false) := by ts_rfl x
theorem inst_account (x : TS) : isinstance x .Account = (match x with | .ref .account => true | _ => false) := by ts_rfl x
theorem inst_asset (x : TS) : isinstance x .Asset = (match x with | .ref .asset => true | _ => false) := by ts_rfl x
theorem inst_application (x : TS) : isinstance x .Application = (match x with | .ref .application => true | _ => false) := by ts_rfl x

/-! ## lists with `attach` -/

theorem all_attach_zip {α β} (as : List α) (bs : List β) (f : α → β → Bool) :
    (as.attach.zip bs).all (fun p => f p.1.1 p.2) = (as.zip bs).all (fun p => f p.1 p.2) := by
  conv => rhs; rw [← List.attach_map_subtype_val as]
  rw [List.zip_map_left, List.all_map]
  rfl

theorem all_attach_zip_attach {α β} (as : List α) (bs : List β) (f : α → β → Bool) :
    (as.attach.zip bs.attach).all (fun p => f p.1.1 p.2.1) = (as.zip bs).all (fun p => f p.1 p.2) := by
  conv => rhs; rw [← List.attach_map_subtype_val as, ← List.attach_map_subtype_val bs]
  rw [List.zip_map, List.all_map]
  rfl

/-- the `match a, b:` sub-statement of the array case -/
def arrayTail (a b : TS) : Bool :=
  if isinstance a .Address && isinstance b .StaticArray then arrayLength? a == arrayLength? b
  else if isinstance a .StaticArray && isinstance b .Address then false
  else if isinstance a .StaticArray && isinstance b .StaticArray then arrayLength? a == arrayLength? b
  else if isinstance a .String && isinstance b .DynamicArray then true
  else if isinstance a .DynamicArray && isinstance b .String then false
  else if isinstance a .DynamicArray && isinstance b .DynamicArray then true
  else false

/-- one unfolding of `assignable`, with the class tests read structurally -/
theorem assignable_eq (a b : TS) : assignable a b =
    if isNamed a && isNamed b then pyEq a b
    else if isTupleLike a && isTupleLike b then
      match valueSpecs? a, valueSpecs? b with
      | some as, some bs =>
        if as.length != bs.length then false else (as.zip bs).all (fun p => assignable p.1 p.2)
      | _, _ => false
    else if isArrayLike a && isArrayLike b then
      match valueSpec? a, valueSpec? b with
      | some ea, some eb => if !assignable ea eb then false else arrayTail a b
      | _, _ => false
    else if isUint a && isUint b then bitSize? a == bitSize? b
    else if isinstance a (clsOf b) then true
    else if str a == str b then true
    else false := by
  rw [assignable]
  simp only [inst_namedTuple, inst_tuple, inst_array, inst_uint, all_attach_zip _ _ assignable, arrayTail]
  cases hsa : valueSpecs? a <;> cases hsb : valueSpecs? b <;>
    cases hea : valueSpec? a <;> cases heb : valueSpec? b <;> rfl

/-! ## families of classes -/

/-- family of a class: 0 root, 1 bool, 2 uint, 3 tuple, 4 array, 5 transaction, 6 reference -/
def famC : Cls → Nat
  | .TypeSpec => 0
  | .Bool => 1
  | .Uint | .Byte | .Uint8 | .Uint16 | .Uint32 | .Uint64 => 2
  | .Tuple | .NamedTuple => 3
  | .Array | .StaticArray | .StaticBytes | .Address | .DynamicArray | .DynamicBytes | .String => 4
  | .Transaction | .Payment | .KeyRegister | .AssetConfig | .AssetFreeze | .AssetTransfer
  | .ApplicationCall => 5
  | .Reference | .Account | .Asset | .Application => 6

def fam (x : TS) : Nat := famC (clsOf x)

theorem mem_all (c : Cls) : c ∈ Cls.all := by cases c <;> decide

theorem isSub_fam_all : ∀ c ∈ Cls.all, ∀ d ∈ Cls.all, c.isSub d = true → d ≠ .TypeSpec →
    famC c = famC d := by decide

theorem isSub_fam (c d : Cls) (h : c.isSub d = true) (hd : d ≠ .TypeSpec) : famC c = famC d :=
  isSub_fam_all c (mem_all c) d (mem_all d) h hd

theorem fam_bool : fam .bool = 1 := rfl
theorem fam_uint (k : UKind) : fam (.uint k) = 2 := by cases k <;> rfl
theorem fam_address : fam .address = 4 := rfl
theorem fam_string : fam .string = 4 := rfl
theorem fam_dynBytes : fam .dynBytes = 4 := rfl
theorem fam_staticBytes (n : Nat) : fam (.staticBytes n) = 4 := rfl
theorem fam_sarray (e : TS) (n : Nat) : fam (.sarray e n) = 4 := rfl
theorem fam_darray (e : TS) : fam (.darray e) = 4 := rfl
theorem fam_tuple (ts : List TS) : fam (.tuple ts) = 3 := rfl
theorem fam_named (c : Nat) (ts : List TS) : fam (.named c ts) = 3 := rfl
theorem fam_txn (k : TxnKind) : fam (.txn k) = 5 := by cases k <;> rfl
theorem fam_ref (k : RefKind) : fam (.ref k) = 6 := by cases k <;> rfl

theorem fam_eq_txn (x : TS) (h : fam x = 5) : ∃ k, x = .txn k := by
  cases x <;> simp [fam_bool, fam_uint, fam_address, fam_string, fam_dynBytes, fam_staticBytes,
    fam_sarray, fam_darray, fam_tuple, fam_named, fam_ref] at h ⊢

theorem fam_eq_ref (x : TS) (h : fam x = 6) : ∃ k, x = .ref k := by
  cases x <;> simp [fam_bool, fam_uint, fam_address, fam_string, fam_dynBytes, fam_staticBytes,
    fam_sarray, fam_darray, fam_tuple, fam_named, fam_txn] at h ⊢

theorem fam_eq_bool (x : TS) (h : fam x = 1) : x = .bool := by
  cases x <;> simp [fam_uint, fam_address, fam_string, fam_dynBytes, fam_staticBytes,
    fam_sarray, fam_darray, fam_tuple, fam_named, fam_txn, fam_ref] at h ⊢

theorem clsOf_ne_root (x : TS) : clsOf x ≠ .TypeSpec := by
  cases x with
  | uint k => cases k <;> decide
  | txn k => cases k <;> decide
  | ref k => cases k <;> decide
  | _ => intro h; cases h

/-! ## `==` is sound -/

section
variable (τ : Option Ty) (ρ : RefKind → Option Ty)

theorem layouts_of_zip (R : TS → TS → Bool) (as bs : List TS) (hlen : as.length = bs.length)
    (hall : (as.zip bs).all (fun p => R p.1 p.2) = true)
    (ih : ∀ x ∈ as, ∀ y ∈ bs, R x y = true → layout τ ρ x = layout τ ρ y) :
    layouts τ ρ as = layouts τ ρ bs := by
  induction as generalizing bs with
  | nil => cases bs with
    | nil => rfl
    | cons b bs => simp at hlen
  | cons a as iha =>
    cases bs with
    | nil => simp at hlen
    | cons b bs =>
      simp only [List.zip_cons_cons, List.all_cons, Bool.and_eq_true] at hall
      simp only [layouts]
      rw [ih a List.mem_cons_self b List.mem_cons_self hall.1,
        iha bs (by simpa using hlen) hall.2
          (fun x hx y hy => ih x (List.mem_cons_of_mem _ hx) y (List.mem_cons_of_mem _ hy))]

theorem eqM_sound_aux (n : Nat) : ∀ s o : TS, s.size + o.size ≤ n → eqM s o = true →
    layout τ ρ s = layout τ ρ o := by
  induction n with
  | zero =>
    intro s o hn
    have : 0 < s.size := by cases s <;> simp [TS.size]
    omega
  | succ n ih =>
    have ihp : ∀ x y : TS, x.size + y.size ≤ n → pyEq x y = true → layout τ ρ x = layout τ ρ y := by
      intro x y hxy h
      rw [pyEq] at h
      split at h
      · exact (ih y x (by omega) h).symm
      · exact ih x y hxy h
    intro s o hn h
    cases s with
    | bool =>
      rw [eqM, inst_bool] at h
      cases o <;> simp at h; rfl
    | uint k =>
      rw [eqM] at h
      simp only [Bool.and_eq_true, beq_iff_eq] at h
      cases o <;> simp [bitSize?] at h
      simp [layout, h.2]
    | address => rw [eqM, inst_address] at h; cases o <;> simp at h; rfl
    | string => rw [eqM, inst_string] at h; cases o <;> simp at h; rfl
    | dynBytes => rw [eqM, inst_dynBytes] at h; cases o <;> simp at h; rfl
    | staticBytes m =>
      rw [eqM, inst_staticArray] at h
      cases o <;> simp [isStaticLike, valueSpec?, arrayLength?] at h
      · simp [layout, h.2]
      · simp [layout, h.2]
      · rename_i e m'
        have := ihp (.uint .byte) e (by simp [TS.size] at hn ⊢; omega) h.1
        simp only [layout] at this ⊢
        rw [← this, h.2]; rfl
    | sarray e m =>
      rw [eqM, inst_staticArray] at h
      cases o <;> simp [isStaticLike, valueSpec?, arrayLength?] at h
      · have := ihp e (.uint .byte) (by simp [TS.size] at hn ⊢; omega) h.1
        simp only [layout] at this ⊢
        rw [this, h.2]; rfl
      · have := ihp e (.uint .byte) (by simp [TS.size] at hn ⊢; omega) h.1
        simp only [layout] at this ⊢
        rw [this, h.2]; rfl
      · rename_i e' m'
        have := ihp e e' (by simp [TS.size] at hn ⊢; omega) h.1
        simp only [layout]
        rw [this, h.2]
    | darray e =>
      rw [eqM, inst_dynamicArray] at h
      cases o <;> simp [isDynLike, valueSpec?] at h
      · have := ihp e (.uint .byte) (by simp [TS.size] at hn ⊢; omega) h
        simp only [layout] at this ⊢
        rw [this]; rfl
      · have := ihp e (.uint .byte) (by simp [TS.size] at hn ⊢; omega) h
        simp only [layout] at this ⊢
        rw [this]; rfl
      · rename_i e'
        have := ihp e e' (by simp [TS.size] at hn ⊢; omega) h
        simp only [layout]
        rw [this]
    | tuple ts =>
      rw [eqM, inst_tuple] at h
      cases o <;> simp [isTupleLike, valueSpecs?, all_attach_zip_attach _ _ pyEq] at h
      all_goals
        rename_i us
        simp only [layout]
        rw [layouts_of_zip τ ρ pyEq ts us h.1 (by simpa using h.2) (fun x hx y hy =>
          ihp x y (by
            have h1 := size_lt_of_mem hx
            have h2 := size_lt_of_mem hy
            simp [TS.size] at hn; omega))]
    | named c ts =>
      rw [eqM, inst_namedTuple] at h
      cases o <;> simp [isNamed, valueSpecs?, instanceClass?, all_attach_zip_attach _ _ pyEq] at h
      rename_i c' us
      simp only [layout]
      rw [layouts_of_zip τ ρ pyEq ts us h.2.1 (by simpa using h.2.2) (fun x hx y hy =>
        ihp x y (by
          have h1 := size_lt_of_mem hx
          have h2 := size_lt_of_mem hy
          simp [TS.size] at hn; omega))]
    | txn k =>
      rw [eqM] at h
      have hf : fam (.txn k) = fam o := by simp only [fam]; rw [beq_iff_eq.1 h]
      rw [fam_txn] at hf
      obtain ⟨k', rfl⟩ := fam_eq_txn o hf.symm
      rfl
    | ref k =>
      cases k <;> rw [eqM] at h
      · rw [inst_account] at h
        cases o with
        | ref k' => cases k' <;> first | rfl | simp at h
        | _ => simp at h
      · rw [inst_asset] at h
        cases o with
        | ref k' => cases k' <;> first | rfl | simp at h
        | _ => simp at h
      · rw [inst_application] at h
        cases o with
        | ref k' => cases k' <;> first | rfl | simp at h
        | _ => simp at h
end

section
variable (τ : Option Ty) (ρ : RefKind → Option Ty)

theorem eqM_sound (s o : TS) (h : eqM s o = true) : layout τ ρ s = layout τ ρ o :=
  eqM_sound_aux τ ρ _ s o (Nat.le_refl _) h

/-- Python `a == b` on type specs implies equal layouts -/
theorem pyEq_sound (x y : TS) (h : pyEq x y = true) : layout τ ρ x = layout τ ρ y := by
  rw [pyEq] at h
  split at h
  · exact (eqM_sound τ ρ y x h).symm
  · exact eqM_sound τ ρ x y h
end

/-! ## `str` separates the class families -/

/-- a family tag computed from the text alone -/
def classify (s : List Char) : Nat :=
  match s.getLast? with
  | some ')' => 3
  | some ']' => 4
  | _ =>
    if s = "bool".toList then 1
    else if s ∈ ["byte".toList, "uint8".toList, "uint16".toList, "uint32".toList, "uint64".toList] then 2
    else if s ∈ ["address".toList, "string".toList] then 4
    else if s ∈ ["txn".toList, "pay".toList, "keyreg".toList, "acfg".toList, "axfer".toList,
                 "afrz".toList, "appl".toList] then 5
    else if s ∈ ["account".toList, "asset".toList, "application".toList] then 6
    else 0

theorem classify_bracket (l : List Char) : classify (l ++ [']']) = 4 := by simp [classify]
theorem classify_paren (l : List Char) : classify (l ++ [')']) = 3 := by simp [classify]

theorem str_sarray (e : TS) (n : Nat) :
    str (.sarray e n) = (str e ++ '[' :: (Nat.repr n).toList) ++ [']'] := by
  show str e ++ '[' :: (Nat.repr n).toList ++ [']'] = _; simp
theorem str_staticBytes (n : Nat) :
    str (.staticBytes n) = ("byte".toList ++ '[' :: (Nat.repr n).toList) ++ [']'] := by
  show "byte".toList ++ '[' :: (Nat.repr n).toList ++ [']'] = _; simp
theorem str_darray (e : TS) : str (.darray e) = (str e ++ ['[']) ++ [']'] := by
  show str e ++ ['[', ']'] = _; simp
theorem str_tuple (ts : List TS) : str (.tuple ts) = ('(' :: strList ts) ++ [')'] := rfl
theorem str_named (c : Nat) (ts : List TS) : str (.named c ts) = ('(' :: strList ts) ++ [')'] := rfl

theorem classify_str (x : TS) : classify (str x) = fam x := by
  cases x with
  | bool => decide
  | uint k => cases k <;> decide
  | address => decide
  | string => decide
  | dynBytes => decide
  | txn k => cases k <;> decide
  | ref k => cases k <;> decide
  | staticBytes n => rw [fam_staticBytes, str_staticBytes]; exact classify_bracket _
  | sarray e n => rw [fam_sarray, str_sarray]; exact classify_bracket _
  | darray e => rw [fam_darray, str_darray]; exact classify_bracket _
  | tuple ts => rw [fam_tuple, str_tuple]; exact classify_paren _
  | named c ts => rw [fam_named, str_named]; exact classify_paren _

theorem str_fam (a b : TS) (h : str a = str b) : fam a = fam b := by
  rw [← classify_str, ← classify_str, h]

theorem inst_clsOf_fam (a b : TS) (h : isinstance a (clsOf b) = true) : fam a = fam b :=
  isSub_fam _ _ h (clsOf_ne_root b)

theorem isTupleLike_fam (x : TS) : isTupleLike x = (fam x == 3) := by
  cases x <;> simp [isTupleLike, fam_bool, fam_uint, fam_address, fam_string, fam_dynBytes,
    fam_staticBytes, fam_sarray, fam_darray, fam_tuple, fam_named, fam_txn, fam_ref]
theorem isArrayLike_fam (x : TS) : isArrayLike x = (fam x == 4) := by
  cases x <;> simp [isArrayLike, fam_bool, fam_uint, fam_address, fam_string, fam_dynBytes,
    fam_staticBytes, fam_sarray, fam_darray, fam_tuple, fam_named, fam_txn, fam_ref]
theorem isUint_fam (x : TS) : isUint x = (fam x == 2) := by
  cases x <;> simp [isUint, fam_bool, fam_uint, fam_address, fam_string, fam_dynBytes,
    fam_staticBytes, fam_sarray, fam_darray, fam_tuple, fam_named, fam_txn, fam_ref]

theorem fam_range (x : TS) : fam x = 1 ∨ fam x = 2 ∨ fam x = 3 ∨ fam x = 4 ∨ fam x = 5 ∨ fam x = 6 := by
  cases x <;> simp [fam_bool, fam_uint, fam_address, fam_string, fam_dynBytes,
    fam_staticBytes, fam_sarray, fam_darray, fam_tuple, fam_named, fam_txn, fam_ref]

theorem str_ref_inj (k k' : RefKind) (h : str (.ref k) = str (.ref k')) : k = k' := by
  cases k <;> cases k' <;> first | rfl | (exact absurd h (by decide))

theorem inst_ref_ref (k k' : RefKind) (h : isinstance (.ref k) (clsOf (.ref k')) = true) : k = k' := by
  cases k <;> cases k' <;> first | rfl | (exact absurd h (by decide))

/-! ## The main theorem -/

section
variable (τ : Option Ty) (ρ : RefKind → Option Ty)

theorem assignable_layout_aux (n : Nat) : ∀ a b : TS, a.size ≤ n → assignable a b = true →
    layout τ ρ a = layout τ ρ b := by
  induction n with
  | zero =>
    intro a b hn
    have : 0 < a.size := by cases a <;> simp [TS.size]
    omega
  | succ n ih =>
    intro a b hn h
    rw [assignable_eq] at h
    split at h
    · -- case NamedTupleTypeSpec(), NamedTupleTypeSpec(): a == b
      exact pyEq_sound τ ρ a b h
    split at h
    · -- case TupleTypeSpec(), TupleTypeSpec()
      rename_i _ hc
      cases a <;> simp [isTupleLike] at hc <;> cases b <;> simp at hc
      all_goals
        simp only [valueSpecs?] at h
        split at h
        · cases h
        · rename_i hlen
          simp only [layout]
          rw [layouts_of_zip τ ρ assignable _ _ (by simpa using hlen) h (fun x hx y _ =>
            ih x y (by have := size_lt_of_mem hx; simp [TS.size] at hn; omega))]
    split at h
    · -- case ArrayTypeSpec(), ArrayTypeSpec()
      rename_i _ _ hc
      cases a <;> simp [isArrayLike] at hc <;> cases b <;> simp at hc <;>
        simp [valueSpec?, arrayTail, inst_address, inst_staticArray, inst_string, inst_dynamicArray,
          isStaticLike, isDynLike, arrayLength?] at h
      all_goals
        first
        | rfl
        | (obtain ⟨h1, h2⟩ := h
           have hl := ih _ _ (by simp [TS.size] at hn ⊢; omega) h1
           simp only [layout, UKind.bits] at hl ⊢
           subst h2
           first | rfl | (rw [← hl]; rfl) | (rw [hl]; rfl) | (rw [hl]))
        | (have hl := ih _ _ (by simp [TS.size] at hn ⊢; omega) h
           simp only [layout, UKind.bits] at hl ⊢
           first | rfl | (rw [← hl]; rfl) | (rw [hl]; rfl) | (rw [hl]))
    split at h
    · -- case UintTypeSpec(), UintTypeSpec(): a.size == b.size
      rename_i _ _ _ hc
      cases a <;> simp [isUint] at hc <;> cases b <;> simp at hc
      simp [bitSize?] at h
      simp [layout, h]
    · -- fall-through: isinstance(a, type(b)) or str(a) == str(b)
      rename_i h1 h2 h3 h4
      have hf : fam a = fam b := by
        split at h
        · exact inst_clsOf_fam a b (by assumption)
        · split at h
          · exact str_fam a b (by simpa using ‹(str a == str b) = true›)
          · cases h
      rw [isTupleLike_fam, isTupleLike_fam] at h2
      rw [isArrayLike_fam, isArrayLike_fam] at h3
      rw [isUint_fam, isUint_fam] at h4
      simp only [← hf, Bool.and_self, beq_iff_eq] at h2 h3 h4
      rcases fam_range a with h' | h' | h' | h' | h' | h'
      · rw [fam_eq_bool a h', fam_eq_bool b (hf ▸ h')]
      · exact absurd h' h4
      · exact absurd h' h2
      · exact absurd h' h3
      · obtain ⟨k, rfl⟩ := fam_eq_txn a h'
        obtain ⟨k', rfl⟩ := fam_eq_txn b (hf ▸ h')
        rfl
      · obtain ⟨k, rfl⟩ := fam_eq_ref a h'
        obtain ⟨k', rfl⟩ := fam_eq_ref b (hf ▸ h')
        have : k = k' := by
          split at h
          · exact inst_ref_ref k k' (by assumption)
          · split at h
            · exact str_ref_inj k k' (by simpa using ‹(str (TS.ref k) == str (TS.ref k')) = true›)
            · cases h
        rw [this]

/-- **General form**: for any reading of the non-codec leaves (all transaction specs as `τ`,
    reference specs as `ρ kind`), assignable specs have the same normalised layout. -/
theorem assignable_layout (a b : TS) (h : assignable a b = true) :
    layout τ ρ a = layout τ ρ b :=
  assignable_layout_aux τ ρ _ a b (Nat.le_refl _) h
end

/-- **C19 (soundness of assignability)**: whenever `type_spec_is_assignable_to(a, b)` holds,
    `a` and `b` have the same ARC-4 layout up to the byte/uint8, address/byte[32],
    string/byte[] aliases and tuple field names.  (For specs that are or contain transaction /
    reference specs both sides are `none`; see `assignable_layout`.) -/
theorem assignable_sound (a b : TS) (h : assignable a b = true) : erase a = erase b := by
  rw [erase_eq_layout, erase_eq_layout]
  exact assignable_layout none (fun _ => none) a b h

/-- differently shaped types are rejected -/
theorem assignable_rejects (a b : TS) (h : erase a ≠ erase b) : assignable a b = false := by
  cases hab : assignable a b
  · rfl
  · exact absurd (assignable_sound a b hab) h

/-- an ARC-4 data type is never assignable to / from a spec that is or contains a transaction
    or reference spec -/
theorem assignable_codec_iff (a b : TS) (h : assignable a b = true) :
    (toTy a).isSome = (toTy b).isSome := by
  have := assignable_sound a b h
  simp only [erase] at this
  cases ha : toTy a <;> cases hb : toTy b <;> simp [ha, hb] at this ⊢

/-- **C19 (identical encoding)**: the raw bytes of any value of type `a` are exactly the bytes
    type `b` assigns to the same value. -/
theorem assignable_encode (a b : TS) (ta tb : Ty) (h : assignable a b = true)
    (ha : toTy a = some ta) (hb : toTy b = some tb) (v : V) : encode ta v = encode tb v := by
  have := assignable_sound a b h
  simp only [erase, ha, hb, Option.map_some, Option.some.injEq] at this
  rw [← encode_norm ta v, ← encode_norm tb v, this]

/-- **C19 (valid encoding of B with the same meaning)**: the bytes produced for a value of
    type `a` decode, under type `b`, to that very value. -/
theorem assignable_decode (a b : TS) (ta tb : Ty) (h : assignable a b = true)
    (ha : toTy a = some ta) (hb : toTy b = some tb) (v : V) (bs : Bytes)
    (he : encode ta v = some bs) : decode tb bs = some v :=
  decode_encode tb v bs (assignable_encode a b ta tb h ha hb v ▸ he)

/-! ## Transaction and reference specs (not ARC-4 data types)

  They never reach a `case` of the `match`; the answer is `isinstance(a, type(b))` or equal
  `str`: a transaction spec is assignable exactly to itself and to the generic
  `TransactionTypeSpec`, a reference spec exactly to itself, and nothing else is assignable to
  or from them. -/

theorem txn_fallthrough : ∀ k k' : TxnKind,
    (isinstance (.txn k) (clsOf (.txn k')) || str (.txn k) == str (.txn k')) =
      (decide (k = k') || decide (k' = .any)) := by
  intro k k'; cases k <;> cases k' <;> decide

theorem ref_fallthrough : ∀ k k' : RefKind,
    (isinstance (.ref k) (clsOf (.ref k')) || str (.ref k) == str (.ref k')) = decide (k = k') := by
  intro k k'; cases k <;> cases k' <;> decide

theorem fallthrough_fam (a b : TS)
    (h : (if isinstance a (clsOf b) = true then true else if (str a == str b) = true then true else false) = true) :
    fam a = fam b := by
  split at h
  · exact inst_clsOf_fam a b (by assumption)
  · split at h
    · exact str_fam a b (by simpa using ‹(str a == str b) = true›)
    · cases h

theorem or_of_ite (p q : Bool) : (if p = true then true else if q = true then true else false) = (p || q) := by
  cases p <;> cases q <;> rfl

theorem assignable_txn (k : TxnKind) (b : TS) :
    assignable (.txn k) b = true ↔ b = .txn k ∨ b = .txn .any := by
  rw [assignable_eq]
  simp only [isNamed, isTupleLike, isArrayLike, isUint, Bool.false_and, Bool.false_eq_true, if_false]
  constructor
  · intro h
    have hf := fallthrough_fam _ _ h
    rw [fam_txn] at hf
    obtain ⟨k', rfl⟩ := fam_eq_txn b hf.symm
    rw [or_of_ite, txn_fallthrough] at h
    simp only [Bool.or_eq_true, decide_eq_true_eq] at h
    rcases h with rfl | rfl
    · exact Or.inl rfl
    · exact Or.inr rfl
  · rintro (rfl | rfl) <;> rw [or_of_ite, txn_fallthrough] <;> simp

theorem assignable_ref (k : RefKind) (b : TS) : assignable (.ref k) b = true ↔ b = .ref k := by
  rw [assignable_eq]
  simp only [isNamed, isTupleLike, isArrayLike, isUint, Bool.false_and, Bool.false_eq_true, if_false]
  constructor
  · intro h
    have hf := fallthrough_fam _ _ h
    rw [fam_ref] at hf
    obtain ⟨k', rfl⟩ := fam_eq_ref b hf.symm
    rw [or_of_ite, ref_fallthrough] at h
    simp only [decide_eq_true_eq] at h
    rw [h]
  · rintro rfl; rw [or_of_ite, ref_fallthrough]; simp

theorem assignable_to_txn (a : TS) (k : TxnKind) (h : assignable a (.txn k) = true) :
    ∃ k', a = .txn k' ∧ (k' = k ∨ k = .any) := by
  have h0 := h
  rw [assignable_eq] at h
  simp only [isNamed, isTupleLike, isArrayLike, isUint, Bool.and_false, Bool.false_eq_true, if_false] at h
  have hf := fallthrough_fam _ _ h
  rw [fam_txn] at hf
  obtain ⟨k', rfl⟩ := fam_eq_txn a hf
  refine ⟨k', rfl, ?_⟩
  rcases (assignable_txn k' _).1 h0 with h1 | h1
  · cases h1; exact Or.inl rfl
  · cases h1; exact Or.inr rfl

theorem assignable_to_ref (a : TS) (k : RefKind) (h : assignable a (.ref k) = true) : a = .ref k := by
  have h0 := h
  rw [assignable_eq] at h
  simp only [isNamed, isTupleLike, isArrayLike, isUint, Bool.and_false, Bool.false_eq_true, if_false] at h
  have hf := fallthrough_fam _ _ h
  rw [fam_ref] at hf
  obtain ⟨k', rfl⟩ := fam_eq_ref a hf
  cases (assignable_ref k' _).1 h0
  rfl

/-! ## `str` is the ARC-4 signature -/

mutual
  /-- for ARC-4 data types `str(x)` is exactly the signature of the type `toTy x` -/
  theorem str_eq_sigChars (x : TS) (t : Ty) (h : toTy x = some t) : str x = sigChars t := by
    match x with
    | .bool => cases h; rfl
    | .uint k => cases k <;> (cases h; rfl)
    | .address => cases h; rfl
    | .string => cases h; rfl
    | .dynBytes => cases h; rfl
    | .staticBytes n => cases h; rfl
    | .sarray e n =>
      simp only [toTy, Option.map_eq_some_iff] at h
      obtain ⟨te, he, rfl⟩ := h
      show str e ++ '[' :: (Nat.repr n).toList ++ [']'] = sigChars te ++ '[' :: (Nat.repr n).toList ++ [']']
      rw [str_eq_sigChars e te he]
    | .darray e =>
      simp only [toTy, Option.map_eq_some_iff] at h
      obtain ⟨te, he, rfl⟩ := h
      show str e ++ ['[', ']'] = sigChars te ++ ['[', ']']
      rw [str_eq_sigChars e te he]
    | .tuple ts =>
      simp only [toTy, Option.map_eq_some_iff] at h
      obtain ⟨tts, he, rfl⟩ := h
      show '(' :: strList ts ++ [')'] = '(' :: sigFields tts ++ [')']
      rw [strList_eq_sigFields ts tts he]
    | .named c ts =>
      simp only [toTy, Option.map_eq_some_iff] at h
      obtain ⟨tts, he, rfl⟩ := h
      show '(' :: strList ts ++ [')'] = '(' :: sigFields tts ++ [')']
      rw [strList_eq_sigFields ts tts he]
    | .txn _ => simp [toTy] at h
    | .ref _ => simp [toTy] at h
  theorem strList_eq_sigFields (xs : List TS) (ts : List Ty) (h : toTys xs = some ts) :
      strList xs = sigFields ts := by
    match xs with
    | [] => simp [toTys] at h; subst h; rfl
    | [x] =>
      simp only [toTys] at h
      split at h
      · rename_i t ts' ht hts
        cases h; cases hts
        show str x = sigChars t
        exact str_eq_sigChars x t ht
      · cases h
    | x :: y :: rest =>
      rw [toTys] at h
      cases ht : toTy x with
      | none => simp [ht] at h
      | some t =>
        cases hts : toTys (y :: rest) with
        | none => simp [ht, hts] at h
        | some ts' =>
          simp only [ht, hts, Option.some.injEq] at h
          subst h
          have hrest := strList_eq_sigFields (y :: rest) ts' hts
          cases ts' with
          | nil =>
            rw [toTys] at hts
            split at hts <;> cases hts
          | cons t2 ts2 =>
            show str x ++ ',' :: strList (y :: rest) = sigChars t ++ ',' :: sigFields (t2 :: ts2)
            rw [str_eq_sigChars x t ht, hrest]
end

/-! ## Non-vacuity -/

/-- the hypotheses are satisfiable by a non-trivial pair: aliases at depth, a named tuple
    against a plain tuple -/
example : assignable (.tuple [.address, .named 3 [.bool, .string]])
    (.tuple [.sarray (.uint .u8) 32, .tuple [.bool, .darray (.uint .byte)]]) = true := by
  decide +kernel

/-- … and `erase` is a genuine layout on them (not `none`) -/
example : erase (.tuple [.address, .named 3 [.bool, .string]]) =
    some (.tuple [.sarray (.uint 8) 32, .tuple [.bool, .darray (.uint 8)]]) := by
  decide +kernel

/-- the relation is not symmetric and not mere layout equality (the property does not ask
    for acceptance): `byte[32]` is refused where an `address` is expected -/
example : assignable (.staticBytes 32) .address = false ∧ erase (.staticBytes 32) = erase .address := by
  decide +kernel

/-- rejected: same arity and widths, different shape -/
example : assignable (.tuple [.uint .u16, .bool]) (.tuple [.bool, .uint .u16]) = false := by
  decide +kernel

/-- `assignable_encode` applied: an `(address,string)` value handed to a `(byte[32],byte[])`
    parameter -/
example (v : V) : encode (.tuple [.address, .string]) v =
    encode (.tuple [.sarray .byte 32, .darray .byte]) v :=
  assignable_encode (.tuple [.address, .string]) (.tuple [.staticBytes 32, .dynBytes]) _ _
    (by decide +kernel) (by decide +kernel) (by decide +kernel) v

end PyTealV.Proofs.C19
