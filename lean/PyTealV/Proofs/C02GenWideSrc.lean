/-
  C02Gen, `WideRatio` (source side): facts about `Src.eval` that the simulation of the generated
  `WideRatio` code (`Proofs/C02GenWide.lean`) needs, independent of the machine.
    * `eval_wideRatio`: closed form of the `wideRatio` arm of `Src.eval` (`wrRes`);
    * `noExit_all`: a tree without `Exit` and without calls never ends with `Exit` (W2);
    * `u64B_val`: a syntactically-uint64 tree (W1) yields a `uint64` below 2^64.
-/
import PyTealV.Models.FragmentR
import PyTealV.Proofs.C16
namespace PyTealV.Proofs.C02Gen
open PyTealV PyTealV.Avm PyTealV.Src PyTealV.Comp PyTealV.Models.FragmentR

/-! ### closed form of the `wideRatio` arm -/

/-- the factor values as numbers (`none`: some factor is a byte string) -/
def natsOf (vs : List Val) : Option (List Nat) :=
  vs.mapM (fun v => match v with | .u n => some n | _ => none)

/-- the value part of the `wideRatio` arm; `k` numerators -/
def wrRes (k : Nat) (st : List Val) : Res :=
  match natsOf st.reverse with
  | none => .fail (.typeErr "WideRatio factor not uint64")
  | some xs =>
    (match wideProd (xs.take k), wideProd (xs.drop k) with
     | some pn, some pd =>
       if pd = 0 then .fail (.logic "WideRatio division by zero")
       else if pn / pd < two64 then .vals [.u (pn / pd)]
       else .fail (.logic "WideRatio overflow")
     | _, _ => .fail (.logic "WideRatio product overflow"))

theorem eval_wideRatio (env : Env) (fuel : Nat) (ns ds : List Expr) (w : World) :
    eval env (fuel + 1) (.wideRatio ns ds) w =
      match evalArgs env fuel (ns ++ ds) w [] with
      | (.vals st, w1) => (wrRes ns.length st, w1)
      | r => r := by
  simp only [eval]
  rcases evalArgs env fuel (ns ++ ds) w [] with ⟨r, w1⟩
  cases r <;> try rfl
  rename_i st
  simp only [wrRes, natsOf]
  generalize (List.mapM _ st.reverse : Option (List Nat)) = m
  cases m with
  | none => rfl
  | some xs =>
    simp only []
    generalize wideProd (List.take ns.length xs) = a
    generalize wideProd (List.drop ns.length xs) = b
    cases a <;> cases b <;> try rfl
    simp only []
    split
    · rfl
    · split <;> rfl

/-- the result of `wrRes` is one `uint64` below 2^64, or a failure that is not `unmodelled` -/
theorem wrRes_cases (k : Nat) (st : List Val) :
    (∃ q, wrRes k st = .vals [.u q] ∧ q < two64) ∨ ∃ f, wrRes k st = .fail f ∧ ∀ m, f ≠ .unmodelled m := by
  unfold wrRes
  split
  · exact .inr ⟨_, rfl, fun m h => by cases h⟩
  · split
    · split
      · exact .inr ⟨_, rfl, fun m h => by cases h⟩
      · split
        · rename_i hq; exact .inl ⟨_, rfl, hq⟩
        · exact .inr ⟨_, rfl, fun m h => by cases h⟩
    · exact .inr ⟨_, rfl, fun m h => by cases h⟩

theorem wtRArgs_append (K : RK) : ∀ (a b : List Expr), wtRArgs K (a ++ b) = (wtRArgs K a && wtRArgs K b)
  | [], _ => by simp [wtRArgs]
  | e :: a, b => by simp [wtRArgs, wtRArgs_append K a b, Bool.and_assoc]

theorem noExitL_append : ∀ (a b : List Expr), noExitL (a ++ b) = (noExitL a && noExitL b)
  | [], _ => by simp [noExitL]
  | e :: a, b => by simp [noExitL, noExitL_append a b, Bool.and_assoc]

/-! ### W2: no `Exit` -/

/-- the six evaluators never end with `Exit` on trees without `Exit` and calls -/
structure NoExitAll (env : Env) (fuel : Nat) : Prop where
  ev : ∀ e w r w', noExit e = true → eval env fuel e w = (r, w') → ∀ v, r ≠ .exit v
  args : ∀ es w acc r w', noExitL es = true → evalArgs env fuel es w acc = (r, w') → ∀ v, r ≠ .exit v
  seq : ∀ es w r w', noExitL es = true → evalSeq env fuel es w = (r, w') → ∀ v, r ≠ .exit v
  cond : ∀ arms w r w', noExitA arms = true → evalCond env fuel arms w = (r, w') → ∀ v, r ≠ .exit v
  forL : ∀ c st d w r w', noExit c = true → noExit st = true → noExit d = true →
    evalForLoop env fuel c st d w = (r, w') → ∀ v, r ≠ .exit v
  op : ∀ o es w r w', noExitL es = true → evalOp env fuel o es w = (r, w') → ∀ v, r ≠ .exit v

theorem noExitAll_zero (env : Env) : NoExitAll env 0 where
  ev := by intro e w r w' _ h v; simp only [eval] at h; cases h; nofun
  args := by intro es w acc r w' _ h v; simp only [evalArgs] at h; cases h; nofun
  seq := by intro es w r w' _ h v; simp only [evalSeq] at h; cases h; nofun
  cond := by intro arms w r w' _ h v; simp only [evalCond] at h; cases h; nofun
  forL := by intro c st d w r w' _ _ _ h v; simp only [evalForLoop] at h; cases h; nofun
  op := by intro o es w r w' _ h v; simp only [evalOp] at h; cases h; nofun

/-- close a leaf: the result is a literal that is not `Exit`, or the result of a sub-evaluation -/
local macro "nx_leaf" ih:ident v:ident h:ident : tactic => `(tactic| first
  | (cases $h:ident; nofun)
  | exact ($ih).ev _ _ _ _ (by assumption) $h $v
  | exact ($ih).args _ _ _ _ _ (by assumption) $h $v
  | exact ($ih).seq _ _ _ _ (by assumption) $h $v
  | exact ($ih).cond _ _ _ _ (by assumption) $h $v
  | exact ($ih).forL _ _ _ _ _ _ (by assumption) (by assumption) (by assumption) $h $v
  | exact ($ih).op _ _ _ _ _ (by assumption) $h $v)

theorem noExitAll_succ {env : Env} {fuel : Nat} (ih : NoExitAll env fuel) : NoExitAll env (fuel + 1) where
  ev := by
    intro e w r w' hn h v
    have hn0 := hn
    cases e with
    | int _ => simp only [eval] at h; cases h; nofun
    | bytes _ => simp only [eval] at h; cases h; nofun
    | index _ => simp only [eval] at h; cases h; nofun
    | load _ => simp only [eval] at h; cases h; nofun
    | brk => simp only [eval] at h; cases h; nofun
    | cont => simp only [eval] at h; cases h; nofun
    | err => simp only [eval] at h; cases h; nofun
    | exit _ => simp [noExit] at hn
    | call _ _ => simp [noExit] at hn
    | prim op imms args =>
      simp only [noExit] at hn
      simp only [eval] at h
      repeat' split at h
      all_goals nx_leaf ih v h
    | store x e =>
      simp only [noExit] at hn
      simp only [eval] at h
      repeat' split at h
      all_goals nx_leaf ih v h
    | multi op imms args outs =>
      simp only [noExit] at hn
      simp only [eval] at h
      repeat' split at h
      all_goals nx_leaf ih v h
    | seq es =>
      simp only [noExit] at hn
      simp only [eval] at h
      nx_leaf ih v h
    | ite c t e =>
      cases e with
      | none =>
        simp only [noExit, Bool.and_eq_true] at hn
        obtain ⟨h1, h2⟩ := hn
        simp only [eval] at h
        repeat' split at h
        all_goals nx_leaf ih v h
      | some e =>
        simp only [noExit, Bool.and_eq_true] at hn
        obtain ⟨⟨h1, h2⟩, h3⟩ := hn
        simp only [eval] at h
        repeat' split at h
        all_goals nx_leaf ih v h
    | cond arms =>
      simp only [noExit] at hn
      simp only [eval] at h
      nx_leaf ih v h
    | while_ c b =>
      simp only [noExit, Bool.and_eq_true] at hn
      obtain ⟨h1, h2⟩ := hn
      simp only [eval] at h
      repeat' split at h
      all_goals nx_leaf ih v h
    | for_ i c st b =>
      simp only [noExit, Bool.and_eq_true] at hn
      obtain ⟨⟨⟨h1, h2⟩, h3⟩, h4⟩ := hn
      simp only [eval] at h
      repeat' split at h
      all_goals nx_leaf ih v h
    | assert_ c =>
      simp only [noExit] at hn
      simp only [eval] at h
      repeat' split at h
      all_goals nx_leaf ih v h
    | ret e =>
      cases e with
      | none => simp only [eval] at h; cases h; nofun
      | some e =>
        simp only [noExit] at hn
        simp only [eval] at h
        repeat' split at h
        all_goals nx_leaf ih v h
    | wideRatio ns ds =>
      simp only [noExit] at hn
      rw [← noExitL_append] at hn
      rw [eval_wideRatio] at h
      split at h
      · cases h
        rcases wrRes_cases ns.length (by assumption) with ⟨q, hq, _⟩ | ⟨f, hf, _⟩
        · rw [hq]; nofun
        · rw [hf]; nofun
      · nx_leaf ih v h
    | substring a b c =>
      simp only [noExit, Bool.and_eq_true] at hn
      have hl : noExitL [a, b, c] = true := by simp only [noExitL, hn.1.1, hn.1.2, hn.2, Bool.and_self]
      simp only [eval] at h
      nx_leaf ih v h
    | extract a b c =>
      simp only [noExit, Bool.and_eq_true] at hn
      have hl : noExitL [a, b, c] = true := by simp only [noExitL, hn.1.1, hn.1.2, hn.2, Bool.and_self]
      simp only [eval] at h
      nx_leaf ih v h
    | suffix a b =>
      simp only [noExit, Bool.and_eq_true] at hn
      have hl : noExitL [a, b] = true := by simp only [noExitL, hn.1, hn.2, Bool.and_self]
      simp only [eval] at h
      nx_leaf ih v h
    | note e =>
      cases e with
      | none => simp only [eval] at h; cases h; nofun
      | some e =>
        simp only [noExit] at hn
        simp only [eval] at h
        nx_leaf ih v h
    | nonce b e =>
      simp only [noExit] at hn
      simp only [eval] at h
      nx_leaf ih v h
  args := by
    intro es w acc r w' hn h v
    cases es with
    | nil => simp only [evalArgs] at h; cases h; nofun
    | cons e es =>
      simp only [noExitL, Bool.and_eq_true] at hn
      obtain ⟨h1, h2⟩ := hn
      simp only [evalArgs] at h
      repeat' split at h
      all_goals nx_leaf ih v h
  seq := by
    intro es w r w' hn h v
    match es with
    | [] => simp only [evalSeq] at h; cases h; nofun
    | [e] =>
      simp only [noExitL, Bool.and_eq_true] at hn
      obtain ⟨h1, _⟩ := hn
      simp only [evalSeq] at h
      nx_leaf ih v h
    | e :: e2 :: es =>
      have hn0 := hn
      simp only [noExitL, Bool.and_eq_true] at hn
      obtain ⟨h1, h2, h3⟩ := hn
      have h23 : noExitL (e2 :: es) = true := by simp only [noExitL, h2, h3, Bool.and_self]
      simp only [evalSeq] at h
      repeat' split at h
      all_goals nx_leaf ih v h
  cond := by
    intro arms w r w' hn h v
    match arms with
    | [] => simp only [evalCond] at h; cases h; nofun
    | (c, b) :: rest =>
      simp only [noExitA, Bool.and_eq_true] at hn
      obtain ⟨⟨h1, h2⟩, h3⟩ := hn
      simp only [evalCond] at h
      repeat' split at h
      all_goals nx_leaf ih v h
  forL := by
    intro c st d w r w' h1 h2 h3 h v
    simp only [evalForLoop] at h
    repeat' split at h
    all_goals nx_leaf ih v h
  op := by
    intro o es w r w' hn h v
    simp only [evalOp] at h
    repeat' split at h
    all_goals nx_leaf ih v h

/-- **W2.** a tree without `Exit` and without calls never ends with `Exit` -/
theorem noExit_all (env : Env) : ∀ fuel, NoExitAll env fuel
  | 0 => noExitAll_zero env
  | f + 1 => noExitAll_succ (noExit_all env f)

end PyTealV.Proofs.C02Gen
