/-
  C05, part 1: per-opcode soundness of the signature table against `Avm.execPrim`.
-/
import PyTealV.Check.Stack
namespace PyTealV.Proofs.C05
open PyTealV PyTealV.Avm PyTealV.Check.StackCheck

/-- concrete value `v` inhabits abstract type `t` -/
def hasTy : Val → ATy → Prop
  | .u _, .uint64 => True
  | .b _, .bytes => True
  | _, .any => True
  | _, _ => False

/-- pointwise typing of a stack segment (head = top on both sides) -/
def TysOK : List Val → List ATy → Prop
  | [], [] => True
  | v :: vs, t :: ts => hasTy v t ∧ TysOK vs ts
  | _, _ => False

@[simp] theorem hasTy_any (v : Val) : hasTy v .any := by cases v <;> trivial
@[simp] theorem hasTy_u_u (n : Nat) : hasTy (.u n) .uint64 := trivial
@[simp] theorem hasTy_b_b (x : Bytes) : hasTy (.b x) .bytes := trivial
@[simp] theorem hasTy_u_b (n : Nat) : ¬ hasTy (.u n) .bytes := fun h => h
@[simp] theorem hasTy_b_u (x : Bytes) : ¬ hasTy (.b x) .uint64 := fun h => h
@[simp] theorem TysOK_nil : TysOK [] [] := trivial
@[simp] theorem TysOK_cons (v vs t ts) : TysOK (v :: vs) (t :: ts) ↔ hasTy v t ∧ TysOK vs ts := Iff.rfl
@[simp] theorem TysOK_nil_cons (t ts) : ¬ TysOK [] (t :: ts) := fun h => h
@[simp] theorem TysOK_cons_nil (v vs) : ¬ TysOK (v :: vs) [] := fun h => h

/-- failures an opcode may produce whatever the stack looks like below its operands: not an
    underflow and none of the control failures of `Avm.step` -/
def Mild (e : Fail) : Prop :=
  e ≠ .underflow ∧ (∀ m, e ≠ .frame m) ∧ e ≠ .badPc ∧ ∀ l, e ≠ .badLabel l

/-- Outcome of an opcode on `vs ++ r` is fine: on success the pushed values have the signature's
    types, everything below the operands (`r`) is untouched and scratch space is unchanged; on
    failure it is never a stack underflow, and never a type error when the operands are typed. -/
def ResOK (r : List Val) (pushes : List ATy) (sc : List (Nat × Val)) (typed : Prop) :
    M (List Val × World) → Prop
  | .ok (st', w') => TysOK (st'.take pushes.length) pushes ∧ st'.drop pushes.length = r ∧ w'.scratch = sc
  | .error e => Mild e ∧ (typed → ∀ m, e ≠ .typeErr m)

/-- `pops`/`pushes` in stack order (head = top) -/
def PrimOK (cx : Ctx) (op : String) (imms : List String) (pops pushes : List ATy) : Prop :=
  ∀ (w : World) (vs r : List Val), vs.length = pops.length →
    ResOK r pushes w.scratch (TysOK vs pops) (execPrim cx op imms w (vs ++ r))

theorem primOK_of0 {cx op imms pushes}
    (h : ∀ (w : World) (r : List Val), ResOK r pushes w.scratch True (execPrim cx op imms w r)) :
    PrimOK cx op imms [] pushes := by
  intro w vs r hl
  match vs, hl with
  | [], _ => simpa using h w r

theorem primOK_of1 {cx op imms pushes t1}
    (h : ∀ (w : World) (x1 : Val) (r : List Val),
      ResOK r pushes w.scratch (hasTy x1 t1) (execPrim cx op imms w (x1 :: r))) :
    PrimOK cx op imms [t1] pushes := by
  intro w vs r hl
  match vs, hl with
  | [x1], _ => simpa using h w x1 r

theorem primOK_of2 {cx op imms pushes t1 t2}
    (h : ∀ (w : World) (x1 x2 : Val) (r : List Val),
      ResOK r pushes w.scratch (hasTy x1 t1 ∧ hasTy x2 t2) (execPrim cx op imms w (x1 :: x2 :: r))) :
    PrimOK cx op imms [t1, t2] pushes := by
  intro w vs r hl
  match vs, hl with
  | [x1, x2], _ => simpa using h w x1 x2 r

theorem primOK_of3 {cx op imms pushes t1 t2 t3}
    (h : ∀ (w : World) (x1 x2 x3 : Val) (r : List Val),
      ResOK r pushes w.scratch (hasTy x1 t1 ∧ hasTy x2 t2 ∧ hasTy x3 t3)
        (execPrim cx op imms w (x1 :: x2 :: x3 :: r))) :
    PrimOK cx op imms [t1, t2, t3] pushes := by
  intro w vs r hl
  match vs, hl with
  | [x1, x2, x3], _ => simpa using h w x1 x2 x3 r

theorem primOK_of4 {cx op imms pushes t1 t2 t3 t4}
    (h : ∀ (w : World) (x1 x2 x3 x4 : Val) (r : List Val),
      ResOK r pushes w.scratch (hasTy x1 t1 ∧ hasTy x2 t2 ∧ hasTy x3 t3 ∧ hasTy x4 t4)
        (execPrim cx op imms w (x1 :: x2 :: x3 :: x4 :: r))) :
    PrimOK cx op imms [t1, t2, t3, t4] pushes := by
  intro w vs r hl
  match vs, hl with
  | [x1, x2, x3, x4], _ => simpa using h w x1 x2 x3 x4 r


/-! ### Proof automation for one opcode

  `conv whnf` selects the opcode's alternative of `execPrim` (a 180-way match on a string literal)
  and stops at the first stuck monadic step; from there the goal is kept in `Except.bind` form and
  decomposed by three rules: re-association, case split on the scrutinee (`split`), and the generic
  bind rule.  Helper functions are unfolded so that every failure is an explicit `Fail` literal. -/

theorem ResOK_bind {α} {r p sc typed} (x : M α) (f : α → M (List Val × World))
    (h1 : ∀ e, x = .error e → ResOK r p sc typed (.error e))
    (h2 : ∀ v, x = .ok v → ResOK r p sc typed (f v)) : ResOK r p sc typed (x.bind f) := by
  cases x with
  | error e => exact h1 e rfl
  | ok v => exact h2 v rfl

theorem ResOK_bind_bind {α β} {r p sc typed} (x : M α) (g : α → M β) (f : β → M (List Val × World))
    (h : ResOK r p sc typed (x.bind (fun a => (g a).bind f))) : ResOK r p sc typed ((x.bind g).bind f) := by
  cases x <;> exact h

/-- `whnf` unfolds a head `if` into `Decidable.rec`; this folds it back -/
theorem decRec_ite {α : Type} {c : Prop} (inst : Decidable c) (t e : α) :
    (Decidable.rec (fun _ => e) (fun _ => t) inst : α) = @ite α c inst t e := by
  cases inst <;> rfl

/-- `whnf` exposes the matcher of `Except.bind`; this folds it back to function form -/
theorem refold_match {α β : Type} (x : M α) (f : α → M β) :
    Except.map.match_1 (fun _ => M β) x (fun err => Except.error err) f = Except.bind x f := by
  cases x <;> rfl

theorem bind_eq {α β} (x : M α) (f : α → M β) : x >>= f = Except.bind x f := rfl
theorem pure_eq {α} (a : α) : (pure a : M α) = Except.ok a := rfl
theorem throw_eq {α} (e : Fail) : (throw e : M α) = Except.error e := rfl
theorem ok_bind {α β} (a : α) (f : α → M β) : Except.bind (Except.ok a) f = f a := rfl
theorem err_bind {α β} (e : Fail) (f : α → M β) : Except.bind (Except.error e : M α) f = Except.error e := rfl

macro "prim_norm" : tactic => `(tactic|
  try simp only [refold_match, decRec_ite, bind_eq, pure_eq, throw_eq, ok_bind, err_bind, pop1, pop2, pop3, pop4, asU, asB,
    mkU, mkB, immNat, immStr, sliceB, bmath, bcmp, bbit, expNat, getBitB, setBitB])

macro "close_leaf" : tactic => `(tactic|
  (simp only [ResOK, Mild, oracle2]; (try split) <;> simp_all (config := {failIfUnchanged := false}) [boolV]; done))

syntax "prim_loop" : tactic
macro_rules | `(tactic| prim_loop) => `(tactic|
  (prim_norm;
   first
   | close_leaf
   | ((first
        | split
        | refine ResOK_bind_bind _ _ _ ?_
        | refine ResOK_bind _ _ ?_ ?_) <;> (intros; prim_loop))))

macro "prim_go" : tactic => `(tactic| ((conv => arg 5; whnf); prim_loop))

macro "prim_auto" : tactic => `(tactic| first
  | (apply primOK_of0; intro w r; prim_go)
  | (apply primOK_of1; intro w x1 r; cases x1 <;> prim_go)
  | (apply primOK_of2; intro w x1 x2 r; cases x1 <;> cases x2 <;> prim_go)
  | (apply primOK_of3; intro w x1 x2 x3 r; cases x1 <;> cases x2 <;> cases x3 <;> prim_go)
  | (apply primOK_of4; intro w x1 x2 x3 x4 r; cases x1 <;> cases x2 <;> cases x3 <;> cases x4 <;> prim_go))

/-! ### One lemma per table entry (signatures in stack order: head = top) -/

theorem tbl_0 (cx : Ctx) (imms : List String) : PrimOK cx "+" imms [.uint64, .uint64] [.uint64] := by prim_auto
theorem tbl_1 (cx : Ctx) (imms : List String) : PrimOK cx "-" imms [.uint64, .uint64] [.uint64] := by prim_auto
theorem tbl_2 (cx : Ctx) (imms : List String) : PrimOK cx "*" imms [.uint64, .uint64] [.uint64] := by prim_auto
theorem tbl_3 (cx : Ctx) (imms : List String) : PrimOK cx "/" imms [.uint64, .uint64] [.uint64] := by prim_auto
theorem tbl_4 (cx : Ctx) (imms : List String) : PrimOK cx "%" imms [.uint64, .uint64] [.uint64] := by prim_auto
theorem tbl_5 (cx : Ctx) (imms : List String) : PrimOK cx "<" imms [.uint64, .uint64] [.uint64] := by prim_auto
theorem tbl_6 (cx : Ctx) (imms : List String) : PrimOK cx ">" imms [.uint64, .uint64] [.uint64] := by prim_auto
theorem tbl_7 (cx : Ctx) (imms : List String) : PrimOK cx "<=" imms [.uint64, .uint64] [.uint64] := by prim_auto
theorem tbl_8 (cx : Ctx) (imms : List String) : PrimOK cx ">=" imms [.uint64, .uint64] [.uint64] := by prim_auto
theorem tbl_9 (cx : Ctx) (imms : List String) : PrimOK cx "&&" imms [.uint64, .uint64] [.uint64] := by prim_auto
theorem tbl_10 (cx : Ctx) (imms : List String) : PrimOK cx "||" imms [.uint64, .uint64] [.uint64] := by prim_auto
theorem tbl_11 (cx : Ctx) (imms : List String) : PrimOK cx "&" imms [.uint64, .uint64] [.uint64] := by prim_auto
theorem tbl_12 (cx : Ctx) (imms : List String) : PrimOK cx "|" imms [.uint64, .uint64] [.uint64] := by prim_auto
theorem tbl_13 (cx : Ctx) (imms : List String) : PrimOK cx "^" imms [.uint64, .uint64] [.uint64] := by prim_auto
theorem tbl_14 (cx : Ctx) (imms : List String) : PrimOK cx "shl" imms [.uint64, .uint64] [.uint64] := by prim_auto
theorem tbl_15 (cx : Ctx) (imms : List String) : PrimOK cx "shr" imms [.uint64, .uint64] [.uint64] := by prim_auto
theorem tbl_16 (cx : Ctx) (imms : List String) : PrimOK cx "exp" imms [.uint64, .uint64] [.uint64] := by prim_auto
theorem tbl_17 (cx : Ctx) (imms : List String) : PrimOK cx "!" imms [.uint64] [.uint64] := by prim_auto
theorem tbl_18 (cx : Ctx) (imms : List String) : PrimOK cx "~" imms [.uint64] [.uint64] := by prim_auto
theorem tbl_19 (cx : Ctx) (imms : List String) : PrimOK cx "sqrt" imms [.uint64] [.uint64] := by prim_auto
theorem tbl_20 (cx : Ctx) (imms : List String) : PrimOK cx "bitlen" imms [.any] [.uint64] := by prim_auto
theorem tbl_21 (cx : Ctx) (imms : List String) : PrimOK cx "mulw" imms [.uint64, .uint64] [.uint64, .uint64] := by prim_auto
theorem tbl_22 (cx : Ctx) (imms : List String) : PrimOK cx "addw" imms [.uint64, .uint64] [.uint64, .uint64] := by prim_auto
theorem tbl_23 (cx : Ctx) (imms : List String) : PrimOK cx "expw" imms [.uint64, .uint64] [.uint64, .uint64] := by prim_auto
theorem tbl_24 (cx : Ctx) (imms : List String) : PrimOK cx "divw" imms [.uint64, .uint64, .uint64] [.uint64] := by prim_auto
theorem tbl_25 (cx : Ctx) (imms : List String) : PrimOK cx "len" imms [.bytes] [.uint64] := by prim_auto
theorem tbl_26 (cx : Ctx) (imms : List String) : PrimOK cx "itob" imms [.uint64] [.bytes] := by prim_auto
theorem tbl_27 (cx : Ctx) (imms : List String) : PrimOK cx "btoi" imms [.bytes] [.uint64] := by prim_auto
theorem tbl_28 (cx : Ctx) (imms : List String) : PrimOK cx "concat" imms [.bytes, .bytes] [.bytes] := by prim_auto
theorem tbl_29 (cx : Ctx) (imms : List String) : PrimOK cx "substring" imms [.bytes] [.bytes] := by prim_auto
theorem tbl_30 (cx : Ctx) (imms : List String) : PrimOK cx "substring3" imms [.uint64, .uint64, .bytes] [.bytes] := by prim_auto
theorem tbl_31 (cx : Ctx) (imms : List String) : PrimOK cx "extract" imms [.bytes] [.bytes] := by prim_auto
theorem tbl_32 (cx : Ctx) (imms : List String) : PrimOK cx "extract3" imms [.uint64, .uint64, .bytes] [.bytes] := by prim_auto
theorem tbl_33 (cx : Ctx) (imms : List String) : PrimOK cx "extract_uint16" imms [.uint64, .bytes] [.uint64] := by prim_auto
theorem tbl_34 (cx : Ctx) (imms : List String) : PrimOK cx "extract_uint32" imms [.uint64, .bytes] [.uint64] := by prim_auto
theorem tbl_35 (cx : Ctx) (imms : List String) : PrimOK cx "extract_uint64" imms [.uint64, .bytes] [.uint64] := by prim_auto
theorem tbl_36 (cx : Ctx) (imms : List String) : PrimOK cx "getbit" imms [.uint64, .any] [.uint64] := by prim_auto
theorem tbl_37 (cx : Ctx) (imms : List String) : PrimOK cx "getbyte" imms [.uint64, .bytes] [.uint64] := by prim_auto
theorem tbl_38 (cx : Ctx) (imms : List String) : PrimOK cx "setbyte" imms [.uint64, .uint64, .bytes] [.bytes] := by prim_auto
theorem tbl_39 (cx : Ctx) (imms : List String) : PrimOK cx "bzero" imms [.uint64] [.bytes] := by prim_auto
theorem tbl_40 (cx : Ctx) (imms : List String) : PrimOK cx "replace2" imms [.bytes, .bytes] [.bytes] := by prim_auto
theorem tbl_41 (cx : Ctx) (imms : List String) : PrimOK cx "replace3" imms [.bytes, .uint64, .bytes] [.bytes] := by prim_auto
theorem tbl_42 (cx : Ctx) (imms : List String) : PrimOK cx "base64_decode" imms [.bytes] [.bytes] := by prim_auto
theorem tbl_43 (cx : Ctx) (imms : List String) : PrimOK cx "b+" imms [.bytes, .bytes] [.bytes] := by prim_auto
theorem tbl_44 (cx : Ctx) (imms : List String) : PrimOK cx "b-" imms [.bytes, .bytes] [.bytes] := by prim_auto
theorem tbl_45 (cx : Ctx) (imms : List String) : PrimOK cx "b*" imms [.bytes, .bytes] [.bytes] := by prim_auto
theorem tbl_46 (cx : Ctx) (imms : List String) : PrimOK cx "b/" imms [.bytes, .bytes] [.bytes] := by prim_auto
theorem tbl_47 (cx : Ctx) (imms : List String) : PrimOK cx "b%" imms [.bytes, .bytes] [.bytes] := by prim_auto
theorem tbl_48 (cx : Ctx) (imms : List String) : PrimOK cx "b|" imms [.bytes, .bytes] [.bytes] := by prim_auto
theorem tbl_49 (cx : Ctx) (imms : List String) : PrimOK cx "b&" imms [.bytes, .bytes] [.bytes] := by prim_auto
theorem tbl_50 (cx : Ctx) (imms : List String) : PrimOK cx "b^" imms [.bytes, .bytes] [.bytes] := by prim_auto
theorem tbl_51 (cx : Ctx) (imms : List String) : PrimOK cx "b<" imms [.bytes, .bytes] [.uint64] := by prim_auto
theorem tbl_52 (cx : Ctx) (imms : List String) : PrimOK cx "b>" imms [.bytes, .bytes] [.uint64] := by prim_auto
theorem tbl_53 (cx : Ctx) (imms : List String) : PrimOK cx "b<=" imms [.bytes, .bytes] [.uint64] := by prim_auto
theorem tbl_54 (cx : Ctx) (imms : List String) : PrimOK cx "b>=" imms [.bytes, .bytes] [.uint64] := by prim_auto
theorem tbl_55 (cx : Ctx) (imms : List String) : PrimOK cx "b==" imms [.bytes, .bytes] [.uint64] := by prim_auto
theorem tbl_56 (cx : Ctx) (imms : List String) : PrimOK cx "b!=" imms [.bytes, .bytes] [.uint64] := by prim_auto
theorem tbl_57 (cx : Ctx) (imms : List String) : PrimOK cx "b~" imms [.bytes] [.bytes] := by prim_auto
theorem tbl_58 (cx : Ctx) (imms : List String) : PrimOK cx "bsqrt" imms [.bytes] [.bytes] := by prim_auto
theorem tbl_59 (cx : Ctx) (imms : List String) : PrimOK cx "sha256" imms [.bytes] [.bytes] := by prim_auto
theorem tbl_60 (cx : Ctx) (imms : List String) : PrimOK cx "keccak256" imms [.bytes] [.bytes] := by prim_auto
theorem tbl_61 (cx : Ctx) (imms : List String) : PrimOK cx "sha512_256" imms [.bytes] [.bytes] := by prim_auto
theorem tbl_62 (cx : Ctx) (imms : List String) : PrimOK cx "sha3_256" imms [.bytes] [.bytes] := by prim_auto
theorem tbl_63 (cx : Ctx) (imms : List String) : PrimOK cx "ed25519verify" imms [.bytes, .bytes, .bytes] [.uint64] := by prim_auto
theorem tbl_64 (cx : Ctx) (imms : List String) : PrimOK cx "ed25519verify_bare" imms [.bytes, .bytes, .bytes] [.uint64] := by prim_auto
theorem tbl_65 (cx : Ctx) (imms : List String) : PrimOK cx "assert" imms [.uint64] [] := by prim_auto
theorem tbl_66 (cx : Ctx) (imms : List String) : PrimOK cx "loads" imms [.uint64] [.any] := by prim_auto
theorem tbl_67 (cx : Ctx) (imms : List String) : PrimOK cx "arg" imms [] [.bytes] := by prim_auto
theorem tbl_68 (cx : Ctx) (imms : List String) : PrimOK cx "arg_0" imms [] [.bytes] := by prim_auto
theorem tbl_69 (cx : Ctx) (imms : List String) : PrimOK cx "arg_1" imms [] [.bytes] := by prim_auto
theorem tbl_70 (cx : Ctx) (imms : List String) : PrimOK cx "arg_2" imms [] [.bytes] := by prim_auto
theorem tbl_71 (cx : Ctx) (imms : List String) : PrimOK cx "arg_3" imms [] [.bytes] := by prim_auto
theorem tbl_72 (cx : Ctx) (imms : List String) : PrimOK cx "args" imms [.uint64] [.bytes] := by prim_auto
theorem tbl_73 (cx : Ctx) (imms : List String) : PrimOK cx "app_global_get" imms [.bytes] [.any] := by prim_auto
theorem tbl_74 (cx : Ctx) (imms : List String) : PrimOK cx "app_global_get_ex" imms [.bytes, .uint64] [.uint64, .any] := by prim_auto
theorem tbl_75 (cx : Ctx) (imms : List String) : PrimOK cx "app_global_put" imms [.any, .bytes] [] := by prim_auto
theorem tbl_76 (cx : Ctx) (imms : List String) : PrimOK cx "app_global_del" imms [.bytes] [] := by prim_auto
theorem tbl_77 (cx : Ctx) (imms : List String) : PrimOK cx "app_local_get" imms [.bytes, .any] [.any] := by prim_auto
theorem tbl_78 (cx : Ctx) (imms : List String) : PrimOK cx "app_local_get_ex" imms [.bytes, .uint64, .any] [.uint64, .any] := by prim_auto
theorem tbl_79 (cx : Ctx) (imms : List String) : PrimOK cx "app_local_put" imms [.any, .bytes, .any] [] := by prim_auto
theorem tbl_80 (cx : Ctx) (imms : List String) : PrimOK cx "app_local_del" imms [.bytes, .any] [] := by prim_auto
theorem tbl_81 (cx : Ctx) (imms : List String) : PrimOK cx "app_opted_in" imms [.uint64, .any] [.uint64] := by prim_auto
theorem tbl_82 (cx : Ctx) (imms : List String) : PrimOK cx "balance" imms [.any] [.uint64] := by prim_auto
theorem tbl_83 (cx : Ctx) (imms : List String) : PrimOK cx "min_balance" imms [.any] [.uint64] := by prim_auto
theorem tbl_84 (cx : Ctx) (imms : List String) : PrimOK cx "asset_holding_get" imms [.uint64, .any] [.uint64, .uint64] := by prim_auto
theorem tbl_85 (cx : Ctx) (imms : List String) : PrimOK cx "log" imms [.bytes] [] := by prim_auto
theorem tbl_86 (cx : Ctx) (imms : List String) : PrimOK cx "box_create" imms [.uint64, .bytes] [.uint64] := by prim_auto
theorem tbl_87 (cx : Ctx) (imms : List String) : PrimOK cx "box_put" imms [.bytes, .bytes] [] := by prim_auto
theorem tbl_88 (cx : Ctx) (imms : List String) : PrimOK cx "box_get" imms [.bytes] [.uint64, .bytes] := by prim_auto
theorem tbl_89 (cx : Ctx) (imms : List String) : PrimOK cx "box_len" imms [.bytes] [.uint64, .uint64] := by prim_auto
theorem tbl_90 (cx : Ctx) (imms : List String) : PrimOK cx "box_del" imms [.bytes] [.uint64] := by prim_auto
theorem tbl_91 (cx : Ctx) (imms : List String) : PrimOK cx "box_extract" imms [.uint64, .uint64, .bytes] [.bytes] := by prim_auto
theorem tbl_92 (cx : Ctx) (imms : List String) : PrimOK cx "box_replace" imms [.bytes, .uint64, .bytes] [] := by prim_auto
theorem tbl_93 (cx : Ctx) (imms : List String) : PrimOK cx "itxn_begin" imms [] [] := by prim_auto
theorem tbl_94 (cx : Ctx) (imms : List String) : PrimOK cx "itxn_next" imms [] [] := by prim_auto
theorem tbl_95 (cx : Ctx) (imms : List String) : PrimOK cx "itxn_submit" imms [] [] := by prim_auto

/-- every entry of `coveredTable` is sound for `execPrim` -/
theorem coveredTable_ok (cx : Ctx) : ∀ e ∈ coveredTable, ∀ imms,
    PrimOK cx e.1 imms e.2.1.reverse e.2.2.reverse := by
  intro e he imms
  simp only [coveredTable, List.mem_cons, List.not_mem_nil, or_false] at he
  rcases he with rfl | rfl | rfl | rfl | rfl | rfl | rfl | rfl | rfl | rfl | rfl | rfl | rfl | rfl | rfl | rfl | rfl | rfl | rfl | rfl | rfl | rfl | rfl | rfl | rfl | rfl | rfl | rfl | rfl | rfl | rfl | rfl | rfl | rfl | rfl | rfl | rfl | rfl | rfl | rfl | rfl | rfl | rfl | rfl | rfl | rfl | rfl | rfl | rfl | rfl | rfl | rfl | rfl | rfl | rfl | rfl | rfl | rfl | rfl | rfl | rfl | rfl | rfl | rfl | rfl | rfl | rfl | rfl | rfl | rfl | rfl | rfl | rfl | rfl | rfl | rfl | rfl | rfl | rfl | rfl | rfl | rfl | rfl | rfl | rfl | rfl | rfl | rfl | rfl | rfl | rfl | rfl | rfl | rfl | rfl | rfl
  · exact tbl_0 cx imms
  · exact tbl_1 cx imms
  · exact tbl_2 cx imms
  · exact tbl_3 cx imms
  · exact tbl_4 cx imms
  · exact tbl_5 cx imms
  · exact tbl_6 cx imms
  · exact tbl_7 cx imms
  · exact tbl_8 cx imms
  · exact tbl_9 cx imms
  · exact tbl_10 cx imms
  · exact tbl_11 cx imms
  · exact tbl_12 cx imms
  · exact tbl_13 cx imms
  · exact tbl_14 cx imms
  · exact tbl_15 cx imms
  · exact tbl_16 cx imms
  · exact tbl_17 cx imms
  · exact tbl_18 cx imms
  · exact tbl_19 cx imms
  · exact tbl_20 cx imms
  · exact tbl_21 cx imms
  · exact tbl_22 cx imms
  · exact tbl_23 cx imms
  · exact tbl_24 cx imms
  · exact tbl_25 cx imms
  · exact tbl_26 cx imms
  · exact tbl_27 cx imms
  · exact tbl_28 cx imms
  · exact tbl_29 cx imms
  · exact tbl_30 cx imms
  · exact tbl_31 cx imms
  · exact tbl_32 cx imms
  · exact tbl_33 cx imms
  · exact tbl_34 cx imms
  · exact tbl_35 cx imms
  · exact tbl_36 cx imms
  · exact tbl_37 cx imms
  · exact tbl_38 cx imms
  · exact tbl_39 cx imms
  · exact tbl_40 cx imms
  · exact tbl_41 cx imms
  · exact tbl_42 cx imms
  · exact tbl_43 cx imms
  · exact tbl_44 cx imms
  · exact tbl_45 cx imms
  · exact tbl_46 cx imms
  · exact tbl_47 cx imms
  · exact tbl_48 cx imms
  · exact tbl_49 cx imms
  · exact tbl_50 cx imms
  · exact tbl_51 cx imms
  · exact tbl_52 cx imms
  · exact tbl_53 cx imms
  · exact tbl_54 cx imms
  · exact tbl_55 cx imms
  · exact tbl_56 cx imms
  · exact tbl_57 cx imms
  · exact tbl_58 cx imms
  · exact tbl_59 cx imms
  · exact tbl_60 cx imms
  · exact tbl_61 cx imms
  · exact tbl_62 cx imms
  · exact tbl_63 cx imms
  · exact tbl_64 cx imms
  · exact tbl_65 cx imms
  · exact tbl_66 cx imms
  · exact tbl_67 cx imms
  · exact tbl_68 cx imms
  · exact tbl_69 cx imms
  · exact tbl_70 cx imms
  · exact tbl_71 cx imms
  · exact tbl_72 cx imms
  · exact tbl_73 cx imms
  · exact tbl_74 cx imms
  · exact tbl_75 cx imms
  · exact tbl_76 cx imms
  · exact tbl_77 cx imms
  · exact tbl_78 cx imms
  · exact tbl_79 cx imms
  · exact tbl_80 cx imms
  · exact tbl_81 cx imms
  · exact tbl_82 cx imms
  · exact tbl_83 cx imms
  · exact tbl_84 cx imms
  · exact tbl_85 cx imms
  · exact tbl_86 cx imms
  · exact tbl_87 cx imms
  · exact tbl_88 cx imms
  · exact tbl_89 cx imms
  · exact tbl_90 cx imms
  · exact tbl_91 cx imms
  · exact tbl_92 cx imms
  · exact tbl_93 cx imms
  · exact tbl_94 cx imms
  · exact tbl_95 cx imms

end PyTealV.Proofs.C05
