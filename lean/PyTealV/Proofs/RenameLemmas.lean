/-
  Renaming invariance of the source semantics — definitions and lemmas (relations between the
  worlds of the original and of the renamed program; scratch writes; opcodes; parameter binding).
  The theorems are in `Proofs/Rename.lean`.
-/
import PyTealV.Proofs.C02GenValid
import PyTealV.Check.RenameOk
namespace PyTealV.Proofs.Rename
open PyTealV PyTealV.Avm PyTealV.Src PyTealV.Comp PyTealV.Check PyTealV.Models.FragmentR
open PyTealV.Models.Optimizer (framedOps setSc execPrim_frame)
open PyTealV.Proofs.C02Spill (getSlot_setSlot)
open PyTealV.Proofs.C02Gen (kindsOf_lookup exec_vloads_u exec_vstores_u arity_all)

/-- context, original program, renaming -/
structure RCtx where
  cx : Ctx
  p : Prog
  f : Nat → Nat

namespace RCtx
/-- the variables of the program -/
def D (C : RCtx) : List Nat := varsP C.p
/-- the by-reference parameter cells of the program -/
def R (C : RCtx) : List Nat := allRefSlots C.p
/-- the renamed program -/
def p' (C : RCtx) : Prog := renameProg C.f C.p
def env (C : RCtx) (cur : Option Nat) : Env := ⟨C.cx, C.p, cur⟩
def env' (C : RCtx) (cur : Option Nat) : Env := ⟨C.cx, C.p', cur⟩
end RCtx

/-- the by-reference parameter cells of the current routine -/
def rpOf (p : Prog) (cur : Option Nat) : List Nat :=
  match cur with
  | some c => (match findSub p c with
    | some cd => refSlots cd
    | none => [])
  | none => []

def RCtx.dk (C : RCtx) (cur : Option Nat) : DK := dkOf C.f C.p (rpOf C.p cur)

/-- the semantic content of `renameOk` that the invariance proof uses -/
structure ROk (C : RCtx) : Prop where
  inj : ∀ a, a ∈ C.D → ∀ b, b ∈ C.D → C.f a = C.f b → a = b
  subs : ∀ g sd, g ∈ liveSet C.p → findSub C.p g = some sd → dOk (C.dk (some g)) sd.body = true
  vals : ∀ sd, sd ∈ C.p.subs → sd.id ∈ liveSet C.p → ∀ v, v ∈ valSlots sd → v ∉ C.R

/-- a reference and its renamed form -/
def RefV (C : RCtx) (a b : Val) : Prop := ∃ s, s ∈ C.D ∧ s ∉ C.R ∧ a = .u s ∧ b = .u (C.f s)

/-- contents of cell `v` / of cell `f v`: equal for plain cells; a by-reference parameter cell
    holds a reference (always, if it is in `S`: the cells of the routines with an activation) or
    equal values (never bound so far) -/
def Cell (C : RCtx) (S : Nat → Prop) (v : Nat) (a b : Val) : Prop :=
  if v ∈ C.R then (RefV C a b ∨ (¬ S v ∧ a = b)) else a = b

abbrev Scratch := List (Nat × Val)

def ScR (C : RCtx) (S : Nat → Prop) (sc sc' : Scratch) : Prop :=
  ∀ v, v ∈ C.D → Cell C S v (getSlot sc v) (getSlot sc' (C.f v))

/-- **the relation between the worlds**: everything but scratch space equal, scratch related cell by cell -/
structure WR (C : RCtx) (S : Nat → Prop) (w w' : World) : Prop where
  rest : w' = { w with scratch := w'.scratch }
  sc : ScR C S w.scratch w'.scratch

/-- same result, related worlds -/
def Sim (C : RCtx) (S : Nat → Prop) (x y : Res × World) : Prop := y.1 = x.1 ∧ WR C S x.2 y.2

theorem Cell.plain {C : RCtx} {S : Nat → Prop} {v : Nat} (hv : v ∉ C.R) (a : Val) : Cell C S v a a := by
  unfold Cell; rw [if_neg hv]

theorem Cell.ref {C : RCtx} {S : Nat → Prop} {v : Nat} {a b : Val} (h : RefV C a b) (hv : v ∈ C.R) : Cell C S v a b := by
  unfold Cell; rw [if_pos hv]; exact .inl h

theorem Cell.weaken {C : RCtx} {S T : Nat → Prop} (hST : ∀ v, T v → S v) {v : Nat} {a b : Val} (h : Cell C S v a b) :
    Cell C T v a b := by
  unfold Cell at h ⊢
  split
  · rename_i hv; rw [if_pos hv] at h
    exact h.imp id (fun ⟨h1, h2⟩ => ⟨fun ht => h1 (hST v ht), h2⟩)
  · rename_i hv; rw [if_neg hv] at h; exact h

theorem ScR.weaken {C : RCtx} {S T : Nat → Prop} (hST : ∀ v, T v → S v) {sc sc' : Scratch} (h : ScR C S sc sc') :
    ScR C T sc sc' := fun v hv => (h v hv).weaken hST

theorem WR.weaken {C : RCtx} {S T : Nat → Prop} (hST : ∀ v, T v → S v) {w w' : World} (h : WR C S w w') : WR C T w w' :=
  ⟨h.rest, h.sc.weaken hST⟩

theorem WR.withSc {C : RCtx} {S : Nat → Prop} {w w' : World} (h : WR C S w w') {sc sc' : Scratch} (hs : ScR C S sc sc') :
    WR C S { w with scratch := sc } { w' with scratch := sc' } := by
  refine ⟨?_, hs⟩
  have := h.rest
  rw [this]

/-- one write: cell `v` / cell `f v` -/
theorem ScR.set {C : RCtx} (hok : ROk C) {S : Nat → Prop} {sc sc' : Scratch} (h : ScR C S sc sc') {v : Nat} (hv : v ∈ C.D)
    {a b : Val} (hc : Cell C S v a b) : ScR C S (setSlot sc v a) (setSlot sc' (C.f v) b) := by
  intro u hu
  rw [getSlot_setSlot, getSlot_setSlot]
  by_cases huv : u = v
  · subst huv; simpa using hc
  · have : C.f u ≠ C.f v := fun e => huv (hok.inj u hu v hv e)
    rw [if_neg huv, if_neg this]
    exact h u hu

/-- a list of writes -/
theorem ScR.setList {C : RCtx} (hok : ROk C) {S : Nat → Prop} :
    ∀ (l : List (Nat × Val × Val)), (∀ t, t ∈ l → t.1 ∈ C.D ∧ Cell C S t.1 t.2.1 t.2.2) →
      ∀ {sc sc' : Scratch}, ScR C S sc sc' →
      ScR C S ((l.map (fun t => (t.1, t.2.1))).foldl (fun sc (p : Var × Val) => setSlot sc p.1 p.2) sc)
              ((l.map (fun t => (C.f t.1, t.2.2))).foldl (fun sc (p : Var × Val) => setSlot sc p.1 p.2) sc')
  | [], _, _, _, h => h
  | t :: l, hl, _, _, h => by
    simp only [List.map_cons, List.foldl_cons]
    exact ScR.setList hok l (fun t' ht' => hl t' (List.mem_cons_of_mem _ ht'))
      (ScR.set hok h (hl t (List.mem_cons_self ..)).1 (hl t (List.mem_cons_self ..)).2)

/-! ### the renamed program -/

theorem findSub_id {p : Prog} {g : Nat} {sd : SubDef} (h : findSub p g = some sd) : sd.id = g := by
  have := List.find?_some h
  simpa using this

theorem findSub_mem {p : Prog} {g : Nat} {sd : SubDef} (h : findSub p g = some sd) : sd ∈ p.subs :=
  List.mem_of_find?_eq_some h

theorem findSub_rename (f : Nat → Nat) (p : Prog) (g : Nat) :
    findSub (renameProg f p) g = (findSub p g).map (renameSub f) := by
  unfold findSub renameProg
  simp only
  rw [List.find?_map]
  rfl

theorem mem_varsP_of_sub {p : Prog} {sd : SubDef} (h : sd ∈ p.subs) (hl : sd.id ∈ liveSet p) {v : Nat} (hv : v ∈ varsSub sd) :
    v ∈ varsP p := by
  unfold varsP
  simp only [List.mem_append, List.mem_flatMap, List.mem_filter]
  exact .inr ⟨sd, ⟨h, by simpa using hl⟩, hv⟩

theorem mem_allRefSlots {p : Prog} {sd : SubDef} (h : sd ∈ p.subs) {v : Nat} (hv : v ∈ refSlots sd) : v ∈ allRefSlots p := by
  unfold allRefSlots
  simp only [List.mem_flatMap]
  exact ⟨sd, h, hv⟩

/-! ### opcodes -/

/-- an opcode that neither reads nor writes scratch space -/
theorem exec_framed {C : RCtx} {S : Nat → Prop} {op : String} (hop : framedOps.contains op = true) (imms : List String)
    {w w' : World} (hW : WR C S w w') (st : List Val) :
    match execPrim C.cx op imms w st with
    | .ok (st', w2) => ∃ w2', execPrim C.cx op imms w' st = .ok (st', w2') ∧ WR C S w2 w2'
    | .error e => execPrim C.cx op imms w' st = .error e := by
  have h1 := execPrim_frame C.cx op imms w w'.scratch st hop
  have h0 := execPrim_frame C.cx op imms w w.scratch st hop
  rw [← hW.rest] at h1
  have hw : ({ w with scratch := w.scratch } : World) = w := rfl
  rw [hw] at h0
  rw [h1]
  cases hr : execPrim C.cx op imms w st with
  | error e => rfl
  | ok x =>
    obtain ⟨st', w2⟩ := x
    rw [hr] at h0
    simp only [Except.map, setSc, Except.ok.injEq, Prod.mk.injEq, true_and] at h0
    refine ⟨_, rfl, ⟨rfl, ?_⟩⟩
    rw [h0]
    exact hW.sc


/-! ### closed forms of the `call` and `wideRatio` arms of `Src.eval` -/

def callerLocalsOf (p : Prog) (cur : Option Nat) (g : Nat) : List Var :=
  match cur with
  | some c => (match findSub p c with
    | some cd => if cd.reenters.contains g then cd.locals else []
    | none => [])
  | none => []

def restoreW (saved : List (Var × Val)) (w : World) : World :=
  { w with scratch := saved.foldl (fun sc (p : Var × Val) => setSlot sc p.1 p.2) w.scratch }

def finishCall (sd : SubDef) (saved : List (Var × Val)) (r : Res) (w3 : World) : Res × World :=
  match r with
  | .ret none => if sd.hasRet then (.fail (.typeErr "missing return value"), w3) else (.vals [], restoreW saved w3)
  | .ret (some v) => if sd.hasRet then (.vals [v], restoreW saved w3) else (.fail (.typeErr "unexpected return value"), w3)
  | .vals [] => if sd.hasRet then (.fail (.typeErr "missing return value"), w3) else (.vals [], restoreW saved w3)
  | .vals [v] => if sd.hasRet then (.vals [v], restoreW saved w3) else (.fail (.typeErr "unexpected value"), w3)
  | .vals _ => (.fail (.typeErr "routine left several values"), w3)
  | .brk | .cont => (.fail (.illegal "break/continue escaping a routine"), w3)
  | r => (r, w3)

def bindSc (params : List (ParamKind × Var)) (vals : List Val) (sc : Scratch) : Scratch :=
  (params.zip vals).foldl (fun sc (p : (ParamKind × Var) × Val) => setSlot sc p.1.2 p.2) sc

theorem eval_call (env : Env) (fuel g : Nat) (args : List Expr) (w : World) (sd : SubDef) (h : findSub env.prog g = some sd) :
    eval env (fuel + 1) (.call g args) w =
      match evalArgs env fuel args w [] with
      | (.vals st, w1) =>
        if st.reverse.length ≠ sd.params.length then (.fail (.typeErr "arity"), w1) else
        finishCall sd ((callerLocalsOf env.prog env.cur g).map (fun v => (v, getSlot w1.scratch v)))
          (eval { env with cur := some g } fuel sd.body { w1 with scratch := bindSc sd.params st.reverse w1.scratch }).1
          (eval { env with cur := some g } fuel sd.body { w1 with scratch := bindSc sd.params st.reverse w1.scratch }).2
      | r => r := by
  simp only [eval, h]
  rcases evalArgs env fuel args w [] with ⟨r, w1⟩
  cases r <;> rfl

theorem eval_call_none (env : Env) (fuel g : Nat) (args : List Expr) (w : World) (h : findSub env.prog g = none) :
    eval env (fuel + 1) (.call g args) w = (.fail (.illegal "unknown subroutine"), w) := by
  simp only [eval, h]

/-- the value part of the `wideRatio` arm -/
def wrRes (k : Nat) (st : List Val) : Res :=
  match st.reverse.mapM (fun v => match v with | .u n => some n | _ => none) with
  | none => .fail (.typeErr "WideRatio factor not uint64")
  | some xs =>
    (match wideProd (xs.take k), wideProd (xs.drop k) with
     | some pn, some pd =>
       if pd = 0 then .fail (.logic "WideRatio division by zero")
       else if pn / pd < two64 then .vals [.u (pn / pd)]
       else .fail (.logic "WideRatio overflow")
     | _, _ => .fail (.logic "WideRatio product overflow"))

theorem eval_wideRatio (env : Env) (fuel : Nat) (ns ds : List Expr) (w : World) :
    eval env (fuel + 1) (.wideRatio ns ds) w =
      match evalArgs env fuel (ns ++ ds) w [] with
      | (.vals st, w1) => (wrRes ns.length st, w1)
      | r => r := by
  simp only [eval]
  rcases evalArgs env fuel (ns ++ ds) w [] with ⟨r, w1⟩
  cases r <;> try rfl
  rename_i st
  simp only [wrRes]
  generalize (List.mapM _ st.reverse : Option (List Nat)) = m
  cases m with
  | none => rfl
  | some xs =>
    simp only []
    generalize wideProd (List.take ns.length xs) = a
    generalize wideProd (List.drop ns.length xs) = b
    cases a <;> cases b <;> try rfl
    simp only []
    split
    · rfl
    · split <;> rfl

/-! ### syntactic facts about the renaming -/

theorem renameList_append (f : Nat → Nat) : ∀ (a b : List Expr), renameList f (a ++ b) = renameList f a ++ renameList f b
  | [], _ => by simp [renameList]
  | e :: a, b => by simp [renameList, renameList_append f a b]

theorem renameList_length (f : Nat → Nat) : ∀ (a : List Expr), (renameList f a).length = a.length
  | [] => by simp [renameList]
  | e :: a => by simp [renameList, renameList_length f a]

theorem dOkL_append (K : DK) : ∀ (a b : List Expr), dOkL K (a ++ b) = (dOkL K a && dOkL K b)
  | [], _ => by simp [dOkL]
  | e :: a, b => by simp [dOkL, dOkL_append K a b, Bool.and_assoc]

theorem varsL_append : ∀ (a b : List Expr), varsL (a ++ b) = varsL a ++ varsL b
  | [], _ => by simp [varsL]
  | e :: a, b => by simp [varsL, varsL_append a b]

/-- without a reference position the kinded operand check is the plain one -/
theorem dOkK_plain (K : DK) : ∀ (ks : List Bool) (es : List Expr), ks.any id = false → dOkK K ks es = dOkL K es
  | _, [], _ => by simp [dOkK, dOkL]
  | [], e :: es, h => by simp [dOkK, dOkL, dOkK_plain K [] es h]
  | true :: ks, e :: es, h => by simp at h
  | false :: ks, e :: es, h => by
    have h' : ks.any id = false := by simpa using h
    simp [dOkK, dOkL, dOkK_plain K ks es h']

/-! ### scratch writes in bulk -/

theorem ScR.setZip {C : RCtx} (hok : ROk C) {S : Nat → Prop} :
    ∀ (vs : List Nat) (xs : List Val), (∀ v, v ∈ vs → v ∈ C.D ∧ v ∉ C.R) → ∀ {sc sc' : Scratch}, ScR C S sc sc' →
      ScR C S ((vs.zip xs).foldl (fun sc (p : Var × Val) => setSlot sc p.1 p.2) sc)
              (((vs.map C.f).zip xs).foldl (fun sc (p : Var × Val) => setSlot sc p.1 p.2) sc')
  | [], _, _, _, _, h => by simpa using h
  | _ :: _, [], _, _, _, h => by simpa using h
  | v :: vs, x :: xs, hvs, _, _, h => by
    simp only [List.map_cons, List.zip_cons_cons, List.foldl_cons]
    exact ScR.setZip hok vs xs (fun u hu => hvs u (List.mem_cons_of_mem _ hu))
      (h.set hok (hvs v (List.mem_cons_self ..)).1 (Cell.plain (hvs v (List.mem_cons_self ..)).2 _))

/-- restoring the caller's locals from a snapshot -/
theorem ScR.restore {C : RCtx} (hok : ROk C) {S : Nat → Prop} {sn sn' : Scratch} (hsn : ScR C S sn sn') :
    ∀ (cl : List Nat), (∀ v, v ∈ cl → v ∈ C.D) → ∀ {sc sc' : Scratch}, ScR C S sc sc' →
      ScR C S ((cl.map (fun v => (v, getSlot sn v))).foldl (fun sc (p : Var × Val) => setSlot sc p.1 p.2) sc)
              (((cl.map C.f).map (fun v => (v, getSlot sn' v))).foldl (fun sc (p : Var × Val) => setSlot sc p.1 p.2) sc')
  | [], _, _, _, h => by simpa using h
  | v :: cl, hcl, _, _, h => by
    simp only [List.map_cons, List.foldl_cons]
    exact ScR.restore hok hsn cl (fun u hu => hcl u (List.mem_cons_of_mem _ hu))
      (h.set hok (hcl v (List.mem_cons_self ..)) (hsn v (hcl v (List.mem_cons_self ..))))


/-! ### calls: caller's locals, parameter binding, the end of a call -/

theorem callerLocals_rename (f : Nat → Nat) (p : Prog) (cur : Option Nat) (g : Nat) :
    callerLocalsOf (renameProg f p) cur g = (callerLocalsOf p cur g).map f := by
  unfold callerLocalsOf
  cases cur with
  | none => rfl
  | some c =>
    simp only [findSub_rename]
    cases findSub p c with
    | none => rfl
    | some cd =>
      simp only [Option.map_some, renameSub]
      split <;> rfl

theorem callerLocals_mem {p : Prog} {cur : Option Nat} {g : Nat} {v : Nat} (hL : ∀ c, cur = some c → c ∈ liveSet p)
    (h : v ∈ callerLocalsOf p cur g) : v ∈ varsP p := by
  unfold callerLocalsOf at h
  cases cur with
  | none => cases h
  | some c =>
    simp only at h
    cases hc : findSub p c with
    | none => rw [hc] at h; cases h
    | some cd =>
      rw [hc] at h
      simp only at h
      split at h
      · exact mem_varsP_of_sub (findSub_mem hc) (by rw [findSub_id hc]; exact hL c rfl) (by simp [varsSub, h])
      · cases h

theorem rpOf_mem {p : Prog} {cur : Option Nat} {v : Nat} (h : v ∈ rpOf p cur) : v ∈ allRefSlots p := by
  unfold rpOf at h
  cases cur with
  | none => cases h
  | some c =>
    simp only at h
    cases hc : findSub p c with
    | none => rw [hc] at h; cases h
    | some cd =>
      rw [hc] at h
      exact mem_allRefSlots (findSub_mem hc) h

/-- cell `v` / cell `f v` hold a reference -/
def RefAt (C : RCtx) (sc sc' : Scratch) (v : Nat) : Prop := RefV C (getSlot sc v) (getSlot sc' (C.f v))

theorem ScR.refAt {C : RCtx} {S : Nat → Prop} {sc sc' : Scratch} (h : ScR C S sc sc') {v : Nat} (hv : v ∈ C.D) (hr : v ∈ C.R)
    (hs : S v) : RefAt C sc sc' v := by
  have := h v hv
  unfold Cell at this
  rw [if_pos hr] at this
  rcases this with h1 | ⟨h1, _⟩
  · exact h1
  · exact absurd hs h1

theorem ScR.plainAt {C : RCtx} {S : Nat → Prop} {sc sc' : Scratch} (h : ScR C S sc sc') {v : Nat} (hv : v ∈ C.D) (hr : v ∉ C.R) :
    getSlot sc v = getSlot sc' (C.f v) := by
  have := h v hv
  unfold Cell at this
  rw [if_neg hr] at this
  exact this

/-- the cells of `T` hold references: they may join `S` -/
theorem ScR.strengthen {C : RCtx} {S T : Nat → Prop} {sc sc' : Scratch} (h : ScR C S sc sc')
    (hT : ∀ v, v ∈ C.D → v ∈ C.R → T v → RefAt C sc sc' v) : ScR C (fun v => S v ∨ T v) sc sc' := by
  intro v hv
  have := h v hv
  unfold Cell at this ⊢
  split
  · rename_i hr
    rw [if_pos hr] at this
    rcases this with h1 | ⟨h1, h2⟩
    · exact .inl h1
    · by_cases ht : T v
      · exact .inl (hT v hv hr ht)
      · exact .inr ⟨fun hh => hh.elim h1 ht, h2⟩
  · rename_i hr
    rw [if_neg hr] at this
    exact this

end PyTealV.Proofs.Rename
