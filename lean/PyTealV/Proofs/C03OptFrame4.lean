/- C03 — frame property of `Avm.execPrim`, part 4 of 4 (generated list of opcodes; see C03OptFrameTac) -/
import PyTealV.Proofs.C03OptFrameTac
namespace PyTealV.Models.Optimizer
open PyTealV PyTealV.Avm
set_option linter.unusedSimpArgs false

theorem primFrame_96 : PrimFrame "app_global_get" := by frame_tac
theorem primFrame_97 : PrimFrame "app_global_get_ex" := by frame_tac
theorem primFrame_98 : PrimFrame "app_global_put" := by frame_tac
theorem primFrame_99 : PrimFrame "app_global_del" := by frame_tac
theorem primFrame_100 : PrimFrame "app_local_get" := by frame_tac
theorem primFrame_101 : PrimFrame "app_local_get_ex" := by frame_tac
theorem primFrame_102 : PrimFrame "app_local_put" := by frame_tac
theorem primFrame_103 : PrimFrame "app_local_del" := by frame_tac
theorem primFrame_104 : PrimFrame "app_opted_in" := by frame_tac
theorem primFrame_105 : PrimFrame "balance" := by frame_tac
theorem primFrame_106 : PrimFrame "min_balance" := by frame_tac
theorem primFrame_107 : PrimFrame "asset_holding_get" := by frame_tac
theorem primFrame_108 : PrimFrame "asset_params_get" := by frame_tac
theorem primFrame_109 : PrimFrame "app_params_get" := by frame_tac
theorem primFrame_110 : PrimFrame "acct_params_get" := by frame_tac
theorem primFrame_111 : PrimFrame "log" := by frame_tac
theorem primFrame_112 : PrimFrame "box_create" := by frame_tac
theorem primFrame_113 : PrimFrame "box_put" := by frame_tac
theorem primFrame_114 : PrimFrame "box_get" := by frame_tac
theorem primFrame_115 : PrimFrame "box_len" := by frame_tac
theorem primFrame_116 : PrimFrame "box_del" := by frame_tac
theorem primFrame_117 : PrimFrame "box_extract" := by frame_tac
theorem primFrame_118 : PrimFrame "box_replace" := by frame_tac
theorem primFrame_119 : PrimFrame "itxn_begin" := by frame_tac
theorem primFrame_120 : PrimFrame "itxn_next" := by frame_tac
theorem primFrame_121 : PrimFrame "itxn_field" := by frame_tac
theorem primFrame_122 : PrimFrame "itxn_submit" := by frame_tac
theorem primFrame_123 : PrimFrame "itxn" := by frame_tac
theorem primFrame_124 : PrimFrame "suffix" := by frame_tac

end PyTealV.Models.Optimizer
